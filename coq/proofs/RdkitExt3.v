(* C20 extension 3: which configuration labels from_rdkit_molecule can lose.  fix_stereo is a parameter. *)
From Coq Require Import ZArith List String Bool Lia.
From Model Require Import PyBase PeriodicTable Stereo Rdkit.
From Gen Require Import Elements RdkitTables StereoTables.
From Proofs Require Import StereoProofs RdkitProofs RdkitExt RdkitExt2.
Import ListNotations.
Open Scope string_scope.
Open Scope Z_scope.

(* the label the loop of from_rdkit_molecule gives the atom with index k: a value, or None for one of three reasons *)
Definition atom_label (isH : Z -> bool) (th : list (Z * list Z)) (nb : Z -> list Z) (k : Z) (tag : string) : option bool :=
  match sign_of_tag tag with
  | None => None                                                  (* (1) no CW/CCW tag *)
  | Some t =>
      match zget th (k + 1) with
      | None => None                                              (* (2) not a stereogenic tetrahedron for chython *)
      | Some o => match translate_th isH o (map (fun j => j + 1) (nb k)) t with
                  | Ok s => Some s
                  | Err _ => None                                 (* (3) KeyError: four listed neighbours, three in the registry, no hydrogen *)
                  end
      end
  end.

Lemma from_tags_spec isH th nb : forall tags k ls,
  from_tags isH th nb k tags = Ok ls ->
  ls = map (fun it => (fst it + 1, atom_label isH th nb (fst it) (snd it))) (enum_from k tags) /\
  (* ... and the only exception the translation raised was KeyError *)
  Forall (fun it => match sign_of_tag (snd it), zget th (fst it + 1) with
                    | Some t, Some o => match translate_th isH o (map (fun j => j + 1) (nb (fst it))) t with
                                        | Ok _ | Err KeyError => True | Err _ => False end
                    | _, _ => True end) (enum_from k tags).
Proof.
  induction tags as [|tag r IH]; intros k ls H.
  - cbn in H. injection H as <-. split; [reflexivity | constructor].
  - cbn [from_tags] in H.
    destruct (from_chiral_tag isH (zget th (k + 1)) (map (fun j => j + 1) (nb k)) tag) as [l|] eqn:E; [|discriminate].
    destruct (from_tags isH th nb (k + 1) r) as [ls'|] eqn:E2; [|discriminate]. injection H as <-.
    destruct (IH _ _ E2) as [-> HF]. cbn [enum_from map fst snd]. split.
    + f_equal. f_equal. unfold from_chiral_tag in E. unfold atom_label.
      destruct (sign_of_tag tag) as [t|]; [|injection E as <-; reflexivity].
      destruct (zget th (k + 1)) as [o|]; [|injection E as <-; reflexivity].
      destruct (translate_th isH o (map (fun j => j + 1) (nb k)) t) as [s|[]]; try discriminate; injection E as <-; reflexivity.
    + constructor; [|exact HF]. cbn [fst snd]. unfold from_chiral_tag in E.
      destruct (sign_of_tag tag) as [t|]; [|exact I]. destruct (zget th (k + 1)) as [o|]; [|exact I].
      destruct (translate_th isH o (map (fun j => j + 1) (nb k)) t) as [s|[]]; try discriminate; exact I.
Qed.

(* what is assumed about fix_stereo: it keeps the atoms and bonds and only ERASES labels (never changes or adds one) *)
Definition only_erases (fixs : stereo_labels -> stereo_labels) : Prop :=
  forall la lb, exists (keepA : Z -> bool) (keepB : Z * Z -> bool),
    fixs (la, lb) = (map (fun p => (fst p, if keepA (fst p) then snd p else None)) la,
                     map (fun p => (fst p, if keepB (fst p) then snd p else None)) lb).

Section Survive.
  Variable fixs : stereo_labels -> stereo_labels.
  Hypothesis fix_erases : only_erases fixs.
  Variables (isH : Z -> bool) (th : list (Z * list Z)) (ct : list (Z * Z * (Z * Z * option Z * option Z))) (nb : Z -> list Z).

  (* every atom label of the result: the translated RDKit tag, or nothing.  It is nothing for exactly four reasons: the three of
     [atom_label] and (4) fix_stereo erased it; fix_stereo runs only when the RDKit molecule has a tag or an E/Z label at all *)
  Theorem final_atom_labels : forall tags rbonds fa fb,
    from_stereo_final fixs isH th ct nb tags rbonds = Ok (fa, fb) ->
    exists keepA : Z -> bool,
      fa = map (fun it => (fst it + 1, if keepA (fst it + 1) then atom_label isH th nb (fst it) (snd it) else None)) (enum_from 0 tags) /\
      (has_tag tags || has_bond_label rbonds = false -> forall n, keepA n = true).
  Proof.
    intros tags rbonds fa fb H. unfold from_stereo_final in H.
    destruct (from_tags isH th nb 0 tags) as [la|] eqn:Ea; [|discriminate].
    destruct (from_bond_labels isH ct rbonds) as [lb|] eqn:Eb; [|discriminate].
    destruct (from_tags_spec _ _ _ _ _ _ Ea) as [-> _].
    destruct (has_tag tags || has_bond_label rbonds) eqn:Eh.
    - destruct (fix_erases (map (fun it => (fst it + 1, atom_label isH th nb (fst it) (snd it))) (enum_from 0 tags)) lb) as (keepA & keepB & Hf).
      rewrite Hf in H. injection H as <- _. exists keepA. split; [|discriminate].
      rewrite map_map. reflexivity.
    - injection H as <- _. exists (fun _ => true). split; [reflexivity | intros _ n; reflexivity].
  Qed.

  (* no label is invented and none is changed: a label of the result is the translation of a CW/CCW tag of that atom *)
  Corollary final_atom_label_sound : forall tags rbonds fa fb n s,
    from_stereo_final fixs isH th ct nb tags rbonds = Ok (fa, fb) -> In (n, Some s) fa ->
    exists k tag t o, n = k + 1 /\ In (k, tag) (enum_from 0 tags) /\ sign_of_tag tag = Some t /\ zget th n = Some o /\
                      translate_th isH o (map (fun j => j + 1) (nb k)) t = Ok s.
  Proof.
    intros tags rbonds fa fb n s H Hin. destruct (final_atom_labels _ _ _ _ H) as (keepA & -> & _).
    apply in_map_iff in Hin. destruct Hin as ([k tag] & E & Hin). cbn [fst snd] in E. injection E as <- E.
    destruct (keepA (k + 1)); [|discriminate]. unfold atom_label in E.
    destruct (sign_of_tag tag) as [t|] eqn:Et; [|discriminate]. destruct (zget th (k + 1)) as [o|] eqn:Eo; [|discriminate].
    destruct (translate_th isH o (map (fun j => j + 1) (nb k)) t) as [s'|] eqn:Es; [|discriminate]. injection E as <-.
    exists k, tag, t, o. auto.
  Qed.
End Survive.

(* the four causes are real: one instance of each.  Atom 2 of a four-atom molecule, RDKit tag CCW, neighbours 0 2 3 *)
Example lost_label_causes :
  let nb := fun _ : Z => [0; 2; 3] in
  let th := [(2, [1; 3; 4])] in
  let erase2 : stereo_labels -> stereo_labels :=
    fun l => (map (fun p => (fst p, if fst p =? 2 then None else snd p)) (fst l), snd l) in
  let same : stereo_labels -> stereo_labels := fun l => l in
  let tags := ["CHI_UNSPECIFIED"; "CHI_TETRAHEDRAL_CCW"; "CHI_UNSPECIFIED"; "CHI_UNSPECIFIED"] in
  (* kept *)
  from_stereo_final same (fun _ => false) th [] nb tags [] = Ok ([(1, None); (2, Some true); (3, None); (4, None)], []) /\
  (* (1) no tag *)
  from_stereo_final same (fun _ => false) th [] nb ["CHI_UNSPECIFIED"; "CHI_OTHER"; "CHI_UNSPECIFIED"; "CHI_UNSPECIFIED"] [] =
    Ok ([(1, None); (2, None); (3, None); (4, None)], []) /\
  (* (2) not in the registry *)
  from_stereo_final same (fun _ => false) [] [] nb tags [] = Ok ([(1, None); (2, None); (3, None); (4, None)], []) /\
  (* (3) KeyError: RDKit lists four neighbours, the registry holds three, none of the four is a hydrogen *)
  from_stereo_final same (fun _ => false) th [] (fun _ => [0; 2; 3; 4]) (tags ++ ["CHI_UNSPECIFIED"]) [] =
    Ok ([(1, None); (2, None); (3, None); (4, None); (5, None)], []) /\
  (* (4) erased by fix_stereo *)
  from_stereo_final erase2 (fun _ => false) th [] nb tags [] = Ok ([(1, None); (2, None); (3, None); (4, None)], []) /\
  only_erases same /\ only_erases erase2.
Proof.
  cbn zeta. repeat split; try (vm_compute; reflexivity).
  - intros la lb. exists (fun _ => true), (fun _ => true). cbn. f_equal.
    + rewrite <- (map_id la) at 1. apply map_ext. intros [a b]. reflexivity.
    + rewrite <- (map_id lb) at 1. apply map_ext. intros [a b]. reflexivity.
  - intros la lb. exists (fun n => negb (n =? 2)), (fun _ => true). cbn. f_equal.
    + apply map_ext. intros [a b]. cbn. destruct (a =? 2); reflexivity.
    + rewrite <- (map_id lb) at 1. apply map_ext. intros [a b]. reflexivity.
Qed.

(* the same for double bonds *)
Definition bond_label (isH : Z -> bool) (ct : list (Z * Z * (Z * Z * option Z * option Z))) (rb : Z * Z * string * Z * Z) : option bool :=
  let '(bi, ei, label, sb, se) := rb in
  match sign_of_bs label with
  | None => None                                                      (* (1) no E/Z label (STEREONONE, STEREOANY, STEREOCIS/TRANS) *)
  | Some t => match translate_ct isH (pget ct (bi + 1, ei + 1)) (pget ct (ei + 1, bi + 1)) (sb + 1) (se + 1) t with
              | Ok s => Some s
              | Err _ => None                                         (* (2) no registry entry (not a stereogenic plain double bond
                                                                             for chython) / (3) reference atoms it cannot place *)
              end
  end.

Lemma from_bond_labels_spec isH ct : forall rbonds lb,
  from_bond_labels isH ct rbonds = Ok lb ->
  lb = map (fun rb => (fst (fst (fst (fst rb))) + 1, snd (fst (fst (fst rb))) + 1, bond_label isH ct rb)) rbonds.
Proof.
  unfold from_bond_labels. induction rbonds as [|[[[[bi ei] label] sb] se] r IH]; intros lb H.
  - cbn in H. injection H as <-. reflexivity.
  - cbn [mapM] in H.
    destruct (from_bond_stereo isH (pget ct (bi + 1, ei + 1)) (pget ct (ei + 1, bi + 1)) (sb + 1) (se + 1) label) as [l|] eqn:E; [|discriminate].
    destruct (mapM _ r) as [ls|] eqn:E2; [|discriminate]. injection H as <-. rewrite (IH _ eq_refl). cbn [map fst snd]. f_equal. f_equal.
    unfold from_bond_stereo in E. unfold bond_label. destruct (sign_of_bs label) as [t|]; [|injection E as <-; reflexivity].
    destruct (translate_ct isH (pget ct (bi + 1, ei + 1)) (pget ct (ei + 1, bi + 1)) (sb + 1) (se + 1) t) as [s|[]]; try discriminate;
      injection E as <-; reflexivity.
Qed.

Theorem final_bond_labels : forall fixs, only_erases fixs -> forall isH th ct nb tags rbonds fa fb,
  from_stereo_final fixs isH th ct nb tags rbonds = Ok (fa, fb) ->
  exists keepB : Z * Z -> bool,
    fb = map (fun rb => let k := (fst (fst (fst (fst rb))) + 1, snd (fst (fst (fst rb))) + 1) in
                        (k, if keepB k then bond_label isH ct rb else None)) rbonds /\
    (has_tag tags || has_bond_label rbonds = false -> forall k, keepB k = true).
Proof.
  intros fixs Hfix isH th ct nb tags rbonds fa fb H. unfold from_stereo_final in H.
  destruct (from_tags isH th nb 0 tags) as [la|] eqn:Ea; [|discriminate].
  destruct (from_bond_labels isH ct rbonds) as [lb|] eqn:Eb; [|discriminate].
  rewrite (from_bond_labels_spec _ _ _ _ Eb) in H.
  destruct (has_tag tags || has_bond_label rbonds) eqn:Eh.
  - destruct (Hfix la (map (fun rb => (fst (fst (fst (fst rb))) + 1, snd (fst (fst (fst rb))) + 1, bond_label isH ct rb)) rbonds))
      as (keepA & keepB & Hf).
    rewrite Hf in H. injection H as _ <-. exists keepB. split; [|discriminate]. rewrite map_map. reflexivity.
  - injection H as _ <-. exists (fun _ => true). split; [reflexivity | intros _ k; reflexivity].
Qed.

(* ring double bonds: configuration is kept exactly in rings of eight and more atoms (as RDKit does) *)
Theorem ring_bond_chiral_cutoff : forall sizes, ring_bond_chiral sizes = true <-> (forall x, In x sizes -> 8 <= x).
Proof.
  intros sizes. unfold ring_bond_chiral. rewrite negb_true_iff. split.
  - intros H x Hx. destruct (x <? 8) eqn:E; [|apply Z.ltb_ge in E; exact E].
    assert (existsb (fun y => y <? 8) sizes = true) by (apply existsb_exists; exists x; auto). congruence.
  - intros H. destruct (existsb (fun x => x <? 8) sizes) eqn:E; [|reflexivity].
    apply existsb_exists in E. destruct E as (x & Hx & Hlt). apply Z.ltb_lt in Hlt. specialize (H x Hx). lia.
Qed.

Example ring_bond_chiral_examples :
  ring_bond_chiral [8] = true /\ ring_bond_chiral [7] = false /\ ring_bond_chiral [9; 12] = true /\ ring_bond_chiral [10; 6] = false.
Proof. vm_compute. repeat split; reflexivity. Qed.

(* the stereo-blind atom order is used exactly for molecules without any label: as soon as a double bond (or an atom) is
   labelled the order is refined by the labels, which is what makes a centre whose arms differ only by E/Z chiral *)
Theorem plain_order_iff_no_label : forall atoms bond_atoms, uses_plain_order atoms bond_atoms = true <-> atoms = [] /\ bond_atoms = [].
Proof.
  intros atoms bond_atoms. unfold uses_plain_order. destruct atoms, bond_atoms; split; intros H; try discriminate; auto;
    destruct H; discriminate.
Qed.
