(* C20 extension: the per-centre configuration theorems composed over whole molecules; general arrangement lemmas. *)
From Coq Require Import ZArith List String Bool Lia.
From Model Require Import PyBase PeriodicTable Stereo Rdkit.
From Gen Require Import Elements RdkitTables StereoTables.
From Proofs Require Import StereoProofs RdkitProofs.
Import ListNotations.
Open Scope string_scope.
Open Scope Z_scope.

(* ================================================================================================ *)
(* 1. the sign translation between ANY two arrangements of one neighbour set *)
Definition inv_of (u : list Z) (dom : list Z) : list Z := map (fun i => match index_of u i with Some k => k | None => 0 end) dom.

Lemma s4_division_b :
  forallb (fun u => forallb (fun v => let w := compose (inv_of u [0; 1; 2; 3]) v in
     in_perms perms4 w && list_eqb Z.eqb (compose u w) v && Bool.eqb (odd_perm w) (xorb (odd_perm u) (odd_perm v))) perms4) perms4 = true.
Proof. vm_compute. reflexivity. Qed.

Lemma s3_division_b :
  forallb (fun u => forallb (fun v => let w := compose (inv_of u [0; 1; 2]) v in
     in_perms perms3 w && list_eqb Z.eqb (compose u w) v &&
     Bool.eqb (odd_perm (w ++ [3])) (xorb (odd_perm (u ++ [3])) (odd_perm (v ++ [3])))) perms3) perms3 = true.
Proof. vm_compute. reflexivity. Qed.

Lemma s34_division_b :
  forallb (fun u => forallb (fun v => let w := compose (inv_of (u ++ [3]) [0; 1; 2; 3]) v in
     in_perms perms4 w && list_eqb Z.eqb (compose (u ++ [3]) w) v &&
     Bool.eqb (odd_perm w) (xorb (odd_perm (u ++ [3])) (odd_perm v))) perms4) perms3 = true.
Proof. vm_compute. reflexivity. Qed.

Lemma s4_division u v : In u perms4 -> In v perms4 ->
  exists w, In w perms4 /\ compose u w = v /\ odd_perm w = xorb (odd_perm u) (odd_perm v).
Proof.
  intros Hu Hv. pose proof s4_division_b as H. rewrite forallb_forall in H. specialize (H u Hu).
  rewrite forallb_forall in H. specialize (H v Hv). cbn zeta in H.
  apply andb_prop in H. destruct H as [H H3]. apply andb_prop in H. destruct H as [H1 H2].
  eexists. split; [apply in_perms_In; exact H1|]. split; [apply list_eqb_Z_eq; exact H2 | apply eqb_prop; exact H3].
Qed.

Lemma s3_division u v : In u perms3 -> In v perms3 ->
  exists w, In w perms3 /\ compose u w = v /\ odd_perm (w ++ [3]) = xorb (odd_perm (u ++ [3])) (odd_perm (v ++ [3])).
Proof.
  intros Hu Hv. pose proof s3_division_b as H. rewrite forallb_forall in H. specialize (H u Hu).
  rewrite forallb_forall in H. specialize (H v Hv). cbn zeta in H.
  apply andb_prop in H. destruct H as [H H3]. apply andb_prop in H. destruct H as [H1 H2].
  eexists. split; [apply in_perms_In; exact H1|]. split; [apply list_eqb_Z_eq; exact H2 | apply eqb_prop; exact H3].
Qed.

Lemma s34_division u v : In u perms3 -> In v perms4 ->
  exists w, In w perms4 /\ compose (u ++ [3]) w = v /\ odd_perm w = xorb (odd_perm (u ++ [3])) (odd_perm v).
Proof.
  intros Hu Hv. pose proof s34_division_b as H. rewrite forallb_forall in H. specialize (H u Hu).
  rewrite forallb_forall in H. specialize (H v Hv). cbn zeta in H.
  apply andb_prop in H. destruct H as [H H3]. apply andb_prop in H. destruct H as [H1 H2].
  eexists. split; [apply in_perms_In; exact H1|]. split; [apply list_eqb_Z_eq; exact H2 | apply eqb_prop; exact H3].
Qed.

Lemma znth_map {A B} (f : A -> B) (l : list A) i da db : 0 <= i < Z.of_nat (List.length l) -> znth (map f l) i db = f (znth l i da).
Proof.
  intros Hi. unfold znth. destruct (i <? 0) eqn:E; [lia|]. rewrite (nth_indep _ db (f da)) by (rewrite map_length; lia).
  apply map_nth.
Qed.

Lemma sel_compose order u w : (forall i, In i w -> 0 <= i < Z.of_nat (List.length u)) -> sel (sel order u) w = sel order (compose u w).
Proof.
  intros Hw. unfold sel, compose. rewrite map_map. apply map_ext_in. intros i Hi.
  apply (znth_map (fun j => znth order j 0) u i 0 0). apply Hw. exact Hi.
Qed.

Lemma NoDup4_neq (a b c d : Z) : NoDup [a; b; c; d] -> a <> b /\ a <> c /\ a <> d /\ b <> c /\ b <> d /\ c <> d.
Proof.
  intros Hn. inversion Hn as [|? ? Na Hn1]; subst. inversion Hn1 as [|? ? Nb Hn2]; subst. inversion Hn2 as [|? ? Nc Hn3]; subst.
  cbn in Na, Nb, Nc. intuition congruence.
Qed.
Lemma neq_NoDup4 (a b c d : Z) : a <> b -> a <> c -> a <> d -> b <> c -> b <> d -> c <> d -> NoDup [a; b; c; d].
Proof. intros. repeat constructor; cbn; intuition congruence. Qed.
Lemma NoDup3_neq (a b c : Z) : NoDup [a; b; c] -> a <> b /\ a <> c /\ b <> c.
Proof.
  intros Hn. inversion Hn as [|? ? Na Hn1]; subst. inversion Hn1 as [|? ? Nb Hn2]; subst. cbn in Na, Nb. intuition congruence.
Qed.
Lemma neq_NoDup3 (a b c : Z) : a <> b -> a <> c -> b <> c -> NoDup [a; b; c].
Proof. intros. repeat constructor; cbn; intuition congruence. Qed.

(* evaluate [sel order p] for a literal arrangement p (the order may hold variables) *)
Ltac eval_sel :=
  repeat match goal with
         | |- context [sel ?o (?i :: ?r)] => let x := eval cbv in (sel o (i :: r)) in progress change (sel o (i :: r)) with x
         end.

Section AnyArrangement.
  Variable isH : Z -> bool.

  (* registry order = arrangement u of the neighbours, listed order = arrangement v: the sign changes by the parity between them *)
  Theorem translate_th_general4 a b c d u v s : NoDup [a; b; c; d] -> In u perms4 -> In v perms4 ->
    translate_th isH (sel [a; b; c; d] u) (sel [a; b; c; d] v) s = Ok (xorb s (xorb (odd_perm u) (odd_perm v))).
  Proof.
    intros Hn Hu Hv. destruct (s4_division u v Hu Hv) as (w & Hw & Hc & Hp). rewrite <- Hp, <- Hc.
    destruct (perms4_range u Hu) as [Hlu _]. destruct (perms4_range w Hw) as [_ Hrw].
    rewrite <- sel_compose by (intros i Hi; rewrite Hlu; apply Hrw; exact Hi).
    destruct (NoDup4_neq _ _ _ _ Hn) as (N1 & N2 & N3 & N4 & N5 & N6).
    cbv in Hu.
    repeat (destruct Hu as [Hu|Hu]; [subst u; eval_sel;
      refine (proj1 (translate_th_parity4 isH _ _ _ _ w s _ Hw)); apply neq_NoDup4; congruence|]).
    contradiction.
  Qed.

  Theorem translate_th_general3 a b c u v s : NoDup [a; b; c] -> In u perms3 -> In v perms3 ->
    translate_th isH (sel [a; b; c] u) (sel [a; b; c] v) s = Ok (xorb s (xorb (odd_perm (u ++ [3])) (odd_perm (v ++ [3])))).
  Proof.
    intros Hn Hu Hv. destruct (s3_division u v Hu Hv) as (w & Hw & Hc & Hp). rewrite <- Hp, <- Hc.
    destruct (perms3_range u Hu) as [Hlu _]. destruct (perms3_range w Hw) as [_ Hrw].
    rewrite <- sel_compose by (intros i Hi; rewrite Hlu; apply Hrw; exact Hi).
    destruct (NoDup3_neq _ _ _ Hn) as (N1 & N2 & N3).
    cbv in Hu.
    repeat (destruct Hu as [Hu|Hu]; [subst u; eval_sel;
      refine (translate_th_parity3 isH _ _ _ w s _ Hw); apply neq_NoDup3; congruence|]).
    contradiction.
  Qed.

  (* three heavy neighbours in the registry (any arrangement u of them), hydrogen atom h listed among the four (any arrangement v) *)
  Theorem translate_th_general3H a b c h u v s :
    NoDup [a; b; c; h] -> isH a = false -> isH b = false -> isH c = false -> isH h = true -> In u perms3 -> In v perms4 ->
    translate_th isH (sel [a; b; c] u) (sel [a; b; c; h] v) s = Ok (xorb s (xorb (odd_perm (u ++ [3])) (odd_perm v))).
  Proof.
    intros Hn Ha Hb Hc Hh Hu Hv. destruct (s34_division u v Hu Hv) as (w & Hw & Hcm & Hp). rewrite <- Hp, <- Hcm.
    destruct (perms3_range u Hu) as [Hlu _]. destruct (perms4_range w Hw) as [_ Hrw].
    rewrite <- sel_compose by (intros i Hi; rewrite app_length, Hlu; apply Hrw; exact Hi).
    destruct (NoDup4_neq _ _ _ _ Hn) as (N1 & N2 & N3 & N4 & N5 & N6).
    cbv in Hu.
    repeat (destruct Hu as [Hu|Hu]; [subst u; cbn [app]; eval_sel;
      refine (translate_th_parity3H isH _ _ _ _ w s _ _ _ _ _ Hw); try assumption; apply neq_NoDup4; congruence|]).
    contradiction.
  Qed.
End AnyArrangement.

(* ================================================================================================ *)
(* 2. one centre through to_rdkit_molecule and from_rdkit_molecule, the rebuilt molecule having its own registry order *)
Lemma sel_map (f : Z -> Z) order p : (forall i, In i p -> 0 <= i < Z.of_nat (List.length order)) ->
  map f (sel order p) = sel (map f order) p.
Proof.
  intros Hp. unfold sel. rewrite map_map. apply map_ext_in. intros i Hi. symmetry.
  apply (znth_map f order i 0 0). apply Hp. exact Hi.
Qed.

Lemma id4_perm : In [0; 1; 2; 3] perms4 /\ odd_perm [0; 1; 2; 3] = false. Proof. split; vm_compute; tauto. Qed.
Lemma id3_perm : In [0; 1; 2] perms3 /\ odd_perm ([0; 1; 2] ++ [3]) = false. Proof. split; vm_compute; tauto. Qed.

Section OneCentre.
  Variables isH isH' : Z -> bool.     (* "is a hydrogen atom" in the molecule given and in the molecule rebuilt *)
  Variable rho : Z -> Z.              (* old atom number -> new atom number *)

  (* [same_configuration o o' s s']: label s' against the new registry order o' denotes the configuration label s denotes
     against the old order o: translated to the (renamed) old order it IS s *)
  Definition same_configuration (o o' : list Z) (s s' : bool) : Prop := translate_th isH' o' (map rho o) s' = Ok s.

  Theorem centre4_roundtrip a b c d p q s :
    let o := [a; b; c; d] in
    NoDup o -> NoDup (map rho o) -> In p perms4 -> In q perms4 ->
    exists tag s', to_chiral_tag isH (Some o) (sel o p) (Some s) = Ok (Some tag) /\
      from_chiral_tag isH' (Some (sel (map rho o) q)) (map rho (sel o p)) (tag_name (Some tag)) = Ok (Some s') /\
      same_configuration o (sel (map rho o) q) s s'.
  Proof.
    intros o Hn Hn' Hp Hq. subst o. destruct (perms4_range p Hp) as [_ Hrp].
    exists (tag_of_sign (xorb s (odd_perm p))), (xorb s (odd_perm q)).
    unfold to_chiral_tag, from_chiral_tag, tag_name, same_configuration.
    rewrite (proj1 (translate_th_parity4 isH a b c d p s Hn Hp)). split; [reflexivity|].
    rewrite sign_tag_inverse. rewrite sel_map by exact Hrp. cbn [map] in *.
    rewrite (translate_th_general4 isH' _ _ _ _ q p _ Hn' Hq Hp). split.
    - do 2 f_equal. destruct s, (odd_perm p), (odd_perm q); reflexivity.
    - destruct id4_perm as [Hid Hpar].
      change [rho a; rho b; rho c; rho d] with (sel [rho a; rho b; rho c; rho d] [0; 1; 2; 3]) at 2.
      rewrite (translate_th_general4 isH' _ _ _ _ q [0; 1; 2; 3] _ Hn' Hq Hid). rewrite Hpar.
      f_equal. destruct s, (odd_perm q); reflexivity.
  Qed.

  Theorem centre3_roundtrip a b c p q s :
    let o := [a; b; c] in
    NoDup o -> NoDup (map rho o) -> In p perms3 -> In q perms3 ->
    exists tag s', to_chiral_tag isH (Some o) (sel o p) (Some s) = Ok (Some tag) /\
      from_chiral_tag isH' (Some (sel (map rho o) q)) (map rho (sel o p)) (tag_name (Some tag)) = Ok (Some s') /\
      same_configuration o (sel (map rho o) q) s s'.
  Proof.
    intros o Hn Hn' Hp Hq. subst o. destruct (perms3_range p Hp) as [_ Hrp].
    exists (tag_of_sign (xorb s (odd_perm (p ++ [3])))), (xorb s (odd_perm (q ++ [3]))).
    unfold to_chiral_tag, from_chiral_tag, tag_name, same_configuration.
    rewrite (translate_th_parity3 isH a b c p s Hn Hp). split; [reflexivity|].
    rewrite sign_tag_inverse. rewrite sel_map by exact Hrp. cbn [map] in *.
    rewrite (translate_th_general3 isH' _ _ _ q p _ Hn' Hq Hp). split.
    - do 2 f_equal. destruct s, (odd_perm (p ++ [3])), (odd_perm (q ++ [3])); reflexivity.
    - destruct id3_perm as [Hid Hpar].
      change [rho a; rho b; rho c] with (sel [rho a; rho b; rho c] [0; 1; 2]) at 2.
      rewrite (translate_th_general3 isH' _ _ _ q [0; 1; 2] _ Hn' Hq Hid). rewrite Hpar.
      f_equal. destruct s, (odd_perm (q ++ [3])); reflexivity.
  Qed.

  Theorem centre3H_roundtrip a b c h p q s :
    let o := [a; b; c] in
    NoDup [a; b; c; h] -> NoDup (map rho [a; b; c; h]) ->
    isH a = false -> isH b = false -> isH c = false -> isH h = true ->
    isH' (rho a) = false -> isH' (rho b) = false -> isH' (rho c) = false -> isH' (rho h) = true ->
    In p perms4 -> In q perms3 ->
    exists tag s', to_chiral_tag isH (Some o) (sel [a; b; c; h] p) (Some s) = Ok (Some tag) /\
      from_chiral_tag isH' (Some (sel (map rho o) q)) (map rho (sel [a; b; c; h] p)) (tag_name (Some tag)) = Ok (Some s') /\
      same_configuration o (sel (map rho o) q) s s'.
  Proof.
    intros o Hn Hn' Ha Hb Hc Hh Ha' Hb' Hc' Hh' Hp Hq. subst o. destruct (perms4_range p Hp) as [_ Hrp].
    exists (tag_of_sign (xorb s (odd_perm p))), (xorb s (odd_perm (q ++ [3]))).
    unfold to_chiral_tag, from_chiral_tag, tag_name, same_configuration.
    rewrite (translate_th_parity3H isH a b c h p s Hn Ha Hb Hc Hh Hp). split; [reflexivity|].
    rewrite sign_tag_inverse. rewrite sel_map by exact Hrp. cbn [map] in *.
    rewrite (translate_th_general3H isH' _ _ _ _ q p _ Hn' Ha' Hb' Hc' Hh' Hq Hp). split.
    - do 2 f_equal. destruct s, (odd_perm p), (odd_perm (q ++ [3])); reflexivity.
    - destruct id3_perm as [Hid Hpar].
      assert (Hn3 : NoDup [rho a; rho b; rho c]).
      { destruct (NoDup4_neq _ _ _ _ Hn') as (N1 & N2 & N3 & N4 & N5 & N6). apply neq_NoDup3; assumption. }
      change [rho a; rho b; rho c] with (sel [rho a; rho b; rho c] [0; 1; 2]) at 2.
      rewrite (translate_th_general3 isH' _ _ _ q [0; 1; 2] _ Hn3 Hq Hid). rewrite Hpar.
      f_equal. destruct s, (odd_perm (q ++ [3])); reflexivity.
  Qed.
End OneCentre.

(* ================================================================================================ *)
(* 3. all tetrahedral labels of a molecule through to_rdkit_molecule and from_rdkit_molecule *)
Lemma unspecified_is_no_sign : sign_of_tag (tag_name None) = None.
Proof. vm_compute. reflexivity. Qed.

Section WholeTetrahedra.
  Variables isH isH' : Z -> bool.             (* hydrogen test in the molecule given / in the molecule rebuilt *)
  Variables th th' : list (Z * list Z).       (* stereogenic_tetrahedrons of the molecule given / rebuilt *)
  Variable nums : list Z.                     (* atom numbers in enumeration order: inverted[idx] *)
  Variable nb : Z -> list Z.                  (* RDKit: GetNeighbors() of the atom with index k, as indices, in RDKit's order *)
  Variable rho : Z -> Z.                      (* old number -> new number *)

  Definition env_old (k : Z) : list Z := map (fun j => znth nums j 0) (nb k).    (* what to_rdkit_molecule passes *)
  Definition env_new (k : Z) : list Z := map (fun j => j + 1) (nb k).            (* what from_rdkit_molecule passes *)

  (* a labelled stereogenic centre at index k with registry order o: RDKit lists its neighbours in SOME arrangement p, the
     rebuilt molecule holds them (renamed) in SOME arrangement q; four heavy neighbours, three + implicit hydrogen, or three +
     a hydrogen atom that RDKit lists too *)
  Inductive centre_wf (k : Z) (o : list Z) : Prop :=
  | wf4 a b c d p q : o = [a; b; c; d] -> NoDup o -> NoDup (map rho o) -> In p perms4 -> In q perms4 ->
      env_old k = sel o p -> zget th' (k + 1) = Some (sel (map rho o) q) -> centre_wf k o
  | wf3 a b c p q : o = [a; b; c] -> NoDup o -> NoDup (map rho o) -> In p perms3 -> In q perms3 ->
      env_old k = sel o p -> zget th' (k + 1) = Some (sel (map rho o) q) -> centre_wf k o
  | wf3H a b c h p q : o = [a; b; c] -> NoDup [a; b; c; h] -> NoDup (map rho [a; b; c; h]) ->
      isH a = false -> isH b = false -> isH c = false -> isH h = true ->
      isH' (rho a) = false -> isH' (rho b) = false -> isH' (rho c) = false -> isH' (rho h) = true ->
      In p perms4 -> In q perms3 ->
      env_old k = sel [a; b; c; h] p -> zget th' (k + 1) = Some (sel (map rho o) q) -> centre_wf k o.

  Fixpoint atoms_wf (k : Z) (atoms : list (Z * option bool)) : Prop :=
    match atoms with
    | [] => True
    | (n, s) :: r =>
        (rho n = k + 1 /\
         match s, zget th n with
         | Some _, Some o => env_new k = map rho (env_old k) /\ centre_wf k o
         | _, _ => True
         end) /\ atoms_wf (k + 1) r
    end.

  Definition label_image (na na' : Z * option bool) : Prop :=
    fst na' = rho (fst na) /\
    match snd na, zget th (fst na) with
    | Some s, Some o => exists o' s', zget th' (fst na') = Some o' /\ snd na' = Some s' /\ same_configuration isH' rho o o' s s'
    | _, _ => snd na' = None
    end.

  Theorem tetrahedra_from_to : forall atoms k, atoms_wf k atoms ->
    exists tags, to_tags isH th nums nb k atoms = Ok tags /\
      exists labels', from_tags isH' th' nb k (map tag_name tags) = Ok labels' /\ Forall2 label_image atoms labels'.
  Proof.
    induction atoms as [|[n s] r IH]; intros k Hwf.
    - exists []. split; [reflexivity|]. exists []. split; [reflexivity | constructor].
    - destruct Hwf as [[Hrho Hc] Hr]. destruct (IH (k + 1) Hr) as (ts & Hts & ls & Hls & HF).
      cbn [to_tags]. fold (env_old k).
      assert (Hnone : to_chiral_tag isH (zget th n) (env_old k) s = Ok None ->
                (match s, zget th n with Some _, Some _ => False | _, _ => True end) ->
                exists tags, match to_chiral_tag isH (zget th n) (env_old k) s with
                             | Err e => Err e
                             | Ok t0 => match to_tags isH th nums nb (k + 1) r with Err e => Err e | Ok ts0 => Ok (t0 :: ts0) end
                             end = Ok tags /\
                  exists labels', from_tags isH' th' nb k (map tag_name tags) = Ok labels' /\ Forall2 label_image ((n, s) :: r) labels').
      { intros Hto Hcase. rewrite Hto, Hts. exists (None :: ts). split; [reflexivity|].
        cbn [map from_tags]. unfold from_chiral_tag at 1. rewrite unspecified_is_no_sign. rewrite Hls.
        exists ((k + 1, None) :: ls). split; [reflexivity|]. constructor; [|exact HF].
        split; [cbn; symmetry; exact Hrho|]. cbn [fst snd]. destruct s; [destruct (zget th n); [contradiction|]|]; reflexivity. }
      destruct s as [sv|]; [|apply Hnone; [reflexivity | exact I]].
      destruct (zget th n) as [o|] eqn:Eth; [|apply Hnone; [reflexivity | exact I]].
      clear Hnone. destruct Hc as [Henv Hwf].
      assert (Hstep : forall o' tag s', zget th' (k + 1) = Some o' ->
                to_chiral_tag isH (Some o) (env_old k) (Some sv) = Ok (Some tag) ->
                from_chiral_tag isH' (Some o') (map rho (env_old k)) (tag_name (Some tag)) = Ok (Some s') ->
                same_configuration isH' rho o o' sv s' ->
                exists tags, match to_chiral_tag isH (Some o) (env_old k) (Some sv) with
                             | Err e => Err e
                             | Ok t0 => match to_tags isH th nums nb (k + 1) r with Err e => Err e | Ok ts0 => Ok (t0 :: ts0) end
                             end = Ok tags /\
                  exists labels', from_tags isH' th' nb k (map tag_name tags) = Ok labels' /\ Forall2 label_image ((n, Some sv) :: r) labels').
      { intros o' tag s' Ho' Hto Hfrom Hsame. rewrite Hto, Hts. exists (Some tag :: ts). split; [reflexivity|].
        cbn [map from_tags]. fold (env_new k). rewrite Henv, Ho', Hfrom, Hls.
        exists ((k + 1, Some s') :: ls). split; [reflexivity|]. constructor; [|exact HF].
        split; [cbn; symmetry; exact Hrho|]. cbn [fst snd]. rewrite Eth. exists o', s'. auto. }
      destruct Hwf as [a b c d p q -> Hn Hn' Hp Hq He Hth' | a b c p q -> Hn Hn' Hp Hq He Hth' |
                       a b c h p q -> Hn Hn' Ha Hb Hc0 Hh Ha' Hb' Hc' Hh' Hp Hq He Hth'].
      + destruct (centre4_roundtrip isH isH' rho a b c d p q sv Hn Hn' Hp Hq) as (tag & s' & H1 & H2 & H3).
        apply (Hstep _ tag s' Hth'); rewrite ?He; assumption.
      + destruct (centre3_roundtrip isH isH' rho a b c p q sv Hn Hn' Hp Hq) as (tag & s' & H1 & H2 & H3).
        apply (Hstep _ tag s' Hth'); rewrite ?He; assumption.
      + destruct (centre3H_roundtrip isH isH' rho a b c h p q sv Hn Hn' Ha Hb Hc0 Hh Ha' Hb' Hc' Hh' Hp Hq) as (tag & s' & H1 & H2 & H3).
        apply (Hstep _ tag s' Hth'); rewrite ?He; assumption.
  Qed.
End WholeTetrahedra.

(* the renaming the code performs: the k-th atom (k from 0) becomes atom k + 1 *)
Definition rho_of (nums : list Z) (n : Z) : Z := match index_of nums n with Some i => i + 1 | None => 0 end.

Lemma rho_of_env nums l : NoDup nums -> (forall j, In j l -> 0 <= j < Z.of_nat (List.length nums)) ->
  map (fun j => j + 1) l = map (rho_of nums) (map (fun j => znth nums j 0) l).
Proof.
  intros Hn Hl. rewrite map_map. apply map_ext_in. intros j Hj. unfold rho_of, index_of.
  rewrite (index_from_znth nums 0 j Hn (Hl j Hj)). lia.
Qed.

Lemma rho_of_nth nums k : NoDup nums -> 0 <= k < Z.of_nat (List.length nums) -> rho_of nums (znth nums k 0) = k + 1.
Proof. intros Hn Hk. unfold rho_of, index_of. rewrite (index_from_znth nums 0 k Hn Hk). lia. Qed.

(* non-vacuity: N(3) - C*(7) - C(9), C*(7) - C(4); the centre has three heavy neighbours and an implicit hydrogen, label true
   against the order (3, 9, 4); RDKit lists the neighbours as indices 2, 0, 3; the rebuilt molecule holds them as (1, 4, 3) *)
Example tetrahedra_example :
  let nums := [3; 7; 9; 4] in
  let atoms := [(3, None); (7, Some true); (9, None); (4, None)] in
  let th := [(7, [3; 9; 4])] in
  let th' := [(2, [1; 4; 3])] in
  let nb := fun k => if k =? 1 then [2; 0; 3] else [1] in
  atoms_wf (fun _ => false) (fun _ => false) th th' nums nb (rho_of nums) 0 atoms /\
  to_tags (fun _ => false) th nums nb 0 atoms = Ok [None; Some "CHI_TETRAHEDRAL_CW"; None; None] /\
  from_tags (fun _ => false) th' nb 0 (map tag_name [None; Some "CHI_TETRAHEDRAL_CW"; None; None]) =
    Ok [(1, None); (2, Some false); (3, None); (4, None)] /\
  translate_th (fun _ => false) [1; 4; 3] (map (rho_of nums) [3; 9; 4]) false = Ok true.
Proof.
  cbn zeta. split; [|split; [vm_compute; reflexivity | split; vm_compute; reflexivity]].
  cbn [atoms_wf zget Z.eqb]. repeat split; try (vm_compute; reflexivity).
  apply wf3 with (a := 3) (b := 9) (c := 4) (p := [1; 0; 2]) (q := [0; 2; 1]); try reflexivity; try (vm_compute; tauto).
  - repeat constructor; cbn; intuition lia.
  - vm_compute. repeat constructor; cbn; intuition lia.
Qed.

(* ================================================================================================ *)
(* 4. the direction of a coordinate bond and the order of the atoms.
   data.bonds() yields every bond once, as (n, m) or as (m, n) depending on the enumeration order of the atoms; the code looks
   at the symbol of the FIRST atom only. *)

(* whenever both atoms are inside `_inorganic` or both outside, the two enumerations of ONE bond give opposite directions *)
Theorem dative_direction_follows_order : forall s1 s2 n m, n <> m ->
  smem s1 inorganic = smem s2 inorganic ->
  exists b e, to_bond s1 n m 8 = Ok (b, e, "DATIVE") /\ to_bond s2 m n 8 = Ok (e, b, "DATIVE") /\ (b, e) <> (e, b).
Proof.
  intros s1 s2 n m Hnm Hc. unfold to_bond. rewrite Hc.
  assert (H8 : bond_type 8 = Ok "DATIVE") by (vm_compute; reflexivity). rewrite H8.
  destruct (smem s2 inorganic); cbn [negb].
  - exists n, m. repeat split. intros E. injection E as E1 E2. congruence.
  - exists m, n. repeat split. intros E. injection E as E1 E2. congruence.
Qed.

(* the property "one bond, one direction" is false for the code as it is: boron is not in the set, so B(1)~Co(2) is written
   Co -> B when enumerated from the boron and B -> Co when enumerated from the cobalt; likewise N~O (both inside) *)
Theorem dative_direction_order_refuted :
  ~ (forall s1 s2 n m, to_bond s1 n m 8 = Ok (n, m, "DATIVE") <-> to_bond s2 m n 8 = Ok (n, m, "DATIVE")) /\
  smem "B" inorganic = false /\ smem "Co" inorganic = false /\
  to_bond "B" 1 2 8 = Ok (2, 1, "DATIVE") /\ to_bond "Co" 2 1 8 = Ok (1, 2, "DATIVE") /\
  to_bond "N" 1 2 8 = Ok (1, 2, "DATIVE") /\ to_bond "O" 2 1 8 = Ok (2, 1, "DATIVE").
Proof.
  split; [|vm_compute; repeat split; reflexivity].
  intros H. specialize (H "N" "O" 1 2). destruct H as [H _].
  assert (E : to_bond "N" 1 2 8 = Ok (1, 2, "DATIVE")) by (vm_compute; reflexivity).
  specialize (H E). vm_compute in H. discriminate.
Qed.

(* the suggested rule: look at BOTH atoms and exchange only when the first one is outside the set and the second inside
     if data.atom(n).atomic_symbol not in S and data.atom(m).atomic_symbol in S: n, m = m, n
   [S] is the set used (the suggestion adds 'B') *)
Definition to_bond_fixed (S : list string) (sym_n sym_m : string) (n m o : Z) : pyres (Z * Z * string) :=
  let '(b, e) := if negb (smem sym_n S) && smem sym_m S then (m, n) else (n, m) in
  match bond_type o with
  | Ok t => Ok (b, e, t)
  | Err x => Err x
  end.

(* with exactly one atom inside the set, both enumerations of the bond give the same direction: from the atom inside to the
   atom outside; and on these pairs the suggested rule is the rule the code has now *)
Theorem dative_fixed_order_independent : forall S s_in s_out n m o,
  smem s_in S = true -> smem s_out S = false ->
  to_bond_fixed S s_in s_out n m o = to_bond_fixed S s_out s_in m n o /\
  (forall t, bond_type o = Ok t -> to_bond_fixed S s_in s_out n m o = Ok (n, m, t)).
Proof.
  intros S s_in s_out n m o Hi Ho. unfold to_bond_fixed. rewrite Hi, Ho. cbn [negb andb].
  split; [reflexivity|]. intros t Ht. rewrite Ht. reflexivity.
Qed.

Theorem dative_fixed_agrees_with_code : forall s_n s_m n m o,
  smem s_n inorganic <> smem s_m inorganic -> to_bond_fixed inorganic s_n s_m n m o = to_bond s_n n m o.
Proof.
  intros s_n s_m n m o H. unfold to_bond_fixed, to_bond.
  destruct (smem s_n inorganic), (smem s_m inorganic); cbn [negb andb]; try reflexivity; congruence.
Qed.

(* the witness is repaired by the suggestion (set extended by 'B'): one direction, B -> Co, from both enumerations *)
Theorem dative_fixed_repairs_witness :
  to_bond_fixed ("B" :: inorganic) "B" "Co" 1 2 8 = Ok (1, 2, "DATIVE") /\
  to_bond_fixed ("B" :: inorganic) "Co" "B" 2 1 8 = Ok (1, 2, "DATIVE").
Proof. vm_compute. split; reflexivity. Qed.

(* what the suggestion does NOT repair: two atoms of one class still follow the enumeration order (there is no chemical
   direction to choose; BondType.ZERO would be the order-free choice) *)
Theorem dative_fixed_same_class_partial : forall S s1 s2 n m,
  smem s1 S = smem s2 S -> to_bond_fixed S s1 s2 n m 8 = Ok (n, m, "DATIVE") /\ to_bond_fixed S s2 s1 m n 8 = Ok (m, n, "DATIVE").
Proof.
  intros S s1 s2 n m H. unfold to_bond_fixed. rewrite H.
  assert (H8 : bond_type 8 = Ok "DATIVE") by (vm_compute; reflexivity). rewrite H8.
  destruct (smem s2 S); cbn [negb andb]; split; reflexivity.
Qed.

(* ================================================================================================ *)
(* 5. one double bond through to_rdkit_molecule and from_rdkit_molecule, the rebuilt molecule having its own registry entry *)
(* position map old -> new: [sw] the rebuilt entry is keyed by the other orientation of the bond (ends exchanged),
   [c0] / [c1] the two substituents of the old first / last end are listed in the other order *)
Definition pmap (sw c0 c1 : bool) (i : Z) : Z :=
  let j := if i =? 0 then (if c0 then 2 else 0) else if i =? 2 then (if c0 then 0 else 2)
           else if i =? 1 then (if c1 then 3 else 1) else (if c1 then 1 else 3) in
  if sw then (if j =? 0 then 1 else if j =? 1 then 0 else if j =? 2 then 3 else 2) else j.

(* parity of a pair of new positions given in either order *)
Definition cpn (x y : Z) : bool := if (x =? 0) || (x =? 2) then ct_parity x y else ct_parity y x.

Lemma pmap_law_b :
  forallb (fun sw => forallb (fun c0 => forallb (fun c1 => forallb (fun a => forallb (fun b =>
    Bool.eqb (xorb (cpn (pmap sw c0 c1 a) (pmap sw c0 c1 b)) (cpn (pmap sw c0 c1 0) (pmap sw c0 c1 1))) (ct_parity a b))
    [1; 3]) [0; 2]) [true; false]) [true; false]) [true; false] = true.
Proof. vm_compute. reflexivity. Qed.

Lemma pmap_law sw c0 c1 a b : In a [0; 2] -> In b [1; 3] ->
  xorb (cpn (pmap sw c0 c1 a) (pmap sw c0 c1 b)) (cpn (pmap sw c0 c1 0) (pmap sw c0 c1 1)) = ct_parity a b.
Proof.
  intros Ha Hb. cbn in Ha, Hb. destruct Ha as [<-|[<-|[]]]; destruct Hb as [<-|[<-|[]]]; destruct sw, c0, c1; reflexivity.
Qed.

Section OneDoubleBond.
  Variable isH' : Z -> bool.

  (* law4 in "either order" form, on the positions pmap produces *)
  Lemma translate_env_pmap y0 y1 y2 y3 sw c0 c1 a b t :
    NoDup [y0; y1; y2; y3] -> In a [0; 2] -> In b [1; 3] ->
    let N' := (y0, y1, y2, y3) in
    translate_env isH' (y0, y1, Some y2, Some y3) (pick N' (pmap sw c0 c1 a)) (pick N' (pmap sw c0 c1 b)) t
      = Ok (xorb t (cpn (pmap sw c0 c1 a) (pmap sw c0 c1 b))) /\
    translate_env isH' (y0, y1, Some y2, Some y3) (pick N' (pmap sw c0 c1 b)) (pick N' (pmap sw c0 c1 a)) t
      = Ok (xorb t (cpn (pmap sw c0 c1 a) (pmap sw c0 c1 b))).
  Proof.
    intros Hn Ha Hb N'. subst N'. cbn in Ha, Hb.
    destruct Ha as [<-|[<-|[]]]; destruct Hb as [<-|[<-|[]]]; destruct sw, c0, c1;
      match goal with
      | |- context [pick _ (pmap ?s ?x ?y ?i)] =>
          let v := eval vm_compute in (pmap s x y i) in change (pmap s x y i) with v
      end;
      match goal with
      | |- context [pick _ (pmap ?s ?x ?y ?i)] =>
          let v := eval vm_compute in (pmap s x y i) in change (pmap s x y i) with v
      end;
      match goal with
      | |- context [cpn ?i ?j] => let v := eval vm_compute in (cpn i j) in change (cpn i j) with v
      end;
      first [ exact (translate_env_law4 isH' y0 y1 y2 y3 0 1 t Hn ltac:(cbn; tauto) ltac:(cbn; tauto))
            | exact (translate_env_law4 isH' y0 y1 y2 y3 0 3 t Hn ltac:(cbn; tauto) ltac:(cbn; tauto))
            | exact (translate_env_law4 isH' y0 y1 y2 y3 2 1 t Hn ltac:(cbn; tauto) ltac:(cbn; tauto))
            | exact (translate_env_law4 isH' y0 y1 y2 y3 2 3 t Hn ltac:(cbn; tauto) ltac:(cbn; tauto))
            | (destruct (translate_env_law4 isH' y0 y1 y2 y3 0 1 t Hn ltac:(cbn; tauto) ltac:(cbn; tauto)) as [A B]; split; [exact B | exact A])
            | (destruct (translate_env_law4 isH' y0 y1 y2 y3 0 3 t Hn ltac:(cbn; tauto) ltac:(cbn; tauto)) as [A B]; split; [exact B | exact A])
            | (destruct (translate_env_law4 isH' y0 y1 y2 y3 2 1 t Hn ltac:(cbn; tauto) ltac:(cbn; tauto)) as [A B]; split; [exact B | exact A])
            | (destruct (translate_env_law4 isH' y0 y1 y2 y3 2 3 t Hn ltac:(cbn; tauto) ltac:(cbn; tauto)) as [A B]; split; [exact B | exact A]) ].
  Qed.
End OneDoubleBond.

Section DoubleBondRoundtrip.
  Variable isH' : Z -> bool.
  Variable rho : Z -> Z.

  (* one labelled plain double bond with four substituents: RDKit may name any reference atoms (positions a, b of the old
     entry) and then reports the label relative to them; its begin / end atoms may be the old ends in either order; the
     rebuilt molecule keeps the entry under either orientation of the bond with the substituents of each end in either
     order (pmap sw c0 c1).  The label read back, translated to the renamed old reference atoms, is the old label. *)
  Theorem bond_roundtrip n0 n1 n2 n3 y0 y1 y2 y3 sw c0 c1 a b s label' nn nm e_be e_eb :
    let old := (n0, n1, n2, n3) in
    let N' := (y0, y1, y2, y3) in
    let E' := (y0, y1, Some y2, Some y3) in
    NoDup [y0; y1; y2; y3] ->
    (forall i, In i [0; 1; 2; 3] -> rho (pick old i) = pick N' (pmap sw c0 c1 i)) ->
    In a [0; 2] -> In b [1; 3] ->
    sign_of_bs label' = Some (xorb s (ct_parity a b)) ->
    ((nn = rho (pick old a) /\ nm = rho (pick old b)) \/ (nn = rho (pick old b) /\ nm = rho (pick old a))) ->
    ((e_be = Some E' /\ e_eb = None) \/ (e_be = None /\ e_eb = Some E')) ->
    to_bond_stereo (n0, n1, Some n2, Some n3) s = (n0, n1, bs_of_sign s) /\
    exists s', from_bond_stereo isH' e_be e_eb nn nm label' = Ok (Some s') /\
               translate_env isH' E' (rho n0) (rho n1) s' = Ok s.
  Proof.
    intros old N' E'. subst old N' E'. intros Hn Hrho Ha Hb Hl Hrefs Henv. split; [reflexivity|].
    assert (Ha4 : In a [0; 1; 2; 3]) by (cbn in Ha |- *; intuition).
    assert (Hb4 : In b [0; 1; 2; 3]) by (cbn in Hb |- *; intuition).
    pose proof (Hrho a Ha4) as Ra. pose proof (Hrho b Hb4) as Rb.
    pose proof (Hrho 0 ltac:(cbn; tauto)) as R0. pose proof (Hrho 1 ltac:(cbn; tauto)) as R1.
    change (pick (n0, n1, n2, n3) 0) with n0 in R0. change (pick (n0, n1, n2, n3) 1) with n1 in R1.
    set (t := xorb s (ct_parity a b)) in *.
    destruct (translate_env_pmap isH' y0 y1 y2 y3 sw c0 c1 a b t Hn Ha Hb) as [T1 T2]. cbn zeta in T1, T2.
    exists (xorb t (cpn (pmap sw c0 c1 a) (pmap sw c0 c1 b))). split.
    - unfold from_bond_stereo, translate_ct. rewrite Hl.
      destruct Hrefs as [[-> ->]|[-> ->]]; destruct Henv as [[-> ->]|[-> ->]]; rewrite Ra, Rb;
        rewrite ?T1, ?T2; reflexivity.
    - rewrite R0, R1.
      destruct (translate_env_pmap isH' y0 y1 y2 y3 sw c0 c1 0 1 (xorb t (cpn (pmap sw c0 c1 a) (pmap sw c0 c1 b))) Hn
                  ltac:(cbn; tauto) ltac:(cbn; tauto)) as [T3 _]. cbn zeta in T3. rewrite T3.
      f_equal. unfold t. pose proof (pmap_law sw c0 c1 a b Ha Hb) as L.
      destruct s, (ct_parity a b), (cpn (pmap sw c0 c1 a) (pmap sw c0 c1 b)), (cpn (pmap sw c0 c1 0) (pmap sw c0 c1 1));
        cbn in L |- *; congruence.
  Qed.
End DoubleBondRoundtrip.

(* ================================================================================================ *)
(* 6. all double-bond labels of a molecule through to_rdkit_molecule and from_rdkit_molecule *)
Lemma translate_env_own_refs (isH : Z -> bool) n0 n1 o2 o3 s : translate_env isH (n0, n1, o2, o3) n0 n1 s = Ok s.
Proof.
  unfold translate_env. rewrite !Z.eqb_refl. cbn [option_map].
  destruct alkene_table_law as (_ & Hl & _). rewrite forallb_forall in Hl. specialize (Hl 0 (or_introl eq_refl)).
  rewrite forallb_forall in Hl. specialize (Hl 1 (or_introl eq_refl)). apply andb_prop in Hl. destruct Hl as [Hl _].
  destruct (ct_lookup 0 1) as [[|]|]; cbn in Hl; try discriminate. reflexivity.
Qed.

Section WholeDoubleBonds.
  Variable isH' : Z -> bool.
  Variable rho : Z -> Z.
  Variable centers : list (Z * (Z * Z)).                                 (* _stereo_cis_trans_centers of the molecule given *)
  Variables ct ct' : list (Z * Z * (Z * Z * option Z * option Z)).       (* stereogenic_cis_trans of the molecule given / rebuilt *)

  Definition sel_of (b : Z * Z * option bool) : pyres (option (Z * Z * string)) :=
    let '(n, m, s) := b in
    to_bond_stereo_sel (zget centers n) n m (match zget centers n with Some c => pget ct c | None => None end) s.

  (* a chython bond and what RDKit holds for it afterwards: (begin idx, end idx, label, stereo atom idx at begin, at end) *)
  Inductive bond_wf : Z * Z * option bool -> Z * Z * string * Z * Z -> Prop :=
  | bw_none b bi ei label sb se :                   (* nothing written (no label, cumulene, ...): RDKit holds no E/Z label *)
      sel_of b = Ok None -> sign_of_bs label = None -> bond_wf b (bi, ei, label, sb, se)
  | bw_label n m s cn cm n0 n1 n2 n3 y0 y1 y2 y3 sw c0 c1 a b bi ei label sb se :
      zget centers n = Some (cn, cm) -> (n =? cn) || (n =? cm) = true -> (m =? cn) || (m =? cm) = true ->
      pget ct (cn, cm) = Some (n0, n1, Some n2, Some n3) ->
      NoDup [y0; y1; y2; y3] ->
      (forall i, In i [0; 1; 2; 3] -> rho (pick (n0, n1, n2, n3) i) = pick (y0, y1, y2, y3) (pmap sw c0 c1 i)) ->
      In a [0; 2] -> In b [1; 3] -> sign_of_bs label = Some (xorb s (ct_parity a b)) ->
      ((sb + 1 = rho (pick (n0, n1, n2, n3) a) /\ se + 1 = rho (pick (n0, n1, n2, n3) b)) \/
       (sb + 1 = rho (pick (n0, n1, n2, n3) b) /\ se + 1 = rho (pick (n0, n1, n2, n3) a))) ->
      ((pget ct' (bi + 1, ei + 1) = Some (y0, y1, Some y2, Some y3) /\ pget ct' (ei + 1, bi + 1) = None) \/
       (pget ct' (bi + 1, ei + 1) = None /\ pget ct' (ei + 1, bi + 1) = Some (y0, y1, Some y2, Some y3))) ->
      bond_wf (n, m, Some s) (bi, ei, label, sb, se)
  | bw_same n m s cn cm n0 n1 o2 o3 bi ei label sb se :    (* substituents may be missing (hydrogens): RDKit keeps the references it
                                                             was given and the rebuilt entry is the renamed old entry *)
      zget centers n = Some (cn, cm) -> (n =? cn) || (n =? cm) = true -> (m =? cn) || (m =? cm) = true ->
      pget ct (cn, cm) = Some (n0, n1, o2, o3) ->
      label = bs_of_sign s ->
      ((sb + 1 = rho n0 /\ se + 1 = rho n1 /\
        pget ct' (bi + 1, ei + 1) = Some (rho n0, rho n1, option_map rho o2, option_map rho o3)) \/
       (sb + 1 = rho n1 /\ se + 1 = rho n0 /\ pget ct' (bi + 1, ei + 1) = None /\
        pget ct' (ei + 1, bi + 1) = Some (rho n0, rho n1, option_map rho o2, option_map rho o3))) ->
      bond_wf (n, m, Some s) (bi, ei, label, sb, se).

  Definition blabel_image (b : Z * Z * option bool) (l : Z * Z * option bool) : Prop :=
    exists out, sel_of b = Ok out /\
      match out with
      | None => snd l = None
      | Some (r0, r1, lab) =>
          exists sv sv' E', snd b = Some sv /\ lab = bs_of_sign sv /\ snd l = Some sv' /\
            translate_env isH' E' (rho r0) (rho r1) sv' = Ok sv /\
            (pget ct' (fst (fst l), snd (fst l)) = Some E' \/ pget ct' (snd (fst l), fst (fst l)) = Some E')
      end.

  Theorem double_bonds_from_to : forall bonds rbonds, Forall2 bond_wf bonds rbonds ->
    exists outs, to_bond_labels centers ct bonds = Ok outs /\
      exists labels', from_bond_labels isH' ct' rbonds = Ok labels' /\ Forall2 blabel_image bonds labels'.
  Proof.
    intros bonds rbonds HF. unfold to_bond_labels, from_bond_labels.
    induction HF as [|b rb bonds rbonds Hwf _ IH].
    - exists []. split; [reflexivity|]. exists []. split; [reflexivity | constructor].
    - destruct IH as (outs & Houts & ls & Hls & HF2). cbn [mapM].
      destruct Hwf as [b bi ei label sb se Hsel Hlab |
                       n m s cn cm n0 n1 n2 n3 y0 y1 y2 y3 sw c0 c1 a b0 bi ei label sb se Hc Hn Hm Hct Hnd Hrho Ha Hb Hlab Hrefs Henv |
                       n m s cn cm n0 n1 o2 o3 bi ei label sb se Hc Hn Hm Hct Hlab Hsame].
      + destruct b as [[n m] s]. unfold sel_of in Hsel. rewrite Hsel, Houts. exists (None :: outs). split; [reflexivity|].
        unfold from_bond_stereo at 1. rewrite Hlab. rewrite Hls. exists ((bi + 1, ei + 1, None) :: ls). split; [reflexivity|].
        constructor; [|exact HF2]. exists None. split; [exact Hsel | reflexivity].
      + assert (Hsel : sel_of (n, m, Some s) = Ok (Some (n0, n1, bs_of_sign s))).
        { unfold sel_of, to_bond_stereo_sel. rewrite Hc, Hct, Hn, Hm. reflexivity. }
        unfold sel_of in Hsel. rewrite Hsel, Houts. exists (Some (n0, n1, bs_of_sign s) :: outs). split; [reflexivity|].
        destruct (bond_roundtrip isH' rho n0 n1 n2 n3 y0 y1 y2 y3 sw c0 c1 a b0 s label (sb + 1) (se + 1)
                    (pget ct' (bi + 1, ei + 1)) (pget ct' (ei + 1, bi + 1)) Hnd Hrho Ha Hb Hlab Hrefs Henv) as (_ & s' & Hfrom & Hsame).
        rewrite Hfrom, Hls. exists ((bi + 1, ei + 1, Some s') :: ls). split; [reflexivity|].
        constructor; [|exact HF2]. exists (Some (n0, n1, bs_of_sign s)). split; [exact Hsel|].
        exists s, s', (y0, y1, Some y2, Some y3). cbn [fst snd]. repeat split; try reflexivity; try exact Hsame.
        destruct Henv as [[E _]|[_ E]]; [left | right]; exact E.
      + assert (Hsel : sel_of (n, m, Some s) = Ok (Some (n0, n1, bs_of_sign s))).
        { unfold sel_of, to_bond_stereo_sel. rewrite Hc, Hct, Hn, Hm. reflexivity. }
        unfold sel_of in Hsel. rewrite Hsel, Houts. exists (Some (n0, n1, bs_of_sign s) :: outs). split; [reflexivity|].
        set (E' := (rho n0, rho n1, option_map rho o2, option_map rho o3)) in *.
        assert (Hfrom : from_bond_stereo isH' (pget ct' (bi + 1, ei + 1)) (pget ct' (ei + 1, bi + 1)) (sb + 1) (se + 1) label = Ok (Some s)).
        { unfold from_bond_stereo, translate_ct. subst label. rewrite sign_bs_inverse.
          destruct Hsame as [(-> & -> & ->)|(-> & -> & -> & ->)]; unfold E'; rewrite translate_env_own_refs; reflexivity. }
        rewrite Hfrom, Hls. exists ((bi + 1, ei + 1, Some s) :: ls). split; [reflexivity|].
        constructor; [|exact HF2]. exists (Some (n0, n1, bs_of_sign s)). split; [exact Hsel|].
        exists s, s, E'. cbn [fst snd]. repeat split; try reflexivity.
        * unfold E'. apply translate_env_own_refs.
        * destruct Hsame as [(_ & _ & E)|(_ & _ & _ & E)]; [left | right]; exact E.
  Qed.
End WholeDoubleBonds.

(* non-vacuity: F(1)/C(2)=C(3)/Cl(4) with Br(5) on C(2) and I(6) on C(3); entry (2,3) -> (1, 4, 5, 6), label true; RDKit keeps
   the references it was given, its bond runs 3 -> 2 (indices 2, 1); the rebuilt molecule keys the entry (3, 2) with the
   substituents of the old first end exchanged *)
Example double_bonds_example :
  let centers := [(2, (2, 3)); (3, (2, 3))] in
  let ct := [(2, 3, (1, 4, Some 5, Some 6))] in
  let ct' := [(3, 2, (4, 5, Some 6, Some 1))] in
  let bonds := [(1, 2, None); (2, 3, Some true); (3, 4, None)] in
  let rbonds := [(0, 1, "STEREONONE", 0, 0); (2, 1, "STEREOZ", 3, 0); (2, 3, "STEREONONE", 0, 0)] in
  Forall2 (bond_wf (fun x => x) centers ct ct') bonds rbonds /\
  to_bond_labels centers ct bonds = Ok [None; Some (1, 4, "STEREOZ"); None] /\
  from_bond_labels (fun _ => false) ct' rbonds = Ok [(1, 2, None); (3, 2, Some false); (3, 4, None)] /\
  translate_env (fun _ => false) (4, 5, Some 6, Some 1) 1 4 false = Ok true.
Proof.
  cbn zeta. split; [|split; [vm_compute; reflexivity | split; vm_compute; reflexivity]].
  constructor; [apply bw_none; vm_compute; reflexivity|].
  constructor; [|constructor; [apply bw_none; vm_compute; reflexivity | constructor]].
  apply bw_label with (cn := 2) (cm := 3) (n0 := 1) (n1 := 4) (n2 := 5) (n3 := 6) (y0 := 4) (y1 := 5) (y2 := 6) (y3 := 1)
                      (sw := true) (c0 := true) (c1 := false) (a := 0) (b := 1); try (vm_compute; reflexivity); try (cbn; tauto).
  all: try (intros i Hi; cbn in Hi; repeat (destruct Hi as [<-|Hi]; [vm_compute; reflexivity|]); contradiction).
  all: try (right; split; vm_compute; reflexivity).
  all: try (left; split; vm_compute; reflexivity).
  all: repeat constructor; cbn; intuition lia.
Qed.

(* ================================================================================================ *)
(* 7. conformers built from dictionaries: for dictionaries that hold exactly the atoms, in enumeration order, the code's
   loop produces the list model [to_conformers] (about which the round-trip theorems of RdkitProofs speak) *)
Local Open Scope list_scope.
Lemma set_pos_append ps p : set_pos ps (List.length ps) p = ps ++ [p].
Proof. induction ps as [|q r IH]; cbn; [reflexivity | rewrite IH; reflexivity]. Qed.

Lemma fill_in_order nums : NoDup nums -> forall rest done ps_done ps_rest,
  nums = done ++ rest -> List.length ps_done = List.length done -> List.length ps_rest = List.length rest ->
  fill_conf (index_map nums) ps_done (combine rest ps_rest) = Ok (ps_done ++ ps_rest).
Proof.
  intros Hn. induction rest as [|n r IH]; intros done ps_done ps_rest Hs Hd Hr.
  - destruct ps_rest; [|discriminate]. cbn. rewrite app_nil_r. reflexivity.
  - destruct ps_rest as [|p pr]; [discriminate|]. cbn [combine fill_conf].
    assert (Hk : (List.length done < List.length nums)%nat) by (rewrite Hs, app_length; cbn; lia).
    assert (Hnth : nth (List.length done) nums 0 = n) by (rewrite Hs, app_nth2, Nat.sub_diag by lia; reflexivity).
    pose proof (index_map_lookup nums _ Hn Hk) as L. rewrite Hnth in L. rewrite L.
    rewrite Nat2Z.id. rewrite <- Hd. rewrite set_pos_append.
    rewrite (IH (done ++ [n]) (ps_done ++ [p]) pr).
    + rewrite <- app_assoc. reflexivity.
    + rewrite <- app_assoc. exact Hs.
    + rewrite !app_length. cbn. lia.
    + cbn in Hr. lia.
Qed.

Theorem conformers_dict_refines : forall nums xy confs,
  NoDup nums -> (forall ps, In ps confs -> List.length ps = List.length nums) ->
  to_conformers_dict nums xy (map (combine nums) confs) = Ok (to_conformers xy confs).
Proof.
  intros nums xy confs Hn Hl. unfold to_conformers_dict, to_conformers.
  assert (H : mapM (fun c => match fill_conf (index_map nums) [] c with
                             | Err e => Err e
                             | Ok ps => if Nat.eqb (List.length ps) (List.length nums) then Ok (true, ps) else Err OtherError
                             end) (map (combine nums) confs) = Ok (map (fun c => (true, c)) confs)).
  { induction confs as [|ps r IH]; [reflexivity|]. cbn [map mapM].
    rewrite (fill_in_order nums Hn nums [] [] ps eq_refl eq_refl (Hl ps (or_introl eq_refl))). cbn [app].
    rewrite (Hl ps (or_introl eq_refl)), Nat.eqb_refl. rewrite IH; [reflexivity | intros q Hq; apply Hl; right; exact Hq]. }
  rewrite H. reflexivity.
Qed.

(* what the list model hides: a dictionary that misses the last atom, or names an atom that does not exist, raises *)
Theorem conformers_dict_malformed :
  to_conformers_dict [1; 2; 3] [] [[(1, (1, 2, 3)); (2, (4, 5, 6))]] = Err OtherError /\
  to_conformers_dict [1; 2; 3] [] [[(3, (1, 2, 3))]] = Ok [(false, []); (true, [(0, 0, 0); (0, 0, 0); (1, 2, 3)])] /\
  to_conformers_dict [1; 2; 3] [] [[(1, (1, 2, 3)); (4, (0, 0, 0))]] = Err KeyError.
Proof. vm_compute. repeat split; reflexivity. Qed.
