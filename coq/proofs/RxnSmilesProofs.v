(* C15 -- proofs about the model of the reaction SMILES writer / reader (Model.RxnSmiles). *)
From Coq Require Import ZArith NArith List String Ascii Bool Lia Permutation Sorted DecimalString.
From Model Require Import PyBase RxnSmiles.
Import ListNotations.
Open Scope string_scope.
Open Scope list_scope.
Open Scope Z_scope.

(* ---------- the order on strings used by list.sort ---------- *)
Lemma sleb_trans a : forall b c, String.leb a b = true -> String.leb b c = true -> String.leb a c = true.
Proof.
  unfold String.leb. induction a as [|x a IH]; intros [|y b] [|z c]; cbn [String.compare]; try congruence; try reflexivity.
  unfold Ascii.compare.
  destruct (N.compare_spec (N_of_ascii x) (N_of_ascii y)) as [E1|L1|G1];
  destruct (N.compare_spec (N_of_ascii y) (N_of_ascii z)) as [E2|L2|G2];
  destruct (N.compare_spec (N_of_ascii x) (N_of_ascii z)) as [E3|L3|G3]; try lia; try congruence; try reflexivity.
  apply IH.
Qed.

Section Sorting.
Context {A : Type}.
Variable leb : A -> A -> bool.
Hypothesis leb_total : forall a b, leb a b = true \/ leb b a = true.
Hypothesis leb_trans : forall a b c, leb a b = true -> leb b c = true -> leb a c = true.
Definition kle (a b : A) : Prop := leb a b = true.

Lemma insert_perm x l : Permutation (insert_by leb x l) (x :: l).
Proof.
  induction l as [|y l IH]; cbn [insert_by]; [reflexivity|].
  destruct (leb x y); [reflexivity|].
  rewrite IH. apply perm_swap.
Qed.

Lemma sort_perm l : Permutation (sort_by leb l) l.
Proof.
  unfold sort_by. induction l as [|x l IH]; cbn [fold_right]; [reflexivity|].
  rewrite insert_perm. apply perm_skip. exact IH.
Qed.

Lemma insert_sorted x l : StronglySorted kle l -> StronglySorted kle (insert_by leb x l).
Proof.
  intros H. induction H as [|y l Hl IH Hy]; cbn [insert_by].
  - constructor; constructor.
  - destruct (leb x y) eqn:E.
    + constructor; [constructor; assumption|]. constructor; [exact E|].
      rewrite Forall_forall in *. intros z Hz. unfold kle. apply (leb_trans _ y); [exact E|apply Hy; exact Hz].
    + constructor; [exact IH|]. rewrite Forall_forall in *. intros z Hz.
      apply (Permutation_in _ (insert_perm x l)) in Hz. destruct Hz as [Hz|Hz].
      * subst z. unfold kle. destruct (leb_total x y) as [T|T]; [congruence|exact T].
      * apply Hy. exact Hz.
Qed.

Lemma sort_sorted l : StronglySorted kle (sort_by leb l).
Proof.
  unfold sort_by. induction l as [|x l IH]; cbn [fold_right]; [constructor|]. apply insert_sorted. exact IH.
Qed.

Lemma sorted_unique l1 : forall l2, StronglySorted kle l1 -> StronglySorted kle l2 -> Permutation l1 l2 ->
  (forall a b, In a l1 -> In b l1 -> leb a b = true -> leb b a = true -> a = b) -> l1 = l2.
Proof.
  induction l1 as [|a t1 IH]; intros l2 S1 S2 P Hinj.
  - apply Permutation_nil in P. subst. reflexivity.
  - destruct l2 as [|b t2]; [apply Permutation_sym, Permutation_nil in P; discriminate|].
    inversion S1 as [|? ? S1' F1]; subst. inversion S2 as [|? ? S2' F2]; subst.
    rewrite Forall_forall in F1, F2.
    assert (E : a = b).
    { assert (Ha : In a (b :: t2)) by (apply (Permutation_in _ P); left; reflexivity).
      assert (Hb : In b (a :: t1)) by (apply (Permutation_in _ (Permutation_sym P)); left; reflexivity).
      destruct Ha as [Ha|Ha]; [congruence|]. destruct Hb as [Hb|Hb]; [congruence|].
      apply Hinj; [left; reflexivity|right; exact Hb|apply F1; exact Hb|apply F2; exact Ha]. }
    subst b. f_equal. apply IH; try assumption.
    + apply (Permutation_cons_inv P).
    + intros x y Hx Hy. apply Hinj; right; assumption.
Qed.

(* a stable sort by a total preorder gives the same list for every arrangement of the input, provided the preorder
   is antisymmetric on the elements present (elements that compare equal are equal) *)
Theorem sort_by_perm_invariant l l' :
  Permutation l l' -> (forall a b, In a l -> In b l -> leb a b = true -> leb b a = true -> a = b) -> sort_by leb l = sort_by leb l'.
Proof.
  intros P Hinj. apply sorted_unique; try apply sort_sorted.
  - rewrite (sort_perm l), (sort_perm l'). exact P.
  - intros a b Ha Hb. apply Hinj; apply (Permutation_in _ (sort_perm l)); assumption.
Qed.
End Sorting.

(* ---------- the sort key of ReactionContainer.__format__: (SMILES, radical flags) ---------- *)
Lemma blist_leb_total a : forall b, blist_leb a b = true \/ blist_leb b a = true.
Proof.
  induction a as [|x a IH]; intros [|y b]; cbn [blist_leb]; auto.
  destruct x, y; cbn [Bool.eqb negb]; auto.
Qed.

Lemma blist_leb_trans a : forall b c, blist_leb a b = true -> blist_leb b c = true -> blist_leb a c = true.
Proof.
  induction a as [|x a IH]; intros [|y b] [|z c]; cbn [blist_leb]; try congruence; try reflexivity.
  destruct x, y, z; cbn [Bool.eqb negb]; try congruence; try reflexivity; apply IH.
Qed.

Lemma blist_leb_antisym a : forall b, blist_leb a b = true -> blist_leb b a = true -> a = b.
Proof.
  induction a as [|x a IH]; intros [|y b]; cbn [blist_leb]; try congruence; try reflexivity.
  destruct x, y; cbn [Bool.eqb negb]; try congruence; intros H1 H2; f_equal; apply IH; assumption.
Qed.

Lemma key_leb_total a b : key_leb a b = true \/ key_leb b a = true.
Proof.
  unfold key_leb. rewrite (String.eqb_sym (f_smi b) (f_smi a)). destruct (String.eqb (f_smi a) (f_smi b)).
  - apply blist_leb_total.
  - apply String.leb_total.
Qed.

Lemma key_leb_trans a b c : key_leb a b = true -> key_leb b c = true -> key_leb a c = true.
Proof.
  unfold key_leb.
  destruct (String.eqb_spec (f_smi a) (f_smi b)) as [E1|N1]; destruct (String.eqb_spec (f_smi b) (f_smi c)) as [E2|N2].
  - rewrite E1, E2, String.eqb_refl. apply blist_leb_trans.
  - rewrite E1. destruct (String.eqb_spec (f_smi b) (f_smi c)); [congruence|]. intros _ H. exact H.
  - rewrite <- E2. destruct (String.eqb_spec (f_smi a) (f_smi b)); [congruence|]. intros H _. exact H.
  - intros H1 H2. pose proof (sleb_trans _ _ _ H1 H2) as H3.
    destruct (String.eqb_spec (f_smi a) (f_smi c)) as [E3|N3]; [|exact H3].
    exfalso. rewrite <- E3 in H2. apply N1. apply String.leb_antisym; assumption.
Qed.

Lemma key_leb_antisym a b : key_leb a b = true -> key_leb b a = true -> f_smi a = f_smi b /\ f_rad a = f_rad b.
Proof.
  unfold key_leb. rewrite (String.eqb_sym (f_smi b) (f_smi a)).
  destruct (String.eqb_spec (f_smi a) (f_smi b)) as [E|N]; intros H1 H2.
  - split; [exact E|apply blist_leb_antisym; assumption].
  - exfalso. apply N. apply String.leb_antisym; assumption.
Qed.

(* ---------- the reaction string does not depend on the order inside a role ---------- *)
(* molecules with the same SMILES have the same number of components (a fact of the molecule-level writer: one
   '.'-separated piece per component; implied by fmol_ok below) *)
Definition ncomp_det (l : list fmol) : Prop := forall a b, In a l -> In b l -> f_smi a = f_smi b -> f_ncomp a = f_ncomp b.

Lemma key_antisym_on l : ncomp_det l -> forall a b, In a l -> In b l -> key_leb a b = true -> key_leb b a = true -> a = b.
Proof.
  intros Hd a b Ha Hb H1 H2. destruct (key_leb_antisym a b H1 H2) as [E1 E2]. pose proof (Hd a b Ha Hb E1) as E3.
  destruct a, b; cbn in *; congruence.
Qed.

Theorem rxn_string_role_order_free no_cx rs rs' gs gs' ps ps' :
  Permutation rs rs' -> Permutation gs gs' -> Permutation ps ps' -> ncomp_det rs -> ncomp_det gs -> ncomp_det ps ->
  rxn_format false no_cx rs gs ps = rxn_format false no_cx rs' gs' ps'.
Proof.
  intros P1 P2 P3 K1 K2 K3. unfold rxn_format, rxn_write.
  rewrite (sort_by_perm_invariant key_leb key_leb_total key_leb_trans rs rs' P1 (key_antisym_on rs K1)),
          (sort_by_perm_invariant key_leb key_leb_total key_leb_trans gs gs' P2 (key_antisym_on gs K2)),
          (sort_by_perm_invariant key_leb key_leb_total key_leb_trans ps ps' P3 (key_antisym_on ps K3)). reflexivity.
Qed.

(* the radical flags are part of the sort key: [Na] and [Na] |^1:0| in either order give the same string
   (before the fix of reaction.py the key was the SMILES alone and the two orders gave ^1:0 and ^1:1) *)
Definition na_plain : fmol := mkF "[Na]" 1 [false].
Definition na_radical : fmol := mkF "[Na]" 1 [true].
Example rxn_string_radical_tie :
  rxn_format false false [na_radical; na_plain] [] [mkF "C" 1 [false]] = "[Na].[Na]>>C |^1:1|" /\
  rxn_format false false [na_plain; na_radical] [] [mkF "C" 1 [false]] = "[Na].[Na]>>C |^1:1|".
Proof. split; vm_compute; reflexivity. Qed.

(* non-vacuity of the hypothesis and of the conclusion: all 6 orders of three different molecules *)
Example rxn_string_role_order_free_example :
  let a := mkF "CCO" 1 [false; false; false] in let b := mkF "[Na+].[Cl-]" 2 [false; false] in let c := mkF "[CH3]" 1 [true] in
  ncomp_det [a; b; c] /\
  forallb (fun l => String.eqb (rxn_format false false l [] [a]) "CCO.[CH3].[Na+].[Cl-]>>CCO |^1:3,f:2.3|")
          [[a; b; c]; [a; c; b]; [b; a; c]; [b; c; a]; [c; a; b]; [c; b; a]] = true.
Proof.
  cbv zeta. split; [|vm_compute; reflexivity].
  intros x y Hx Hy E. cbn [In] in Hx, Hy.
  destruct Hx as [Hx|[Hx|[Hx|[]]]], Hy as [Hy|[Hy|[Hy|[]]]]; subst; try reflexivity; cbn in E; discriminate.
Qed.

(* ---------- str.split(c) / c.join ---------- *)
Lemma split_on_nonnil c s : split_on c s <> [].
Proof. destruct s as [|a r]; cbn [split_on]; [discriminate|]. destruct (Ascii.eqb a c); [discriminate|]. destruct (split_on c r); discriminate. Qed.

Definition sep (c : ascii) : string := String c EmptyString.

Lemma concat_cons2 d x y ys : concat d (x :: y :: ys) = (x ++ d ++ concat d (y :: ys))%string.
Proof. reflexivity. Qed.

Lemma concat_split c s : concat (sep c) (split_on c s) = s.
Proof.
  induction s as [|a r IH]; cbn [split_on]; [reflexivity|].
  pose proof (split_on_nonnil c r) as Hn. destruct (split_on c r) as [|x xs] eqn:Es; [congruence|].
  destruct (Ascii.eqb a c) eqn:E.
  - apply Ascii.eqb_eq in E. subst a. rewrite concat_cons2, IH. reflexivity.
  - destruct xs as [|y ys].
    + cbn [concat] in *. rewrite IH. reflexivity.
    + rewrite concat_cons2 in *. cbn [append]. rewrite IH. reflexivity.
Qed.

Lemma split_pieces_clean c s : Forall (fun x => contains c x = false) (split_on c s).
Proof.
  induction s as [|a r IH]; cbn [split_on].
  - constructor; [reflexivity|constructor].
  - destruct (Ascii.eqb a c) eqn:E.
    + constructor; [reflexivity|exact IH].
    + pose proof (split_on_nonnil c r) as Hn. destruct (split_on c r) as [|x xs]; [congruence|].
      inversion IH; subst. constructor; [|assumption]. cbn [contains]. rewrite E. assumption.
Qed.

Lemma split_clean c s : contains c s = false -> split_on c s = [s].
Proof.
  induction s as [|a r IH]; cbn [contains split_on]; [reflexivity|]. intros H. apply orb_false_iff in H. destruct H as [H1 H2].
  rewrite H1, (IH H2). reflexivity.
Qed.

Lemma split_app c a b : contains c a = false -> split_on c (a ++ String c b) = a :: split_on c b.
Proof.
  induction a as [|x a IH]; cbn [contains append split_on]; intros H.
  - rewrite Ascii.eqb_refl. reflexivity.
  - apply orb_false_iff in H. destruct H as [H1 H2]. rewrite H1, (IH H2). reflexivity.
Qed.

Lemma split_concat c xs : xs <> [] -> Forall (fun x => contains c x = false) xs -> split_on c (concat (sep c) xs) = xs.
Proof.
  induction xs as [|x xs IH]; intros Hn Hf; [congruence|]. inversion Hf as [|? ? Hx Hxs]; subst.
  destruct xs as [|y ys].
  - cbn [concat]. apply split_clean. exact Hx.
  - cbn [concat] in *. unfold sep at 1. cbn [append]. rewrite split_app by exact Hx. f_equal. apply IH; [discriminate|exact Hxs].
Qed.

Lemma contains_app c a b : contains c (a ++ b) = contains c a || contains c b.
Proof. induction a as [|x a IH]; cbn [append contains]; [reflexivity|]. rewrite IH, orb_assoc. reflexivity. Qed.

Lemma contains_concat_false c d xs : contains c d = false -> Forall (fun x => contains c x = false) xs -> contains c (concat d xs) = false.
Proof.
  intros Hd. induction xs as [|x xs IH]; intros Hf; [reflexivity|]. inversion Hf; subst.
  destruct xs as [|y ys]; cbn [concat] in *; [assumption|]. rewrite !contains_app. rewrite H1, Hd. cbn. apply IH. assumption.
Qed.

Lemma sapp_assoc (a b c : string) : ((a ++ b) ++ c = a ++ (b ++ c))%string.
Proof. induction a as [|x a IH]; cbn [append]; [reflexivity|]. rewrite IH. reflexivity. Qed.

Lemma sapp_nil_r (a : string) : (a ++ "" = a)%string.
Proof. induction a as [|x a IH]; cbn [append]; [reflexivity|]. rewrite IH. reflexivity. Qed.

(* joining joined groups = joining the flattened list (groups non-empty) *)
Lemma concat_app_ne d (xs l : list string) : xs <> [] -> l <> [] -> concat d (xs ++ l) = (concat d xs ++ d ++ concat d l)%string.
Proof.
  intros Hx Hl. induction xs as [|x xs IH]; [congruence|]. destruct xs as [|x' xs'].
  - cbn [app]. destruct l as [|y l]; [congruence|]. reflexivity.
  - change ((x :: x' :: xs') ++ l) with (x :: x' :: (xs' ++ l)). rewrite !concat_cons2.
    change (x' :: xs' ++ l) with ((x' :: xs') ++ l). rewrite IH by discriminate. rewrite !sapp_assoc. reflexivity.
Qed.

Lemma concat_flat d (xss : list (list string)) : Forall (fun xs => xs <> []) xss ->
  concat d (map (concat d) xss) = concat d (List.concat xss).
Proof.
  induction xss as [|xs xss IH]; intros Hf; [reflexivity|]. inversion Hf as [|? ? Hx Hxs]; subst.
  destruct xss as [|ys yss].
  - cbn. rewrite app_nil_r. reflexivity.
  - change (map (concat d) (xs :: ys :: yss)) with (concat d xs :: concat d ys :: map (concat d) yss).
    rewrite concat_cons2. change (concat d ys :: map (concat d) yss) with (map (concat d) (ys :: yss)).
    rewrite IH by exact Hxs. change (List.concat (xs :: ys :: yss)) with (xs ++ List.concat (ys :: yss)).
    rewrite concat_app_ne; [reflexivity|exact Hx|].
    inversion Hxs; subst. cbn. destruct ys; [congruence|discriminate].
Qed.

(* ---------- molecules as the writer sees them ---------- *)
Definition dot : ascii := "."%char.
Definition gt : ascii := ">"%char.
Definition pcs (m : fmol) : list string := split_on dot (f_smi m).
Definition len (m : fmol) : Z := Z.of_nat (List.length (pcs m)).
(* the molecule-level facts the reaction code relies on: the SMILES of a molecule has exactly one non-empty
   '.'-separated piece per connected component, and no '>' *)
Definition fmol_ok (m : fmol) : Prop :=
  f_ncomp m = len m /\ Forall (fun x => x <> EmptyString /\ contains gt x = false) (pcs m).
Definition flat (ms : list fmol) : list string := flat_map pcs ms.
Definition total (ms : list fmol) : Z := Z.of_nat (List.length (flat ms)).

Lemma len_pos m : 1 <= len m.
Proof. unfold len. pose proof (split_on_nonnil dot (f_smi m)). unfold pcs. destruct (split_on dot (f_smi m)); [congruence|]. cbn [List.length]. lia. Qed.

Lemma total_cons m ms : total (m :: ms) = len m + total ms.
Proof. unfold total, flat, len. cbn [flat_map]. rewrite app_length. lia. Qed.

Lemma total_nonneg ms : 0 <= total ms. Proof. unfold total. lia. Qed.

Lemma flat_app a b : flat (a ++ b) = flat a ++ flat b.
Proof. unfold flat. apply flat_map_app. Qed.

Lemma total_app a b : total (a ++ b) = total a + total b.
Proof. unfold total. rewrite flat_app, app_length. lia. Qed.

Lemma smi_pcs m : f_smi m = concat (sep dot) (pcs m).
Proof. unfold pcs. symmetry. apply concat_split. Qed.

Lemma role_sig ms : concat (sep dot) (map f_smi ms) = concat (sep dot) (flat ms).
Proof.
  unfold flat. rewrite flat_map_concat_map. rewrite <- concat_flat.
  - rewrite map_map. f_equal. apply map_ext. intros m. apply smi_pcs.
  - apply Forall_forall. intros xs Hx. apply in_map_iff in Hx. destruct Hx as [m [E _]]. subst xs. apply split_on_nonnil.
Qed.

Lemma flat_no_dot ms : Forall (fun x => contains dot x = false) (flat ms).
Proof.
  apply Forall_forall. intros x Hx. unfold flat in Hx. apply in_flat_map in Hx. destruct Hx as [m [_ Hx]].
  pose proof (split_pieces_clean dot (f_smi m)) as H. rewrite Forall_forall in H. apply H. exact Hx.
Qed.

Lemma flat_ok ms : Forall fmol_ok ms -> Forall (fun x => x <> EmptyString /\ contains gt x = false) (flat ms).
Proof.
  intros H. apply Forall_forall. intros x Hx. unfold flat in Hx. apply in_flat_map in Hx. destruct Hx as [m [Hm Hx]].
  rewrite Forall_forall in H. destruct (H m Hm) as [_ F]. rewrite Forall_forall in F. apply F. exact Hx.
Qed.

Lemma concat_nonempty d x xs : x <> EmptyString -> concat d (x :: xs) <> EmptyString.
Proof. intros Hx. destruct xs; cbn [concat]; [exact Hx|]. destruct x; [congruence|]. discriminate. Qed.

Lemma filter_all {A} (P : A -> bool) l : (forall x, In x l -> P x = true) -> filter P l = l.
Proof.
  induction l as [|x l IH]; intros H; cbn [filter]; [reflexivity|]. rewrite (H x (or_introl eq_refl)). f_equal.
  apply IH. intros y Hy. apply H. right. exact Hy.
Qed.

Lemma role_pieces_ok ignore ms : Forall fmol_ok ms -> role_pieces ignore (concat (sep dot) (map f_smi ms)) = Some (flat ms).
Proof.
  intros H. rewrite role_sig. pose proof (flat_ok ms H) as Hok. pose proof (flat_no_dot ms) as Hnd.
  destruct (flat ms) as [|x xs] eqn:Ef; [reflexivity|].
  assert (Hne : concat (sep dot) (x :: xs) <> EmptyString).
  { apply concat_nonempty. inversion Hok; subst. tauto. }
  unfold role_pieces. destruct (concat (sep dot) (x :: xs)) as [|a s] eqn:Ec; [congruence|]. rewrite <- Ec.
  change "."%char with dot. change (String dot EmptyString) with (sep dot) in *.
  rewrite split_concat by (try discriminate; exact Hnd).
  assert (Hall : forall y, In y (x :: xs) -> (y =? "")%string = false).
  { intros y Hy. rewrite Forall_forall in Hok. apply String.eqb_neq. apply (Hok y Hy). }
  destruct ignore.
  - f_equal. apply filter_all. intros y Hy. rewrite (Hall y Hy). reflexivity.
  - destruct (existsb (fun y => (y =? "")%string) (x :: xs)) eqn:Ee; [|reflexivity].
    apply existsb_exists in Ee. destruct Ee as [y [Hy E]]. rewrite (Hall y Hy) in E. discriminate.
Qed.

Lemma role_sig_no_gt ms : Forall fmol_ok ms -> contains gt (concat (sep dot) (map f_smi ms)) = false.
Proof.
  intros H. rewrite role_sig. apply contains_concat_false; [reflexivity|].
  pose proof (flat_ok ms H) as Hok. rewrite Forall_forall in *. intros x Hx. apply (Hok x Hx).
Qed.

(* ---------- the writer's loop ---------- *)
Fixpoint multi_ranges (off : Z) (ms : list fmol) : list (list Z) :=
  match ms with
  | [] => []
  | m :: r => (if len m >? 1 then [zrange off (off + len m)] else []) ++ multi_ranges (off + len m) r
  end.

Lemma zrange_from_shift n : forall s c, map (fun x => x + c) (zrange_from s n) = zrange_from (s + c) n.
Proof. induction n as [|n IH]; intros s c; cbn [zrange_from map]; [reflexivity|]. f_equal. rewrite IH. f_equal. lia. Qed.

Lemma zrange_shift c k : map (fun x => x + c) (zrange 0 k) = zrange c (c + k).
Proof. unfold zrange. rewrite zrange_from_shift. f_equal. f_equal. lia. Qed.

Lemma role_loop_spec ms : forall count, Forall fmol_ok ms ->
  role_loop ms count = (map f_smi ms, multi_ranges count ms, flat_map f_rad ms, count + total ms).
Proof.
  induction ms as [|m ms IH]; intros count H; cbn [role_loop map multi_ranges flat_map].
  - unfold total. cbn. f_equal. lia.
  - inversion H as [|? ? [Hm _] Hms]; subst. rewrite Hm.
    assert (E : (if len m >? 1 then count + len m else count + 1) = count + len m).
    { destruct (len m >? 1) eqn:G; [reflexivity|]. pose proof (len_pos m). rewrite Z.gtb_ltb in G. apply Z.ltb_ge in G. lia. }
    rewrite E, (IH _ Hms), zrange_shift, total_cons. f_equal. lia.
Qed.

Lemma zmem_false_iff x l : zmem x l = false <-> ~ In x l.
Proof. rewrite <- zmem_In. destruct (zmem x l); intuition congruence. Qed.

(* ---------- ranges and list cells ---------- *)
Lemma zrange_nil a b : b <= a -> zrange a b = [].
Proof. intros H. unfold zrange. replace (Z.to_nat (b - a)) with O by lia. reflexivity. Qed.

Lemma zrange_cons a b : a < b -> zrange a b = a :: zrange (a + 1) b.
Proof.
  intros H. unfold zrange. replace (Z.to_nat (b - a)) with (S (Z.to_nat (b - (a + 1)))) by lia. reflexivity.
Qed.

Lemma zrange_from_app s n m : zrange_from s (n + m) = zrange_from s n ++ zrange_from (s + Z.of_nat n) m.
Proof.
  revert s. induction n as [|n IH]; intros s; cbn [zrange_from plus app].
  - f_equal. lia.
  - f_equal. rewrite IH. f_equal. f_equal. lia.
Qed.

Lemma zrange_split a b c : a <= b -> b <= c -> zrange a c = zrange a b ++ zrange b c.
Proof.
  intros H1 H2. unfold zrange. replace (Z.to_nat (c - a)) with (Z.to_nat (b - a) + Z.to_nat (c - b))%nat by lia.
  rewrite zrange_from_app. f_equal. f_equal. lia.
Qed.

Lemma zrange_length a b : Z.of_nat (List.length (zrange a b)) = Z.max 0 (b - a).
Proof.
  unfold zrange. assert (H : forall n s, List.length (zrange_from s n) = n).
  { induction n; intros s; cbn; [reflexivity|]. rewrite IHn. reflexivity. }
  rewrite H. lia.
Qed.

Lemma map_nth_range (B : list string) : forall (A C : list string) base,
  map (fun x => nth (Z.to_nat (x - base)) (A ++ B ++ C) EmptyString)
      (zrange (base + Z.of_nat (List.length A)) (base + Z.of_nat (List.length A) + Z.of_nat (List.length B))) = B.
Proof.
  induction B as [|b B IH]; intros A C base.
  - cbn [List.length]. rewrite zrange_nil by lia. reflexivity.
  - cbn [List.length]. rewrite zrange_cons by lia. cbn [map]. f_equal.
    + replace (Z.to_nat (base + Z.of_nat (List.length A) - base)) with (List.length A) by lia.
      rewrite app_nth2 by lia. rewrite Nat.sub_diag. reflexivity.
    + specialize (IH (A ++ [b]) C base). rewrite app_length in IH. cbn [List.length] in IH.
      rewrite <- app_assoc in IH. cbn [app] in IH.
      replace (base + Z.of_nat (List.length A) + 1) with (base + Z.of_nat (List.length A + 1)) by lia.
      replace (base + Z.of_nat (List.length A) + Z.of_nat (S (List.length B)))
        with (base + Z.of_nat (List.length A + 1) + Z.of_nat (List.length B)) by lia.
      exact IH.
Qed.

(* ---------- the contraction loop, role by role ---------- *)
Inductive role := RR | RP | RG.
Definition sel (k : role) (st : cstate) : list Z := match k with RR => cs_r st | RP => cs_p st | RG => cs_g st end.
Definition put (k : role) (st : cstate) (nw : list (option string)) (s : list Z) : cstate :=
  match k with
  | RR => mkC nw s (cs_p st) (cs_g st)
  | RP => mkC nw (cs_r st) s (cs_g st)
  | RG => mkC nw (cs_r st) (cs_p st) s
  end.
Definition earlier (k : role) : list role := match k with RR => [] | RP => [RR] | RG => [RR; RP] end.

Definition apply_us (us : list (Z * string)) (l : list (option string)) : list (option string) :=
  fold_left (fun nw u => zupd nw (fst u) (Some (snd u))) us l.
Fixpoint mheads (off : Z) (ms : list fmol) : list (Z * string) :=
  match ms with [] => [] | m :: r => (if len m >? 1 then [(off, f_smi m)] else []) ++ mheads (off + len m) r end.
Fixpoint sheads (off : Z) (ms : list fmol) : list (Z * string) :=
  match ms with [] => [] | m :: r => (if len m >? 1 then [] else [(off, f_smi m)]) ++ sheads (off + len m) r end.
Fixpoint heads (off : Z) (ms : list fmol) : list (Z * string) :=
  match ms with [] => [] | m :: r => (off, f_smi m) :: heads (off + len m) r end.
Definition in_ranges (cs : list (list Z)) (x : Z) : bool := existsb (zmem x) cs.

Lemma apply_us_app a b l : apply_us (a ++ b) l = apply_us b (apply_us a l).
Proof. unfold apply_us. apply fold_left_app. Qed.

Lemma sel_put_same k st nw s : sel k (put k st nw s) = s. Proof. destruct k; reflexivity. Qed.
Lemma sel_put_other k k' st nw s : k <> k' -> sel k' (put k st nw s) = sel k' st.
Proof. destruct k, k'; intros H; try reflexivity; congruence. Qed.
Lemma new_put k st nw s : cs_new (put k st nw s) = nw. Proof. destruct k; reflexivity. Qed.

Lemma subset_z_true c s : subset_z c s = true <-> forall x, In x c -> In x s.
Proof. unfold subset_z. rewrite forallb_forall. split; intros H x Hx; [apply zmem_In|apply zmem_In]; apply H; exact Hx. Qed.

Lemma subset_z_false c s x : In x c -> ~ In x s -> subset_z c s = false.
Proof.
  intros Hx Hs. destruct (subset_z c s) eqn:E; [|reflexivity]. exfalso. apply Hs. apply (proj1 (subset_z_true c s) E x Hx).
Qed.

Lemma filter_filter {A} (P Q : A -> bool) l : filter Q (filter P l) = filter (fun x => P x && Q x) l.
Proof.
  induction l as [|x l IH]; cbn [filter]; [reflexivity|]. destruct (P x) eqn:E; cbn [filter andb]; [|exact IH].
  destruct (Q x); [f_equal|]; exact IH.
Qed.

Section Reader.
Variables (rec_r rec_p rec_g : list string) (mol_count lr : Z).

Definition getf (k : role) : Z -> string :=
  match k with
  | RR => fun x => py_get rec_r x
  | RP => fun x => py_get rec_p (x - mol_count)
  | RG => fun x => py_get rec_g (x - lr)
  end.

Lemma contract_step k c0 c rest st :
  subset_z (c0 :: c) (sel k st) = true -> (forall k', In k' (earlier k) -> subset_z (c0 :: c) (sel k' st) = false) ->
  contract_loop rec_r rec_p rec_g mol_count lr ((c0 :: c) :: rest) st =
  contract_loop rec_r rec_p rec_g mol_count lr rest
    (put k st (zupd (cs_new st) c0 (Some (concat (sep dot) (map (getf k) (c0 :: c)))))
         (filter (fun x => negb (zmem x (c0 :: c))) (sel k st))).
Proof.
  intros H1 H2. cbn [contract_loop]. destruct k; cbn [sel earlier put getf] in *.
  - rewrite H1. reflexivity.
  - pose proof (H2 RR (or_introl eq_refl)) as X. cbn [sel] in X. rewrite X, H1. reflexivity.
  - pose proof (H2 RR (or_introl eq_refl)) as X. pose proof (H2 RP (or_intror (or_introl eq_refl))) as Y.
    cbn [sel] in X, Y. rewrite X, Y, H1. reflexivity.
Qed.

(* where the records of role k sit in the global numbering *)
Definition get_ok (k : role) (base : Z) (rec : list string) : Prop :=
  forall x, base <= x < base + Z.of_nat (List.length rec) -> getf k x = nth (Z.to_nat (x - base)) rec EmptyString.

Lemma multi_ranges_bounds ms : forall off c x, In c (multi_ranges off ms) -> In x c -> off <= x < off + total ms.
Proof.
  induction ms as [|m ms IH]; intros off c x Hc Hx; [contradiction|]. cbn [multi_ranges] in Hc. rewrite total_cons.
  pose proof (len_pos m). pose proof (total_nonneg ms). apply in_app_iff in Hc. destruct Hc as [Hc|Hc].
  - destruct (len m >? 1); [|contradiction]. destruct Hc as [Hc|[]]. subst c. apply zrange_In in Hx. lia.
  - specialize (IH _ _ _ Hc Hx). lia.
Qed.

Lemma contract_role k base : forall ms done off st rest,
  Forall fmol_ok ms -> get_ok k base (flat done ++ flat ms) -> off = base + total done ->
  (forall x, off <= x < off + total ms -> In x (sel k st) /\ forall k', In k' (earlier k) -> ~ In x (sel k' st)) ->
  contract_loop rec_r rec_p rec_g mol_count lr (multi_ranges off ms ++ rest) st =
  contract_loop rec_r rec_p rec_g mol_count lr rest
    (put k st (apply_us (mheads off ms) (cs_new st))
         (filter (fun x => negb (in_ranges (multi_ranges off ms) x)) (sel k st))).
Proof.
  induction ms as [|m ms IH]; intros done off st rest Hok Hget Hoff Hpre.
  - cbn [multi_ranges mheads app apply_us fold_left in_ranges existsb negb]. f_equal.
    rewrite (filter_all (fun _ => true)) by reflexivity. destruct k, st; reflexivity.
  - pose proof (Forall_inv Hok) as Hm. pose proof (Forall_inv_tail Hok) as Hms. pose proof (len_pos m) as Lp. pose proof (total_nonneg ms) as Tn.
    cbn [multi_ranges mheads]. rewrite total_cons in Hpre.
    assert (Hget' : get_ok k base (flat (done ++ [m]) ++ flat ms)).
    { rewrite flat_app. unfold flat at 2. cbn [flat_map]. rewrite app_nil_r, <- app_assoc. exact Hget. }
    assert (Hoff' : off + len m = base + total (done ++ [m])).
    { rewrite total_app. unfold total at 2. unfold flat. cbn [flat_map]. rewrite app_nil_r. fold (len m). unfold len. lia. }
    destruct (len m >? 1) eqn:G.
    + (* a multi-component molecule: one contract entry *)
      cbn [app]. rewrite zrange_cons by lia.
      rewrite (contract_step k).
      * rewrite <- zrange_cons by lia.
        assert (Ej : concat (sep dot) (map (getf k) (zrange off (off + len m))) = f_smi m).
        { rewrite smi_pcs. f_equal.
          rewrite (map_ext_in _ (fun x => nth (Z.to_nat (x - base)) (flat done ++ pcs m ++ flat ms) EmptyString)).
          - subst off. unfold total, len. apply map_nth_range.
          - intros x Hx. apply zrange_In in Hx. rewrite Hget.
            + unfold flat at 2. cbn [flat_map]. reflexivity.
            + rewrite !app_length. unfold flat at 2. cbn [flat_map]. rewrite app_length. fold (flat ms).
              unfold total, len in *. lia. }
        rewrite Ej.
        rewrite (IH (done ++ [m]) (off + len m) _ rest Hms Hget' Hoff').
        -- rewrite new_put, sel_put_same. f_equal.
           assert (Ep : forall st nw s nw' s', put k (put k st nw s) nw' s' = put k st nw' s') by (intros; destruct k; reflexivity).
           rewrite Ep. f_equal.
           rewrite filter_filter. apply filter_ext. intros x. cbn [in_ranges existsb]. rewrite negb_orb. reflexivity.
        -- intros x Hx. rewrite sel_put_same. split.
           ++ apply filter_In. split; [apply Hpre; lia|]. apply negb_true_iff. apply zmem_false_iff. intros Hin.
              apply zrange_In in Hin. lia.
           ++ intros k' Hk'. rewrite sel_put_other.
              ** apply (proj2 (Hpre x ltac:(lia)) k' Hk').
              ** destruct k, k'; cbn in Hk'; intuition congruence.
      * rewrite <- zrange_cons by lia. apply subset_z_true. intros x Hx. apply zrange_In in Hx. apply Hpre. lia.
      * intros k' Hk'. rewrite <- zrange_cons by lia. apply (subset_z_false _ _ off).
        -- apply zrange_In. lia.
        -- apply (proj2 (Hpre off ltac:(lia)) k' Hk').
    + (* a single-component molecule: no entry *)
      cbn [app]. rewrite (IH (done ++ [m]) (off + len m) st rest Hms Hget' Hoff').
      * reflexivity.
      * intros x Hx. apply Hpre. lia.
Qed.
End Reader.

Lemma filter_none {A} (P : A -> bool) l : (forall x, In x l -> P x = false) -> filter P l = [].
Proof.
  induction l as [|x l IH]; intros H; cbn [filter]; [reflexivity|]. rewrite (H x (or_introl eq_refl)).
  apply IH. intros y Hy. apply H. right. exact Hy.
Qed.

(* ---------- the leftover loops: the single-component molecules ---------- *)
Lemma single_smi m : len m = 1 -> pcs m = [f_smi m].
Proof.
  intros H. rewrite (smi_pcs m). unfold len in H. destruct (pcs m) as [|x [|y l]]; cbn [List.length] in H; try lia. reflexivity.
Qed.

Lemma leftover_list rec_r rec_p rec_g mol_count lr k base : forall ms done off,
  Forall fmol_ok ms -> get_ok rec_r rec_p rec_g mol_count lr k base (flat done ++ flat ms) -> off = base + total done ->
  map (fun x => (x, getf rec_r rec_p rec_g mol_count lr k x))
      (filter (fun x => negb (in_ranges (multi_ranges off ms) x)) (zrange off (off + total ms))) = sheads off ms.
Proof.
  induction ms as [|m ms IH]; intros done off Hok Hget Hoff.
  - unfold total. cbn. rewrite zrange_nil by lia. reflexivity.
  - pose proof (Forall_inv_tail Hok) as Hms. pose proof (len_pos m) as Lp. pose proof (total_nonneg ms) as Tn.
    assert (Hget' : get_ok rec_r rec_p rec_g mol_count lr k base (flat (done ++ [m]) ++ flat ms)).
    { rewrite flat_app. unfold flat at 2. cbn [flat_map]. rewrite app_nil_r, <- app_assoc. exact Hget. }
    assert (Hoff' : off + len m = base + total (done ++ [m])).
    { rewrite total_app. unfold total at 2. unfold flat. cbn [flat_map]. rewrite app_nil_r. fold (len m). unfold len. lia. }
    rewrite total_cons. rewrite (zrange_split off (off + len m) (off + (len m + total ms))) by lia.
    rewrite filter_app, map_app. cbn [multi_ranges sheads].
    replace (off + (len m + total ms)) with (off + len m + total ms) by lia.
    assert (Second : forall extra, (forall x, In x extra -> off <= x < off + len m) ->
              filter (fun x => negb (in_ranges ((if len m >? 1 then [extra] else []) ++ multi_ranges (off + len m) ms) x))
                     (zrange (off + len m) (off + len m + total ms)) =
              filter (fun x => negb (in_ranges (multi_ranges (off + len m) ms) x)) (zrange (off + len m) (off + len m + total ms))).
    { intros extra He. apply filter_ext_in. intros x Hx. apply zrange_In in Hx. destruct (len m >? 1); [|reflexivity].
      cbn [app in_ranges existsb]. replace (zmem x extra) with false; [reflexivity|]. symmetry. apply zmem_false_iff.
      intros Hi. apply He in Hi. lia. }
    rewrite Second by (intros x Hx; apply zrange_In in Hx; lia).
    rewrite (IH (done ++ [m]) (off + len m) Hms Hget' Hoff'). f_equal.
    destruct (len m >? 1) eqn:G.
    + (* multi: every cell of its range is filtered out *)
      rewrite filter_none; [reflexivity|]. intros x Hx. cbn [app in_ranges existsb].
      rewrite (proj2 (zmem_In x _) Hx). reflexivity.
    + (* single: its cell stays and holds its only piece *)
      assert (L1 : len m = 1) by (rewrite Z.gtb_ltb in G; apply Z.ltb_ge in G; lia).
      rewrite L1. rewrite zrange_cons by lia. rewrite (zrange_nil (off + 1)) by lia. cbn [app filter].
      assert (Hnot : in_ranges (multi_ranges (off + 1) ms) off = false).
      { unfold in_ranges. destruct (existsb (zmem off) (multi_ranges (off + 1) ms)) eqn:E; [|reflexivity].
        apply existsb_exists in E. destruct E as [c [Hc Hx]]. apply zmem_In in Hx.
        pose proof (multi_ranges_bounds ms _ _ _ Hc Hx). lia. }
      rewrite Hnot. cbn [negb map]. f_equal. f_equal.
      rewrite Hget.
      * replace (Z.to_nat (off - base)) with (List.length (flat done)) by (unfold total in Hoff; lia).
        rewrite app_nth2 by lia. rewrite Nat.sub_diag. unfold flat at 1. cbn [flat_map]. rewrite (single_smi m L1). reflexivity.
      * rewrite app_length. unfold flat at 2. cbn [flat_map]. rewrite app_length. unfold total, len in *. lia.
Qed.

Lemma fold_zupd_apply (g : Z -> string) S : forall nw,
  fold_left (fun nw x => zupd nw x (Some (g x))) S nw = apply_us (map (fun x => (x, g x)) S) nw.
Proof. unfold apply_us. induction S as [|x S IH]; intros nw; cbn [fold_left map fst snd]; [reflexivity|]. apply IH. Qed.

(* ---------- writes to different cells commute ---------- *)
Lemma upd_comm {A} (l : list A) : forall i j a b, i <> j -> upd (upd l i a) j b = upd (upd l j b) i a.
Proof.
  induction l as [|x l IH]; intros i j a b H; [destruct i, j; reflexivity|].
  destruct i as [|i], j as [|j]; cbn [upd]; try reflexivity; [congruence|]. f_equal. apply IH. congruence.
Qed.

Lemma zupd_comm {A} (l : list A) i j a b : i <> j -> zupd (zupd l i a) j b = zupd (zupd l j b) i a.
Proof.
  intros H. unfold zupd. destruct (i <? 0) eqn:Ei, (j <? 0) eqn:Ej; try reflexivity.
  apply upd_comm. apply Z.ltb_ge in Ei, Ej. lia.
Qed.

Lemma apply_us_perm us us' : Permutation us us' -> NoDup (map fst us) -> forall l, apply_us us l = apply_us us' l.
Proof.
  intros P. induction P as [|x us us' P IH|x y us|us1 us2 us3 P1 IH1 P2 IH2]; intros Hn l.
  - reflexivity.
  - cbn [map] in Hn. inversion Hn; subst. unfold apply_us. cbn [fold_left]. apply IH. assumption.
  - cbn [map] in Hn. inversion Hn as [|? ? Hx Hn']; subst. unfold apply_us. cbn [fold_left]. f_equal.
    apply zupd_comm. intros E. apply Hx. left. symmetry. exact E.
  - rewrite IH1 by exact Hn. apply IH2. apply (Permutation_NoDup (Permutation_map fst P1)). exact Hn.
Qed.

Lemma heads_perm ms : forall off, Permutation (mheads off ms ++ sheads off ms) (heads off ms).
Proof.
  induction ms as [|m ms IH]; intros off; cbn [mheads sheads heads]; [constructor|].
  destruct (len m >? 1); cbn [app].
  - apply perm_skip. apply IH.
  - apply Permutation_sym. apply Permutation_cons_app. apply Permutation_sym. apply IH.
Qed.

Lemma heads_ge ms : forall off x, In x (map fst (heads off ms)) -> off <= x.
Proof.
  induction ms as [|m ms IH]; intros off x H; [contradiction|]. cbn [heads map fst] in H. destruct H as [H|H]; [lia|].
  apply IH in H. pose proof (len_pos m). lia.
Qed.

Lemma heads_nodup ms : forall off, NoDup (map fst (heads off ms)).
Proof.
  induction ms as [|m ms IH]; intros off; cbn [heads map fst]; constructor; [|apply IH].
  intros H. apply heads_ge in H. pose proof (len_pos m). lia.
Qed.

Lemma heads_app a b off : heads off (a ++ b) = heads off a ++ heads (off + total a) b.
Proof.
  revert off. induction a as [|m a IH]; intros off; cbn [app heads].
  - unfold total. cbn. f_equal. lia.
  - rewrite IH, total_cons. f_equal. f_equal. f_equal. lia.
Qed.

(* the expected content of new_molecules: the molecule at its first cell, None on its other cells *)
Definition expect (ms : list fmol) : list (option string) :=
  flat_map (fun m => Some (f_smi m) :: repeat None (Nat.pred (List.length (pcs m)))) ms.

Lemma upd_app_r {A} (pre l : list A) v : upd (pre ++ l) (List.length pre) v = pre ++ upd l 0 v.
Proof. induction pre as [|x pre IH]; cbn [app List.length upd]; [reflexivity|]. rewrite IH. reflexivity. Qed.

Lemma apply_heads ms : forall off pre, off = Z.of_nat (List.length pre) ->
  apply_us (heads off ms) (pre ++ repeat None (Z.to_nat (total ms))) = pre ++ expect ms.
Proof.
  induction ms as [|m ms IH]; intros off pre Hoff.
  - unfold total. cbn. reflexivity.
  - cbn [heads]. unfold apply_us. cbn [fold_left fst snd]. fold (apply_us (heads (off + len m) ms)).
    pose proof (len_pos m) as Lp. pose proof (total_nonneg ms) as Tn. rewrite total_cons.
    replace (Z.to_nat (len m + total ms)) with (S (Nat.pred (List.length (pcs m)) + Z.to_nat (total ms)))%nat by (unfold len in *; lia).
    cbn [repeat]. unfold zupd. replace (off <? 0) with false by (symmetry; apply Z.ltb_ge; lia).
    replace (Z.to_nat off) with (List.length pre) by lia. rewrite upd_app_r. cbn [upd].
    rewrite repeat_app.
    replace (pre ++ Some (f_smi m) :: repeat None (Nat.pred (List.length (pcs m))) ++ repeat None (Z.to_nat (total ms)))
      with ((pre ++ Some (f_smi m) :: repeat None (Nat.pred (List.length (pcs m)))) ++ repeat None (Z.to_nat (total ms)))
      by (rewrite <- app_assoc; reflexivity).
    rewrite IH.
    + cbn [expect flat_map]. rewrite <- app_assoc. reflexivity.
    + rewrite app_length. cbn [List.length]. rewrite repeat_length. unfold len in *. lia.
Qed.

Lemma expect_length ms : List.length (expect ms) = List.length (flat ms).
Proof.
  induction ms as [|m ms IH]; [reflexivity|]. unfold expect, flat in *. cbn [flat_map]. rewrite !app_length, IH.
  cbn [List.length]. rewrite repeat_length. pose proof (len_pos m). unfold len in *. lia.
Qed.

Lemma expect_app a b : expect (a ++ b) = expect a ++ expect b.
Proof. unfold expect. apply flat_map_app. Qed.

Lemma somes_app {A} (a b : list (option A)) : somes (a ++ b) = somes a ++ somes b.
Proof. unfold somes. apply flat_map_app. Qed.

Lemma somes_repeat_none {A} n : somes (repeat (@None A) n) = [].
Proof. induction n; [reflexivity|]. exact IHn. Qed.

Lemma somes_expect ms : somes (expect ms) = map f_smi ms.
Proof.
  induction ms as [|m ms IH]; [reflexivity|]. unfold expect in *. cbn [flat_map map]. rewrite somes_app.
  unfold somes at 1. cbn [flat_map]. fold (somes (repeat (@None string) (Nat.pred (List.length (pcs m))))).
  rewrite somes_repeat_none. cbn [app]. f_equal. exact IH.
Qed.

(* Python slices of A ++ B ++ C *)
Lemma slice_first {A} (a b : list A) : py_slice (a ++ b) None (Some (Z.of_nat (List.length a))) = a.
Proof.
  unfold py_slice. rewrite app_length. replace (Z.of_nat (List.length a) <? 0) with false by (symmetry; apply Z.ltb_ge; lia).
  replace (Z.to_nat (Z.max 0 (Z.min (Z.of_nat (List.length a + List.length b)) (Z.of_nat (List.length a))) - 0)) with (List.length a) by lia.
  cbn [Z.to_nat skipn]. rewrite firstn_app, Nat.sub_diag, firstn_all. cbn. apply app_nil_r.
Qed.

Lemma slice_middle {A} (a b c : list A) :
  py_slice (a ++ b ++ c) (Some (Z.of_nat (List.length a))) (Some (Z.of_nat (List.length a) + Z.of_nat (List.length b))) = b.
Proof.
  unfold py_slice. rewrite !app_length.
  replace (Z.of_nat (List.length a) <? 0) with false by (symmetry; apply Z.ltb_ge; lia).
  replace (Z.of_nat (List.length a) + Z.of_nat (List.length b) <? 0) with false by (symmetry; apply Z.ltb_ge; lia).
  replace (Z.to_nat (Z.max 0 (Z.min (Z.of_nat (List.length a + (List.length b + List.length c))) (Z.of_nat (List.length a)))))
    with (List.length a) by lia.
  replace (Z.to_nat (Z.max 0 (Z.min (Z.of_nat (List.length a + (List.length b + List.length c)))
             (Z.of_nat (List.length a) + Z.of_nat (List.length b))) -
           Z.max 0 (Z.min (Z.of_nat (List.length a + (List.length b + List.length c))) (Z.of_nat (List.length a)))))
    with (List.length b) by lia.
  rewrite skipn_app, skipn_all, Nat.sub_diag. cbn [app skipn]. rewrite firstn_app, Nat.sub_diag, firstn_all. cbn. apply app_nil_r.
Qed.

Lemma slice_last {A} (ab c : list A) : py_slice (ab ++ c) (Some (Z.of_nat (List.length ab))) None = c.
Proof.
  unfold py_slice. rewrite !app_length.
  replace (Z.of_nat (List.length ab) <? 0) with false by (symmetry; apply Z.ltb_ge; lia).
  replace (Z.to_nat (Z.max 0 (Z.min (Z.of_nat (List.length ab + List.length c)) (Z.of_nat (List.length ab))))) with (List.length ab) by lia.
  rewrite skipn_app, skipn_all, Nat.sub_diag. cbn [app skipn]. apply firstn_all2. lia.
Qed.

(* ---------- the contraction restores the molecules ---------- *)
Lemma py_get_pos l i : 0 <= i < Z.of_nat (List.length l) -> py_get l i = nth (Z.to_nat i) l EmptyString.
Proof.
  intros H. unfold py_get. replace (i <? 0) with false by (symmetry; apply Z.ltb_ge; lia).
  replace (i <? 0) with false by (symmetry; apply Z.ltb_ge; lia).
  replace (Z.of_nat (List.length l) <=? i) with false by (symmetry; apply Z.leb_gt; lia). reflexivity.
Qed.

Lemma py_get_neg l i : - Z.of_nat (List.length l) <= i < 0 ->
  py_get l i = nth (Z.to_nat (i + Z.of_nat (List.length l))) l EmptyString.
Proof.
  intros H. unfold py_get. replace (i <? 0) with true by (symmetry; apply Z.ltb_lt; lia).
  replace (i + Z.of_nat (List.length l) <? 0) with false by (symmetry; apply Z.ltb_ge; lia).
  replace (Z.of_nat (List.length l) <=? i + Z.of_nat (List.length l)) with false by (symmetry; apply Z.leb_gt; lia). reflexivity.
Qed.

Lemma perm6 {A} (a b c d e f : list A) : Permutation (a ++ b ++ c ++ d ++ e ++ f) ((a ++ d) ++ (b ++ f) ++ (c ++ e)).
Proof.
  rewrite <- !app_assoc. apply Permutation_app_head.
  transitivity (b ++ d ++ c ++ e ++ f).
  - apply Permutation_app_head. apply Permutation_app_swap_app.
  - transitivity (d ++ b ++ c ++ e ++ f); [apply Permutation_app_swap_app|].
    apply Permutation_app_head. apply Permutation_app_head.
    rewrite (app_assoc c e f). apply Permutation_app_comm.
Qed.

Lemma multi_none_flat ms : forall off, multi_ranges off ms = [] -> flat ms = map f_smi ms.
Proof.
  induction ms as [|m ms IH]; intros off H; [reflexivity|]. cbn [multi_ranges] in H. apply app_eq_nil in H. destruct H as [H1 H2].
  unfold flat in *. cbn [flat_map map]. rewrite (IH _ H2).
  destruct (len m >? 1) eqn:G; [discriminate|]. pose proof (len_pos m). rewrite Z.gtb_ltb in G. apply Z.ltb_ge in G.
  rewrite (single_smi m) by lia. reflexivity.
Qed.

Lemma expect_nonnil ms : ms <> [] -> expect ms <> [].
Proof. destruct ms; [congruence|]. intros _. unfold expect. cbn [flat_map]. discriminate. Qed.

Lemma get_ok_R rec_r rec_p rec_g N lr : get_ok rec_r rec_p rec_g N lr RR 0 rec_r.
Proof. intros x Hx. unfold getf. rewrite py_get_pos by lia. f_equal. lia. Qed.
Lemma get_ok_G rec_r rec_p rec_g N lr : get_ok rec_r rec_p rec_g N lr RG lr rec_g.
Proof. intros x Hx. unfold getf. rewrite py_get_pos by lia. reflexivity. Qed.
Lemma get_ok_P rec_r rec_p rec_g N lr : get_ok rec_r rec_p rec_g N lr RP (N - Z.of_nat (List.length rec_p)) rec_p.
Proof. intros x Hx. unfold getf. rewrite py_get_neg by lia. f_equal. lia. Qed.

Theorem contract_roles_restores R G P :
  Forall fmol_ok R -> Forall fmol_ok G -> Forall fmol_ok P ->
  contract_roles (flat R) (flat P) (flat G)
    (multi_ranges 0 R ++ multi_ranges (total R) G ++ multi_ranges (total R + total G) P) =
  Ok (map f_smi R, map f_smi G, map f_smi P).
Proof.
  intros HR HG HP. unfold contract_roles.
  fold (total R). fold (total P). fold (total G).
  set (lr := total R). set (lg := total G). set (lp := total P). set (N := lr + lp + lg).
  pose proof (total_nonneg R). pose proof (total_nonneg G). pose proof (total_nonneg P).
  replace (N - lp) with (lr + lg) by (unfold N; lia).
  set (st0 := mkC (repeat None (Z.to_nat N)) (zrange 0 lr) (zrange (lr + lg) N) (zrange lr (lr + lg))).
  (* reactants *)
  rewrite (contract_role (flat R) (flat P) (flat G) N lr RR 0 R [] 0 st0); try assumption; try reflexivity.
  2:{ apply get_ok_R. }
  2:{ intros x Hx. split; [|intros k' []]. cbn [sel st0 cs_r]. apply zrange_In. unfold lr. lia. }
  set (st1 := put RR st0 _ _).
  (* reagents *)
  rewrite (contract_role (flat R) (flat P) (flat G) N lr RG lr G [] lr st1); try assumption.
  2:{ apply get_ok_G. }
  2:{ unfold total. cbn. lia. }
  2:{ intros x Hx. split.
      - cbn [sel st1 put st0 cs_g]. apply zrange_In. fold lg in Hx. lia.
      - intros k' [E|[E|[]]]; subst k'; cbn [sel st1 put st0 cs_r cs_p]; intros Hi.
        + apply filter_In in Hi. destruct Hi as [Hi _]. apply zrange_In in Hi. lia.
        + apply zrange_In in Hi. fold lg in Hx. lia. }
  set (st2 := put RG st1 _ _).
  (* products *)
  rewrite <- (app_nil_r (multi_ranges (lr + lg) P)).
  rewrite (contract_role (flat R) (flat P) (flat G) N lr RP (lr + lg) P [] (lr + lg) st2); try assumption.
  2:{ replace (lr + lg) with (N - Z.of_nat (List.length (flat P))) by (fold (total P); fold lp; unfold N; lia). apply get_ok_P. }
  2:{ unfold total. cbn. lia. }
  2:{ intros x Hx. split.
      - cbn [sel st2 st1 put st0 cs_p]. apply zrange_In. fold lp in Hx. unfold N. lia.
      - intros k' [E|[]]; subst k'; cbn [sel st2 st1 put st0 cs_r]; intros Hi.
        apply filter_In in Hi. destruct Hi as [Hi _]. apply zrange_In in Hi. lia. }
  cbn [contract_loop].
  set (st3 := put RP st2 _ _).
  assert (Enew : cs_new st3 = apply_us (mheads 0 R ++ mheads lr G ++ mheads (lr + lg) P) (repeat None (Z.to_nat N))).
  { unfold st3. rewrite new_put. unfold st2. rewrite new_put. unfold st1. rewrite new_put. cbn [st0 cs_new].
    rewrite !apply_us_app. reflexivity. }
  assert (Er : cs_r st3 = filter (fun x => negb (in_ranges (multi_ranges 0 R) x)) (zrange 0 (0 + total R))) by reflexivity.
  assert (Eg : cs_g st3 = filter (fun x => negb (in_ranges (multi_ranges lr G) x)) (zrange lr (lr + total G))) by reflexivity.
  assert (Ep : cs_p st3 = filter (fun x => negb (in_ranges (multi_ranges (lr + lg) P) x)) (zrange (lr + lg) (lr + lg + total P))).
  { cbn [st3 put st2 st1 st0 cs_p sel]. f_equal. f_equal. fold lp. unfold N. lia. }
  rewrite (fold_zupd_apply (getf (flat R) (flat P) (flat G) N lr RR)).
  rewrite (fold_zupd_apply (getf (flat R) (flat P) (flat G) N lr RP)).
  rewrite (fold_zupd_apply (getf (flat R) (flat P) (flat G) N lr RG)).
  rewrite Er, Eg, Ep, Enew.
  rewrite (leftover_list (flat R) (flat P) (flat G) N lr RR 0 R [] 0); try assumption; try reflexivity.
  2:{ apply get_ok_R. }
  rewrite (leftover_list (flat R) (flat P) (flat G) N lr RP (lr + lg) P [] (lr + lg)); try assumption.
  2:{ replace (lr + lg) with (N - Z.of_nat (List.length (flat P))) by (fold (total P); fold lp; unfold N; lia). apply get_ok_P. }
  2:{ unfold total. cbn. lia. }
  rewrite (leftover_list (flat R) (flat P) (flat G) N lr RG lr G [] lr); try assumption.
  2:{ apply get_ok_G. }
  2:{ unfold total. cbn. lia. }
  rewrite <- !apply_us_app.
  assert (Efinal : apply_us ((mheads 0 R ++ mheads lr G ++ mheads (lr + lg) P) ++ sheads 0 R ++ sheads (lr + lg) P ++ sheads lr G)
                            (repeat None (Z.to_nat N)) = expect R ++ expect G ++ expect P).
  { rewrite <- (apply_us_perm (heads 0 (R ++ G ++ P))).
    - replace N with (total (R ++ G ++ P)) by (rewrite !total_app; unfold N, lr, lg, lp; lia).
      pose proof (apply_heads (R ++ G ++ P) 0 [] eq_refl) as AH. cbn [app] in AH. rewrite AH. rewrite !expect_app. reflexivity.
    - rewrite !heads_app. fold lr lg. replace (0 + lr) with lr by lia.
      rewrite <- (heads_perm R 0), <- (heads_perm G lr), <- (heads_perm P (lr + lg)).
      rewrite <- !app_assoc. apply Permutation_sym.
      rewrite (app_assoc (mheads 0 R) (sheads 0 R)), (app_assoc (mheads lr G) (sheads lr G)).
      apply perm6.
    - apply heads_nodup. }
  rewrite Efinal.
  assert (Lr : lr = Z.of_nat (List.length (expect R))) by (rewrite expect_length; reflexivity).
  assert (Lg : lg = Z.of_nat (List.length (expect G))) by (rewrite expect_length; reflexivity).
  rewrite Lr at 1. rewrite slice_first.
  assert (S2 : py_slice (expect R ++ expect G ++ expect P) (Some lr) (Some (lr + lg)) = expect G)
    by (rewrite Lr, Lg; apply slice_middle).
  assert (S3 : py_slice (expect R ++ expect G ++ expect P) (Some (lr + lg)) None = expect P).
  { rewrite app_assoc. replace (lr + lg) with (Z.of_nat (List.length (expect R ++ expect G))) by (rewrite app_length; lia).
    apply slice_last. }
  rewrite S2, S3, !somes_expect. reflexivity.
Qed.

(* ---------- writer then reader ---------- *)
Lemma rxn_write_keep R G P : Forall fmol_ok R -> Forall fmol_ok G -> Forall fmol_ok P ->
  rxn_write true R G P =
  mkW (concat (sep gt) [concat (sep dot) (map f_smi R); concat (sep dot) (map f_smi G); concat (sep dot) (map f_smi P)])
      (true_positions (flat_map f_rad R ++ flat_map f_rad G ++ flat_map f_rad P) 0)
      (multi_ranges 0 R ++ multi_ranges (total R) G ++ multi_ranges (total R + total G) P).
Proof.
  intros HR HG HP. unfold rxn_write. rewrite (role_loop_spec R 0 HR). rewrite (role_loop_spec G _ HG).
  rewrite (role_loop_spec P _ HP). reflexivity.
Qed.

Theorem read_core_roundtrip ignore R G P :
  Forall fmol_ok R -> Forall fmol_ok G -> Forall fmol_ok P ->
  read_core ignore (w_sig (rxn_write true R G P))
            (match w_contract (rxn_write true R G P) with [] => None | c => Some c end) =
  Ok (Some (map f_smi R, map f_smi G, map f_smi P)).
Proof.
  intros HR HG HP. rewrite (rxn_write_keep R G P HR HG HP) in *. cbn [w_sig w_contract] in *.
  set (A := concat (sep dot) (map f_smi R)). set (B := concat (sep dot) (map f_smi G)). set (C := concat (sep dot) (map f_smi P)).
  assert (HA : contains gt A = false) by (apply role_sig_no_gt; exact HR).
  assert (HB : contains gt B = false) by (apply role_sig_no_gt; exact HG).
  assert (HC : contains gt C = false) by (apply role_sig_no_gt; exact HP).
  unfold read_core. change ">"%char with gt.
  assert (Hgt : contains gt (concat (sep gt) [A; B; C]) = true).
  { rewrite concat_cons2, contains_app, contains_app. cbn. rewrite orb_true_r. reflexivity. }
  rewrite Hgt. cbn [negb].
  rewrite split_concat by (try discriminate; repeat constructor; assumption).
  unfold A, B, C. rewrite !role_pieces_ok by assumption.
  destruct (multi_ranges 0 R ++ multi_ranges (total R) G ++ multi_ranges (total R + total G) P) as [|c cs] eqn:Em.
  - apply app_eq_nil in Em. destruct Em as [E1 Em]. apply app_eq_nil in Em. destruct Em as [E2 E3].
    rewrite (multi_none_flat R _ E1), (multi_none_flat G _ E2), (multi_none_flat P _ E3). reflexivity.
  - rewrite <- Em. rewrite (contract_roles_restores R G P HR HG HP). reflexivity.
Qed.

Lemma Forall_perm {A} (Q : A -> Prop) l l' : Permutation l l' -> Forall Q l -> Forall Q l'.
Proof. intros P H. rewrite Forall_forall in *. intros x Hx. apply H. apply (Permutation_in _ (Permutation_sym P)). exact Hx. Qed.

Definition prep (keep_order : bool) (l : list fmol) : list fmol := if keep_order then l else sort_by key_leb l.

(* splitting what __format__ wrote ('>' and '.' splitting, f: contraction) hands exactly the molecule strings, role
   by role and in the written order, to the molecule parser -- for every reaction, empty roles included *)
Theorem rxn_split_roundtrip ignore keep_order rs gs ps :
  Forall fmol_ok rs -> Forall fmol_ok gs -> Forall fmol_ok ps ->
  read_core ignore (w_sig (rxn_write keep_order rs gs ps))
            (match w_contract (rxn_write keep_order rs gs ps) with [] => None | c => Some c end) =
  Ok (Some (map f_smi (prep keep_order rs), map f_smi (prep keep_order gs), map f_smi (prep keep_order ps))).
Proof.
  intros HR HG HP.
  assert (E : rxn_write keep_order rs gs ps = rxn_write true (prep keep_order rs) (prep keep_order gs) (prep keep_order ps)).
  { destruct keep_order; reflexivity. }
  rewrite E in *. apply read_core_roundtrip.
  - destruct keep_order; [exact HR|]. apply (Forall_perm _ _ _ (Permutation_sym (sort_perm key_leb rs)) HR).
  - destruct keep_order; [exact HG|]. apply (Forall_perm _ _ _ (Permutation_sym (sort_perm key_leb gs)) HG).
  - destruct keep_order; [exact HP|]. apply (Forall_perm _ _ _ (Permutation_sym (sort_perm key_leb ps)) HP).
Qed.

(* fmol_ok implies the hypothesis of the order-freeness theorem *)
Lemma fmol_ok_ncomp_det l : Forall fmol_ok l -> ncomp_det l.
Proof.
  intros H a b Ha Hb E. rewrite Forall_forall in H. destruct (H a Ha) as [Ea _]. destruct (H b Hb) as [Eb _].
  rewrite Ea, Eb. unfold len, pcs. rewrite E. reflexivity.
Qed.

(* the case that was wrong before the fix of smiles.py (new_molecules[-lp:] with lp = 0): a salt on the reactant side
   (or among the reagents) of a reaction without products *)
Definition nacl : fmol := mkF "[Na+].[Cl-]" 2 [false; false].
Example rxn_split_roundtrip_no_products :
  Forall fmol_ok [nacl] /\
  read_core true (w_sig (rxn_write false [nacl] [] [])) (Some (w_contract (rxn_write false [nacl] [] []))) =
    Ok (Some (["[Na+].[Cl-]"], [], [])) /\
  read_core true (w_sig (rxn_write false [] [nacl] [])) (Some (w_contract (rxn_write false [] [nacl] []))) =
    Ok (Some ([], ["[Na+].[Cl-]"], [])).
Proof.
  split; [|split; vm_compute; reflexivity].
  constructor; [|constructor]. split; [reflexivity|]. vm_compute. repeat constructor; discriminate.
Qed.

(* non-vacuity: a salt among the reactants, an empty reagent role, a salt among the products *)
Example rxn_split_roundtrip_example :
  let rs := [mkF "CCO" 1 [false; false; false]; nacl] in let ps := [mkF "[K+].[OH-]" 2 [false; false]; mkF "O" 1 [false]] in
  Forall fmol_ok rs /\ Forall fmol_ok ps /\ w_sig (rxn_write false rs [] ps) = "CCO.[Na+].[Cl-]>>O.[K+].[OH-]" /\
  w_contract (rxn_write false rs [] ps) = [[1; 2]; [4; 5]] /\
  read_core true "CCO.[Na+].[Cl-]>>O.[K+].[OH-]" (Some [[1; 2]; [4; 5]]) = Ok (Some (["CCO"; "[Na+].[Cl-]"], [], ["O"; "[K+].[OH-]"])).
Proof.
  cbv zeta. split; [|split; [|split; [vm_compute; reflexivity|split; vm_compute; reflexivity]]].
  - repeat constructor; vm_compute; try reflexivity; discriminate.
  - repeat constructor; vm_compute; try reflexivity; discriminate.
Qed.
