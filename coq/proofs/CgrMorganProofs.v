(* C15 -- the Morgan order of a condensed graph is equivariant under renumbering: instance of the generic
   equivariance of `_morgan` (Proofs.MorganProofs.morgan_ren, any hash, any labels) for dynamic atoms and bonds,
   composed with the equivariance of compose. *)
From Coq Require Import ZArith List Bool Lia Permutation.
From Model Require Import PyBase Graph Morgan Compose CgrMorgan.
From Proofs Require Import MorganProofs ComposeProofs.
Import ListNotations.
Open Scope Z_scope.

Section CgrEquivariance.
Variable h : list Z -> Z.

Lemma cgr_atom_labels_ren s c : cgr_atom_labels h (rename_cgr s c) = ren_labels s (cgr_atom_labels h c).
Proof. unfold cgr_atom_labels, rename_cgr, ren_labels. cbn [c_atoms]. rewrite !map_map. reflexivity. Qed.

Lemma cgr_int_adjacency_ren s c : cgr_int_adjacency h (rename_cgr s c) = ren_adj s (cgr_int_adjacency h c).
Proof.
  unfold cgr_int_adjacency, rename_cgr, ren_adj. cbn [c_adj]. rewrite !map_map. apply map_ext. intros [n l]. cbn [fst snd].
  f_equal. rewrite !map_map. reflexivity.
Qed.

Lemma keys_cgr_atom_labels c : keys (cgr_atom_labels h c) = keys (c_atoms c).
Proof. unfold cgr_atom_labels, keys. rewrite map_map. reflexivity. Qed.

Lemma keys_cgr_int_adjacency c : keys (cgr_int_adjacency h c) = keys (c_adj c).
Proof. unfold cgr_int_adjacency, keys. rewrite map_map. reflexivity. Qed.

Lemma wf_cgr_adj_in c : wf_cgr c = true -> adj_in (keys (c_atoms c)) (cgr_int_adjacency h c).
Proof.
  intros W. destruct (wf_cgr_inner c W) as [K Win]. intros n ms Hin. unfold cgr_int_adjacency in Hin.
  apply in_map_iff in Hin. destruct Hin as [[n' l] [E Hin]]. cbn [fst snd] in E. inversion E; subst. split.
  - rewrite K. unfold keys. change n with (fst (n, l)). apply in_map. exact Hin.
  - intros m Hm. unfold keys in Hm. rewrite map_map in Hm. cbn [fst] in Hm. apply (Win n l m Hin). exact Hm.
Qed.

(* Morgan.atoms_order of a renumbered condensed graph = the renumbered Morgan.atoms_order *)
Theorem cgr_atoms_order_equivariant c s : wf_cgr c = true -> Morgan.inj_on (keys (c_atoms c)) s ->
  cgr_atoms_order h (rename_cgr s c) = ren_res s (cgr_atoms_order h c).
Proof.
  intros W Hs. unfold cgr_atoms_order.
  destruct (c_atoms c) as [|na [|nb r]] eqn:E; unfold rename_cgr at 1; cbn [c_atoms]; rewrite E; cbn [map]; [reflexivity|reflexivity|].
  rewrite cgr_atom_labels_ren, cgr_int_adjacency_ren. rewrite <- E in Hs.
  apply (morgan_ren h s (keys (c_atoms c)) Hs).
  - rewrite keys_cgr_atom_labels. apply incl_refl.
  - apply wf_cgr_adj_in. exact W.
Qed.

(* it is total on well-formed condensed graphs and ranks exactly the atoms *)
Theorem cgr_atoms_order_total c : wf_cgr c = true ->
  exists l, cgr_atoms_order h c = Ok l /\ Permutation (keys l) (keys (c_atoms c)).
Proof.
  intros W. destruct (wf_cgr_inner c W) as [K _]. unfold cgr_atoms_order.
  destruct (c_atoms c) as [|na [|nb r]] eqn:E.
  - exists []. split; [reflexivity|constructor].
  - exists [(fst na, 1)]. split; [reflexivity|apply Permutation_refl].
  - rewrite <- E in *. unfold morgan, morgan_labels.
    assert (Hk : keys (cgr_atom_labels h c) = keys (cgr_int_adjacency h c)) by (rewrite keys_cgr_atom_labels, keys_cgr_int_adjacency; exact K).
    assert (Hc : forall atoms, keys atoms = keys (cgr_int_adjacency h c) -> closed atoms (cgr_int_adjacency h c) = true).
    { intros atoms Ha. pose proof (wf_cgr_adj_in c W) as Ain. unfold closed. rewrite forallb_forall. intros [n ms] Hin. cbn [fst snd].
      destruct (Ain n ms Hin) as [Hn Hms]. rewrite Ha, keys_cgr_int_adjacency, <- K.
      apply andb_true_intro. split; [apply zmem_In; exact Hn|]. rewrite forallb_forall. intros [m b] Hm. cbn [fst]. apply zmem_In. apply Hms.
      unfold keys. change m with (fst (m, b)). apply in_map. exact Hm. }
    destruct (refine_total h (cgr_int_adjacency h c) Hc (Z.to_nat (Z.of_nat (List.length (cgr_atom_labels h c)) - 1))
                (cgr_atom_labels h c) (ndistinct (map snd (cgr_atom_labels h c))) 0 Hk) as [l [Hl Hkl]].
    rewrite Hl. exists (dense_rank l). split; [reflexivity|].
    eapply Permutation_trans; [apply keys_dense_rank|]. rewrite Hkl, keys_cgr_int_adjacency, <- K. apply Permutation_refl.
Qed.

(* ---------- through compose: renumber both sides consistently, the Morgan order of the condensed graph follows ---------- *)
Lemma orders_in_ids r p o1 o2 o3 : orders_ok r p o1 o2 o3 -> incl (o1 ++ o2 ++ o3) (ids r ++ ids p).
Proof.
  intros [P1 [P2 P3]] x Hx. apply in_app_iff. apply in_app_iff in Hx. destruct Hx as [Hx|Hx].
  - apply (Permutation_in _ P1) in Hx. unfold cleavage_ids in Hx. apply filter_In in Hx. left. apply Hx.
  - apply in_app_iff in Hx. destruct Hx as [Hx|Hx].
    + apply (Permutation_in _ P2) in Hx. unfold coupling_ids in Hx. apply filter_In in Hx. right. apply Hx.
    + apply (Permutation_in _ P3) in Hx. unfold common_ids in Hx. apply filter_In in Hx. left. apply Hx.
Qed.

Theorem compose_atoms_order_equivariant s r p o1 o2 o3 :
  wf_mol r = true -> wf_mol p = true -> orders_ok r p o1 o2 o3 -> Compose.inj_on (ids r ++ ids p) s ->
  order_of h (compose_ord (map s o1) (map s o2) (map s o3) (rename s r) (rename s p)) =
  ren_res s (order_of h (compose_ord o1 o2 o3 r p)).
Proof.
  intros Hr Hp Ho Hs. rewrite (compose_equivariant s r p o1 o2 o3 Hr Hp Ho Hs).
  destruct (compose_ord o1 o2 o3 r p) as [c|e] eqn:E; cbn [map_res order_of ren_res]; [|reflexivity].
  destruct (compose_symmetric_wf r p o1 o2 o3 c Hr Hp Ho E) as [W _].
  destruct (compose_lookup r p o1 o2 o3 c Hr Hp Ho E) as [K _].
  apply cgr_atoms_order_equivariant; [exact W|]. rewrite K.
  intros x y Hx Hy. apply Hs; apply (orders_in_ids r p o1 o2 o3 Ho); assumption.
Qed.

(* rank by rank *)
Theorem compose_rank_equivariant s r p o1 o2 o3 c : 
  wf_mol r = true -> wf_mol p = true -> orders_ok r p o1 o2 o3 -> Compose.inj_on (ids r ++ ids p) s ->
  compose_ord o1 o2 o3 r p = Ok c ->
  forall n, In n (keys (c_atoms c)) ->
  rank_of (order_of h (compose_ord (map s o1) (map s o2) (map s o3) (rename s r) (rename s p))) (s n) = rank_of (cgr_atoms_order h c) n.
Proof.
  intros Hr Hp Ho Hs E n Hn. rewrite (compose_atoms_order_equivariant s r p o1 o2 o3 Hr Hp Ho Hs), E. cbn [order_of].
  destruct (compose_symmetric_wf r p o1 o2 o3 c Hr Hp Ho E) as [W _].
  destruct (compose_lookup r p o1 o2 o3 c Hr Hp Ho E) as [K _].
  destruct (cgr_atoms_order_total c W) as [l [Hl Hk]]. rewrite Hl. cbn [ren_res rank_of].
  apply (zget_ren s l n (keys (c_atoms c))); [|intros x Hx; eapply Permutation_in; [exact Hk|exact Hx]|exact Hn].
  rewrite K. intros x y Hx Hy. apply Hs; apply (orders_in_ids r p o1 o2 o3 Ho); assumption.
Qed.
End CgrEquivariance.

(* DynamicBond.__int__ is the hash of BOTH orders: two dynamic bonds get the same tie-break value only if they are the same
   bond or the tuple hash collides on their (order or 0, p_order or 0) pairs *)
Theorem dbond_int_separates h a b : dbond_int h a = dbond_int h b ->
  (oz (db_ord a) = oz (db_ord b) /\ oz (db_pord a) = oz (db_pord b)) \/
  (h [oz (db_ord a); oz (db_pord a)] = h [oz (db_ord b); oz (db_pord b)] /\ [oz (db_ord a); oz (db_pord a)] <> [oz (db_ord b); oz (db_pord b)]).
Proof.
  unfold dbond_int, dbond_invariant. intros H.
  destruct (Z.eq_dec (oz (db_ord a)) (oz (db_ord b))) as [E1|N1]; destruct (Z.eq_dec (oz (db_pord a)) (oz (db_pord b))) as [E2|N2];
    [left; split; assumption|right|right|right]; (split; [exact H|intros E; inversion E; congruence]).
Qed.

(* non-vacuity: the example reaction of ComposeProofs renumbered by n -> 10 - n, with the CPython tuple hash (reference definition over Z) *)
Example cgr_atoms_order_example :
  exists c, compose example_r example_p = Ok c /\
    z_cgr_atoms_order c = Ok [(3, 1); (2, 2); (1, 3)] /\
    z_cgr_atoms_order (rename_cgr (fun n => 10 - n) c) = Ok [(7, 1); (8, 2); (9, 3)].
Proof. eexists. split; [vm_compute; reflexivity|]. split; vm_compute; reflexivity. Qed.
