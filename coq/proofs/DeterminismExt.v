(* C19 extension round: order freedom of a dict of lists filled in set order (LinearFingerprint._fragments) and of its
   consumer linear_hash_set.  Self contained: Stdlib + Model.Determinism + Proofs.DeterminismProofs. *)
From Coq Require Import ZArith List Bool Lia Permutation.
From Model Require Import Determinism.
From Proofs Require Import DeterminismProofs.
Import ListNotations.
Open Scope list_scope.
Open Scope Z_scope.

Section MultiProofs.
  Context {K V : Type}.
  Variable keqb : K -> K -> bool.
  Hypothesis keqb_spec : forall a b, keqb a b = true <-> a = b.

  Lemma keqb_refl a : keqb a a = true.
  Proof. apply keqb_spec. reflexivity. Qed.

  Lemma mget_madd (d : list (K * list V)) k v k' :
    mget keqb (madd keqb d k v) k' = if keqb k' k then mget keqb d k ++ [v] else mget keqb d k'.
  Proof.
    induction d as [|[k0 vs] r IH]; cbn.
    - destruct (keqb k' k); reflexivity.
    - destruct (keqb k k0) eqn:E; cbn.
      + apply keqb_spec in E. subst k0. destruct (keqb k' k); reflexivity.
      + destruct (keqb k' k0) eqn:E2.
        * apply keqb_spec in E2. subst k0. destruct (keqb k' k) eqn:E3; [|reflexivity].
          apply keqb_spec in E3. subst. rewrite keqb_refl in E. discriminate.
        * exact IH.
  Qed.

  (* the equivalence of two finished dicts: every d[k] holds the same elements (in some order) *)
  Definition same_lists (d d' : list (K * list V)) : Prop := forall k, Permutation (mget keqb d k) (mget keqb d' k).

  (* out[key(x)].append(val(x)) over a set: every list of the result has the same members for every enumeration *)
  Lemma multi_table_perm {X : Type} (key : X -> K) (val : X -> V) (e e' : list X) : Permutation e e' ->
    same_lists (multi_table keqb key val e) (multi_table keqb key val e').
  Proof.
    intros Hp. unfold multi_table.
    apply (loop_perm_R same_lists).
    - intros a k. apply Permutation_refl.
    - intros a b c H1 H2 k. eapply Permutation_trans; [apply H1 | apply H2].
    - intros a b x H k. rewrite !mget_madd. destruct (keqb k (key x)); [apply Permutation_app_tail|]; apply H.
    - intros a x y k. rewrite !mget_madd.
      destruct (keqb k (key y)) eqn:E1, (keqb k (key x)) eqn:E2; try apply Permutation_refl.
      + apply keqb_spec in E1, E2. rewrite <- E1, <- E2, !keqb_refl.
        rewrite <- !app_assoc. apply Permutation_app_head. apply perm_swap.
      + destruct (keqb (key y) (key x)) eqn:E3; [|apply Permutation_refl].
        apply keqb_spec in E1, E3. subst. rewrite E3, keqb_refl in E2. discriminate.
      + destruct (keqb (key x) (key y)) eqn:E3; [|apply Permutation_refl].
        apply keqb_spec in E2, E3. subst. rewrite E3, keqb_refl in E1. discriminate.
    - exact Hp.
    - intros k. apply Permutation_refl.
  Qed.

  (* ---- invariants of a table built by madd: keys are pairwise different, no list is empty ---- *)
  Definition keys_nodup (d : list (K * list V)) : Prop := NoDup (map fst d).
  Definition table_ok (d : list (K * list V)) : Prop := keys_nodup d /\ forall k vs, In (k, vs) d -> vs <> [].

  Lemma madd_keys (d : list (K * list V)) k v x : In x (map fst (madd keqb d k v)) <-> x = k \/ In x (map fst d).
  Proof.
    induction d as [|[k0 vs] r IH]; cbn; [intuition|].
    destruct (keqb k k0) eqn:E; cbn.
    - apply keqb_spec in E. subst. intuition.
    - rewrite IH. intuition.
  Qed.

  Lemma madd_ok (d : list (K * list V)) k v : table_ok d -> table_ok (madd keqb d k v).
  Proof.
    unfold table_ok, keys_nodup. induction d as [|[k0 vs] r IH]; cbn; intros [Hn He].
    - split; [repeat constructor; intros [] | intros k' vs' [[= <- <-]|[]]; discriminate].
    - destruct (keqb k k0) eqn:E; cbn.
      + split; [exact Hn|]. intros k' vs' [[= <- <-]|H]; [destruct vs; discriminate | eapply He; right; exact H].
      + inversion Hn as [|? ? Hnotin Hn']; subst.
        destruct IH as [IHn IHe]; [split; [exact Hn' | intros k' vs' H; eapply He; right; exact H]|].
        split.
        * constructor; [|exact IHn]. intros Hin. apply madd_keys in Hin. destruct Hin as [->|Hin]; [|contradiction].
          rewrite keqb_refl in E. discriminate.
        * intros k' vs' [[= <- <-]|H]; [eapply He; left; reflexivity | eapply IHe; exact H].
  Qed.

  Lemma multi_table_ok {X : Type} (key : X -> K) (val : X -> V) (e : list X) : table_ok (multi_table keqb key val e).
  Proof.
    unfold multi_table, loop.
    assert (G : forall d, table_ok d -> table_ok (fold_left (fun d x => madd keqb d (key x) (val x)) e d)).
    { induction e as [|x e IH]; intros d H; cbn; [exact H|]. apply IH, madd_ok, H. }
    apply G. split; [constructor | intros ? ? []].
  Qed.

  Lemma mget_In (d : list (K * list V)) k vs : keys_nodup d -> In (k, vs) d -> mget keqb d k = vs.
  Proof.
    unfold keys_nodup. induction d as [|[k0 vs0] r IH]; cbn; intros Hn Hin; [destruct Hin|].
    inversion Hn as [|? ? Hnotin Hn']; subst. destruct Hin as [[= -> ->]|Hin].
    - rewrite keqb_refl. reflexivity.
    - destruct (keqb k k0) eqn:E; [|apply IH; assumption].
      apply keqb_spec in E. subst. exfalso. apply Hnotin. apply in_map_iff. exists (k0, vs). split; [reflexivity | exact Hin].
  Qed.

  Lemma mget_nonempty_In (d : list (K * list V)) k : mget keqb d k <> [] -> In (k, mget keqb d k) d.
  Proof.
    induction d as [|[k0 vs0] r IH]; cbn; intros H; [congruence|].
    destruct (keqb k k0) eqn:E; [apply keqb_spec in E; subst; left; reflexivity | right; apply IH, H].
  Qed.

  (* ---- the consumer: hashes of (key, cnt) for cnt < min(len(list), nbp) ---- *)
  Lemma count_range_In len nbp c : In c (count_range len nbp) <-> 0 <= c < Z.min len nbp.
  Proof.
    unfold count_range. rewrite in_map_iff. split.
    - intros [n [<- Hn]]. apply in_seq in Hn. lia.
    - intros H. exists (Z.to_nat c). split; [lia|]. apply in_seq. lia.
  Qed.

  Lemma frag_hashes_In (h : K -> Z -> Z) nbp (d : list (K * list V)) y : table_ok d ->
    (In y (frag_hashes h nbp d) <->
     exists k c, 0 <= c < Z.min (Z.of_nat (List.length (mget keqb d k))) nbp /\ y = h k c).
  Proof.
    intros [Hn He]. unfold frag_hashes. rewrite in_flat_map. split.
    - intros [[k vs] [Hin Hy]]. cbn in Hy. apply in_map_iff in Hy. destruct Hy as [c [<- Hc]].
      apply count_range_In in Hc. exists k, c. rewrite (mget_In d k vs Hn Hin). split; [exact Hc | reflexivity].
    - intros [k [c [Hc ->]]].
      assert (mget keqb d k <> []) as Hne by (intros E; rewrite E in Hc; cbn in Hc; lia).
      exists (k, mget keqb d k). split; [apply mget_nonempty_In, Hne|]. cbn.
      apply in_map. apply count_range_In. exact Hc.
  Qed.

  Lemma canon_set_ext l l' : (forall y, In y l <-> In y l') -> canon_set l = canon_set l'.
  Proof.
    intros H. unfold canon_set. apply sset_ext; try (apply adds_sset; exact I).
    intros y. rewrite !adds_In. cbn. specialize (H y). intuition.
  Qed.

  Lemma canon_set_In l y : In y (canon_set l) <-> In y l.
  Proof. unfold canon_set. rewrite adds_In. cbn. intuition. Qed.

  (* linear_hash_set: the same canonical set for every enumeration of the chain set *)
  Theorem frag_hash_set_perm {X : Type} (key : X -> K) (val : X -> V) (h : K -> Z -> Z) (nbp : Z) (e e' : list X) :
    Permutation e e' -> frag_hash_set keqb key val h nbp e = frag_hash_set keqb key val h nbp e'.
  Proof.
    intros Hp. unfold frag_hash_set. apply canon_set_ext. intros y.
    rewrite !frag_hashes_In by apply multi_table_ok.
    pose proof (multi_table_perm key val e e' Hp) as Hs.
    split; intros [k [c [Hc ->]]]; exists k, c; (split; [|reflexivity]).
    - rewrite <- (Permutation_length (Hs k)). exact Hc.
    - rewrite (Permutation_length (Hs k)). exact Hc.
  Qed.

  (* keys of the finished dict: exactly the keys of the members, whatever the enumeration *)
  Lemma multi_table_keys {X : Type} (key : X -> K) (val : X -> V) (e : list X) k :
    In k (map fst (multi_table keqb key val e)) <-> exists x, In x e /\ key x = k.
  Proof.
    unfold multi_table, loop.
    assert (G : forall d, In k (map fst (fold_left (fun d x => madd keqb d (key x) (val x)) e d)) <->
                          In k (map fst d) \/ exists x, In x e /\ key x = k).
    { induction e as [|x e IH]; intros d; cbn.
      - split; [auto | intros [H|[x [[] _]]]; exact H].
      - rewrite IH, madd_keys. split.
        + intros [[->|H]|[z [Hz Hk]]]; [right; exists x; auto | left; exact H | right; exists z; auto].
        + intros [H|[z [[<-|Hz] Hk]]]; [left; right; exact H | left; left; symmetry; exact Hk | right; exists z; auto]. }
    rewrite G. cbn. split; [intros [[]|H]; exact H | auto].
  Qed.

  (* members of one list: exactly the values of the members with that key *)
  Lemma multi_table_members {X : Type} (key : X -> K) (val : X -> V) (e : list X) k v :
    In v (mget keqb (multi_table keqb key val e) k) <-> exists x, In x e /\ key x = k /\ val x = v.
  Proof.
    unfold multi_table, loop.
    assert (G : forall d, In v (mget keqb (fold_left (fun d x => madd keqb d (key x) (val x)) e d) k) <->
                          In v (mget keqb d k) \/ exists x, In x e /\ key x = k /\ val x = v).
    { induction e as [|x e IH]; intros d; cbn.
      - split; [auto | intros [H|[x [[] _]]]; exact H].
      - rewrite IH, mget_madd. destruct (keqb k (key x)) eqn:E.
        + apply keqb_spec in E. subst k. rewrite in_app_iff. cbn. split.
          * intros [[H|[<-|[]]]|[z [Hz Hk]]]; [left; exact H | right; exists x; auto | right; exists z; tauto].
          * intros [H|[z [[<-|Hz] [Hk Hv]]]]; [left; left; exact H | left; right; left; exact Hv | right; exists z; auto].
        + split.
          * intros [H|[z [Hz Hk]]]; [left; exact H | right; exists z; tauto].
          * intros [H|[z [[<-|Hz] [Hk Hv]]]]; [left; exact H | | right; exists z; auto].
            subst k. rewrite keqb_refl in E. discriminate. }
    rewrite G. cbn. split; [intros [[]|H]; exact H | auto].
  Qed.
End MultiProofs.

(* ---- instance: int tuples as keys (LinearFingerprint._fragments) ---- *)
Lemma zlist_eqb_spec : forall a b, zlist_eqb a b = true <-> a = b.
Proof.
  induction a as [|x r IH]; intros [|y s]; cbn; split; try discriminate; auto.
  - rewrite andb_true_iff. intros [H1 H2]. apply Z.eqb_eq in H1. apply IH in H2. subst. reflexivity.
  - intros [= -> ->]. rewrite Z.eqb_refl. apply IH. reflexivity.
Qed.

(* _fragments(lo, hi) over any two enumerations of the same chain set: same keys, and per key the same chains *)
Theorem fragments_of_perm (idf : Z -> Z) (ord : Z -> Z -> Z) (e e' : list (list Z)) : Permutation e e' ->
  (forall k, In k (map fst (fragments_of idf ord e)) <-> In k (map fst (fragments_of idf ord e'))) /\
  (forall k, Permutation (mget zlist_eqb (fragments_of idf ord e) k) (mget zlist_eqb (fragments_of idf ord e') k)).
Proof.
  intros Hp. split.
  - intros k. unfold fragments_of. rewrite !(multi_table_keys zlist_eqb zlist_eqb_spec).
    split; intros [x [Hx Hk]]; exists x; (split; [|exact Hk]);
      [eapply Permutation_in; [exact Hp | exact Hx] | eapply Permutation_in; [apply Permutation_sym, Hp | exact Hx]].
  - apply (multi_table_perm zlist_eqb zlist_eqb_spec). exact Hp.
Qed.

(* the hash set computed from it (linear_hash_set) *)
Theorem fragments_hash_set_perm (idf : Z -> Z) (ord : Z -> Z -> Z) (h : list Z -> Z -> Z) (nbp : Z) (e e' : list (list Z)) :
  Permutation e e' ->
  frag_hash_set zlist_eqb (frag_key idf ord) (frag_val idf ord) h nbp e =
  frag_hash_set zlist_eqb (frag_key idf ord) (frag_val idf ord) h nbp e'.
Proof. apply (frag_hash_set_perm zlist_eqb zlist_eqb_spec). Qed.

(* what is NOT order free: the order inside one list (linear_hash_smiles reads chains[0]) *)
Lemma fragments_first_chain_order_dependent :
  let idf := fun _ : Z => 6 in let ord := fun _ _ : Z => 1 in
  let e := [[2; 1]; [3; 2]] in let e' := [[3; 2]; [2; 1]] in
  Permutation e e' /\
  hd [] (mget zlist_eqb (fragments_of idf ord e) [6; 1; 6]) = [1; 2] /\
  hd [] (mget zlist_eqb (fragments_of idf ord e') [6; 1; 6]) = [2; 3].
Proof. cbn. repeat split; try reflexivity. apply perm_swap. Qed.

(* non-vacuity *)
Lemma fragments_example :
  let idf := fun x : Z => if x =? 3 then 8 else 6 in let ord := fun _ _ : Z => 1 in
  fragments_of idf ord [[1]; [2]; [3]; [2; 1]; [3; 2]; [3; 2; 1]] =
    [([6], [[1]; [2]]); ([8], [[3]]); ([6; 1; 6], [[1; 2]]); ([8; 1; 6], [[3; 2]]); ([8; 1; 6; 1; 6], [[3; 2; 1]])] /\
  frag_hash_set zlist_eqb (frag_key idf ord) (frag_val idf ord) (fun k c => fold_left Z.add k c) 4 [[1]; [2]; [3]; [2; 1]] =
  frag_hash_set zlist_eqb (frag_key idf ord) (frag_val idf ord) (fun k c => fold_left Z.add k c) 4 [[2; 1]; [3]; [2]; [1]].
Proof. vm_compute. split; reflexivity. Qed.

(* ------------------------------------------------------------------------------------------------------------ *)
(* more generic reasons used by the audit of the files anchored by the other properties *)

(* `for n in S: state[n] = g(n, state[n])` - every iteration rewrites only the entry of its own member (calc_implicit(n),
   a._charge += 1, new_molecules[x] = ..., bond._stereo = ...): the final state, as a function, is the same for every
   enumeration *)
Definition upd_at {V : Type} (g : Z -> V -> V) (s : Z -> V) (n : Z) : Z -> V :=
  fun k => if k =? n then g n (s k) else s k.

Lemma pointwise_update_perm {V : Type} (g : Z -> V -> V) (e e' : list Z) (s : Z -> V) : Permutation e e' ->
  forall k, loop (upd_at g) e s k = loop (upd_at g) e' s k.
Proof.
  intros Hp.
  apply (loop_perm_R (fun a b : Z -> V => forall k, a k = b k)); auto.
  - intros a b c H1 H2 k. rewrite H1. apply H2.
  - intros a b x H k. unfold upd_at. rewrite H. reflexivity.
  - intros a x y k. unfold upd_at.
    destruct (k =? y) eqn:E1, (k =? x) eqn:E2; try reflexivity.
    apply Z.eqb_eq in E1, E2. subst. reflexivity.
Qed.

(* any(p(x) for x in S) / a validation loop that raises on the first offending member: the outcome (whether it raises)
   is the same for every enumeration; all(...) likewise *)
Lemma existsb_perm {X : Type} (p : X -> bool) (e e' : list X) : Permutation e e' -> existsb p e = existsb p e'.
Proof.
  induction 1 as [|x l l' _ IH|x y l|l l' l'' _ IH1 _ IH2]; cbn; try congruence.
  destruct (p x), (p y); reflexivity.
Qed.

Lemma forallb_perm {X : Type} (p : X -> bool) (e e' : list X) : Permutation e e' -> forallb p e = forallb p e'.
Proof.
  induction 1 as [|x l l' _ IH|x y l|l l' l'' _ IH1 _ IH2]; cbn; try congruence.
  destruct (p x), (p y); reflexivity.
Qed.

(* sorted(S) for a set of ints: the identity key separates the members *)
Lemma sorted_ints_perm (e e' : list Z) : Permutation e e' -> sort_by (fun z => z) e = sort_by (fun z => z) e'.
Proof. intros Hp. apply (proj2 (sort_by_perm (fun z => z) e e' Hp)). auto. Qed.

Lemma ext_examples :
  loop (upd_at (fun n v => v + n)) [3; 1; 3] (fun _ => 0) 3 = 6 /\
  existsb (fun x => x >? 2) [1; 3] = existsb (fun x => x >? 2) [3; 1] /\
  sort_by (fun z => z) [8; 1; 4] = [1; 4; 8].
Proof. vm_compute. repeat split; reflexivity. Qed.

(* max(S) / min(S) of ints *)
Lemma max_perm (e e' : list Z) (d : Z) : Permutation e e' -> loop Z.max e d = loop Z.max e' d.
Proof. intros Hp. apply loop_perm; auto. intros a x y. lia. Qed.
