(* C02, writer_wellformed, part 10: completeness of the flattening loop.  Whenever fl_run returns, its token list contains
   the root, is closed under the children of `edges`, and its bond tokens are exactly the (parent, child) pairs of the atoms
   it contains, each once: the list is the whole tree below the root.  Second invariant of fl_step, on top of FI. *)
From Coq Require Import ZArith List Bool Lia Permutation.
From Model Require Import PyBase Graph Writer.
From Proofs Require Import WriterProofsClosures WriterWfAtoms WriterWfStream WriterWfDfs WriterWfTree WriterWfFlatten WriterWfParens.
Import ListNotations.
Open Scope Z_scope.

Fixpoint pairs_of (smi : list tok) : list (Z * Z) :=
  match smi with [] => [] | TBond p c :: r => (p, c) :: pairs_of r | _ :: r => pairs_of r end.
Lemma pairs_of_app a b : pairs_of (a ++ b) = pairs_of a ++ pairs_of b.
Proof. induction a as [|[n| | |p c] a IH]; cbn [app pairs_of]; rewrite ?IH; reflexivity. Qed.
Lemma srcs_pairs smi : srcs_of smi = map fst (pairs_of smi).
Proof. induction smi as [|[n| | |p c] a IH]; cbn [srcs_of pairs_of map fst]; rewrite ?IH; reflexivity. Qed.

Definition pairs (st : list fl_entry) : list (Z * Z) := flat_map (fun e => pairs_of (snd e)) st.
Lemma srcs_pairs_st st : srcs st = map fst (pairs st).
Proof. unfold srcs, pairs. induction st as [|e st IH]; cbn [flat_map map]; [reflexivity|]. rewrite map_app, <- IH, srcs_pairs. reflexivity. Qed.

Section Flatten2.
  Variable edges : list (Z * list Z).
  Variable root : Z.

  Fixpoint waits2 (ex : list Z) (st : list fl_entry) : Prop :=
    match st with
    | x :: ((y :: _) as r) => (clo_of x = 0 -> In (tail_of y) ex) /\ waits2 ex r
    | _ => True
    end.

  Record FJ (st : list fl_entry) : Prop := mkFJ {
    fj_exp : forall p c, In p (srcs st) -> In c (zgetl edges p) -> In (p, c) (pairs st);
    fj_sound : forall p c, In (p, c) (pairs st) -> In c (zgetl edges p);
    fj_perm : Permutation (placed st) (root :: map snd (pairs st));
    fj_pend : forall n, In n (placed st) -> zgetl edges n = [] \/ In n (srcs st) \/ In n (map tail_of st);
    fj_wait2 : waits2 (srcs st) st
  }.

  Definition res_full (r : list tok) : Prop :=
    Permutation (atoms_of r) (root :: map snd (pairs_of r)) /\
    (forall p c, In (p, c) (pairs_of r) -> In c (zgetl edges p)) /\
    (forall n c, In n (atoms_of r) -> In c (zgetl edges n) -> In (n, c) (pairs_of r)).

  Lemma waits2_tl ex x st : waits2 ex (x :: st) -> waits2 ex st.
  Proof. destruct st as [|y r]; cbn [waits2]; [intros _; exact I | intros [_ H]; exact H]. Qed.
  Lemma waits2_cons ex x st :
    (match st with y :: _ => clo_of x = 0 -> In (tail_of y) ex | [] => True end) -> waits2 ex st -> waits2 ex (x :: st).
  Proof. destruct st as [|y r]; cbn [waits2]; [intros _ _; exact I | intros H1 H2; split; assumption]. Qed.
  Lemma waits2_mono ex ex' : forall st, (forall n, In n ex -> In n ex') -> waits2 ex st -> waits2 ex' st.
  Proof.
    induction st as [|x st IH]; intros Hm H; [exact I|]. destruct st as [|y r]; [exact I|].
    cbn [waits2] in H |- *. destruct H as [H1 H2]. split; [intros E; apply Hm; apply H1; exact E | apply IH; assumption].
  Qed.
  Lemma waits2_fst ex : forall st st', map fst st = map fst st' -> waits2 ex st -> waits2 ex st'.
  Proof.
    induction st as [|x st IH]; intros [|x' st'] E H; cbn [map] in E; try discriminate; [exact I|].
    injection E as E1 E2. destruct st as [|y r]; destruct st' as [|y' r']; cbn [map] in E2; try discriminate; [exact I|].
    injection E2 as E3 E4. cbn [waits2] in *. destruct H as [H1 H2]. split.
    - unfold tail_of, clo_of in *. rewrite <- E1, <- E3. exact H1.
    - apply (IH (y' :: r')); [cbn [map]; rewrite E3, E4; reflexivity | exact H2].
  Qed.

  Lemma pairs_upd i add : forall st, (i < List.length st)%nat ->
    Permutation (pairs (upd_at i (fun e : fl_entry => (fst e, snd e ++ add)) st)) (pairs_of add ++ pairs st).
  Proof.
    induction i as [|i IH]; intros [|e st] Hi; cbn [List.length] in Hi; try lia; cbn [upd_at].
    - unfold pairs. cbn [flat_map snd]. rewrite pairs_of_app. rewrite <- app_assoc. apply Permutation_app_swap_app.
    - specialize (IH st ltac:(lia)). unfold pairs in *. cbn [flat_map].
      eapply Permutation_trans; [apply Permutation_app_head; exact IH|]. apply Permutation_app_swap_app.
  Qed.

  Lemma pop_second_last_pairs smi : second_last_is_open smi = Some true -> pairs_of (pop_second_last smi) = pairs_of smi.
  Proof.
    unfold second_last_is_open, pop_second_last. destruct (rev smi) as [|a [|x r]] eqn:E; try discriminate.
    destruct x; try discriminate. intros _.
    assert (Hs : smi = rev r ++ [TOpen; a]) by (rewrite <- (rev_involutive smi), E; cbn [rev]; rewrite <- app_assoc; reflexivity).
    rewrite Hs. rewrite !pairs_of_app. reflexivity.
  Qed.

  Lemma sides_pairs tl L : forall l,
    flat_map (fun e : fl_entry => pairs_of (snd e)) (map (fun c => (c, L, [TOpen; TBond tl c; TAtom c])) l) = map (fun c => (tl, c)) l.
  Proof. induction l as [|c l IHl]; [reflexivity|]. cbn [map flat_map snd pairs_of app]. rewrite IHl. reflexivity. Qed.

  Lemma In_srcs st n : In n (srcs st) <-> exists c, In (n, c) (pairs st).
  Proof.
    rewrite srcs_pairs_st. rewrite in_map_iff. split.
    - intros [[p c] [E H]]. cbn in E. subst. exists c. exact H.
    - intros [c H]. exists (n, c). split; [reflexivity | exact H].
  Qed.

  Lemma fl_step_FJ st : bottom_main st -> FJ st ->
    match fl_step edges st with
    | FlCont st' => FJ st'
    | FlDone r => res_full r
    | FlErr _ => True
    end.
  Proof.
    intros Hbot J. unfold fl_step. destruct st as [|[[tail closure] smi] rest]; [exact I|].
    set (T := (tail, closure, smi)) in *. set (old := T :: rest) in *.
    destruct J as [Jexp Jsound Jperm Jpend Jw].
    assert (Hpairs_old : pairs old = pairs_of smi ++ pairs rest) by reflexivity.
    assert (Hpl_old : placed old = atoms_of smi ++ placed rest) by reflexivity.
    destruct (zget edges tail) as [children|] eqn:Ech.
    - assert (Hzl : zgetl edges tail = children) by (unfold zgetl; rewrite Ech; reflexivity).
      destruct (rev children) as [|last revfront] eqn:Er; [exact I|].
      assert (Hch : children = rev revfront ++ [last]) by (rewrite <- (rev_involutive children), Er; reflexivity).
      destruct (1 <? Z.of_nat (List.length children)) eqn:Elen.
      + cbv zeta. set (L := Z.of_nat (List.length old)). set (front := rev revfront) in *.
        set (sides := map (fun c => (c, L, [TOpen; TBond tail c; TAtom c])) front).
        set (M := (last, 0, [TBond tail last; TAtom last])).
        change (FJ (sides ++ M :: old)).
        assert (Hpr : pairs (sides ++ M :: old) = map (fun c => (tail, c)) children ++ pairs old).
        { unfold pairs. rewrite flat_map_app. cbn [flat_map]. unfold sides. rewrite sides_pairs. cbn [snd pairs_of M].
          rewrite Hch, map_app. cbn [map]. rewrite <- !app_assoc. reflexivity. }
        assert (Hpl : placed (sides ++ M :: old) = children ++ placed old).
        { unfold placed. rewrite flat_map_app. cbn [flat_map]. unfold sides. rewrite sides_placed. cbn [snd atoms_of M].
          rewrite Hch. rewrite <- !app_assoc. reflexivity. }
        assert (Hsr : forall n, In n (srcs (sides ++ M :: old)) <-> (n = tail /\ children <> []) \/ In n (srcs old)).
        { intros n. rewrite !srcs_pairs_st, Hpr, map_app, in_app_iff, map_map. cbn [fst]. split.
          - intros [H | H]; [left | right; exact H]. apply in_map_iff in H. destruct H as [c [E Hc]]. split; [symmetry; exact E | intros E2; rewrite E2 in Hc; exact Hc].
          - intros [[-> Hne] | H]; [left | right; exact H]. destruct children as [|c0 l0]; [contradiction|]. left. reflexivity. }
        constructor.
        * intros p c Hp Hc. rewrite Hpr. apply in_or_app. apply Hsr in Hp. destruct Hp as [[-> _] | Hp].
          -- left. apply in_map_iff. exists c. split; [reflexivity | rewrite <- Hzl; exact Hc].
          -- right. apply Jexp; assumption.
        * intros p c Hin. rewrite Hpr in Hin. apply in_app_or in Hin. destruct Hin as [Hin | Hin]; [|apply Jsound; exact Hin].
          apply in_map_iff in Hin. destruct Hin as [c' [E Hc']]. injection E as E1 E2. subst p c'. rewrite Hzl. exact Hc'.
        * rewrite Hpl, Hpr, map_app, map_map. cbn [snd]. rewrite map_id.
          eapply Permutation_trans; [apply Permutation_app_head; exact Jperm|]. apply Permutation_sym. apply Permutation_middle.
        * intros n Hn. rewrite Hpl in Hn. apply in_app_or in Hn. destruct Hn as [Hn | Hn].
          -- right. right. rewrite map_app. apply in_or_app. rewrite Hch in Hn. apply in_app_or in Hn. destruct Hn as [Hn | [<- | []]].
             ++ left. unfold sides. rewrite map_map. cbn. rewrite map_id. exact Hn.
             ++ right. left. reflexivity.
          -- destruct (Jpend n Hn) as [A | [A | A]]; [left; exact A | right; left; apply Hsr; right; exact A|].
             right. right. rewrite map_app. apply in_or_app. right. right. exact A.
        * assert (Hold : waits2 (srcs (sides ++ M :: old)) old).
          { apply (waits2_mono (srcs old)); [|exact Jw]. intros n Hn. apply Hsr. right. exact Hn. }
          assert (HM : waits2 (srcs (sides ++ M :: old)) (M :: old)).
          { apply waits2_cons; [|exact Hold]. intros _. apply Hsr. left. split; [reflexivity | rewrite Hch; destruct front; discriminate]. }
          set (ex := srcs (sides ++ M :: old)) in *. unfold sides. clear Hpr Hpl Hsr. generalize front. intros l.
          induction l as [|c l IHl]; [exact HM|]. cbn [map app]. apply waits2_cons; [|exact IHl].
          assert (HL : L <> 0) by (unfold L, old; cbn [List.length]; lia).
          destruct l as [|c1 l1]; cbn [map app]; cbn [clo_of fst snd]; intros E; contradiction.
      + (* single child *)
        assert (Hrf : revfront = []).
        { apply Z.ltb_ge in Elen. rewrite Hch, app_length in Elen. cbn [List.length] in Elen. rewrite rev_length in Elen.
          destruct revfront; [reflexivity | cbn [List.length] in Elen; lia]. }
        subst revfront. cbn [rev app] in Hch.
        set (T' := (last, closure, smi ++ [TBond tail last; TAtom last])). change (FJ (T' :: rest)).
        assert (Hpr : Permutation (pairs (T' :: rest)) ((tail, last) :: pairs old)).
        { unfold pairs. cbn [flat_map snd T']. rewrite pairs_of_app. cbn [pairs_of]. rewrite <- app_assoc. cbn [app].
          apply Permutation_sym. apply Permutation_middle. }
        assert (Hpl : Permutation (placed (T' :: rest)) (last :: placed old)).
        { unfold placed. cbn [flat_map snd T']. rewrite atoms_of_app. cbn [atoms_of]. rewrite <- app_assoc. cbn [app].
          apply Permutation_sym. apply Permutation_middle. }
        assert (Hsr : forall n, In n (srcs (T' :: rest)) <-> n = tail \/ In n (srcs old)).
        { intros n. rewrite !In_srcs. split.
          - intros [c H]. apply (Permutation_in _ Hpr) in H. destruct H as [E | H]; [injection E as E1 _; left; symmetry; exact E1 | right; exists c; exact H].
          - intros [-> | [c H]]; [exists last; apply (Permutation_in _ (Permutation_sym Hpr)); left; reflexivity|].
            exists c. apply (Permutation_in _ (Permutation_sym Hpr)). right. exact H. }
        constructor.
        * intros p c Hp Hc. apply (Permutation_in _ (Permutation_sym Hpr)). apply Hsr in Hp. destruct Hp as [-> | Hp].
          -- rewrite Hzl, Hch in Hc. destruct Hc as [<- | []]. left. reflexivity.
          -- right. apply Jexp; assumption.
        * intros p c Hin. apply (Permutation_in _ Hpr) in Hin. destruct Hin as [E | Hin]; [|apply Jsound; exact Hin].
          injection E as E1 E2. subst p c. rewrite Hzl, Hch. left. reflexivity.
        * eapply Permutation_trans; [exact Hpl|]. eapply Permutation_trans; [apply perm_skip; exact Jperm|].
          eapply Permutation_trans; [apply perm_swap|]. apply perm_skip.
          apply Permutation_sym. eapply Permutation_trans; [apply Permutation_map; exact Hpr|]. cbn [map snd]. apply Permutation_refl.
        * intros n Hn. apply (Permutation_in _ Hpl) in Hn. destruct Hn as [<- | Hn].
          -- right. right. left. reflexivity.
          -- destruct (Jpend n Hn) as [A | [A | A]]; [left; exact A | right; left; apply Hsr; right; exact A|].
             destruct A as [E | A]; [right; left; apply Hsr; left; symmetry; exact E | right; right; right; exact A].
        * assert (Hrest : waits2 (srcs (T' :: rest)) rest).
          { apply (waits2_mono (srcs old)); [|apply (waits2_tl _ T); exact Jw]. intros n Hn. apply Hsr. right. exact Hn. }
          apply waits2_cons; [|exact Hrest]. destruct rest as [|y r]; [exact I|].
          intros E. apply Hsr. right. unfold old in Jw. cbn [waits2] in Jw. destruct Jw as [H1 _]. apply H1. exact E.
    - destruct (negb (closure =? 0)) eqn:Ecl.
      + apply negb_true_iff in Ecl. apply Z.eqb_neq in Ecl.
        destruct (second_last_is_open smi) as [b|] eqn:Eb; [|exact I].
        set (smi' := if b then pop_second_last smi else smi ++ [TClose]).
        assert (Hsmi' : atoms_of smi' = atoms_of smi /\ srcs_of smi' = srcs_of smi /\ pairs_of smi' = pairs_of smi).
        { unfold smi'. destruct b.
          - destruct (pop_second_last_atoms smi Eb) as [A B]. split; [exact A|]. split; [exact B | apply pop_second_last_pairs; exact Eb].
          - rewrite atoms_of_app, srcs_of_app, pairs_of_app. cbn. rewrite !app_nil_r. repeat split. }
        destruct Hsmi' as [Ha' [Hs' Hp']].
        destruct (closure - 1 <? Z.of_nat (List.length rest)); [|exact I].
        destruct (Nat.eq_dec (List.length rest) 0) as [Hz | Hnz].
        { (* impossible: the bottom entry is a main chain *)
          apply length_zero_iff_nil in Hz. exfalso. subst rest. unfold old, T, bottom_main, clos in Hbot. cbn in Hbot. exact (Ecl Hbot). }
        set (idx := (List.length rest - 1 - Z.to_nat (closure - 1))%nat).
        assert (Hidx : (idx < List.length rest)%nat) by (unfold idx; lia).
        destruct (placed_upd idx smi' rest Hidx) as [P1 [P2 P3]]. rewrite Ha' in P1. rewrite Hs' in P2.
        pose proof (pairs_upd idx smi' rest Hidx) as P5. rewrite Hp' in P5.
        rewrite <- Hpl_old in P1. rewrite <- Hpairs_old in P5.
        change (srcs_of smi ++ srcs rest) with (srcs old) in P2.
        set (new := upd_at idx (fun e : fl_entry => (fst e, snd e ++ smi')) rest) in *.
        pose proof (map_tail_fst _ _ P3) as P4.
        change (FJ new). constructor.
        * intros p c Hp Hc. apply (Permutation_in _ (Permutation_sym P5)). apply Jexp; [apply (Permutation_in _ P2); exact Hp | exact Hc].
        * intros p c Hin. apply Jsound. apply (Permutation_in _ P5). exact Hin.
        * eapply Permutation_trans; [exact P1|]. eapply Permutation_trans; [exact Jperm|]. apply perm_skip. apply Permutation_map. apply Permutation_sym. exact P5.
        * intros n Hn. apply (Permutation_in _ P1) in Hn. destruct (Jpend n Hn) as [A | [A | A]].
          -- left. exact A.
          -- right. left. apply (Permutation_in _ (Permutation_sym P2)). exact A.
          -- destruct A as [E | A]; [left; cbn [tail_of fst T] in E; subst n; unfold zgetl; rewrite Ech; reflexivity|].
             right. right. rewrite P4. exact A.
        * apply (waits2_fst _ rest new (eq_sym P3)). apply (waits2_mono (srcs old)); [|apply (waits2_tl _ T); exact Jw].
          intros n Hn. apply (Permutation_in _ (Permutation_sym P2)). exact Hn.
      + apply negb_false_iff in Ecl. apply Z.eqb_eq in Ecl.
        assert (Hleaf : zgetl edges tail = []) by (unfold zgetl; rewrite Ech; reflexivity).
        clear Hpairs_old Hpl_old. unfold old in *. clear old.
        destruct rest as [|[[t1 c1] s1] rest'].
        { (* the result: the single entry *)
          unfold placed, pairs, srcs in *. cbn [flat_map snd T] in *. rewrite ?app_nil_r in *. repeat split.
          - exact Jperm.
          - exact Jsound.
          - intros n c Hn Hc. destruct (Jpend n Hn) as [A | [A | A]].
            + rewrite A in Hc. destruct Hc.
            + apply Jexp; assumption.
            + destruct A as [E | []]. cbn [tail_of fst T] in E. subst n. rewrite Hleaf in Hc. destruct Hc. }
        destruct rest' as [|z r'].
        { set (X := (t1, c1, s1)) in *.
          assert (P1 : Permutation (atoms_of (s1 ++ smi)) (placed [T; X])).
          { unfold placed. cbn [flat_map snd T X]. rewrite atoms_of_app, app_nil_r. apply Permutation_app_comm. }
          assert (P5 : Permutation (pairs_of (s1 ++ smi)) (pairs [T; X])).
          { unfold pairs. cbn [flat_map snd T X]. rewrite pairs_of_app, app_nil_r. apply Permutation_app_comm. }
          repeat split.
          - eapply Permutation_trans; [exact P1|]. eapply Permutation_trans; [exact Jperm|]. apply perm_skip. apply Permutation_map. apply Permutation_sym. exact P5.
          - intros p c Hin. apply Jsound. apply (Permutation_in _ P5). exact Hin.
          - intros n c Hn Hc. apply (Permutation_in _ (Permutation_sym P5)). apply (Permutation_in _ P1) in Hn.
            destruct (Jpend n Hn) as [A | [A | A]].
            + rewrite A in Hc. destruct Hc.
            + apply Jexp; assumption.
            + destruct A as [E | [E | []]].
              * cbn [tail_of fst T] in E. subst n. rewrite Hleaf in Hc. destruct Hc.
              * cbn [tail_of fst X] in E. subst n. cbn [waits2] in Jw. destruct Jw as [H1 _]. apply Jexp; [apply H1; exact Ecl | exact Hc]. }
        set (rest' := z :: r') in *. set (X := (t1, c1, s1)) in *. set (Nw := (tail, c1, s1 ++ smi)).
        set (old := T :: X :: rest') in *.
        assert (P1 : Permutation (placed (Nw :: rest')) (placed old)).
        { unfold placed, old, T. cbn [flat_map snd Nw X]. rewrite atoms_of_app. rewrite <- !app_assoc.
          rewrite app_assoc. rewrite (app_assoc (atoms_of smi)). apply Permutation_app_tail. apply Permutation_app_comm. }
        assert (P5 : Permutation (pairs (Nw :: rest')) (pairs old)).
        { unfold pairs, old, T. cbn [flat_map snd Nw X]. rewrite pairs_of_app. rewrite <- !app_assoc.
          rewrite app_assoc. rewrite (app_assoc (pairs_of smi)). apply Permutation_app_tail. apply Permutation_app_comm. }
        assert (P2 : forall n, In n (srcs (Nw :: rest')) <-> In n (srcs old)).
        { intros n. rewrite !In_srcs. split; intros [c H]; exists c; [apply (Permutation_in _ P5) | apply (Permutation_in _ (Permutation_sym P5))]; exact H. }
        change (FJ (Nw :: rest')). constructor.
        * intros p c Hp Hc. apply (Permutation_in _ (Permutation_sym P5)). apply Jexp; [apply P2; exact Hp | exact Hc].
        * intros p c Hin. apply Jsound. apply (Permutation_in _ P5). exact Hin.
        * eapply Permutation_trans; [exact P1|]. eapply Permutation_trans; [exact Jperm|]. apply perm_skip. apply Permutation_map. apply Permutation_sym. exact P5.
        * intros n Hn. apply (Permutation_in _ P1) in Hn. destruct (Jpend n Hn) as [A | [A | A]].
          -- left. exact A.
          -- right. left. apply P2. exact A.
          -- destruct A as [E | [E | A]].
             ++ right. right. left. exact E.
             ++ right. left. apply P2. cbn [tail_of fst X] in E. subst n. unfold old in Jw. cbn [waits2] in Jw. destruct Jw as [H1 _]. apply H1. exact Ecl.
             ++ right. right. right. exact A.
        * pose proof (waits2_tl _ _ _ Jw) as W1.
          assert (W2 : waits2 (srcs (Nw :: rest')) rest').
          { apply (waits2_mono (srcs old)); [|apply (waits2_tl _ X); exact W1]. intros n Hn. apply P2. exact Hn. }
          apply waits2_cons; [|exact W2]. unfold rest'. intros E. apply P2.
          unfold rest' in W1. cbn [waits2] in W1. destruct W1 as [H1 _]. apply H1. exact E.
  Qed.
End Flatten2.

(* ------------------------------------------------------------------------------------------------ the run *)
Lemma fl_run_full edges root (HF : Forest edges root) : forall fuel st r,
  FI edges root st -> PI st -> FJ edges root st -> fl_run fuel edges st = Ok r -> res_full edges root r.
Proof.
  induction fuel as [|fuel IH]; intros st r H1 H2 H3 H; cbn [fl_run] in H; [discriminate|].
  pose proof (fl_step_FI edges root HF st H1) as S1. pose proof (fl_step_PI edges st H2) as S2.
  pose proof (fl_step_FJ edges root st (pi_bottom _ H2) H3) as S3.
  destruct (fl_step edges st) as [st'|r'|e].
  - apply (IH st' r S1 S2 S3 H).
  - inversion H. subst. exact S3.
  - discriminate.
Qed.

Theorem flatten_full : forall g w tb o all st t smi, traverse g w tb o all st = Ok t -> flatten g t = Ok smi ->
  res_full (ds_edges (tr_dfs t)) (tr_start t) smi.
Proof.
  intros g w tb o all st t smi Ht Hf. pose proof (traverse_forest _ _ _ _ _ _ _ Ht) as HF. unfold flatten in Hf.
  eapply (fl_run_full _ _ HF); [| | |exact Hf].
  - constructor; cbn.
    + constructor; [intros [] | constructor].
    + intros e [<- | []]. left. reflexivity.
    + intros c [<- | []]. left. reflexivity.
    + intros [].
    + exact I.
    + constructor; [intros [] | constructor].
    + intros n [].
  - constructor; [constructor; [reflexivity | constructor] | constructor; [reflexivity | constructor] | reflexivity].
  - constructor; cbn.
    + intros p c [].
    + intros p c [].
    + apply Permutation_refl.
    + intros n [<- | []]. right. right. left. reflexivity.
    + exact I.
Qed.
