(* C08 -- the position of a ';'-separated charge mark does not matter ("<;> ... preferable for charge ... marks"):
   for EVERY bracket body, writing one of the charge texts as a ';' segment of its own - before, between or after the other
   primitives, but before the ':' mapping - is parsed by the model of _query_parse (= the function translated from the source,
   Proofs.QueryParseTie) exactly as the same text glued in place.  The empty segment the mark leaves behind is skipped by the
   loop over the primitives; the mapping and stereo scans commute with the extra ';'.  *)
From Coq Require Import ZArith List String Ascii Bool Lia.
From Gen Require Import Elements TokenTables SmartsTables.
From Model Require Import PyBase Graph PeriodicTable Tokenize Smarts Query.
From Proofs Require Import SmartsProofs SmartsRoundtrip.
Import ListNotations.
Open Scope Z_scope.

(* what may follow the mark: nothing, or the next ';' segment *)
Definition sep_tail (v : str) : Prop := v = [] \/ exists v', v = ";"%char :: v'.

(* ---------------------------------------------------------------- query_parse in three stages *)
Definition strip_map (t2 : str) : option Z * str :=
  match mpp_search t2 with Some (a, d) => (Some (horner d), a) | None => (None, t2) end.
Definition strip_stereo (t3 : str) : option bool * str :=
  match str_search t3 with Some (a, g, b) => (Some (str_eqb g ["@"%char]), (a ++ b)%list) | None => (None, t3) end.
Definition finish (iso charge mapping : option Z) (stereo : option bool) (t4 : str) : pyres parsed :=
  match split_on ";" t4 with
  | [] => Err IncorrectSmarts
  | e0 :: prims =>
      if str_eqb e0 [] then Err IncorrectSmarts
      else match map_res parse_elt (split_on "," e0) with
           | Err e => Err e
           | Ok els => prim_loop (mkParsed iso charge mapping stereo els None None None None None false) prims
           end
  end.
Definition after_charge (iso charge : option Z) (t2 : str) : pyres parsed :=
  let '(mapping, t3) := strip_map t2 in
  let '(stereo, t4) := strip_stereo t3 in
  finish iso charge mapping stereo t4.

Lemma query_parse_unfold token : query_parse token =
  let '(ds, t1) := span is_digit token in
  let iso := match ds with [] => None | _ => Some (horner ds) end in
  let t1 := match ds with [] => token | _ => t1 end in
  match chg_search t1 with
  | None => after_charge iso None t1
  | Some (a, g, b) => match charge_dict g with Some c => after_charge iso (Some c) (a ++ b) | None => Err IncorrectSmarts end
  end.
Proof.
  unfold query_parse, after_charge, strip_map, strip_stereo, finish. destruct (span is_digit token) as [ds t1].
  destruct (chg_search _) as [[[a g] b]|]; [destruct (charge_dict g); [|reflexivity]|].
  all: destruct (mpp_search _) as [[a1 d]|]; destruct (str_search _) as [[[a2 g2] b2]|]; reflexivity.
Qed.

(* ---------------------------------------------------------------- the loop skips the empty segment *)
Lemma prim_loop_app out a b : prim_loop out (a ++ b) = match prim_loop out a with Ok o => prim_loop o b | Err e => Err e end.
Proof.
  revert out. induction a as [|p a IH]; intros out; cbn [app prim_loop]; [reflexivity|].
  destruct (prim_step out p); [apply IH|reflexivity].
Qed.
Lemma prim_loop_skip out l : prim_loop out ([] :: l) = prim_loop out l.
Proof. reflexivity. Qed.

Lemma split_app_sep sep u w : split_on sep (u ++ sep :: w) = (split_on sep u ++ split_on sep w)%list.
Proof.
  induction u as [|c u IH]; cbn [app split_on].
  - destruct (split_on sep w) as [|p ps] eqn:E; [exfalso; eapply SmartsProofs.split_on_nonempty; eauto|].
    unfold ceq. rewrite Ascii.eqb_refl. reflexivity.
  - rewrite IH. destruct (split_on sep u) as [|p ps] eqn:E; [exfalso; eapply SmartsProofs.split_on_nonempty; eauto|].
    cbn [app]. destruct (ceq c sep); reflexivity.
Qed.
Lemma split_cons_sep sep w : split_on sep (sep :: w) = [] :: split_on sep w.
Proof. exact (split_app_sep sep [] w). Qed.

Lemma finish_sep iso c m s u v : sep_tail v -> finish iso c m s (u ++ ";"%char :: v) = finish iso c m s (u ++ v).
Proof.
  intros [->|[v' ->]]; unfold finish.
  - rewrite split_app_sep, app_nil_r. cbn [split_on].
    destruct (split_on ";" u) as [|e0 prims] eqn:E; [exfalso; eapply SmartsProofs.split_on_nonempty; eauto|]. cbn [app].
    destruct (str_eqb e0 []); [reflexivity|]. destruct (map_res parse_elt (split_on "," e0)); [|reflexivity].
    rewrite prim_loop_app. destruct (prim_loop _ prims); reflexivity.
  - rewrite !split_app_sep, split_cons_sep.
    destruct (split_on ";" u) as [|e0 prims] eqn:E; [exfalso; eapply SmartsProofs.split_on_nonempty; eauto|]. cbn [app].
    destruct (str_eqb e0 []); [reflexivity|]. destruct (map_res parse_elt (split_on "," e0)); [|reflexivity].
    rewrite !prim_loop_app. destruct (prim_loop _ prims); [apply prim_loop_skip|reflexivity].
Qed.

(* ---------------------------------------------------------------- the stereo scan commutes with the extra ';' *)
Lemma strip_cons c r : ceq c "@" = false -> strip_stereo (c :: r) = (fst (strip_stereo r), c :: snd (strip_stereo r)).
Proof. intros H. unfold strip_stereo. cbn [str_search]. rewrite H. destruct (str_search r) as [[[a g] b]|]; reflexivity. Qed.

Lemma strip_sep u : forall v, sep_tail v ->
  exists st u2 v2, strip_stereo (u ++ ";"%char :: v) = (st, (u2 ++ ";"%char :: v2)%list) /\ strip_stereo (u ++ v) = (st, (u2 ++ v2)%list) /\ sep_tail v2.
Proof.
  induction u as [|c u IH]; intros v Hv.
  - cbn [app]. rewrite strip_cons by reflexivity. destruct Hv as [->|[v' ->]].
    + exists None, [], []. cbn. repeat split. left; reflexivity.
    + rewrite strip_cons by reflexivity. exists (fst (strip_stereo v')), [], (";"%char :: snd (strip_stereo v')).
      cbn [app fst snd]. repeat split. right; eexists; reflexivity.
  - destruct (ceq c "@") eqn:Ec.
    + apply Ascii.eqb_eq in Ec. subst c. destruct u as [|d u'].
      * destruct Hv as [->|[v' ->]].
        -- exists (Some true), [], []. cbn. repeat split. left; reflexivity.
        -- exists (Some true), [], (";"%char :: v'). cbn. repeat split. right; eexists; reflexivity.
      * unfold strip_stereo. cbn [app str_search]. change (ceq "@" "@") with true. cbv iota.
        destruct (ceq d "@" || ceq d "?").
        -- exists (Some (str_eqb ["@"%char; d] ["@"%char])), u', v. cbn [app]. repeat split. exact Hv.
        -- exists (Some true), (d :: u'), v. cbn. repeat split. exact Hv.
    + cbn [app]. rewrite !strip_cons by exact Ec. destruct (IH v Hv) as [st [u2 [v2 [E1 [E2 H2]]]]]. rewrite E1, E2.
      exists st, (c :: u2), v2. cbn. repeat split. exact H2.
Qed.

(* ---------------------------------------------------------------- the mapping scan: the mark stands before the mapping *)
Lemma map_sep u v : clean is_colon u -> sep_tail v ->
  exists m v3, strip_map (u ++ ";"%char :: v) = (m, (u ++ ";"%char :: v3)%list) /\ strip_map (u ++ v) = (m, (u ++ v3)%list) /\ sep_tail v3.
Proof.
  intros Hu Hv. unfold strip_map.
  assert (Hu' : clean is_colon (u ++ [";"%char])) by (apply clean_app; split; [exact Hu|reflexivity]).
  replace (u ++ ";"%char :: v)%list with ((u ++ [";"%char]) ++ v)%list by (rewrite <- app_assoc; reflexivity).
  rewrite (mpp_search_prefix _ v Hu'), (mpp_search_prefix u v Hu).
  destruct (mpp_search v) as [[xx d]|] eqn:E.
  - exists (Some (horner d)), xx. rewrite <- app_assoc. cbn [app]. repeat split.
    destruct Hv as [->|[v' ->]]; [discriminate E|]. cbn [mpp_search] in E. change (ceq ";" ":") with false in E. cbn [andb] in E.
    destruct (mpp_search v') as [[a' d']|]; inversion E. right; eexists; reflexivity.
  - exists None, v. rewrite <- app_assoc. repeat split. exact Hv.
Qed.

Lemma after_charge_sep iso c u v : clean is_colon u -> sep_tail v ->
  after_charge iso c (u ++ ";"%char :: v) = after_charge iso c (u ++ v).
Proof.
  intros Hu Hv. unfold after_charge.
  destruct (map_sep u v Hu Hv) as [m [v3 [E1 [E2 H3]]]]. rewrite E1, E2.
  destruct (strip_sep u v3 H3) as [st [u2 [v2 [F1 [F2 H2]]]]]. rewrite F1, F2.
  apply finish_sep. exact H2.
Qed.

(* ---------------------------------------------------------------- the isotope scan stops before the mark *)
Lemma span_stop p a c w : p c = false -> span p (a ++ c :: w) = (fst (span p a), (snd (span p a) ++ c :: w)%list).
Proof.
  intros H. induction a as [|x a IH]; cbn [app span].
  - rewrite H. reflexivity.
  - destruct (p x); [|reflexivity]. rewrite IH. destruct (span p a); reflexivity.
Qed.
Lemma span_split p a : a = (fst (span p a) ++ snd (span p a))%list.
Proof.
  induction a as [|x a IH]; cbn [span]; [reflexivity|]. destruct (p x); [|reflexivity].
  destruct (span p a) as [a0 b0]. cbn [fst snd app] in *. rewrite <- IH. reflexivity.
Qed.

Lemma group_found g y : In g charge_groups -> sep_tail y -> chg_search (g ++ y) = Some ([], g, y).
Proof.
  intros Hg Hy. cbn in Hg.
  repeat (destruct Hg as [<-|Hg]; [destruct Hy as [->|[y' ->]]; reflexivity|]). destruct Hg.
Qed.
Lemma group_head g : In g charge_groups -> exists s g', g = s :: g' /\ is_digit s = false.
Proof.
  intros Hg. cbn in Hg. repeat (destruct Hg as [<-|Hg]; [eexists; eexists; split; reflexivity|]). destruct Hg.
Qed.

Theorem charge_position_independent x g y :
  clean is_sign x -> clean is_colon x -> In g charge_groups -> sep_tail y ->
  query_parse (x ++ ";"%char :: g ++ y) = query_parse (x ++ g ++ y).
Proof.
  intros Hs Hc Hg Hy. rewrite !query_parse_unfold.
  pose proof (group_found g y Hg Hy) as Hf.
  destruct (group_head g Hg) as [s [g' [Eg Hd]]].
  assert (E2 : (x ++ g ++ y = x ++ s :: (g' ++ y))%list) by (rewrite Eg; reflexivity).
  rewrite E2, (span_stop is_digit x ";"%char _ eq_refl), (span_stop is_digit x s _ Hd). rewrite <- E2.
  pose proof (span_split is_digit x) as Hx.
  destruct (span is_digit x) as [ds x']. cbn [fst snd] in *.
  assert (Hs' : clean is_sign x') by (rewrite Hx in Hs; apply clean_app in Hs; tauto).
  assert (Hc' : clean is_colon x') by (rewrite Hx in Hc; apply clean_app in Hc; tauto).
  assert (G : forall iso,
    match chg_search (x' ++ ";"%char :: g ++ y) with
    | None => after_charge iso None (x' ++ ";"%char :: g ++ y)
    | Some (a, g0, b) => match charge_dict g0 with Some c => after_charge iso (Some c) (a ++ b) | None => Err IncorrectSmarts end
    end =
    match chg_search (x' ++ g ++ y) with
    | None => after_charge iso None (x' ++ g ++ y)
    | Some (a, g0, b) => match charge_dict g0 with Some c => after_charge iso (Some c) (a ++ b) | None => Err IncorrectSmarts end
    end).
  { intros iso.
    assert (Hs2 : clean is_sign (x' ++ [";"%char])) by (apply clean_app; split; [exact Hs'|reflexivity]).
    replace (x' ++ ";"%char :: g ++ y)%list with ((x' ++ [";"%char]) ++ (g ++ y))%list by (rewrite <- app_assoc; reflexivity).
    rewrite (chg_search_prefix _ (g ++ y) Hs2), (chg_search_prefix x' (g ++ y) Hs'), Hf.
    destruct (charge_dict g); [|reflexivity]. rewrite !app_nil_r, <- app_assoc. cbn [app].
    apply after_charge_sep; assumption. }
  subst g. cbn [app] in G |- *.
  destruct ds as [|d0 ds'].
  - cbn [app] in Hx. subst x'. cbv zeta. apply G.
  - cbv zeta. apply G.
Qed.

(* non-vacuity: N;+;D3 / N;D3;+ against N+;D3, with isotope, stereo mark and mapping around *)
Lemma charge_position_example :
  (clean is_sign (s2l "13N;@;D3") /\ clean is_colon (s2l "13N;@;D3") /\ In (s2l "+2") charge_groups /\ sep_tail (s2l ";h1:7")) /\
  query_parse (s2l "13N;@;D3;+2;h1:7") = query_parse (s2l "13N;@;D3+2;h1:7") /\
  query_parse (s2l "N;+;D3") = query_parse (s2l "N+;D3") /\ query_parse (s2l "N;D3;+") = query_parse (s2l "N;D3+") /\
  exists p, query_parse (s2l "13N;@;D3;+2;h1:7") = Ok p /\ p_charge p = Some 2 /\ p_nb p = Some [3] /\ p_h p = Some [1] /\ p_mapping p = Some 7.
Proof.
  split; [repeat split; try reflexivity; [cbn; tauto | right; eexists; reflexivity]|].
  split; [vm_compute; reflexivity|]. split; [vm_compute; reflexivity|]. split; [vm_compute; reflexivity|].
  eexists. split; [vm_compute; reflexivity|]. repeat split; reflexivity.
Qed.
