(* C05 -- the search model step by step: initial state and trace of the `while stack:` iterations (for the intermediate-state
   correspondence with the running generator) *)
From Coq Require Import ZArith List Bool Lia.
From Model Require Import PyBase Graph Kekule.
Import ListNotations.
Open Scope Z_scope.

(* the state in which _kekule_component enters `while stack:` : (double_bonded as the loop sees it, start, size, state) *)
Definition kinit (rings : adjl) (db : list Z) (db_start : Z) (pyr : list Z) (buffer_size : Z) : pyres (list Z * Z * Z * kstate) :=
  let size := Z.of_nat (fold_right (fun nl s => (List.length (snd nl) + s)%nat) O rings) / 2 in
  let run := fun (db' : list Z) (start bond : Z) (all_nbrs : bool) =>
    match al_get rings start with
    | [] => Err StopIteration
    | n0 :: more =>
        let stack := if all_nbrs then rev (map (fun nx => [((nx, start, bond, Some 0) : kitem)]) (n0 :: more))
                     else [[((n0, start, bond, Some 0) : kitem)]] in
        Ok (db', start, size, mkK stack [] [] buffer_size true)
    end in
  match db with
  | _ :: _ => run db db_start 1 false
  | [] =>
      match find_start rings pyr true with
      | Some st => run db st 1 true
      | None => match find_start rings pyr false with
                | Some st => run db st 1 true
                | None => match rings with
                          | [] => Err StopIteration
                          | nl :: _ => run [fst nl] (fst nl) 2 true
                          end
                end
      end
  end.

Theorem kekule_component_kinit : forall rings db db_start pyr bs maxy fuel,
  kekule_component rings db db_start pyr bs maxy fuel =
  match kinit rings db db_start pyr bs with
  | Ok (db', start, size, s) => kloop rings db' pyr start size fuel maxy s []
  | Err e => Err e
  end.
Proof.
  intros. unfold kekule_component, kinit. destruct db as [|d0 dr].
  - destruct (find_start rings pyr true) as [st|].
    + destruct (al_get rings st); reflexivity.
    + destruct (find_start rings pyr false) as [st|].
      * destruct (al_get rings st); reflexivity.
      * destruct rings as [|nl r]; [reflexivity|]. destruct (al_get (nl :: r) (fst nl)); reflexivity.
  - destruct (al_get rings db_start); reflexivity.
Qed.

(* what one snapshot shows: stack (top first), path, buffer_size, number of buffered forms *)
Definition ksnap := (list (list kitem) * list kentry * Z * Z)%type.
Definition snap_of (s : kstate) : ksnap := (k_stack s, k_path s, k_bsize s, Z.of_nat (List.length (k_buffer s))).

(* the states at the head of the first n iterations of `while stack:` *)
Fixpoint ktrace (rings : adjl) (db pyr : list Z) (start size : Z) (n : nat) (s : kstate) : list ksnap :=
  match n with
  | O => []
  | S k => match k_stack s with
           | [] => []
           | _ => snap_of s :: match kstep rings db pyr start size s with
                               | Ok (s', _) => ktrace rings db pyr start size k s'
                               | Err _ => []
                               end
           end
  end.

(* kloop runs through exactly these states: after the traced iterations it continues from the last traced successor *)
Fixpoint kafter (rings : adjl) (db pyr : list Z) (start size : Z) (n : nat) (s : kstate) (acc : list (list kentry)) : pyres (kstate * list (list kentry)) :=
  match n with
  | O => Ok (s, acc)
  | S k => match k_stack s with
           | [] => Ok (s, acc)
           | _ => match kstep rings db pyr start size s with
                  | Ok (s', ys) => kafter rings db pyr start size k s' (acc ++ ys)
                  | Err e => Err e
                  end
           end
  end.

Theorem kloop_kafter rings db pyr start size : forall n fuel maxy s acc s' acc',
  kafter rings db pyr start size n s acc = Ok (s', acc') -> (List.length acc' < maxy)%nat -> (n <= fuel)%nat ->
  (forall m, (m <= n)%nat -> forall sm am, kafter rings db pyr start size m s acc = Ok (sm, am) -> (List.length am < maxy)%nat) ->
  exists fuel', kloop rings db pyr start size fuel maxy s acc = kloop rings db pyr start size fuel' maxy s' acc'.
Proof.
  induction n as [|n IH]; intros fuel maxy s acc s' acc' A L F M.
  - simpl in A. injection A as A1 A2. subst. exists fuel. reflexivity.
  - simpl in A. destruct (k_stack s) as [|t r] eqn:HS.
    + injection A as A1 A2. subst. exists fuel. reflexivity.
    + destruct (kstep rings db pyr start size s) as [[s1 ys]|] eqn:K; [|discriminate].
      destruct fuel as [|f]; [lia|].
      assert (L0 : (List.length acc < maxy)%nat) by (apply (M O ltac:(lia) s acc); reflexivity).
      destruct (IH f maxy s1 (acc ++ ys) s' acc' A L ltac:(lia)) as [f' E].
      * intros m Hm sm am Am. apply (M (S m) ltac:(lia) sm am). simpl. rewrite HS, K. exact Am.
      * exists f'. rewrite <- E. simpl. destruct (maxy <=? List.length acc)%nat eqn:Q; [apply Nat.leb_le in Q; lia|]. rewrite HS, K. reflexivity.
Qed.
