(* C19 extension round 3: transparency of the memoisation layer with PARTIAL flushes, and the ties of the hand-written
   constants to the regenerated ones (Gen.CacheKeys). *)
From Coq Require Import ZArith List String Bool Lia.
From Model Require Import Determinism DeterminismKeep.
From Gen Require Import CacheKeys.
From Proofs Require Import DeterminismProofs.
Import ListNotations.
Open Scope list_scope.
Open Scope Z_scope.

Section MemoKeepProofs.
  Context {S K V : Type}.
  Variable keqb : K -> K -> bool.
  Hypothesis keqb_spec : forall a b, keqb a b = true <-> a = b.
  Variable derive : K -> S -> V.

  Let keqb_eq : forall a b, keqb a b = true -> a = b := fun a b => proj1 (keqb_spec a b).

  (* a lookup in the restricted dict finds only kept keys, with the value they had *)
  Lemma clookup_restrict keep (c : list (K * V)) k v :
    clookup keqb (restrict keqb keep c) k = Some v -> clookup keqb c k = Some v /\ In k keep.
  Proof.
    unfold restrict. induction c as [|[k0 v0] r IH]; cbn; [discriminate|].
    destruct (existsb (keqb k0) keep) eqn:E; cbn.
    - destruct (keqb k k0) eqn:Ek.
      + intros [= <-]. split; [reflexivity|].
        apply keqb_eq in Ek. subst k0. apply existsb_exists in E. destruct E as [x [Hx Hk]].
        apply keqb_eq in Hk. subst x. exact Hx.
      + exact IH.
    - destruct (keqb k k0) eqn:Ek; [|exact IH].
      apply keqb_eq in Ek. subst k0. intros H. apply IH in H. destruct H as [_ Hin]. exfalso.
      assert (existsb (keqb k) keep = true) as E'; [|congruence].
      apply existsb_exists. exists k. split; [exact Hin | apply keqb_spec; reflexivity].
  Qed.

  (* flush_cache(keep...) after an edit keeps the invariant exactly when the kept attributes did not change *)
  Lemma restrict_ok (f : S -> S) keep s c : cache_ok keqb derive s c ->
    (forall k, In k keep -> derive k (f s) = derive k s) -> cache_ok keqb derive (f s) (restrict keqb keep c).
  Proof.
    intros H Hk k v Hl. apply clookup_restrict in Hl. destruct Hl as [Hl Hin].
    rewrite (Hk k Hin). apply H, Hl.
  Qed.

  Lemma restrict_ok_same keep s c : cache_ok keqb derive s c -> cache_ok keqb derive s (restrict keqb keep c).
  Proof. intros H. apply (restrict_ok (fun x => x) keep s c H). reflexivity. Qed.

  (* every history of reads, cross-storing reads, edits followed by a PARTIAL flush and partial flushes alone: each read
     returns what an uncached evaluation returns at that moment, provided every partial flush keeps only attributes that
     its edit left unchanged *)
  Theorem cache_transparent_keep : forall ops s c, cache_ok keqb derive s c -> keeps_sound derive s ops ->
    run_keep keqb derive s c ops = run_uncached_keep derive s ops.
  Proof.
    induction ops as [|o r IH]; intros s c H Hs; [reflexivity|].
    destruct o as [k|k also|f keep|keep]; cbn in *.
    - destruct (read_transparent keqb keqb_eq derive s c k H) as [Hv Hc].
      destruct (read keqb derive s c k) as [v c'] eqn:E. cbn in Hv, Hc. subst v. f_equal. apply IH; auto.
    - destruct (read_transparent keqb keqb_eq derive s c k H) as [Hv Hc].
      destruct (read keqb derive s c k) as [v c'] eqn:E. cbn in Hv, Hc. subst v. f_equal. apply IH; auto.
      destruct (clookup keqb c k); [exact Hc | apply store_all_ok; auto].
    - destruct Hs as [Hk Hr]. apply IH; [apply restrict_ok; assumption | exact Hr].
    - apply IH; [apply restrict_ok_same; exact H | exact Hs].
  Qed.

  (* the full flush is the special case keep = [] : no side condition *)
  Lemma keeps_sound_full_flush s f r : keeps_sound derive (f s) r -> keeps_sound derive s (KMutateKeep f [] :: r).
  Proof. intros H. cbn. split; [intros k []|exact H]. Qed.

  (* a copy made with the same flags (copy(keep_sssr=.., keep_components=..), the backup of a transaction) starts from
     the restricted cache of the original: it observes the same values as the original *)
  Corollary copy_keep_transparent : forall ops s c keep, cache_ok keqb derive s c -> keeps_sound derive s ops ->
    run_keep keqb derive s (restrict keqb keep c) ops = run_keep keqb derive s c ops.
  Proof.
    intros ops s c keep H Hs. rewrite (cache_transparent_keep ops s c H Hs).
    apply cache_transparent_keep; [apply restrict_ok_same; exact H | exact Hs].
  Qed.
End MemoKeepProofs.

(* ---- the side condition is necessary: the shape of the explicify_hydrogens / delete_bond / rollback defects ---- *)
(* state = the atoms of a molecule; key true = number of atoms (depends on the edit), key false = a constant *)
Definition kex_derive (k : bool) (s : list Z) : Z := if k then Z.of_nat (List.length s) else 7.

Lemma partial_flush_needs_side_condition :
  let ops := [KRead true; KRead false; KMutateKeep (cons 9) [true; false]; KRead false; KRead true] in
  run_keep Bool.eqb kex_derive [1; 2] [] ops = [2; 7; 7; 2] /\
  run_uncached_keep kex_derive [1; 2] ops = [2; 7; 7; 3] /\
  ~ keeps_sound kex_derive [1; 2] ops.
Proof.
  split; [vm_compute; reflexivity|]. split; [vm_compute; reflexivity|].
  intros H. simpl in H. destruct H as [H _]. specialize (H true (or_introl eq_refl)). vm_compute in H. discriminate.
Qed.

(* non-vacuity: a history with a sound partial flush (the kept key does not depend on the edit) and a full flush *)
Lemma partial_flush_example :
  let ops := [KReadStoring true [false]; KRead false; KMutateKeep (cons 9) [false]; KRead false; KRead true;
              KFlushKeep [true]; KRead true; KMutateKeep (cons 4) []; KRead true] in
  keeps_sound kex_derive [1; 2] ops /\
  run_keep Bool.eqb kex_derive [1; 2] [] ops = [2; 7; 7; 3; 3; 4] /\
  run_uncached_keep kex_derive [1; 2] ops = [2; 7; 7; 3; 3; 4].
Proof.
  split; [|split; vm_compute; reflexivity].
  simpl. split; [intros k [<-|[]]; reflexivity|]. split; [intros k []|exact I].
Qed.

Lemma bool_eqb_spec a b : Bool.eqb a b = true <-> a = b.
Proof. apply Bool.eqb_true_iff. Qed.

(* ---- ties to the regenerated constants (tools/gen_cachekeys.py) ---- *)

(* flush_cache and copy agree on what they keep, and it is what the model / the check assume *)
Lemma kept_keys_agree :
  flush_keep_sssr = sssr_family /\ copy_keep_sssr = sssr_family /\
  flush_keep_components = components_family /\ copy_keep_components = components_family.
Proof. repeat split; reflexivity. Qed.

(* the entries a Smiles read stores besides its own memo entry *)
Lemma cross_stores_agree : smiles_cross_stores = cross_stored.
Proof. reflexivity. Qed.

(* the ring-size mask of the isomorphism buffers: same constants in both encoders, and the model's step is the step
   defined from them *)
Lemma ring_mask_consts_agree :
  ring_mask_structure = (ring_size_limit, ring_size_limit, ring_free_mask) /\ ring_mask_query = ring_mask_structure /\
  (forall v r, ring_mask_step v r = ring_mask_step_gen (fst (fst ring_mask_structure)) (snd (fst ring_mask_structure)) v r) /\
  (forall e, ring_mask e = let v4 := loop ring_mask_step e 0 in if v4 =? 0 then snd ring_mask_structure else v4).
Proof. repeat split; reflexivity. Qed.

(* every partial flush of the audited files uses only the two documented flags (or the reaction-level one) *)
Definition known_flush_keywords : list string :=
  ["keep_components=True, keep_sssr=True"; "keep_sssr=True"; "keep_components=keep, keep_sssr=keep";
   "keep_components=keep_components, keep_sssr=keep_sssr"; "keep_molecule_cache=True"; "**kwargs"]%string.
Lemma partial_flush_keywords_known :
  forallb (fun c => existsb (String.eqb (snd c)) known_flush_keywords) partial_flush_calls = true.
Proof. vm_compute. reflexivity. Qed.
