(* C01: the hypotheses of ChiralReinsertExt.chiral_morgan_two_descriptions as computations (evaluated on real molecules by the check),
   their soundness, and the theorem with boolean hypotheses. *)
From Coq Require Import ZArith List Bool Lia Permutation Arith.
From Model Require Import PyBase PyHash Graph Morgan Stereo Writer ChiralMorgan.
From Proofs Require Import MorganProofs WriterInvProofs WriterStereoExt ChiralMorganProofs StereoProofs StereoOrderExt EnvLaws SameStereo ChiralOrderExt ChiralReinsertExt.
Import ListNotations.
Open Scope Z_scope.

Lemma list_eqb_sound {T} (eqb : T -> T -> bool) : (forall a b, eqb a b = true -> a = b) -> forall l l', list_eqb eqb l l' = true -> l = l'.
Proof.
  intros H. induction l as [|x l IH]; intros [|y l'] E; cbn [list_eqb] in E; try discriminate; [reflexivity|].
  apply andb_prop in E. destruct E as [E1 E2]. rewrite (H x y E1), (IH l' E2). reflexivity.
Qed.
Definition optb_eqb (a b : option bool) : bool := match a, b with None, None => true | Some x, Some y => Bool.eqb x y | _, _ => false end.
Lemma optb_eqb_eq a b : optb_eqb a b = true -> a = b.
Proof. destruct a as [[|]|], b as [[|]|]; cbn; intros H; try discriminate; reflexivity. Qed.
Definition oz_eqb2 (a b : option Z) : bool := match a, b with None, None => true | Some x, Some y => x =? y | _, _ => false end.
Lemma oz_eqb2_eq a b : oz_eqb2 a b = true -> a = b.
Proof. destruct a as [x|], b as [y|]; cbn; intros H; try discriminate; [apply Z.eqb_eq in H; subst|]; reflexivity. Qed.
Definition cenv_eqb (a b : cenv4) : bool :=
  let '(a0, a1, a2, a3) := a in let '(b0, b1, b2, b3) := b in (a0 =? b0) && (a1 =? b1) && oz_eqb2 a2 b2 && oz_eqb2 a3 b3.
Lemma cenv_eqb_eq a b : cenv_eqb a b = true -> a = b.
Proof.
  destruct a as [[[a0 a1] a2] a3], b as [[[b0 b1] b2] b3]. cbn. intros H. repeat (apply andb_prop in H; let H' := fresh "E" in destruct H as [H H']).
  apply Z.eqb_eq in H. apply Z.eqb_eq in E1. apply oz_eqb2_eq in E0. apply oz_eqb2_eq in E. subst. reflexivity.
Qed.
Definition zz_eqb2 (a b : Z * Z) : bool := (fst a =? fst b) && (snd a =? snd b).
Lemma zz_eqb2_eq a b : zz_eqb2 a b = true -> a = b.
Proof. destruct a, b. unfold zz_eqb2. cbn. intros H. apply andb_prop in H. destruct H as [H1 H2]. apply Z.eqb_eq in H1, H2. subst. reflexivity. Qed.

Definition env_ok_b (isH : Z -> bool) (e : cenv4) : bool :=
  let '(n0, n1, n2, n3) := e in
  negb (n0 =? n1) && negb (isH n0) && negb (isH n1) &&
  match n2 with Some x => negb (x =? n0) && negb (x =? n1) && negb (isH x) | None => true end &&
  match n3 with Some y => negb (y =? n0) && negb (y =? n1) && negb (isH y) | None => true end &&
  match n2, n3 with Some x, Some y => negb (x =? y) | _, _ => true end.
Lemma env_ok_b_sound isH e : env_ok_b isH e = true -> env_ok isH e.
Proof.
  destruct e as [[[n0 n1] n2] n3]. unfold env_ok_b, env_ok. intros H.
  repeat (apply andb_prop in H; let H' := fresh "E" in destruct H as [H H']).
  apply negb_true_iff in H, E2, E3. apply Z.eqb_neq in H. repeat split; try assumption.
  - destruct n2 as [x|]; [|exact I]. repeat (apply andb_prop in E1; let H' := fresh "F" in destruct E1 as [E1 H']).
    apply negb_true_iff in E1, F0, F. apply Z.eqb_neq in E1, F0. repeat split; assumption.
  - destruct n3 as [y|]; [|exact I]. repeat (apply andb_prop in E0; let H' := fresh "F" in destruct E0 as [E0 H']).
    apply negb_true_iff in E0, F0, F. apply Z.eqb_neq in E0, F0. repeat split; assumption.
  - destruct n2 as [x|], n3 as [y|]; try exact I. apply negb_true_iff in E. apply Z.eqb_neq in E. exact E.
Qed.

Definition qof (order order2 : list Z) : list Z := map (fun x => match index_of order x with Some i => i | None => 0 end) order2.
Definition bools3 : list (bool * bool * bool) :=
  [(false, false, false); (false, false, true); (false, true, false); (false, true, true);
   (true, false, false); (true, false, true); (true, true, false); (true, true, true)].
Definition bools2 : list (bool * bool) := [(false, false); (false, true); (true, false); (true, true)].
Definition resb_eqb (a b : pyres bool) : bool := match a, b with Ok x, Ok y => Bool.eqb x y | Err _, Err _ => true | _, _ => false end.
Lemma ct_st_err g tabs n e : ct_st g tabs n = Err e -> e = KeyError.
Proof.
  unfold ct_st. destruct (zget (c_ctc tabs) n) as [[i j]|]; [|intros [= <-]; reflexivity]. destruct (bond_of g i j) as [bd|]; [|intros [= <-]; reflexivity].
  destruct (b_stereo bd); [discriminate | intros [= <-]; reflexivity].
Qed.

Section Checkers.
  Variables g g2 : mol.
  Variables tabs tabs2 : cmtabs.
  Variable flipc : Z * Z -> bool.

  Definition th_rel_b (n : Z) : bool :=
    match zget (c_tetra tabs) n with
    | None => match zget (c_tetra tabs2) n with None => true | Some _ => false end
    | Some order =>
        match zget (c_tetra tabs2) n with
        | None => false
        | Some order2 =>
            let q := qof order order2 in
            match order with
            | [a; b; c; d] => nodup_z order && in_perms perms4 q && list_eqb Z.eqb (sel order q) order2 &&
                              optb_eqb (atom_stereo g2 n) (option_map (fun sg => xorb sg (odd_perm q)) (atom_stereo g n))
            | [a; b; c] => nodup_z order && in_perms perms3 q && list_eqb Z.eqb (sel order q) order2 &&
                           optb_eqb (atom_stereo g2 n) (option_map (fun sg => xorb sg (odd_perm (q ++ [3]))) (atom_stereo g n))
            | _ => false
            end
        end
    end.
  Lemma th_rel_b_sound n : th_rel_b n = true -> th_rel g g2 tabs tabs2 n.
  Proof.
    unfold th_rel_b, th_rel. destruct (zget (c_tetra tabs) n) as [order|]; destruct (zget (c_tetra tabs2) n) as [order2|]; try discriminate; [|reflexivity].
    destruct order as [|a [|b [|c [|d [|e r]]]]]; try discriminate; intros H;
      do 3 (apply andb_prop in H; let H' := fresh "E" in destruct H as [H H']).
    - right. exists a, b, c, (qof [a; b; c] order2). split; [reflexivity|]. split; [apply nodup_z_NoDup; exact H|]. split; [apply in_perms_In; exact E1|].
      split; [f_equal; symmetry; apply list_eqb_Z_eq; exact E0 | apply optb_eqb_eq; exact E].
    - left. exists a, b, c, d, (qof [a; b; c; d] order2). split; [reflexivity|]. split; [apply nodup_z_NoDup; exact H|]. split; [apply in_perms_In; exact E1|].
      split; [f_equal; symmetry; apply list_eqb_Z_eq; exact E0 | apply optb_eqb_eq; exact E].
  Qed.

  Definition al_rel_b (c : Z) : bool :=
    match zget (c_allenes tabs) c with
    | None => match zget (c_allenes tabs2) c with None => true | Some _ => false end
    | Some env =>
        match zget (c_allenes tabs2) c with
        | None => false
        | Some env2 =>
            env_ok_b (cm_isH g) env &&
            existsb (fun t : bool * bool * bool => let '(sa, sb, xe) := t in
                       implb sa (canA env) && implb sb (canB env) && cenv_eqb env2 (var_env sa sb xe env) &&
                       optb_eqb (atom_stereo g2 c) (option_map (fun sg => xorb sg (xorb sa sb)) (atom_stereo g c))) bools3
        end
    end.
  Lemma implb_true a b : implb a b = true -> a = true -> b = true.
  Proof. destruct a, b; cbn; intros; congruence. Qed.
  Lemma al_rel_b_sound c : al_rel_b c = true -> al_rel g g2 tabs tabs2 c.
  Proof.
    unfold al_rel_b, al_rel. destruct (zget (c_allenes tabs) c) as [env|]; destruct (zget (c_allenes tabs2) c) as [env2|]; try discriminate; [|reflexivity].
    intros H. apply andb_prop in H. destruct H as [Hok H]. apply existsb_exists in H. destruct H as [[[sa sb] xe] [_ H]].
    repeat (apply andb_prop in H; let H' := fresh "E" in destruct H as [H H']).
    exists sa, sb, xe. split; [f_equal; apply cenv_eqb_eq; exact E0|]. split; [apply env_ok_b_sound; exact Hok|].
    split; [apply implb_true; exact H|]. split; [apply implb_true; exact E1 | apply optb_eqb_eq; exact E].
  Qed.

  Definition ct_rel_b (p : Z * Z) : bool :=
    match cpget (c_sct tabs) p with
    | None => match cpget (c_sct tabs2) (phi flipc p) with None => true | Some _ => false end
    | Some env =>
        match cpget (c_sct tabs2) (phi flipc p) with
        | None => false
        | Some env2 =>
            env_ok_b (cm_isH g) env &&
            existsb (fun t : bool * bool => let '(sa, sb) := t in
                       implb sa (canA env) && implb sb (canB env) && cenv_eqb env2 (var_env sa sb (flipc p) env) &&
                       resb_eqb (ct_st g2 tabs2 (fst (phi flipc p))) (map_res (fun sg => xorb sg (xorb sa sb)) (ct_st g tabs (fst p)))) bools2
        end
    end.
  Lemma ct_rel_b_sound p : ct_rel_b p = true -> ct_rel g g2 tabs tabs2 flipc p.
  Proof.
    unfold ct_rel_b, ct_rel. destruct (cpget (c_sct tabs) p) as [env|]; destruct (cpget (c_sct tabs2) (phi flipc p)) as [env2|]; try discriminate; [|reflexivity].
    intros H. apply andb_prop in H. destruct H as [Hok H]. apply existsb_exists in H. destruct H as [[sa sb] [_ H]].
    repeat (apply andb_prop in H; let H' := fresh "E" in destruct H as [H H']).
    exists sa, sb. split; [f_equal; apply cenv_eqb_eq; exact E0|]. split; [apply env_ok_b_sound; exact Hok|].
    split; [apply implb_true; exact H|]. split; [apply implb_true; exact E1|].
    destruct (ct_st g2 tabs2 (fst (phi flipc p))) as [x|e] eqn:E2, (ct_st g tabs (fst p)) as [y|e'] eqn:E3; cbn [map_res resb_eqb] in *; try discriminate.
    - f_equal. apply eqb_prop. exact E.
    - rewrite (ct_st_err _ _ _ _ E2), (ct_st_err _ _ _ _ E3). reflexivity.
  Qed.

  Fixpoint nodup_pairs (l : list (Z * Z)) : bool :=
    match l with [] => true | x :: r => negb (existsb (cpair_eqb x) r) && nodup_pairs r end.
  Lemma nodup_pairs_sound l : nodup_pairs l = true -> NoDup l.
  Proof.
    induction l as [|x l IH]; intros H; [constructor|]. cbn [nodup_pairs] in H. apply andb_prop in H. destruct H as [H1 H2].
    constructor; [|apply IH; exact H2]. intros Hi. apply negb_true_iff in H1.
    assert (existsb (cpair_eqb x) l = true) as Ht by (apply existsb_exists; exists x; split; [exact Hi | apply (cpair_eqb_spec x x); reflexivity]).
    rewrite H1 in Ht. discriminate.
  Qed.

  Definition rels_b (P : list (Z * Z)) : bool :=
    forallb th_rel_b (keys (c_tetra tabs)) && forallb (fun n => zmem n (keys (c_tetra tabs))) (keys (c_tetra tabs2)) &&
    forallb al_rel_b (keys (c_allenes tabs)) && forallb (fun n => zmem n (keys (c_allenes tabs))) (keys (c_allenes tabs2)) &&
    forallb ct_rel_b P && nodup_pairs (map (phi flipc) P).

  Lemma all_keys_sound {V} (d d2 : list (Z * V)) (pb : Z -> bool) (Pp : Z -> Prop) :
    (forall n, pb n = true -> Pp n) -> (forall n, zget d n = None -> zget d2 n = None -> Pp n) ->
    forallb pb (keys d) = true -> forallb (fun n => zmem n (keys d)) (keys d2) = true -> forall n, Pp n.
  Proof.
    intros Hs Hnone H1 H2 n. rewrite forallb_forall in H1, H2.
    destruct (zget d n) as [v|] eqn:E.
    - apply Hs, H1. apply zget_Some_In in E. apply (in_map fst) in E. exact E.
    - apply Hnone; [exact E|]. destruct (zget d2 n) as [v2|] eqn:E2; [|reflexivity]. exfalso.
      apply zget_Some_In in E2. apply (in_map fst) in E2. cbn [fst] in E2. specialize (H2 n E2). unfold zmem in H2. apply existsb_exists in H2.
      destruct H2 as [k [Hk Hkn]]. apply Z.eqb_eq in Hkn. subst k. apply (proj1 (zget_None_iff d n) E). exact Hk.
  Qed.

  Lemma rels_b_sound P : rels_b P = true ->
    (forall n, th_rel g g2 tabs tabs2 n) /\ (forall c, al_rel g g2 tabs tabs2 c) /\ (forall p, In p P -> ct_rel g g2 tabs tabs2 flipc p) /\
    (forall p q, In p P -> In q P -> phi flipc p = phi flipc q -> p = q).
  Proof.
    unfold rels_b. intros H. repeat (apply andb_prop in H; let H' := fresh "E" in destruct H as [H H']).
    split; [|split; [|split]].
    - apply (all_keys_sound (c_tetra tabs) (c_tetra tabs2) th_rel_b); [apply th_rel_b_sound | | exact H | exact E3].
      intros n E5 E6. unfold th_rel. rewrite E5. exact E6.
    - apply (all_keys_sound (c_allenes tabs) (c_allenes tabs2) al_rel_b); [apply al_rel_b_sound | | exact E2 | exact E1].
      intros n E5 E6. unfold al_rel. rewrite E5. exact E6.
    - intros p Hp. apply ct_rel_b_sound. rewrite forallb_forall in E0. apply E0. exact Hp.
    - intros p q Hp Hq. apply (nodup_map_inj (phi flipc) P p q (nodup_pairs_sound _ E) Hp Hq).
  Qed.
End Checkers.

Definition noH_b (g : mol) : bool := forallb (fun na => negb (a_num (snd na) =? 1)) (m_atoms g).
Lemma noH_b_sound g : noH_b g = true -> forall x, cm_isH g x = false.
Proof.
  unfold noH_b, cm_isH, atom_of. intros H x. rewrite forallb_forall in H. destruct (zget (m_atoms g) x) as [a|] eqn:E; [|reflexivity].
  apply zget_Some_In in E. specialize (H _ E). cbn [snd] in H. apply negb_true_iff in H. exact H.
Qed.

(* ---------- the asymmetry condition and the permutation hypotheses as computations ---------- *)
Section AsymB.
  Variable h : list Z -> Z.
  Variable g : mol.
  Variable tabs : cmtabs.
  Variable flipc : Z * Z -> bool.

  Definition ct_asym_b (m : labels) (sct : list (Z * Z)) : bool :=
    forallb (fun p => if flipc p && even_len (cls (ctk m) (ctk m (ct_key m p)) (map (ct_key m) sct))
                      then negb (lbl m (fst p) =? lbl m (snd p)) else true) sct.
  Lemma ct_asym_b_sound m sct : ct_asym_b m sct = true -> ct_asym flipc m sct.
  Proof.
    intros H p Hp Hf He. unfold ct_asym_b in H. rewrite forallb_forall in H. specialize (H p Hp). rewrite Hf, He in H. cbn [andb] in H.
    apply negb_true_iff, Z.eqb_neq in H. exact H.
  Qed.
  Fixpoint asym_run_b (fuel : nat) (m : labels) (sa : list Z) (sct : list (Z * Z)) (sal : list Z) : bool :=
    match fuel with
    | O => true
    | S f =>
        ct_asym_b m sct &&
        match fold_left (th_group g tabs m) (group_by (lbl m) sa) (Ok ([], sa, [])) with
        | Ok (u1, sa', _) =>
            match fold_left (ct_group g tabs m) (group_by (fun x => lbl m (fst x)) (map (ct_key m) sct)) (Ok (u1, sct, [])) with
            | Ok (u2, sct', _) =>
                match fold_left (al_group g tabs m) (group_by (lbl m) sal) (Ok (u2, sal, [])) with
                | Ok (u3, sal', _) =>
                    match Morgan.morgan h (merge_update m u3) (int_adjacency g) with
                    | Ok m' => asym_run_b f m' sa' sct' sal'
                    | Err _ => true
                    end
                | Err _ => true
                end
            | Err _ => true
            end
        | Err _ => true
        end
    end.
  Lemma asym_run_b_sound fuel : forall m sa sct sal, asym_run_b fuel m sa sct sal = true -> asym_run h g tabs flipc fuel m sa sct sal.
  Proof.
    induction fuel as [|f IH]; intros m sa sct sal H; [exact I|]. cbn [asym_run_b] in H. apply andb_prop in H. destruct H as [H B].
    cbn [asym_run]. split; [apply ct_asym_b_sound; exact H|].
    intros u1 sa' u2 sct' u3 sal' m' E1 E2 E3 Em. unfold pstate, labels in *. rewrite E1 in B. rewrite E2 in B. rewrite E3 in B.
    rewrite Em in B. apply IH. exact B.
  Qed.
End AsymB.

Definition zperm_b (a b : list Z) : bool := list_eqb Z.eqb (zsort a) (zsort b).
Lemma zperm_b_sound a b : zperm_b a b = true -> Permutation a b.
Proof.
  intros H. apply list_eqb_Z_eq in H. unfold zsort in H. eapply Permutation_trans; [apply Permutation_sym, (isort_perm Z.leb)|]. rewrite H. apply isort_perm.
Qed.
Definition pperm_b (a b : list (Z * Z)) : bool := list_eqb zz_eqb2 (isort pair_leb a) (isort pair_leb b).
Lemma pperm_b_sound a b : pperm_b a b = true -> Permutation a b.
Proof.
  intros H. apply (list_eqb_sound zz_eqb2 zz_eqb2_eq) in H. eapply Permutation_trans; [apply Permutation_sym, (isort_perm pair_leb)|]. rewrite H. apply isort_perm.
Qed.

Definition two_desc_b (h : list Z -> Z) (g g1 : mol) (tabs tabs1 : cmtabs) (flipc : Z * Z -> bool) (ao ao1 : labels) (ord ord1 : cmorders) : bool :=
  wf_mol (strip g) && noH_b g && noH_b g1 && Bool.eqb (has_stereo_labels g1) (has_stereo_labels g) &&
  rels_b g g1 tabs tabs1 flipc (o_ct ord) && nodup_z (keys ao) && pperm_b ao ao1 &&
  zperm_b (o_atoms ord) (o_atoms ord1) && pperm_b (map (phi flipc) (o_ct ord)) (o_ct ord1) && zperm_b (o_al ord) (o_al ord1) &&
  uniform_run_b h g tabs (diff_fuel ord) ao (o_atoms ord) (o_ct ord) (o_al ord) &&
  asym_run_b h g tabs flipc (diff_fuel ord) ao (o_atoms ord) (o_ct ord) (o_al ord).

(* THE THEOREM with decidable hypotheses: g1 is another description of g (same atom numbers); mol_perm is the only hypothesis that
   is not a computation *)
Theorem chiral_morgan_two_descriptions_b (h : list Z -> Z) (g g1 : mol) (tabs tabs1 : cmtabs) (flipc : Z * Z -> bool) (ao ao1 : labels) (ord ord1 : cmorders) :
  mol_perm (strip g) (strip g1) -> two_desc_b h g g1 tabs tabs1 flipc ao ao1 ord ord1 = true ->
  cmres_perm (chiral_morgan h g tabs ao ord) (chiral_morgan h g1 tabs1 ao1 ord1).
Proof.
  intros Hp H. unfold two_desc_b in H. do 11 (apply andb_prop in H; let H' := fresh "B" in destruct H as [H H']).
  destruct (rels_b_sound g g1 tabs tabs1 flipc (o_ct ord) B6) as (Hth & Hal & Hct & Hinj).
  apply (chiral_morgan_two_descriptions h g g1 tabs tabs1 flipc ao ao1 ord ord1); try assumption.
  - apply noH_b_sound. exact B9.
  - apply noH_b_sound. exact B8.
  - apply eqb_prop. exact B7.
  - apply nodup_z_NoDup. exact B5.
  - apply pperm_b_sound. exact B4.
  - apply zperm_b_sound. exact B3.
  - apply pperm_b_sound. exact B2.
  - apply zperm_b_sound. exact B1.
  - apply uniform_run_b_sound. exact B0.
  - apply asym_run_b_sound. exact B.
Qed.

Lemma forallb_map {X Y} (f : X -> Y) (p : Y -> bool) l : forallb p (map f l) = forallb (fun x => p (f x)) l.
Proof. induction l as [|x l IH]; cbn [map forallb]; [reflexivity|]. rewrite IH. reflexivity. Qed.
Lemma noH_b_ren s g : noH_b (ren_mol s g) = noH_b g.
Proof. unfold noH_b, ren_mol. cbn [m_atoms]. rewrite forallb_map. reflexivity. Qed.

(* END TO END for molecules whose classes become discrete through the stereo refinement, any renumbering + any insertion order +
   re-listed registries + any iteration orders: g1 is the other description of g with the same atom numbers, the copy is
   g' = ren_mol s g1.  For every hash function the weights `_chiral_morgan` computes for the copy are the renamed weights of g (as a
   function of the atom) and the canonical strings with all stereo marks are identical. *)
Theorem canonical_string_two_descriptions (h : list Z -> Z) (ring ring' : Z -> bool) (g g1 : mol) (s tb tb' : Z -> Z) (o : opts)
  (tabs tabs' : stabs) (ctabs ctabs1 : cmtabs) (flipc : Z * Z -> bool) (flipw : Z -> Z -> bool) (ao ao1 W : labels) (tr : list labels)
  (ord ord1 : cmorders) :
  mol_perm (strip g) (strip g1) -> wf_mol g1 = true -> wf_mol (strip (ren_mol s g1)) = true ->
  (forall x y, s x = s y -> x = y) -> s 0 = 0 -> (forall n, In n (ids g1) -> ring' (s n) = ring n) -> o_mapping o = false ->
  mol_perm (ren_mol s (strip g)) (strip (ren_mol s g1)) ->
  same_atom_stereo g (ren_mol s g1) s tabs tabs' -> same_ct_stereo g (ren_mol s g1) s tabs tabs' flipw ->
  atoms_order h ring g = Ok ao -> atoms_order h ring g1 = Ok ao1 ->
  two_desc_b h g g1 ctabs ctabs1 flipc ao ao1 ord ord1 = true ->
  chiral_morgan h g ctabs ao ord = Ok (W, tr) -> NoDup (keys W) -> inj_on (ids g) (lbl W) ->
  exists W1 tr1,
    chiral_morgan h g1 ctabs1 ao1 ord1 = Ok (W1, tr1) /\ Permutation W W1 /\
    atoms_order h ring' (ren_mol s g1) = Ok (ren_labels s ao1) /\
    chiral_morgan h (ren_mol s g1) (ren_cmtabs s ctabs1) (ren_labels s ao1) (ren_cmorders s ord1) = Ok (ren_labels s W1, map (ren_labels s) tr1) /\
    smiles_text (ren_mol s g1) (lbl (ren_labels s W1)) tb' o tabs' = map_order s (smiles_text g (lbl W) tb o tabs).
Proof.
  intros Hp Hwf1 Hwf' Hs H0 Hr Hmp Hp' Hat Hct Hao Hao1 Hb Hcm HndW Hinj.
  pose proof (chiral_morgan_two_descriptions_b h g g1 ctabs ctabs1 flipc ao ao1 ord ord1 Hp Hb) as Hc. rewrite Hcm in Hc. unfold cmres_perm in Hc.
  destruct (chiral_morgan h g1 ctabs1 ao1 ord1) as [[W1 tr1]|e] eqn:E1; [|contradiction]. destruct Hc as [HW _].
  exists W1, tr1. split; [reflexivity|]. split; [exact HW|].
  destruct (chiral_weights_equivariant h ring ring' g1 s ctabs1 ord1 ao1 Hwf1 Hs Hr Hao1) as [EA EB]. split; [exact EA|].
  split; [rewrite EB, E1; reflexivity|].
  pose proof Hb as Hb'. unfold two_desc_b in Hb'. do 11 (apply andb_prop in Hb'; let H' := fresh "B" in destruct Hb' as [Hb' H']).
  apply (smiles_invariant_discrete g (ren_mol s g1) s (lbl W) (lbl (ren_labels s W1)) tb tb' o tabs tabs' flipw); try assumption.
  - intros n Hn. rewrite (lbl_ren s W1 n (n :: keys W1)); [symmetry; apply lbl_perm; assumption | intros x y _ _; apply Hs | intros x Hx; right; exact Hx | left; reflexivity].
  - exact (noH_b_sound g B9).
  - apply (noH_b_sound (ren_mol s g1)). rewrite noH_b_ren. exact B8.
Qed.

(* non-vacuity: the meso-like diol of ChiralMorganProofs and its other description: atoms and every adjacency row inserted in the
   reverse order, the registries listed accordingly, the stored signs of both centres re-expressed (flipped: the listing [4; 3; 1] of
   [1; 3; 4] is an odd re-ordering).  One real refinement pass happens on both sides and the weights agree. *)
Definition exc_g1 : mol :=
  mkMol [(6, exc_a 6 3 None); (5, exc_a 8 1 None); (4, exc_a 6 1 (Some false)); (3, exc_a 8 1 None); (2, exc_a 6 1 (Some false)); (1, exc_a 6 3 None)]
        [(6, [(4, exc_b)]); (5, [(4, exc_b)]); (4, [(6, exc_b); (5, exc_b); (2, exc_b)]); (3, [(2, exc_b)]); (2, [(4, exc_b); (3, exc_b); (1, exc_b)]); (1, [(2, exc_b)])].
Definition exc_tabs1 : cmtabs := mkCm [6; 4; 2; 1] [(4, [6; 5; 2]); (2, [4; 3; 1])] [] [] [].
Definition exc_ao1 : labels := [(4, 1); (2, 1); (6, 2); (1, 2); (5, 3); (3, 3)].
Definition exc_ord1 : cmorders := mkCmo [4; 2] [] [].
Theorem two_descriptions_example :
  mol_perm (strip exc_g) (strip exc_g1) /\
  atoms_order hash_ztuple (fun _ => false) exc_g1 = Ok exc_ao1 /\
  two_desc_b hash_ztuple exc_g exc_g1 exc_tabs exc_tabs1 (fun _ => false) exc_ao exc_ao1 exc_ord exc_ord1 = true /\
  chiral_morgan hash_ztuple exc_g exc_tabs exc_ao exc_ord =
    Ok ([(6, 1); (5, 2); (3, 3); (1, 4); (2, 5); (4, 6)], [[(2, -1); (4, 1); (1, 2); (6, 2); (3, 3); (5, 3)]]) /\
  chiral_morgan hash_ztuple exc_g1 exc_tabs1 exc_ao1 exc_ord1 =
    Ok ([(6, 1); (5, 2); (3, 3); (1, 4); (2, 5); (4, 6)], [[(4, 1); (2, -1); (6, 2); (1, 2); (5, 3); (3, 3)]]).
Proof.
  split.
  - split.
    + change (m_atoms (strip exc_g1)) with (rev (m_atoms (strip exc_g))). apply Permutation_rev.
    + exists (map (fun nl : Z * list (Z * bond) => (fst nl, rev (snd nl))) (m_adj (strip exc_g))). split.
      * cbn. repeat constructor; cbn; apply Permutation_rev.
      * change (m_adj (strip exc_g1)) with (rev (map (fun nl : Z * list (Z * bond) => (fst nl, rev (snd nl))) (m_adj (strip exc_g)))). apply Permutation_rev.
  - repeat split; vm_compute; reflexivity.
Qed.
