(* C10: registered paths that never share an atom + every labelled bond is the central bond of a registered path
   imply the consistency condition, hence the API level round trip incl. the bond labels. *)
From Coq Require Import ZArith List Bool Lia ZifyBool.
From Model Require Import PyBase Pack PackSpec PackStereo PackStereoSpec.
From Proofs Require Import PackBits PackRoundtrip PackRoundtripGraph PackRoundtripMol PackStereoProofs.
Import ListNotations.
Open Scope Z_scope.

Lemma zget_dict_set {V} (d : list (Z * V)) k v k' : zget (dict_set d k v) k' = if k' =? k then Some v else zget d k'.
Proof.
  induction d as [|[k0 v0] d IH]; cbn [dict_set zget].
  - destruct (k' =? k); reflexivity.
  - destruct (k =? k0) eqn:E.
    + apply Z.eqb_eq in E. subst k0. cbn [zget]. destruct (k' =? k); reflexivity.
    + cbn [zget]. rewrite IH. destruct (k' =? k0) eqn:E1; [|reflexivity].
      destruct (k' =? k) eqn:E2; [lia | reflexivity].
Qed.

Lemma zget_terminals_step d p k :
  zget (terminals_step d p) k = match tinfo p with Some (ks, e, _) => if zmem k ks then Some e else zget d k | None => zget d k end.
Proof.
  unfold terminals_step, tinfo. destruct (Nat.even (length p)); [|reflexivity].
  destruct (path_ends p) as [[n m]|]; [|reflexivity]. destruct (path_mid p) as [[c1 c2]|]; [|reflexivity].
  rewrite !zget_dict_set. cbn [fst snd zmem existsb].
  destruct (k =? c1), (k =? c2), (k =? m), (k =? n); reflexivity.
Qed.

Lemma zget_centers_step d p k :
  zget (centers_step d p) k =
  match tinfo p with Some (_, e, c) => if (k =? fst e) || (k =? snd e) then Some c else zget d k | None => zget d k end.
Proof.
  unfold centers_step, tinfo. destruct (Nat.even (length p)); [|reflexivity].
  destruct (path_ends p) as [[n m]|]; [|reflexivity]. destruct (path_mid p) as [[c1 c2]|]; [|reflexivity].
  rewrite !zget_dict_set. cbn [fst snd]. destruct (k =? m), (k =? n); reflexivity.
Qed.

Lemma zget_terminals_fold k v : forall paths d,
  (forall q ks e c, In q paths -> tinfo q = Some (ks, e, c) -> zmem k ks = true -> e = v) ->
  (zget d k = Some v \/ exists q ks e c, In q paths /\ tinfo q = Some (ks, e, c) /\ zmem k ks = true) ->
  zget (fold_left terminals_step paths d) k = Some v.
Proof.
  induction paths as [|p paths IH]; intros d H D.
  - destruct D as [D|[q [? [? [? [[] _]]]]]]. exact D.
  - cbn [fold_left]. apply IH; [intros q ks e c Hin; apply (H q ks e c); right; exact Hin|].
    rewrite zget_terminals_step. destruct (tinfo p) as [[[ks e] c]|] eqn:Et.
    + destruct (zmem k ks) eqn:Ez.
      * left. f_equal. apply (H p ks e c (or_introl eq_refl) Et Ez).
      * destruct D as [D|[q [ks' [e' [c' [[Hin|Hin] [Et' Ez']]]]]]]; [left; exact D | subst q; congruence | right; exists q, ks', e', c'; auto].
    + destruct D as [D|[q [ks' [e' [c' [[Hin|Hin] [Et' Ez']]]]]]]; [left; exact D | subst q; congruence | right; exists q, ks', e', c'; auto].
Qed.

Lemma zget_centers_fold k v : forall paths d,
  (forall q ks e c, In q paths -> tinfo q = Some (ks, e, c) -> (k =? fst e) || (k =? snd e) = true -> c = v) ->
  (zget d k = Some v \/ exists q ks e c, In q paths /\ tinfo q = Some (ks, e, c) /\ (k =? fst e) || (k =? snd e) = true) ->
  zget (fold_left centers_step paths d) k = Some v.
Proof.
  induction paths as [|p paths IH]; intros d H D.
  - destruct D as [D|[q [? [? [? [[] _]]]]]]. exact D.
  - cbn [fold_left]. apply IH; [intros q ks e c Hin; apply (H q ks e c); right; exact Hin|].
    rewrite zget_centers_step. destruct (tinfo p) as [[[ks e] c]|] eqn:Et.
    + destruct ((k =? fst e) || (k =? snd e)) eqn:Ez.
      * left. f_equal. apply (H p ks e c (or_introl eq_refl) Et Ez).
      * destruct D as [D|[q [ks' [e' [c' [[Hin|Hin] [Et' Ez']]]]]]]; [left; exact D | subst q; congruence | right; exists q, ks', e', c'; auto].
    + destruct D as [D|[q [ks' [e' [c' [[Hin|Hin] [Et' Ez']]]]]]]; [left; exact D | subst q; congruence | right; exists q, ks', e', c'; auto].
Qed.

(* with disjoint paths a key has one owner *)
Lemma disjoint_owner k : forall paths p q ks e c ks' e' c',
  paths_disjoint_b paths = true -> In p paths -> In q paths ->
  tinfo p = Some (ks, e, c) -> tinfo q = Some (ks', e', c') -> zmem k ks = true -> zmem k ks' = true -> p = q.
Proof.
  induction paths as [|p0 r IH]; intros p q ks e c ks' e' c' H Hp Hq Tp Tq Kp Kq; [contradiction|].
  cbn [paths_disjoint_b] in H. apply andb_true_iff in H. destruct H as [H0 Hr]. rewrite forallb_forall in H0.
  destruct Hp as [Hp|Hp], Hq as [Hq|Hq].
  - congruence.
  - subst p0. specialize (H0 q Hq). unfold keys_apart in H0. rewrite Tp, Tq in H0. rewrite forallb_forall in H0.
    apply zmem_In in Kp. specialize (H0 k Kp). rewrite Kq in H0. discriminate.
  - subst p0. specialize (H0 p Hp). unfold keys_apart in H0. rewrite Tq, Tp in H0. rewrite forallb_forall in H0.
    apply zmem_In in Kq. specialize (H0 k Kq). rewrite Kp in H0. discriminate.
  - apply (IH p q ks e c ks' e' c' Hr Hp Hq Tp Tq Kp Kq).
Qed.

Lemma tinfo_keys p ks e c : tinfo p = Some (ks, e, c) -> ks = [fst e; snd e; snd c; fst c].
Proof.
  unfold tinfo. destruct (Nat.even (length p)); [|discriminate]. destruct (path_ends p); [|discriminate].
  destruct (path_mid p); [|discriminate]. intros H. injection H as H1 H2 H3. subst. reflexivity.
Qed.

Theorem ct_consistent_of_disjoint atoms paths :
  paths_disjoint_b paths = true -> labelled_registered_b atoms paths = true -> ct_consistent_b atoms paths = true.
Proof.
  intros Hd Hl. unfold ct_consistent_b. apply forallb_forall. intros [n x] Hin.
  unfold labelled_registered_b in Hl. rewrite forallb_forall in Hl. specialize (Hl (n, x) Hin). cbn [fst snd] in *.
  destruct (nb_st x) as [s|]; [|reflexivity].
  apply existsb_exists in Hl. destruct Hl as [p [Hp Hh]]. destruct (tinfo p) as [[[ks e] c]|] eqn:Tp; [|discriminate].
  pose proof (tinfo_keys p ks e c Tp) as Eks.
  assert (Kn : zmem n ks = true).
  { rewrite Eks. unfold bond_hit in Hh. cbn [zmem existsb]. lia. }
  assert (Ke : zmem (fst e) ks = true) by (rewrite Eks; cbn [zmem existsb]; rewrite Z.eqb_refl; reflexivity).
  assert (Own : forall k, zmem k ks = true -> forall q ks' e' c', In q paths -> tinfo q = Some (ks', e', c') -> zmem k ks' = true ->
                  e' = e /\ c' = c).
  { intros k Hk q ks' e' c' Hq Tq Kq. pose proof (disjoint_owner k paths p q ks e c ks' e' c' Hd Hp Hq Tp Tq Hk Kq). subst q.
    rewrite Tp in Tq. injection Tq as ? ? ?. subst. split; reflexivity. }
  unfold terminals_of, centers_of.
  rewrite (zget_terminals_fold n e paths []).
  - destruct e as [tn tm]. cbn [fst snd] in *.
    rewrite (zget_centers_fold tn c paths []).
    + destruct c as [c1 c2]. exact Hh.
    + intros q ks' e' c' Hq Tq Kq. apply (Own tn Ke q ks' e' c' Hq Tq).
      rewrite (tinfo_keys q ks' e' c' Tq). cbn [zmem existsb]. lia.
    + right. exists p, ks, (tn, tm), c. cbn [fst snd]. rewrite Z.eqb_refl. auto.
  - intros q ks' e' c' Hq Tq Kq. apply (Own n Kn q ks' e' c' Hq Tq Kq).
  - right. exists p, ks, e, c. auto.
Qed.

(* ROUND TRIP at the level of MoleculeContainer.pack / unpack incl. the bond stereo labels, for every molecule within
   the format limits whose registered paths never share an atom (the registry invariant) *)
Theorem api_roundtrip atoms paths suf :
  pack_ok (api_pmol atoms paths) = true -> labels_sym_b atoms = true ->
  paths_disjoint_b paths = true -> labelled_registered_b atoms paths = true ->
  exists bytes, api_pack atoms paths = Ok bytes /\
    api_unpack paths (bytes ++ suf) = Ok (map uatom_of atoms, ladj_of_atoms atoms, Z.of_nat (length bytes)).
Proof.
  intros H Hs Hd Hl. apply (api_roundtrip_partial atoms paths suf H Hs (ct_consistent_of_disjoint atoms paths Hd Hl)).
Qed.

(* non-vacuity: a cumulene with a labelled central bond *)
Lemma api_roundtrip_example :
  pack_ok (api_pmol cumulene_atoms cumulene_paths) = true /\ labels_sym_b cumulene_atoms = true /\
  paths_disjoint_b cumulene_paths = true /\ labelled_registered_b cumulene_atoms cumulene_paths = true /\
  terminals_of cumulene_paths = [(2, (2, 6)); (6, (2, 6)); (5, (2, 6)); (4, (2, 6))] /\
  centers_of cumulene_paths = [(2, (4, 5)); (6, (4, 5))] /\ cis_trans_count cumulene_atoms = 1.
Proof. vm_compute. repeat split; reflexivity. Qed.

(* the disjointness hypothesis cannot be dropped: with two registered paths sharing atom 2 (such path lists were
   produced before fix 2e29c31) the label of bond 2=4 comes back on bond 2=7 *)
Lemma api_roundtrip_needs_disjoint :
  paths_disjoint_b ct_shared_paths = false /\ labelled_registered_b ct_shared_atoms ct_shared_paths = true.
Proof. vm_compute. split; reflexivity. Qed.

Theorem api_roundtrip_needs_disjoint_full :
  paths_disjoint_b ct_shared_paths = false /\ labelled_registered_b ct_shared_atoms ct_shared_paths = true /\
  pack_ok (api_pmol ct_shared_atoms ct_shared_paths) = true /\ labels_sym_b ct_shared_atoms = true /\
  ct_consistent_b ct_shared_atoms ct_shared_paths = false /\
  exists bytes adj size,
    api_pack ct_shared_atoms ct_shared_paths = Ok bytes /\
    api_unpack ct_shared_paths bytes = Ok (map uatom_of ct_shared_atoms, adj, size) /\
    adj <> ladj_of_atoms ct_shared_atoms /\
    zget (ladj_of_atoms ct_shared_atoms) 2 = Some [(1, (1, None)); (3, (1, None)); (4, (2, Some false)); (7, (2, None))] /\
    zget adj 2 = Some [(1, (1, None)); (3, (1, None)); (4, (2, None)); (7, (2, Some false))].
Proof. exact (conj (proj1 api_roundtrip_needs_disjoint) (conj (proj2 api_roundtrip_needs_disjoint) api_roundtrip_refuted)). Qed.
