(* C07 second extension: cis/trans query bonds and allene-type centres of the stereo filter as parity conditions (C12's
   alkene law), and the mirror image for bonds. *)
From Coq Require Import ZArith List Bool Lia.
From Model Require Import PyBase Stereo Iso IsoStereo.
From Proofs Require Import StereoProofs IsoStereoProofs.
Import ListNotations.
Local Open Scope Z_scope.

(* ---------- a labelled query bond ----------
   n0, n2 are the registered substituents at one end of the (cumulene) double bond system of the target, n1, n3 those at the other
   end (stereogenic_cis_trans[(ot1, ot2)] = (n0, n1, n2, n3)); the stored label s of the central bond refers to (n0, n1).
   The filter picks, at each end, the image of the first query neighbour that is mapped onto a registered substituent: say the
   a-th (a = 0 or 2) and the b-th (b = 1 or 3), in either order.  Accepted iff
       query flag = s  xor  [a is the second substituent of its end]  xor  [b is the second substituent of its end]. *)
Theorem bond_check_parity4 : forall t q mp n m qs on om lbl ot1 ot2 n0 n1 n2 n3 i j s a b,
  zget mp n = Some on -> zget mp m = Some om ->
  zget (adj_get (st_bond_stereo t) on) om = Some (Some lbl) ->
  zget (st_ct_term t) on = Some (ot1, ot2) ->
  zget (adj_get (st_ct t) ot1) ot2 = Some (n0, n1, Some n2, Some n3) -> NoDup [n0; n1; n2; n3] ->
  zget (st_ct_centers t) ot1 = Some (i, j) -> zget (adj_get (st_bond_stereo t) i) j = Some (Some s) ->
  In a [0; 2] -> In b [1; 3] ->
  (opposite_pair q mp ot1 ot2 (n0, n1, Some n2, Some n3) = Ok (pick (n0, n1, n2, n3) a, pick (n0, n1, n2, n3) b) \/
   opposite_pair q mp ot1 ot2 (n0, n1, Some n2, Some n3) = Ok (pick (n0, n1, n2, n3) b, pick (n0, n1, n2, n3) a)) ->
  bond_check t q mp n m qs = Ok (Bool.eqb (xorb s (ct_parity a b)) qs).
Proof.
  intros t q mp n m qs on om lbl ot1 ot2 n0 n1 n2 n3 i j s a b Hn Hm Hl Ht He Hnd Hc Hs Ha Hb Hop.
  unfold bond_check. rewrite Hn, Hm, Hl, Ht, He.
  destruct (translate_env_law4 (isH t) n0 n1 n2 n3 a b s Hnd Ha Hb) as [T1 T2].
  destruct Hop as [-> | ->]; rewrite Hc, Hs; unfold translate_ct; [rewrite T1 | rewrite T2]; reflexivity.
Qed.

(* hydrogens only (explicit ones: hA, hB) as second substituents: the registry holds None for them *)
Theorem bond_check_parityH : forall t q mp n m qs on om lbl ot1 ot2 n0 n1 hA hB i j s a b,
  zget mp n = Some on -> zget mp m = Some om ->
  zget (adj_get (st_bond_stereo t) on) om = Some (Some lbl) ->
  zget (st_ct_term t) on = Some (ot1, ot2) ->
  zget (adj_get (st_ct t) ot1) ot2 = Some (n0, n1, None, None) ->
  n0 <> n1 -> isH t n0 = false -> isH t n1 = false -> isH t hA = true -> isH t hB = true ->
  zget (st_ct_centers t) ot1 = Some (i, j) -> zget (adj_get (st_bond_stereo t) i) j = Some (Some s) ->
  In a [0; 2] -> In b [1; 3] ->
  opposite_pair q mp ot1 ot2 (n0, n1, None, None) = Ok (pick (n0, n1, hA, hB) a, pick (n0, n1, hA, hB) b) ->
  bond_check t q mp n m qs = Ok (Bool.eqb (xorb s (ct_parity a b)) qs).
Proof.
  intros t q mp n m qs on om lbl ot1 ot2 n0 n1 hA hB i j s a b Hn Hm Hl Ht He Hne H0 H1 HA HB Hc Hs Ha Hb Hop.
  unfold bond_check. rewrite Hn, Hm, Hl, Ht, He, Hop, Hc, Hs. unfold translate_ct.
  rewrite (translate_env_lawH (isH t) n0 n1 hA hB a b s Hne H0 H1 HA HB Ha Hb). reflexivity.
Qed.

(* ---------- an allene-type centre: the same law with the centre's own label ---------- *)
Theorem atom_check_allene_parity : forall t q mp n qs m ts ot1 ot2 n0 n1 n2 n3 a b,
  zget mp n = Some m -> zget (st_atom_stereo t) m = Some (Some ts) -> zget (st_th t) m = None ->
  zget (st_al_term t) m = Some (ot1, ot2) -> zget (st_al t) m = Some (n0, n1, Some n2, Some n3) -> NoDup [n0; n1; n2; n3] ->
  In a [0; 2] -> In b [1; 3] ->
  (opposite_pair q mp ot1 ot2 (n0, n1, Some n2, Some n3) = Ok (pick (n0, n1, n2, n3) a, pick (n0, n1, n2, n3) b) \/
   opposite_pair q mp ot1 ot2 (n0, n1, Some n2, Some n3) = Ok (pick (n0, n1, n2, n3) b, pick (n0, n1, n2, n3) a)) ->
  atom_check t q mp n qs = Ok (Bool.eqb (xorb ts (ct_parity a b)) qs).
Proof.
  intros t q mp n qs m ts ot1 ot2 n0 n1 n2 n3 a b Hm Hs Hth Ht He Hnd Ha Hb Hop.
  unfold atom_check. rewrite Hm, Hs, Hth, Ht, He.
  destruct (translate_env_law4 (isH t) n0 n1 n2 n3 a b ts Hnd Ha Hb) as [T1 T2].
  destruct Hop as [-> | ->]; unfold translate_al; [rewrite T1 | rewrite T2]; reflexivity.
Qed.

(* ---------- mirror image for bonds: inverting the label of the central bond inverts the verdict ---------- *)
Fixpoint set_label2 (l : list (Z * list (Z * option bool))) (i j : Z) (s : bool) : list (Z * list (Z * option bool)) :=
  match l with
  | [] => []
  | (k, row) :: r => if i =? k then (k, set_label row j s) :: r else (k, row) :: set_label2 r i j s
  end.
Definition with_bond_label (t : starget) (i j : Z) (s : bool) : starget :=
  mkSTarget (st_atom_stereo t) (set_label2 (st_bond_stereo t) i j s) (st_H t) (st_th t) (st_al_term t) (st_al t) (st_ct_term t) (st_ct t) (st_ct_centers t).

Lemma zget_set_label_other l m s x : x <> m -> zget (set_label l m s) x = zget l x.
Proof.
  intros Hx. induction l as [|[k v] r IH]; [reflexivity|]. cbn. destruct (Z.eqb_spec m k) as [->|Hk]; cbn.
  - destruct (Z.eqb_spec x k); [congruence | reflexivity].
  - destruct (x =? k); [reflexivity | exact IH].
Qed.

(* the entry (i, j) becomes Some s'; every entry keeps being labelled / unlabelled *)
Lemma set_label2_spec l i j s' : forall s, zget (adj_get l i) j = Some (Some s) ->
  zget (adj_get (set_label2 l i j s') i) j = Some (Some s') /\
  forall x y, (match zget (adj_get (set_label2 l i j s') x) y with Some (Some _) => 1 | Some None => 2 | None => 3 end) =
              (match zget (adj_get l x) y with Some (Some _) => 1 | Some None => 2 | None => 3 end).
Proof.
  induction l as [|[k row] r IH]; intros s H; [discriminate|]. unfold adj_get in *. cbn [set_label2 zget] in *.
  destruct (Z.eqb_spec i k) as [->|Hk].
  - cbn [zget]. rewrite Z.eqb_refl in *. split; [apply (zget_set_label row j s' _ H)|].
    intros x y. destruct (x =? k); [|reflexivity].
    destruct (Z.eq_dec y j) as [->|Hy]; [rewrite (zget_set_label row j s' _ H), H; reflexivity | rewrite (zget_set_label_other row j s' y Hy); reflexivity].
  - cbn [zget]. destruct (Z.eqb_spec i k); [congruence|]. destruct (IH s H) as [I1 I2]. split; [exact I1|].
    intros x y. destruct (x =? k); [reflexivity | apply I2].
Qed.

Theorem bond_check_mirror : forall t q mp n m qs on om lbl ot1 ot2 i j s,
  zget mp n = Some on -> zget mp m = Some om -> zget (adj_get (st_bond_stereo t) on) om = Some (Some lbl) ->
  zget (st_ct_term t) on = Some (ot1, ot2) ->
  zget (st_ct_centers t) ot1 = Some (i, j) -> zget (adj_get (st_bond_stereo t) i) j = Some (Some s) ->
  bond_check (with_bond_label t i j (negb s)) q mp n m qs =
  match bond_check t q mp n m qs with Ok v => Ok (negb v) | Err e => Err e end.
Proof.
  intros t q mp n m qs on om lbl ot1 ot2 i j s Hn Hm Hl Ht Hc Hs. unfold bond_check. rewrite Hn, Hm.
  cbn [with_bond_label st_bond_stereo st_ct_term st_ct st_ct_centers]. change (isH (with_bond_label t i j (negb s))) with (isH t).
  destruct (set_label2_spec (st_bond_stereo t) i j (negb s) s Hs) as [E1 E2]. specialize (E2 on om).
  rewrite Hl in *.
  destruct (zget (adj_get (st_bond_stereo t) on) om) as [[l0|]|];
    destruct (zget (adj_get (set_label2 (st_bond_stereo t) i j (negb s)) on) om) as [[l1|]|]; try discriminate; try reflexivity.
  rewrite Ht. destruct (zget (adj_get (st_ct t) ot1) ot2) as [e|]; [|reflexivity].
  destruct (opposite_pair q mp ot1 ot2 e) as [[n1 m1]|x]; [|reflexivity]. rewrite Hc, E1, Hs. unfold translate_ct.
  rewrite translate_env_negb. destruct (translate_env (isH t) e n1 m1 s) as [v|x]; [|reflexivity]. f_equal. destruct v, qs; reflexivity.
Qed.

(* non-vacuity: query F/C(Cl)=C(Br)/I as chython's SMARTS reader stores it (flag false) on the molecule of the same text (label
   true, registry (F, Br, Cl, I) = (1, 5, 3, 6)): the reference atoms picked are F (a = 0) and Br (b = 1) *)
Definition ex_ct_t : starget :=
  mkSTarget [(1, None); (2, None); (3, None); (4, None); (5, None); (6, None)]
            [(1, [(2, None)]); (2, [(1, None); (3, None); (4, Some true)]); (3, [(2, None)]); (4, [(2, Some true); (5, None); (6, None)]); (5, [(4, None)]); (6, [(4, None)])]
            [] [] [] [] [(2, (2, 4)); (4, (2, 4))] [(2, [(4, (1, 5, Some 3, Some 6))])] [(2, (2, 4)); (4, (2, 4))].
Definition ex_ct_q : squery :=
  mkSQuery [(1, None); (2, None); (3, None); (4, None); (5, None); (6, None)] [(1, [2]); (2, [1; 3; 4]); (3, [2]); (4, [2; 5; 6]); (5, [4]); (6, [4])]
           [(1, 2, None); (2, 3, None); (2, 4, Some false); (4, 5, None); (4, 6, None)].
Definition ex_ct_mp : mapping := [(1, 1); (2, 2); (3, 3); (4, 4); (5, 5); (6, 6)].

Theorem example_bond_parity :
  zget ex_ct_mp 2 = Some 2 /\ zget ex_ct_mp 4 = Some 4 /\
  zget (adj_get (st_bond_stereo ex_ct_t) 2) 4 = Some (Some true) /\ zget (st_ct_term ex_ct_t) 2 = Some (2, 4) /\
  zget (adj_get (st_ct ex_ct_t) 2) 4 = Some (1, 5, Some 3, Some 6) /\ NoDup [1; 5; 3; 6] /\
  zget (st_ct_centers ex_ct_t) 2 = Some (2, 4) /\
  opposite_pair ex_ct_q ex_ct_mp 2 4 (1, 5, Some 3, Some 6) = Ok (pick (1, 5, 3, 6) 0, pick (1, 5, 3, 6) 1) /\
  bond_check ex_ct_t ex_ct_q ex_ct_mp 2 4 false = Ok false /\
  bond_check (with_bond_label ex_ct_t 2 4 false) ex_ct_q ex_ct_mp 2 4 false = Ok true.
Proof.
  repeat split; try (vm_compute; reflexivity). repeat constructor; cbn; intuition discriminate.
Qed.
