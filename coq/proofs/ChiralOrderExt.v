(* C01: `_chiral_morgan` does not depend on the iteration orders of its three stereo sets whenever the `group[0]` environment check
   is never decisive: in every pass of `__differentiation`, every stereo element that sits in a group of even size has a discrete
   environment (the "truly stereogenic" branch) and a computable sign.  Then no group is ever handed to the flip-half heuristic,
   the update dict is the same finite map, the members left in the sets are the same up to order, and `_morgan` gets the same
   input, call by call.  The hypothesis [uniform_run] speaks about the run on ONE order only. *)
From Coq Require Import ZArith List Bool Lia Permutation Arith String.
From Model Require Import PyBase PyHash Graph Morgan Stereo Writer ChiralMorgan.
From Proofs Require Import MorganProofs WriterInvProofs WriterStereoExt ChiralMorganProofs EqHashExt.
Import ListNotations.
Open Scope Z_scope.

(* ---------- lists ---------- *)
Lemma perm_filter {A} (p : A -> bool) l l' : Permutation l l' -> Permutation (filter p l) (filter p l').
Proof.
  induction 1; cbn [filter].
  - constructor.
  - destruct (p x); [constructor|]; assumption.
  - destruct (p x), (p y); try apply Permutation_refl. apply perm_swap.
  - eapply Permutation_trans; eassumption.
Qed.
Lemma filter_filter2 {A} (p q : A -> bool) l : filter p (filter q l) = filter (fun a => q a && p a) l.
Proof.
  induction l as [|a l IH]; cbn [filter]; [reflexivity|]. destruct (q a); cbn [filter andb]; [destruct (p a)|]; rewrite IH; reflexivity.
Qed.
Lemma filter_all_true {A} (p : A -> bool) l : (forall a, In a l -> p a = true) -> filter p l = l.
Proof.
  induction l as [|a l IH]; intros H; cbn [filter]; [reflexivity|]. rewrite (H a (or_introl eq_refl)), IH; [reflexivity|].
  intros b Hb. apply H. right. exact Hb.
Qed.
Lemma filter_all_false {A} (p : A -> bool) l : (forall a, In a l -> p a = false) -> filter p l = [].
Proof.
  induction l as [|a l IH]; intros H; cbn [filter]; [reflexivity|]. rewrite (H a (or_introl eq_refl)), IH; [reflexivity|].
  intros b Hb. apply H. right. exact Hb.
Qed.
Lemma existsb_perm {A} (p : A -> bool) l l' : Permutation l l' -> existsb p l = existsb p l'.
Proof.
  induction 1; cbn [existsb]; [reflexivity | f_equal; assumption | destruct (p x), (p y); reflexivity | congruence].
Qed.
Lemma even_len_perm {A} (l l' : list A) : Permutation l l' -> even_len l = even_len l'.
Proof. intros H. unfold even_len. rewrite (Permutation_length H). reflexivity. Qed.

(* ---------- association lists ---------- *)
Lemma zget_upd_set u a v k : zget (upd_set u a v) k = if k =? a then Some v else zget u k.
Proof.
  induction u as [|[k' v'] u IH]; cbn [upd_set zget]; [reflexivity|].
  destruct (Z.eqb_spec a k') as [->|Hne]; cbn [zget].
  - destruct (k =? k'); reflexivity.
  - rewrite IH. destruct (Z.eqb_spec k k') as [->|Hk]; [|reflexivity]. destruct (Z.eqb_spec k' a) as [->|]; [contradiction Hne; reflexivity | reflexivity].
Qed.
Lemma zget_ext_nil {V} (u u' : list (Z * V)) : (forall k, zget u k = zget u' k) -> u = [] -> u' = [].
Proof.
  intros H ->. destruct u' as [|[k v] r]; [reflexivity|]. specialize (H k). cbn [zget] in H. rewrite Z.eqb_refl in H. discriminate.
Qed.
Lemma zget_in_some {V} (u : list (Z * V)) k v : In (k, v) u -> zget u k <> None.
Proof.
  induction u as [|[k' v'] u IH]; intros Hi; [destruct Hi|]. cbn [zget]. destruct (Z.eqb_spec k k'); [discriminate|].
  destruct Hi as [E|Hi]; [inversion E; subst; contradiction n; reflexivity | apply IH; exact Hi].
Qed.

(* ---------- group_by: the groups are the classes of equal key, in first-appearance order, members in list order ---------- *)
Section GroupSpec.
  Context {A : Type} (key : A -> Z).
  Definition cls (k : Z) (l : list A) : list A := filter (fun x => key x =? k) l.
  Definition gacc (p : list A) : list (Z * list A) := fold_left (fun gs x => group_add (key x) x gs) p [].

  Lemma zget_group_add k0 (x : A) gs k :
    zget (group_add k0 x gs) k = if k =? k0 then Some (match zget gs k0 with Some L => L ++ [x] | None => [x] end) else zget gs k.
  Proof.
    induction gs as [|[k' L] gs IH]; cbn [group_add zget].
    - destruct (k =? k0); reflexivity.
    - destruct (Z.eqb_spec k0 k') as [->|Hne]; cbn [zget].
      + destruct (k =? k'); reflexivity.
      + rewrite IH. destruct (Z.eqb_spec k k') as [->|Hk].
        * destruct (Z.eqb_spec k' k0) as [->|]; [contradiction Hne; reflexivity | reflexivity].
        * destruct (Z.eqb_spec k0 k') as [->|_]; [contradiction Hne; reflexivity|]. reflexivity.
  Qed.
  Lemma keys_group_add k0 (x : A) gs : keys (group_add k0 x gs) = if zmem k0 (keys gs) then keys gs else keys gs ++ [k0].
  Proof.
    unfold keys, zmem. induction gs as [|[k' L] gs IH]; cbn [group_add map fst existsb app]; [reflexivity|].
    destruct (Z.eqb_spec k0 k') as [->|Hne]; cbn [map fst orb]; [reflexivity|]. rewrite IH. destruct (existsb (Z.eqb k0) (map fst gs)); reflexivity.
  Qed.
  Lemma zmem_false_notin k l : zmem k l = false -> ~ In k l.
  Proof.
    unfold zmem. intros H Hi. assert (existsb (Z.eqb k) l = true) as Ht by (apply existsb_exists; exists k; split; [exact Hi | apply Z.eqb_refl]).
    rewrite H in Ht. discriminate.
  Qed.
  Lemma nodup_gacc p : NoDup (keys (gacc p)).
  Proof.
    unfold gacc. induction p as [|x p IH] using rev_ind; [constructor|]. rewrite fold_left_app. cbn [fold_left]. rewrite keys_group_add.
    destruct (zmem (key x) _) eqn:Hm; [exact IH|].
    apply (Permutation_NoDup (Permutation_cons_append _ (key x))). constructor; [|exact IH]. apply zmem_false_notin. exact Hm.
  Qed.
  Lemma cls_app k l1 l2 : cls k (l1 ++ l2) = cls k l1 ++ cls k l2.
  Proof. unfold cls. apply filter_app. Qed.
  Lemma zget_gacc p k : zget (gacc p) k = match cls k p with [] => None | L => Some L end.
  Proof.
    unfold gacc. induction p as [|x p IH] using rev_ind; [reflexivity|]. rewrite fold_left_app. cbn [fold_left]. rewrite zget_group_add, cls_app.
    unfold cls at 2. cbn [filter]. destruct (Z.eqb_spec k (key x)) as [->|Hne].
    - rewrite Z.eqb_refl, IH. destruct (cls (key x) p); reflexivity.
    - destruct (Z.eqb_spec (key x) k) as [E|_]; [contradiction Hne; symmetry; exact E|]. rewrite app_nil_r. exact IH.
  Qed.
  Lemma group_by_in (l G : list A) : In G (group_by key l) <-> exists k, G = cls k l /\ G <> [].
  Proof.
    unfold group_by. fold (gacc l). split.
    - intros Hi. apply in_map_iff in Hi. destruct Hi as [[k L] [E Hi]]. cbn [snd] in E. subst L.
      pose proof (zget_In (gacc l) k G (nodup_gacc l) Hi) as Hz. rewrite zget_gacc in Hz. exists k.
      destruct (cls k l) eqn:Hc; [discriminate|]. inversion Hz. split; [reflexivity | discriminate].
    - intros [k [E Hn]]. apply in_map_iff. exists (k, G). split; [reflexivity|]. apply zget_Some_In. rewrite zget_gacc, <- E.
      destruct G; [contradiction Hn; reflexivity | reflexivity].
  Qed.
  Lemma cls_perm k l l' : Permutation l l' -> Permutation (cls k l) (cls k l').
  Proof. apply perm_filter. Qed.
  Lemma group_by_perm l l' G : Permutation l l' -> In G (group_by key l) -> exists G', In G' (group_by key l') /\ Permutation G G'.
  Proof.
    intros Hp Hi. apply group_by_in in Hi. destruct Hi as [k [-> Hn]]. exists (cls k l'). split; [|apply cls_perm; exact Hp].
    apply group_by_in. exists k. split; [reflexivity|]. intros E. apply Hn. pose proof (cls_perm k l l' Hp) as Hq. rewrite E in Hq.
    apply Permutation_sym, Permutation_nil in Hq. exact Hq.
  Qed.
  Lemma existsb_group_by (p : list A -> bool) l l' :
    (forall G G', Permutation G G' -> p G = p G') -> Permutation l l' -> existsb p (group_by key l) = existsb p (group_by key l').
  Proof.
    intros Hpp Hp. apply eq_iff_eq_true. rewrite !existsb_exists. split; intros [G [Hi Ht]].
    - destruct (group_by_perm l l' G Hp Hi) as [G' [Hi' Hq]]. exists G'. split; [exact Hi' | rewrite <- (Hpp G G' Hq); exact Ht].
    - destruct (group_by_perm l' l G (Permutation_sym Hp) Hi) as [G' [Hi' Hq]]. exists G'. split; [exact Hi' | rewrite <- (Hpp G G' Hq); exact Ht].
  Qed.
End GroupSpec.

(* ---------- one pass over the groups of one kind, generically ---------- *)
Section GenPass.
  Context {A G : Type}.
  Variable envok : G -> pyres bool.       (* the check made on group[0]: KeyError or "environment is discrete" *)
  Variable sign : G -> pyres bool.
  Variable uatom : G -> Z.
  Variable always : bool.                 (* tetrahedrons: the group is discarded whatever the split *)
  Variable ing : A -> list G -> bool.
  Variable lblm : Z -> Z.
  Hypothesis ing_perm : forall a G1 G2, Permutation G1 G2 -> ing a G1 = ing a G2.

  Definition gen_group (st : pyres (pstate A G)) (group : list G) : pyres (pstate A G) :=
    match st with
    | Err e => Err e
    | Ok (update, rest, groups) =>
        if negb (even_len group) then st else
        match group with
        | [] => st
        | x0 :: _ =>
            match envok x0 with
            | Err e => Err e
            | Ok d =>
                if d then
                  match filter_res sign group with
                  | Err e => Err e
                  | Ok s => Ok (if proper_part s group then fold_left (fun u x => upd_set u (uatom x) (- lblm (uatom x))) s update else update,
                                if proper_part s group || always then filter (fun a => negb (ing a group)) rest else rest, groups)
                  end
                else Ok (update, rest, groups ++ [group])
            end
        end
    end.

  Definition sel_true (gr : list G) : list G := filter (fun x => match sign x with Ok true => true | _ => false end) gr.
  Lemma filter_res_sel_true gr : (forall x, In x gr -> exists b, sign x = Ok b) -> filter_res sign gr = Ok (sel_true gr).
  Proof.
    induction gr as [|x gr IH]; intros H; cbn [filter_res sel_true filter]; [reflexivity|].
    destruct (H x (or_introl eq_refl)) as [b Hb]. rewrite Hb, IH by (intros y Hy; apply H; right; exact Hy). destruct b; reflexivity.
  Qed.
  Definition grp_ok (gr : list G) : Prop := even_len gr = true -> forall x, In x gr -> envok x = Ok true /\ exists b, sign x = Ok b.
  Definition contrib (gr : list G) : list Z := if even_len gr && proper_part (sel_true gr) gr then map uatom (sel_true gr) else [].
  Definition discards (gr : list G) : bool := even_len gr && (proper_part (sel_true gr) gr || always).

  Lemma zget_fold_upd s u k :
    zget (fold_left (fun u x => upd_set u (uatom x) (- lblm (uatom x))) s u) k = if zmem k (map uatom s) then Some (- lblm k) else zget u k.
  Proof.
    revert u. induction s as [|x s IH]; intros u; cbn [fold_left map]; [reflexivity|]. rewrite IH, zget_upd_set. unfold zmem. cbn [existsb].
    fold (zmem k (map uatom s)). destruct (zmem k (map uatom s)); [rewrite orb_true_r; reflexivity|]. rewrite orb_false_r.
    destruct (Z.eqb_spec k (uatom x)) as [->|]; reflexivity.
  Qed.

  Lemma gen_group_step u r gr : gr <> [] -> grp_ok gr ->
    exists u1, gen_group (Ok (u, r, [])) gr = Ok (u1, (if discards gr then filter (fun a => negb (ing a gr)) r else r), [])
               /\ forall k, zget u1 k = if zmem k (contrib gr) then Some (- lblm k) else zget u k.
  Proof.
    intros Hne Hok. unfold gen_group, contrib, discards, grp_ok in *. destruct (even_len gr) eqn:He; cbn [negb andb].
    2:{ exists u. split; reflexivity. }
    destruct gr as [|x0 gr0]; [contradiction Hne; reflexivity|]. specialize (Hok eq_refl).
    destruct (Hok x0 (or_introl eq_refl)) as [He0 _]. rewrite He0.
    rewrite (filter_res_sel_true (x0 :: gr0)) by (intros x Hx; apply (Hok x Hx)).
    destruct (proper_part (sel_true (x0 :: gr0)) (x0 :: gr0)); cbn [orb].
    - eexists. split; [reflexivity|]. intros k. apply zget_fold_upd.
    - exists u. split; reflexivity.
  Qed.

  Lemma fold_closed gsl : forall u r, (forall gr, In gr gsl -> gr <> [] /\ grp_ok gr) ->
    exists uf, fold_left gen_group gsl (Ok (u, r, [])) = Ok (uf, filter (fun a => negb (existsb (fun gr => discards gr && ing a gr) gsl)) r, [])
               /\ forall k, zget uf k = if existsb (fun gr => zmem k (contrib gr)) gsl then Some (- lblm k) else zget u k.
  Proof.
    induction gsl as [|gr gsl IH]; intros u r H; cbn [fold_left existsb].
    - exists u. split; [|reflexivity]. rewrite filter_all_true by reflexivity. reflexivity.
    - destruct (H gr (or_introl eq_refl)) as [Hne Hok]. destruct (gen_group_step u r gr Hne Hok) as [u1 [E1 Hz1]]. rewrite E1.
      destruct (IH u1 (if discards gr then filter (fun a => negb (ing a gr)) r else r)) as [uf [E2 Hz2]]; [intros g0 Hg0; apply H; right; exact Hg0|].
      exists uf. split.
      + rewrite E2. match goal with |- Ok (?a, ?x, ?c) = Ok (?a, ?y, ?c) => assert (x = y) as ->; [|reflexivity] end.
        destruct (discards gr); cbn [andb orb]; [|reflexivity]. rewrite filter_filter2. apply filter_ext. intros a.
        rewrite negb_orb. reflexivity.
      + intros k. rewrite Hz2, Hz1. destruct (existsb _ gsl); [rewrite orb_true_r; reflexivity|]. rewrite orb_false_r. reflexivity.
  Qed.

  (* invariance under reordering the members of a group *)
  Lemma sel_true_perm g1 g2 : Permutation g1 g2 -> Permutation (sel_true g1) (sel_true g2).
  Proof. apply perm_filter. Qed.
  Lemma proper_perm g1 g2 : Permutation g1 g2 -> proper_part (sel_true g1) g1 = proper_part (sel_true g2) g2.
  Proof. intros H. unfold proper_part. rewrite (Permutation_length H), (Permutation_length (sel_true_perm g1 g2 H)). reflexivity. Qed.
  Lemma contrib_perm k g1 g2 : Permutation g1 g2 -> zmem k (contrib g1) = zmem k (contrib g2).
  Proof.
    intros H. unfold contrib. rewrite (even_len_perm g1 g2 H), (proper_perm g1 g2 H). destruct (even_len g2 && _); [|reflexivity].
    apply zmem_perm. apply Permutation_map. apply sel_true_perm. exact H.
  Qed.
  Lemma discards_perm g1 g2 : Permutation g1 g2 -> discards g1 = discards g2.
  Proof. intros H. unfold discards. rewrite (even_len_perm g1 g2 H), (proper_perm g1 g2 H). reflexivity. Qed.

  (* the pass over the elements [l] grouped by [key] *)
  Variable key : G -> Z.
  Definition pass_ok (l : list G) : Prop :=
    forall x, In x l -> even_len (cls key (key x) l) = true -> envok x = Ok true /\ exists b, sign x = Ok b.
  Lemma pass_groups_ok l : pass_ok l -> forall gr, In gr (group_by key l) -> gr <> [] /\ grp_ok gr.
  Proof.
    intros H gr Hi. apply group_by_in in Hi. destruct Hi as [k [-> Hn]]. split; [exact Hn|]. intros He x Hx.
    unfold cls in Hx. apply filter_In in Hx. destruct Hx as [Hx Hk]. apply Z.eqb_eq in Hk. apply (H x Hx). rewrite Hk. exact He.
  Qed.
  Lemma pass_ok_perm l l' : Permutation l l' -> pass_ok l -> pass_ok l'.
  Proof.
    intros Hp H x Hx He. apply (H x (Permutation_in x (Permutation_sym Hp) Hx)).
    rewrite (even_len_perm _ _ (cls_perm key (key x) l l' Hp)). exact He.
  Qed.

  Theorem pass_sim l l' u u' (r r' : list A) :
    Permutation l l' -> pass_ok l -> Permutation r r' -> (forall k, zget u k = zget u' k) ->
    exists uf uf' rf rf',
      fold_left gen_group (group_by key l) (Ok (u, r, [])) = Ok (uf, rf, []) /\
      fold_left gen_group (group_by key l') (Ok (u', r', [])) = Ok (uf', rf', []) /\
      Permutation rf rf' /\ (forall k, zget uf k = zget uf' k) /\
      (forall k, zget uf k <> None -> zget u k <> None \/ exists x, In x l /\ k = uatom x).
  Proof.
    intros Hp Hok Hr Hu.
    destruct (fold_closed (group_by key l) u r (pass_groups_ok l Hok)) as [uf [E Hz]].
    destruct (fold_closed (group_by key l') u' r' (pass_groups_ok l' (pass_ok_perm l l' Hp Hok))) as [uf' [E' Hz']].
    exists uf, uf', (filter (fun a => negb (existsb (fun gr => discards gr && ing a gr) (group_by key l))) r),
                    (filter (fun a => negb (existsb (fun gr => discards gr && ing a gr) (group_by key l'))) r').
    split; [exact E|]. split; [exact E'|]. split; [|split].
    - rewrite (filter_ext _ (fun a => negb (existsb (fun gr => discards gr && ing a gr) (group_by key l')))).
      + apply perm_filter. exact Hr.
      + intros a. f_equal. apply existsb_group_by; [|exact Hp]. intros g1 g2 Hg. rewrite (discards_perm g1 g2 Hg), (ing_perm a g1 g2 Hg). reflexivity.
    - intros k. rewrite Hz, Hz', Hu. rewrite (existsb_group_by key (fun gr => zmem k (contrib gr)) l l'); [reflexivity | | exact Hp].
      intros g1 g2 Hg. apply contrib_perm. exact Hg.
    - intros k Hk. rewrite Hz in Hk. destruct (existsb _ (group_by key l)) eqn:Hex; [|left; exact Hk]. right.
      apply existsb_exists in Hex. destruct Hex as [gr [Hi Hm]]. unfold contrib in Hm. destruct (even_len gr && _); [|discriminate].
      unfold zmem in Hm. apply existsb_exists in Hm. destruct Hm as [a [Ha Hka]]. apply Z.eqb_eq in Hka. subst a.
      apply in_map_iff in Ha. destruct Ha as [x [Hx Hs]]. exists x. split; [|symmetry; exact Hx].
      apply group_by_in in Hi. destruct Hi as [k0 [-> _]]. unfold sel_true in Hs. apply filter_In in Hs. destruct Hs as [Hs _].
      unfold cls in Hs. apply filter_In in Hs. exact (proj1 Hs).
  Qed.
End GenPass.

Lemma fold_left_ext2 {S B} (f f' : S -> B -> S) (l : list B) (a : S) : (forall a b, f a b = f' a b) -> fold_left f l a = fold_left f' l a.
Proof. intros H. revert a. induction l as [|b l IH]; intros a; cbn [fold_left]; [reflexivity|]. rewrite H. apply IH. Qed.
Lemma if_fold {S B} (f : S -> list B -> S) (key : B -> Z) (l : list B) (st : S) :
  (if negb (Nat.eqb (List.length l) 0) then fold_left f (group_by key l) st else st) = fold_left f (group_by key l) st.
Proof. destruct l; reflexivity. Qed.
Lemma if_fold_map {S B C} (f : S -> list B -> S) (key : B -> Z) (fm : C -> B) (l : list C) (st : S) :
  (if negb (Nat.eqb (List.length l) 0) then fold_left f (group_by key (map fm l)) st else st) = fold_left f (group_by key (map fm l)) st.
Proof. destruct l; reflexivity. Qed.
Lemma merge_update_ext m u u' : (forall k, zget u k = zget u' k) -> (forall k, zget u k <> None -> zmem k (keys m) = true) ->
  merge_update m u = merge_update m u'.
Proof.
  intros H Hk. unfold merge_update. f_equal.
  - apply map_ext. intros kv. rewrite H. reflexivity.
  - rewrite !filter_all_false; [reflexivity | |].
    + intros [k v] Hi. cbn [fst]. rewrite (Hk k); [reflexivity|]. rewrite H. apply (zget_in_some u' k v Hi).
    + intros [k v] Hi. cbn [fst]. rewrite (Hk k); [reflexivity|]. apply (zget_in_some u k v Hi).
Qed.

Section Order.
  Variable h : list Z -> Z.
  Variable g : mol.
  Variable tabs : cmtabs.

  Definition th_envok (m : labels) (n0 : Z) : pyres bool :=
    match zget (c_tetra tabs) n0 with None => Err KeyError | Some env => Ok (Nat.eqb (List.length env) (n_classes m env)) end.
  Definition ct_envok (m : labels) (x0 : Z * (Z * Z)) : pyres bool :=
    match cpget (c_sct tabs) (snd x0) with None => Err KeyError | Some env => Ok (discrete_env m env) end.
  Definition al_envok (m : labels) (c0 : Z) : pyres bool :=
    match zget (c_allenes tabs) c0 with None => Err KeyError | Some env => Ok (discrete_env m env) end.
  Definition ct_ing (nm : Z * Z) (gr : list (Z * (Z * Z))) : bool := existsb (fun x => cpair_eqb nm (snd x)) gr.

  Lemma th_group_gen m st gr :
    th_group g tabs m st gr = gen_group (th_envok m) (th_sign g tabs m) (fun x => x) true zmem (lbl m) st gr.
  Proof.
    unfold th_group, gen_group, th_envok. destruct st as [[[u r] gs]|e]; [|reflexivity]. destruct (negb (even_len gr)); [reflexivity|].
    destruct gr as [|n0 gr0]; [reflexivity|]. destruct (zget (c_tetra tabs) n0); [|reflexivity]. destruct (Nat.eqb _ _); [|reflexivity].
    destruct (filter_res _ _); [|reflexivity]. rewrite orb_true_r. reflexivity.
  Qed.
  Lemma ct_group_gen m st gr :
    ct_group g tabs m st gr = gen_group (ct_envok m) (ct_sign g tabs m) fst false ct_ing (lbl m) st gr.
  Proof.
    unfold ct_group, gen_group, ct_envok, ct_ing. destruct st as [[[u r] gs]|e]; [|reflexivity]. destruct (negb (even_len gr)); [reflexivity|].
    destruct gr as [|n0 gr0]; [reflexivity|]. destruct (cpget (c_sct tabs) (snd n0)); [|reflexivity]. destruct (discrete_env _ _); [|reflexivity].
    destruct (filter_res _ _); [|reflexivity]. destruct (proper_part _ _); reflexivity.
  Qed.
  Lemma al_group_gen m st gr :
    al_group g tabs m st gr = gen_group (al_envok m) (al_sign g tabs m) (fun x => x) false zmem (lbl m) st gr.
  Proof.
    unfold al_group, gen_group, al_envok. destruct st as [[[u r] gs]|e]; [|reflexivity]. destruct (negb (even_len gr)); [reflexivity|].
    destruct gr as [|n0 gr0]; [reflexivity|]. destruct (zget (c_allenes tabs) n0); [|reflexivity]. destruct (discrete_env _ _); [|reflexivity].
    destruct (filter_res _ _); [|reflexivity]. destruct (proper_part _ _); reflexivity.
  Qed.
  Lemma zmem_ing_perm : forall (a : Z) (g1 g2 : list Z), Permutation g1 g2 -> zmem a g1 = zmem a g2.
  Proof. intros a g1 g2 H. apply zmem_perm. exact H. Qed.
  Lemma ct_ing_perm : forall (a : Z * Z) (g1 g2 : list (Z * (Z * Z))), Permutation g1 g2 -> ct_ing a g1 = ct_ing a g2.
  Proof. intros a g1 g2 H. apply existsb_perm. exact H. Qed.

  Definition keys_in (m : labels) (l : list Z) : Prop := forall x, In x l -> zmem x (keys m) = true.

  (* in every pass of the run on the given order: members of even groups have a discrete environment and a sign; the stereo
     elements are atoms of the label dict *)
  Fixpoint uniform_run (fuel : nat) (m : labels) (sa : list Z) (sct : list (Z * Z)) (sal : list Z) : Prop :=
    match fuel with
    | O => True
    | S f =>
        pass_ok (th_envok m) (th_sign g tabs m) (lbl m) sa /\
        pass_ok (ct_envok m) (ct_sign g tabs m) (fun x => lbl m (fst x)) (map (ct_key m) sct) /\
        pass_ok (al_envok m) (al_sign g tabs m) (lbl m) sal /\
        keys_in m sa /\ keys_in m (map fst sct) /\ keys_in m (map snd sct) /\ keys_in m sal /\
        forall u1 sa' u2 sct' u3 sal' m',
          fold_left (th_group g tabs m) (group_by (lbl m) sa) (Ok ([], sa, [])) = Ok (u1, sa', []) ->
          fold_left (ct_group g tabs m) (group_by (fun x => lbl m (fst x)) (map (ct_key m) sct)) (Ok (u1, sct, [])) = Ok (u2, sct', []) ->
          fold_left (al_group g tabs m) (group_by (lbl m) sal) (Ok (u2, sal, [])) = Ok (u3, sal', []) ->
          Morgan.morgan h (merge_update m u3) (int_adjacency g) = Ok m' ->
          uniform_run f m' sa' sct' sal'
    end.

  Definition dres_rel (r r' : pyres dres) : Prop :=
    match r, r' with
    | Err e, Err e' => e = e'
    | Ok d, Ok d' => d_morgan d = d_morgan d' /\ d_trace d = d_trace d' /\
                     d_ga d = [] /\ d_gct d = [] /\ d_gal d = [] /\ d_ga d' = [] /\ d_gct d' = [] /\ d_gal d' = []
    | _, _ => False
    end.

  Lemma diff_sim fuel : forall m sa sct sal sa2 sct2 sal2 tr,
    Permutation sa sa2 -> Permutation sct sct2 -> Permutation sal sal2 -> uniform_run fuel m sa sct sal ->
    dres_rel (differentiation h g tabs fuel m sa sct sal tr) (differentiation h g tabs fuel m sa2 sct2 sal2 tr).
  Proof.
    induction fuel as [|f IH]; intros m sa sct sal sa2 sct2 sal2 tr Hsa Hsct Hsal Hu; [reflexivity|].
    destruct Hu as (P1 & P2 & P3 & K1 & K2 & K3 & K4 & Hnext).
    cbn [differentiation]. rewrite !if_fold.
    destruct (pass_sim (th_envok m) (th_sign g tabs m) (fun x => x) true zmem (lbl m) zmem_ing_perm (lbl m) sa sa2 [] [] sa sa2 Hsa P1 Hsa
                (fun _ => eq_refl)) as (u1 & u1' & r1 & r1' & E1 & E1' & Hr1 & Hz1 & Hk1).
    rewrite <- (fold_left_ext2 _ _ _ _ (th_group_gen m)) in E1. rewrite <- (fold_left_ext2 _ _ _ _ (th_group_gen m)) in E1'. rewrite E1, E1'. cbv beta iota. rewrite !if_fold_map.
    destruct (pass_sim (ct_envok m) (ct_sign g tabs m) fst false ct_ing (lbl m) ct_ing_perm (fun x => lbl m (fst x))
                (map (ct_key m) sct) (map (ct_key m) sct2) u1 u1' sct sct2 (Permutation_map _ Hsct) P2 Hsct Hz1)
      as (u2 & u2' & r2 & r2' & E2 & E2' & Hr2 & Hz2 & Hk2).
    rewrite <- (fold_left_ext2 _ _ _ _ (ct_group_gen m)) in E2. rewrite <- (fold_left_ext2 _ _ _ _ (ct_group_gen m)) in E2'. unfold pstate, labels in *. rewrite E2, E2'. cbv beta iota. rewrite !if_fold.
    destruct (pass_sim (al_envok m) (al_sign g tabs m) (fun x => x) false zmem (lbl m) zmem_ing_perm (lbl m) sal sal2 u2 u2' sal sal2 Hsal P3 Hsal Hz2)
      as (u3 & u3' & r3 & r3' & E3 & E3' & Hr3 & Hz3 & Hk3).
    rewrite <- (fold_left_ext2 _ _ _ _ (al_group_gen m)) in E3. rewrite <- (fold_left_ext2 _ _ _ _ (al_group_gen m)) in E3'. unfold pstate, labels in *. rewrite E3, E3'. cbv beta iota.
    destruct u3 as [|p3 u3r] eqn:Hu3.
    - rewrite (zget_ext_nil [] u3' Hz3 eq_refl). cbn. repeat split; reflexivity.
    - destruct u3' as [|p3' u3r'] eqn:Hu3'.
      { assert (p3 :: u3r = []) as Hx by (apply (zget_ext_nil [] (p3 :: u3r)); [intros k; symmetry; apply Hz3 | reflexivity]). discriminate. }
      rewrite <- Hu3, <- Hu3' in *.
      assert (forall k, zget u3 k <> None -> zmem k (keys m) = true) as Hkeys.
      { intros k Hk. destruct (Hk3 k Hk) as [Hk'|[x [Hx ->]]]; [|apply K4; exact Hx].
        destruct (Hk2 k Hk') as [Hk''|[x [Hx ->]]].
        - destruct (Hk1 k Hk'') as [Hn|[x [Hx ->]]]; [contradiction Hn; reflexivity | apply K1; exact Hx].
        - apply in_map_iff in Hx. destruct Hx as [nm [<- Hnm]]. unfold ct_key. destruct (_ <=? _); cbn [fst].
          + apply K2. apply in_map. exact Hnm.
          + apply K3. apply in_map. exact Hnm. }
      rewrite <- (merge_update_ext m u3 u3' Hz3 Hkeys).
      destruct (Morgan.morgan h (merge_update m u3) (int_adjacency g)) as [m'|e] eqn:Hm; [|reflexivity].
      apply IH; try assumption. apply (Hnext u1 r1 u2 r2 u3 r3 m' E1 E2 E3 Hm).
  Qed.

  Lemma chiral_loop_sim F dfuel m sa sct sal sa2 sct2 sal2 tr :
    Permutation sa sa2 -> Permutation sct sct2 -> Permutation sal sal2 -> uniform_run dfuel m sa sct sal ->
    chiral_loop h g tabs F dfuel m sa2 sct2 sal2 tr = chiral_loop h g tabs F dfuel m sa sct sal tr.
  Proof.
    intros Hsa Hsct Hsal Hu. destruct F as [|F]; [reflexivity|]. cbn [chiral_loop].
    pose proof (diff_sim dfuel m sa sct sal sa2 sct2 sal2 tr Hsa Hsct Hsal Hu) as Hd. unfold dres_rel in Hd.
    destruct (differentiation h g tabs dfuel m sa sct sal tr) as [d|e], (differentiation h g tabs dfuel m sa2 sct2 sal2 tr) as [d'|e'];
      try contradiction; [|rewrite Hd; reflexivity].
    destruct Hd as (E1 & E2 & G1 & G2 & G3 & G4 & G5 & G6). rewrite G1, G2, G3, G4, G5, G6, E1, E2. reflexivity.
  Qed.

  (* THE THEOREM: any other iteration orders of the three sets give the same weights and the same trace *)
  Theorem chiral_morgan_order_independent ao ord ord2 :
    Permutation (o_atoms ord) (o_atoms ord2) -> Permutation (o_ct ord) (o_ct ord2) -> Permutation (o_al ord) (o_al ord2) ->
    uniform_run (diff_fuel ord) ao (o_atoms ord) (o_ct ord) (o_al ord) ->
    chiral_morgan h g tabs ao ord2 = chiral_morgan h g tabs ao ord.
  Proof.
    intros H1 H2 H3 Hu. unfold chiral_morgan. destruct (negb (has_stereo_labels g)); [reflexivity|].
    assert (diff_fuel ord2 = diff_fuel ord) as -> by (unfold diff_fuel; rewrite (Permutation_length H1), (Permutation_length H2), (Permutation_length H3); reflexivity).
    apply chiral_loop_sim; assumption.
  Qed.

  (* the hypothesis as a computation *)
  Definition pass_ok_b {G0 : Type} (envok sign : G0 -> pyres bool) (key : G0 -> Z) (l : list G0) : bool :=
    forallb (fun x => if even_len (cls key (key x) l)
                      then match envok x with Ok true => match sign x with Ok _ => true | Err _ => false end | _ => false end
                      else true) l.
  Lemma pass_ok_b_sound {G0 : Type} (envok sign : G0 -> pyres bool) key l : pass_ok_b envok sign key l = true -> pass_ok envok sign key l.
  Proof.
    intros H x Hx He. unfold pass_ok_b in H. rewrite forallb_forall in H. specialize (H x Hx). rewrite He in H.
    destruct (envok x) as [[|]|]; try discriminate. split; [reflexivity|]. destruct (sign x) as [b|]; [exists b; reflexivity | discriminate].
  Qed.
  Definition keys_in_b (m : labels) (l : list Z) : bool := forallb (fun x => zmem x (keys m)) l.
  Lemma keys_in_b_sound m l : keys_in_b m l = true -> keys_in m l.
  Proof. intros H x Hx. unfold keys_in_b in H. rewrite forallb_forall in H. apply H. exact Hx. Qed.

  Fixpoint uniform_run_b (fuel : nat) (m : labels) (sa : list Z) (sct : list (Z * Z)) (sal : list Z) : bool :=
    match fuel with
    | O => true
    | S f =>
        pass_ok_b (th_envok m) (th_sign g tabs m) (lbl m) sa &&
        pass_ok_b (ct_envok m) (ct_sign g tabs m) (fun x => lbl m (fst x)) (map (ct_key m) sct) &&
        pass_ok_b (al_envok m) (al_sign g tabs m) (lbl m) sal &&
        keys_in_b m sa && keys_in_b m (map fst sct) && keys_in_b m (map snd sct) && keys_in_b m sal &&
        match fold_left (th_group g tabs m) (group_by (lbl m) sa) (Ok ([], sa, [])) with
        | Ok (u1, sa', _) =>
            match fold_left (ct_group g tabs m) (group_by (fun x => lbl m (fst x)) (map (ct_key m) sct)) (Ok (u1, sct, [])) with
            | Ok (u2, sct', _) =>
                match fold_left (al_group g tabs m) (group_by (lbl m) sal) (Ok (u2, sal, [])) with
                | Ok (u3, sal', _) =>
                    match Morgan.morgan h (merge_update m u3) (int_adjacency g) with
                    | Ok m' => uniform_run_b f m' sa' sct' sal'
                    | Err _ => true
                    end
                | Err _ => true
                end
            | Err _ => true
            end
        | Err _ => true
        end
    end.
  Lemma uniform_run_b_sound fuel : forall m sa sct sal, uniform_run_b fuel m sa sct sal = true -> uniform_run fuel m sa sct sal.
  Proof.
    induction fuel as [|f IH]; intros m sa sct sal H; [exact I|]. cbn [uniform_run_b] in H.
    repeat (apply andb_prop in H; let H' := fresh "B" in destruct H as [H H']).
    cbn [uniform_run]. do 3 (split; [apply pass_ok_b_sound; assumption|]). do 4 (split; [apply keys_in_b_sound; assumption|]).
    intros u1 sa' u2 sct' u3 sal' m' E1 E2 E3 Em. unfold pstate, labels in *. rewrite E1 in B. rewrite E2 in B. rewrite E3 in B.
    rewrite Em in B. apply IH. exact B.
  Qed.

  Corollary chiral_morgan_order_independent_b ao ord ord2 :
    Permutation (o_atoms ord) (o_atoms ord2) -> Permutation (o_ct ord) (o_ct ord2) -> Permutation (o_al ord) (o_al ord2) ->
    uniform_run_b (diff_fuel ord) ao (o_atoms ord) (o_ct ord) (o_al ord) = true ->
    chiral_morgan h g tabs ao ord2 = chiral_morgan h g tabs ao ord.
  Proof. intros H1 H2 H3 Hu. apply chiral_morgan_order_independent; try assumption. apply uniform_run_b_sound. exact Hu. Qed.
End Order.

(* renumbering + ANY iteration orders of the three sets: the weights of the renumbered molecule are the renumbered weights *)
Theorem chiral_weights_renumbering_any_order (h : list Z -> Z) (g : mol) (s : Z -> Z) (tabs : cmtabs) (ord ord2 : cmorders) (ao : labels) :
  (forall x y, s x = s y -> x = y) ->
  uniform_run_b h g tabs (diff_fuel ord) ao (o_atoms ord) (o_ct ord) (o_al ord) = true ->
  Permutation (map s (o_atoms ord)) (o_atoms ord2) -> Permutation (map (ren_pairv s) (o_ct ord)) (o_ct ord2) ->
  Permutation (map s (o_al ord)) (o_al ord2) ->
  chiral_morgan h (ren_mol s g) (ren_cmtabs s tabs) (ren_labels s ao) ord2 = ren_cmres s (chiral_morgan h g tabs ao ord).
Proof.
  intros Hs Hu H1 H2 H3.
  destruct (Permutation_map_inv _ _ (Permutation_sym H1)) as [l1 [E1 P1]].
  destruct (Permutation_map_inv _ _ (Permutation_sym H2)) as [l2 [E2 P2]].
  destruct (Permutation_map_inv _ _ (Permutation_sym H3)) as [l3 [E3 P3]].
  assert (ord2 = ren_cmorders s (mkCmo l1 l2 l3)) as -> by (destruct ord2; cbn in *; subst; reflexivity).
  rewrite (chiral_morgan_ren h s Hs g tabs ao (mkCmo l1 l2 l3)). f_equal.
  apply chiral_morgan_order_independent_b; cbn [o_atoms o_ct o_al]; assumption.
Qed.

(* END TO END for molecules whose classes become discrete through the stereo refinement: g renumbered by s (registries renamed,
   iteration orders of the stereo sets ARBITRARY), the run on g is uniform, the final classes are discrete *)
Theorem canonical_string_renumbering_uniform (h : list Z -> Z) (ring ring' : Z -> bool) (g : mol) (s tb tb' : Z -> Z) (o : opts)
  (tabs : stabs) (ctabs : cmtabs) (ord ord2 : cmorders) (ao W : labels) (tr : list labels) :
  wf_mol g = true -> (forall x y, s x = s y -> x = y) -> s 0 = 0 -> (forall n, In n (ids g) -> ring' (s n) = ring n) -> o_mapping o = false ->
  atoms_order h ring g = Ok ao ->
  uniform_run_b h g ctabs (diff_fuel ord) ao (o_atoms ord) (o_ct ord) (o_al ord) = true ->
  chiral_morgan h g ctabs ao ord = Ok (W, tr) -> inj_on (ids g) (lbl W) ->
  Permutation (map s (o_atoms ord)) (o_atoms ord2) -> Permutation (map (ren_pairv s) (o_ct ord)) (o_ct ord2) ->
  Permutation (map s (o_al ord)) (o_al ord2) ->
  atoms_order h ring' (ren_mol s g) = Ok (ren_labels s ao) /\
  chiral_morgan h (ren_mol s g) (ren_cmtabs s ctabs) (ren_labels s ao) ord2 = Ok (ren_labels s W, map (ren_labels s) tr) /\
  smiles_text (ren_mol s g) (lbl (ren_labels s W)) tb' o (ren_tabs s tabs) = map_order s (smiles_text g (lbl W) tb o tabs).
Proof.
  intros Hwf Hs H0 Hr Hmp Hao Hu Hcm Hinj H1 H2 H3.
  split; [apply (chiral_weights_equivariant h ring ring' g s ctabs ord ao Hwf Hs Hr Hao)|].
  split; [rewrite (chiral_weights_renumbering_any_order h g s ctabs ord ord2 ao Hs Hu H1 H2 H3), Hcm; reflexivity|].
  apply smiles_invariant_discrete_remap; try assumption.
  intros n Hn. apply (lbl_ren s W n (n :: keys W)); [intros x y _ _; apply Hs | intros x Hx; right; exact Hx | left; reflexivity].
Qed.

(* non-vacuity: the meso-like diol of ChiralMorganProofs: one refinement pass really happens, the run is uniform, and the other
   iteration order of the set of stereo atoms gives the same result *)
Theorem chiral_order_example :
  uniform_run_b hash_ztuple exc_g exc_tabs (diff_fuel exc_ord) exc_ao (o_atoms exc_ord) (o_ct exc_ord) (o_al exc_ord) = true /\
  chiral_morgan hash_ztuple exc_g exc_tabs exc_ao (mkCmo [4; 2] [] []) = chiral_morgan hash_ztuple exc_g exc_tabs exc_ao exc_ord /\
  exists W tr, chiral_morgan hash_ztuple exc_g exc_tabs exc_ao exc_ord = Ok (W, tr) /\ tr <> [] /\ NoDup (map snd W).
Proof.
  assert (uniform_run_b hash_ztuple exc_g exc_tabs (diff_fuel exc_ord) exc_ao (o_atoms exc_ord) (o_ct exc_ord) (o_al exc_ord) = true) as Hu
    by (vm_compute; reflexivity).
  split; [exact Hu|]. split.
  - apply chiral_morgan_order_independent_b; [cbn; apply perm_swap | apply Permutation_refl | apply Permutation_refl | exact Hu].
  - destruct chiral_morgan_example as (_ & _ & _ & E & _). rewrite E. eexists. eexists. split; [reflexivity|]. split; [discriminate|].
    cbn. repeat constructor; cbn; intuition discriminate.
Qed.

(* == and hash of such a molecule and its renumbered copy, the weights being what the chiral-Morgan model computes on each side *)
Theorem canonical_eq_hash_renumbering_uniform (h : list Z -> Z) (str_hash : string -> Z) (ring ring' : Z -> bool) (g : mol) (s tb tb' : Z -> Z)
  (o : opts) (tabs : stabs) (ctabs : cmtabs) (ord ord2 : cmorders) (ao W : labels) (tr : list labels) :
  wf_mol g = true -> (forall x y, s x = s y -> x = y) -> s 0 = 0 -> (forall n, In n (ids g) -> ring' (s n) = ring n) -> o_mapping o = false ->
  atoms_order h ring g = Ok ao ->
  uniform_run_b h g ctabs (diff_fuel ord) ao (o_atoms ord) (o_ct ord) (o_al ord) = true ->
  chiral_morgan h g ctabs ao ord = Ok (W, tr) -> inj_on (ids g) (lbl W) ->
  Permutation (map s (o_atoms ord)) (o_atoms ord2) -> Permutation (map (ren_pairv s) (o_ct ord)) (o_ct ord2) ->
  Permutation (map s (o_al ord)) (o_al ord2) ->
  exists W', chiral_morgan h (ren_mol s g) (ren_cmtabs s ctabs) (ren_labels s ao) ord2 = Ok (W', map (ren_labels s) tr) /\
    let d := mkDesc g (lbl W) tb tabs in let d' := mkDesc (ren_mol s g) (lbl W') tb' (ren_tabs s tabs) in
    mol_eq (canon_of o) d' d = true /\ mol_hash (canon_of o) str_hash d' = mol_hash (canon_of o) str_hash d.
Proof.
  intros Hwf Hs H0 Hr Hmp Hao Hu Hcm Hinj H1 H2 H3.
  destruct (canonical_string_renumbering_uniform h ring ring' g s tb tb' o tabs ctabs ord ord2 ao W tr Hwf Hs H0 Hr Hmp Hao Hu Hcm Hinj H1 H2 H3)
    as (_ & E2 & E3).
  exists (ren_labels s W). split; [exact E2|]. intros d d'.
  assert (canon_of o d' = canon_of o d) as E by (apply (canon_of_map_order o d d' s); exact E3).
  unfold mol_eq, mol_hash. rewrite E. split; [apply String.eqb_refl | reflexivity].
Qed.
