(* C01, extension: the stereo-free canonical string under ANY renumbering and ANY insertion order, for molecules with any
   number of components (the BFS of every later component starts on the labels of the earlier ones). *)
From Coq Require Import ZArith List String Bool Lia Permutation.
From Model Require Import PyBase PyHash Graph Morgan Writer.
From Proofs Require Import MorganProofs WriterInvProofs BfsExt BfsExt2 TraverseOrderExt InsertionOrderExt.
Import ListNotations.
Open Scope Z_scope.

Lemma nbr_sym_wf g n m : wf_mol g = true -> In m (nbr_ids g n) -> In n (nbr_ids g m).
Proof.
  intros Hwf Hm. unfold nbr_ids, nbrs in Hm. destruct (zget (m_adj g) n) as [row|] eqn:E; [|destruct Hm].
  unfold keys in Hm. apply in_map_iff in Hm. destruct Hm as [[m' b] [<- Hmb]]. cbn [fst].
  unfold wf_mol in Hwf. apply andb_prop in Hwf. destruct Hwf as [_ H3]. rewrite forallb_forall in H3.
  specialize (H3 _ (zget_Some_In _ _ _ E)). cbn [fst snd] in H3. apply andb_prop in H3. destruct H3 as [_ H3].
  rewrite forallb_forall in H3. specialize (H3 _ Hmb). cbn [fst snd] in H3. apply andb_prop in H3. destruct H3 as [_ H3].
  unfold bond_of in H3. destruct (zget (nbrs g m') n) as [b'|] eqn:E2; [|discriminate].
  unfold nbr_ids, keys. change n with (fst (n, b')). apply in_map. apply zget_Some_In. exact E2.
Qed.

Section MultiComponent.
  Variable g g' : mol.
  Variable s w w' tb tb' : Z -> Z.
  Variable o : opts.
  Variable tabs tabs' : stabs.
  Hypothesis Hwf : wf_mol g = true.
  Hypothesis Hwf' : wf_mol g' = true.
  Hypothesis s_inj : forall x y, s x = s y -> x = y.
  Hypothesis Hp : mol_perm (ren_mol s g) g'.
  Hypothesis w_inj : inj_on (ids g) w.
  Hypothesis w_ren : forall n, In n (ids g) -> w' (s n) = w n.
  Hypothesis Hst : o_stereo o = false.
  Hypothesis Hmp : o_mapping o = false.

  (* labels of the two sides: the renamed labels of g and the labels of g' agree on every atom number *)
  Definition seen_rel (a b : list (Z * Z)) : Prop := forall y, zget (ren_labels s a) y = zget b y.

  Lemma closed_ren S : closed_under g S -> closed_under (ren_mol s g) (ren_labels s S).
  Proof.
    intros Hc y Hy. rewrite keys_ren_labels in *. apply in_map_iff in Hy. destruct Hy as [x [<- Hx]].
    rewrite (nbr_ids_renG s s_inj). intros z Hz. apply in_map_iff in Hz. destruct Hz as [z0 [<- Hz0]]. apply in_map. apply (Hc x Hx). exact Hz0.
  Qed.

  Lemma sym_ren n m : In m (nbr_ids (ren_mol s g) n) -> In n (nbr_ids (ren_mol s g) m).
  Proof.
    intros Hm. destruct (nbr_ids_ren_any s g n) as [[n0 ->]|E]; [|rewrite E in Hm; destruct Hm].
    rewrite (nbr_ids_renG s s_inj) in Hm. apply in_map_iff in Hm. destruct Hm as [m0 [<- Hm0]].
    rewrite (nbr_ids_renG s s_inj). apply in_map. apply nbr_sym_wf; assumption.
  Qed.

  (* the BFS labels after the next component *)
  Lemma seen_next start Sa Sb : In start (ids g) -> closed_under g Sa -> closed_under g' Sb -> seen_rel Sa Sb ->
    seen_rel (bfs g (S (n_atoms g)) [(start, 1)] (zset Sa start 0)) (bfs g' (S (n_atoms g')) [(s start, 1)] (zset Sb (s start) 0)) /\
    closed_under g (bfs g (S (n_atoms g)) [(start, 1)] (zset Sa start 0)) /\
    closed_under g' (bfs g' (S (n_atoms g')) [(s start, 1)] (zset Sb (s start) 0)).
  Proof.
    intros Hs Ca Cb Hrel.
    assert (In (s start) (ids (ren_mol s g))) as Hs1 by (rewrite ids_ren_mol; apply in_map; exact Hs).
    assert (In (s start) (ids g')) as Hs2 by (eapply Permutation_in; [apply (ids_perm_g' g g' s Hp) | apply in_map; exact Hs]).
    assert (forall y x, In x (nbr_ids (ren_mol s g) y) <-> In x (nbr_ids g' y)) as Hnb.
    { intros y z. split; intros H; (eapply Permutation_in; [|exact H]); [|apply Permutation_sym];
        apply nbr_ids_adj_perm; try (apply keys_adj_ren_nodup; assumption); apply Hp. }
    split; [|split].
    - intros y.
      assert (ren_labels s (bfs g (S (n_atoms g)) [(start, 1)] (zset Sa start 0)) =
              bfs (ren_mol s g) (S (List.length (ids (ren_mol s g)))) [(s start, 1)] (zset (ren_labels s Sa) (s start) 0)) as ->.
      { rewrite ids_ren_mol, map_length. unfold ren_labels at 2. rewrite (zset_renG s s_inj). fold (ren_labels s (zset Sa start 0)).
        change [(s start, 1)] with (ren_labels s [(start, 1)]). rewrite (bfs_ren s s_inj). reflexivity. }
      apply (next_component_pointwise (ren_mol s g) g' (s start) (ren_labels s Sa) Sb
               (nbr_ids_ren_incl s s_inj g Hwf) (nbr_ids_ren_nodup s s_inj g Hwf) sym_ren
               (nbr_ids_incl g' Hwf') (fun n => nbr_ids_nodup_wf g' n Hwf') (fun n m => nbr_sym_wf g' n m Hwf')
               Hs1 Hs2 Hnb (closed_ren Sa Ca) Cb Hrel).
    - apply (next_component_closed g start Sa (nbr_ids_incl g Hwf) (fun n => nbr_ids_nodup_wf g n Hwf) (fun n m => nbr_sym_wf g n m Hwf) Hs Ca).
    - apply (next_component_closed g' (s start) Sb (nbr_ids_incl g' Hwf') (fun n => nbr_ids_nodup_wf g' n Hwf') (fun n m => nbr_sym_wf g' n m Hwf') Hs2 Cb).
  Qed.

  Definition trav_rel2 (r r' : pyres traversal) : Prop :=
    match r, r' with
    | Ok t, Ok t' => tr_start t' = s (tr_start t) /\ tr_dfs t' = ren_dfs s (tr_dfs t) /\ seen_rel (tr_seen t) (tr_seen t') /\
                     closed_under g (tr_seen t) /\ closed_under g' (tr_seen t')
    | Err e, Err e' => e = e'
    | _, _ => False
    end.

  Theorem traverse_perm st st' :
    incl (ws_atoms st) (ids g) -> Permutation (map s (ws_atoms st)) (ws_atoms st') -> ws_cycle st' = ws_cycle st ->
    seen_rel (ws_seen st) (ws_seen st') -> closed_under g (ws_seen st) -> closed_under g' (ws_seen st') ->
    trav_rel2 (traverse g w tb o (ids g) st) (traverse g' w' tb' o (ids g') st').
  Proof.
    intros Hi Hpa Hcyc Hrel Ca Cb. unfold traverse.
    assert (min_by (key_start w' tb' o (ids g')) (ws_atoms st') = option_map s (min_by (key_start w tb o (ids g)) (ws_atoms st))) as ->.
    { unfold min_by at 1.
      rewrite (sort_by_key_eq (key_start w' tb' o (ids g')) (key_start w' tb' o (map s (ids g))))
        by (intros x; apply key_start_perm; apply Permutation_sym; exact (ids_perm_g' g g' s Hp)).
      fold (min_by (key_start w' tb' o (map s (ids g))) (ws_atoms st')).
      apply (start_atom_equivariant w w' o (ids g) s w_inj w_ren tb tb' (ws_atoms st) (ws_atoms st') Hi Hpa). }
    destruct (min_by (key_start w tb o (ids g)) (ws_atoms st)) as [start|] eqn:Es; cbn [option_map trav_rel2]; [|reflexivity].
    assert (In start (ids g)) as Hstart by (apply Hi; eapply min_by_In; exact Es).
    set (seen := if o_random o then ws_seen st else bfs g (S (n_atoms g)) [(start, 1)] (zset (ws_seen st) start 0)).
    set (seen' := if o_random o then ws_seen st' else bfs g' (S (n_atoms g')) [(s start, 1)] (zset (ws_seen st') (s start) 0)).
    assert (seen_rel seen seen' /\ closed_under g seen /\ closed_under g' seen') as [Hsr [Cs Cs']].
    { unfold seen, seen'. destruct (o_random o); [split; [exact Hrel | split; assumption] | apply seen_next; assumption]. }
    assert (forall x, zget seen' (s x) = zget seen x) as Hseen by (intros x; rewrite <- Hsr; apply (seen_ren s s_inj)).
    assert (forall p l l', incl l (ids g) -> Permutation (map s l) l' ->
              sort_by (key_child_at g' w' tb' o (ids g') seen' (s p)) l' = map s (sort_by (key_child_at g w tb o (ids g) seen p) l)) as Hsort.
    { intros p l l' Hl Hpl.
      rewrite (sort_by_key_eq (key_child_at g' w' tb' o (ids g') seen' (s p)) (key_child_at g' w' tb' o (map s (ids g)) seen' (s p)))
        by (intros x; apply key_child_at_perm; apply Permutation_sym; exact (ids_perm_g' g g' s Hp)).
      apply (children_at_order_equivariant w w' o (ids g) s w_inj w_ren g g' p (s p) tb tb' seen seen' l l' Hl Hpl).
      intros n _. apply Hseen. }
    assert (Z.of_nat (List.length (ws_atoms st')) = Z.of_nat (List.length (ws_atoms st))) as ->.
    { f_equal. rewrite <- (Permutation_length Hpa). apply map_length. }
    rewrite (Hsort start _ _ (nbr_ids_incl g Hwf start) (nbr_perm_g' g g' s Hwf s_inj Hp start)), Hcyc, (dfs_fuel_g' g g' s Hp).
    pose proof (dfs_perm s s_inj g g' (ids g) (key_child_at g w tb o (ids g) seen) (key_child_at g' w' tb' o (ids g') seen')
                         (nbr_ids_incl g Hwf) (nbr_perm_g' g g' s Hwf s_inj Hp) Hsort (dfs_fuel g)
                         (mkDfs [(start, Z.of_nat (List.length (ws_atoms st)), sort_by (key_child_at g w tb o (ids g) seen start) (nbr_ids g start))]
                                [(start, [])] [] [] [] (ws_cycle st))) as Hd.
    unfold ren_dfs at 1 in Hd. cbn [ds_stack ds_visited ds_disc ds_edges ds_tokens ds_cycle ren_stack ren_vis ren_pairs ren_tokens map fst snd] in Hd.
    rewrite Hd.
    destruct (iter_opt (dfs_fuel g) (dfs_step g (key_child_at g w tb o (ids g) seen)) _) as [d|]; cbn [option_map trav_rel2 tr_start tr_dfs tr_seen].
    - repeat split; assumption || reflexivity.
    - reflexivity.
  Qed.
  Definition wstate_relp (a b : wstate) : Prop :=
    wstate_rel0 s a b /\ seen_rel (ws_seen a) (ws_seen b) /\ closed_under g (ws_seen a) /\ closed_under g' (ws_seen b).
  Definition wres_relp (a b : pyres wstate) : Prop :=
    match a, b with Ok x, Ok y => wstate_relp x y | Err e, Err e' => e = e' | _, _ => False end.

  Theorem component_perm st st' : incl (ws_atoms st) (ids g) -> wstate_relp st st' ->
    wres_relp (component g w tb o tabs (ids g) st) (component g' w' tb' o tabs' (ids g') st').
  Proof.
    intros Hi [[Hpa [Hcy [Hca [Hhe [Hout [Hord Hvb]]]]]] [Hrel [Ca Cb]]]. unfold component.
    pose proof (traverse_perm st st' Hi Hpa Hcy Hrel Ca Cb) as Ht.
    destruct (traverse g w tb o (ids g) st) as [t|e]; destruct (traverse g' w' tb' o (ids g') st') as [t'|e'];
      cbn [trav_rel2] in Ht; try contradiction; [|subst e'; reflexivity].
    destruct Ht as [H1 [H2 [H3 [H4 H5]]]].
    assert (flatten g' t' = ren_toks s (flatten g t)) as ->.
    { unfold flatten, fl_fuel. rewrite (n_atoms_g' g g' s Hp), H1, H2. unfold ren_dfs. cbn [ds_edges].
      apply (fl_run_ren s s_inj _ (ds_edges (tr_dfs t)) [(tr_start t, 0, [TAtom (tr_start t)])]). }
    destruct (flatten g t) as [smi|e]; cbn [ren_toks wres_relp]; [|reflexivity].
    rewrite H2. unfold ren_dfs. cbn [ds_tokens ds_edges ds_visited ds_cycle].
    rewrite (ring_positions_ren s s_inj), Hca, Hhe, (number_atoms_ren s s_inj).
    destruct (number_atoms (ds_tokens (tr_dfs t)) _ _ (ws_casted st) (ws_heap st)) as [[casted heap]|e]; cbn [wres_relp]; [|reflexivity].
    rewrite (order_neighbours_ren s s_inj).
    destruct (order_neighbours smi casted (ds_edges (tr_dfs t)) (ds_tokens (tr_dfs t)) (ds_visited (tr_dfs t))) as [tokens visited] eqn:E.
    cbn [fst snd]. rewrite Hvb.
    rewrite (emit_ren s s_inj o (format_bond g o (ct_map g tabs visited)) (format_bond g' o (ct_map g' tabs' (ren_vis s visited)))
                      (fun n => format_atom g o tabs n visited) (fun n => format_atom g' o tabs' n (ren_vis s visited)))
      by (intros; first [apply (format_atom_perm g g' s o Hwf s_inj Hp Hst Hmp) | apply (format_bond_perm g g' s o Hwf s_inj Hp Hst)]).
    destruct (emit o _ _ smi tokens casted (ws_vb st)) as [[[out ord] vb]|e]; cbn [ren_emit wres_relp]; [|reflexivity].
    assert (Permutation (map s (filter (fun n => negb (zhas visited n)) (ws_atoms st)))
                        (filter (fun n => negb (zhas (ren_vis s visited) n)) (ws_atoms st'))) as Hrest.
    { rewrite <- (filter_not_visited s s_inj). apply filter_perm. exact Hpa. }
    unfold wstate_relp, wstate_rel0. cbn [ws_atoms ws_seen ws_cycle ws_casted ws_heap ws_out ws_order ws_vb].
    repeat split; try reflexivity; try assumption.
    - rewrite Hout, !map_app. f_equal. f_equal.
      destruct (filter (fun n => negb (zhas visited n)) (ws_atoms st)) as [|r0 rr];
        destruct (filter (fun n => negb (zhas (ren_vis s visited) n)) (ws_atoms st')) as [|q0 qq]; try reflexivity.
      + apply Permutation_nil in Hrest. discriminate.
      + apply Permutation_sym, Permutation_nil in Hrest. discriminate.
    - rewrite Hord, map_app. reflexivity.
  Qed.

  Lemma component_atoms_incl' st st2 : component g w tb o tabs (ids g) st = Ok st2 -> incl (ws_atoms st2) (ws_atoms st).
  Proof.
    unfold component. destruct (traverse g w tb o (ids g) st) as [t|]; [|discriminate].
    destruct (flatten g t) as [smi|]; [|discriminate].
    destruct (number_atoms _ _ _ _ _) as [[casted heap]|]; [|discriminate].
    destruct (order_neighbours _ _ _ _ _) as [tokens visited].
    destruct (emit _ _ _ _ _ _ _) as [[[out ord] vb]|]; [|discriminate].
    intros [= <-]. cbn [ws_atoms]. intros x Hx. apply filter_In in Hx. apply Hx.
  Qed.

  Lemma components_perm fuel : forall st st', incl (ws_atoms st) (ids g) -> wstate_relp st st' ->
    wres_relp (components g w tb o tabs fuel (ids g) st) (components g' w' tb' o tabs' fuel (ids g') st').
  Proof.
    induction fuel as [|fuel IH]; intros st st' Hi Hrel; cbn [components]; [reflexivity|].
    pose proof (component_perm st st' Hi Hrel) as Hc.
    destruct (component g w tb o tabs (ids g) st) as [a|e] eqn:Ea;
      destruct (component g' w' tb' o tabs' (ids g') st') as [b|e'] eqn:Eb; cbn [wres_relp] in Hc; try contradiction.
    - pose proof Hc as [[Hpa _] _].
      destruct (ws_atoms a) as [|a0 ar] eqn:Eaa; destruct (ws_atoms b) as [|b0 br] eqn:Ebb.
      + exact Hc.
      + apply Permutation_nil in Hpa. discriminate.
      + apply Permutation_sym, Permutation_nil in Hpa. discriminate.
      + apply IH; [|exact Hc]. intros x Hx. apply Hi. apply (component_atoms_incl' st a Ea). exact Hx.
    - exact Hc.
  Qed.

  (* DESIGN appendix A smiles_invariant_discrete for every option set without stereo marks and atom-map numbers: g' is g
     renumbered by s and re-inserted in any order; any number of components *)
  Theorem smiles_text_perm : smiles_text g' w' tb' o tabs' = map_order s (smiles_text g w tb o tabs).
  Proof.
    assert (wstate_relp (init_state g) (init_state g')) as Hrel.
    { unfold init_state, wstate_relp, wstate_rel0. cbn [ws_atoms ws_seen ws_cycle ws_casted ws_heap ws_out ws_order ws_vb].
      repeat split; try reflexivity; try (intros y []). apply (ids_perm_g' g g' s Hp). }
    pose proof (components_perm (S (n_atoms g)) (init_state g) (init_state g') (incl_refl _) Hrel) as Hc.
    pose proof (ids_perm_g' g g' s Hp) as Hids.
    unfold smiles_text, smiles_tokens. rewrite (n_atoms_g' g g' s Hp).
    destruct (components g w tb o tabs (S (n_atoms g)) (ids g) (init_state g)) as [a|e];
      destruct (components g' w' tb' o tabs' (S (n_atoms g)) (ids g') (init_state g')) as [b|e']; cbn [wres_relp] in Hc; try contradiction.
    - destruct Hc as [[_ [_ [_ [_ [Hout [Hord _]]]]]] _].
      destruct (ids g) as [|i0 ir]; destruct (ids g') as [|j0 jr]; cbn [map] in Hids.
      + reflexivity.
      + apply Permutation_nil in Hids. discriminate.
      + apply Permutation_sym, Permutation_nil in Hids. discriminate.
      + rewrite Hout, Hord, spell_ren, (format_cxsmiles_perm g g' s Hwf s_inj Hp).
        destruct (o_cx o); [destruct (format_cxsmiles g (ws_order a))|]; reflexivity.
    - subst e'. destruct (ids g) as [|i0 ir]; destruct (ids g') as [|j0 jr]; cbn [map] in Hids; try reflexivity.
      + apply Permutation_nil in Hids. discriminate.
      + apply Permutation_sym, Permutation_nil in Hids. discriminate.
  Qed.
End MultiComponent.

(* with the weights of the Morgan model, every hash function: discrete classes of atoms_order make format(mol, '!s') a function of
   the structure - any renumbering, any insertion order, any tie-breaks, any number of components *)
Theorem canonical_nostereo_string_any_order (h : list Z -> Z) (ring ring' : Z -> bool) (g g' : mol) (s tb tb' : Z -> Z) (o : opts)
  (tabs tabs' : stabs) (l : labels) :
  wf_mol g = true -> wf_mol g' = true -> (forall x y, s x = s y -> x = y) -> (forall n, In n (ids g) -> ring' (s n) = ring n) ->
  mol_perm (ren_mol s g) g' -> atoms_order h ring g = Ok l -> NoDup (map snd l) -> o_stereo o = false -> o_mapping o = false ->
  exists l', atoms_order h ring' g' = Ok l' /\
             smiles_text g' (lbl l') tb' o tabs' = map_order s (smiles_text g (lbl l) tb o tabs).
Proof.
  intros Hwf Hwf' Hs Hr Hp Hl Hd Hst Hmp. exists (ren_labels s l).
  assert (inj_on (ids g) s) as Hs' by (intros x y _ _; apply Hs).
  split; [apply (canonical_weights_equivariant h ring ring' g g' s l Hwf Hs' Hr Hp Hl Hd)|].
  apply (smiles_text_perm g g' s (lbl l) (lbl (ren_labels s l)) tb tb' o tabs tabs' Hwf Hwf' Hs Hp
           (w_inj_ids h ring g l Hwf Hl Hd) (w_ren_ids h ring g s l Hwf Hs' Hl) Hst Hmp).
Qed.

(* non-vacuity: 2-propanol and water (two components), renumbered n -> 10 - n and re-inserted in another order *)
Definition exm_g : mol := mkMol [(1, exb_a 6 3); (2, exb_a 6 1); (3, exb_a 6 3); (4, exb_a 8 1); (5, exb_a 8 2)]
                                [(1, [(2, exb_b)]); (2, [(1, exb_b); (3, exb_b); (4, exb_b)]); (3, [(2, exb_b)]); (4, [(2, exb_b)]); (5, [])].
Definition exm_g' : mol := mkMol [(5, exb_a 8 2); (6, exb_a 8 1); (8, exb_a 6 1); (9, exb_a 6 3); (7, exb_a 6 3)]
                                 [(5, []); (6, [(8, exb_b)]); (8, [(6, exb_b); (7, exb_b); (9, exb_b)]); (9, [(8, exb_b)]); (7, [(8, exb_b)])].
Theorem multi_component_example :
  wf_mol exm_g = true /\ wf_mol exm_g' = true /\ (forall x y, ext_s x = ext_s y -> x = y) /\ mol_perm (ren_mol ext_s exm_g) exm_g' /\
  inj_on (ids exm_g) ext_w /\ (forall n, In n (ids exm_g) -> ext_w' (ext_s n) = ext_w n) /\
  smiles_text exm_g ext_w (fun n => n) exw_o no_stabs = Ok ("CC(C)O.O"%string, [1; 2; 3; 4; 5]) /\
  smiles_text exm_g' ext_w' (fun n => n) exw_o no_stabs = Ok ("CC(C)O.O"%string, [9; 8; 7; 6; 5]).
Proof.
  split; [vm_compute; reflexivity|]. split; [vm_compute; reflexivity|].
  split; [intros x y; unfold ext_s; lia|].
  split.
  { split.
    - cbn [ren_mol exm_g exm_g' m_atoms map fst snd ext_s]. change (10 - 1) with 9. change (10 - 2) with 8. change (10 - 3) with 7.
      change (10 - 4) with 6. change (10 - 5) with 5.
      apply (Permutation_cons_app [(5, exb_a 8 2); (6, exb_a 8 1); (8, exb_a 6 1)] [(7, exb_a 6 3)]).
      apply (Permutation_cons_app [(5, exb_a 8 2); (6, exb_a 8 1)] [(7, exb_a 6 3)]).
      apply (Permutation_cons_app [(5, exb_a 8 2); (6, exb_a 8 1)] []).
      apply (Permutation_cons_app [(5, exb_a 8 2)] []). apply Permutation_refl.
    - exists [(9, [(8, exb_b)]); (8, [(6, exb_b); (7, exb_b); (9, exb_b)]); (7, [(8, exb_b)]); (6, [(8, exb_b)]); (5, [])]. split.
      + cbn [ren_mol ren_adj exm_g m_adj map fst snd ext_s]. change (10 - 1) with 9. change (10 - 2) with 8. change (10 - 3) with 7.
        change (10 - 4) with 6. change (10 - 5) with 5.
        repeat constructor; cbn [fst snd]; try apply Permutation_refl.
        apply (Permutation_cons_app [(6, exb_b); (7, exb_b)] []). apply perm_swap.
      + cbn [exm_g' m_adj].
        apply (Permutation_cons_app [(5, []); (6, [(8, exb_b)]); (8, [(6, exb_b); (7, exb_b); (9, exb_b)])] [(7, [(8, exb_b)])]).
        apply (Permutation_cons_app [(5, []); (6, [(8, exb_b)])] [(7, [(8, exb_b)])]).
        apply (Permutation_cons_app [(5, []); (6, [(8, exb_b)])] []).
        apply (Permutation_cons_app [(5, [])] []). apply Permutation_refl. }
  split; [intros x y _ _; unfold ext_w; lia|].
  split; [intros n Hn; cbn in Hn; intuition (subst; vm_compute; reflexivity)|].
  split; vm_compute; reflexivity.
Qed.
