(* C10: the version 0 bond order block (legacy packs; there is no version 0 writer in the repository): 5 orders per
   2 bytes, one zero bit then five 3-bit fields.  The reader inverts this layout for ALL lists of groups. *)
From Coq Require Import ZArith List Bool Lia ZifyBool.
From Model Require Import PyBase Pack PackSpec PackSpecV0.
From Proofs Require Import PackBits PackRoundtrip.
Import ListNotations.
Open Scope Z_scope.

Definition v0_chk (a b c d e : Z) : bool :=
  match bytes_of_bits (v0_group_bits a b c d e) with
  | [x; y] => list_eqb Z.eqb [Z.shiftr x 4; Z.land (Z.shiftr x 1) 7; u8 (Z.lor (Z.shiftl (Z.land x 1) 2) (Z.shiftr y 6));
                              Z.land (Z.shiftr y 3) 7; Z.land y 7] [a; b; c; d; e]
  | _ => false
  end.

Lemma v0_sweep :
  forallb (fun a => forallb (fun b => forallb (fun c => forallb (fun d => forallb (v0_chk a b c d) (zrange 0 8)) (zrange 0 8))
                                              (zrange 0 8)) (zrange 0 8)) (zrange 0 8) = true.
Proof. vm_compute. reflexivity. Qed.

Lemma v0_group a b c d e : 0 <= a < 8 -> 0 <= b < 8 -> 0 <= c < 8 -> 0 <= d < 8 -> 0 <= e < 8 -> v0_chk a b c d e = true.
Proof.
  intros Ha Hb Hc Hd He. pose proof (sweep1 _ _ _ v0_sweep a Ha) as S. cbv beta in S.
  apply (sweep4 _ _ _ _ _ _ _ _ _ S b c d e Hb Hc Hd He).
Qed.

(* ROUND TRIP of the version 0 order block *)
Theorem read_orders_v0_layout groups : Forall v0_group_ok groups ->
  read_orders_v0 (flat_map v0_group_bytes groups) = Some (flat_map v0_group_orders groups).
Proof.
  induction 1 as [|[[[[a b] c] d] e] r Hg Hr IH]; [reflexivity|].
  destruct Hg as [Ha [Hb [Hc [Hd He]]]]. pose proof (v0_group a b c d e Ha Hb Hc Hd He) as K. unfold v0_chk in K.
  cbn [flat_map v0_group_bytes v0_group_orders].
  destruct (bytes_of_bits (v0_group_bits a b c d e)) as [|x [|y [|? ?]]]; try discriminate.
  apply list_eqb_Z_eq in K. cbn [app read_orders_v0]. rewrite IH. f_equal.
  apply (f_equal (fun l => l ++ flat_map v0_group_orders r)) in K. exact K.
Qed.
