(* C02, writer_wellformed, part 3: the list of strings the writer produces is accepted by the token-stream checker, for EVERY
   molecule whose atoms are in the ranges of the reader's pattern, every weight function, tie-break and option set:
   [stream_ok] (C02_writer_text_tokenizes) is a theorem instead of a per-output check.
   Ingredients: every atom / bond string is one valid token (WriterWfAtoms), the flattened token list has the shape
   "( bond atom" (WriterWfFlatten), every closure number comes from the heap 1..99 and every closure written has one. *)
From Coq Require Import ZArith List String Ascii Bool Lia.
From Model Require Import PyBase Graph PeriodicTable Stereo Writer.
From Gen Require Import Elements SmilesTables.
From Proofs Require Import WriterProofs WriterProofsAtom WriterProofsTokens WriterProofsStream WriterProofsClosures
                           WriterWfAtoms WriterWfFlatten.
Import ListNotations.
Open Scope Z_scope.

(* ------------------------------------------------------------------------------------------------ streams compose *)
Definition is_wopen (t : wtok) : bool := match t with WOpen => true | _ => false end.
Fixpoint last_open (p : bool) (ts : list wtok) : bool :=
  match ts with [] => p | t :: r => last_open (is_wopen t) r end.

Lemma wtoks_ok_app a : forall p b, wtoks_ok p (a ++ b) = wtoks_ok p a && wtoks_ok (last_open p a) b.
Proof.
  induction a as [|t a IH]; intros p b; cbn [app wtoks_ok last_open]; [reflexivity|].
  rewrite IH. unfold is_wopen. destruct (wtok_ok t && (if p then after_open_ok t else true)); reflexivity.
Qed.

Lemma last_open_app a : forall p b, last_open p (a ++ b) = last_open (last_open p a) b.
Proof. induction a as [|t a IH]; intros p b; cbn [app last_open]; [reflexivity | apply IH]. Qed.

Lemma wtoks_of_app l1 : forall l2 a b, wtoks_of l1 = Some a -> wtoks_of l2 = Some b -> wtoks_of (l1 ++ l2) = Some (a ++ b).
Proof.
  induction l1 as [|t l1 IH]; intros l2 a b H1 H2; cbn [app wtoks_of] in *.
  - inversion H1. exact H2.
  - destruct (wtok_of_otok t) as [x|]; [|discriminate]. destruct (wtoks_of l1) as [y|]; [|discriminate].
    inversion H1. subst. rewrite (IH l2 y b eq_refl H2). rewrite app_assoc. reflexivity.
Qed.

(* the list l of written strings is a valid piece of a stream when the previous token was ( iff p; afterwards: iff q *)
Definition good (p : bool) (l : list otok) (q : bool) : Prop :=
  exists ts, wtoks_of l = Some ts /\ wtoks_ok p ts = true /\ last_open p ts = q.

Lemma good_nil p : good p [] p.
Proof. exists []. repeat split. Qed.

Lemma good_app p l1 q l2 r : good p l1 q -> good q l2 r -> good p (l1 ++ l2) r.
Proof.
  intros [a [Ha [Oa La]]] [b [Hb [Ob Lb]]]. exists (a ++ b). split; [apply wtoks_of_app; assumption|]. split.
  - rewrite wtoks_ok_app, Oa, La, Ob. reflexivity.
  - rewrite last_open_app, La. exact Lb.
Qed.

Lemma good_one p t w : wtok_of_otok t = Some [w] -> wtok_ok w = true -> (p = true -> after_open_ok w = true) ->
  good p [t] (is_wopen w).
Proof.
  intros H Hw Hp. exists [w]. cbn [wtoks_of]. rewrite H. cbn [app]. split; [reflexivity|]. split; [|reflexivity].
  cbn [wtoks_ok]. rewrite Hw. destruct p; [rewrite (Hp eq_refl)|]; reflexivity.
Qed.

Lemma bond_token_cases s ts : bond_token s = Some ts ->
  ts = [] \/ exists t, ts = [t] /\ wtok_ok t = true /\ after_open_ok t = true /\ is_wopen t = false.
Proof.
  unfold bond_token. intros H.
  repeat match type of H with
  | (if ?c then _ else _) = _ => destruct c; [inversion H; try (left; reflexivity); right; eexists; repeat split; reflexivity|]
  end. discriminate.
Qed.

Lemma good_bond p t s : wtok_of_otok t = bond_token s -> bond_token s <> None -> exists q, good p [t] q /\ (p = false -> q = false).
Proof.
  intros Ht Hs. destruct (bond_token s) as [ts|] eqn:E; [|contradiction].
  destruct (bond_token_cases s ts E) as [-> | [w [-> [Hw [Ha Ho]]]]].
  - exists p. split; [|intros; assumption]. exists []. cbn [wtoks_of]. rewrite Ht. repeat split.
  - exists false. split; [|reflexivity]. rewrite <- Ho. apply good_one; [exact Ht | exact Hw | intros _; exact Ha].
Qed.

(* ------------------------------------------------------------------------------------------------ sorting keeps the elements *)
Section SortIn.
  Context {A : Type} (key : A -> list Z).
  Lemma In_insert_first x : forall l y, In y (insert_first key x l) <-> y = x \/ In y l.
  Proof.
    intros l. induction l as [|z l IH]; intros y; cbn [insert_first].
    - cbn. intuition.
    - destruct (zlist_ltb (key z) (key x)); cbn [In]; [rewrite IH|]; intuition.
  Qed.
  Lemma In_sort_by l : forall y, In y (sort_by key l) <-> In y l.
  Proof.
    induction l as [|x l IH]; intros y; unfold sort_by in *; cbn [fold_right]; [tauto|].
    rewrite In_insert_first. rewrite IH. cbn [In]. intuition.
  Qed.
End SortIn.

(* ------------------------------------------------------------------------------------------------ closure numbers *)
Definition rng (k : Z) : Prop := heap_lo <= k < heap_hi.
Definition Rng (casted : list (Z * Z)) (heap : list Z) : Prop :=
  (forall k, In k heap -> rng k) /\ (forall c k, zget casted c = Some k -> rng k).

Lemma nc_rng : forall cl casted heap rel casted' heap' rel',
  Rng casted heap -> (forall k, In k rel -> rng k) ->
  number_closures cl casted heap rel = Ok (casted', heap', rel') ->
  Rng casted' heap' /\ (forall k, In k rel' -> rng k) /\ (forall x, In x cl -> zget casted' (snd x) <> None).
Proof.
  induction cl as [|[p c] cl IH]; intros casted heap rel casted' heap' rel' [Hh Hc] Hr H; cbn [number_closures] in H.
  - inversion H. subst. split; [split; assumption|]. split; [exact Hr|]. intros x [].
  - destruct (zget casted c) as [k|] eqn:Ek.
    + destruct (IH casted heap (rel ++ [k]) casted' heap' rel' (conj Hh Hc)) as [R [Hr' Hd]]; [|exact H|].
      * intros x Hx. apply in_app_or in Hx. destruct Hx as [Hx | [<- | []]]; [apply Hr; exact Hx | apply (Hc c k Ek)].
      * split; [exact R|]. split; [exact Hr'|]. intros x [<- | Hx]; [|apply Hd; exact Hx]. cbn [snd].
        assert (Hne : zget casted c <> None) by (rewrite Ek; discriminate).
        rewrite (number_closures_keeps c _ _ _ _ _ _ _ Hne H). exact Hne.
    + destruct heap as [|k heap1]; [discriminate|].
      assert (Hz : zget (casted ++ [(c, k)]) c = Some k) by (rewrite zget_app_last, Ek, Z.eqb_refl; reflexivity).
      destruct (IH (casted ++ [(c, k)]) heap1 rel casted' heap' rel') as [R [Hr' Hd]]; [| exact Hr | exact H |].
      * split; [intros x Hx; apply Hh; right; exact Hx|]. intros x v Hx. rewrite zget_app_last in Hx.
        destruct (zget casted x) eqn:Ex; [inversion Hx; subst; apply (Hc x v Ex)|].
        destruct (x =? c); [inversion Hx; subst; apply Hh; left; reflexivity | discriminate].
      * split; [exact R|]. split; [exact Hr'|]. intros x [<- | Hx]; [|apply Hd; exact Hx]. cbn [snd].
        assert (Hne : zget (casted ++ [(c, k)]) c <> None) by (rewrite Hz; discriminate).
        rewrite (number_closures_keeps c _ _ _ _ _ _ _ Hne H). exact Hne.
Qed.

Lemma na_rng tokens ro : forall todo casted heap casted' heap',
  Rng casted heap -> number_atoms tokens ro todo casted heap = Ok (casted', heap') ->
  Rng casted' heap' /\
  (forall a x, In a todo -> In x (zgetl tokens (fst a)) -> zget casted' (snd x) <> None).
Proof.
  induction todo as [|[a p] todo IH]; intros casted heap casted' heap' R H; cbn [number_atoms] in H.
  - inversion H. subst. split; [exact R|]. intros a x [].
  - destruct (number_closures _ casted heap []) as [[[c1 h1] rel]|e] eqn:En; [|discriminate].
    destruct (nc_rng _ _ _ _ _ _ _ R (fun k (H0 : In k []) => match H0 with end) En) as [[Hh1 Hc1] [Hr Hd]].
    assert (R1 : Rng c1 (fold_left (fun h c => heap_push c h) rel h1)).
    { split; [|exact Hc1]. intros k Hk. apply push_all_In in Hk. destruct Hk as [Hk | Hk]; [apply Hr | apply Hh1]; exact Hk. }
    destruct (IH _ _ _ _ R1 H) as [R' Hd']. split; [exact R'|].
    intros a0 x [<- | Ha] Hx.
    + cbn [fst] in Hx.
      assert (Hx1 : zget c1 (snd x) <> None) by (apply Hd; apply In_sort_by; exact Hx).
      rewrite (number_atoms_keeps tokens ro (snd x) _ _ _ _ _ Hx1 H). exact Hx1.
    + apply (Hd' a0 x Ha Hx).
Qed.

(* ------------------------------------------------------------------------------------------------ order_neighbours keeps the closures *)
Lemma zget_zset_same {V} (d : list (Z * V)) k v : zget d k <> None -> zget (zset d k v) k = Some v.
Proof.
  induction d as [|[a b] d IH]; cbn [zget zset]; [intros H; contradiction|].
  destruct (k =? a) eqn:E; cbn [zget]; rewrite E; [reflexivity | exact IH].
Qed.
Lemma zget_zset_other {V} (d : list (Z * V)) k v k' : k' <> k -> zget (zset d k v) k' = zget d k'.
Proof.
  intros Hn. induction d as [|[a b] d IH]; cbn [zget zset].
  - destruct (k' =? k) eqn:E; [apply Z.eqb_eq in E; contradiction | reflexivity].
  - destruct (k =? a) eqn:E; cbn [zget].
    + apply Z.eqb_eq in E. subst a. destruct (k' =? k) eqn:E2; [apply Z.eqb_eq in E2; contradiction | reflexivity].
    + destruct (k' =? a); [reflexivity | exact IH].
Qed.

Lemma order_neighbours_closures casted edges : forall smi tokens visited tokens' visited',
  order_neighbours smi casted edges tokens visited = (tokens', visited') ->
  forall n x, In x (zgetl tokens' n) -> In x (zgetl tokens n).
Proof.
  induction smi as [|t smi IH]; intros tokens visited tokens' visited' H n x Hx; cbn [order_neighbours] in H.
  - inversion H. subst. exact Hx.
  - destruct t as [a| | |a b]; try (apply (IH _ _ _ _ H n x Hx)).
    destruct (zget tokens a) as [l|] eqn:El.
    + specialize (IH _ _ _ _ H n x Hx). unfold zgetl in IH |- *.
      destruct (Z.eq_dec n a) as [-> | Hn].
      * rewrite zget_zset_same in IH by (rewrite El; discriminate). rewrite El. apply In_sort_by in IH. exact IH.
      * rewrite zget_zset_other in IH by exact Hn. exact IH.
    + apply (IH _ _ _ _ H n x Hx).
Qed.

(* ------------------------------------------------------------------------------------------------ emit *)
Section Emit.
  Variable fat : Z -> pyres string.
  Variable fa : Z -> Z -> pyres string.
  Variable o : opts.
  Variable tokens : list (Z * list (Z * Z)).
  Variable casted : list (Z * Z).
  Hypothesis Hfat : forall n s, fat n = Ok s -> exists w, atom_token s = Some w /\ wtok_ok w = true.
  Hypothesis Hfa : forall n m s, fa n m = Ok s -> bond_token s <> None.
  Hypothesis Hcl : forall n x, In x (zgetl tokens n) -> rng (casted_of casted (snd x)).

  Lemma atom_token_not_open s w : atom_token s = Some w -> is_wopen w = false /\ after_open_ok w = true.
  Proof.
    unfold atom_token. intros H.
    assert (Hp : (if smem s organic_set then Some (WBare s)
                  else match find (fun u => String.eqb (lower_string u) s) arom_bare with
                       | Some u => Some (WArom u) | None => None end) = Some w -> is_wopen w = false /\ after_open_ok w = true).
    { intros H'. destruct (smem s organic_set); [inversion H'; split; reflexivity|].
      destruct (find _ arom_bare); inversion H'. split; reflexivity. }
    destruct s as [|c r]; [exact (Hp H)|].
    destruct (Ascii.eqb c "[") eqn:Ec.
    - apply Ascii.eqb_eq in Ec. subst c. destruct (strip_last_bracket r); inversion H. split; reflexivity.
    - apply Hp. revert H Ec. clear. intros H Ec.
      destruct c as [[|] [|] [|] [|] [|] [|] [|] [|]]; try exact H; discriminate Ec.
  Qed.

  Lemma emit_closures_good n : forall cl vb out vb',
    (forall x, In x cl -> rng (casted_of casted (snd x))) ->
    emit_closures o fa n cl casted vb = Ok (out, vb') -> good false out false.
  Proof.
    induction cl as [|[m c] cl IH]; intros vb out vb' Hr H; cbn [emit_closures] in H.
    - inversion H. apply good_nil.
    - assert (Hnum : good false [OClosure n m (casted_of casted c)] false).
      { change false with (is_wopen (WClosure (casted_of casted c))) at 2. apply good_one; [reflexivity | | discriminate].
        cbn [wtok_ok]. specialize (Hr (m, c) (or_introl eq_refl)). cbn [snd] in Hr. destruct Hr as [H1 H2].
        apply andb_true_iff. split; [apply Z.leb_le; exact H1 | apply Z.ltb_lt; exact H2]. }
      assert (Hr' : forall x, In x cl -> rng (casted_of casted (snd x))) by (intros x Hx; apply Hr; right; exact Hx).
      assert (Hb : forall s, fa n m = Ok s -> good false [OCBond n m s] false).
      { intros s Hs. destruct (good_bond false (OCBond n m s) s eq_refl (Hfa n m s Hs)) as [q [Hg Hq]]. rewrite (Hq eq_refl) in Hg. exact Hg. }
      destruct (o_asym o).
      + destruct (negb (pair_mem (n, m) vb)).
        * destruct (fa n m) as [s|] eqn:Es; [|discriminate].
          destruct (emit_closures o fa n cl casted ((m, n) :: vb)) as [[out1 vb1]|] eqn:E1; [|discriminate]. inversion H. subst.
          change (OCBond n m s :: OClosure n m (casted_of casted c) :: out1) with ([OCBond n m s] ++ [OClosure n m (casted_of casted c)] ++ out1).
          apply (good_app _ _ false); [apply Hb; reflexivity|]. apply (good_app _ _ false); [exact Hnum|]. apply (IH _ _ _ Hr' E1).
        * destruct (emit_closures o fa n cl casted vb) as [[out1 vb1]|] eqn:E1; [|discriminate]. inversion H. subst.
          change (OClosure n m (casted_of casted c) :: out1) with ([OClosure n m (casted_of casted c)] ++ out1).
          apply (good_app _ _ false); [exact Hnum|]. apply (IH _ _ _ Hr' E1).
      + destruct (fa n m) as [s|] eqn:Es; [|discriminate].
        destruct (emit_closures o fa n cl casted vb) as [[out1 vb1]|] eqn:E1; [|discriminate]. inversion H. subst.
        change (OCBond n m s :: OClosure n m (casted_of casted c) :: out1) with ([OCBond n m s] ++ [OClosure n m (casted_of casted c)] ++ out1).
        apply (good_app _ _ false); [apply Hb; reflexivity|]. apply (good_app _ _ false); [exact Hnum|]. apply (IH _ _ _ Hr' E1).
  Qed.

  (* the flag "previous token was (" that goes with a state of the shape automaton *)
  Definition flag_ok (s : fstate) (p : bool) : Prop :=
    match s with F0 => p = false | FOpen => p = true | FBond => p = false | FOpenBond => True end.

  Lemma emit_good : forall smi s p vb out ord vb',
    frun s smi = Some F0 -> flag_ok s p ->
    emit o fat fa smi tokens casted vb = Ok (out, ord, vb') -> good p out false.
  Proof.
    induction smi as [|t smi IH]; intros s p vb out ord vb' Hrun Hflag H; cbn [emit] in H.
    - inversion H. cbn in Hrun. inversion Hrun. subst s. cbn in Hflag. subst p. apply good_nil.
    - cbn [frun] in Hrun. destruct (fnext s t) as [s'|] eqn:En; [|discriminate].
      destruct t as [n| | |n m].
      + destruct (fat n) as [str|] eqn:Ea; [|discriminate].
        destruct (emit_closures o fa n (zgetl tokens n) casted vb) as [[cls vb1]|] eqn:Ec; [|discriminate].
        destruct (emit o fat fa smi tokens casted vb1) as [[[out1 ord1] vb2]|] eqn:Ee; [|discriminate]. inversion H. subst.
        assert (Hs' : s' = F0) by (destruct s; cbn in En; inversion En; reflexivity). subst s'.
        destruct (Hfat n str Ea) as [w [Hw Hok]]. destruct (atom_token_not_open str w Hw) as [Hno Hao].
        change (OAtom n str :: cls ++ out1) with ([OAtom n str] ++ cls ++ out1).
        apply (good_app _ _ false).
        * rewrite <- Hno. apply good_one; [cbn [wtok_of_otok]; rewrite Hw; reflexivity | exact Hok | intros _; exact Hao].
        * apply (good_app _ _ false); [apply (emit_closures_good n _ _ _ _ (Hcl n) Ec) | apply (IH F0 false _ _ _ _ Hrun eq_refl Ee)].
      + destruct (emit o fat fa smi tokens casted vb) as [[[out1 ord1] vb2]|] eqn:Ee; [|discriminate]. inversion H. subst.
        destruct s; cbn in En; inversion En. subst s'. cbn in Hflag. subst p.
        change (OOpen :: out1) with ([OOpen] ++ out1). apply (good_app _ _ true).
        * change true with (is_wopen WOpen) at 1. apply good_one; [reflexivity | reflexivity | discriminate].
        * apply (IH FOpen true _ _ _ _ Hrun eq_refl Ee).
      + destruct (emit o fat fa smi tokens casted vb) as [[[out1 ord1] vb2]|] eqn:Ee; [|discriminate]. inversion H. subst.
        destruct s; cbn in En; inversion En. subst s'. cbn in Hflag. subst p.
        change (OClose :: out1) with ([OClose] ++ out1). apply (good_app _ _ false).
        * change false with (is_wopen WClose) at 2. apply good_one; [reflexivity | reflexivity | discriminate].
        * apply (IH F0 false _ _ _ _ Hrun eq_refl Ee).
      + destruct (fa n m) as [str|] eqn:Ea; [|discriminate].
        destruct (emit o fat fa smi tokens casted vb) as [[[out1 ord1] vb2]|] eqn:Ee; [|discriminate]. inversion H. subst.
        destruct (good_bond p (OBond n m str) str eq_refl (Hfa n m str Ea)) as [q [Hg Hq]].
        change (OBond n m str :: out1) with ([OBond n m str] ++ out1). apply (good_app _ _ q); [exact Hg|].
        destruct s; cbn in En; inversion En; subst s'.
        * cbn in Hflag. subst p. rewrite (Hq eq_refl). apply (IH FBond false _ _ _ _ Hrun eq_refl Ee).
        * apply (IH FOpenBond q _ _ _ _ Hrun I Ee).
  Qed.
End Emit.

(* ------------------------------------------------------------------------------------------------ helpers on the token tables *)
Lemma ring_positions_covers tokens n : zgetl tokens n <> [] ->
  forall smi i, In n (map fst (ring_positions tokens smi i)) \/ ~ In (TAtom n) smi.
Proof.
  intros Hn. induction smi as [|t0 smi0 IHs]; intros i; [right; intros []|].
  cbn [ring_positions]. destruct t0 as [a| | |a b].
  - destruct (Z.eq_dec a n) as [-> | Hne].
    + left. unfold zgetl in Hn. unfold zhas. destruct (zget tokens n); [left; reflexivity | contradiction].
    + destruct (IHs (i + 1)) as [Hin | Hnin].
      * left. destruct (zhas tokens a); [right|]; exact Hin.
      * right. intros [E | Hi]; [inversion E; contradiction | exact (Hnin Hi)].
  - destruct (IHs (i + 1)) as [Hin | Hnin]; [left; exact Hin | right; intros [E | Hi]; [discriminate | exact (Hnin Hi)]].
  - destruct (IHs (i + 1)) as [Hin | Hnin]; [left; exact Hin | right; intros [E | Hi]; [discriminate | exact (Hnin Hi)]].
  - destruct (IHs (i + 1)) as [Hin | Hnin]; [left; exact Hin | right; intros [E | Hi]; [discriminate | exact (Hnin Hi)]].
Qed.

Definition has_atom (smi : list tok) (n : Z) : bool :=
  existsb (fun t => match t with TAtom a => a =? n | _ => false end) smi.
Lemma has_atom_In smi n : has_atom smi n = true <-> In (TAtom n) smi.
Proof.
  unfold has_atom. rewrite existsb_exists. split.
  - intros [t [Ht Et]]. destruct t; try discriminate. apply Z.eqb_eq in Et. subst. exact Ht.
  - intros H. exists (TAtom n). split; [exact H | apply Z.eqb_refl].
Qed.
(* the table restricted to the atoms of a token list *)
Definition restrict (smi : list tok) (tokens : list (Z * list (Z * Z))) : list (Z * list (Z * Z)) :=
  filter (fun nl => has_atom smi (fst nl)) tokens.
Lemma zgetl_restrict smi n : forall tokens,
  zgetl (restrict smi tokens) n = if has_atom smi n then zgetl tokens n else [].
Proof.
  unfold zgetl, restrict. induction tokens as [|[a l] tk IH]; cbn [filter fst zget].
  - destruct (has_atom smi n); reflexivity.
  - destruct (has_atom smi a) eqn:Ea; cbn [zget].
    + destruct (n =? a) eqn:E; [apply Z.eqb_eq in E; subst; rewrite Ea; reflexivity | exact IH].
    + destruct (n =? a) eqn:E; [apply Z.eqb_eq in E; subst; rewrite IH, Ea; reflexivity | exact IH].
Qed.

Lemma emit_restrict o fat fa casted smi0 tokens : forall smi vb, (forall n, In (TAtom n) smi -> In (TAtom n) smi0) ->
  emit o fat fa smi (restrict smi0 tokens) casted vb = emit o fat fa smi tokens casted vb.
Proof.
  induction smi as [|t0 smi IHs]; intros vb Hsub; [reflexivity|].
  assert (Hsub' : forall n, In (TAtom n) smi -> In (TAtom n) smi0) by (intros n Hn; apply Hsub; right; exact Hn).
  cbn [emit]. destruct t0 as [a| | |a b].
  - rewrite zgetl_restrict. rewrite (proj2 (has_atom_In smi0 a) (Hsub a (or_introl eq_refl))).
    destruct (fat a); [|reflexivity]. destruct (emit_closures o fa a (zgetl tokens a) casted vb) as [[cls vb1]|]; [|reflexivity].
    rewrite (IHs vb1 Hsub'). reflexivity.
  - rewrite (IHs vb Hsub'). reflexivity.
  - rewrite (IHs vb Hsub'). reflexivity.
  - destruct (fa a b); [|reflexivity]. rewrite (IHs vb Hsub'). reflexivity.
Qed.

(* ------------------------------------------------------------------------------------------------ components *)
Section Components.
  Variable g : mol.
  Variable w tb : Z -> Z.
  Variable o : opts.
  Variable tabs : stabs.
  Hypothesis Hatoms : atoms_writable g o.

  Definition WInvS (st : wstate) : Prop := Rng (ws_casted st) (ws_heap st) /\ good false (ws_out st) false.

  Lemma component_inv all st st' : WInvS st -> component g w tb o tabs all st = Ok st' -> WInvS st'.
  Proof.
    intros [R G] H. unfold component in H.
    destruct (traverse g w tb o all st) as [t|] eqn:Et; [|discriminate].
    destruct (flatten g t) as [smi|] eqn:Ef; [|discriminate].
    set (d := tr_dfs t) in *.
    set (ro := ring_positions (ds_tokens d) smi 0) in *.
    destruct (number_atoms (ds_tokens d) ro ro (ws_casted st) (ws_heap st)) as [[casted heap]|] eqn:En; [|discriminate].
    destruct (order_neighbours smi casted (ds_edges d) (ds_tokens d) (ds_visited d)) as [tokens' visited'] eqn:Eo.
    destruct (emit o (fun n => format_atom g o tabs n visited') (format_bond g o (ct_map g tabs visited')) smi tokens' casted (ws_vb st))
      as [[[out ord] vb]|] eqn:Ee; [|discriminate].
    inversion H. subst st'. clear H. unfold WInvS. cbn [ws_casted ws_heap ws_out].
    destruct (na_rng _ _ _ _ _ _ _ R En) as [R' Hd]. split; [exact R'|].
    (* every closure written has a number in range *)
    assert (Hcl : forall n x, In (TAtom n) smi -> In x (zgetl tokens' n) -> rng (casted_of casted (snd x))).
    { intros n x Hn Hx. pose proof (order_neighbours_closures _ _ _ _ _ _ _ Eo n x Hx) as Hx0.
      assert (Hne : zgetl (ds_tokens d) n <> []) by (intros E; rewrite E in Hx0; exact Hx0).
      destruct (ring_positions_covers (ds_tokens d) n Hne smi 0) as [Hin | Hnin]; [|contradiction].
      apply in_map_iff in Hin. destruct Hin as [a [Ea Ha]].
      pose proof (Hd a x Ha) as Hd1. rewrite Ea in Hd1. specialize (Hd1 Hx0).
      unfold casted_of. destruct (zget casted (snd x)) as [k|] eqn:Ek; [|contradiction]. destruct R' as [_ Rc]. apply (Rc _ _ Ek). }
    (* emit only looks at the atoms of smi: restrict the table to them, so that the closure hypothesis holds for every n *)
    assert (Hcl'' : forall n x, In x (zgetl (restrict smi tokens') n) -> rng (casted_of casted (snd x))).
    { intros n x Hx. rewrite zgetl_restrict in Hx. destruct (has_atom smi n) eqn:Eh; [|destruct Hx].
      apply (Hcl n x (proj1 (has_atom_In smi n) Eh) Hx). }
    assert (Hemit : emit o (fun n => format_atom g o tabs n visited') (format_bond g o (ct_map g tabs visited')) smi (restrict smi tokens') casted (ws_vb st)
                    = Ok (out, ord, vb)).
    { rewrite emit_restrict; [exact Ee | intros n Hn; exact Hn]. }
    assert (Gout : good false out false).
    { apply (emit_good (fun n => format_atom g o tabs n visited') (format_bond g o (ct_map g tabs visited')) o (restrict smi tokens') casted) with (smi := smi) (s := F0) (vb := ws_vb st) (ord := ord) (vb' := vb).
      - intros n s Hs. apply (format_atom_token g o tabs n visited' s Hs (Hatoms n)).
      - intros n m s Hs. destruct (format_bond_token _ _ _ _ _ _ Hs) as [ts [Hts _]]. rewrite Hts. discriminate.
      - exact Hcl''.
      - apply (flatten_shaped g t smi Ef).
      - reflexivity.
      - exact Hemit. }
    apply (good_app _ _ false); [exact G|]. apply (good_app _ _ false); [exact Gout|].
    destruct (filter _ (ws_atoms st)); [apply good_nil|].
    change false with (is_wopen WDot) at 2. apply good_one; [reflexivity | reflexivity | discriminate].
  Qed.

  Lemma components_inv all : forall fuel st st', WInvS st -> components g w tb o tabs fuel all st = Ok st' -> WInvS st'.
  Proof.
    induction fuel as [|fuel IH]; intros st st' I H; cbn [components] in H; [discriminate|].
    destruct (component g w tb o tabs all st) as [st1|] eqn:Ec; [|discriminate].
    pose proof (component_inv all st st1 I Ec) as I1.
    destruct (ws_atoms st1); [inversion H; subst; exact I1 | apply (IH st1 st' I1 H)].
  Qed.

  Theorem writer_stream_ok : forall out order, smiles_tokens g w tb o tabs = Ok (Some (out, order)) -> stream_ok out = true.
  Proof.
    intros out order H. unfold smiles_tokens in H. destruct (ids g) eqn:Ei; [discriminate|]. rewrite <- Ei in H.
    destruct (components g w tb o tabs (S (n_atoms g)) (ids g) (init_state g)) as [st|] eqn:Ec; [|discriminate].
    inversion H. subst.
    assert (I0 : WInvS (init_state g)).
    { split; [|apply good_nil]. split; [intros k Hk; apply zrange_In in Hk; exact Hk | intros c k Hk; discriminate Hk]. }
    destruct (components_inv _ _ _ _ I0 Ec) as [_ [ts [Hts [Hok _]]]].
    unfold stream_ok. rewrite Hts. exact Hok.
  Qed.
End Components.

(* the unconditional form of C02_writer_text_tokenizes *)
Theorem writer_tokenizes : forall g w tb o tabs out order,
  atoms_writable g o -> smiles_tokens g w tb o tabs = Ok (Some (out, order)) ->
  exists ts, wtoks_of out = Some ts /\ wtoks_ok false ts = true /\ tokenize (spell out) = Ok (map rt_of ts).
Proof.
  intros g w tb o tabs out order Ha H. pose proof (writer_stream_ok g w tb o tabs Ha out order H) as Hs.
  unfold stream_ok in Hs. destruct (wtoks_of out) as [ts|] eqn:E; [|discriminate].
  exists ts. repeat split; try assumption. apply (stream_tokenizes out ts E Hs).
Qed.

(* ------------------------------------------------------------------------------------------------ the hypothesis is decidable *)
Definition opt_in (lo hi : Z) (x : option Z) : bool := match x with Some v => (lo <=? v) && (v <=? hi) | None => true end.
Definition atom_writable_b (g : mol) (o : opts) (na : Z * atom) : bool :=
  let '(n, a) := na in
  match from_number (a_num a) with
  | Some e =>
      implb (o_aromatic o && (hybridization g n =? 4)) (smem (lower_string (e_sym e)) aromatic_bracket_symbols) &&
      opt_in 0 999 (a_iso a) && opt_in 0 4 (a_h a) && implb (o_mapping o) ((0 <=? n) && (n <=? 9999))
  | None => false
  end.
Definition atoms_writable_b (g : mol) (o : opts) : bool := forallb (atom_writable_b g o) (m_atoms g).

Lemma zget_last_In {V} (l : list (Z * V)) k v : zget_last l k = Some v -> In (k, v) l.
Proof.
  induction l as [|[a b] l IH]; cbn [zget_last]; [discriminate|].
  destruct (zget_last l k) as [w0|] eqn:E.
  - intros H. inversion H. subst. right. apply IH. reflexivity.
  - destruct (k =? a) eqn:Ek; intros H; [|discriminate]. apply Z.eqb_eq in Ek. inversion H. subst. left. reflexivity.
Qed.

Lemma from_number_In n e : from_number n = Some e -> In e elements.
Proof.
  unfold from_number. intros H. apply zget_last_In in H. apply in_map_iff in H. destruct H as [e' [E He]].
  inversion E. subst. exact He.
Qed.

Lemma atoms_writable_b_sound g o : atoms_writable_b g o = true -> atoms_writable g o.
Proof.
  unfold atoms_writable_b, atoms_writable, atom_writable. intros H n a Ha. rewrite forallb_forall in H.
  unfold atom_of in Ha. apply zget_In in Ha. specialize (H (n, a) Ha). unfold atom_writable_b in H.
  destruct (from_number (a_num a)) as [e|] eqn:En; [|discriminate].
  apply andb_true_iff in H. destruct H as [H H4]. apply andb_true_iff in H. destruct H as [H H3].
  apply andb_true_iff in H. destruct H as [H1 H2].
  exists e. split; [apply (from_number_In _ _ En)|]. split; [reflexivity|]. split; [|split; [|split]].
  - intros Ea Eh. rewrite Ea in H1. apply Z.eqb_eq in Eh. rewrite Eh in H1. exact H1.
  - unfold iso_in_range. destruct (a_iso a); [|exact I]. cbn in H2. apply andb_true_iff in H2. destruct H2 as [A B].
    apply Z.leb_le in A. apply Z.leb_le in B. lia.
  - unfold h_in_range. destruct (a_h a); [|exact I]. cbn in H3. apply andb_true_iff in H3. destruct H3 as [A B].
    apply Z.leb_le in A. apply Z.leb_le in B. lia.
  - intros Em. rewrite Em in H4. cbn in H4. apply andb_true_iff in H4. destruct H4 as [A B].
    apply Z.leb_le in A. apply Z.leb_le in B. lia.
Qed.

(* non-vacuity: the example molecule of WriterProofsStream satisfies the hypothesis, and the theorem gives its tokens *)
Lemma writer_tokenizes_example :
  atoms_writable ex_mol default_opts /\
  exists out order ts, smiles_tokens ex_mol (fun n => n) (fun n => n) default_opts no_stabs = Ok (Some (out, order)) /\
                       wtoks_of out = Some ts /\ tokenize "[nH]1cccc1.[Na+]" = Ok (map rt_of ts).
Proof.
  split; [apply atoms_writable_b_sound; vm_compute; reflexivity|].
  destruct (smiles_tokens ex_mol (fun n => n) (fun n => n) default_opts no_stabs) as [[[out order]|]|] eqn:E;
    try (vm_compute in E; discriminate E).
  assert (Ha : atoms_writable ex_mol default_opts) by (apply atoms_writable_b_sound; vm_compute; reflexivity).
  destruct (writer_tokenizes _ _ _ _ _ _ _ Ha E) as [ts [H1 [H2 H3]]].
  exists out, order, ts. split; [reflexivity|]. split; [exact H1|].
  assert (Hsp : spell out = "[nH]1cccc1.[Na+]"%string).
  { vm_compute in E. inversion E. subst. vm_compute. reflexivity. }
  rewrite <- Hsp. exact H3.
Qed.
