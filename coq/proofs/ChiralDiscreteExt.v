(* C01: when the classes of atoms_order are already discrete (no two atoms constitutionally equivalent) the stereo refinement has
   nothing to do: every group of equal stereo elements is a singleton, `_chiral_morgan` returns atoms_order for EVERY iteration order
   of its three sets.  With it the canonical string of such a molecule is a function of the structure alone, end to end from the
   molecule, for every hash function. *)
From Coq Require Import ZArith List String Bool Lia Permutation.
From Model Require Import PyBase PyHash Graph Morgan Stereo Writer ChiralMorgan.
From Proofs Require Import MorganProofs WriterInvProofs StereoOrderExt EnvLaws CtMapOrderExt SameStereo EqHashExt.
Import ListNotations.
Open Scope Z_scope.

Lemma group_add_fresh {A} (k : Z) (x : A) gs : ~ In k (map fst gs) -> group_add k x gs = gs ++ [(k, [x])].
Proof.
  induction gs as [|[k' l] gs IH]; intros H; cbn [group_add app]; [reflexivity|].
  destruct (Z.eqb_spec k k') as [->|Hne]; [exfalso; apply H; left; reflexivity|]. rewrite IH; [reflexivity | intros Hi; apply H; right; exact Hi].
Qed.

(* pairwise different keys: every group is a singleton *)
Lemma group_by_singletons {A} (key : A -> Z) (l : list A) : NoDup (map key l) -> group_by key l = map (fun x => [x]) l.
Proof.
  intros Hn. unfold group_by.
  assert (forall gs, NoDup (map fst gs ++ map key l) ->
            fold_left (fun gs x => group_add (key x) x gs) l gs = gs ++ map (fun x => (key x, [x])) l) as H.
  { clear Hn. induction l as [|x l IH]; intros gs Hg; cbn [fold_left map]; [rewrite app_nil_r; reflexivity|].
    cbn [map] in Hg.
    assert (~ In (key x) (map fst gs)) as Hf by (apply NoDup_remove_2 in Hg; intros Hi; apply Hg; apply in_or_app; left; exact Hi).
    rewrite (group_add_fresh (key x) x gs Hf).
    assert (NoDup (map fst (gs ++ [(key x, [x])]) ++ map key l)) as Hg2 by (rewrite map_app; cbn [map fst]; rewrite <- app_assoc; exact Hg).
    rewrite (IH (gs ++ [(key x, [x])]) Hg2), <- app_assoc. reflexivity. }
  rewrite (H []) by exact Hn. cbn [app]. rewrite map_map. reflexivity.
Qed.

Lemma if_same {A} (b : bool) (x : A) : (if b then x else x) = x.
Proof. destruct b; reflexivity. Qed.

Section Discrete.
  Variable h : list Z -> Z.
  Variable g : mol.
  Variable tabs : cmtabs.

  Lemma fold_singletons {A G} (f : pyres (pstate A G) -> list G -> pyres (pstate A G)) (l : list G) st :
    (forall st0 x, f st0 [x] = st0) -> fold_left f (map (fun x => [x]) l) st = st.
  Proof. intros H. induction l as [|x l IH]; cbn [map fold_left]; [reflexivity|]. rewrite H. exact IH. Qed.

  Lemma th_group_single m st x : th_group g tabs m st [x] = st.
  Proof. unfold th_group. destruct st as [[[u r] gs]|e]; reflexivity. Qed.
  Lemma ct_group_single m st x : ct_group g tabs m st [x] = st.
  Proof. unfold ct_group. destruct st as [[[u r] gs]|e]; reflexivity. Qed.
  Lemma al_group_single m st x : al_group g tabs m st [x] = st.
  Proof. unfold al_group. destruct st as [[[u r] gs]|e]; reflexivity. Qed.

  (* the stereo elements carry pairwise different labels *)
  Definition distinct_stereo_labels (m : labels) (ord : cmorders) : Prop :=
    NoDup (map (lbl m) (o_atoms ord)) /\ NoDup (map (fun x => lbl m (fst x)) (map (ct_key m) (o_ct ord))) /\ NoDup (map (lbl m) (o_al ord)).

  Theorem chiral_morgan_discrete ao ord : distinct_stereo_labels ao ord -> chiral_morgan h g tabs ao ord = Ok (ao, []).
  Proof.
    intros [H1 [H2 H3]]. unfold chiral_morgan. destruct (negb (has_stereo_labels g)); [reflexivity|].
    cbn [chiral_loop]. unfold diff_fuel. cbn [differentiation].
    rewrite (group_by_singletons (lbl ao) (o_atoms ord) H1), (fold_singletons (th_group g tabs ao)) by (intros; apply th_group_single).
    rewrite if_same. cbv beta iota.
    rewrite (group_by_singletons (fun x => lbl ao (fst x)) (map (ct_key ao) (o_ct ord)) H2), (fold_singletons (ct_group g tabs ao))
      by (intros; apply ct_group_single).
    rewrite if_same. cbv beta iota.
    rewrite (group_by_singletons (lbl ao) (o_al ord) H3), (fold_singletons (al_group g tabs ao)) by (intros; apply al_group_single).
    rewrite if_same. cbv beta iota.
    reflexivity.
  Qed.
End Discrete.

Lemma atoms_order_strip h ring g : atoms_order h ring (strip g) = atoms_order h ring g.
Proof.
  assert (atom_labels h ring (strip g) = atom_labels h ring g) as Ha.
  { unfold atom_labels, strip. cbn [m_atoms]. rewrite map_map. apply map_ext. intros [n a]. reflexivity. }
  assert (int_adjacency (strip g) = int_adjacency g) as Hi.
  { unfold int_adjacency, strip. cbn [m_adj]. rewrite map_map. apply map_ext. intros [n row]. cbn [fst snd]. f_equal. rewrite map_map.
    apply map_ext. intros [m b]. reflexivity. }
  unfold atoms_order. rewrite Ha, Hi. unfold strip at 1. cbn [m_atoms].
  destruct (m_atoms g) as [|[n1 a1] [|[n2 a2] r]]; reflexivity.
Qed.

(* END TO END from the molecule alone, for every hash function: g' is g renumbered by s and re-inserted in any order with the same
   stereo labels; the classes of atoms_order of g are discrete.  Then atoms_order of g' is the renamed atoms_order, `_chiral_morgan`
   returns these weights on both sides for EVERY iteration order of its stereo sets, and the canonical strings (all stereo marks)
   are identical, the written order mapped by s. *)
Theorem canonical_string_structure_only (h : list Z -> Z) (ring ring' : Z -> bool) (g g' : mol) (s tb tb' : Z -> Z) (o : opts)
  (tabs tabs' : stabs) (ctabs ctabs' : cmtabs) (ord ord' : cmorders) (flipc : Z -> Z -> bool) (l : labels) :
  wf_mol (strip g) = true -> wf_mol (strip g') = true -> (forall x y, s x = s y -> x = y) -> s 0 = 0 ->
  mol_perm (ren_mol s (strip g)) (strip g') -> (forall n, In n (ids g) -> ring' (s n) = ring n) -> o_mapping o = false ->
  (forall x, is_H g x = false) -> (forall x, is_H g' x = false) ->
  same_atom_stereo g g' s tabs tabs' -> same_ct_stereo g g' s tabs tabs' flipc ->
  atoms_order h ring g = Ok l -> NoDup (map snd l) ->
  distinct_stereo_labels l ord -> distinct_stereo_labels (ren_labels s l) ord' ->
  atoms_order h ring' g' = Ok (ren_labels s l) /\
  chiral_morgan h g ctabs l ord = Ok (l, []) /\
  chiral_morgan h g' ctabs' (ren_labels s l) ord' = Ok (ren_labels s l, []) /\
  smiles_text g' (lbl (ren_labels s l)) tb' o tabs' = map_order s (smiles_text g (lbl l) tb o tabs).
Proof.
  intros Hwf Hwf' Hs H0 Hp Hr Hmp HnH HnH' Hat Hct Hl Hd Ho Ho'.
  assert (inj_on (ids (strip g)) s) as Hs' by (intros x y _ _; apply Hs).
  assert (atoms_order h ring (strip g) = Ok l) as Hls by (rewrite atoms_order_strip; exact Hl).
  assert (forall n, In n (ids (strip g)) -> ring' (s n) = ring n) as Hr' by (intros n Hn; apply Hr; rewrite <- ids_strip; exact Hn).
  split; [rewrite <- atoms_order_strip; apply (canonical_weights_equivariant h ring ring' (strip g) (strip g') s l Hwf Hs' Hr' Hp Hls Hd)|].
  split; [apply chiral_morgan_discrete; exact Ho|]. split; [apply chiral_morgan_discrete; exact Ho'|].
  apply (smiles_invariant_discrete g g' s (lbl l) (lbl (ren_labels s l)) tb tb' o tabs tabs' flipc); try assumption.
  - rewrite <- ids_strip. apply (w_inj_ids h ring (strip g) l Hwf Hls Hd).
  - intros n Hn. apply (w_ren_ids h ring (strip g) s l Hwf Hs' Hls). rewrite ids_strip. exact Hn.
Qed.

(* == and hash for such molecules: corollary *)
Theorem canonical_eq_hash_structure_only (h : list Z -> Z) (str_hash : string -> Z) (ring ring' : Z -> bool) (g g' : mol) (s tb tb' : Z -> Z)
  (o : opts) (tabs tabs' : stabs) (flipc : Z -> Z -> bool) (l : labels) :
  wf_mol (strip g) = true -> wf_mol (strip g') = true -> (forall x y, s x = s y -> x = y) -> s 0 = 0 ->
  mol_perm (ren_mol s (strip g)) (strip g') -> (forall n, In n (ids g) -> ring' (s n) = ring n) -> o_mapping o = false ->
  (forall x, is_H g x = false) -> (forall x, is_H g' x = false) ->
  same_atom_stereo g g' s tabs tabs' -> same_ct_stereo g g' s tabs tabs' flipc ->
  atoms_order h ring g = Ok l -> NoDup (map snd l) ->
  let d := mkDesc g (lbl l) tb tabs in let d' := mkDesc g' (lbl (ren_labels s l)) tb' tabs' in
  mol_eq (canon_of o) d' d = true /\ mol_hash (canon_of o) str_hash d' = mol_hash (canon_of o) str_hash d.
Proof.
  intros Hwf Hwf' Hs H0 Hp Hr Hmp HnH HnH' Hat Hct Hl Hd d d'.
  assert (inj_on (ids (strip g)) s) as Hs' by (intros x y _ _; apply Hs).
  assert (atoms_order h ring (strip g) = Ok l) as Hls by (rewrite atoms_order_strip; exact Hl).
  destruct (eq_hash_structure_only o str_hash d d' s flipc) as [E1 [_ E2]]; try assumption; [| |split; assumption].
  - cbn [d d_mol d_w]. rewrite <- ids_strip. apply (w_inj_ids h ring (strip g) l Hwf Hls Hd).
  - cbn [d d' d_mol d_w]. intros n Hn. apply (w_ren_ids h ring (strip g) s l Hwf Hs' Hls). rewrite ids_strip. exact Hn.
Qed.
