(* read_full_total: smiles() WITH the hydrogen recheck of create_molecule returns a molecule / reaction or raises a ValueError-class
   exception, for every text and every setting of the switches.  Uses C04's model (calc_implicit, check_implicit, calc_labels_atom)
   and the fact that every element table compiles. *)
From Coq Require Import ZArith List String Ascii Bool Lia.
From Model Require Import PyBase Graph PeriodicTable Valence Tokenize Parser Reader Recheck.
From Gen Require Import Elements.
From Proofs Require Import TokenizeProofs ParserProofs ReaderProofs RecheckProofs.
Import ListNotations.
Open Scope Z_scope.

(* ------------------------------------------------------------------------------------------------ the tables *)
Definition num_ok (z : Z) : bool :=
  match from_number z with Some e => match compiled_rules e with Ok _ => true | Err _ => false end | None => false end.
Lemma elements_num_ok_b : forallb (fun e => num_ok (e_num e)) elements = true.
Proof. vm_compute. reflexivity. Qed.
Lemma find_element_num_ok sym e : find_element sym = Some e -> num_ok (e_num e) = true.
Proof.
  unfold find_element. intros H. apply find_some in H. destruct H as [H _].
  exact (proj1 (forallb_forall _ _) elements_num_ok_b e H).
Qed.

Lemma lookup_rules_err t c r v e : (exists tb, t = Ok tb) -> lookup_rules t c r v = Err e -> e = ValenceError.
Proof. intros [tb ->]. unfold lookup_rules. destruct (rt_get tb (c, r, v)); intros H; inversion H; reflexivity. Qed.

(* ------------------------------------------------------------------------------------------------ C04's functions do not raise on sound graphs *)
Definition all_known (nv : nview) : Prop := forall o z, In (o, z) nv -> z <> None.

Lemma scan_calc_noraise ok nv : all_known nv -> forall s d a e, scan_calc ok nv s d a <> SRaise e.
Proof.
  induction nv as [|[o z] r IH]; intros K s d a e; cbn [scan_calc]; [discriminate|].
  assert (Kr : all_known r) by (intros o' z' H; apply (K o' z'); right; exact H).
  destruct (o =? 4); [destruct ok; [apply IH; exact Kr | discriminate]|].
  destruct (negb (o =? 8)); [|apply IH; exact Kr].
  destruct z as [zn|]; [apply IH; exact Kr | exfalso; exact (K o None (or_introl eq_refl) eq_refl)].
Qed.
Lemma scan_check_noraise nv : all_known nv -> forall s d e, scan_check nv s d <> SRaise e.
Proof.
  induction nv as [|[o z] r IH]; intros K s d e; cbn [scan_check]; [discriminate|].
  assert (Kr : all_known r) by (intros o' z' H; apply (K o' z'); right; exact H).
  destruct (o =? 4); [discriminate|]. destruct (negb (o =? 8)); [|apply IH; exact Kr].
  destruct z as [zn|]; [apply IH; exact Kr | exfalso; exact (K o None (or_introl eq_refl) eq_refl)].
Qed.
Lemma labels_loop_ok nv : all_known nv -> forall a b c d, exists l, labels_loop nv a b c d = Ok l.
Proof.
  induction nv as [|[o z] r IH]; intros K a b c d; cbn [labels_loop]; [eexists; reflexivity|].
  assert (Kr : all_known r) by (intros o' z' H; apply (K o' z'); right; exact H).
  destruct (o =? 8); [apply IH; exact Kr|].
  destruct z as [zn|]; [|exfalso; exact (K o None (or_introl eq_refl) eq_refl)].
  destruct (zn =? 1); [apply IH; exact Kr|]. destruct (negb (zn =? 6)); apply IH; exact Kr.
Qed.

Lemma calc_atom_ok vr num chg rad nv : all_known nv -> (forall v e, vr v = Err e -> e = ValenceError) ->
  exists r, calc_atom vr num chg rad nv = Ok r.
Proof.
  intros K V. unfold calc_atom. destruct (num =? 1); [eexists; reflexivity|].
  destruct (scan_calc _ nv 0 [] 0) as [|e|sum d aroma] eqn:E; [eexists; reflexivity | exfalso; exact (scan_calc_noraise _ nv K _ _ _ _ E)|].
  destruct (aroma =? 2); [destruct (sum =? 0); [eexists; reflexivity|]; destruct (sum =? 1); eexists; reflexivity|].
  destruct (aroma =? 3); [destruct (negb (sum =? 0)); eexists; reflexivity|].
  destruct (negb (aroma =? 0)); [eexists; reflexivity|].
  destruct (vr sum) as [rules|e] eqn:Ev; [eexists; reflexivity|]. rewrite (V sum e Ev). eexists; reflexivity.
Qed.
Lemma check_atom_ok vr num nv h : all_known nv -> (forall v e, vr v = Err e -> e = ValenceError) ->
  exists r, check_atom vr num nv h = Ok r.
Proof.
  intros K V. unfold check_atom. destruct (num =? 1); [eexists; reflexivity|].
  destruct (scan_check nv 0 []) as [|e|sum d aroma] eqn:E; [eexists; reflexivity | exfalso; exact (scan_check_noraise nv K _ _ _ E)|].
  destruct (vr sum) as [rules|e] eqn:Ev; [eexists; reflexivity|]. rewrite (V sum e Ev). eexists; reflexivity.
Qed.

(* a graph as create_molecule builds it: every atom has a tabulated element, every atom has a neighbour dictionary, every
   neighbour is an atom *)
Record GW (g : mol) : Prop := mkGW {
  gw_num : forall n a, atom_of g n = Some a -> num_ok (a_num a) = true;
  gw_adj : forall n, In n (ids g) -> exists nb, zget (m_adj g) n = Some nb /\ forall m b, In (m, b) nb -> atom_of g m <> None }.

Lemma in_keys_zget {V} (d : list (Z * V)) k : In k (keys d) -> exists v, zget d k = Some v.
Proof.
  induction d as [|[k0 v0] r IH]; cbn; [intros []|]. intros [<- | H]; [rewrite Z.eqb_refl; eexists; reflexivity|].
  destruct (k =? k0); [eexists; reflexivity | apply IH; exact H].
Qed.

Lemma nview_known g nb : (forall m b, In (m, b) nb -> atom_of g m <> None) -> all_known (nview_of g nb).
Proof.
  intros H o z Hin. unfold nview_of in Hin. apply in_map_iff in Hin. destruct Hin as [[m b] [E Hmb]]. inversion E; subst.
  specialize (H m b Hmb). destruct (atom_of g m); [discriminate | contradiction].
Qed.

Lemma rules_ok a : num_ok (a_num a) = true -> forall c r v e, lookup_rules (rules_of_atom a) c r v = Err e -> e = ValenceError.
Proof.
  intros H c r v e. apply lookup_rules_err. unfold rules_of_atom. unfold num_ok in H.
  destruct (from_number (a_num a)) as [el|]; [|discriminate]. destruct (compiled_rules el) as [tb|]; [exists tb; reflexivity | discriminate].
Qed.

Lemma calc_implicit_ok g n : GW g -> In n (ids g) -> exists r, calc_implicit g n = Ok r.
Proof.
  intros W Hn. unfold calc_implicit. destruct (in_keys_zget (m_atoms g) n Hn) as [a Ea]. fold (atom_of g n) in Ea. rewrite Ea.
  destruct (a_num a =? 1); [eexists; reflexivity|].
  destruct (gw_adj g W n Hn) as [nb [Eb Hb]]. rewrite Eb.
  apply calc_atom_ok; [apply nview_known; exact Hb | intros v e; apply (rules_ok a (gw_num g W n a Ea))].
Qed.
Lemma check_implicit_ok g n h : GW g -> In n (ids g) -> exists r, check_implicit g n h = Ok r.
Proof.
  intros W Hn. unfold check_implicit. destruct (in_keys_zget (m_atoms g) n Hn) as [a Ea]. fold (atom_of g n) in Ea. rewrite Ea.
  destruct (a_num a =? 1); [eexists; reflexivity|].
  destruct (gw_adj g W n Hn) as [nb [Eb Hb]]. rewrite Eb.
  apply check_atom_ok; [apply nview_known; exact Hb | intros v e; apply (rules_ok a (gw_num g W n a Ea))].
Qed.
Lemma calc_labels_ok g n : GW g -> In n (ids g) -> exists l, calc_labels_atom g n = Ok l.
Proof.
  intros W Hn. unfold calc_labels_atom. destruct (gw_adj g W n Hn) as [nb [Eb Hb]]. rewrite Eb.
  apply labels_loop_ok. apply nview_known. exact Hb.
Qed.

(* trying the radical state does not change which atoms and neighbours exist *)
Lemma zget_map_atoms (f : Z -> atom -> atom) l k : zget (map (fun na : Z * atom => (fst na, f (fst na) (snd na))) l) k = option_map (f k) (zget l k).
Proof.
  induction l as [|[k0 a0] r IH]; [reflexivity|]. cbn [map zget fst snd]. destruct (k =? k0) eqn:E; [apply Z.eqb_eq in E; subst; reflexivity | exact IH].
Qed.
Lemma with_rad_atoms g n r : m_atoms (with_rad g n r) =
  map (fun na : Z * atom => (fst na, (fun k a => if k =? n then mkAtom (a_num a) (a_iso a) (a_chg a) r (a_h a) (a_stereo a) else a) (fst na) (snd na))) (m_atoms g).
Proof. unfold with_rad. cbn [m_atoms]. apply map_ext. intros [k a]. cbn [fst snd]. destruct (k =? n); reflexivity. Qed.

Lemma GW_with_rad g n r : GW g -> GW (with_rad g n r) /\ ids (with_rad g n r) = ids g.
Proof.
  intros W.
  assert (AT : forall k, atom_of (with_rad g n r) k = option_map (fun a => if k =? n then mkAtom (a_num a) (a_iso a) (a_chg a) r (a_h a) (a_stereo a) else a) (atom_of g k)).
  { intros k. unfold atom_of. rewrite with_rad_atoms.
    exact (zget_map_atoms (fun k a => if k =? n then mkAtom (a_num a) (a_iso a) (a_chg a) r (a_h a) (a_stereo a) else a) (m_atoms g) k). }
  assert (ID : ids (with_rad g n r) = ids g).
  { unfold ids, keys. rewrite with_rad_atoms, map_map. apply map_ext. intros [k a]. reflexivity. }
  split; [|exact ID]. constructor.
  - intros k a Ea. rewrite AT in Ea. destruct (atom_of g k) as [a0|] eqn:E0; [|discriminate]. cbn in Ea. inversion Ea; subst.
    pose proof (gw_num g W k a0 E0). destruct (k =? n); cbn; assumption.
  - intros k Hk. rewrite ID in Hk. destruct (gw_adj g W k Hk) as [nb [Eb Hb]]. exists nb. split; [exact Eb|].
    intros m b Hmb. rewrite AT. specialize (Hb m b Hmb). destruct (atom_of g m); [discriminate | contradiction].
Qed.

(* the decision tree on a sound graph: a result, or the ValueError of the strict mode *)
Lemma recheck_atom_total fl g n parsed : GW g -> In n (ids g) -> total (recheck_atom fl g n parsed).
Proof.
  intros W Hn. destruct (recheck_atom fl g n parsed) as [o|e] eqn:E; [exact I|]. cbn.
  destruct (recheck_raises fl g n parsed e E) as [[-> _] | [[_ Hnone] | [Hc | [Hl | [h [_ [Hk | Hk]]]]]]].
  - reflexivity.
  - exfalso. destruct (in_keys_zget (m_atoms g) n Hn) as [a Ea]. unfold atom_of in Hnone. rewrite Ea in Hnone. discriminate.
  - destruct (calc_implicit_ok g n W Hn) as [r Er]. rewrite Er in Hc. discriminate.
  - destruct (calc_labels_ok g n W Hn) as [r Er]. rewrite Er in Hl. discriminate.
  - destruct (check_implicit_ok g n h W Hn) as [r Er]. rewrite Er in Hk. discriminate.
  - destruct (GW_with_rad g n true W) as [W2 ID]. destruct (check_implicit_ok (with_rad g n true) n h W2 ltac:(rewrite ID; exact Hn)) as [r Er].
    rewrite Er in Hk. discriminate.
Qed.

Lemma recheck_loop_total fl g l : GW g -> (forall n a, In (n, a) l -> In n (ids g)) -> total (recheck_loop fl g l).
Proof.
  intros W. induction l as [|[n a] r IH]; intros H; cbn [recheck_loop]; [exact I|].
  pose proof (recheck_atom_total fl g n (a_h a) W (H n a (or_introl eq_refl))) as T.
  destruct (recheck_atom fl g n (a_h a)) as [o|e]; [|exact T].
  specialize (IH (fun n0 a0 Hin => H n0 a0 (or_intror Hin))). destruct (recheck_loop fl g r); [exact I | exact IH].
Qed.

(* ------------------------------------------------------------------------------------------------ what create_molecule returns *)
Definition MW (m : molrec) : Prop :=
  (forall n x, In (n, x) (mr_atoms m) -> atom_ok (fst x) = true) /\
  (forall a b o, In (a, b, o) (mr_bonds m) -> In a (keys (mr_atoms m)) /\ In b (keys (mr_atoms m))).

Lemma zset_In {V} (d : list (Z * V)) k v n x : In (n, x) (zset d k v) -> (n = k /\ x = v) \/ In (n, x) d.
Proof.
  induction d as [|[k0 v0] r IH]; cbn; [intros [H | []]; inversion H; left; split; reflexivity|].
  destruct (k =? k0) eqn:E; cbn.
  - intros [H | H]; [inversion H; subst; apply Z.eqb_eq in E; subst; left; split; reflexivity | right; right; exact H].
  - intros [H | H]; [right; left; exact H | destruct (IH H) as [J | J]; [left; exact J | right; right; exact J]].
Qed.

Lemma make_atoms_wf mapping : forall atoms acc ats, (forall n x, In (n, x) acc -> atom_ok (fst x) = true) ->
  make_atoms mapping atoms acc = Ok ats -> forall n x, In (n, x) ats -> atom_ok (fst x) = true.
Proof.
  induction mapping as [|k mr IH]; intros atoms acc ats Hacc H; cbn [make_atoms] in H; [inversion H; subst; exact Hacc|].
  destruct atoms as [|a ar]; [inversion H; subst; exact Hacc|]. destruct (atom_ok (fst a)) eqn:Ea; [|discriminate].
  apply (IH ar (zset acc k a) ats); [|exact H]. intros n x Hin. destruct (zset_In acc k a n x Hin) as [[_ ->] | J]; [exact Ea | exact (Hacc n x J)].
Qed.

Lemma make_bonds_wf mapping nums bs : forall done res, (forall a b o, In (a, b, o) done -> In a nums /\ In b nums) ->
  make_bonds mapping nums bs done = Ok res -> forall a b o, In (a, b, o) res -> In a nums /\ In b nums.
Proof.
  induction bs as [|[[i j] p] r IH]; intros done res Hd H; cbn [make_bonds] in H; [inversion H; subst; exact Hd|].
  destruct (map_at mapping i) as [n|]; [|discriminate]. destruct (map_at mapping j) as [m|]; [|discriminate].
  destruct (n =? m); [discriminate|]. destruct (zmem n nums && zmem m nums) eqn:Ez; [|discriminate]. cbn [negb] in H.
  destruct (existsb _ done); [discriminate|]. destruct (bond_order p) as [o|]; [|discriminate].
  apply (IH (done ++ [(n, m, o)]) res); [|exact H]. intros a b o' Hin. apply in_app_or in Hin. destruct Hin as [Hin | [Hin | []]]; [exact (Hd a b o' Hin)|].
  inversion Hin; subst. apply andb_prop in Ez. destruct Ez as [Z1 Z2]. split; apply zmem_In; assumption.
Qed.

Lemma create_molecule_wf mapping atoms bonds m : create_molecule mapping atoms bonds = Ok m -> MW m.
Proof.
  unfold create_molecule. destruct (make_atoms mapping atoms []) as [ats|] eqn:Ea; [|discriminate].
  destruct (make_bonds mapping (keys ats) bonds []) as [bs|] eqn:Eb; [|discriminate]. intros H. inversion H; subst. split; cbn [mr_atoms mr_bonds].
  - apply (make_atoms_wf mapping atoms [] ats (fun n x (Hin : In (n, x) []) => match Hin with end) Ea).
  - apply (make_bonds_wf mapping (keys ats) bonds [] bs (fun a b o (Hin : In (a, b, o) []) => match Hin with end) Eb).
Qed.

(* ... is a sound graph for C04's functions *)
Lemma atoms_of_rec_ok l : (forall n x, In (n, x) l -> atom_ok (fst x) = true) ->
  exists ats, atoms_of_rec l = Some ats /\ keys ats = keys l /\ forall n a, In (n, a) ats -> num_ok (a_num a) = true.
Proof.
  induction l as [|[n x] r IH]; intros H; [exists []; repeat split; intros ? ? []|].
  destruct IH as [ats [E1 [E2 E3]]]; [intros n0 x0 Hin; apply (H n0 x0); right; exact Hin|].
  pose proof (H n x (or_introl eq_refl)) as Hx. unfold atom_ok in Hx. cbn [atoms_of_rec]. unfold atom_of_rec.
  destruct (find_element (at_el (fst x))) as [e|] eqn:Ef; [|discriminate]. rewrite E1.
  eexists. split; [reflexivity|]. split; [unfold keys in *; cbn; rewrite E2; reflexivity|].
  intros n0 a [Hin | Hin]; [inversion Hin; subst; cbn; exact (find_element_num_ok _ e Ef) | exact (E3 n0 a Hin)].
Qed.

Lemma adj_of_in bs n m o : In (m, o) (adj_of bs n) -> exists a b, In (a, b, o) bs /\ (m = a \/ m = b).
Proof.
  unfold adj_of. rewrite in_flat_map. intros [[[a b] o'] [Hin H]]. destruct (Z.eqb a n); [destruct H as [H | []]; inversion H; subst; exists a, m; tauto|].
  destruct (Z.eqb b n); [destruct H as [H | []]; inversion H; subst; exists m, b; tauto | destruct H].
Qed.

Lemma mol_of_molrec_GW m : MW m -> exists g, mol_of_molrec m = Some g /\ GW g /\ forall n a, In (n, a) (m_atoms g) -> In n (ids g).
Proof.
  intros [M1 M2]. unfold mol_of_molrec. destruct (atoms_of_rec_ok (mr_atoms m) M1) as [ats [E1 [E2 E3]]]. rewrite E1.
  eexists. split; [reflexivity|]. split; [|intros n a Hin; unfold ids; cbn [m_atoms]; change n with (fst (n, a)); apply in_map; exact Hin].
  constructor; cbn [m_atoms m_adj].
  - intros n a Ha. unfold atom_of in Ha. cbn [m_atoms] in Ha. apply (E3 n a). clear - Ha. induction ats as [|[k v] r IH]; cbn in Ha; [discriminate|].
    destruct (n =? k) eqn:E; [inversion Ha; subst; apply Z.eqb_eq in E; subst; left; reflexivity | right; apply IH; exact Ha].
  - intros n Hn. unfold ids in Hn. cbn [m_atoms] in Hn. rewrite E2 in Hn.
    assert (ZG : forall l : list (Z * (atomtok * bool)), In n (keys l) ->
               exists nb, zget (map (fun na : Z * (atomtok * bool) => (fst na, map (fun mo : Z * Z => (fst mo, mkBond (snd mo) None)) (adj_of (mr_bonds m) (fst na)))) l) n = Some nb /\
                          nb = map (fun mo : Z * Z => (fst mo, mkBond (snd mo) None)) (adj_of (mr_bonds m) n)).
    { induction l as [|[k v] r IH]; cbn; [intros []|]. intros [<- | H]; [rewrite Z.eqb_refl; eexists; split; reflexivity|].
      destruct (n =? k) eqn:E; [apply Z.eqb_eq in E; subst; eexists; split; reflexivity | apply IH; exact H]. }
    destruct (ZG (mr_atoms m) Hn) as [nb [Eb ->]]. exists (map (fun mo : Z * Z => (fst mo, mkBond (snd mo) None)) (adj_of (mr_bonds m) n)). split; [exact Eb|].
    intros k b Hin. apply in_map_iff in Hin. destruct Hin as [[k1 o] [E Hko]]. cbn [fst snd] in E.
    assert (K1 : k1 = k) by (inversion E; reflexivity). subst k1. clear E.
    destruct (adj_of_in _ _ _ _ Hko) as [a [b' [Hb Hk]]]. destruct (M2 a b' o Hb) as [Ka Kb].
    assert (Kk : In k (keys ats)) by (rewrite E2; destruct Hk; subst; assumption).
    unfold atom_of. cbn [m_atoms]. destruct (in_keys_zget ats k Kk) as [v Ev]. rewrite Ev. discriminate.
Qed.

Lemma recheck_mol_total fl m : MW m -> total (recheck_mol fl m).
Proof.
  intros W. unfold recheck_mol. destruct (mol_of_molrec_GW m W) as [g [-> [Gw Hin]]]. apply recheck_loop_total; assumption.
Qed.
Lemma recheck_all_total fl ms : Forall MW ms -> total (recheck_all fl ms).
Proof.
  induction ms as [|m r IH]; intros H; cbn [recheck_all]; [exact I|]. inversion H; subst.
  pose proof (recheck_mol_total fl m H2) as T. destruct (recheck_mol fl m); [|exact T]. specialize (IH H3). destruct (recheck_all fl r); [exact I | exact IH].
Qed.

(* ------------------------------------------------------------------------------------------------ every molecule smiles() builds is sound *)
Lemma create_role_wf ignore ms l : create_role ignore ms = Ok l -> (forall m, In (Ok m) ms -> MW m) -> Forall MW l.
Proof.
  revert l. induction ms as [|x r IH]; intros l H Hm; cbn [create_role] in H; [inversion H; constructor|].
  destruct x as [m|e].
  - destruct (create_role ignore r) as [l'|] eqn:E; [|discriminate]. inversion H; subst. constructor; [apply Hm; left; reflexivity|].
    apply IH; [reflexivity | intros m0 H0; apply Hm; right; exact H0].
  - destruct (is_ve e && ignore); [|discriminate]. apply IH; [exact H | intros m0 H0; apply Hm; right; exact H0].
Qed.

Lemma mk_MW (l : list (list Z * list (atomtok * bool) * parsed)) m :
  In (Ok m) (map (fun t : list Z * list (atomtok * bool) * parsed => let '(mp, a, p) := t in create_molecule mp a (p_bonds p)) l) -> MW m.
Proof. intros H. apply in_map_iff in H. destruct H as [[[mp a] p] [E _]]. exact (create_molecule_wf _ _ _ _ E). Qed.

Lemma read_wf ignore remap s res : read ignore remap s = Ok res ->
  match res with RMol m => MW m | RRxn a b c => Forall MW a /\ Forall MW b /\ Forall MW c end.
Proof.
  unfold read, read_with. destruct (list_ascii_of_string s) as [|c0 d]; [discriminate|].
  destruct (split_ws (c0 :: d)) as [|smi rest]; [discriminate|].
  destruct (match rest with cxs :: _ => _ | [] => _ end) as [[rads contract]|]; [|discriminate].
  destruct (existsb (Ascii.eqb ">") smi).
  - unfold read_reaction. destruct (split_on ">" smi) as [|t_r [|t_g [|t_p [|]]]]; try discriminate.
    destruct (role_pieces ignore t_r) as [R0|]; [|discriminate]. destruct (role_pieces ignore t_p) as [P0|]; [|discriminate].
    destruct (role_pieces ignore t_g) as [G0|]; [|discriminate].
    destruct (match contract with Some c => contract_roles c R0 P0 G0 | None => Ok (R0, P0, G0) end) as [[[R P] G]|]; [|discriminate].
    destruct (map_res (parse_text tokenize parse ignore) R) as [pR|]; [|discriminate].
    destruct (map_res (parse_text tokenize parse ignore) P) as [pP|]; [|discriminate].
    destruct (map_res (parse_text tokenize parse ignore) G) as [pG|]; [|discriminate]. cbv zeta.
    destruct (set_radicals true KeyError _ rads) as [flat|]; [|discriminate].
    destruct (pp_reaction remap ignore _ _ _) as [[[mR mP] mG]|]; [|discriminate].
    destruct (create_role ignore _) as [rc|] eqn:E1; [|discriminate].
    destruct (create_role ignore _) as [prd|] eqn:E2 in |- *; [|discriminate].
    destruct (create_role ignore _) as [rgt|] eqn:E3 in |- *; [|discriminate].
    intros H. assert (HR : res = RRxn rc rgt prd) by (destruct rc, prd, rgt; inversion H; reflexivity). subst res.
    repeat split; [eapply create_role_wf; [exact E1|] | eapply create_role_wf; [exact E3|] | eapply create_role_wf; [exact E2|]]; intros m Hm; exact (mk_MW _ m Hm).
  - unfold read_molecule. destruct (parse_text tokenize parse ignore smi) as [p|]; [|discriminate].
    destruct (set_radicals true IndexError (no_rad p) rads) as [atoms|]; [|discriminate].
    destruct (pp_molecule remap ignore _) as [mapping|]; [|discriminate].
    destruct (create_molecule mapping atoms (p_bonds p)) as [m|] eqn:E; [|discriminate]. intros H. inversion H; subst. exact (create_molecule_wf _ _ _ _ E).
Qed.

(* ------------------------------------------------------------------------------------------------ the theorem *)
(* smiles() including the hydrogen recheck / radical decision tree of create_molecule, any text, any switches: a molecule / reaction
   or a ValueError-class exception *)
Theorem read_full_total fl remap s : total (read_full fl remap s).
Proof.
  unfold read_full. pose proof (reader_total (f_ignore fl) remap s) as T. pose proof (read_wf (f_ignore fl) remap s) as W.
  destruct (read (f_ignore fl) remap s) as [res|e]; [|exact T]. specialize (W res eq_refl). destruct res as [m | rc rg pr].
  - pose proof (recheck_mol_total fl m W) as R. destruct (recheck_mol fl m); [exact I | exact R].
  - destruct W as [W1 [W2 W3]].
    pose proof (recheck_all_total fl rc W1) as R1. destruct (recheck_all fl rc); [|exact R1].
    pose proof (recheck_all_total fl pr W3) as R3. destruct (recheck_all fl pr); [|exact R3].
    pose proof (recheck_all_total fl rg W2) as R2. destruct (recheck_all fl rg); [exact I | exact R2].
Qed.
