(* C06 -- extension round 3: the constants of the hand-written ring models are the ones in the source.
   coq/gen/RingsConsts.v is regenerated from chython/algorithms/rings.py and chython/containers/molecule.py on every check run
   (tools/gen_rings.py, ast, fail closed); each lemma below states that a model function is the same function written with the
   generated constant, so an edit of the constant in the source breaks the named lemma. *)
From Coq Require Import ZArith List Bool Lia.
From Model Require Import PyBase Graph Rings RingsFilter RingsGen.
From Gen Require Import RingsConsts.
Import ListNotations.
Open Scope Z_scope.

(* _skin_graph: len(ms) <= 1 *)
Lemma const_skin_terminal : forall e, is_terminal e = Nat.leb (length (snd e)) (Z.to_nat skin_terminal_max).
Proof. reflexivity. Qed.

(* Rings.not_special_connectivity: b != 8 *)
Lemma const_special_order : forall m, graph_of_not_special m =
  map (fun nl => (fst nl, keys (filter (fun mb => negb (b_ord (snd mb) =? special_order)) (snd nl)))) (m_adj m).
Proof. reflexivity. Qed.

(* calc_labels: if bond == 8: bond._in_ring = False; continue *)
Lemma const_labels_special_order : forall sssr n mb,
  bond_label sssr n mb = if b_ord (snd mb) =? labels_special_order then false else bond_in_ring sssr n (fst mb).
Proof. reflexivity. Qed.

(* aromatic_rings: == 4 *)
Fixpoint all_ord (o : Z) (g : mol) (ps : list (Z * Z)) : pyres bool :=
  match ps with
  | [] => Ok true
  | (n, m) :: rest => match bond_ord g n m with Err e => Err e | Ok x => if x =? o then all_ord o g rest else Ok false end
  end.
Lemma const_aromatic_order_all : forall g ps, all4 g ps = all_ord aromatic_order g ps.
Proof. intros g ps. induction ps as [|[n m] rest IH]; [reflexivity|]. cbn [all4 all_ord]. rewrite IH. reflexivity. Qed.
Lemma const_aromatic_order_closing : forall g r0 t, ring_aromatic g (r0 :: t) =
  match bond_ord g r0 (last (r0 :: t) 0) with
  | Err e => Err e
  | Ok o => if o =? aromatic_order then all4 g (combine (r0 :: t) t) else Ok false
  end.
Proof. reflexivity. Qed.

(* _make_pid: defaultdict(lambda: 1e9) *)
Lemma const_pid_default_distance : INF = pid_default_distance.
Proof. reflexivity. Qed.
Lemma const_pid_default_used : forall i j, dist_get [] i j = pid_default_distance.
Proof. reflexivity. Qed.

(* _c_set: di[j] * 2, dij + 1 *)
Lemma const_cset_numbers : forall p2 d i j c1 c2,
  cset_row p2 d [] i [(j, [((0, 0), c1); ((1, 1), c2)])] =
  match d3vals (lookup2 p2 i j) with
  | [] => [(dist_get d i j * cset_factor, [c1; c2], None)]
  | p2ij => [(dist_get d i j * cset_factor, [c1; c2], None); (dist_get d i j * cset_factor + cset_odd_offset, [c1; c2], Some p2ij)]
  end.
Proof. intros. unfold cset_row. cbn [flat_map fst snd zmem existsb]. rewrite app_nil_r. change (d3vals [(0, 0, c1); (1, 1, c2)]) with [c1; c2]. destruct (d3vals (lookup2 p2 i j)); reflexivity. Qed.

(* _is_condensed_ring: > 1 common atoms make two rings neighbours; 2 < len(mc) <= len(c) + 1 continues the search *)
Lemma const_condensed_touch : forall a b, touching a b = Nat.ltb (Z.to_nat condensed_touch_min) (length (common_atoms a b)).
Proof. reflexivity. Qed.
Definition push_ok (mc c : ring) : bool :=
  Nat.ltb (Z.to_nat condensed_push_min) (length mc) && Nat.leb (length mc) (length c + Z.to_nat condensed_push_slack).
Lemma const_condensed_push : forall mc c, push_ok mc c = (Nat.ltb 2 (length mc) && Nat.leb (length mc) (length c + 1)).
Proof. reflexivity. Qed.
(* the case analysis on the number of common atoms ([n; m] = exactly two, three or more) and of terminal atoms (exactly two, each
   with exactly one common neighbour) *)
Lemma const_condensed_cases :
  condensed_common_pair = 2 /\ condensed_common_many = 2 /\ condensed_terminal_contacts = 1 /\ condensed_terminals = 2 /\
  connected_common_pair = 2 /\ connected_common_many = 2 /\ pid_step = 1.
Proof. repeat split. Qed.
Lemma const_term_atoms : forall p_adj common n nb, zget p_adj n = Some nb ->
  term_atoms p_adj common [n] = Ok (if Nat.eqb (length (filter (fun x => zmem x nb) common)) (Z.to_nat condensed_terminal_contacts) then [n] else []).
Proof. intros p_adj common n nb H. cbn [term_atoms]. rewrite H. reflexivity. Qed.

(* _rings_filter: if n_sssr == 1: return [c] *)
Lemma const_filter_single : forall c rest, rings_filter (c :: rest) (Z.to_nat filter_single) = Ok [c].
Proof. reflexivity. Qed.

Theorem model_constants_from_source :
  (forall e, is_terminal e = Nat.leb (length (snd e)) (Z.to_nat skin_terminal_max)) /\
  (forall m, graph_of_not_special m = map (fun nl => (fst nl, keys (filter (fun mb => negb (b_ord (snd mb) =? special_order)) (snd nl)))) (m_adj m)) /\
  (forall sssr n mb, bond_label sssr n mb = if b_ord (snd mb) =? labels_special_order then false else bond_in_ring sssr n (fst mb)) /\
  (forall g ps, all4 g ps = all_ord aromatic_order g ps) /\
  INF = pid_default_distance /\
  (forall a b, touching a b = Nat.ltb (Z.to_nat condensed_touch_min) (length (common_atoms a b))) /\
  (forall mc c, push_ok mc c = (Nat.ltb 2 (length mc) && Nat.leb (length mc) (length c + 1))) /\
  (forall c rest, rings_filter (c :: rest) (Z.to_nat filter_single) = Ok [c]).
Proof.
  split; [apply const_skin_terminal|]. split; [apply const_special_order|]. split; [apply const_labels_special_order|].
  split; [apply const_aromatic_order_all|]. split; [apply const_pid_default_distance|]. split; [apply const_condensed_touch|].
  split; [apply const_condensed_push | apply const_filter_single].
Qed.
