(* C13 -- substructure (with and without recalculation of the hydrogens), hence __and__, never fails for a non-empty selection of
   existing atoms of a well formed molecule. *)
From Coq Require Import ZArith List Bool Lia.
From Model Require Import PyBase Cache.
From Proofs Require Import CacheProofs CacheWf CacheCopy CacheCopyTotal CacheCoh CacheWorld CacheUnion CacheTheorems CacheUsable CacheExamples CacheTxn
  CacheFresh CacheFreshOps CacheFreshWorld CacheUsable2 CacheUsable3.
Import ListNotations.
Open Scope Z_scope.

Lemma rows_of_total adj : forall ns, (forall n, In n ns -> In n (keys adj)) -> exists rows, rows_of adj ns = Ok rows.
Proof.
  induction ns as [|n t IH]; intros Sub; cbn; [eauto|]. destruct (keys_In_zget adj n (Sub n (or_introl eq_refl))) as [r Hr]. rewrite Hr.
  destruct IH as [rows E]; [intros; apply Sub; now right|]. rewrite E. eauto.
Qed.
Lemma sub_finish_total rh h o : inv1 h o -> exists h' o', sub_finish rh h o = (h', o', None).
Proof.
  intros I. destruct rh; [now apply fix_both_total|]. unfold sub_finish. destruct (calc_labels_fresh h o I) as [h1 [o1 [E _]]].
  unfold seq. rewrite E. unfold ok, fix_stereo, read. cbn beta iota. eexists _, _. reflexivity.
Qed.

Theorem sub_total rh ats h o : wf h o -> ats <> [] -> (forall x, In x ats -> In x (keys (o_atoms o))) ->
  exists h2 o2, substructure_g rh ats h o = Ok (h2, o2, None).
Proof.
  intros Wf Ne Sub. pose proof Wf as [Wk Wnd Wsym Wloop Wval Wlt].
  assert (exists h1 sb, match ats with [] => False | _ => True end /\ subset_z ats (keys (o_atoms o)) = true /\
            sub_rows h o (filter (fun n => zmem n ats) (keys (o_atoms o))) = Ok (h1, sb)) as [h1 [sb [A1 [A2 A3]]]].
  { set (sel := filter (fun n => zmem n ats) (keys (o_atoms o))).
    assert (forall n, In n sel -> In n (keys (o_adj o))) as Sk by (intros n Hn; unfold sel in Hn; apply filter_In in Hn; rewrite Wk; tauto).
    destruct (rows_of_total (o_adj o) sel Sk) as [rows Er]. destruct (rows_of_spec _ _ _ Er) as [Kr Src].
    assert (NoDup (keys rows)) as ND. { rewrite Kr. unfold sel. apply NoDup_filter. rewrite <- Wk. apply Wnd. }
    destruct (gcopy_rows_total (fun m => zmem m sel) fsub h (o_adj o) Wnd Wsym Wlt Wloop) with (rows := rows) (done := @nil (Z * list (Z * ref))) (h := h) (cb := @nil (Z * list (Z * ref)))
      as [h1 [sb E]].
    - intros r Hr. destruct (Wval r Hr) as [c Hc]. exists c, (mkB (b_ord c) false). split; [exact Hc | reflexivity].
    - exact Src.
    - exact ND.
    - intros n Hn. apply zmem_In. now rewrite <- Kr.
    - split; [apply hext_refl|]. split; [constructor|]. intros x y r1 r2 H. discriminate.
    - exists h1, sb. split; [destruct ats; [contradiction | exact I]|]. split.
      + unfold subset_z. apply forallb_forall. intros x Hx. apply zmem_In. now apply Sub.
      + unfold sub_rows. fold sel. rewrite Er. exact E. }
  assert (exists r, substructure_g rh ats h o = Ok r) as [[[h2 o2] e] E].
  { unfold substructure_g. destruct ats as [|a0 t]; [contradiction|]. rewrite A2. cbn [negb]. rewrite A3. eauto. }
  destruct (sub_spec_g _ _ _ _ _ _ _ Wf E) as [h1' [sub0 [_ [I0 [_ [_ [_ [_ R]]]]]]]].
  destruct (sub_finish_total rh h1' sub0 I0) as [h' [o' T]]. rewrite T in R. inversion R; subst. eauto.
Qed.

Theorem sub_editable s ats : W s -> ats <> [] -> (forall x, In x ats -> In x (keys (o_atoms (s_cur s)))) ->
  snd (step s (OSub ats)) = None /\ snd (step s (OAnd ats)) = None /\ snd (step s (OSubH ats)) = None.
Proof.
  intros Ws Ne Sub. pose proof (W_cur s Ws) as [[Wf _] _]. cbn [step]. unfold sub_step, sub_step_g.
  destruct (sub_total true ats _ _ Wf Ne Sub) as [h2 [o2 E]]. destruct (sub_total false ats _ _ Wf Ne Sub) as [h3 [o3 E3]].
  rewrite E, E3. auto.
Qed.
