(* C11: random access.  The index SDFRead builds (one entry after every line containing "$$$$") addresses the records, and a step-1
   slice reader[i:j] makes j-i read attempts from record i: on a file whose record lines do not contain "$$$$" it returns what the
   records i..j-1 yield on their own lines - the same results sequential reading gives for them. *)
From Coq Require Import ZArith List String Ascii Bool Lia.
From Model Require Import PyBase Mdl.
From Proofs Require Import MdlProofs MdlFraming.
Import ListNotations.
Open Scope Z_scope.
Local Notation length := List.length.
Local Notation concat := List.concat.

Section Slices.
  Variable A : Type.
  Variable build_mol : parsed3 -> pyres A.
  Variable buffer_size : nat.

  (* what __getitem__ does with the per-record results: ValueError skipped, EOFError ends, anything else (IndexError included) propagates *)
  Fixpoint slice_collect (rs : list (record_result A)) : list (A * list (str * str)) * outcome :=
    match rs with
    | [] => ([], Exhausted)
    | inl x :: r => let '(l, o) := slice_collect r in (x :: l, o)
    | inr EOFError :: _ => ([], Exhausted)
    | inr (Py e) :: r => if is_value_error e then slice_collect r else ([], Crashed (Py e))
    | inr e :: _ => ([], Crashed e)
    end.

  Definition rec_ok (rd : list str * str) : Prop :=
    sdf_record_ok buffer_size (fst rd) /\ Forall (fun l => has_delim l = false) (fst rd) /\ is_delim (snd rd) = true.

  Lemma contains_startswith p s : startswith p s = true -> contains p s = true.
  Proof. intros H. destruct s; cbn [contains]; rewrite H; reflexivity. Qed.
  Lemma rec_delim_has rd : rec_ok rd -> has_delim (snd rd) = true.
  Proof. intros [_ [_ H]]. apply contains_startswith. exact H. Qed.

  Lemma seek_0 f : sdf_seek f 0 = f.
  Proof. destruct f; reflexivity. Qed.
  Lemma seek_lines ls : forall rest k, Forall (fun l => has_delim l = false) ls -> sdf_seek (ls ++ rest) (S k) = sdf_seek rest (S k).
  Proof.
    induction ls as [|l ls IH]; intros rest k H; [reflexivity|]. inversion H as [|? ? Hl H']; subst.
    cbn [app sdf_seek]. rewrite Hl. apply IH. exact H'.
  Qed.
  Lemma seek_records recs : forall k, Forall rec_ok recs -> (k <= length recs)%nat ->
    sdf_seek (sdf_file recs []) k = sdf_file (skipn k recs) [].
  Proof.
    induction recs as [|[r d] recs IH]; intros k H Hk.
    - destruct k; [apply seek_0 | cbn [length] in Hk; lia].
    - destruct k as [|k]; [apply seek_0|]. inversion H as [|? ? Hr H']; subst.
      unfold sdf_file. cbn [map concat fst snd skipn]. rewrite <- !app_assoc. cbn [app].
      rewrite seek_lines by apply Hr. cbn [sdf_seek]. pose proof (rec_delim_has _ Hr) as Hd. cbn [snd] in Hd. rewrite Hd.
      fold (sdf_file recs []). apply IH; [exact H' | cbn [length] in Hk; lia].
  Qed.
  Lemma index_len_records recs : Forall rec_ok recs -> sdf_index_len (sdf_file recs []) = length recs.
  Proof.
    unfold sdf_index_len. induction 1 as [|[r d] recs Hr _ IH]; [reflexivity|].
    unfold sdf_file in *. cbn [map concat fst snd]. rewrite <- !app_assoc. rewrite filter_app, app_length.
    assert (E : filter has_delim r = []).
    { destruct Hr as [_ [Hr _]]. cbn [fst] in Hr. clear - Hr. induction Hr as [|l r Hl _ IHr]; [reflexivity|]. cbn [filter]. rewrite Hl. exact IHr. }
    rewrite E. cbn [length app filter]. pose proof (rec_delim_has _ Hr) as Hd. cbn [snd] in Hd. rewrite Hd. cbn [length]. rewrite app_nil_r in IH. rewrite app_nil_r. rewrite IH. reflexivity.
  Qed.

  Lemma take_records recs : forall n, Forall rec_ok recs -> (n <= length recs)%nat ->
    sdf_take A build_mol buffer_size n (sdf_file recs []) = slice_collect (map (sdf_one A build_mol true) (map fst (firstn n recs))).
  Proof.
    induction recs as [|[r d] recs IH]; intros n H Hn.
    - destruct n; [reflexivity | cbn [length] in Hn; lia].
    - destruct n as [|n]; [reflexivity|]. inversion H as [|? ? Hr H']; subst.
      unfold sdf_file. cbn [map concat fst snd firstn]. rewrite <- !app_assoc. cbn [app sdf_take].
      rewrite sdf_structure_record by (destruct Hr as [H1 [_ H3]]; assumption).
      fold (sdf_file recs []). specialize (IH n H' ltac:(cbn [length] in Hn; lia)).
      assert (Hne : sdf_one A build_mol true r <> inr EOFError) by (apply sdf_one_not_eof; left; reflexivity).
      destruct (sdf_one A build_mol true r) as [x|[e| |]]; cbn [slice_collect].
      + rewrite IH. reflexivity.
      + destruct (is_value_error e); [exact IH | reflexivity].
      + contradiction.
      + reflexivity.
  Qed.

  Lemma Forall_skipn {T} (P : T -> Prop) l : forall n, Forall P l -> Forall P (skipn n l).
  Proof. induction l as [|x l IH]; intros [|n] H; cbn [skipn]; try assumption. inversion H; subst. apply IH. assumption. Qed.

  Lemma In_firstn {T} (x : T) l : forall n, In x (firstn n l) -> In x l.
  Proof. induction l as [|y l IH]; intros [|n] H; cbn [firstn] in H; try contradiction. destruct H as [H|H]; [left; exact H | right; apply (IH n H)]. Qed.
  Lemma In_skipn {T} (x : T) l : forall n, In x (skipn n l) -> In x l.
  Proof. induction l as [|y l IH]; intros [|n] H; cbn [skipn] in H; try assumption. right. apply (IH n H). Qed.

  (* random access: reader[i:j] on an indexable SD file *)
  Theorem sdf_getslice_records recs i j : Forall rec_ok recs ->
    sdf_getslice A build_mol buffer_size i j (sdf_file recs []) =
    slice_collect (map (sdf_one A build_mol true) (map fst (firstn (Nat.min j (length recs) - Nat.min i (length recs)) (skipn (Nat.min i (length recs)) recs)))).
  Proof.
    intros H. unfold sdf_getslice. rewrite index_len_records by exact H.
    set (a := Nat.min i (length recs)). set (b := Nat.min j (length recs)).
    destruct (Nat.leb b a) eqn:E.
    - apply Nat.leb_le in E. replace (b - a)%nat with 0%nat by lia. reflexivity.
    - apply Nat.leb_gt in E. rewrite seek_records by (try assumption; subst a; lia).
      apply take_records.
      + apply Forall_skipn. exact H.
      + rewrite skipn_length. subst a b. lia.
  Qed.

  (* ... and what it returns agrees with sequential reading: when every record either parses or raises a ValueError, the slice is
     the sub-range of the records sequential reading yields *)
  Definition val_skippable (r : record_result A) : Prop :=
    match r with inl _ => True | inr (Py e) => is_value_error e = true | inr _ => False end.
  Lemma slice_collect_successes rs : Forall val_skippable rs -> slice_collect rs = (successes A rs, Exhausted).
  Proof.
    induction 1 as [|r rs Hr _ IH]; [reflexivity|]. destruct r as [x|[e| |]]; cbn [slice_collect successes flat_map app] in *.
    - rewrite IH. reflexivity.
    - rewrite Hr. exact IH.
    - contradiction.
    - contradiction.
  Qed.
  Theorem sdf_random_access_is_sequential recs i j : Forall rec_ok recs ->
    Forall val_skippable (map (sdf_one A build_mol true) (map fst recs)) -> (i <= j <= length recs)%nat ->
    sdf_getslice A build_mol buffer_size i j (sdf_file recs []) =
      (successes A (map (sdf_one A build_mol true) (map fst (firstn (j - i) (skipn i recs)))), Exhausted) /\
    sdf_read A build_mol buffer_size (sdf_file recs []) = (successes A (map (sdf_one A build_mol true) (map fst recs)), Exhausted).
  Proof.
    intros H Hv Hij. split.
    - rewrite sdf_getslice_records by exact H. rewrite !Nat.min_l by lia. apply slice_collect_successes.
      rewrite Forall_forall in *. intros r Hin. apply Hv. rewrite in_map_iff in *. destruct Hin as [x [E Hx]]. exists x. split; [exact E|].
      rewrite in_map_iff in *. destruct Hx as [rd [E' Hrd]]. exists rd. split; [exact E'|]. apply In_firstn in Hrd. apply In_skipn in Hrd. exact Hrd.
    - rewrite sdf_damaged_records_skipped.
      + unfold sdf_results. unfold successes. rewrite flat_map_app. cbn [sdf_one flat_map app]. rewrite !app_nil_r. reflexivity.
      + eapply Forall_impl; [|exact H]. intros rd [H1 [_ H3]]. split; assumption.
      + split; [constructor | cbn [length]; lia].
      + unfold sdf_results. apply Forall_app. split; [|repeat constructor].
        eapply Forall_impl; [|exact Hv]. intros r Hr. destruct r as [x|[e| |]]; cbn in *; try exact I; try contradiction.
        unfold is_skipped. rewrite Hr. reflexivity.
  Qed.
End Slices.

(* non-vacuity: the five-record example file of MdlFraming (records 1 and 2 raise ValueError, record 3 IndexError) *)
Example sdf_slices_example :
  Forall (rec_ok 100) ex_recs /\
  sdf_getslice (option str) ex_build 100 0 3 (sdf_file ex_recs []) = ([(Some (L "a"), [(L "k", L "v")])], Exhausted) /\
  sdf_getslice (option str) ex_build 100 4 9 (sdf_file ex_recs []) = ([(Some (L "c"), [(L "k", L "v")])], Exhausted) /\
  snd (sdf_getslice (option str) ex_build 100 2 5 (sdf_file ex_recs [])) = Crashed (Py IndexError).
Proof.
  split; [|split; [|split]]; try (vm_compute; reflexivity).
  unfold rec_ok, sdf_record_ok. repeat constructor; try (vm_compute; reflexivity); cbn; lia.
Qed.
