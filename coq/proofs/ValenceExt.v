(* C04 extension -- proofs about Model.ValenceArom.  Sections:
     A. the aromatic branch of calc_implicit is the closed form arom_h: exact characterisation of the counts 1 / 0 / None,
        independence of the rule table and of the neighbour order, agreement with the localised rules on the Kekule
        spelling of the environment *)
From Coq Require Import ZArith List String Bool Lia Permutation.
From Model Require Import PyBase Graph PeriodicTable Valence ValenceArom.
From Gen Require Import Elements.
From Proofs Require Import ValenceProofs.
Import ListNotations.
Open Scope Z_scope.

(* ================================================================================================
   A. aromatic branch
   ================================================================================================ *)
Lemma has_arom_has4 e : has_arom e = has4 e.
Proof. reflexivity. Qed.
Lemma arom_bonds_n4 e : arom_bonds e = n4 e.
Proof. reflexivity. Qed.
Lemma sigma_sum_esum e : sigma_sum e = esum (expl e).
Proof.
  unfold sigma_sum, esum, expl, is_expl. induction e as [|[o z] r IH]; cbn [fold_right filter fst]; [reflexivity|].
  destruct (o =? 4); cbn [negb andb orb]; [exact IH|]. destruct (o =? 8); cbn [negb orb fold_right fst]; [exact IH | rewrite IH; reflexivity].
Qed.

Lemma n4_pos e : has4 e = true -> 1 <= n4 e.
Proof.
  unfold has4, n4. induction e as [|x r IH]; cbn [existsb filter]; [discriminate|].
  destruct (is4 x); cbn [orb List.length]; [lia | exact IH].
Qed.
Lemma n4_zero e : has4 e = false -> n4 e = 0.
Proof.
  unfold has4, n4. induction e as [|x r IH]; cbn [existsb filter]; [reflexivity|].
  destruct (is4 x); cbn [orb]; [discriminate | exact IH].
Qed.

(* the whole aromatic branch in one equation: whatever the rule table, a non-hydrogen atom with an aromatic bond gets
   exactly arom_h *)
Theorem calc_env_aromatic t num chg rad e : num <> 1 -> has_arom e = true ->
  calc_env t num chg rad e = Ok (arom_h num chg rad e).
Proof.
  intros H1 H4. apply Z.eqb_neq in H1. rewrite has_arom_has4 in H4. pose proof (n4_pos e H4) as Hp.
  unfold calc_env, calc_atom, arom_h. rewrite H1, scan_calc_env, H4, sigma_sum_esum. change (arom_bonds e) with (n4 e).
  fold (arom_supported num chg rad). destruct (arom_supported num chg rad); cbn [negb andb]; [|reflexivity].
  rewrite !Z.add_0_l.
  destruct (n4 e =? 2); [destruct (esum (expl e) =? 0); [reflexivity | destruct (esum (expl e) =? 1); reflexivity]|].
  destruct (n4 e =? 3); [destruct (esum (expl e) =? 0); reflexivity|].
  destruct (n4 e =? 0) eqn:E0; [apply Z.eqb_eq in E0; lia | reflexivity].
Qed.

(* hydrogen itself: 0, whatever its bonds *)
Theorem calc_env_hydrogen t chg rad e : calc_env t 1 chg rad e = Ok (Some 0).
Proof. reflexivity. Qed.

(* the rule table is never consulted *)
Theorem calc_env_aromatic_table_free t t' num chg rad e : has_arom e = true ->
  calc_env t num chg rad e = calc_env t' num chg rad e.
Proof.
  intros H4. destruct (Z.eq_dec num 1) as [E | E]; [subst; reflexivity|].
  rewrite (calc_env_aromatic t _ _ _ _ E H4), (calc_env_aromatic t' _ _ _ _ E H4). reflexivity.
Qed.

(* check_implicit refuses every count ("can't check aromatic rings") *)
Theorem check_env_aromatic t num chg rad e h : num <> 1 -> has_arom e = true -> check_env t num chg rad e h = Ok false.
Proof.
  intros H1 H4. apply Z.eqb_neq in H1. rewrite has_arom_has4 in H4.
  unfold check_env, check_atom. rewrite H1, scan_check_env, H4. reflexivity.
Qed.

Lemma arom_h_cases num chg rad e :
  (arom_h num chg rad e = Some 1 /\ arom_supported num chg rad = true /\ arom_bonds e = 2 /\ sigma_sum e = 0) \/
  (arom_h num chg rad e = Some 0 /\ arom_supported num chg rad = true /\
     ((arom_bonds e = 2 /\ sigma_sum e = 1) \/ (arom_bonds e = 3 /\ sigma_sum e = 0))) \/
  (arom_h num chg rad e = None /\
     ~ (arom_supported num chg rad = true /\
        ((arom_bonds e = 2 /\ (sigma_sum e = 0 \/ sigma_sum e = 1)) \/ (arom_bonds e = 3 /\ sigma_sum e = 0)))).
Proof.
  unfold arom_h. destruct (arom_supported num chg rad); [|right; right; split; [reflexivity | intros [H _]; discriminate]].
  destruct (arom_bonds e =? 2) eqn:E2.
  - apply Z.eqb_eq in E2. destruct (sigma_sum e =? 0) eqn:S0; [apply Z.eqb_eq in S0; left; auto|].
    apply Z.eqb_neq in S0. destruct (sigma_sum e =? 1) eqn:S1; [apply Z.eqb_eq in S1; right; left; auto|].
    apply Z.eqb_neq in S1. right. right. split; [reflexivity|]. intros [_ [[_ [H | H]] | [H _]]]; lia.
  - apply Z.eqb_neq in E2. destruct (arom_bonds e =? 3) eqn:E3.
    + apply Z.eqb_eq in E3. destruct (sigma_sum e =? 0) eqn:S0; [apply Z.eqb_eq in S0; right; left; auto|].
      apply Z.eqb_neq in S0. right. right. split; [reflexivity|]. intros [_ [[H _] | [_ H]]]; lia.
    + apply Z.eqb_neq in E3. right. right. split; [reflexivity|]. intros [_ [[H _] | [H _]]]; lia.
Qed.

Ltac fin := first [discriminate | tauto | (exfalso; intuition lia) | reflexivity].

Lemma arom_supported_iff num chg rad : arom_supported num chg rad = true <-> num = 6 /\ chg = 0 /\ rad = false.
Proof.
  unfold arom_supported. rewrite !andb_true_iff, negb_true_iff, !Z.eqb_eq. tauto.
Qed.

(* one aromatic hydrogen: exactly the neutral, non-radical carbon with two aromatic bonds and no localised bond *)
Theorem aromatic_h1_iff t num chg rad e : num <> 1 -> has_arom e = true ->
  (calc_env t num chg rad e = Ok (Some 1) <->
   num = 6 /\ chg = 0 /\ rad = false /\ arom_bonds e = 2 /\ sigma_sum e = 0).
Proof.
  intros H1 H4. rewrite (calc_env_aromatic t _ _ _ _ H1 H4).
  assert (R : (num = 6 /\ chg = 0 /\ rad = false /\ arom_bonds e = 2 /\ sigma_sum e = 0) <->
              (arom_supported num chg rad = true /\ arom_bonds e = 2 /\ sigma_sum e = 0))
    by (rewrite arom_supported_iff; tauto).
  rewrite R.
  destruct (arom_h_cases num chg rad e) as [[E [S [A B]]] | [[E [S C]] | [E N]]]; rewrite E; split; intros X; fin.
Qed.

(* no aromatic hydrogen: two aromatic bonds and one single bond, or three aromatic bonds and nothing else *)
Theorem aromatic_h0_iff t num chg rad e : num <> 1 -> has_arom e = true ->
  (calc_env t num chg rad e = Ok (Some 0) <->
   num = 6 /\ chg = 0 /\ rad = false /\
   ((arom_bonds e = 2 /\ sigma_sum e = 1) \/ (arom_bonds e = 3 /\ sigma_sum e = 0))).
Proof.
  intros H1 H4. rewrite (calc_env_aromatic t _ _ _ _ H1 H4).
  assert (R : (num = 6 /\ chg = 0 /\ rad = false /\ ((arom_bonds e = 2 /\ sigma_sum e = 1) \/ (arom_bonds e = 3 /\ sigma_sum e = 0))) <->
              (arom_supported num chg rad = true /\ ((arom_bonds e = 2 /\ sigma_sum e = 1) \/ (arom_bonds e = 3 /\ sigma_sum e = 0))))
    by (rewrite arom_supported_iff; tauto).
  rewrite R.
  destruct (arom_h_cases num chg rad e) as [[E [S [A B]]] | [[E [S C]] | [E N]]]; rewrite E; split; intros X; fin.
Qed.

(* everything else is a valence error: None is stored *)
Theorem aromatic_none_iff t num chg rad e : num <> 1 -> has_arom e = true ->
  (calc_env t num chg rad e = Ok None <->
   ~ (num = 6 /\ chg = 0 /\ rad = false /\
      ((arom_bonds e = 2 /\ (sigma_sum e = 0 \/ sigma_sum e = 1)) \/ (arom_bonds e = 3 /\ sigma_sum e = 0)))).
Proof.
  intros H1 H4. rewrite (calc_env_aromatic t _ _ _ _ H1 H4).
  assert (R : (num = 6 /\ chg = 0 /\ rad = false /\ ((arom_bonds e = 2 /\ (sigma_sum e = 0 \/ sigma_sum e = 1)) \/ (arom_bonds e = 3 /\ sigma_sum e = 0))) <->
              (arom_supported num chg rad = true /\ ((arom_bonds e = 2 /\ (sigma_sum e = 0 \/ sigma_sum e = 1)) \/ (arom_bonds e = 3 /\ sigma_sum e = 0))))
    by (rewrite arom_supported_iff; tauto).
  rewrite R.
  destruct (arom_h_cases num chg rad e) as [[E [S [A B]]] | [[E [S C]] | [E N]]]; rewrite E; split; intros X; fin.
Qed.

(* an aromatic atom that gets a count is three-connected: aromatic bonds + localised bond orders + hydrogens = 3 *)
Theorem aromatic_three_connected t num chg rad e h : num <> 1 -> has_arom e = true ->
  calc_env t num chg rad e = Ok (Some h) -> (h = 0 \/ h = 1) /\ arom_bonds e + sigma_sum e + h = 3.
Proof.
  intros H1 H4. rewrite (calc_env_aromatic t _ _ _ _ H1 H4).
  destruct (arom_h_cases num chg rad e) as [[E [S [A B]]] | [[E [S C]] | [E N]]]; rewrite E; intros H; inversion H; subst.
  - split; [right; reflexivity | lia].
  - split; [left; reflexivity | destruct C as [[A B] | [A B]]; lia].
Qed.

(* with orders >= 1 (every real bond), "sigma_sum = 0" says that all bonds are aromatic or order-8 bonds *)
Lemma sigma_sum_nonneg e : (forall x, In x e -> 1 <= fst x) -> 0 <= sigma_sum e.
Proof.
  unfold sigma_sum. induction e as [|[o z] r IH]; intros H; cbn [fold_right fst]; [lia|].
  assert (Hr : forall x, In x r -> 1 <= fst x) by (intros x Hx; apply H; right; exact Hx).
  specialize (IH Hr). pose proof (H (o, z) (or_introl eq_refl)) as Ho. cbn [fst] in Ho.
  destruct ((o =? 4) || (o =? 8)); lia.
Qed.
Theorem sigma_sum_zero_iff e : (forall x, In x e -> 1 <= fst x) ->
  (sigma_sum e = 0 <-> forall x, In x e -> fst x = 4 \/ fst x = 8).
Proof.
  induction e as [|[o z] r IH]; intros H.
  - split; [intros _ x [] | reflexivity].
  - assert (Hr : forall x, In x r -> 1 <= fst x) by (intros x Hx; apply H; right; exact Hx).
    pose proof (H (o, z) (or_introl eq_refl)) as Ho. cbn [fst] in Ho. pose proof (sigma_sum_nonneg r Hr) as Hn.
    change (sigma_sum ((o, z) :: r)) with (if (o =? 4) || (o =? 8) then sigma_sum r else o + sigma_sum r).
    destruct ((o =? 4) || (o =? 8)) eqn:E.
    + rewrite (IH Hr). split.
      * intros A x [Hx | Hx]; [subst x; cbn [fst]; apply orb_prop in E; rewrite !Z.eqb_eq in E; exact E | apply A; exact Hx].
      * intros A x Hx. apply A. right. exact Hx.
    + split; [lia|]. intros A. specialize (A (o, z) (or_introl eq_refl)). cbn [fst] in A.
      apply orb_false_iff in E. rewrite !Z.eqb_neq in E. lia.
Qed.

(* neighbour-order independence of the closed form and (corollary of calc_env_multiset) of the aromatic branch *)
Lemma arom_h_multiset num chg rad e e' : Permutation (filter non8 e) (filter non8 e') ->
  has_arom e = has_arom e' /\ (has_arom e = true -> arom_h num chg rad e = arom_h num chg rad e').
Proof.
  intros P. assert (H4 : has_arom e = has_arom e').
  { change (has4 e = has4 e'). rewrite (has4_non8 e), (has4_non8 e'). apply existsb_perm. exact P. }
  split; [exact H4|]. intros Ha.
  destruct (Z.eq_dec num 1) as [E | E].
  - subst. unfold arom_h, arom_supported. rewrite !andb_false_r. reflexivity.
  - pose proof (proj1 (calc_env_multiset (Err OtherError) num chg rad e e' P)) as C.
    rewrite (calc_env_aromatic _ _ _ _ _ E Ha) in C. rewrite H4 in Ha. rewrite (calc_env_aromatic _ _ _ _ _ E Ha) in C.
    inversion C. reflexivity.
Qed.

(* the aromatic shortcuts agree with the localised rules of carbon on the Kekule spelling: for a neutral, non-radical
   carbon with at least two aromatic bonds (a ring atom), replacing one aromatic bond by a double and the others by single
   bonds and asking the valence table gives the same stored value - count or valence error *)
Lemma has4_cons x r : has4 (x :: r) = is4 x || has4 r.
Proof. reflexivity. Qed.
Lemma n4_cons x r : n4 (x :: r) = (if is4 x then 1 else 0) + n4 r.
Proof. unfold n4. cbn [filter]. destruct (is4 x); cbn [List.length]; lia. Qed.
Lemma esum_expl_cons x r : esum (expl (x :: r)) = (if is_expl x then fst x else 0) + esum (expl r).
Proof. unfold expl. cbn [filter]. destruct (is_expl x); reflexivity. Qed.

Lemma kekule_env_counts first e :
  has4 (kekule_env first e) = false /\
  esum (expl (kekule_env first e)) = esum (expl e) + n4 e + (if first && has4 e then 1 else 0).
Proof.
  revert first. induction e as [|[o z] r IH]; intros first; cbn [kekule_env].
  - rewrite andb_false_r. split; reflexivity.
  - destruct (o =? 4) eqn:E4.
    + destruct (IH false) as [A B]. apply Z.eqb_eq in E4. subst o.
      rewrite !has4_cons, !n4_cons, !esum_expl_cons, A, B.
      change (is4 (4, z)) with true. change (is_expl (4, z)) with false. cbn [andb orb].
      destruct first; cbn [andb]; split; try reflexivity.
      * change (is_expl (2, z)) with true. cbn [fst]. lia.
      * change (is_expl (1, z)) with true. cbn [fst]. lia.
    + destruct (IH first) as [A B].
      rewrite !has4_cons, !n4_cons, !esum_expl_cons, A, B. unfold is4. cbn [fst]. rewrite E4. cbn [orb]. split; [reflexivity | lia].
Qed.

Definition carbon_rules := lookup_rules (compiled_rules el_C) 0 false.
Lemma carbon_first_rules :
  carbon_rules 3 = Ok [any_rule 1] /\ carbon_rules 4 = Ok [any_rule 0].
Proof. vm_compute. split; reflexivity. Qed.
Lemma carbon_table_keys : match compiled_rules el_C with
                          | Ok t => forallb (fun kr => snd (fst kr) <=? 4) t
                          | Err _ => false
                          end = true.
Proof. vm_compute. reflexivity. Qed.
Lemma rt_get_key t k l : rt_get t k = Some l -> exists k', In (k', l) t /\ rkey_eqb k k' = true.
Proof.
  induction t as [|[k0 l0] r IH]; cbn [rt_get]; [discriminate|].
  destruct (rkey_eqb k k0) eqn:E.
  - intros H. inversion H. subst. exists k0. split; [left; reflexivity | exact E].
  - intros H. destruct (IH H) as [k' [A B]]. exists k'. split; [right; exact A | exact B].
Qed.
Lemma carbon_no_rules v : 5 <= v -> carbon_rules v = Err ValenceError.
Proof.
  intros Hv. unfold carbon_rules, lookup_rules. pose proof carbon_table_keys as K.
  destruct (compiled_rules el_C) as [t|]; [|discriminate].
  destruct (rt_get t (0, false, v)) as [l|] eqn:G; [|reflexivity]. exfalso.
  destruct (rt_get_key _ _ _ G) as [[[c r] v'] [Hin E]]. unfold rkey_eqb in E. apply andb_prop in E. destruct E as [_ E].
  apply Z.eqb_eq in E. subst v'. pose proof (proj1 (forallb_forall _ _) K _ Hin) as B. cbn [fst snd] in B. apply Z.leb_le in B. lia.
Qed.

Theorem aromatic_matches_kekule e : (forall x, In x e -> 1 <= fst x) -> 2 <= arom_bonds e ->
  calc_env (compiled_rules el_C) 6 0 false e = calc_env (compiled_rules el_C) 6 0 false (kekule_env true e).
Proof.
  intros Hpos H2. change (arom_bonds e) with (n4 e) in H2.
  assert (H4 : has4 e = true). { destruct (has4 e) eqn:E; [reflexivity|]. rewrite (n4_zero e E) in H2. lia. }
  rewrite (calc_env_aromatic _ 6 0 false e); [| lia | exact H4].
  destruct (kekule_env_counts true e) as [K4 Ks]. rewrite H4 in Ks. cbn [andb] in Ks.
  pose proof (sigma_sum_nonneg e Hpos) as Hn. rewrite sigma_sum_esum in Hn.
  unfold calc_env, calc_atom. cbn [Z.eqb Pos.eqb]. rewrite scan_calc_env, K4, (n4_zero _ K4). cbn [negb andb Z.add Z.eqb].
  rewrite Ks. fold carbon_rules. unfold arom_h, arom_supported. cbn [Z.eqb Pos.eqb negb andb]. rewrite sigma_sum_esum. change (arom_bonds e) with (n4 e).
  destruct carbon_first_rules as [R3 R4].
  destruct (n4 e =? 2) eqn:E2.
  - apply Z.eqb_eq in E2. destruct (esum (expl e) =? 0) eqn:S0.
    + apply Z.eqb_eq in S0. replace (esum (expl e) + n4 e + 1) with 3 by lia. rewrite R3. reflexivity.
    + apply Z.eqb_neq in S0. destruct (esum (expl e) =? 1) eqn:S1.
      * apply Z.eqb_eq in S1. replace (esum (expl e) + n4 e + 1) with 4 by lia. rewrite R4. reflexivity.
      * apply Z.eqb_neq in S1. rewrite carbon_no_rules by lia. reflexivity.
  - apply Z.eqb_neq in E2. destruct (n4 e =? 3) eqn:E3.
    + apply Z.eqb_eq in E3. destruct (esum (expl e) =? 0) eqn:S0.
      * apply Z.eqb_eq in S0. replace (esum (expl e) + n4 e + 1) with 4 by lia. rewrite R4. reflexivity.
      * apply Z.eqb_neq in S0. rewrite carbon_no_rules by lia. reflexivity.
    + apply Z.eqb_neq in E3. rewrite carbon_no_rules by lia. reflexivity.
Qed.

(* molecule level *)
Theorem calc_implicit_aromatic g n a e : atom_of g n = Some a -> env_of g n = Some e -> a_num a <> 1 -> has_arom e = true ->
  calc_implicit g n = Ok (arom_h (a_num a) (a_chg a) (a_rad a) e) /\ forall h, check_implicit g n h = Ok false.
Proof.
  intros Ha He H1 H4. destruct (calc_implicit_env _ _ _ _ Ha He) as [A B]. split.
  - rewrite A. apply calc_env_aromatic; assumption.
  - intros h. rewrite B. apply check_env_aromatic; assumption.
Qed.

(* the order independence needs every neighbour to exist: with a bond to a missing atom (possible only by corrupting the
   private dictionaries) the loop raises KeyError or stores None depending on which bond comes first *)
Example dangling_order_dependent :
  let vr := valence_rules el_N 0 false in
  Permutation [(1, None); (4, Some 6)] [(4, Some 6); (1, None)] /\
  calc_atom vr 7 0 false [(1, None); (4, Some 6)] = Err KeyError /\
  calc_atom vr 7 0 false [(4, Some 6); (1, None)] = Ok None.
Proof. cbv zeta. split; [apply perm_swap | split; reflexivity]. Qed.

(* non-vacuity: the carbons of toluene's ring and of naphthalene's fusion, in two neighbour orders with an order-8 bond *)
Example aromatic_examples :
  calc_env (compiled_rules el_C) 6 0 false [(4, 6); (4, 6)] = Ok (Some 1) /\
  calc_env (compiled_rules el_C) 6 0 false [(4, 6); (1, 6); (4, 7)] = Ok (Some 0) /\
  calc_env (compiled_rules el_C) 6 0 false [(8, 26); (4, 7); (1, 6); (4, 6)] = Ok (Some 0) /\
  calc_env (compiled_rules el_C) 6 0 false [(4, 6); (4, 6); (4, 6)] = Ok (Some 0) /\
  calc_env (compiled_rules el_C) 6 0 false [(4, 6); (2, 8); (4, 6)] = Ok None /\
  calc_env (compiled_rules el_C) 6 0 false (kekule_env true [(4, 6); (2, 8); (4, 6)]) = Ok None /\
  calc_env (compiled_rules el_N) 7 0 false [(4, 6); (4, 6)] = Ok None /\
  kekule_env true [(4, 6); (1, 6); (4, 7)] = [(2, 6); (1, 6); (1, 7)] /\
  Z.of_nat (List.length arom_space) = 4791.
Proof. vm_compute. repeat split; reflexivity. Qed.
