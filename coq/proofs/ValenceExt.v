(* C04 extension -- proofs about Model.ValenceArom.  Sections:
     A. the aromatic branch of calc_implicit is the closed form arom_h: exact characterisation of the counts 1 / 0 / None,
        independence of the rule table and of the neighbour order, agreement with the localised rules on the Kekule
        spelling of the environment
     B. Graph.union / MoleculeContainer.substructure / split: totals are numbering free and additive over union (with and
        without remap) and over split; fresh atom numbers; the hydrogen recalculation switch of substructure *)
From Coq Require Import ZArith List String Bool Lia Permutation.
From Model Require Import PyBase Graph PeriodicTable Valence ValenceArom.
From Gen Require Import Elements.
From Proofs Require Import ValenceProofs.
Import ListNotations.
Open Scope Z_scope.

(* ================================================================================================
   A. aromatic branch
   ================================================================================================ *)
Lemma has_arom_has4 e : has_arom e = has4 e.
Proof. reflexivity. Qed.
Lemma arom_bonds_n4 e : arom_bonds e = n4 e.
Proof. reflexivity. Qed.
Lemma sigma_sum_esum e : sigma_sum e = esum (expl e).
Proof.
  unfold sigma_sum, esum, expl, is_expl. induction e as [|[o z] r IH]; cbn [fold_right filter fst]; [reflexivity|].
  destruct (o =? 4); cbn [negb andb orb]; [exact IH|]. destruct (o =? 8); cbn [negb orb fold_right fst]; [exact IH | rewrite IH; reflexivity].
Qed.

Lemma n4_pos e : has4 e = true -> 1 <= n4 e.
Proof.
  unfold has4, n4. induction e as [|x r IH]; cbn [existsb filter]; [discriminate|].
  destruct (is4 x); cbn [orb List.length]; [lia | exact IH].
Qed.
Lemma n4_zero e : has4 e = false -> n4 e = 0.
Proof.
  unfold has4, n4. induction e as [|x r IH]; cbn [existsb filter]; [reflexivity|].
  destruct (is4 x); cbn [orb]; [discriminate | exact IH].
Qed.

(* the whole aromatic branch in one equation: whatever the rule table, a non-hydrogen atom with an aromatic bond gets
   exactly arom_h *)
Theorem calc_env_aromatic t num chg rad e : num <> 1 -> has_arom e = true ->
  calc_env t num chg rad e = Ok (arom_h num chg rad e).
Proof.
  intros H1 H4. apply Z.eqb_neq in H1. rewrite has_arom_has4 in H4. pose proof (n4_pos e H4) as Hp.
  unfold calc_env, calc_atom, arom_h. rewrite H1, scan_calc_env, H4, sigma_sum_esum. change (arom_bonds e) with (n4 e).
  fold (arom_supported num chg rad). destruct (arom_supported num chg rad); cbn [negb andb]; [|reflexivity].
  rewrite !Z.add_0_l.
  destruct (n4 e =? 2); [destruct (esum (expl e) =? 0); [reflexivity | destruct (esum (expl e) =? 1); reflexivity]|].
  destruct (n4 e =? 3); [destruct (esum (expl e) =? 0); reflexivity|].
  destruct (n4 e =? 0) eqn:E0; [apply Z.eqb_eq in E0; lia | reflexivity].
Qed.

(* hydrogen itself: 0, whatever its bonds *)
Theorem calc_env_hydrogen t chg rad e : calc_env t 1 chg rad e = Ok (Some 0).
Proof. reflexivity. Qed.

(* the rule table is never consulted *)
Theorem calc_env_aromatic_table_free t t' num chg rad e : has_arom e = true ->
  calc_env t num chg rad e = calc_env t' num chg rad e.
Proof.
  intros H4. destruct (Z.eq_dec num 1) as [E | E]; [subst; reflexivity|].
  rewrite (calc_env_aromatic t _ _ _ _ E H4), (calc_env_aromatic t' _ _ _ _ E H4). reflexivity.
Qed.

(* check_implicit refuses every count ("can't check aromatic rings") *)
Theorem check_env_aromatic t num chg rad e h : num <> 1 -> has_arom e = true -> check_env t num chg rad e h = Ok false.
Proof.
  intros H1 H4. apply Z.eqb_neq in H1. rewrite has_arom_has4 in H4.
  unfold check_env, check_atom. rewrite H1, scan_check_env, H4. reflexivity.
Qed.

Lemma arom_h_cases num chg rad e :
  (arom_h num chg rad e = Some 1 /\ arom_supported num chg rad = true /\ arom_bonds e = 2 /\ sigma_sum e = 0) \/
  (arom_h num chg rad e = Some 0 /\ arom_supported num chg rad = true /\
     ((arom_bonds e = 2 /\ sigma_sum e = 1) \/ (arom_bonds e = 3 /\ sigma_sum e = 0))) \/
  (arom_h num chg rad e = None /\
     ~ (arom_supported num chg rad = true /\
        ((arom_bonds e = 2 /\ (sigma_sum e = 0 \/ sigma_sum e = 1)) \/ (arom_bonds e = 3 /\ sigma_sum e = 0)))).
Proof.
  unfold arom_h. destruct (arom_supported num chg rad); [|right; right; split; [reflexivity | intros [H _]; discriminate]].
  destruct (arom_bonds e =? 2) eqn:E2.
  - apply Z.eqb_eq in E2. destruct (sigma_sum e =? 0) eqn:S0; [apply Z.eqb_eq in S0; left; auto|].
    apply Z.eqb_neq in S0. destruct (sigma_sum e =? 1) eqn:S1; [apply Z.eqb_eq in S1; right; left; auto|].
    apply Z.eqb_neq in S1. right. right. split; [reflexivity|]. intros [_ [[_ [H | H]] | [H _]]]; lia.
  - apply Z.eqb_neq in E2. destruct (arom_bonds e =? 3) eqn:E3.
    + apply Z.eqb_eq in E3. destruct (sigma_sum e =? 0) eqn:S0; [apply Z.eqb_eq in S0; right; left; auto|].
      apply Z.eqb_neq in S0. right. right. split; [reflexivity|]. intros [_ [[H _] | [_ H]]]; lia.
    + apply Z.eqb_neq in E3. right. right. split; [reflexivity|]. intros [_ [[H _] | [H _]]]; lia.
Qed.

Ltac fin := first [discriminate | tauto | (exfalso; intuition lia) | reflexivity].

Lemma arom_supported_iff num chg rad : arom_supported num chg rad = true <-> num = 6 /\ chg = 0 /\ rad = false.
Proof.
  unfold arom_supported. rewrite !andb_true_iff, negb_true_iff, !Z.eqb_eq. tauto.
Qed.

(* one aromatic hydrogen: exactly the neutral, non-radical carbon with two aromatic bonds and no localised bond *)
Theorem aromatic_h1_iff t num chg rad e : num <> 1 -> has_arom e = true ->
  (calc_env t num chg rad e = Ok (Some 1) <->
   num = 6 /\ chg = 0 /\ rad = false /\ arom_bonds e = 2 /\ sigma_sum e = 0).
Proof.
  intros H1 H4. rewrite (calc_env_aromatic t _ _ _ _ H1 H4).
  assert (R : (num = 6 /\ chg = 0 /\ rad = false /\ arom_bonds e = 2 /\ sigma_sum e = 0) <->
              (arom_supported num chg rad = true /\ arom_bonds e = 2 /\ sigma_sum e = 0))
    by (rewrite arom_supported_iff; tauto).
  rewrite R.
  destruct (arom_h_cases num chg rad e) as [[E [S [A B]]] | [[E [S C]] | [E N]]]; rewrite E; split; intros X; fin.
Qed.

(* no aromatic hydrogen: two aromatic bonds and one single bond, or three aromatic bonds and nothing else *)
Theorem aromatic_h0_iff t num chg rad e : num <> 1 -> has_arom e = true ->
  (calc_env t num chg rad e = Ok (Some 0) <->
   num = 6 /\ chg = 0 /\ rad = false /\
   ((arom_bonds e = 2 /\ sigma_sum e = 1) \/ (arom_bonds e = 3 /\ sigma_sum e = 0))).
Proof.
  intros H1 H4. rewrite (calc_env_aromatic t _ _ _ _ H1 H4).
  assert (R : (num = 6 /\ chg = 0 /\ rad = false /\ ((arom_bonds e = 2 /\ sigma_sum e = 1) \/ (arom_bonds e = 3 /\ sigma_sum e = 0))) <->
              (arom_supported num chg rad = true /\ ((arom_bonds e = 2 /\ sigma_sum e = 1) \/ (arom_bonds e = 3 /\ sigma_sum e = 0))))
    by (rewrite arom_supported_iff; tauto).
  rewrite R.
  destruct (arom_h_cases num chg rad e) as [[E [S [A B]]] | [[E [S C]] | [E N]]]; rewrite E; split; intros X; fin.
Qed.

(* everything else is a valence error: None is stored *)
Theorem aromatic_none_iff t num chg rad e : num <> 1 -> has_arom e = true ->
  (calc_env t num chg rad e = Ok None <->
   ~ (num = 6 /\ chg = 0 /\ rad = false /\
      ((arom_bonds e = 2 /\ (sigma_sum e = 0 \/ sigma_sum e = 1)) \/ (arom_bonds e = 3 /\ sigma_sum e = 0)))).
Proof.
  intros H1 H4. rewrite (calc_env_aromatic t _ _ _ _ H1 H4).
  assert (R : (num = 6 /\ chg = 0 /\ rad = false /\ ((arom_bonds e = 2 /\ (sigma_sum e = 0 \/ sigma_sum e = 1)) \/ (arom_bonds e = 3 /\ sigma_sum e = 0))) <->
              (arom_supported num chg rad = true /\ ((arom_bonds e = 2 /\ (sigma_sum e = 0 \/ sigma_sum e = 1)) \/ (arom_bonds e = 3 /\ sigma_sum e = 0))))
    by (rewrite arom_supported_iff; tauto).
  rewrite R.
  destruct (arom_h_cases num chg rad e) as [[E [S [A B]]] | [[E [S C]] | [E N]]]; rewrite E; split; intros X.
  - discriminate.
  - exfalso. apply X. split; [exact S|]. left. split; [exact A | left; exact B].
  - discriminate.
  - exfalso. apply X. split; [exact S|]. destruct C as [[A B] | [A B]]; [left; split; [exact A | right; exact B] | right; split; assumption].
  - exact N.
  - reflexivity.
Qed.

(* an aromatic atom that gets a count is three-connected: aromatic bonds + localised bond orders + hydrogens = 3 *)
Theorem aromatic_three_connected t num chg rad e h : num <> 1 -> has_arom e = true ->
  calc_env t num chg rad e = Ok (Some h) -> (h = 0 \/ h = 1) /\ arom_bonds e + sigma_sum e + h = 3.
Proof.
  intros H1 H4. rewrite (calc_env_aromatic t _ _ _ _ H1 H4).
  destruct (arom_h_cases num chg rad e) as [[E [S [A B]]] | [[E [S C]] | [E N]]]; rewrite E; intros H; inversion H; subst.
  - split; [right; reflexivity | lia].
  - split; [left; reflexivity | destruct C as [[A B] | [A B]]; lia].
Qed.

(* with orders >= 1 (every real bond), "sigma_sum = 0" says that all bonds are aromatic or order-8 bonds *)
Lemma sigma_sum_nonneg e : (forall x, In x e -> 1 <= fst x) -> 0 <= sigma_sum e.
Proof.
  unfold sigma_sum. induction e as [|[o z] r IH]; intros H; cbn [fold_right fst]; [lia|].
  assert (Hr : forall x, In x r -> 1 <= fst x) by (intros x Hx; apply H; right; exact Hx).
  specialize (IH Hr). pose proof (H (o, z) (or_introl eq_refl)) as Ho. cbn [fst] in Ho.
  destruct ((o =? 4) || (o =? 8)); lia.
Qed.
Theorem sigma_sum_zero_iff e : (forall x, In x e -> 1 <= fst x) ->
  (sigma_sum e = 0 <-> forall x, In x e -> fst x = 4 \/ fst x = 8).
Proof.
  induction e as [|[o z] r IH]; intros H.
  - split; [intros _ x [] | reflexivity].
  - assert (Hr : forall x, In x r -> 1 <= fst x) by (intros x Hx; apply H; right; exact Hx).
    pose proof (H (o, z) (or_introl eq_refl)) as Ho. cbn [fst] in Ho. pose proof (sigma_sum_nonneg r Hr) as Hn.
    change (sigma_sum ((o, z) :: r)) with (if (o =? 4) || (o =? 8) then sigma_sum r else o + sigma_sum r).
    destruct ((o =? 4) || (o =? 8)) eqn:E.
    + rewrite (IH Hr). split.
      * intros A x [Hx | Hx]; [subst x; cbn [fst]; apply orb_prop in E; rewrite !Z.eqb_eq in E; exact E | apply A; exact Hx].
      * intros A x Hx. apply A. right. exact Hx.
    + split; [lia|]. intros A. specialize (A (o, z) (or_introl eq_refl)). cbn [fst] in A.
      apply orb_false_iff in E. rewrite !Z.eqb_neq in E. lia.
Qed.

(* neighbour-order independence of the closed form and (corollary of calc_env_multiset) of the aromatic branch *)
Lemma arom_h_multiset num chg rad e e' : Permutation (filter non8 e) (filter non8 e') ->
  has_arom e = has_arom e' /\ (has_arom e = true -> arom_h num chg rad e = arom_h num chg rad e').
Proof.
  intros P. assert (H4 : has_arom e = has_arom e').
  { change (has4 e = has4 e'). rewrite (has4_non8 e), (has4_non8 e'). apply existsb_perm. exact P. }
  split; [exact H4|]. intros Ha.
  destruct (Z.eq_dec num 1) as [E | E].
  - subst. unfold arom_h, arom_supported. rewrite !andb_false_r. reflexivity.
  - pose proof (proj1 (calc_env_multiset (Err OtherError) num chg rad e e' P)) as C.
    rewrite (calc_env_aromatic _ _ _ _ _ E Ha) in C. rewrite H4 in Ha. rewrite (calc_env_aromatic _ _ _ _ _ E Ha) in C.
    inversion C. reflexivity.
Qed.

(* the aromatic shortcuts agree with the localised rules of carbon on the Kekule spelling: for a neutral, non-radical
   carbon with at least two aromatic bonds (a ring atom), replacing one aromatic bond by a double and the others by single
   bonds and asking the valence table gives the same stored value - count or valence error *)
Lemma has4_cons x r : has4 (x :: r) = is4 x || has4 r.
Proof. reflexivity. Qed.
Lemma n4_cons x r : n4 (x :: r) = (if is4 x then 1 else 0) + n4 r.
Proof. unfold n4. cbn [filter]. destruct (is4 x); cbn [List.length]; lia. Qed.
Lemma esum_expl_cons x r : esum (expl (x :: r)) = (if is_expl x then fst x else 0) + esum (expl r).
Proof. unfold expl. cbn [filter]. destruct (is_expl x); reflexivity. Qed.

Lemma kekule_env_counts first e :
  has4 (kekule_env first e) = false /\
  esum (expl (kekule_env first e)) = esum (expl e) + n4 e + (if first && has4 e then 1 else 0).
Proof.
  revert first. induction e as [|[o z] r IH]; intros first; cbn [kekule_env].
  - rewrite andb_false_r. split; reflexivity.
  - destruct (o =? 4) eqn:E4.
    + destruct (IH false) as [A B]. apply Z.eqb_eq in E4. subst o.
      rewrite !has4_cons, !n4_cons, !esum_expl_cons, A, B.
      change (is4 (4, z)) with true. change (is_expl (4, z)) with false. cbn [andb orb].
      destruct first; cbn [andb]; split; try reflexivity.
      * change (is_expl (2, z)) with true. cbn [fst]. lia.
      * change (is_expl (1, z)) with true. cbn [fst]. lia.
    + destruct (IH first) as [A B].
      rewrite !has4_cons, !n4_cons, !esum_expl_cons, A, B. unfold is4. cbn [fst]. rewrite E4. cbn [orb]. split; [reflexivity | lia].
Qed.

Definition carbon_rules := lookup_rules (compiled_rules el_C) 0 false.
Lemma carbon_first_rules :
  carbon_rules 3 = Ok [any_rule 1] /\ carbon_rules 4 = Ok [any_rule 0].
Proof. vm_compute. split; reflexivity. Qed.
Lemma carbon_table_keys : match compiled_rules el_C with
                          | Ok t => forallb (fun kr => snd (fst kr) <=? 4) t
                          | Err _ => false
                          end = true.
Proof. vm_compute. reflexivity. Qed.
Lemma rt_get_key t k l : rt_get t k = Some l -> exists k', In (k', l) t /\ rkey_eqb k k' = true.
Proof.
  induction t as [|[k0 l0] r IH]; cbn [rt_get]; [discriminate|].
  destruct (rkey_eqb k k0) eqn:E.
  - intros H. inversion H. subst. exists k0. split; [left; reflexivity | exact E].
  - intros H. destruct (IH H) as [k' [A B]]. exists k'. split; [right; exact A | exact B].
Qed.
Lemma carbon_no_rules v : 5 <= v -> carbon_rules v = Err ValenceError.
Proof.
  intros Hv. unfold carbon_rules, lookup_rules. pose proof carbon_table_keys as K.
  destruct (compiled_rules el_C) as [t|]; [|discriminate].
  destruct (rt_get t (0, false, v)) as [l|] eqn:G; [|reflexivity]. exfalso.
  destruct (rt_get_key _ _ _ G) as [[[c r] v'] [Hin E]]. unfold rkey_eqb in E. apply andb_prop in E. destruct E as [_ E].
  apply Z.eqb_eq in E. subst v'. pose proof (proj1 (forallb_forall _ _) K _ Hin) as B. cbn [fst snd] in B. apply Z.leb_le in B. lia.
Qed.

Theorem aromatic_matches_kekule e : (forall x, In x e -> 1 <= fst x) -> 2 <= arom_bonds e ->
  calc_env (compiled_rules el_C) 6 0 false e = calc_env (compiled_rules el_C) 6 0 false (kekule_env true e).
Proof.
  intros Hpos H2. change (arom_bonds e) with (n4 e) in H2.
  assert (H4 : has4 e = true). { destruct (has4 e) eqn:E; [reflexivity|]. rewrite (n4_zero e E) in H2. lia. }
  rewrite (calc_env_aromatic _ 6 0 false e); [| lia | exact H4].
  destruct (kekule_env_counts true e) as [K4 Ks]. rewrite H4 in Ks. cbn [andb] in Ks.
  pose proof (sigma_sum_nonneg e Hpos) as Hn. rewrite sigma_sum_esum in Hn.
  unfold calc_env, calc_atom. cbn [Z.eqb Pos.eqb]. rewrite scan_calc_env, K4, (n4_zero _ K4). cbn [negb andb Z.add Z.eqb].
  rewrite Ks. fold carbon_rules. unfold arom_h, arom_supported. cbn [Z.eqb Pos.eqb negb andb]. rewrite sigma_sum_esum. change (arom_bonds e) with (n4 e).
  destruct carbon_first_rules as [R3 R4].
  destruct (n4 e =? 2) eqn:E2.
  - apply Z.eqb_eq in E2. destruct (esum (expl e) =? 0) eqn:S0.
    + apply Z.eqb_eq in S0. replace (esum (expl e) + n4 e + 1) with 3 by lia. rewrite R3. reflexivity.
    + apply Z.eqb_neq in S0. destruct (esum (expl e) =? 1) eqn:S1.
      * apply Z.eqb_eq in S1. replace (esum (expl e) + n4 e + 1) with 4 by lia. rewrite R4. reflexivity.
      * apply Z.eqb_neq in S1. rewrite carbon_no_rules by lia. reflexivity.
  - apply Z.eqb_neq in E2. destruct (n4 e =? 3) eqn:E3.
    + apply Z.eqb_eq in E3. destruct (esum (expl e) =? 0) eqn:S0.
      * apply Z.eqb_eq in S0. replace (esum (expl e) + n4 e + 1) with 4 by lia. rewrite R4. reflexivity.
      * apply Z.eqb_neq in S0. rewrite carbon_no_rules by lia. reflexivity.
    + apply Z.eqb_neq in E3. rewrite carbon_no_rules by lia. reflexivity.
Qed.

(* molecule level *)
Theorem calc_implicit_aromatic g n a e : atom_of g n = Some a -> env_of g n = Some e -> a_num a <> 1 -> has_arom e = true ->
  calc_implicit g n = Ok (arom_h (a_num a) (a_chg a) (a_rad a) e) /\ forall h, check_implicit g n h = Ok false.
Proof.
  intros Ha He H1 H4. destruct (calc_implicit_env _ _ _ _ Ha He) as [A B]. split.
  - rewrite A. apply calc_env_aromatic; assumption.
  - intros h. rewrite B. apply check_env_aromatic; assumption.
Qed.

(* the order independence needs every neighbour to exist: with a bond to a missing atom (possible only by corrupting the
   private dictionaries) the loop raises KeyError or stores None depending on which bond comes first *)
Example dangling_order_dependent :
  let vr := valence_rules el_N 0 false in
  Permutation [(1, None); (4, Some 6)] [(4, Some 6); (1, None)] /\
  calc_atom vr 7 0 false [(1, None); (4, Some 6)] = Err KeyError /\
  calc_atom vr 7 0 false [(4, Some 6); (1, None)] = Ok None.
Proof. cbv zeta. split; [apply perm_swap | split; reflexivity]. Qed.

(* non-vacuity: the carbons of toluene's ring and of naphthalene's fusion, in two neighbour orders with an order-8 bond *)
Example aromatic_examples :
  calc_env (compiled_rules el_C) 6 0 false [(4, 6); (4, 6)] = Ok (Some 1) /\
  calc_env (compiled_rules el_C) 6 0 false [(4, 6); (1, 6); (4, 7)] = Ok (Some 0) /\
  calc_env (compiled_rules el_C) 6 0 false [(8, 26); (4, 7); (1, 6); (4, 6)] = Ok (Some 0) /\
  calc_env (compiled_rules el_C) 6 0 false [(4, 6); (4, 6); (4, 6)] = Ok (Some 0) /\
  calc_env (compiled_rules el_C) 6 0 false [(4, 6); (2, 8); (4, 6)] = Ok None /\
  calc_env (compiled_rules el_C) 6 0 false (kekule_env true [(4, 6); (2, 8); (4, 6)]) = Ok None /\
  calc_env (compiled_rules el_N) 7 0 false [(4, 6); (4, 6)] = Ok None /\
  kekule_env true [(4, 6); (1, 6); (4, 7)] = [(2, 6); (1, 6); (1, 7)] /\
  Z.of_nat (List.length arom_space) = 4791.
Proof. vm_compute. repeat split; reflexivity. Qed.


(* ================================================================================================
   B. union / substructure / split: totals and the hydrogen recalculation switch
   ================================================================================================ *)
Lemma union_cat_mol_union g1 g2 : union_cat g1 g2 = mol_union g1 g2.
Proof. reflexivity. Qed.

(* the totals read the atoms only, never their numbers *)
Definition atoms_of (g : mol) : list atom := map snd (m_atoms g).

Lemma symbols_counter_snd l : forall l' c, map snd l = map snd l' -> symbols_counter l c = symbols_counter l' c.
Proof.
  induction l as [|[n a] l IH]; intros [|[n' a'] l'] c H; try discriminate; [reflexivity|].
  cbn [map snd] in H. inversion H. subst. cbn [symbols_counter]. destruct (symbol_of (a_num a')); [apply IH; assumption | reflexivity].
Qed.
Lemma sum_h_snd l : forall l' acc, map snd l = map snd l' -> sum_h l acc = sum_h l' acc.
Proof.
  induction l as [|[n a] l IH]; intros [|[n' a'] l'] acc H; try discriminate; [reflexivity|].
  cbn [map snd] in H. inversion H. subst. cbn [sum_h]. destruct (a_h a'); [apply IH; assumption | reflexivity].
Qed.
Lemma mass_loop_snd hm l : forall l' acc, map snd l = map snd l' -> mass_loop hm l acc = mass_loop hm l' acc.
Proof.
  induction l as [|[n a] l IH]; intros [|[n' a'] l'] acc H; try discriminate; [reflexivity|].
  cbn [map snd] in H. inversion H. subst. cbn [mass_loop]. destruct (atomic_mass_e24 (a_num a') (a_iso a')); [|reflexivity].
  destruct (a_h a'); [apply IH; assumption | reflexivity].
Qed.
Lemma existsb_map_c {A B} (f : B -> bool) (g : A -> B) l : existsb f (map g l) = existsb (fun x => f (g x)) l.
Proof. induction l as [|x l IH]; cbn [map existsb]; [reflexivity | rewrite IH; reflexivity]. Qed.

(* renumbering changes no total *)
Theorem totals_numbering_free g g' : atoms_of g = atoms_of g' ->
  brutto g = brutto g' /\ molecular_charge g = molecular_charge g' /\ is_radical g = is_radical g' /\
  molecular_mass_e24 g = molecular_mass_e24 g'.
Proof.
  unfold atoms_of. intros H. split; [|split; [|split]].
  - unfold brutto. rewrite (symbols_counter_snd _ _ [] H), (sum_h_snd _ _ 0 H). reflexivity.
  - unfold molecular_charge. f_equal. rewrite <- !(map_map snd a_chg), H. reflexivity.
  - unfold is_radical. rewrite <- !(existsb_map_c a_rad snd), H. reflexivity.
  - unfold molecular_mass_e24. destruct (atomic_mass_e24 1 None); [|reflexivity]. apply mass_loop_snd. exact H.
Qed.

Lemma atoms_of_renumber g s : atoms_of (renumber g s) = atoms_of g.
Proof. unfold atoms_of, renumber. cbn [m_atoms]. rewrite map_map. reflexivity. Qed.

(* -- union -- *)
Definition overlap (g1 g2 : mol) : bool := existsb (fun k => zmem k (ids g1)) (ids g2).
Lemma overlap_iff g1 g2 : overlap g1 g2 = true <-> exists k, In k (ids g1) /\ In k (ids g2).
Proof.
  unfold overlap. rewrite existsb_exists. split.
  - intros [k [H2 H1]]. apply zmem_In in H1. exists k. auto.
  - intros [k [H1 H2]]. exists k. split; [exact H2 | apply zmem_In; exact H1].
Qed.

(* union raises (MappingError, a ValueError) exactly when remap is off and the two molecules share an atom number *)
Theorem union_py_error g1 g2 remap :
  (union_py g1 g2 remap = Err ValueError <-> remap = false /\ exists k, In k (ids g1) /\ In k (ids g2)) /\
  ((exists u, union_py g1 g2 remap = Ok u) \/ union_py g1 g2 remap = Err ValueError).
Proof.
  unfold union_py. fold (overlap g1 g2). rewrite <- overlap_iff. destruct (overlap g1 g2), remap; split;
    try (split; [discriminate | intros [A B]; discriminate]); try (left; eexists; reflexivity); try (right; reflexivity).
  split; [intros _; split; reflexivity | reflexivity].
Qed.

(* the atoms of a union are the atoms of the two parts, in this order, each with its stored hydrogen count *)
Theorem union_py_atoms g1 g2 remap u : union_py g1 g2 remap = Ok u -> atoms_of u = atoms_of g1 ++ atoms_of g2.
Proof.
  unfold union_py. destruct (existsb _ _); [destruct remap; [|discriminate]|]; intros H; inversion H; subst u;
    unfold atoms_of, union_cat; cbn [m_atoms]; rewrite map_app; [|reflexivity].
  fold (atoms_of (renumber g2 (max_id g1 + 1))). rewrite atoms_of_renumber. reflexivity.
Qed.

Lemma union_as_cat g1 g2 remap u : union_py g1 g2 remap = Ok u -> exists g2', atoms_of g2' = atoms_of g2 /\ u = mol_union g1 g2'.
Proof.
  unfold union_py. destruct (existsb _ _); [destruct remap; [|discriminate]|]; intros H; inversion H; subst u.
  - exists (renumber g2 (max_id g1 + 1)). split; [apply atoms_of_renumber | reflexivity].
  - exists g2. split; reflexivity.
Qed.

(* formula, charge, radical flag and mass of a union are the sums over the parts, with and without renumbering *)
Theorem union_py_totals g1 g2 remap u : union_py g1 g2 remap = Ok u ->
  molecular_charge u = molecular_charge g1 + molecular_charge g2 /\
  is_radical u = is_radical g1 || is_radical g2 /\
  (forall c1 c2, brutto g1 = Ok c1 -> brutto g2 = Ok c2 ->
     exists c, brutto u = Ok c /\ forall s, sval c s = sval c1 s + sval c2 s) /\
  (forall m1 m2, molecular_mass_e24 g1 = Ok m1 -> molecular_mass_e24 g2 = Ok m2 -> molecular_mass_e24 u = Ok (m1 + m2)).
Proof.
  intros H. destruct (union_as_cat _ _ _ _ H) as [g2' [E U]]. subst u.
  destruct (totals_numbering_free g2' g2 E) as [B [C [R M]]].
  split; [rewrite charge_union, C; reflexivity|]. split; [rewrite radical_union, R; reflexivity|]. split.
  - intros c1 c2 H1 H2. rewrite <- B in H2. apply brutto_union; assumption.
  - intros m1 m2 H1 H2. rewrite <- M in H2. apply mass_union; assumption.
Qed.


(* fresh numbers: with remap the second molecule is numbered max+1, max+2, ... in its atom order, so the union of two
   molecules with duplicate-free atom numbers has duplicate-free atom numbers (no atom is overwritten by dict.update) *)
Lemma index_from_add x l : forall i, index_from x l i = match index_from x l 0 with Some j => Some (i + j) | None => None end.
Proof.
  induction l as [|y r IH]; intros i; cbn [index_from]; [reflexivity|].
  destruct (x =? y); [f_equal; lia|]. rewrite (IH (i + 1)), (IH (0 + 1)). destruct (index_from x r 0); [f_equal; lia | reflexivity].
Qed.

Lemma renum_ids l : forall s, NoDup l ->
  map (fun n => match index_of l n with Some i => s + i | None => n end) l = zrange_from s (List.length l).
Proof.
  induction l as [|x r IH]; intros s ND; [reflexivity|]. inversion ND as [|? ? Hx NDr]. subst.
  cbn [map List.length zrange_from]. f_equal.
  - unfold index_of. cbn [index_from]. rewrite Z.eqb_refl. lia.
  - rewrite <- (IH (s + 1) NDr). apply map_ext_in. intros y Hy. unfold index_of. cbn [index_from].
    destruct (y =? x) eqn:E; [apply Z.eqb_eq in E; subst; contradiction|].
    rewrite index_from_add. destruct (index_from y r 0); [lia | reflexivity].
Qed.

Lemma ids_renumber g s : NoDup (ids g) -> ids (renumber g s) = zrange_from s (List.length (ids g)).
Proof.
  intros ND. unfold ids at 1, renumber, keys. cbn [m_atoms]. rewrite map_map. cbn [fst].
  rewrite <- (renum_ids (ids g) s ND). unfold ids, keys. rewrite map_map. reflexivity.
Qed.

Lemma zrange_from_nodup n : forall s, NoDup (zrange_from s n).
Proof.
  induction n as [|n IH]; intros s; cbn [zrange_from]; constructor; [|apply IH].
  rewrite zrange_from_In. lia.
Qed.

Lemma fold_left_max_ge l : forall a x, (x = a \/ In x l) -> x <= fold_left Z.max l a.
Proof.
  induction l as [|y r IH]; intros a x H; cbn [fold_left].
  - destruct H as [H | []]. lia.
  - destruct H as [H | [H | H]].
    + subst. specialize (IH (Z.max a y) (Z.max a y) (or_introl eq_refl)). lia.
    + subst. specialize (IH (Z.max a x) (Z.max a x) (or_introl eq_refl)). lia.
    + apply IH. right. exact H.
Qed.
Lemma max_id_ge g x : In x (ids g) -> x <= max_id g.
Proof. intros H. unfold max_id. apply fold_left_max_ge. right. exact H. Qed.

Lemma nodup_app (l1 l2 : list Z) : NoDup l1 -> NoDup l2 -> (forall x, In x l1 -> In x l2 -> False) -> NoDup (l1 ++ l2).
Proof.
  induction l1 as [|x r IH]; intros N1 N2 D; [exact N2|]. inversion N1 as [|? ? Hx Nr]. subst. cbn [app]. constructor.
  - intros H. apply in_app_or in H. destruct H as [H | H]; [contradiction | apply (D x); [left; reflexivity | exact H]].
  - apply IH; [exact Nr | exact N2 | intros y H1 H2; apply (D y); [right; exact H1 | exact H2]].
Qed.

Theorem union_py_ids g1 g2 remap u : NoDup (ids g1) -> NoDup (ids g2) -> union_py g1 g2 remap = Ok u ->
  NoDup (ids u) /\
  ids u = ids g1 ++ (if overlap g1 g2 then zrange_from (max_id g1 + 1) (List.length (ids g2)) else ids g2).
Proof.
  intros N1 N2. unfold union_py. fold (overlap g1 g2). destruct (overlap g1 g2) eqn:O.
  - destruct remap; [|discriminate]. intros H. inversion H. subst u.
    assert (E : ids (union_cat g1 (renumber g2 (max_id g1 + 1))) = ids g1 ++ zrange_from (max_id g1 + 1) (List.length (ids g2))).
    { unfold ids at 1, union_cat, keys. cbn [m_atoms]. rewrite map_app. fold (keys (m_atoms g1)) (keys (m_atoms (renumber g2 (max_id g1 + 1)))).
      fold (ids g1) (ids (renumber g2 (max_id g1 + 1))). rewrite (ids_renumber g2 _ N2). reflexivity. }
    split; [|exact E]. rewrite E. apply nodup_app; [exact N1 | apply zrange_from_nodup|].
    intros x H1 H2. apply zrange_from_In in H2. pose proof (max_id_ge g1 x H1). lia.
  - intros H. inversion H. subst u.
    assert (E : ids (union_cat g1 g2) = ids g1 ++ ids g2) by (unfold ids, union_cat, keys; cbn [m_atoms]; apply map_app).
    split; [|exact E]. rewrite E. apply nodup_app; [exact N1 | exact N2|].
    intros x H1 H2. assert (T : overlap g1 g2 = true) by (apply overlap_iff; exists x; auto). congruence.
Qed.


(* -- substructure without recalculation, split -- *)
Definition in_sel (sel : list Z) (na : Z * atom) : bool := zmem (fst na) sel.

Lemma sub_atoms_keep g sel : sub_atoms g sel false = filter (in_sel sel) (m_atoms g).
Proof.
  unfold sub_atoms. fold (in_sel sel). induction (filter (in_sel sel) (m_atoms g)) as [|[n a] l IH]; [reflexivity|].
  cbn [map fst snd]. rewrite IH. reflexivity.
Qed.

(* a substructure taken without recalculation holds exactly the selected atoms, in the order of the molecule, each with the
   hydrogen count it had *)
Theorem substructure_keep_atoms g sel s : substructure g sel false = Ok s -> m_atoms s = filter (in_sel sel) (m_atoms g).
Proof.
  unfold substructure. destruct sel as [|x sel']; [discriminate|]. destruct (negb _); [discriminate|].
  destruct (sub_adj _ _ _); [|discriminate]. intros H. inversion H. cbn [m_atoms]. apply sub_atoms_keep.
Qed.

Lemma split_with_atoms g comps : forall parts, split_with g comps = Ok parts ->
  map m_atoms parts = map (fun c => filter (in_sel c) (m_atoms g)) comps.
Proof.
  induction comps as [|c r IH]; intros parts; cbn [split_with].
  - intros H. inversion H. reflexivity.
  - destruct (substructure g c false) as [s|] eqn:S; [|discriminate]. destruct (split_with g r) as [l|]; [|discriminate].
    intros H. inversion H. subst parts. cbn [map]. rewrite (substructure_keep_atoms _ _ _ S), (IH l eq_refl). reflexivity.
Qed.

Definition cover_count (comps : list (list Z)) (n : Z) : nat := List.length (filter (fun c => zmem n c) comps).

Lemma flat_filter_step comps (x : Z * atom) l :
  Permutation (flat_map (fun c => filter (in_sel c) (x :: l)) comps)
              (repeat x (cover_count comps (fst x)) ++ flat_map (fun c => filter (in_sel c) l) comps).
Proof.
  unfold cover_count. induction comps as [|c cs IH]; [constructor|].
  change (flat_map (fun c0 => filter (in_sel c0) (x :: l)) (c :: cs))
    with ((if zmem (fst x) c then x :: filter (in_sel c) l else filter (in_sel c) l) ++ flat_map (fun c0 => filter (in_sel c0) (x :: l)) cs).
  change (flat_map (fun c0 => filter (in_sel c0) l) (c :: cs)) with (filter (in_sel c) l ++ flat_map (fun c0 => filter (in_sel c0) l) cs).
  cbn [filter]. destruct (zmem (fst x) c); cbn [List.length repeat app].
  - constructor. eapply Permutation_trans; [apply Permutation_app_head; exact IH|]. apply Permutation_app_swap_app.
  - eapply Permutation_trans; [apply Permutation_app_head; exact IH|]. apply Permutation_app_swap_app.
Qed.

Lemma flat_filter_perm comps (l : list (Z * atom)) : (forall na, In na l -> cover_count comps (fst na) = 1%nat) ->
  Permutation (flat_map (fun c => filter (in_sel c) l) comps) l.
Proof.
  induction l as [|x l IH]; intros H.
  - clear H. induction comps as [|c cs IHc]; cbn [flat_map filter app]; [apply perm_nil | exact IHc].
  - eapply Permutation_trans; [apply flat_filter_step|]. rewrite (H x (or_introl eq_refl)). cbn [repeat app].
    constructor. apply IH. intros na Hin. apply H. right. exact Hin.
Qed.

Lemma is_partition_cover g comps : is_partition g comps = true -> forall na, In na (m_atoms g) -> cover_count comps (fst na) = 1%nat.
Proof.
  unfold is_partition. intros H na Hin. apply andb_prop in H. destruct H as [H _].
  pose proof (proj1 (forallb_forall _ _) H (fst na)) as P. cbv beta in P. apply Nat.eqb_eq. apply P.
  unfold ids, keys. apply in_map. exact Hin.
Qed.

(* the parts of split() hold exactly the atoms of the molecule: every atom once, with its stored hydrogen count *)
Theorem split_atoms g comps parts : is_partition g comps = true -> split_with g comps = Ok parts ->
  Permutation (flat_map m_atoms parts) (m_atoms g).
Proof.
  intros P S. rewrite flat_map_concat_map, (split_with_atoms _ _ _ S), <- flat_map_concat_map.
  apply flat_filter_perm. apply is_partition_cover. exact P.
Qed.

Lemma zsum_flat_map {A} (f : A -> list Z) l : zsum (flat_map f l) = zsum (map (fun x => zsum (f x)) l).
Proof.
  induction l as [|x l IH]; [reflexivity|]. cbn [flat_map map]. rewrite zsum_app, IH. reflexivity.
Qed.
Lemma map_flat_map {A B C} (g : B -> C) (f : A -> list B) l : map g (flat_map f l) = flat_map (fun x => map g (f x)) l.
Proof. induction l as [|x l IH]; [reflexivity|]. cbn [flat_map]. rewrite map_app, IH. reflexivity. Qed.
Lemma existsb_flat_map {A B} (p : B -> bool) (f : A -> list B) l : existsb p (flat_map f l) = existsb (fun x => existsb p (f x)) l.
Proof. induction l as [|x l IH]; [reflexivity|]. cbn [flat_map existsb]. rewrite existsb_app, IH. reflexivity. Qed.
Lemma forallb_flat_map {A B} (p : B -> bool) (f : A -> list B) l : forallb p (flat_map f l) = forallb (fun x => forallb p (f x)) l.
Proof. induction l as [|x l IH]; [reflexivity|]. cbn [flat_map forallb]. rewrite forallb_app, IH. reflexivity. Qed.
Lemma formula_count_flat_map (parts : list mol) s :
  formula_count (flat_map m_atoms parts) s = zsum (map (fun p => formula_count (m_atoms p) s) parts).
Proof.
  induction parts as [|p r IH]; [unfold formula_count, nsym, hsum; cbn; destruct (String.eqb s "H"); reflexivity|].
  cbn [flat_map map]. rewrite formula_count_app, IH. reflexivity.
Qed.

Lemma psum_err_acc {A} (f : A -> pyres Z) l : forall a e, psum f l a = Err e -> forall a', psum f l a' = Err e.
Proof.
  induction l as [|x l IH]; intros a e; cbn [psum]; [discriminate|].
  destruct (f x); [intros H a'; eapply IH; exact H | intros H a'; exact H].
Qed.
Lemma psum_flat {A B} (f : B -> pyres Z) (F : A -> list B) parts : forall m, psum f (flat_map F parts) 0 = Ok m ->
  exists ms, Forall2 (fun p mi => psum f (F p) 0 = Ok mi) parts ms /\ m = zsum ms.
Proof.
  induction parts as [|p r IH]; intros m; cbn [flat_map].
  - cbn [psum]. intros H. inversion H. exists []. split; [constructor | reflexivity].
  - rewrite psum_app. destruct (psum f (F p) 0) as [v|] eqn:P; [|discriminate]. intros H.
    destruct (psum f (flat_map F r) 0) as [w|] eqn:Q.
    + rewrite (psum_acc f _ 0 w Q v) in H. inversion H. destruct (IH w eq_refl) as [ms [FA E]].
      exists (v :: ms). split; [constructor; assumption|]. change (zsum (v :: ms)) with (v + zsum ms). lia.
    + rewrite (psum_err_acc f _ 0 _ Q v) in H. discriminate.
Qed.

(* totals of the parts add up to the totals of the molecule *)
Theorem split_totals g comps parts : is_partition g comps = true -> split_with g comps = Ok parts ->
  molecular_charge g = zsum (map molecular_charge parts) /\
  is_radical g = existsb is_radical parts /\
  (forall s, formula_count (m_atoms g) s = zsum (map (fun p => formula_count (m_atoms p) s) parts)) /\
  (forall c, brutto g = Ok c -> exists cs, Forall2 (fun p ci => brutto p = Ok ci) parts cs /\
                                          forall s, sval c s = zsum (map (fun ci => sval ci s) cs)) /\
  (forall m, molecular_mass_e24 g = Ok m -> exists ms, Forall2 (fun p mi => molecular_mass_e24 p = Ok mi) parts ms /\ m = zsum ms).
Proof.
  intros P S. pose proof (split_atoms _ _ _ P S) as Perm. split; [|split; [|split; [|split]]].
  - rewrite charge_is_sum, <- (zsum_perm _ _ (Permutation_map _ Perm)), map_flat_map, zsum_flat_map.
    f_equal. apply map_ext. intros p. symmetry. apply charge_is_sum.
  - unfold is_radical at 1. rewrite <- (existsb_perm _ _ _ Perm), existsb_flat_map. reflexivity.
  - intros s. rewrite <- (formula_count_perm _ _ s Perm). apply formula_count_flat_map.
  - intros c Hc. destruct (proj1 (brutto_ok_iff g) (ex_intro _ c Hc)) as [K A].
    rewrite <- (forallb_perm _ _ _ Perm), forallb_flat_map in K. rewrite <- (forallb_perm _ _ _ Perm), forallb_flat_map in A.
    assert (Hparts : forall p, In p parts -> exists ci, brutto p = Ok ci).
    { intros p Hp. apply brutto_ok_iff. split; [exact (proj1 (forallb_forall _ _) K p Hp) | exact (proj1 (forallb_forall _ _) A p Hp)]. }
    assert (Hcs : exists cs, Forall2 (fun p ci => brutto p = Ok ci) parts cs).
    { clear -Hparts. induction parts as [|p r IH]; [exists []; constructor|].
      destruct (Hparts p (or_introl eq_refl)) as [ci Hci]. destruct IH as [cs Hcs]; [intros q Hq; apply Hparts; right; exact Hq|].
      exists (ci :: cs). constructor; assumption. }
    destruct Hcs as [cs Hcs]. exists cs. split; [exact Hcs|]. intros s.
    rewrite (proj1 (brutto_is_count _ _ Hc) s), <- (formula_count_perm _ _ s Perm), formula_count_flat_map.
    f_equal. clear -Hcs. induction Hcs as [|p ci r cs Hp _ IH]; [reflexivity|]. cbn [map]. rewrite IH, (proj1 (brutto_is_count _ _ Hp) s). reflexivity.
  - intros m. unfold molecular_mass_e24. destruct (atomic_mass_e24 1 None) as [hm|]; [|discriminate].
    rewrite mass_loop_psum. intros H. apply (psum_perm _ _ _ (Permutation_sym Perm)) in H.
    destruct (psum_flat _ _ _ _ H) as [ms [FA E]]. exists ms. split; [|exact E].
    clear -FA. induction FA as [|p mi r ms Hp _ IH]; constructor; [rewrite mass_loop_psum; exact Hp | exact IH].
Qed.


(* -- the recalculation switch of substructure -- *)
Definition sub_f (recalc : bool) (a : atom) : atom := if recalc then clear_h a else a.

Lemma zget_sub_atoms g sel recalc k :
  zget (sub_atoms g sel recalc) k = if zmem k sel then option_map (sub_f recalc) (zget (m_atoms g) k) else None.
Proof.
  unfold sub_atoms. induction (m_atoms g) as [|[k0 a0] r IH]; cbn [filter map zget fst snd].
  - destruct (zmem k sel); reflexivity.
  - destruct (zmem k0 sel) eqn:E0; cbn [map zget fst snd].
    + destruct (k =? k0) eqn:E; [apply Z.eqb_eq in E; subst k0; rewrite E0; destruct recalc; reflexivity | exact IH].
    + destruct (k =? k0) eqn:E; [apply Z.eqb_eq in E; subst k0; rewrite E0 in *; exact IH | exact IH].
Qed.

Lemma keys_sub_atoms g sel recalc : keys (sub_atoms g sel recalc) = filter (fun n => zmem n sel) (ids g).
Proof.
  unfold sub_atoms, ids, keys. rewrite map_map. cbn [fst]. induction (m_atoms g) as [|[k0 a0] r IH]; [reflexivity|].
  cbn [filter map fst]. destruct (zmem k0 sel); cbn [map fst]; rewrite IH; reflexivity.
Qed.

Definition keep (sel : list Z) (mb : Z * bond) : bool := zmem (fst mb) sel.

Lemma sub_adj_spec g sel ns : forall adj, sub_adj g sel ns = Ok adj ->
  adj = map (fun n => (n, filter (keep sel) (nbrs g n))) ns /\ forall n, In n ns -> exists nb, zget (m_adj g) n = Some nb.
Proof.
  induction ns as [|n r IH]; intros adj; cbn [sub_adj].
  - intros H. inversion H. split; [reflexivity | intros n []].
  - destruct (zget (m_adj g) n) as [nb|] eqn:Z; [|discriminate]. destruct (sub_adj g sel r) as [rest|]; [|discriminate].
    intros H. inversion H. destruct (IH rest eq_refl) as [E A]. split.
    + cbn [map]. unfold nbrs at 1. rewrite Z, <- E. reflexivity.
    + intros k [Hk | Hk]; [subst k; exists nb; exact Z | apply A; exact Hk].
Qed.

Lemma zget_map_key {V} (F : Z -> V) ns k : zget (map (fun n => (n, F n)) ns) k = if zmem k ns then Some (F k) else None.
Proof.
  induction ns as [|n r IH]; [reflexivity|]. cbn [map zget zmem existsb]. fold (zmem k r).
  destruct (k =? n) eqn:E; [apply Z.eqb_eq in E; subst; reflexivity | exact IH].
Qed.

Lemma closed_filter g sel k nb : closed_sel g sel = true -> zmem k sel = true -> zget (m_adj g) k = Some nb ->
  filter (keep sel) nb = nb /\ forall mb, In mb nb -> zmem (fst mb) sel = true.
Proof.
  intros C K Z. apply zget_In in Z. pose proof (proj1 (forallb_forall _ _) C _ Z) as H. cbn [fst snd] in H.
  rewrite K in H. cbn [negb orb] in H. split; [|exact (proj1 (forallb_forall _ _) H)].
  clear -H. induction nb as [|mb r IH]; [reflexivity|]. cbn [forallb] in H. apply andb_prop in H. destruct H as [H1 H2].
  cbn [filter]. unfold keep at 1. rewrite H1, (IH H2). reflexivity.
Qed.

(* the cut graph: what substructure builds before fix_structure *)
Lemma sub_calc_closed g sel recalc adj k a : closed_sel g sel = true ->
  sub_adj g sel (keys (sub_atoms g sel recalc)) = Ok adj -> atom_of g k = Some a -> zmem k sel = true ->
  calc_implicit (mkMol (sub_atoms g sel recalc) adj) k = calc_implicit g k.
Proof.
  intros C S Ha K. destruct (sub_adj_spec _ _ _ _ S) as [E A]. set (s0 := mkMol (sub_atoms g sel recalc) adj).
  assert (Hk : In k (keys (sub_atoms g sel recalc))).
  { rewrite keys_sub_atoms. apply filter_In. split; [|exact K]. unfold ids, keys. change k with (fst (k, a)). apply in_map. apply zget_In. exact Ha. }
  destruct (A k Hk) as [nb Z].
  unfold calc_implicit. unfold atom_of at 1. subst s0. cbn [m_atoms m_adj]. rewrite zget_sub_atoms, K. unfold atom_of in Ha. rewrite Ha. cbn [option_map].
  fold (atom_of g k). unfold atom_of. rewrite Ha.
  assert (Hc : a_num (sub_f recalc a) = a_num a /\ a_chg (sub_f recalc a) = a_chg a /\ a_rad (sub_f recalc a) = a_rad a /\
               rules_of_atom (sub_f recalc a) = rules_of_atom a) by (destruct recalc; repeat split; reflexivity).
  destruct Hc as [Hn [Hc [Hr Hru]]]. rewrite Hn, Hc, Hr, Hru. destruct (a_num a =? 1); [reflexivity|].
  rewrite E, zget_map_key, (proj2 (zmem_In _ _) Hk), Z. unfold nbrs. rewrite Z.
  destruct (closed_filter _ _ _ _ C K Z) as [F All]. rewrite F. f_equal.
  unfold nview_of. apply map_ext_in. intros mb Hmb. f_equal. unfold atom_of. cbn [m_atoms]. rewrite zget_sub_atoms, (All mb Hmb).
  destruct (zget (m_atoms g) (fst mb)) as [a'|]; [|reflexivity]. cbn [option_map]. destruct recalc; reflexivity.
Qed.

Lemma with_h_eta a : with_h a (a_h a) = a.
Proof. destruct a; reflexivity. Qed.

(* with recalculation, a selection that no bond leaves gets exactly the counts calc_implicit gives in the whole molecule *)
Theorem sub_recalc_closed g sel s : closed_sel g sel = true -> substructure g sel true = Ok s ->
  ids s = filter (fun n => zmem n sel) (ids g) /\
  forall k a, atom_of g k = Some a -> zmem k sel = true -> atom_of s k = Some (with_h a (result_of (calc_implicit g k))).
Proof.
  intros C. unfold substructure. destruct sel as [|x sel']; [discriminate|]. set (sel := x :: sel') in *.
  destruct (negb _); [discriminate|]. destruct (sub_adj g sel (keys (sub_atoms g sel true))) as [adj|] eqn:S; [|discriminate].
  unfold fix_hydrogens. intros H. destruct (recalc_loop_spec _ _ _ H) as [Sk [I [Hok Hat]]]. split.
  - rewrite I. unfold ids at 1. cbn [m_atoms]. apply keys_sub_atoms.
  - intros k a Ha K. rewrite Hat. unfold atom_of at 1. cbn [m_atoms]. rewrite zget_sub_atoms, K. unfold atom_of in Ha. rewrite Ha. cbn [option_map sub_f].
    assert (Hk : zmem k (ids (mkMol (sub_atoms g sel true) adj)) = true).
    { apply zmem_In. unfold ids. cbn [m_atoms]. rewrite keys_sub_atoms. apply filter_In. split; [|exact K].
      unfold ids, keys. change k with (fst (k, a)). apply in_map. apply zget_In. exact Ha. }
    rewrite Hk, (sub_calc_closed g sel true adj k a C S Ha K). reflexivity.
Qed.

Lemma assoc_ext {V} (l l' : list (Z * V)) : map fst l = map fst l' -> NoDup (map fst l) -> (forall k, zget l k = zget l' k) -> l = l'.
Proof.
  revert l'. induction l as [|[k v] r IH]; intros [|[k' v'] r'] K ND Z; try discriminate; [reflexivity|].
  cbn [map fst] in K, ND. inversion K as [[K1 K2]]. subst k'. inversion ND as [|? ? Hk NDr]. subst.
  pose proof (Z k) as Zk. cbn [zget] in Zk. rewrite Z.eqb_refl in Zk. inversion Zk. subst v'. f_equal.
  apply IH; [exact K2 | exact NDr|]. intros j. specialize (Z j). cbn [zget] in Z. destruct (j =? k) eqn:E; [|exact Z].
  apply Z.eqb_eq in E. subst j.
  assert (N1 : zget r k = None). { destruct (zget r k) eqn:G; [|reflexivity]. exfalso. apply Hk. change k with (fst (k, v0)). apply in_map. apply zget_In. exact G. }
  assert (N2 : zget r' k = None). { destruct (zget r' k) eqn:G; [|reflexivity]. exfalso. apply Hk. rewrite K2. change k with (fst (k, v0)). apply in_map. apply zget_In. exact G. }
  congruence.
Qed.

(* every stored hydrogen count is what calc_implicit gives now (the state after fix_structure) *)
Definition fresh (g : mol) : Prop := forall k a, atom_of g k = Some a -> a_h a = result_of (calc_implicit g k).

(* on such a molecule the switch is irrelevant for a selection that no bond leaves (a union of connected components):
   substructure(..., recalculate_hydrogens=True) and (..., False) build the same molecule *)
Theorem sub_switch_irrelevant g sel s : NoDup (ids g) -> closed_sel g sel = true -> fresh g ->
  substructure g sel true = Ok s -> substructure g sel false = Ok s.
Proof.
  intros ND C F H. destruct (sub_recalc_closed _ _ _ C H) as [I At]. revert H.
  unfold substructure. destruct sel as [|x sel']; [discriminate|]. set (sel := x :: sel') in *.
  destruct (negb _); [discriminate|]. rewrite !keys_sub_atoms.
  pose proof (keys_sub_atoms g sel true) as Kt.
  destruct (sub_adj g sel (filter (fun n => zmem n sel) (ids g))) as [adj|] eqn:S; [|discriminate].
  unfold fix_hydrogens. intros H. destruct (recalc_loop_spec _ _ _ H) as [[Adj _] [I' [_ Hat]]]. cbn [m_adj] in Adj.
  f_equal. destruct s as [sa sj]. cbn [m_adj] in Adj. subst sj. f_equal. symmetry.
  assert (NDs : NoDup (filter (fun n => zmem n sel) (ids g))) by (apply NoDup_filter; exact ND).
  apply assoc_ext.
  - change (map fst sa) with (ids (mkMol sa adj)). rewrite I. symmetry. apply keys_sub_atoms.
  - change (map fst sa) with (ids (mkMol sa adj)). rewrite I. exact NDs.
  - intros k. change (zget sa k) with (atom_of (mkMol sa adj) k). rewrite zget_sub_atoms. cbn [sub_f].
    destruct (zmem k sel) eqn:K.
    + destruct (zget (m_atoms g) k) as [a|] eqn:G.
      * rewrite (At k a G K), <- (F k a G), with_h_eta. reflexivity.
      * cbn [option_map]. rewrite Hat. unfold atom_of. cbn [m_atoms]. rewrite zget_sub_atoms, K, G. reflexivity.
    + rewrite Hat. unfold atom_of. cbn [m_atoms]. rewrite zget_sub_atoms, K. reflexivity.
Qed.

(* ... and it is not for a selection that cuts a bond: one carbon of ethane keeps 3 hydrogens without recalculation and
   becomes methane with it *)
Definition ethane : mol :=
  mkMol [(1, mkAtom 6 None 0 false (Some 3) None); (2, mkAtom 6 None 0 false (Some 3) None)]
        [(1, [(2, mkBond 1 None)]); (2, [(1, mkBond 1 None)])].
Example sub_switch_matters :
  closed_sel ethane [1] = false /\
  option_map (fun s => map (fun na => a_h (snd na)) (m_atoms s)) (match substructure ethane [1] false with Ok s => Some s | Err _ => None end) = Some [Some 3] /\
  option_map (fun s => map (fun na => a_h (snd na)) (m_atoms s)) (match substructure ethane [1] true with Ok s => Some s | Err _ => None end) = Some [Some 4] /\
  closed_sel ethane [1; 2] = true /\ substructure ethane [2; 1] true = Ok ethane /\ substructure ethane [2; 1] false = Ok ethane.
Proof. vm_compute. repeat split; reflexivity. Qed.

(* non-vacuity: methanol | methanol (renumbered 3, 4), split back into its two components *)
Example union_split_example :
  union_py methanol methanol false = Err ValueError /\
  exists u p2, union_py methanol methanol true = Ok u /\ ids u = [1; 2; 3; 4] /\ wf_mol u = true /\
    is_partition u [[1; 2]; [3; 4]] = true /\ forallb (closed_sel u) [[1; 2]; [3; 4]] = true /\
    split_with u [[1; 2]; [3; 4]] = Ok [methanol; p2] /\ ids p2 = [3; 4] /\ atoms_of p2 = atoms_of methanol /\
    brutto u = Ok [("C"%string, 2); ("O"%string, 2); ("H"%string, 8)] /\
    substructure u [4; 3] true = Ok p2 /\ substructure u [] true = Err ValueError /\ substructure u [5] true = Err ValueError.
Proof. split; [reflexivity|]. eexists. eexists. vm_compute. repeat split; reflexivity. Qed.
