(* C18: every tabulated element state is representable in the matcher bit layout AS WRITTEN IN THE SOURCE: the statements are
   about Gen.IsoLayout.g_enc_atom / g_enc_qatom, regenerated from chython/algorithms/isomorphism.py on every run. *)
From Coq Require Import ZArith List String Bool Lia.
From Model Require Import PyBase PeriodicTable IsoBits.
From Gen Require Import Elements IsoLayout.
From Proofs Require Import IsoBitsProofs IsoLayoutTie.
Import ListNotations.
Open Scope Z_scope.

(* the state space of the property: element x (no isotope | tabulated isotope) x charge -4..4 x radical x hydrogens 0..4 *)
Definition state_atoms (e : elem) : list latom :=
  flat_map (fun iso => flat_map (fun chg => flat_map (fun rad => map (fun h =>
    mkLA (e_num e) iso chg rad 0 1 (Some h) 0 []) (zrange 0 5)) [false; true]) (zrange (-4) 5))
    (None :: map Some (keys (e_dist e))).

Definition open_query (a : latom) : qx := mkQX (la_chg a) (la_rad a) [] [] [] [] [].

(* 1. every tabulated state lies inside the range in which the mask test is exact *)
Lemma tabulated_states_atom_ok : forallb (fun e => forallb atom_ok (state_atoms e)) elements = true.
Proof. vm_compute. reflexivity. Qed.

(* 2. computed on the SOURCE encoders: a one-atom state is accepted by the element, any-element and list query that leave
      isotope and hydrogens open, and by the query spelling its isotope out; it is rejected by a query with another hydrogen count *)
Definition state_found (a : latom) : bool :=
  let b := g_enc_atom a in
  mask_match_first (g_enc_qatom (QElem (la_num a) None (open_query a)) None) b &&
  mask_match_first (g_enc_qatom (QAny (open_query a)) None) b &&
  mask_match_first (g_enc_qatom (QList [6; la_num a; 7] (open_query a)) None) b &&
  mask_match_first (g_enc_qatom (QElem (la_num a) (la_iso a) (open_query a)) None) b &&
  negb (mask_match_first (g_enc_qatom (QElem (la_num a) None
          (mkQX (la_chg a) (la_rad a) [] [] [(match la_h a with Some h => (h + 1) mod 5 | None => 0 end)] [] [])) None) b).

Lemma tabulated_states_found : forallb (fun e => forallb state_found (state_atoms e)) elements = true.
Proof. vm_compute. reflexivity. Qed.

(* 3. the C09 exactness theorem, restated on the encoders regenerated from the source *)
Theorem source_mask_match_first_correct q a :
  query_ok q = true -> atom_ok a = true -> elem_hyp q (la_num a) ->
  mask_match_first (g_enc_qatom q None) (g_enc_atom a) = match_atom q a.
Proof. intros; rewrite g_enc_qatom_eq, g_enc_atom_eq; apply mask_match_first_correct; assumption. Qed.

(* 4. hence for EVERY in-range query (not only the five probes of 2.) the source layout decides __eq__ on every tabulated state *)
Theorem tabulated_states_decided e a q :
  In e elements -> In a (state_atoms e) -> query_ok q = true -> elem_hyp q (la_num a) ->
  mask_match_first (g_enc_qatom q None) (g_enc_atom a) = match_atom q a.
Proof.
  intros He Ha Hq Hh. apply source_mask_match_first_correct; try assumption.
  pose proof tabulated_states_atom_ok as H. rewrite forallb_forall in H. specialize (H e He).
  rewrite forallb_forall in H. exact (H a Ha).
Qed.

Lemma state_atoms_example :
  exists e, from_number 7 = Some e /\ In (mkLA 7 (Some 15) 1 false 0 1 (Some 4) 0 []) (state_atoms e).
Proof. destruct (from_number 7) as [e|] eqn:E; [|vm_compute in E; discriminate]. exists e; split; [reflexivity|].
  vm_compute in E. injection E as <-. vm_compute. tauto. Qed.
