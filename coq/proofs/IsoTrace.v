(* C07 round 3: the pop trace of _get_mapping (Iso.get_mapping_trace, compared with the real loop by the correspondence) determines what
   is yielded: the yielded mappings are, in order, the trace entries at full depth. *)
From Coq Require Import ZArith List Bool Lia.
From Model Require Import PyBase Iso.
Import ListNotations.
Local Open Scope Z_scope.

Lemma map_flat_map {S T U} (f : T -> U) (g : S -> list T) l : map f (flat_map g l) = flat_map (fun x => map f (g x)) l.
Proof. induction l as [|x r IH]; [reflexivity|]. cbn. rewrite map_app, IH. reflexivity. Qed.
Lemma filter_flat_map {S T} (p : T -> bool) (g : S -> list T) l : filter p (flat_map g l) = flat_map (fun x => filter p (g x)) l.
Proof. induction l as [|x r IH]; [reflexivity|]. cbn. rewrite filter_app, IH. reflexivity. Qed.

Section Trace.
  Variables QA A QB B : Type.
  Variable amatch : QA -> A -> bool.
  Variable bmatch : QB -> B -> bool.

  Definition full (d : Z) (t : Z * Z * list Z) : bool := snd (fst t) =? d.
  Definition leaf_image (t : Z * Z * list Z) : list Z := snd t ++ [fst (fst t)].

  Lemma gm_from_trace clo (o_atoms : list (Z * A)) (o_bonds : list (Z * list (Z * B))) scope : forall rest current mp n d,
    map image (gm_from amatch bmatch clo o_atoms o_bonds scope rest current mp n) =
    map leaf_image (filter (full (d + Z.of_nat (length rest))) (gm_trace amatch bmatch clo o_atoms o_bonds scope rest current mp n d)).
  Proof.
    induction rest as [|[[[s_n back] s_atom] s_bond] rest IH]; intros current mp n d.
    - cbn. unfold full. cbn. replace (d + 0) with d by lia. rewrite Z.eqb_refl. cbn. unfold image, leaf_image. rewrite map_app. reflexivity.
    - cbn [gm_from gm_trace filter]. unfold full at 1. cbn [fst snd length].
      destruct (Z.eqb_spec d (d + Z.of_nat (S (length rest)))) as [E|_]; [lia|].
      destruct (if opt_is back current then Some n else match back with Some b => zget (mp ++ [(current, n)]) b | None => None end) as [n'|]; [|reflexivity].
      rewrite map_flat_map, filter_flat_map, map_flat_map. apply flat_map_ext. intros ob.
      rewrite (IH s_n (mp ++ [(current, n)]) (fst ob) (d + 1)). replace (d + 1 + Z.of_nat (length rest)) with (d + Z.of_nat (S (length rest))) by lia. reflexivity.
  Qed.

  (* the images of the yielded mappings are exactly the trace entries at depth len(linear_query) - 1, in order *)
  Theorem get_mapping_trace_yields : forall lq clo (o_atoms : list (Z * A)) (o_bonds : list (Z * list (Z * B))) scope,
    map image (get_mapping amatch bmatch lq clo o_atoms o_bonds scope) =
    map leaf_image (filter (full (Z.of_nat (length lq) - 1)) (get_mapping_trace amatch bmatch lq clo o_atoms o_bonds scope)).
  Proof.
    intros [|[[[s_n b0] s_atom] bd0] rest] clo o_atoms o_bonds scope; [reflexivity|]. cbn [get_mapping get_mapping_trace].
    rewrite map_flat_map, filter_flat_map, map_flat_map. apply flat_map_ext. intros na.
    rewrite (gm_from_trace clo o_atoms o_bonds scope rest s_n [] (fst na) 0). cbn [length].
    replace (Z.of_nat (S (length rest)) - 1) with (0 + Z.of_nat (length rest)) by lia. reflexivity.
  Qed.
End Trace.
