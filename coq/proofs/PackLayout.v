(* C10: pack m = bytes of the declarative bit-field layout (PackSpec.layout_v2), bit for bit. *)
From Coq Require Import ZArith List Bool Lia ZifyBool.
From Model Require Import PyBase Pack PackSpec.
From Gen Require Import Elements.
From Proofs Require Import PackBits PackRoundtrip PackRoundtripGraph PackRoundtripMol.
Import ListNotations.
Open Scope Z_scope.

(* ================================================================================================ *)
(* byte aligned bit streams *)

Definition aligned (l : list bool) : Prop := exists k, length l = (8 * k)%nat.

Lemma aligned_nil : aligned [].
Proof. exists 0%nat. reflexivity. Qed.

Lemma aligned_app l1 l2 : aligned l1 -> aligned l2 -> aligned (l1 ++ l2).
Proof. intros [k1 H1] [k2 H2]. exists (k1 + k2)%nat. rewrite app_length. lia. Qed.

Lemma aligned_len l k : length l = (8 * k)%nat -> aligned l.
Proof. intros H. exists k. exact H. Qed.

Lemma bob_app : forall l1 l2, aligned l1 -> bytes_of_bits (l1 ++ l2) = bytes_of_bits l1 ++ bytes_of_bits l2.
Proof.
  apply (list_ind8 (fun l1 => forall l2, aligned l1 -> bytes_of_bits (l1 ++ l2) = bytes_of_bits l1 ++ bytes_of_bits l2)).
  - intros l Hl l2 [k Hk]. destruct l; [reflexivity | cbn [length] in *; lia].
  - intros a0 a1 a2 a3 a4 a5 a6 a7 r IH l2 [k Hk].
    assert (Hr : aligned r) by (exists (k - 1)%nat; cbn [length] in Hk; lia).
    change ((a0 :: a1 :: a2 :: a3 :: a4 :: a5 :: a6 :: a7 :: r) ++ l2) with (a0 :: a1 :: a2 :: a3 :: a4 :: a5 :: a6 :: a7 :: (r ++ l2)).
    change (bytes_of_bits (a0 :: a1 :: a2 :: a3 :: a4 :: a5 :: a6 :: a7 :: (r ++ l2)))
      with (byte_of_bits [a0; a1; a2; a3; a4; a5; a6; a7] :: bytes_of_bits (r ++ l2)).
    change (bytes_of_bits (a0 :: a1 :: a2 :: a3 :: a4 :: a5 :: a6 :: a7 :: r))
      with (byte_of_bits [a0; a1; a2; a3; a4; a5; a6; a7] :: bytes_of_bits r).
    rewrite (IH l2 Hr). reflexivity.
Qed.

Lemma bits_of_length w n : length (bits_of w n) = w.
Proof. induction w as [|w IH]; [reflexivity|]. cbn [bits_of length]. rewrite IH. reflexivity. Qed.

Lemma bob_flat_map {A} (f : A -> list bool) (g : A -> list Z) (l : list A) :
  (forall x, In x l -> aligned (f x) /\ bytes_of_bits (f x) = g x) ->
  aligned (flat_map f l) /\ bytes_of_bits (flat_map f l) = flat_map g l.
Proof.
  induction l as [|x l IH]; intros H; [split; [apply aligned_nil | reflexivity]|].
  destruct (H x (or_introl eq_refl)) as [Ha Hb]. destruct (IH (fun y Hy => H y (or_intror Hy))) as [IHa IHb].
  cbn [flat_map]. split; [apply aligned_app; assumption|]. rewrite bob_app by exact Ha. rewrite Hb, IHb. reflexivity.
Qed.

(* ================================================================================================ *)
(* finite facts about the fields *)

Definition bools_eqb := list_eqb Bool.eqb.
Lemma bools_eqb_eq (a b : list bool) : bools_eqb a b = true -> a = b.
Proof.
  revert b. induction a as [|x a IH]; intros [|y b] H; cbn in H; try discriminate; [reflexivity|].
  apply andb_true_iff in H. destruct H as [H1 H2]. apply Bool.eqb_prop in H1. subst. f_equal. apply IH. exact H2.
Qed.

(* one byte *)
Lemma byte_bits_sweep : forallb (fun x => list_eqb Z.eqb (bytes_of_bits (bits_of 8 x)) [x]) (zrange 0 256) = true.
Proof. vm_compute. reflexivity. Qed.
Lemma byte_bits x : 0 <= x < 256 -> bytes_of_bits (bits_of 8 x) = [x].
Proof. intros H. apply list_eqb_Z_eq. apply (sweep1 _ _ _ byte_bits_sweep x H). Qed.

(* 12 bit number followed by a 4 bit field: two bytes *)
Definition chk_n12_g4 (n g : Z) : bool :=
  list_eqb Z.eqb (bytes_of_bits (bits_of 12 n ++ bits_of 4 g)) [u8 (Z.shiftr n 4); u8 (Z.lor (Z.shiftl n 4) g)].
Lemma n12_g4_sweep : forallb (fun n => forallb (chk_n12_g4 n) (zrange 0 16)) (zrange 0 4096) = true.
Proof. vm_compute. reflexivity. Qed.
Lemma n12_g4 n g : 0 <= n < 4096 -> 0 <= g < 16 ->
  bytes_of_bits (bits_of 12 n ++ bits_of 4 g) = [u8 (Z.shiftr n 4); u8 (Z.lor (Z.shiftl n 4) g)].
Proof. intros Hn Hg. apply list_eqb_Z_eq. apply (sweep2 _ _ _ _ _ n12_g4_sweep n g Hn Hg). Qed.

(* a 12 bit number = its top 4 bits followed by its low byte *)
Definition chk_split12 (m : Z) : bool :=
  bools_eqb (bits_of 12 m) (bits_of 4 (Z.shiftr m 8) ++ bits_of 8 (u8 m)) && (0 <=? Z.shiftr m 8) && (Z.shiftr m 8 <? 16).
Lemma split12_sweep : forallb chk_split12 (zrange 0 4096) = true.
Proof. vm_compute. reflexivity. Qed.
Lemma split12 m : 0 <= m < 4096 ->
  bits_of 12 m = bits_of 4 (Z.shiftr m 8) ++ bits_of 8 (u8 m) /\ 0 <= Z.shiftr m 8 < 16.
Proof.
  intros H. pose proof (sweep1 _ _ _ split12_sweep m H) as S. unfold chk_split12 in S. split_andb.
  split; [apply bools_eqb_eq; assumption | lia].
Qed.

(* two 12 bit numbers: three bytes *)
Lemma pair_bits m1 m2 : 0 <= m1 < 4096 -> 0 <= m2 < 4096 ->
  bytes_of_bits (bits_of 12 m1 ++ bits_of 12 m2) =
  [u8 (Z.shiftr m1 4); u8 (Z.lor (Z.shiftl m1 4) (Z.shiftr m2 8)); u8 m2].
Proof.
  intros H1 H2. destruct (split12 m2 H2) as [E Hh]. rewrite E, app_assoc.
  rewrite bob_app by (apply (aligned_len _ 2); rewrite app_length, !bits_of_length; reflexivity).
  rewrite n12_g4 by assumption. rewrite byte_bits by apply u8_range. reflexivity.
Qed.

(* bytes 2, 3 of the atom record *)
Definition chk_st_iso_an (st : option bool) (g iso an : Z) : bool :=
  list_eqb Z.eqb (bytes_of_bits (tetra_bits st g ++ allene_bits st g ++ bits_of 5 iso ++ bits_of 7 an))
                 [u8 (Z.lor (stereo_bits st g) (Z.shiftr iso 1)); u8 (Z.lor (Z.shiftl iso 7) (u8 an))].
Lemma st_iso_an_sweep :
  forallb (fun st => forallb (fun g => forallb (fun iso => forallb (chk_st_iso_an st g iso) (zrange 0 128)) (zrange 0 32))
                             (zrange 0 16)) [None; Some true; Some false] = true.
Proof. vm_compute. reflexivity. Qed.
Lemma st_iso_an st g iso an : 0 <= g < 16 -> 0 <= iso < 32 -> 0 <= an < 128 ->
  bytes_of_bits (tetra_bits st g ++ allene_bits st g ++ bits_of 5 iso ++ bits_of 7 an) =
  [u8 (Z.lor (stereo_bits st g) (Z.shiftr iso 1)); u8 (Z.lor (Z.shiftl iso 7) (u8 an))].
Proof.
  intros Hg Hi Ha. pose proof st_iso_an_sweep as S. rewrite forallb_forall in S.
  assert (Hin : In st [None; Some true; Some false]) by (destruct st as [[|]|]; cbn; auto).
  apply list_eqb_Z_eq. apply (sweep3 _ _ _ _ _ _ _ (S st Hin) g iso an Hg Hi Ha).
Qed.

(* byte 8 of the atom record *)
Definition chk_hcr (h : option Z) (chg : Z) (rad : bool) : bool :=
  list_eqb Z.eqb (bytes_of_bits (bits_of 3 (match h with None => 7 | Some v => v end) ++ bits_of 4 (chg + 4) ++ [rad]))
                 [hcr_field h chg rad].
Lemma hcr_sweep :
  forallb (fun chg => forallb (fun rad => chk_hcr None chg rad && forallb (fun v => chk_hcr (Some v) chg rad) (zrange 0 7))
                              [true; false]) (zrange (-4) 5) = true.
Proof. vm_compute. reflexivity. Qed.
Lemma hcr_bits h chg rad : match h with None => True | Some v => 0 <= v <= 6 end -> -4 <= chg <= 4 ->
  bytes_of_bits (bits_of 3 (match h with None => 7 | Some v => v end) ++ bits_of 4 (chg + 4) ++ [rad]) = [hcr_field h chg rad].
Proof.
  intros Hh Hc. pose proof (sweep1 _ _ _ hcr_sweep chg ltac:(lia)) as S. cbv beta in S. rewrite forallb_forall in S.
  assert (Hin : In rad [true; false]) by (destruct rad; cbn; auto).
  specialize (S rad Hin). apply andb_true_iff in S. destruct S as [SN SS]. apply list_eqb_Z_eq.
  destruct h as [v|]; [|exact SN]. apply (sweep1 _ _ _ SS v). lia.
Qed.

(* ================================================================================================ *)
(* the blocks *)

(* one atom record *)
Lemma atom_bits_bytes a : atom_ok a = true -> aligned (atom_bits a) /\ bytes_of_bits (atom_bits a) = atom_bytes a.
Proof.
  intros H. unfold atom_ok in H. split_andb.
  destruct (pa_xy a) as [|x0 [|x1 [|y0 [|y1 [|? ?]]]]] eqn:Exy; try discriminate.
  match goal with K : forallb byte_ok _ = true |- _ => cbn [forallb] in K; unfold byte_ok in K end. split_andb.
  set (g := Z.of_nat (length (pa_nbrs a))). assert (Hg : 0 <= g < 16) by (subst g; lia).
  match goal with K : iso_ok _ _ = true |- _ => pose proof (iso_field_range _ _ K) as Hir; rename K into Hiso end.
  assert (Eiso : match pa_iso a with None => 0 | Some i => i - znth pack_common_isotopes (pa_an a) 0 end = iso_field (pa_an a) (pa_iso a)).
  { unfold iso_field. destruct (pa_iso a) as [i|]; [|reflexivity]. cbn [iso_ok] in Hiso. rewrite u8_small by lia. reflexivity. }
  assert (Hh : match pa_h a with None => True | Some v => 0 <= v <= 6 end).
  { destruct (pa_h a); [|exact I]. cbn [h_ok] in *. lia. }
  unfold atom_bits. cbv zeta. fold g. rewrite Eiso, Exy. cbn [flat_map]. rewrite app_nil_r.
  split.
  - apply (aligned_len _ 9). rewrite !app_length, !bits_of_length. cbn [length].
    destruct (pa_stereo a) as [[|]|]; unfold tetra_bits, allene_bits; destruct (g =? 2); reflexivity.
  - unfold atom_bytes. rewrite Exy. rewrite (u16_small (pa_n a)) by lia. fold g. rewrite (u8_small g) by lia.
    rewrite (app_assoc (bits_of 12 (pa_n a))).
    rewrite bob_app by (apply (aligned_len _ 2); rewrite app_length, !bits_of_length; reflexivity).
    rewrite n12_g4 by lia.
    set (sb := tetra_bits (pa_stereo a) g ++ allene_bits (pa_stereo a) g ++ bits_of 5 (iso_field (pa_an a) (pa_iso a)) ++ bits_of 7 (pa_an a)).
    replace (tetra_bits (pa_stereo a) g ++ allene_bits (pa_stereo a) g ++ bits_of 5 (iso_field (pa_an a) (pa_iso a)) ++
             bits_of 7 (pa_an a) ++ (bits_of 8 x0 ++ bits_of 8 x1 ++ bits_of 8 y0 ++ bits_of 8 y1) ++
             bits_of 3 match pa_h a with Some v => v | None => 7 end ++ bits_of 4 (pa_chg a + 4) ++ [pa_rad a])
      with (sb ++ bits_of 8 x0 ++ bits_of 8 x1 ++ bits_of 8 y0 ++ bits_of 8 y1 ++
            bits_of 3 match pa_h a with Some v => v | None => 7 end ++ bits_of 4 (pa_chg a + 4) ++ [pa_rad a])
      by (unfold sb; rewrite <- !app_assoc; reflexivity).
    assert (Asb : aligned sb).
    { apply (aligned_len _ 2). unfold sb. rewrite !app_length, !bits_of_length.
      destruct (pa_stereo a) as [[|]|]; unfold tetra_bits, allene_bits; destruct (g =? 2); reflexivity. }
    rewrite bob_app by exact Asb. unfold sb. rewrite st_iso_an by lia.
    rewrite !bob_app by (apply (aligned_len _ 1); apply bits_of_length).
    rewrite !byte_bits by lia. rewrite hcr_bits by (assumption || lia). reflexivity.
Qed.

Lemma atoms_bits_bytes atoms : forallb atom_ok atoms = true ->
  aligned (flat_map atom_bits atoms) /\ bytes_of_bits (flat_map atom_bits atoms) = atoms_block atoms.
Proof.
  intros H. rewrite forallb_forall in H. unfold atoms_block. apply bob_flat_map.
  intros a Ha. apply atom_bits_bytes. apply H. exact Ha.
Qed.

(* header *)
Lemma header_bits_bytes ac ct : 0 <= ac < 4096 -> 0 <= ct < 4096 ->
  aligned (bits_of 8 2 ++ bits_of 12 ac ++ bits_of 12 ct) /\
  bytes_of_bits (bits_of 8 2 ++ bits_of 12 ac ++ bits_of 12 ct) = header_bytes ac ct.
Proof.
  intros H1 H2. split; [apply (aligned_len _ 4); rewrite !app_length, !bits_of_length; reflexivity|].
  rewrite bob_app by (apply (aligned_len _ 1); apply bits_of_length).
  rewrite byte_bits by lia. rewrite pair_bits by assumption. reflexivity.
Qed.

(* connection table *)
Lemma conns_bits_bytes : forall ms, Forall num_ok ms -> Nat.Even (length ms) ->
  aligned (flat_map (bits_of 12) ms) /\ bytes_of_bits (flat_map (bits_of 12) ms) = pair_bytes ms.
Proof.
  apply (list_ind2 (fun ms => Forall num_ok ms -> Nat.Even (length ms) ->
           aligned (flat_map (bits_of 12) ms) /\ bytes_of_bits (flat_map (bits_of 12) ms) = pair_bytes ms)).
  - intros _ _. split; [apply aligned_nil | reflexivity].
  - intros x _ [k Hk]. cbn [length] in Hk. lia.
  - intros m1 m2 r IH HF [k Hk].
    inversion HF as [|? ? H1 HF1]; subst. inversion HF1 as [|? ? H2 HF2]; subst.
    assert (Hev : Nat.Even (length r)) by (exists (k - 1)%nat; cbn [length] in Hk; lia).
    destruct (IH HF2 Hev) as [IHa IHb]. cbn [flat_map pair_bytes]. rewrite app_assoc.
    assert (A2 : aligned (bits_of 12 m1 ++ bits_of 12 m2))
      by (apply (aligned_len _ 3); rewrite app_length, !bits_of_length; reflexivity).
    split; [apply aligned_app; assumption|].
    rewrite bob_app by exact A2. rewrite pair_bits by assumption. rewrite IHb. reflexivity.
Qed.

(* cis/trans block *)
Lemma ct_bits_bytes t : ct_rec_ok t -> aligned (ct_bits t) /\ bytes_of_bits (ct_bits t) = ct_record t.
Proof.
  destruct t as [[tn tm] v]. intros [H1 H2]. cbn [fst snd] in H1, H2. unfold ct_bits, ct_record.
  split; [apply (aligned_len _ 4); rewrite !app_length, !bits_of_length; reflexivity|].
  rewrite app_assoc.
  rewrite bob_app by (apply (aligned_len _ 3); rewrite app_length, !bits_of_length; reflexivity).
  rewrite pair_bits by assumption. destruct v; reflexivity.
Qed.

(* order block: explicit zero padding does not change the bytes *)
Lemma bits_val_pad k : forall l w, bits_val w (l ++ repeat false k) = bits_val w l.
Proof.
  induction l as [|b l IH]; intros w.
  - cbn [app]. revert w. induction k as [|k IHk]; intros w; [reflexivity|]. cbn [repeat bits_val b2z]. rewrite IHk. cbn [bits_val]. lia.
  - cbn [app bits_val]. rewrite IH. reflexivity.
Qed.

Lemma pad8_short l : (length l < 8)%nat -> aligned (pad8 l) /\ bytes_of_bits (pad8 l) = bytes_of_bits l.
Proof.
  intros H. unfold pad8. rewrite (Nat.mod_small (length l) 8) by exact H.
  destruct l as [|b l'] eqn:El.
  - cbn. split; [apply aligned_nil | reflexivity].
  - rewrite <- El in *. assert (Hl : (0 < length l < 8)%nat) by (subst l; cbn [length] in *; lia).
    rewrite (Nat.mod_small (8 - length l) 8) by lia.
    assert (L8 : length (l ++ repeat false (8 - length l)) = 8%nat) by (rewrite app_length, repeat_length; lia).
    split; [apply (aligned_len _ 1); exact L8|].
    rewrite <- (app_nil_r (l ++ repeat false (8 - length l))). rewrite bytes_of_bits_8 by exact L8.
    rewrite (bytes_of_bits_short l) by exact Hl. unfold byte_of_bits. rewrite bits_val_pad. reflexivity.
Qed.

Lemma pad8_bytes : forall l, aligned (pad8 l) /\ bytes_of_bits (pad8 l) = bytes_of_bits l.
Proof.
  apply (list_ind8 (fun l => aligned (pad8 l) /\ bytes_of_bits (pad8 l) = bytes_of_bits l)).
  - apply pad8_short.
  - intros a0 a1 a2 a3 a4 a5 a6 a7 r [IHa IHb].
    assert (E : pad8 (a0 :: a1 :: a2 :: a3 :: a4 :: a5 :: a6 :: a7 :: r) = [a0; a1; a2; a3; a4; a5; a6; a7] ++ pad8 r).
    { unfold pad8. cbn [length].
      replace (S (S (S (S (S (S (S (S (length r)))))))) mod 8)%nat with (length r mod 8)%nat
        by (replace (S (S (S (S (S (S (S (S (length r))))))))) with (length r + 1 * 8)%nat by lia; rewrite Nat.mod_add by lia; reflexivity).
      reflexivity. }
    rewrite E. split.
    + apply aligned_app; [apply (aligned_len _ 1); reflexivity | exact IHa].
    + rewrite bytes_of_bits_8 by reflexivity. rewrite IHb. reflexivity.
Qed.

Lemma flat_map_bits3 os : flat_map (bits_of 3) os = flat_map bits3 os.
Proof. reflexivity. Qed.

(* ================================================================================================ *)
(* LAYOUT: the bytes pack writes are the bytes of the published bit-field layout, bit for bit *)

Lemma app3_assoc {A} (a b c r : list A) : a ++ b ++ c ++ r = (a ++ b ++ c) ++ r.
Proof. rewrite <- !app_assoc. reflexivity. Qed.

Theorem pack_is_layout m : pack_ok m = true -> pack m = Ok (bytes_of_bits (layout_v2 m)).
Proof.
  intros H. rewrite (pack_blocks m H). f_equal.
  pose proof (pack_ok_graph_wf m H) as W. pose proof (wf_atoms_count _ W) as Hcnt.
  destruct (pack_ok_ct m H) as [_ [Hctr Hrecs]]. cbv zeta in Hrecs.
  assert (Hatoms : forallb atom_ok (pm_atoms m) = true) by (unfold pack_ok in H; cbv zeta in H; split_andb; assumption).
  destruct (header_bits_bytes (Z.of_nat (length (pm_atoms m))) (pm_ct_count m) ltac:(lia) Hctr) as [Ah Bh].
  destruct (atoms_bits_bytes (pm_atoms m) Hatoms) as [Aa Ba].
  destruct (conns_bits_bytes (mol_conns (pm_atoms m)) (wf_conns_num _ W) (wf_conns_even _ W)) as [Ac Bc].
  destruct (pad8_bytes (flat_map (bits_of 3) (fwd_orders (mol_fwd [] (pm_atoms m))))) as [Ao Bo].
  destruct (bob_flat_map ct_bits ct_record (fwd_ct (pm_terminals m) (mol_fwd [] (pm_atoms m)))) as [_ Bt].
  { intros t Ht. apply ct_bits_bytes. rewrite Forall_forall in Hrecs. apply Hrecs. exact Ht. }
  unfold layout_v2, pack_layout. cbv zeta.
  rewrite (app3_assoc (bits_of 8 2)).
  rewrite bob_app by exact Ah. rewrite Bh. rewrite bob_app by exact Aa. rewrite Ba.
  rewrite bob_app by exact Ac. rewrite Bc. rewrite bob_app by exact Ao. rewrite Bo, Bt. rewrite flat_map_bits3.
  rewrite <- (order_bytes_layout _ (wf_fwd_orders _ W [])).
  rewrite <- (conn_bytes_layout _ (wf_conns_num _ W) (wf_conns_even _ W)). reflexivity.
Qed.
