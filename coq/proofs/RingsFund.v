(* C06 -- extension round: the reference construction mcb_ref is a cycle basis of EVERY well-formed graph.
   Its candidate list contains the fundamental cycles obtained by deleting the bonds one at a time; they are
   bonds - atoms + components linearly independent simple cycles, so the greedy selection always reaches the count. *)
From Coq Require Import ZArith List Bool Lia Permutation Sorted.
From Model Require Import PyBase Graph Rings.
From Proofs Require Import RingsProofs RingsMcb RingsRank RingsExt RingsDim.
Import ListNotations.
Open Scope Z_scope.

(* ---------- the breadth-first tree visits exactly the component ---------- *)
Lemma tvisit_fold_keys path l : forall q sn,
  let r := fold_left (tvisit path) l (q, sn) in
  (keys (fst r), keys (snd r)) = fold_left visit l (keys q, keys sn).
Proof.
  induction l as [|i l IH]; intros q sn; [reflexivity|]. cbn [fold_left]. destruct (zmem i (keys sn)) eqn:E.
  - replace (tvisit path (q, sn) i) with (q, sn) by (unfold tvisit; cbn [snd]; rewrite E; reflexivity).
    replace (visit (keys q, keys sn) i) with (keys q, keys sn) by (unfold visit; cbn [snd]; rewrite E; reflexivity). apply IH.
  - replace (tvisit path (q, sn) i) with (q ++ [(i, path ++ [i])], sn ++ [(i, path ++ [i])]) by (unfold tvisit; cbn [fst snd]; rewrite E; reflexivity).
    replace (visit (keys q, keys sn) i) with (keys q ++ [i], keys sn ++ [i]) by (unfold visit; cbn [fst snd]; rewrite E; reflexivity).
    specialize (IH (q ++ [(i, path ++ [i])]) (sn ++ [(i, path ++ [i])])). cbn zeta in IH. rewrite !keys_app in IH. exact IH.
Qed.

Lemma bfs_tree_keys g fuel : forall q sn, keys (bfs_tree fuel g q sn) = bfs fuel g (keys q) (keys sn).
Proof.
  induction fuel as [|f IH]; intros q sn; [reflexivity|]. cbn [bfs_tree bfs]. destruct q as [|[cur path] rest]; [reflexivity|].
  cbn [keys map fst]. fold (keys rest). pose proof (tvisit_fold_keys path (gnbrs g cur) rest sn) as T. cbn zeta in T.
  rewrite IH. destruct (fold_left visit (gnbrs g cur) (keys rest, keys sn)) as [q' s'] eqn:E.
  inversion T as [[T1 T2]]. cbn [fst snd]. reflexivity.
Qed.

Lemma sp_tree_keys g v : keys (sp_tree g v) = component_of g v.
Proof. unfold sp_tree, component_of. apply (bfs_tree_keys g (S (length g)) [(v, [v])] [(v, [v])]). Qed.

Lemma sp_tree_zget g v b : gwf g -> In v (keys g) -> (exists p, zget (sp_tree g v) b = Some p) <-> reach g v b.
Proof.
  intros W Kv. destruct (component_of_spec g W v Kv) as [_ S]. rewrite <- S, <- sp_tree_keys. split.
  - intros [p E]. destruct (in_dec Z.eq_dec b (keys (sp_tree g v))) as [I|I]; [exact I|]. apply zget_None_keys in I. congruence.
  - intros I. destruct (zget (sp_tree g v) b) as [p|] eqn:E; [exists p; reflexivity|]. apply zget_None_keys in E. contradiction.
Qed.

(* ---------- monotonicity ---------- *)
Lemma is_cycle_mono g g' c : (forall x y, In y (gnbrs g' x) -> In y (gnbrs g x)) -> is_cycle g' c -> is_cycle g c.
Proof. intros M [L [N A]]. split; [exact L|]. split; [exact N|]. intros x y H. destruct (A x y H) as [A1 A2]. split; apply M; assumption. Qed.

Lemma comps_le_keys g : gwf g -> (length (comps g) <= length g)%nat.
Proof.
  intros W. destruct (comps_partition g W) as [_ [N Cl]]. pose proof W as [Nk _].
  assert (L1 : (length (comps g) <= length (concat (comps g)))%nat).
  { assert (NE : forall c, In c (comps g) -> c <> []) by (intros c Hc; apply (Cl c Hc)). clear - NE.
    induction (comps g) as [|c cs IH]; [cbn; lia|]. cbn [concat length]. rewrite app_length.
    assert (c <> []) by (apply NE; left; reflexivity). destruct c; [congruence|]. cbn [length].
    assert ((length cs <= length (concat cs))%nat) by (apply IH; intros c0 H0; apply NE; right; exact H0). lia. }
  assert (L2 : (length (concat (comps g)) <= length (keys g))%nat).
  { apply NoDup_incl_length; [exact N|]. intros v Hv. apply in_concat in Hv. destruct Hv as [c [Hc Hv]]. destruct (Cl c Hc) as [_ Cu]. apply (Cu v Hv). }
  unfold keys in L2. rewrite map_length in L2. lia.
Qed.

Lemma edgeless_cyclomatic0 g : gwf g -> edges g = [] -> cyclomatic g = 0.
Proof.
  intros W E. pose proof (edgeless_cyclomatic g W E) as P. pose proof (comps_le_keys g W) as Q. unfold cyclomatic in *. fold (comps g) in *. rewrite E in *. cbn [length] in *. lia.
Qed.

Lemma cyclomatic_del_edge g a b : gwf g -> In b (gnbrs g a) ->
  cyclomatic g = cyclomatic (del_edge g a b) + (if zmem b (component_of (del_edge g a b) a) then 1 else 0).
Proof.
  intros W Hab. pose proof (de_wf g a b W Hab) as W'. set (g' := del_edge g a b) in *.
  assert (Ka' : In a (keys g')) by (unfold g'; rewrite (de_keys g a b); apply (adjacent_key g a b Hab)).
  destruct (component_of_spec g' W' a Ka') as [_ Sa].
  pose proof (de_edges_length g a b W Hab) as EL. pose proof (de_length g a b) as VL. fold g' in EL, VL.
  pose proof (de_comps_connected g a b W Hab) as CC. pose proof (de_comps_bridge g a b W Hab) as CB. fold g' in CC, CB.
  unfold cyclomatic. fold (comps g) (comps g'). rewrite EL, VL.
  destruct (zmem b (component_of g' a)) eqn:Zb.
  - apply zmem_In, Sa in Zb. rewrite (CC Zb). lia.
  - assert (NC : ~ reach g' a b) by (intros R; apply Sa, zmem_In in R; congruence). rewrite (CB NC). lia.
Qed.

(* ---------- the cycle closed by a deleted bond ---------- *)
Definition rhe (r : ring) : efun := fun e => ring_has_edge r e.

Lemma closing_cycle g a b p : gwf g -> In b (gnbrs g a) -> zget (sp_tree (del_edge g a b) a) b = Some p ->
  is_cycle g p /\ rhe p (norm_edge (a, b)) = true.
Proof.
  intros W Hab Z. pose proof (de_wf g a b W Hab) as W'. pose proof (de_ne g a b W Hab) as Ne. set (g' := del_edge g a b) in *.
  pose proof (sp_tree_good g' a) as G. rewrite Forall_forall in G. destruct (G _ (zget_Some_In _ _ _ Z)) as [H1 H2 H3 H4 H5 _]. cbn [fst snd] in *.
  assert (Mono : forall x y, In y (gnbrs g' x) -> In y (gnbrs g x)) by (intros x y H; apply (de_In g a b W Hab) in H; tauto).
  destruct p as [|h t]; [congruence|]. cbn [hd] in H1. subst h.
  assert (RP : forall x y, In (x, y) (ring_pairs (a :: t)) -> In (x, y) (seq_pairs (a :: t)) \/ (x = b /\ y = a)).
  { intros x y H. unfold ring_pairs in H. apply seq_pairs_snoc in H. destruct H as [H|[_ [E1 E2]]]; [left; exact H | right; rewrite H2 in E1; tauto]. }
  assert (Closing : In (b, a) (ring_pairs (a :: t))).
  { unfold ring_pairs. destruct (exists_last H3) as [l' [z E]]. rewrite E in H2 |- *. rewrite last_last in H2. subst z.
    rewrite <- app_assoc. cbn [app]. apply seq_pairs_mid. }
  split.
  - split; [|split; [exact H5|]].
    + destruct t as [|x [|y t']]; [cbn in H2; congruence | | cbn; lia]. cbn in H2. subst x. exfalso.
      assert (X : In b (gnbrs g' a)) by (apply H4; left; reflexivity). apply (de_In g a b W Hab) in X. tauto.
    + intros x y H. destruct (RP x y H) as [S|[E1 E2]].
      * pose proof (H4 x y S) as S1. split; [apply Mono; exact S1 | apply Mono; apply (gwf_sym g' x y W' S1)].
      * subst x y. split; [apply (gwf_sym g a b W Hab) | exact Hab].
  - unfold rhe. apply (ring_has_edge_spec (a :: t) a b Ne). right. exact Closing.
Qed.

Lemma cycle_misses_deleted g a b r : gwf g -> In b (gnbrs g a) -> is_cycle (del_edge g a b) r -> rhe r (norm_edge (a, b)) = false.
Proof.
  intros W Hab [_ [_ A]]. pose proof (de_ne g a b W Hab) as Ne. unfold rhe. destruct (ring_has_edge r (norm_edge (a, b))) eqn:X; [|reflexivity]. exfalso.
  apply (ring_has_edge_spec r a b Ne) in X. destruct X as [X|X]; destruct (A _ _ X) as [A1 A2].
  - apply (de_In g a b W Hab) in A1. tauto.
  - apply (de_In g a b W Hab) in A2. tauto.
Qed.

(* ---------- the fundamental cycles ---------- *)
Lemma fund_loop_spec n : forall g, gwf g -> length (edges g) = n ->
  Forall (is_cycle g) (fund_loop n g) /\ Z.of_nat (length (fund_loop n g)) = cyclomatic g /\ findep g (map rhe (fund_loop n g)).
Proof.
  induction n as [|n IH]; intros g W Ln.
  - assert (E : edges g = []) by (destruct (edges g); [reflexivity | discriminate]). cbn [fund_loop]. split; [constructor|]. split.
    + rewrite (edgeless_cyclomatic0 g W E). reflexivity.
    + intros sel L Ex. cbn in L. destruct sel; [discriminate Ex | discriminate L].
  - cbn [fund_loop]. destruct (edges g) as [|[a b] rest] eqn:E; [discriminate|].
    assert (He : In (a, b) (edges g)) by (rewrite E; left; reflexivity). pose proof W as [Nk _].
    apply (In_edges_gnbrs g a b Nk) in He. destruct He as [Ka [Hab Lt]].
    pose proof (de_wf g a b W Hab) as W'.
    assert (Ln' : length (edges (del_edge g a b)) = n) by (pose proof (de_edges_length g a b W Hab) as X; rewrite E in X; cbn [length] in X, Ln; lia).
    destruct (IH (del_edge g a b) W' Ln') as [C' [N' F']].
    assert (Mono : forall x y, In y (gnbrs (del_edge g a b) x) -> In y (gnbrs g x)) by (intros x y H; apply (de_In g a b W Hab) in H; tauto).
    assert (Cg : Forall (is_cycle g) (fund_loop n (del_edge g a b))).
    { eapply Forall_impl; [|exact C']. intros c Hc. apply (is_cycle_mono g (del_edge g a b) c Mono Hc). }
    assert (Sub : forall e, In e (edges (del_edge g a b)) -> In e (edges g)) by (intros e H; apply (de_edges_mem g a b e W Hab) in H; tauto).
    assert (Ka' : In a (keys (del_edge g a b))) by (rewrite (de_keys g a b); exact Ka).
    pose proof (cyclomatic_del_edge g a b W Hab) as Cy. destruct (component_of_spec _ W' a Ka') as [_ Sa].
    destruct (zget (sp_tree (del_edge g a b) a) b) as [p|] eqn:Z.
    + assert (Conn : zmem b (component_of (del_edge g a b) a) = true).
      { apply zmem_In, Sa. apply (sp_tree_zget _ a b W' Ka'). exists p. exact Z. }
      destruct (closing_cycle g a b p W Hab Z) as [Cp Ep]. split; [constructor; assumption|]. split.
      * rewrite Cy, Conn. cbn [length]. lia.
      * intros sel L Ex. cbn [map length] in L. destruct sel as [|s sel']; [discriminate|]. cbn [map fsum]. destruct s.
        -- exists (norm_edge (a, b)). split; [apply (de_edge_in g a b W Hab)|]. rewrite Ep, andb_true_l.
           rewrite fsum_all_false; [reflexivity|]. intros f Hf. apply in_map_iff in Hf. destruct Hf as [r [Er Hr]]. subst f.
           rewrite Forall_forall in C'. apply (cycle_misses_deleted g a b r W Hab (C' r Hr)).
        -- cbn [existsb orb] in Ex. destruct (F' sel') as [e [He Se]]; [cbn in L; lia | exact Ex|]. exists e. split; [apply Sub; exact He|].
           rewrite andb_false_l, xorb_false_l. exact Se.
    + assert (NConn : zmem b (component_of (del_edge g a b) a) = false).
      { destruct (zmem b (component_of (del_edge g a b) a)) eqn:X; [|reflexivity]. apply zmem_In, Sa in X.
        apply (sp_tree_zget _ a b W' Ka') in X. destruct X as [p X]. congruence. }
      split; [exact Cg|]. split; [rewrite Cy, NConn; lia|]. intros sel L Ex. destruct (F' sel L Ex) as [e [He Se]]. exists e. split; [apply Sub; exact He | exact Se].
Qed.

Theorem fund_cycles_spec g : gwf g ->
  Forall (is_cycle g) (fund_cycles g) /\ Z.of_nat (length (fund_cycles g)) = cyclomatic g /\ ~ dependent (map (ring_vec g) (fund_cycles g)).
Proof.
  intros W. destruct (fund_loop_spec (length (edges g)) g W eq_refl) as [C [N F]]. fold (fund_cycles g) in *. split; [exact C|]. split; [exact N|].
  intros [sel [L [Ex Z]]]. rewrite map_length in L. destruct (F sel) as [e [He Se]]; [rewrite map_length; exact L | exact Ex|].
  destruct (In_nth _ _ (0, 0) He) as [i [Hi Ei]]. specialize (Z i). rewrite (comb_bit_ring_vec g sel (fund_cycles g) i (0, 0) Hi), Ei in Z.
  rewrite sel_parity_fsum in Z. assert (X : fsum sel (map rhe (fund_cycles g)) e = false) by exact Z. congruence.
Qed.

(* ---------- mcb_ref is a cycle basis ---------- *)
Lemma mcb_candidates_cycles g c : gwf g -> In c (sort_by_len (mcb_candidates g)) -> is_cycle g c.
Proof.
  intros W H. apply (proj1 (sort_by_len_In _ _)) in H. unfold mcb_candidates in H. apply in_app_or in H. destruct H as [H|H].
  - apply (horton_candidates_cycles g c W H).
  - destruct (fund_cycles_spec g W) as [C _]. rewrite Forall_forall in C. apply C. exact H.
Qed.

Theorem mcb_ref_sound g : gwf g ->
  Forall (is_cycle g) (mcb_ref g) /\
  independent_b (map (ring_vec g) (mcb_ref g)) = true /\
  (length (mcb_ref g) <= Z.to_nat (cyclomatic g))%nat.
Proof. intros W. unfold mcb_ref. apply greedy_cycles_sound. intros c H. apply (mcb_candidates_cycles g c W H). Qed.

Theorem mcb_ref_length g : gwf g -> Z.of_nat (length (mcb_ref g)) = cyclomatic g.
Proof.
  intros W. pose proof (cyclomatic_nonneg g W) as P. destruct (fund_cycles_spec g W) as [Cf [Nf If]].
  set (cands := sort_by_len (mcb_candidates g)). set (Ginf := greedy g [] cands (length cands)).
  assert (Big : (length (fund_cycles g) <= length Ginf)%nat).
  { rewrite <- (map_length (ring_vec g) (fund_cycles g)), <- (map_length (ring_vec g) Ginf). apply steinitz; [|exact If].
    intros t Ht. apply in_map_iff in Ht. destruct Ht as [r [Er Hr]]. subst t.
    assert (Hc : In r cands) by (apply sort_by_len_In; unfold mcb_candidates; apply in_or_app; right; exact Hr).
    pose proof (greedy_span_sorted g cands [] [] (length cands) (le_n _) (fun p b (F : In (p, b) []) => match F with end)
                 (fun d c (F : In d []) _ => match F with end) (sort_by_len_sorted _) r Hc) as S. cbn [app] in S.
    apply (span_filter (ring_vec g) _ _ _ S). }
  unfold mcb_ref. fold cands. rewrite (greedy_firstn g cands [] (Z.to_nat (cyclomatic g)) (length cands) (le_n _)). fold Ginf.
  rewrite firstn_length. lia.
Qed.

Theorem mcb_ref_is_basis g : gwf g -> is_cycle_basis g (mcb_ref g) = true.
Proof.
  intros W. destruct (mcb_ref_sound g W) as [C [I _]]. unfold is_cycle_basis. rewrite !andb_true_iff. repeat split.
  - apply gwf_b_sound. exact W.
  - apply forallb_forall. intros r Hr. apply simple_cycle_b_sound. rewrite Forall_forall in C. apply C. exact Hr.
  - apply Z.eqb_eq. apply (mcb_ref_length g W).
  - exact I.
Qed.

(* hence mcb_ref spans every cycle, and any accepted ring list has exactly as many rings *)
Corollary accepted_same_length g rs : is_cycle_basis g rs = true -> length rs = length (mcb_ref g).
Proof.
  intros H. pose proof (basis_checker_sound g rs H) as [W [_ [_ N]]]. pose proof (mcb_ref_length g W) as M. unfold cyclomatic in M. lia.
Qed.
