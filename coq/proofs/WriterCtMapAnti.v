(* C02, round 4: the direction marks of MoleculeSmiles.__ct_map are antisymmetric - whenever the table holds a mark for the bond
   spelled a -> b (a <> b) it holds the opposite mark for b -> a.  Invariant of the two loops, for every molecule, registry and
   adjacency; no hypothesis on the input.  This is what makes the two spellings of one bond (the two ends of a ring closure, a
   branch entered from either side) denote the same geometry. *)
From Coq Require Import ZArith List String Bool Lia.
From Model Require Import PyBase Graph Stereo Writer.
Import ListNotations.
Open Scope Z_scope.

Lemma pair_eqbZ_true p q : pair_eqbZ p q = true <-> p = q.
Proof.
  destruct p as [a b], q as [c d]. unfold pair_eqbZ. cbn [fst snd]. rewrite andb_true_iff, !Z.eqb_eq.
  split; [intros [-> ->]; reflexivity | intro H; inversion H; auto].
Qed.
Lemma pair_eqbZ_false p q : pair_eqbZ p q = false <-> p <> q.
Proof. rewrite <- pair_eqbZ_true. destruct (pair_eqbZ p q); split; congruence. Qed.

Lemma pget_pset_same {V} (d : list ((Z * Z) * V)) k v : pget (pset d k v) k = Some v.
Proof.
  induction d as [|[k' v'] r IH]; cbn.
  - replace (pair_eqbZ k k) with true by (symmetry; apply pair_eqbZ_true; reflexivity). reflexivity.
  - destruct (pair_eqbZ k k') eqn:E; cbn; rewrite E; [reflexivity | exact IH].
Qed.
Lemma pget_pset_other {V} (d : list ((Z * Z) * V)) k v k2 : k2 <> k -> pget (pset d k v) k2 = pget d k2.
Proof.
  intro N. induction d as [|[k' v'] r IH]; cbn.
  - replace (pair_eqbZ k2 k) with false by (symmetry; apply pair_eqbZ_false; exact N). reflexivity.
  - destruct (pair_eqbZ k k') eqn:E; cbn.
    + apply pair_eqbZ_true in E. subst k'.
      replace (pair_eqbZ k2 k) with false by (symmetry; apply pair_eqbZ_false; exact N). reflexivity.
    + rewrite IH. reflexivity.
Qed.

Definition anti (pm : list ((Z * Z) * bool)) : Prop :=
  forall a b s, a <> b -> pget pm (a, b) = Some s -> pget pm (b, a) = Some (negb s).

Lemma anti_nil : anti [].
Proof. intros a b s _ H. discriminate. Qed.

(* the one way the loops write marks: both spellings of one bond, opposite values (in either order) *)
Lemma anti_set2 pm k v x : anti pm -> anti (pset (pset pm (k, v) x) (v, k) (negb x)).
Proof.
  intros A a b s N H.
  destruct (Z.eq_dec k v) as [->|Nkv].
  { (* k = v: only the diagonal entry changes *)
    assert (D : (a, b) <> (v, v)) by (intro E; inversion E; congruence).
    assert (D' : (b, a) <> (v, v)) by (intro E; inversion E; congruence).
    rewrite !pget_pset_other in H by assumption. rewrite !pget_pset_other by assumption. exact (A a b s N H). }
  assert (Dkv : (k, v) <> (v, k)) by (intro E; inversion E; congruence).
  assert (Dvk : (v, k) <> (k, v)) by (intro E; inversion E; congruence).
  destruct (pair_eqbZ (a, b) (v, k)) eqn:E1.
  - apply pair_eqbZ_true in E1. inversion E1; subst a b. rewrite pget_pset_same in H. inversion H; subst s.
    rewrite pget_pset_other by exact Dkv. rewrite pget_pset_same. rewrite negb_involutive. reflexivity.
  - apply pair_eqbZ_false in E1. rewrite pget_pset_other in H by exact E1.
    destruct (pair_eqbZ (a, b) (k, v)) eqn:E2.
    + apply pair_eqbZ_true in E2. inversion E2; subst a b. rewrite pget_pset_same in H. inversion H; subst s.
      rewrite pget_pset_same. reflexivity.
    + apply pair_eqbZ_false in E2. rewrite pget_pset_other in H by exact E2.
      assert (F1 : (b, a) <> (v, k)) by (intro E; inversion E; subst; apply E2; reflexivity).
      assert (F2 : (b, a) <> (k, v)) by (intro E; inversion E; subst; apply E1; reflexivity).
      rewrite !pget_pset_other by assumption. exact (A a b s N H).
Qed.
Lemma anti_set2n pm k v x : anti pm -> anti (pset (pset pm (k, v) (negb x)) (v, k) x).
Proof. intro A. pose proof (anti_set2 pm k v (negb x) A) as H. rewrite negb_involutive in H. exact H. Qed.
Lemma anti_set2' pm k v x : anti pm -> anti (pset (pset pm (v, k) (negb x)) (k, v) x).
Proof.
  intro A. pose proof (anti_set2 pm v k (negb x) A) as H. rewrite negb_involutive in H. exact H.
Qed.

Definition anti_res (r : pyres ctst) : Prop := match r with Ok st => anti (ct_pm st) | Err _ => True end.

Lemma ct_note_pm tabs st v k : ct_pm (ct_note tabs st v k) = ct_pm st.
Proof. unfold ct_note. destruct (zget (t_ctc tabs) v); reflexivity. Qed.

Lemma ct_inner_anti g tabs k cs env acc v : anti_res acc -> anti_res (ct_inner g tabs k cs env acc v).
Proof.
  unfold ct_inner. destruct acc as [st|e]; [|exact (fun H => H)]. cbn [anti_res]. intro A.
  destruct (negb (in_env v env)); [exact A|].
  destruct (pget (ct_pm st) (k, v)); [exact A|].
  destruct (match zget (ct_im st) k with Some x => if x =? 0 then None else Some x | None => None end) as [x|].
  - destruct (pget (ct_pm st) (k, x)) as [s|]; [|exact I]. cbn [anti_res]. rewrite ct_note_pm. cbn [ct_pm].
    apply anti_set2n. exact A.
  - destruct (pair_mem cs (ct_sp st)).
    + destruct (zget (t_ctcp tabs) k) as [o'|]; [|exact I].
      destruct (zget (ct_im st) o') as [on|]; [|exact I].
      destruct (pget (ct_pm st) (o', on)) as [s|]; [|exact I].
      destruct (centre_stereo g tabs k) as [s0|]; [|exact I].
      destruct (translate_ct (is_H g) (pget (t_sct tabs) (k, o')) (pget (t_sct tabs) (o', k)) v on s0) as [r|e]; [|exact I].
      cbn [anti_res]. rewrite ct_note_pm. cbn [ct_pm]. apply anti_set2. exact A.
    + cbn [anti_res ct_pm]. rewrite ct_note_pm.
      change false with (negb true). apply anti_set2. exact A.
Qed.

Lemma fold_inner_anti g tabs k cs env vs : forall acc, anti_res acc -> anti_res (fold_left (ct_inner g tabs k cs env) vs acc).
Proof. induction vs as [|v vs IH]; intros acc A; cbn; [exact A | apply IH, ct_inner_anti, A]. Qed.

Lemma ct_outer_anti g tabs acc kv : anti_res acc -> anti_res (ct_outer g tabs acc kv).
Proof.
  unfold ct_outer. destruct acc as [st|e]; [|exact (fun H => H)]. destruct kv as [k vs]. cbn [anti_res]. intro A.
  destruct (zget (t_ctc tabs) k) as [cs|]; [|exact A].
  destruct (zmem (fst cs) (stereo_bond_atoms g) && zmem (snd cs) (stereo_bond_atoms g)); [|exact A].
  destruct (zget (t_ctt tabs) k) as [tk|]; [|exact I].
  destruct (pget (t_sct tabs) tk) as [env|]; [|exact I].
  pose proof (fold_inner_anti g tabs k cs env vs (Ok (mkCt (ct_pm st) (ct_im st) (k :: ct_si st) (ct_sp st))) A) as F.
  destruct (fold_left (ct_inner g tabs k cs env) vs (Ok (mkCt (ct_pm st) (ct_im st) (k :: ct_si st) (ct_sp st)))) as [st'|e]; [|exact I].
  exact F.
Qed.

Lemma fold_outer_anti g tabs adj : forall acc, anti_res acc -> anti_res (fold_left (ct_outer g tabs) adj acc).
Proof. induction adj as [|kv adj IH]; intros acc A; cbn; [exact A | apply IH, ct_outer_anti, A]. Qed.

Theorem ct_map_antisymmetric : forall g tabs adj cm,
  ct_map g tabs adj = Ok cm -> forall a b s, a <> b -> pget cm (a, b) = Some s -> pget cm (b, a) = Some (negb s).
Proof.
  intros g tabs adj cm H. unfold ct_map in H. destruct (stereo_bond_atoms g).
  - inversion H. exact anti_nil.
  - pose proof (fold_outer_anti g tabs adj (Ok (mkCt [] [] [] [])) anti_nil) as F.
    destruct (fold_left (ct_outer g tabs) adj (Ok (mkCt [] [] [] []))) as [st|e]; [|discriminate].
    inversion H; subst cm. exact F.
Qed.

(* at the level of the written token: a bond that gets '/' when spelled n -> m gets '\' when spelled m -> n, and vice versa *)
Theorem format_bond_marks_opposite : forall g o tabs adj n m,
  n <> m -> bond_of g m n = bond_of g n m ->
  (format_bond g o (ct_map g tabs adj) n m = Ok "/"%string -> format_bond g o (ct_map g tabs adj) m n = Ok "\"%string) /\
  (format_bond g o (ct_map g tabs adj) n m = Ok "\"%string -> format_bond g o (ct_map g tabs adj) m n = Ok "/"%string).
Proof.
  intros g o tabs adj n m N B. unfold format_bond. rewrite B.
  destruct (negb (o_bonds o)); [split; discriminate|].
  destruct (bond_of g n m) as [b|]; [|split; discriminate].
  destruct (b_ord b =? 4); [destruct (o_aromatic o); split; discriminate|].
  destruct (b_ord b =? 1).
  2:{ destruct (b_ord b =? 2); [split; discriminate|]. destruct (b_ord b =? 3); split; discriminate. }
  rewrite (andb_comm (o_aromatic o && (hybridization g m =? 4))), andb_assoc, (andb_comm (hybridization g n =? 4)).
  rewrite <- andb_assoc.
  destruct (o_aromatic o && ((hybridization g n =? 4) && (hybridization g m =? 4))) eqn:Ar.
  { replace (o_aromatic o && (hybridization g n =? 4) && (hybridization g m =? 4)) with true by (rewrite <- andb_assoc; symmetry; exact Ar).
    split; discriminate. }
  replace (o_aromatic o && (hybridization g n =? 4) && (hybridization g m =? 4)) with false by (rewrite <- andb_assoc; symmetry; exact Ar).
  destruct (o_stereo o); [|split; discriminate].
  destruct (ct_map g tabs adj) as [cm|e] eqn:C; [|split; discriminate].
  pose proof (ct_map_antisymmetric g tabs adj cm C) as A.
  split; intro H.
  - destruct (pget cm (n, m)) as [x|] eqn:P; [|discriminate]. destruct x; [|discriminate].
    rewrite (A n m true N P). reflexivity.
  - destruct (pget cm (n, m)) as [x|] eqn:P; [|discriminate]. destruct x; [discriminate|].
    rewrite (A n m false N P). reflexivity.
Qed.

(* non-vacuity: F/C=C/F written from the first F: marks on both single bonds, each in both spellings *)
Definition anti_g : mol :=
  mkMol [(1, mkAtom 9 None 0 false (Some 0) None); (2, mkAtom 6 None 0 false (Some 1) None);
         (3, mkAtom 6 None 0 false (Some 1) None); (4, mkAtom 9 None 0 false (Some 0) None)]
        [(1, [(2, mkBond 1 None)]); (2, [(1, mkBond 1 None); (3, mkBond 2 (Some true))]);
         (3, [(2, mkBond 2 (Some true)); (4, mkBond 1 None)]); (4, [(3, mkBond 1 None)])].
Definition anti_tabs : stabs :=
  mkStabs [] [] [] [((2, 3), (1, 4, None, None))] [(2, (2, 3)); (3, (2, 3))] [(2, (2, 3)); (3, (2, 3))] [(2, 3); (3, 2)].
Definition anti_adj : adjacency := [(1, [2]); (2, [1; 3]); (3, [2; 4]); (4, [3])].
Example ct_map_antisymmetric_example :
  exists cm, ct_map anti_g anti_tabs anti_adj = Ok cm /\
    pget cm (1, 2) = Some true /\ pget cm (2, 1) = Some false /\
    (exists s, pget cm (3, 4) = Some s /\ pget cm (4, 3) = Some (negb s)) /\
    format_bond anti_g default_opts (ct_map anti_g anti_tabs anti_adj) 1 2 = Ok "/"%string /\
    format_bond anti_g default_opts (ct_map anti_g anti_tabs anti_adj) 2 1 = Ok "\"%string.
Proof.
  eexists. split; [vm_compute; reflexivity|]. split; [vm_compute; reflexivity|]. split; [vm_compute; reflexivity|].
  split; [eexists; split; vm_compute; reflexivity|]. split; vm_compute; reflexivity.
Qed.
