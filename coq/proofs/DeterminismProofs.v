(* Proofs for C19 (Model.Determinism): the audit sweeps, the generic reasons why the enumeration order of a set cannot
   reach a result (a loop whose body commutes, a sort / min on a key, a canonical set built by add(), a table that is
   only looked up), and transparency of the memoisation layer.  Self contained: Stdlib + Model.Determinism only. *)
From Coq Require Import ZArith NArith List String Ascii Bool Lia Permutation.
From Model Require Import Determinism.
From Gen Require Import SetAudit.
Import ListNotations.
Open Scope list_scope.
Open Scope Z_scope.

(* ------------------------------------------------------------------------------------------------------------ *)
(* the audit: finite sweeps over the generated list *)

Lemma audit_complete : audit_ok audit = true.
Proof. vm_compute. reflexivity. Qed.

Lemma audit_tight : allow_tight audit = true.
Proof. vm_compute. reflexivity. Qed.

Lemma reasons_are_theorems : reasons_known = true.
Proof. vm_compute. reflexivity. Qed.

Lemma allow_list_nodup : nodup_sites (map fst allow_list) = true.
Proof. vm_compute. reflexivity. Qed.

Lemma site_eqb_eq a b : site_eqb a b = true -> a = b.
Proof.
  destruct a as [[f1 q1] t1], b as [[f2 q2] t2]. unfold site_eqb.
  rewrite !andb_true_iff. intros [[H1 H2] H3].
  apply String.eqb_eq in H1, H2, H3. subst. reflexivity.
Qed.

(* lifted form: every audited site of the current source carries a reason *)
Lemma audit_complete_In : forall s, In s audit -> exists r, In (s, r) allow_list.
Proof.
  intros s Hs. pose proof audit_complete as H. unfold audit_ok in H.
  rewrite forallb_forall in H. specialize (H s Hs). rewrite existsb_exists in H.
  destruct H as [x [Hx He]]. apply site_eqb_eq in He. subst x.
  apply in_map_iff in Hx. destruct Hx as [[s' r] [Hf Hin]]. cbn in Hf. subst s'. exists r. exact Hin.
Qed.

Lemma audit_tight_In : forall s r, In (s, r) allow_list -> In s audit.
Proof.
  intros s r Hin. pose proof audit_tight as H. unfold allow_tight in H.
  rewrite forallb_forall in H. specialize (H (s, r) Hin). rewrite existsb_exists in H.
  destruct H as [x [Hx He]]. cbn in He. apply site_eqb_eq in He. subst x. exact Hx.
Qed.

(* ------------------------------------------------------------------------------------------------------------ *)
(* a loop whose body commutes (up to an equivalence R of states) does not see the enumeration order *)

Section LoopPerm.
  Context {A X : Type}.
  Variable R : A -> A -> Prop.
  Hypothesis R_refl : forall a, R a a.
  Hypothesis R_trans : forall a b c, R a b -> R b c -> R a c.
  Variable f : A -> X -> A.
  Hypothesis f_proper : forall a b x, R a b -> R (f a x) (f b x).
  Hypothesis f_comm : forall a x y, R (f (f a x) y) (f (f a y) x).

  Lemma loop_proper : forall l a b, R a b -> R (loop f l a) (loop f l b).
  Proof.
    unfold loop. induction l as [|x l IH]; intros a b H; cbn; [exact H|]. apply IH. apply f_proper. exact H.
  Qed.

  Lemma loop_perm_R : forall l l', Permutation l l' -> forall a b, R a b -> R (loop f l a) (loop f l' b).
  Proof.
    induction 1 as [|x l l' _ IH|x y l|l l' l'' _ IH1 _ IH2]; intros a b H.
    - exact H.
    - unfold loop in *. cbn. apply IH. apply f_proper. exact H.
    - unfold loop. cbn. apply loop_proper.
      apply R_trans with (f (f b y) x); [apply f_proper, f_proper; exact H | apply f_comm].
    - apply R_trans with (loop f l' a); [apply IH1, R_refl | apply IH2, H].
  Qed.
End LoopPerm.

Lemma loop_perm {A X : Type} (f : A -> X -> A) :
  (forall a x y, f (f a x) y = f (f a y) x) ->
  forall l l', Permutation l l' -> forall a, loop f l a = loop f l' a.
Proof.
  intros Hc l l' Hp a.
  apply (loop_perm_R (@eq A) (@eq_refl A) (@eq_trans A) f); auto.
  intros ? ? ? ->. reflexivity.
Qed.

(* the same fact read as seed freedom: whatever enumeration each seed / process produces for the same set *)
Lemma seed_free_loop {A X Seed : Type} (f : A -> X -> A) (enum : Seed -> list X) :
  (forall a x y, f (f a x) y = f (f a y) x) ->
  (forall s1 s2, Permutation (enum s1) (enum s2)) ->
  forall s1 s2 a, loop f (enum s1) a = loop f (enum s2) a.
Proof. intros Hc He s1 s2 a. apply loop_perm; auto. Qed.

Lemma fold_left_ext {A X : Type} (f g : A -> X -> A) :
  (forall a x, f a x = g a x) -> forall l a, fold_left f l a = fold_left g l a.
Proof. intros H. induction l as [|x l IH]; intros a; cbn; [reflexivity|]. rewrite H. apply IH. Qed.

(* ------------------------------------------------------------------------------------------------------------ *)
(* sorted(key=) and min(key=) *)

Section KeyedProofs.
  Context {X : Type}.
  Variable key : X -> Z.

  Fixpoint ksorted (l : list X) : Prop :=
    match l with [] => True | x :: r => (forall y, In y r -> key x <= key y) /\ ksorted r end.

  Lemma insert_by_perm x l : Permutation (insert_by key x l) (x :: l).
  Proof.
    induction l as [|y r IH]; cbn; [apply Permutation_refl|].
    destruct (key x <=? key y); [apply Permutation_refl|].
    eapply Permutation_trans; [apply perm_skip, IH | apply perm_swap].
  Qed.

  Lemma sort_by_perm_self l : Permutation (sort_by key l) l.
  Proof.
    induction l as [|x r IH]; cbn; [apply perm_nil|].
    eapply Permutation_trans; [apply insert_by_perm | apply perm_skip, IH].
  Qed.

  Lemma insert_by_sorted x l : ksorted l -> ksorted (insert_by key x l).
  Proof.
    induction l as [|y r IH]; cbn; intros Hs.
    - split; [intros ? []|exact I].
    - destruct Hs as [Hy Hr]. destruct (key x <=? key y) eqn:E.
      + apply Z.leb_le in E. cbn. repeat split; auto.
        intros z [<-|Hz]; [exact E|]. specialize (Hy z Hz). lia.
      + apply Z.leb_gt in E. cbn. split; [|apply IH, Hr].
        intros z Hz. apply (Permutation_in _ (insert_by_perm x r)) in Hz. destruct Hz as [<-|Hz]; [lia|auto].
  Qed.

  Lemma sort_by_sorted l : ksorted (sort_by key l).
  Proof. induction l as [|x r IH]; cbn; [exact I|]. apply insert_by_sorted, IH. Qed.

  (* two key-sorted arrangements of the same elements coincide when the key separates the elements *)
  Lemma ksorted_unique : forall l1 l2, ksorted l1 -> ksorted l2 -> Permutation l1 l2 ->
    (forall x y, In x l1 -> In y l1 -> key x = key y -> x = y) -> l1 = l2.
  Proof.
    induction l1 as [|a r1 IH]; intros l2 H1 H2 Hp Hinj.
    - apply Permutation_nil in Hp. subst. reflexivity.
    - destruct l2 as [|b r2]; [apply Permutation_sym, Permutation_nil in Hp; discriminate|].
      destruct H1 as [Ha Hr1], H2 as [Hb Hr2].
      assert (Hab : a = b).
      { assert (In a (b :: r2)) as Ia by (eapply Permutation_in; [exact Hp | left; reflexivity]).
        assert (In b (a :: r1)) as Ib by (eapply Permutation_in; [apply Permutation_sym, Hp | left; reflexivity]).
        apply Hinj; [left; reflexivity | exact Ib |].
        destruct Ia as [->|Ia]; [reflexivity|]. destruct Ib as [->|Ib]; [reflexivity|].
        specialize (Ha b Ib). specialize (Hb a Ia). lia. }
      subst b. f_equal. apply IH; auto.
      + eapply Permutation_cons_inv, Hp.
      + intros x y Hx Hy. apply Hinj; right; assumption.
  Qed.

  Lemma sort_by_perm_inj l l' : Permutation l l' ->
    (forall x y, In x l -> In y l -> key x = key y -> x = y) -> sort_by key l = sort_by key l'.
  Proof.
    intros Hp Hinj. apply ksorted_unique; try apply sort_by_sorted.
    - eapply Permutation_trans; [apply sort_by_perm_self|].
      eapply Permutation_trans; [exact Hp | apply Permutation_sym, sort_by_perm_self].
    - intros x y Hx Hy. apply Hinj; eapply Permutation_in; try apply sort_by_perm_self; assumption.
  Qed.

  (* min_by: the first element of minimal key *)
  Lemma min_by_none l : min_by key l = None <-> l = [].
  Proof.
    split; [|intros ->; reflexivity]. destruct l as [|a r]; [reflexivity|]. cbn.
    destruct (min_by key r) as [m|]; [destruct (key a <=? key m)|]; discriminate.
  Qed.

  Lemma min_by_spec l x : min_by key l = Some x -> In x l /\ forall y, In y l -> key x <= key y.
  Proof.
    revert x. induction l as [|a r IH]; cbn; intros x H; [discriminate|].
    destruct (min_by key r) as [m|] eqn:E.
    - destruct (IH m eq_refl) as [Im Hm]. destruct (key a <=? key m) eqn:L; inversion H; subst x; clear H.
      + apply Z.leb_le in L. split; [left; reflexivity|]. intros y [<-|Hy]; [lia|]. specialize (Hm y Hy). lia.
      + apply Z.leb_gt in L. split; [right; exact Im|]. intros y [<-|Hy]; [lia|auto].
    - inversion H; subst x. apply min_by_none in E. subst r.
      split; [left; reflexivity|]. intros y [<-|[]]. lia.
  Qed.

End KeyedProofs.

Lemma map_insert_by {X : Type} (key : X -> Z) x l :
  map key (insert_by key x l) = insert_by (fun z => z) (key x) (map key l).
Proof.
  induction l as [|y r IH]; cbn; [reflexivity|]. destruct (key x <=? key y); cbn; [reflexivity|]. f_equal. exact IH.
Qed.

Lemma map_sort_by {X : Type} (key : X -> Z) l : map key (sort_by key l) = sort_by (fun z => z) (map key l).
Proof. unfold sort_by. induction l as [|x r IH]; cbn [fold_right map]; [reflexivity|]. rewrite map_insert_by, IH. reflexivity. Qed.

(* sorted(S, key=k): (1) the sequence of keys is the same for every enumeration of S; (2) if the key separates the
   members, so is the whole result.  Only elements of EQUAL key can trade places. *)
Lemma sort_by_perm {X : Type} (key : X -> Z) (l l' : list X) : Permutation l l' ->
  map key (sort_by key l) = map key (sort_by key l') /\
  ((forall x y, In x l -> In y l -> key x = key y -> x = y) -> sort_by key l = sort_by key l').
Proof.
  intros Hp. split; [|apply sort_by_perm_inj; exact Hp].
  rewrite !map_sort_by. apply sort_by_perm_inj; [apply Permutation_map, Hp | auto].
Qed.

(* min(S, key=k): (1) the key of the result is the same for every enumeration of S; (2) if the key separates the
   members, so is the result *)
Lemma min_by_perm {X : Type} (key : X -> Z) (l l' : list X) : Permutation l l' ->
  option_map key (min_by key l) = option_map key (min_by key l') /\
  ((forall x y, In x l -> In y l -> key x = key y -> x = y) -> min_by key l = min_by key l').
Proof.
  intros Hp.
  destruct (min_by key l) as [x|] eqn:E1; destruct (min_by key l') as [x'|] eqn:E2.
  - destruct (min_by_spec key _ _ E1) as [I1 M1]. destruct (min_by_spec key _ _ E2) as [I2 M2].
    assert (Hk : key x = key x').
    { pose proof (M1 x' (Permutation_in _ (Permutation_sym Hp) I2)).
      pose proof (M2 x (Permutation_in _ Hp I1)). lia. }
    split; [cbn; f_equal; exact Hk|]. intros Hinj. f_equal. apply Hinj; auto.
    eapply Permutation_in; [apply Permutation_sym, Hp | exact I2].
  - apply min_by_none in E2. subst l'. apply Permutation_sym, Permutation_nil in Hp. subst l. discriminate.
  - apply min_by_none in E1. subst l. apply Permutation_nil in Hp. subst l'. discriminate.
  - split; reflexivity.
Qed.

(* ---- what exactly CAN leak through sorted()/min(): the enumeration order inside one key class ---- *)
Section Stable.
  Context {X : Type}.
  Variable key : X -> Z.
  Definition same_key (k : Z) (y : X) : bool := key y =? k.

  Lemma filter_insert_by k x l :
    filter (same_key k) (insert_by key x l) = if key x =? k then x :: filter (same_key k) l else filter (same_key k) l.
  Proof.
    unfold same_key. induction l as [|y r IH]; cbn.
    - destruct (key x =? k); reflexivity.
    - destruct (key x <=? key y) eqn:L; cbn.
      + destruct (key x =? k); reflexivity.
      + apply Z.leb_gt in L. rewrite IH.
        destruct (key y =? k) eqn:Ey; destruct (key x =? k) eqn:Ex; try reflexivity.
        apply Z.eqb_eq in Ey, Ex. lia.
  Qed.

  (* sorted() is stable: inside one key class the enumeration order survives - this is ALL that can leak *)
  Lemma sort_by_stable k l : filter (same_key k) (sort_by key l) = filter (same_key k) l.
  Proof.
    induction l as [|x r IH]; [reflexivity|].
    change (sort_by key (x :: r)) with (insert_by key x (sort_by key r)).
    rewrite filter_insert_by, IH. cbn. unfold same_key at 3. destruct (key x =? k); reflexivity.
  Qed.

  (* min() returns the FIRST member of the minimal key class in enumeration order *)
  Lemma min_by_first l x : min_by key l = Some x -> hd_error (filter (same_key (key x)) l) = Some x.
  Proof.
    revert x. induction l as [|a r IH]; cbn; intros x H; [discriminate|].
    destruct (min_by key r) as [m|] eqn:E.
    - destruct (key a <=? key m) eqn:L; inversion H; subst x; clear H.
      + unfold same_key at 1. rewrite Z.eqb_refl. reflexivity.
      + apply Z.leb_gt in L. unfold same_key at 1.
        destruct (key a =? key m) eqn:Ea; [apply Z.eqb_eq in Ea; lia|]. apply IH. reflexivity.
    - inversion H; subst x. unfold same_key at 1. rewrite Z.eqb_refl. reflexivity.
  Qed.
End Stable.

(* a key-sorted list is determined by its key classes *)
Lemma ksorted_classes_unique {X : Type} (key : X -> Z) : forall l1 l2 : list X, ksorted key l1 -> ksorted key l2 ->
  (forall k, filter (same_key key k) l1 = filter (same_key key k) l2) -> l1 = l2.
Proof.
  induction l1 as [|a r1 IH]; intros l2 H1 H2 Hc.
  - destruct l2 as [|b r2]; [reflexivity|]. specialize (Hc (key b)). cbn in Hc. unfold same_key at 1 in Hc.
    rewrite Z.eqb_refl in Hc. discriminate.
  - destruct l2 as [|b r2].
    + specialize (Hc (key a)). cbn in Hc. unfold same_key at 1 in Hc. rewrite Z.eqb_refl in Hc. discriminate.
    + destruct H1 as [Ha Hr1], H2 as [Hb Hr2].
      assert (In a (b :: r2)) as Ia.
      { apply (proj1 (filter_In (same_key key (key a)) a (b :: r2))). rewrite <- Hc. cbn. unfold same_key at 1.
        rewrite Z.eqb_refl. left; reflexivity. }
      assert (In b (a :: r1)) as Ib.
      { apply (proj1 (filter_In (same_key key (key b)) b (a :: r1))). rewrite Hc. cbn. unfold same_key at 1.
        rewrite Z.eqb_refl. left; reflexivity. }
      assert (Hk : key a = key b).
      { destruct Ia as [->|Ia]; [reflexivity|]. destruct Ib as [->|Ib]; [reflexivity|].
        specialize (Ha b Ib). specialize (Hb a Ia). lia. }
      assert (a = b).
      { specialize (Hc (key a)). cbn in Hc. unfold same_key in Hc. rewrite <- Hk, Z.eqb_refl in Hc.
        inversion Hc. reflexivity. }
      subst b. f_equal. apply IH; auto. intros k. specialize (Hc k). cbn in Hc.
      destruct (same_key key k a); [inversion Hc; reflexivity | exact Hc].
Qed.

(* sorted(S, key=k) is a function of the per-key-class enumeration orders alone: whatever else differs between two
   enumerations (two hash seeds, two processes) cannot be seen in the result *)
Lemma sort_by_determined {X : Type} (key : X -> Z) (l l' : list X) :
  (forall k, filter (same_key key k) l = filter (same_key key k) l') -> sort_by key l = sort_by key l'.
Proof.
  intros H. apply (ksorted_classes_unique key); try apply sort_by_sorted.
  intros k. rewrite !sort_by_stable. apply H.
Qed.

(* `x = s.pop()` / `x, = s` on a set of one member *)
Lemma singleton_enum {X : Type} (e e' : list X) : Permutation e e' -> List.length e = 1%nat -> e = e'.
Proof.
  intros Hp Hl. destruct e as [|a [|b r]]; try discriminate.
  apply Permutation_length_1_inv in Hp. subst. reflexivity.
Qed.

(* `n, m = s` on a set of two members: a symmetric use gives the same value for both enumerations *)
Lemma unpack2_sym {X R : Type} (f : X -> X -> R) (e e' : list X) :
  (forall a b, f a b = f b a) -> Permutation e e' -> unpack2 f e = unpack2 f e'.
Proof.
  intros Hs Hp. pose proof (Permutation_length Hp) as Hl.
  destruct e as [|a [|b [|c r]]], e' as [|a' [|b' [|c' r']]]; try discriminate; try reflexivity.
  cbn. apply Permutation_length_2_inv in Hp. destruct Hp as [H|H]; inversion H; subst; [reflexivity | f_equal; apply Hs].
Qed.

(* ------------------------------------------------------------------------------------------------------------ *)
(* canonical sets built by add() *)

Fixpoint sset (l : list Z) : Prop :=
  match l with [] => True | x :: r => (forall y, In y r -> x < y) /\ sset r end.

Lemma set_insert_In x l y : In y (set_insert x l) <-> y = x \/ In y l.
Proof.
  induction l as [|a r IH]; cbn; [intuition|].
  destruct (x <? a); [cbn; intuition|]. destruct (x =? a) eqn:E.
  - apply Z.eqb_eq in E. subst. cbn. intuition.
  - cbn. rewrite IH. intuition.
Qed.

Lemma set_insert_sset x l : sset l -> sset (set_insert x l).
Proof.
  induction l as [|a r IH]; cbn; intros Hs.
  - split; [intros ? []|exact I].
  - destruct Hs as [Ha Hr]. destruct (x <? a) eqn:L.
    + apply Z.ltb_lt in L. cbn. repeat split; auto. intros y [<-|Hy]; [exact L|]. specialize (Ha y Hy). lia.
    + apply Z.ltb_ge in L. destruct (x =? a) eqn:E; [cbn; auto|]. apply Z.eqb_neq in E.
      cbn. split; [|apply IH, Hr]. intros y Hy. apply set_insert_In in Hy. destruct Hy as [->|Hy]; [lia|auto].
Qed.

Lemma sset_ext : forall l1 l2, sset l1 -> sset l2 -> (forall x, In x l1 <-> In x l2) -> l1 = l2.
Proof.
  induction l1 as [|a r1 IH]; intros l2 H1 H2 Hm.
  - destruct l2 as [|b r2]; [reflexivity|]. exfalso. apply (Hm b). left; reflexivity.
  - destruct l2 as [|b r2]; [exfalso; apply (Hm a); left; reflexivity|].
    destruct H1 as [Ha Hr1], H2 as [Hb Hr2].
    assert (a = b).
    { destruct (proj1 (Hm a) (or_introl eq_refl)) as [->|Ia]; [reflexivity|].
      destruct (proj2 (Hm b) (or_introl eq_refl)) as [->|Ib]; [reflexivity|].
      specialize (Ha b Ib). specialize (Hb a Ia). lia. }
    subst b. f_equal. apply IH; auto. intros x. split; intros Hx.
    + destruct (proj1 (Hm x) (or_intror Hx)) as [->|]; [|assumption]. specialize (Ha x Hx). lia.
    + destruct (proj2 (Hm x) (or_intror Hx)) as [->|]; [|assumption]. specialize (Hb x Hx). lia.
Qed.

Lemma adds_sset l acc : sset acc -> sset (fold_left set_add l acc).
Proof. revert acc. induction l as [|x l IH]; intros acc H; cbn; [exact H|]. apply IH. apply set_insert_sset, H. Qed.

Lemma adds_In l acc y : In y (fold_left set_add l acc) <-> In y acc \/ In y l.
Proof.
  revert acc. induction l as [|x l IH]; intros acc; cbn; [intuition|].
  rewrite IH. unfold set_add. rewrite set_insert_In. intuition.
Qed.

Lemma set_of_map_acc_sset {X : Type} (g : X -> list Z) (e : list X) acc : sset acc -> sset (loop (fun acc x => fold_left set_add (g x) acc) e acc).
Proof. unfold loop. revert acc. induction e as [|x e IH]; intros acc H; cbn; [exact H|]. apply IH, adds_sset, H. Qed.

Lemma set_of_map_acc_In {X : Type} (g : X -> list Z) (e : list X) acc y :
  In y (loop (fun acc x => fold_left set_add (g x) acc) e acc) <-> In y acc \/ exists x, In x e /\ In y (g x).
Proof.
  unfold loop. revert acc. induction e as [|x e IH]; intros acc; cbn.
  - split; [auto|]. intros [H|[x [[] _]]]. exact H.
  - rewrite IH, adds_In. split.
    + intros [[H|H]|[z [Hz Hy]]]; [left; exact H | right; exists x; auto | right; exists z; auto].
    + intros [H|[z [[<-|Hz] Hy]]]; [left; left; exact H | left; right; exact Hy | right; exists z; auto].
Qed.

(* {g(x) for x in S} accumulated by add(): the canonical set, for every enumeration of S *)
Lemma set_of_map_perm (g : Z -> list Z) (e e' : list Z) : Permutation e e' -> set_of_map g e = set_of_map g e'.
Proof.
  intros Hp. unfold set_of_map. apply sset_ext; try (apply set_of_map_acc_sset; exact I).
  intros y. rewrite !set_of_map_acc_In. split; (intros [H|[x [Hx Hy]]]; [left; exact H|]); right; exists x; (split; [|exact Hy]).
  - eapply Permutation_in; [exact Hp | exact Hx].
  - eapply Permutation_in; [apply Permutation_sym, Hp | exact Hx].
Qed.

Lemma set_of_map_spec (g : Z -> list Z) (e : list Z) y : In y (set_of_map g e) <-> exists x, In x e /\ In y (g x).
Proof. unfold set_of_map. rewrite set_of_map_acc_In. split; [intros [[]|H]; exact H | auto]. Qed.

Lemma filter_set_as_map p e : filter_set p e = set_of_map (fun n => if p n then [n] else []) e.
Proof.
  unfold filter_set, set_of_map, loop. apply fold_left_ext. intros a x. destruct (p x); reflexivity.
Qed.

Lemma filter_set_perm (p : Z -> bool) (e e' : list Z) : Permutation e e' -> filter_set p e = filter_set p e'.
Proof. intros Hp. rewrite !filter_set_as_map. apply set_of_map_perm, Hp. Qed.

(* ------------------------------------------------------------------------------------------------------------ *)
(* concrete loop bodies of the audited sites *)

Lemma ring_mask_perm (e e' : list Z) : Permutation e e' -> ring_mask e = ring_mask e'.
Proof.
  intros Hp. unfold ring_mask. rewrite (loop_perm ring_mask_step) with (l' := e'); auto.
  intros a x y. unfold ring_mask_step. destruct (x >? 65), (y >? 65); try reflexivity.
  rewrite <- !Z.lor_assoc. f_equal. apply Z.lor_comm.
Qed.

Lemma glookup_dec_group d w k : glookup (dec_group d w) k = if k =? w then glookup d w - 1 else glookup d k.
Proof.
  induction d as [|[k0 v0] r IH]; cbn.
  - destruct (k =? w); reflexivity.
  - destruct (w =? k0) eqn:E1; cbn.
    + apply Z.eqb_eq in E1. subst k0. destruct (k =? w) eqn:E2; reflexivity.
    + destruct (k =? k0) eqn:E2.
      * apply Z.eqb_eq in E2. subst k0. rewrite Z.eqb_sym in E1. rewrite E1. reflexivity.
      * exact IH.
Qed.

(* groups[weights(n)] -= 1 over the atom set: the table of group sizes, as a function, for every enumeration *)
Lemma group_sizes_perm (weights : Z -> Z) (e e' : list Z) : Permutation e e' ->
  forall w, glookup (group_sizes weights e) w = glookup (group_sizes weights e') w.
Proof.
  intros Hp. unfold group_sizes.
  apply (loop_perm_R (fun d d' => forall w, glookup d w = glookup d' w)); auto.
  - intros a b c H1 H2 w. rewrite H1. apply H2.
  - intros a b x H w. rewrite !glookup_dec_group. rewrite !H. reflexivity.
  - intros a x y w. rewrite !glookup_dec_group.
    destruct (Z.eqb_spec w (weights y)), (Z.eqb_spec w (weights x)),
             (Z.eqb_spec (weights y) (weights x)), (Z.eqb_spec (weights x) (weights y)); congruence.
Qed.

Lemma first_value_app a b k :
  first_value (a ++ b) k = match first_value a k with Some v => Some v | None => first_value b k end.
Proof. induction a as [|[k' v] r IH]; cbn; [reflexivity|]. destruct (k =? k'); [reflexivity|exact IH]. Qed.

(* seen[m] = d for every m of `bonds[n].keys() - seen.keys()`: the same level table for every enumeration *)
Lemma bfs_level_perm (d : Z) (e e' : list Z) (seen : list (Z * Z)) : Permutation e e' ->
  forall k, first_value (bfs_levels d e seen) k = first_value (bfs_levels d e' seen) k.
Proof.
  intros Hp. unfold bfs_levels.
  apply (loop_perm_R (fun s s' => forall k, first_value s k = first_value s' k)); auto.
  - intros a b c H1 H2 k. rewrite H1. apply H2.
  - intros a b x H k. unfold bfs_level_step. rewrite !first_value_app, H. reflexivity.
  - intros a x y k. unfold bfs_level_step. rewrite !first_value_app. destruct (first_value a k); [reflexivity|].
    cbn. destruct (k =? x), (k =? y); reflexivity.
Qed.

Lemma tlookup_app {V : Type} (a b : list (Z * V)) k :
  tlookup (a ++ b) k = match tlookup a k with Some v => Some v | None => tlookup b k end.
Proof. induction a as [|[k' v] r IH]; cbn; [reflexivity|]. destruct (k =? k'); [reflexivity|exact IH]. Qed.

(* {c: f(c) for c in S} consulted only through d[key]: every lookup is the same for every enumeration *)
Lemma lookup_table_perm {V : Type} (f : Z -> V) (e e' : list Z) : Permutation e e' ->
  forall k, tlookup (table_of f e) k = tlookup (table_of f e') k.
Proof.
  intros Hp. unfold table_of.
  apply (loop_perm_R (fun s s' => forall k, tlookup s k = tlookup s' k)); auto.
  - intros a b c H1 H2 k. rewrite H1. apply H2.
  - intros a b x H k. rewrite !tlookup_app, H. reflexivity.
  - intros a x y k. rewrite !tlookup_app. destruct (tlookup a k); [reflexivity|]. cbn.
    destruct (k =? x) eqn:E1, (k =? y) eqn:E2; try reflexivity.
    apply Z.eqb_eq in E1, E2. subst. reflexivity.
Qed.

Lemma lookup_table_spec {V : Type} (f : Z -> V) (e : list Z) k :
  tlookup (table_of f e) k = if existsb (Z.eqb k) e then Some (f k) else None.
Proof.
  unfold table_of, loop.
  assert (G : forall acc, tlookup (fold_left (fun (d : list (Z * V)) c => d ++ [(c, f c)]) e acc) k =
                          match tlookup acc k with Some v => Some v
                          | None => if existsb (Z.eqb k) e then Some (f k) else None end).
  { induction e as [|x e IH]; intros acc; cbn; [destruct (tlookup acc k); reflexivity|].
    rewrite IH, tlookup_app. destruct (tlookup acc k); [reflexivity|]. cbn.
    destruct (k =? x) eqn:E; [apply Z.eqb_eq in E; subst; reflexivity | reflexivity]. }
  rewrite G. reflexivity.
Qed.

Lemma without_comm a b l : without a (without b l) = without b (without a l).
Proof.
  unfold without. induction l as [|x r IH]; cbn; [reflexivity|].
  destruct (x =? b) eqn:E1, (x =? a) eqn:E2; cbn; rewrite ?E1, ?E2; cbn; rewrite ?IH; reflexivity.
Qed.

(* for m in bonds.pop(n): bonds[m].discard(n) *)
Lemma discard_all_perm (n : Z) (d : list (Z * list Z)) (e e' : list Z) : Permutation e e' ->
  discard_all n d e = discard_all n d e'.
Proof.
  intros Hp. unfold discard_all. apply loop_perm; auto.
  intros a x y. unfold discard_row. rewrite !map_map. apply map_ext. intros [k v]. cbn.
  destruct (k =? x) eqn:E1; cbn; destruct (k =? y) eqn:E2; cbn; rewrite ?E1, ?E2; reflexivity.
Qed.

Lemma remove_vertex_comm d a b : remove_vertex (remove_vertex d a) b = remove_vertex (remove_vertex d b) a.
Proof.
  unfold remove_vertex. induction d as [|[k v] r IH]; cbn; [reflexivity|].
  destruct (k =? a) eqn:E1; destruct (k =? b) eqn:E2; cbn; rewrite ?E1, ?E2; cbn; rewrite ?E1, ?E2; cbn;
    rewrite ?IH; try reflexivity.
  f_equal. f_equal. apply without_comm.
Qed.

(* for n in bonds.keys() - in_rings: (pop the row of n, discard n everywhere) *)
Lemma remove_vertices_perm (d : list (Z * list Z)) (e e' : list Z) : Permutation e e' ->
  remove_vertices d e = remove_vertices d e'.
Proof. intros Hp. unfold remove_vertices. apply loop_perm; auto. intros a x y. apply remove_vertex_comm. Qed.

Lemma assign_from_comm : forall v s i j, assign_from s (assign_from s v i) j = assign_from s (assign_from s v j) i.
Proof.
  induction v as [|b r IH]; intros s i j; cbn; [reflexivity|]. rewrite IH. f_equal.
  destruct (s =? i), (s =? j); reflexivity.
Qed.

(* fingerprints[list(bits)] = 1 *)
Lemma index_set_perm (e e' : list Z) (len : nat) : Permutation e e' -> index_assign e len = index_assign e' len.
Proof. intros Hp. unfold index_assign. apply loop_perm; auto. intros a x y. apply assign_from_comm. Qed.

Lemma assign_from_length v : forall s i, List.length (assign_from s v i) = List.length v.
Proof. induction v as [|b r IH]; intros s i; cbn; [reflexivity|]. rewrite IH. reflexivity. Qed.

Lemma assign_from_nth v : forall s i k,
  nth k (assign_from s v i) false = ((s + Z.of_nat k =? i) && (k <? List.length v)%nat) || nth k v false.
Proof.
  induction v as [|b r IH]; intros s i k; cbn.
  - destruct k; cbn; rewrite andb_false_r; reflexivity.
  - destruct k as [|k]; cbn.
    + rewrite Z.add_0_r. destruct (s =? i); reflexivity.
    + rewrite IH. replace (s + 1 + Z.of_nat k) with (s + Z.pos (Pos.of_succ_nat k)) by lia. reflexivity.
Qed.

Lemma loop_assign_length e : forall v, List.length (loop assign_bit e v) = List.length v.
Proof.
  unfold loop. induction e as [|x e IH]; intros v; cbn; [reflexivity|]. rewrite IH. apply assign_from_length.
Qed.

Lemma loop_assign_nth e : forall v k, (k < List.length v)%nat ->
  nth k (loop assign_bit e v) false = existsb (Z.eqb (Z.of_nat k)) e || nth k v false.
Proof.
  unfold loop. induction e as [|x e IH]; intros v k Hk; cbn [fold_left existsb]; [reflexivity|].
  rewrite IH by (unfold assign_bit; rewrite assign_from_length; exact Hk).
  unfold assign_bit. rewrite assign_from_nth, Z.add_0_l.
  apply Nat.ltb_lt in Hk. rewrite Hk, andb_true_r.
  destruct (Z.of_nat k =? x); destruct (existsb (Z.eqb (Z.of_nat k)) e); destruct (nth k v false); reflexivity.
Qed.

(* fingerprints[list(bits)] = 1 on zeros(length): bit k is set iff k is a member of the set *)
Lemma index_assign_spec (e : list Z) (len k : nat) : (k < len)%nat ->
  nth k (index_assign e len) false = existsb (Z.eqb (Z.of_nat k)) e.
Proof.
  intros Hk. unfold index_assign. rewrite loop_assign_nth by (rewrite repeat_length; exact Hk).
  rewrite nth_repeat. apply orb_false_r.
Qed.

(* ------------------------------------------------------------------------------------------------------------ *)
(* sorted(S) under a total order: the same list for every enumeration of S (no key, no ties: antisymmetry) *)
Section SortLebProofs.
  Context {X : Type}.
  Variable leb : X -> X -> bool.
  Hypothesis leb_total : forall a b, leb a b = true \/ leb b a = true.
  Hypothesis leb_antisym : forall a b, leb a b = true -> leb b a = true -> a = b.
  Hypothesis leb_trans : forall a b c, leb a b = true -> leb b c = true -> leb a c = true.

  Fixpoint lsorted (l : list X) : Prop :=
    match l with [] => True | x :: r => (forall y, In y r -> leb x y = true) /\ lsorted r end.

  Lemma insert_leb_perm x l : Permutation (insert_leb leb x l) (x :: l).
  Proof.
    induction l as [|y r IH]; cbn; [apply Permutation_refl|].
    destruct (leb x y); [apply Permutation_refl|].
    eapply Permutation_trans; [apply perm_skip, IH | apply perm_swap].
  Qed.

  Lemma sort_leb_perm_self l : Permutation (sort_leb leb l) l.
  Proof.
    induction l as [|x r IH]; cbn; [apply perm_nil|].
    eapply Permutation_trans; [apply insert_leb_perm | apply perm_skip, IH].
  Qed.

  Lemma insert_leb_sorted x l : lsorted l -> lsorted (insert_leb leb x l).
  Proof.
    induction l as [|y r IH]; cbn; intros Hs.
    - split; [intros ? []|exact I].
    - destruct Hs as [Hy Hr]. destruct (leb x y) eqn:E.
      + cbn. repeat split; auto. intros z [<-|Hz]; [exact E|]. eapply leb_trans; [exact E | apply Hy, Hz].
      + cbn. split; [|apply IH, Hr].
        intros z Hz. apply (Permutation_in _ (insert_leb_perm x r)) in Hz. destruct Hz as [<-|Hz]; [|auto].
        destruct (leb_total x y) as [H|H]; [congruence | exact H].
  Qed.

  Lemma sort_leb_sorted l : lsorted (sort_leb leb l).
  Proof. induction l as [|x r IH]; cbn; [exact I|]. apply insert_leb_sorted, IH. Qed.

  Lemma lsorted_unique : forall l1 l2, lsorted l1 -> lsorted l2 -> Permutation l1 l2 -> l1 = l2.
  Proof.
    induction l1 as [|a r1 IH]; intros l2 H1 H2 Hp.
    - apply Permutation_nil in Hp. subst. reflexivity.
    - destruct l2 as [|b r2]; [apply Permutation_sym, Permutation_nil in Hp; discriminate|].
      destruct H1 as [Ha Hr1], H2 as [Hb Hr2].
      assert (Hab : a = b).
      { assert (In a (b :: r2)) as Ia by (eapply Permutation_in; [exact Hp | left; reflexivity]).
        assert (In b (a :: r1)) as Ib by (eapply Permutation_in; [apply Permutation_sym, Hp | left; reflexivity]).
        destruct Ia as [->|Ia]; [reflexivity|]. destruct Ib as [->|Ib]; [reflexivity|].
        apply leb_antisym; [apply Ha, Ib | apply Hb, Ia]. }
      subst b. f_equal. apply IH; auto. eapply Permutation_cons_inv, Hp.
  Qed.

  (* sorted(S) for a total order: the same list for every enumeration of S *)
  Lemma sort_leb_perm l l' : Permutation l l' -> sort_leb leb l = sort_leb leb l'.
  Proof.
    intros Hp. apply lsorted_unique; try apply sort_leb_sorted.
    eapply Permutation_trans; [apply sort_leb_perm_self|].
    eapply Permutation_trans; [exact Hp | apply Permutation_sym, sort_leb_perm_self].
  Qed.
End SortLebProofs.

(* str comparison of Python on ASCII text = String.leb (lexicographic on code points) *)
Lemma ascii_compare_lt_trans a b c : Ascii.compare a b = Lt -> Ascii.compare b c = Lt -> Ascii.compare a c = Lt.
Proof. unfold Ascii.compare. rewrite !N.compare_lt_iff. lia. Qed.

Lemma ascii_compare_refl z : Ascii.compare z z = Eq.
Proof. unfold Ascii.compare. apply N.compare_refl. Qed.

Lemma string_compare_refl : forall s, String.compare s s = Eq.
Proof. induction s as [|x s IH]; cbn; [reflexivity|]. rewrite ascii_compare_refl. exact IH. Qed.

Lemma string_compare_lt_trans : forall a b c, String.compare a b = Lt -> String.compare b c = Lt -> String.compare a c = Lt.
Proof.
  induction a as [|x a IH]; intros [|y b] [|z c]; cbn; try discriminate; auto.
  destruct (Ascii.compare x y) eqn:E1; try discriminate; destruct (Ascii.compare y z) eqn:E2; try discriminate; intros H1 H2.
  - apply Ascii.compare_eq_iff in E1, E2. subst. rewrite ascii_compare_refl. eapply IH; eauto.
  - apply Ascii.compare_eq_iff in E1. subst. rewrite E2. reflexivity.
  - apply Ascii.compare_eq_iff in E2. subst. rewrite E1. reflexivity.
  - rewrite (ascii_compare_lt_trans _ _ _ E1 E2). reflexivity.
Qed.

Lemma string_leb_trans a b c : String.leb a b = true -> String.leb b c = true -> String.leb a c = true.
Proof.
  unfold String.leb. destruct (String.compare a b) eqn:E1; try discriminate; destruct (String.compare b c) eqn:E2; try discriminate; intros _ _.
  - apply String.compare_eq_iff in E1, E2. subst. rewrite string_compare_refl. reflexivity.
  - apply String.compare_eq_iff in E1. subst. rewrite E2. reflexivity.
  - apply String.compare_eq_iff in E2. subst. rewrite E1. reflexivity.
  - rewrite (string_compare_lt_trans _ _ _ E1 E2). reflexivity.
Qed.

Lemma sorted_str_perm (l l' : list string) : Permutation l l' -> sorted_str l = sorted_str l'.
Proof.
  unfold sorted_str. apply sort_leb_perm.
  - apply String.leb_total.
  - intros a b H1 H2. apply String.leb_antisym; assumption.
  - apply string_leb_trans.
Qed.

(* ------------------------------------------------------------------------------------------------------------ *)
(* list(v) / tmp.extend(v) for a set v of str (or of molecules, hashed through their str) is NOT order free: its model
   (morgan_hash_smiles before fix 59bbd7c, remove_reagents today) is the enumeration itself, and two enumerations of the same two-member set differ *)
Lemma list_of_set_order_dependent :
  exists e e' : list string, Permutation e e' /\ List.length e = 2%nat /\ e <> e'.
Proof.
  exists ["C1CC1"; "CCC"]%string, ["CCC"; "C1CC1"]%string. repeat split; [apply perm_swap | discriminate].
Qed.

(* ------------------------------------------------------------------------------------------------------------ *)
(* the memoisation layer is transparent *)

Section MemoProofs.
  Context {S K V : Type}.
  Variable keqb : K -> K -> bool.
  Hypothesis keqb_eq : forall a b, keqb a b = true -> a = b.
  Variable derive : K -> S -> V.

  Lemma cache_ok_nil s : cache_ok keqb derive s [].
  Proof. intros k v H. discriminate. Qed.

  Lemma cache_ok_cons s c k : cache_ok keqb derive s c -> cache_ok keqb derive s ((k, derive k s) :: c).
  Proof.
    intros H k2 v. cbn. destruct (keqb k2 k) eqn:E; [|apply H].
    apply keqb_eq in E. subst. intros [= <-]. reflexivity.
  Qed.

  (* one read: returns what the body computes now, and keeps the invariant *)
  Lemma read_transparent s c k : cache_ok keqb derive s c ->
    fst (read keqb derive s c k) = derive k s /\ cache_ok keqb derive s (snd (read keqb derive s c k)).
  Proof.
    intros H. unfold read. destruct (clookup keqb c k) as [v|] eqn:E; cbn.
    - split; [apply H, E | exact H].
    - split; [reflexivity | apply cache_ok_cons, H].
  Qed.

  Lemma store_all_ok s ks : forall c, cache_ok keqb derive s c -> cache_ok keqb derive s (store_all derive s c ks).
  Proof. unfold store_all. induction ks as [|k r IH]; intros c H; cbn; [exact H|]. apply IH, cache_ok_cons, H. Qed.

  (* any history of reads, mutations (each followed by flush_cache) and flushes: every read returns what an
     uncached evaluation returns at that moment *)
  Theorem cache_transparent : forall ops s c, cache_ok keqb derive s c ->
    run keqb derive s c ops = run_uncached derive s ops.
  Proof.
    induction ops as [|o r IH]; intros s c H; [reflexivity|].
    destruct o as [k|k also|f|]; cbn.
    - destruct (read_transparent s c k H) as [Hv Hc]. destruct (read keqb derive s c k) as [v c'] eqn:E.
      cbn in Hv, Hc. subst v. f_equal. apply IH, Hc.
    - destruct (read_transparent s c k H) as [Hv Hc]. destruct (read keqb derive s c k) as [v c'] eqn:E.
      cbn in Hv, Hc. subst v. f_equal. apply IH. destruct (clookup keqb c k); [exact Hc | apply store_all_ok, Hc].
    - apply IH, cache_ok_nil.
    - apply IH, cache_ok_nil.
  Qed.

  (* first call vs later calls vs a fresh copy (copy() starts with an empty __dict__ and an equal state) *)
  Corollary cached_equals_copy : forall ops s c, cache_ok keqb derive s c ->
    run keqb derive s c ops = run keqb derive s [] ops.
  Proof.
    intros ops s c H. rewrite (cache_transparent ops s c H). symmetry. apply cache_transparent, cache_ok_nil.
  Qed.

  Corollary repeated_read_same : forall s c k, cache_ok keqb derive s c ->
    run keqb derive s c [Read k; Read k] = [derive k s; derive k s].
  Proof. intros s c k H. rewrite (cache_transparent _ s c H). reflexivity. Qed.
End MemoProofs.

(* why the flush matters: a mutation that does NOT clear the cache breaks the invariant (the shape of the defects
   repaired in MoleculeContainer.delete_atom / delete_bond / transactions) *)
Definition ex_derive (k : bool) (s : list Z) : Z := if k then Z.of_nat (List.length s) else fold_left Z.add s 0.
Lemma stale_without_flush :
  let s := [1; 2; 3] in
  let c := snd (read Bool.eqb ex_derive s [] true) in
  cache_ok Bool.eqb ex_derive s c /\ ~ cache_ok Bool.eqb ex_derive (4 :: s) c.
Proof.
  cbn. split.
  - intros k v. cbn. destruct k; cbn; [intros [= <-]; reflexivity | discriminate].
  - intros H. specialize (H true 3 eq_refl). cbn in H. discriminate.
Qed.

(* non-vacuity: a concrete history with cross-storing reads, a mutation and a flush *)
Lemma memo_example :
  let ops := [ReadStoring true [false]; Read false; Read true; Mutate (cons 10); Read false; Flush; Read true] in
  run Bool.eqb ex_derive [1; 2; 3] [] ops = [3; 6; 3; 16; 4] /\
  run_uncached ex_derive [1; 2; 3] ops = [3; 6; 3; 16; 4].
Proof. vm_compute. split; reflexivity. Qed.

(* non-vacuity of the order lemmas on concrete enumerations *)
Lemma order_examples :
  ring_mask [6; 5; 70] = ring_mask [70; 6; 5] /\ ring_mask [6; 5; 70] = Z.lor (Z.shiftl 1 59) (Z.shiftl 1 60) /\
  ring_mask [70] = 9223372036854775808 /\
  sort_by (fun x => x mod 10) [13; 21; 42] = sort_by (fun x => x mod 10) [42; 13; 21] /\
  (* equal keys: the results differ, their key sequences do not *)
  sort_by (fun x => x mod 10) [11; 21] <> sort_by (fun x => x mod 10) [21; 11] /\
  min_by (fun x => x mod 10) [11; 21; 5] = Some 11 /\ min_by (fun x => x mod 10) [21; 5; 11] = Some 21 /\
  set_of_map (two_bits 1023 10) [5000; 3; 1027] = set_of_map (two_bits 1023 10) [1027; 5000; 3] /\
  set_of_map (two_bits 1023 10) [5000; 3; 1027] = [0; 1; 3; 4; 904] /\
  index_assign [3; 1] 5 = [false; true; false; true; false] /\ index_assign [1; 3] 5 = index_assign [3; 1] 5 /\
  remove_vertices [(1, [2; 3]); (2, [1; 3]); (3, [1; 2])] [1; 2] = [(3, [])].
Proof. vm_compute. repeat split; try reflexivity; discriminate. Qed.
