(* C07: lazy_product yields a permutation of the cartesian product, for ALL lists of lists.
   The loop is analysed through its state at the start of round k:
     pools[i] = first k elements of args[i], gens[i] = the rest, empty[i] = (len args[i] < k),
     reached  = number of arguments shorter than k. *)
From Coq Require Import ZArith List Bool Lia Permutation Arith.
From Model Require Import PyBase Iso.
Import ListNotations.
Local Open Scope nat_scope.

Section LP.
  Context {X : Type}.
  Implicit Types (L : list X) (ls : list (list X)).

  (* ---------- list facts ---------- *)
  Lemma last_opt_nth L : last_opt L = nth_error L (length L - 1).
  Proof.
    induction L as [|x [|y r] IH]; [reflexivity | reflexivity |].
    change (last_opt (x :: y :: r)) with (last_opt (y :: r)). rewrite IH. cbn [length].
    replace (S (S (length r)) - 1) with (S (length r - 0)) by lia. cbn [nth_error].
    replace (S (length r) - 1) with (length r - 0) by lia. reflexivity.
  Qed.

  Lemma skipn_cons_nth L k x : nth_error L k = Some x -> skipn k L = x :: skipn (S k) L.
  Proof.
    revert k. induction L as [|y r IH]; intros [|k] H; cbn in *; try discriminate.
    - injection H as ->. reflexivity.
    - apply IH. exact H.
  Qed.

  Lemma firstn_S_nth L k x : nth_error L k = Some x -> firstn (S k) L = firstn k L ++ [x].
  Proof.
    revert k. induction L as [|y r IH]; intros [|k] H; cbn in *; try discriminate.
    - injection H as ->. reflexivity.
    - f_equal. apply IH. exact H.
  Qed.

  Lemma skipn_nil_len L k : skipn k L = [] -> length L <= k.
  Proof.
    intros H. pose proof (skipn_length k L) as E. rewrite H in E. cbn in E. lia.
  Qed.

  (* ---------- the state at the start of round k ---------- *)
  Definition st (k : nat) L : fac := mkFac (firstn k L) (skipn k L) (length L <? k).
  Definition idx (k : nat) L : nat := Nat.min k (length L - 1).
  Definition cnt (p : list X -> bool) ls : nat := length (filter p ls).
  Definition len_eq (k : nat) L : bool := length L =? k.
  Definition len_lt (k : nat) L : bool := length L <? k.

  Lemma pick_cons_some i ir L lr x : nth_error L i = Some x -> pick (i :: ir) (L :: lr) = x :: pick ir lr.
  Proof. intros H. cbn. rewrite H. reflexivity. Qed.

  Lemma nth_idx_some k L : L <> [] -> exists x, nth_error L (idx k L) = Some x.
  Proof.
    intros H. destruct (nth_error L (idx k L)) eqn:E; [eauto|].
    apply nth_error_None in E. unfold idx in E. destruct L; [congruence|]. cbn [length] in E. lia.
  Qed.

  Definition cont (res : @for_res X) (x : X) (f' : fac) : for_res :=
    match res with
    | RDone out ind fs' rr => RDone (x :: out) ((length (f_pool f') - 1) :: ind) (f' :: fs') rr
    | RBreak ps => RBreak (f_pool f' :: ps)
    | RReturn => RReturn
    | RIndexError => RIndexError
    end.

  Lemma lp_for_cons n (f : @fac X) r reached :
    lp_for n (f :: r) reached =
      if f_empty f then
        match last_opt (f_pool f) with
        | Some x => cont (lp_for n r reached) x f
        | None => RIndexError
        end
      else
        match f_gen f with
        | [] =>
            match last_opt (f_pool f) with
            | None => RReturn
            | Some x =>
                if (S reached =? n) then RBreak (map f_pool (f :: r))
                else cont (lp_for n r (S reached)) x (mkFac (f_pool f) [] true)
            end
        | x :: g => cont (lp_for n r reached) x (mkFac (f_pool f ++ [x]) g false)
        end.
  Proof. reflexivity. Qed.

  Lemma cont_done O I F R x f' i s R' :
    length (f_pool f') - 1 = i -> f' = s -> R = R' ->
    cont (RDone O I F R) x f' = RDone (x :: O) (i :: I) (s :: F) R'.
  Proof. intros <- <- <-. reflexivity. Qed.

  Lemma cnt_cons p L ls : cnt p (L :: ls) = (if p L then 1 else 0) + cnt p ls.
  Proof. unfold cnt. cbn [filter]. destruct (p L); reflexivity. Qed.

  Lemma st_exhausted k L : length L <= k -> st (S k) L = mkFac L [] true.
  Proof.
    intros H. unfold st. rewrite firstn_all2, skipn_all2 by lia.
    f_equal. apply Nat.ltb_lt. lia.
  Qed.

  (* one pass of the for loop that ends in its else clause *)
  Lemma for_done n k : forall ls r,
    (forall L, In L ls -> L <> []) ->
    r + cnt (len_eq k) ls < n ->
    lp_for n (map (st k) ls) r =
      RDone (pick (map (idx k) ls) ls) (map (idx k) ls) (map (st (S k)) ls) (r + cnt (len_eq k) ls).
  Proof.
    induction ls as [|L ls IH]; intros r Hne Hr.
    - cbn. f_equal. unfold cnt. cbn. lia.
    - assert (HL : L <> []) by (apply Hne; left; reflexivity).
      assert (Hne' : forall L', In L' ls -> L' <> []) by (intros; apply Hne; right; assumption).
      destruct (nth_idx_some k L HL) as [x Hx].
      cbn [map]. rewrite lp_for_cons. cbn [f_empty f_pool f_gen st].
      rewrite (pick_cons_some _ _ _ _ x Hx).
      rewrite cnt_cons in Hr |- *. unfold len_eq at 1 in Hr. unfold len_eq at 1.
      destruct (length L <? k) eqn:Elt.
      + (* already marked empty *)
        apply Nat.ltb_lt in Elt.
        assert (Eeq : (length L =? k) = false) by (apply Nat.eqb_neq; lia).
        rewrite Eeq in Hr |- *.
        assert (Ei : idx k L = length L - 1) by (unfold idx; lia).
        rewrite firstn_all2 by lia. rewrite last_opt_nth. rewrite <- Ei, Hx.
        rewrite (IH r Hne') by lia.
        apply cont_done; [unfold st; cbn [f_pool]; rewrite firstn_all2 by lia; lia | | lia].
        unfold st. rewrite !firstn_all2, !skipn_all2 by lia. f_equal. transitivity true; [apply Nat.ltb_lt; lia | symmetry; apply Nat.ltb_lt; lia].
      + apply Nat.ltb_ge in Elt.
        destruct (skipn k L) as [|y g] eqn:Esk.
        * (* exhausted in this round *)
          apply skipn_nil_len in Esk. assert (Ek : length L = k) by lia.
          assert (Eeq : (length L =? k) = true) by (apply Nat.eqb_eq; exact Ek).
          rewrite Eeq in Hr |- *.
          assert (Ei : idx k L = length L - 1) by (unfold idx; lia).
          rewrite firstn_all2 by lia. rewrite last_opt_nth. rewrite <- Ei, Hx.
          assert (En : (S r =? n) = false) by (apply Nat.eqb_neq; lia). rewrite En.
          rewrite (IH (S r) Hne') by lia.
          apply cont_done; [cbn [f_pool]; lia | | lia].
          rewrite st_exhausted by lia. reflexivity.
        * (* a new element is drawn *)
          assert (Hk : k < length L).
          { destruct (Nat.lt_ge_cases k (length L)); [assumption|]. rewrite skipn_all2 in Esk by lia. discriminate. }
          assert (Eeq : (length L =? k) = false) by (apply Nat.eqb_neq; lia).
          rewrite Eeq in Hr |- *.
          assert (Ei : idx k L = k) by (unfold idx; lia).
          rewrite Ei in Hx.
          rewrite (skipn_cons_nth _ _ _ Hx) in Esk. injection Esk as <- <-.
          rewrite (IH r Hne') by lia.
          apply cont_done; [| | lia].
          -- cbn [f_pool]. rewrite app_length. cbn [length]. rewrite firstn_length. lia.
          -- unfold st. rewrite (firstn_S_nth _ _ _ Hx). f_equal.
             symmetry. apply Nat.ltb_ge. lia.
  Qed.

  (* the pass in which the last generator is found exhausted *)
  Lemma for_break n k : forall ls r,
    (forall L, In L ls -> L <> [] /\ length L <= k) ->
    0 < cnt (len_eq k) ls ->
    r + cnt (len_eq k) ls = n ->
    lp_for n (map (st k) ls) r = RBreak ls.
  Proof.
    induction ls as [|L ls IH]; intros r Hall Hpos Hr.
    - unfold cnt in Hpos. cbn in Hpos. lia.
    - destruct (Hall L (or_introl eq_refl)) as [HL Hle].
      assert (Hall' : forall L', In L' ls -> L' <> [] /\ length L' <= k) by (intros; apply Hall; right; assumption).
      destruct (nth_idx_some k L HL) as [x Hx].
      assert (Ei : idx k L = length L - 1) by (unfold idx; lia). rewrite Ei in Hx.
      assert (Epool : forall j, k <= j -> f_pool (st j L) = L) by (intros; unfold st; cbn [f_pool]; apply firstn_all2; lia).
      cbn [map]. rewrite lp_for_cons. rewrite (Epool k) by lia.
      replace (f_gen (st k L)) with (@nil X) by (unfold st; cbn [f_gen]; rewrite skipn_all2 by lia; reflexivity).
      replace (f_empty (st k L)) with (length L <? k) by reflexivity.
      rewrite cnt_cons in Hr, Hpos. unfold len_eq at 1 in Hr. unfold len_eq at 1 in Hpos.
      rewrite last_opt_nth, Hx.
      destruct (length L <? k) eqn:Elt.
      + apply Nat.ltb_lt in Elt.
        assert (Eeq : (length L =? k) = false) by (apply Nat.eqb_neq; lia).
        rewrite Eeq in Hr, Hpos. rewrite (IH r Hall') by lia. cbn [cont]. rewrite (Epool k) by lia. reflexivity.
      + apply Nat.ltb_ge in Elt.
        assert (Eeq : (length L =? k) = true) by (apply Nat.eqb_eq; lia).
        rewrite Eeq in Hr, Hpos.
        destruct (S r =? n) eqn:En.
        * f_equal. cbn [map]. rewrite (Epool k) by lia. f_equal.
          rewrite map_map. rewrite <- (map_id ls) at 2. apply map_ext_in.
          intros L' HL'. unfold st. cbn [f_pool]. apply firstn_all2. apply Hall'. exact HL'.
        * apply Nat.eqb_neq in En. rewrite (IH (S r) Hall') by lia. reflexivity.
  Qed.

  (* round 0 with an empty argument: `return` before anything is yielded *)
  Lemma for_return n : forall ls r,
    (exists L, In L ls /\ L = []) ->
    lp_for n (map (st 0) ls) r = RReturn.
  Proof.
    induction ls as [|L ls IH]; intros r [L0 [Hin H0]]; [destruct Hin|].
    cbn [map]. rewrite lp_for_cons. cbn [f_empty f_pool f_gen st firstn skipn].
    replace (length L <? 0) with false by (symmetry; apply Nat.ltb_ge; lia).
    destruct L as [|x g].
    - reflexivity.
    - destruct Hin as [E|Hin]; [subst; discriminate|].
      rewrite (IH r) by eauto. reflexivity.
  Qed.

  (* ---------- counting ---------- *)
  Lemma filter_length_le {T} (p : T -> bool) (l : list T) : length (filter p l) <= length l.
  Proof. induction l as [|x l IH]; [apply le_n|]. cbn. destruct (p x); cbn; lia. Qed.

  Lemma cnt_le p ls : cnt p ls <= length ls.
  Proof. unfold cnt. apply filter_length_le. Qed.

  Lemma cnt_lt_eq k ls : cnt (len_lt k) ls + cnt (len_eq k) ls = cnt (len_lt (S k)) ls.
  Proof.
    unfold cnt, len_lt, len_eq. induction ls as [|L ls IH]; [reflexivity|]. cbn [filter].
    destruct (Nat.ltb_spec (length L) k), (Nat.eqb_spec (length L) k), (Nat.ltb_spec (length L) (S k));
      cbn [length]; lia.
  Qed.

  Lemma cnt_lt_0 ls : cnt (len_lt 0) ls = 0.
  Proof. unfold cnt, len_lt. induction ls as [|L ls IH]; [reflexivity|]. cbn [filter]. exact IH. Qed.

  Lemma max_len_ge ls L : In L ls -> length L <= max_len ls.
  Proof.
    unfold max_len. induction ls as [|L' ls IH]; intros H; [destruct H|]. cbn.
    destruct H as [->|H]; [lia|]. specialize (IH H). lia.
  Qed.

  Lemma max_len_attained ls : ls <> [] -> exists L, In L ls /\ length L = max_len ls.
  Proof.
    unfold max_len. induction ls as [|L' ls IH]; intros H; [congruence|]. cbn.
    destruct ls as [|L'' ls'].
    - exists L'. split; [left; reflexivity|]. cbn. lia.
    - destruct IH as [L [Hin HL]]; [discriminate|].
      destruct (Nat.le_ge_cases (length L') (fold_right Nat.max 0 (map (@length X) (L'' :: ls')))).
      + exists L. split; [right; exact Hin|]. lia.
      + exists L'. split; [left; reflexivity|]. lia.
  Qed.

  Lemma cnt_lt_all k ls : (forall L, In L ls -> length L < k) -> cnt (len_lt k) ls = length ls.
  Proof.
    unfold cnt, len_lt. induction ls as [|L ls IH]; intros H; [reflexivity|]. cbn [filter].
    replace (length L <? k) with true by (symmetry; apply Nat.ltb_lt; apply H; left; reflexivity).
    cbn [length]. f_equal. apply IH. intros; apply H; right; assumption.
  Qed.

  Lemma cnt_lt_some k ls L : In L ls -> k <= length L -> cnt (len_lt k) ls < length ls.
  Proof.
    unfold cnt, len_lt. induction ls as [|L' ls IH]; intros Hin Hk; [destruct Hin|]. cbn [filter].
    destruct Hin as [->|Hin].
    - replace (length L <? k) with false by (symmetry; apply Nat.ltb_ge; lia).
      cbn [length]. pose proof (filter_length_le (fun L0 => length L0 <? k) ls). lia.
    - specialize (IH Hin Hk). destruct (length L' <? k); cbn [length]; lia.
  Qed.

  Lemma cnt_eq_pos k ls L : In L ls -> length L = k -> 0 < cnt (len_eq k) ls.
  Proof.
    unfold cnt, len_eq. induction ls as [|L' ls IH]; intros Hin Hk; [destruct Hin|]. cbn [filter].
    destruct Hin as [->|Hin].
    - replace (length L =? k) with true by (symmetry; apply Nat.eqb_eq; lia). cbn [length]. lia.
    - specialize (IH Hin Hk). destruct (length L' =? k); cbn [length]; lia.
  Qed.

  (* ---------- the diagonal phase in closed form ---------- *)
  Definition diag_idx ls (k : nat) : list nat := map (idx k) ls.

  Lemma while_closed ls :
    ls <> [] -> (forall L, In L ls -> L <> []) ->
    forall d k inds, k + d = max_len ls ->
    lp_while (S (S d)) (length ls) (map (st k) ls) (cnt (len_lt k) ls) inds =
      map (fun j => pick (diag_idx ls j) ls) (seq k d) ++
      lp_product ls (rev (map (diag_idx ls) (seq k d)) ++ inds).
  Proof.
    intros Hnil Hne. induction d as [|d IH]; intros k inds Hk.
    - (* k = max_len: break *)
      cbn [seq map rev app]. unfold lp_while.
      destruct (max_len_attained ls Hnil) as [Lm [Hin Hm]].
      rewrite for_break; [reflexivity| | |].
      + intros L HL. split; [apply Hne; exact HL|]. pose proof (max_len_ge ls L HL). lia.
      + apply (cnt_eq_pos k ls Lm Hin). lia.
      + rewrite cnt_lt_eq. apply cnt_lt_all. intros L HL. pose proof (max_len_ge ls L HL). lia.
    - change (lp_while (S (S (S d))) (length ls) (map (st k) ls) (cnt (len_lt k) ls) inds)
        with (match lp_for (length ls) (map (st k) ls) (cnt (len_lt k) ls) with
              | RDone out ind fs' r' => out :: lp_while (S (S d)) (length ls) fs' r' (ind :: inds)
              | RBreak pools => lp_product pools inds
              | RReturn => []
              | RIndexError => []
              end).
      destruct (max_len_attained ls Hnil) as [Lm [Hin Hm]].
      rewrite for_done; [| exact Hne |].
      + rewrite cnt_lt_eq. change (map (idx k) ls) with (diag_idx ls k).
        rewrite (IH (S k) (diag_idx ls k :: inds)) by lia.
        cbn [seq map rev]. rewrite <- app_assoc. reflexivity.
      + rewrite cnt_lt_eq. apply (cnt_lt_some (S k) ls Lm Hin). lia.
  Qed.

  (* ---------- product phase = cartesian product ---------- *)
  Lemma map_pick_cons (i : nat) L lr x (P : list (list nat)) :
    nth_error L i = Some x -> map (fun ind => pick ind (L :: lr)) (map (cons i) P) = map (cons x) (map (fun ind => pick ind lr) P).
  Proof.
    intros H. rewrite !map_map. apply map_ext. intros ind. cbn. rewrite H. reflexivity.
  Qed.

  Lemma flat_map_seq_nth {Y} (L : list X) : forall (f : nat -> list Y) (g : X -> list Y),
    (forall i x, nth_error L i = Some x -> f i = g x) ->
    flat_map f (seq 0 (length L)) = flat_map g L.
  Proof.
    induction L as [|x r IH]; intros f g H; [reflexivity|].
    cbn [length seq flat_map]. rewrite (H 0 x eq_refl). f_equal.
    rewrite <- seq_shift. rewrite flat_map_concat_map, map_map, <- flat_map_concat_map.
    apply IH. intros i y Hy. apply (H (S i)). exact Hy.
  Qed.

  Lemma product_cartesian ls :
    map (fun ind => pick ind ls) (iproduct (map (fun p => seq 0 (length p)) ls)) = cartesian ls.
  Proof.
    induction ls as [|L ls IH]; [reflexivity|].
    cbn [map iproduct cartesian].
    rewrite flat_map_concat_map, concat_map, map_map, <- flat_map_concat_map.
    apply flat_map_seq_nth.
    intros i x Hx. rewrite (map_pick_cons i L ls x _ Hx). rewrite IH. reflexivity.
  Qed.

  Lemma NoDup_app_intro {T} (a b : list T) :
    NoDup a -> NoDup b -> (forall x, In x a -> In x b -> False) -> NoDup (a ++ b).
  Proof.
    induction a as [|x a IH]; intros Ha Hb Hd; [exact Hb|].
    inversion Ha as [|? ? Hx Ha']; subst. cbn. constructor.
    - rewrite in_app_iff. intros [H|H]; [contradiction | apply (Hd x); [left; reflexivity | exact H]].
    - apply IH; [exact Ha' | exact Hb |]. intros y H1 H2. apply (Hd y); [right; exact H1 | exact H2].
  Qed.

  (* ---------- index tuples ---------- *)
  Lemma ind_eqb_eq a b : ind_eqb a b = true <-> a = b.
  Proof.
    unfold ind_eqb. revert b. induction a as [|x a IH]; intros [|y b]; cbn; split; intros H; try congruence; try discriminate.
    - apply andb_prop in H. destruct H as [H1 H2]. apply Nat.eqb_eq in H1. apply IH in H2. congruence.
    - injection H as -> ->. rewrite Nat.eqb_refl. apply IH. reflexivity.
  Qed.

  Lemma ind_mem_In a s : ind_mem a s = true <-> In a s.
  Proof.
    unfold ind_mem. rewrite existsb_exists. split.
    - intros [y [Hy E]]. apply ind_eqb_eq in E. subst. exact Hy.
    - intros H. exists a. split; [exact H | apply ind_eqb_eq; reflexivity].
  Qed.

  Lemma iproduct_In (rs : list (list nat)) ind :
    In ind (iproduct rs) <-> Forall2 (fun i r => In i r) ind rs.
  Proof.
    revert ind. induction rs as [|r rs IH]; intros ind; cbn [iproduct].
    - split.
      + intros [<-|[]]. constructor.
      + intros H. inversion H. left; reflexivity.
    - rewrite in_flat_map. split.
      + intros [i [Hi H]]. apply in_map_iff in H. destruct H as [t [<- Ht]]. constructor; [exact Hi | apply IH; exact Ht].
      + intros H. inversion H as [|i r' t rs' Hi Ht]; subst. exists i. split; [exact Hi|].
        apply in_map. apply IH. exact Ht.
  Qed.

  Lemma iproduct_NoDup (rs : list (list nat)) : (forall r, In r rs -> NoDup r) -> NoDup (iproduct rs).
  Proof.
    induction rs as [|r rs IH]; intros H; cbn [iproduct].
    - constructor; [intros []|constructor].
    - assert (Hr : NoDup r) by (apply H; left; reflexivity).
      assert (Hrs : NoDup (iproduct rs)) by (apply IH; intros; apply H; right; assumption).
      clear H IH. induction r as [|i r IHr]; [constructor|].
      cbn [flat_map]. inversion Hr as [|? ? Hni Hr']; subst.
      apply NoDup_app_intro.
      + apply FinFun.Injective_map_NoDup; [intros a b E; congruence | exact Hrs].
      + apply IHr. exact Hr'.
      + intros t H1 H2. apply in_map_iff in H1. destruct H1 as [t1 [<- _]].
        apply in_flat_map in H2. destruct H2 as [j [Hj H2]]. apply in_map_iff in H2. destruct H2 as [t2 [E _]].
        injection E as -> _. contradiction.
  Qed.

  Lemma NoDup_map_inj_in {S T} (f : S -> T) (l : list S) :
    NoDup l -> (forall x y, In x l -> In y l -> f x = f y -> x = y) -> NoDup (map f l).
  Proof.
    induction l as [|x l IH]; intros Hn Hinj; [constructor|].
    inversion Hn as [|? ? Hx Hl]; subst. cbn. constructor.
    - intros H. apply in_map_iff in H. destruct H as [y [E Hy]].
      assert (y = x) by (apply Hinj; [right; exact Hy | left; reflexivity | exact E]). subst. contradiction.
    - apply IH; [exact Hl|]. intros a c Ha Hc. apply Hinj; right; assumption.
  Qed.

  Lemma diag_NoDup ls : ls <> [] -> NoDup (map (diag_idx ls) (seq 0 (max_len ls))).
  Proof.
    intros Hnil. apply NoDup_map_inj_in; [apply seq_NoDup|].
    intros j j' Hj Hj' E. apply in_seq in Hj. apply in_seq in Hj'.
    destruct (max_len_attained ls Hnil) as [Lm [Hin Hm]].
    unfold diag_idx in E. assert (E' := proj1 (@map_ext_in_iff _ _ (idx j) (idx j') ls) E Lm Hin).
    unfold idx in E'. lia.
  Qed.

  Lemma diag_in_product ls j :
    (forall L, In L ls -> L <> []) -> In (diag_idx ls j) (iproduct (map (fun p => seq 0 (length p)) ls)).
  Proof.
    intros Hne. apply iproduct_In. unfold diag_idx. induction ls as [|L ls IH]; cbn [map]; constructor.
    - apply in_seq. assert (L <> []) by (apply Hne; left; reflexivity). unfold idx. destruct L; [congruence|]. cbn [length]. lia.
    - apply IH. intros; apply Hne; right; assumption.
  Qed.

  Lemma diag_then_rest (D I P : list (list nat)) :
    NoDup D -> NoDup P -> incl D P -> (forall i, In i I <-> In i D) ->
    Permutation (D ++ filter (fun i => negb (ind_mem i I)) P) P.
  Proof.
    intros HD HP Hincl HI. apply NoDup_Permutation.
    - apply NoDup_app_intro; [exact HD | apply NoDup_filter; exact HP |].
      intros x Hx Hf. apply filter_In in Hf. destruct Hf as [_ Hf].
      apply negb_true_iff in Hf. assert (ind_mem x I = true) by (apply ind_mem_In, HI; exact Hx). congruence.
    - exact HP.
    - intros x. rewrite in_app_iff, filter_In. split.
      + intros [H|[H _]]; [apply Hincl; exact H | exact H].
      + intros H. destruct (ind_mem x I) eqn:E.
        * left. apply HI, ind_mem_In. exact E.
        * right. split; [exact H | reflexivity].
  Qed.

  Lemma cartesian_nil ls : (exists L, In L ls /\ L = []) -> cartesian ls = [].
  Proof.
    induction ls as [|L ls IH]; intros [L0 [Hin H0]]; [destruct Hin|]. cbn [cartesian].
    destruct Hin as [->|Hin].
    - subst. reflexivity.
    - rewrite IH by eauto. clear. induction L as [|x L IHL]; [reflexivity|]. cbn. exact IHL.
  Qed.

  Lemma cartesian_single (a : list X) : cartesian [a] = map (fun x => [x]) a.
  Proof. cbn. induction a as [|x a IH]; [reflexivity|]. cbn in *. congruence. Qed.

  Definition is_nil L : bool := match L with [] => true | _ => false end.

  (* the general branch (two or more arguments) *)
  Lemma lazy_general ls :
    Permutation (lp_while (S (S (max_len ls))) (length ls) (map (fun a => mkFac [] a false) ls) 0 []) (cartesian ls)
    \/ ls = [].
  Proof.
    destruct ls as [|L0 ls0]; [right; reflexivity|]. left. set (ls := L0 :: ls0).
    assert (Hnil : ls <> []) by discriminate.
    assert (Est : map (fun a => mkFac [] a false) ls = map (st 0) ls) by (apply map_ext; intros a; reflexivity).
    rewrite Est.
    destruct (existsb is_nil ls) eqn:Ee.
    - (* one argument is empty: nothing is yielded *)
      apply existsb_exists in Ee. destruct Ee as [L [Hin HL]]. destruct L; [|discriminate].
      rewrite cartesian_nil by eauto.
      change (lp_while (S (S (max_len ls))) (length ls) (map (st 0) ls) 0 [])
        with (match lp_for (length ls) (map (st 0) ls) 0 with
              | RDone out ind fs' r' => out :: lp_while (S (max_len ls)) (length ls) fs' r' [ind]
              | RBreak pools => lp_product pools []
              | RReturn => []
              | RIndexError => []
              end).
      rewrite for_return by eauto. constructor.
    - assert (Hne : forall L, In L ls -> L <> []).
      { intros L HL E. subst. assert (existsb is_nil ls = true) by (apply existsb_exists; exists []; split; [exact HL | reflexivity]). congruence. }
      pose proof (while_closed ls Hnil Hne (max_len ls) 0 [] ltac:(lia)) as W.
      rewrite (cnt_lt_0 ls) in W. rewrite W. clear W.
      unfold lp_product. rewrite <- product_cartesian.
      rewrite <- (map_map (diag_idx ls) (fun ind => pick ind ls)). rewrite <- map_app.
      apply Permutation_map. apply diag_then_rest.
      + apply diag_NoDup. exact Hnil.
      + apply iproduct_NoDup. intros r Hr. apply in_map_iff in Hr. destruct Hr as [p [<- _]]. apply seq_NoDup.
      + intros i Hi. apply in_map_iff in Hi. destruct Hi as [j [<- _]]. apply diag_in_product. exact Hne.
      + intros i. rewrite app_nil_r. rewrite <- in_rev. reflexivity.
  Qed.

  (* lazy_product yields each tuple of the cartesian product exactly once, in some order *)
  Theorem lazy_product_exact : forall ls, Permutation (lazy_product ls) (cartesian ls).
  Proof.
    intros [|a [|c r]].
    - apply Permutation_refl.
    - unfold lazy_product. rewrite cartesian_single. apply Permutation_refl.
    - destruct (lazy_general (a :: c :: r)) as [H|H]; [exact H | discriminate].
  Qed.

  Lemma cartesian_In ls t : In t (cartesian ls) <-> Forall2 (fun x L => In x L) t ls.
  Proof.
    revert t. induction ls as [|L ls IH]; intros t; cbn [cartesian].
    - split.
      + intros [<-|[]]. constructor.
      + intros H. inversion H. left; reflexivity.
    - rewrite in_flat_map. split.
      + intros [x [Hx H]]. apply in_map_iff in H. destruct H as [u [<- Hu]]. constructor; [exact Hx | apply IH; exact Hu].
      + intros H. inversion H as [|x L' u ls' Hx Hu]; subst. exists x. split; [exact Hx|]. apply in_map. apply IH. exact Hu.
  Qed.

  Theorem lazy_product_In : forall ls t, In t (lazy_product ls) <-> Forall2 (fun x L => In x L) t ls.
  Proof.
    intros ls t. rewrite <- cartesian_In. split; apply Permutation_in; [|apply Permutation_sym]; apply lazy_product_exact.
  Qed.

  Lemma cartesian_empty_iff ls : cartesian ls = [] <-> exists L, In L ls /\ L = [].
  Proof.
    split; [|apply cartesian_nil].
    induction ls as [|L ls IH]; cbn [cartesian]; [discriminate|].
    intros H. destruct L as [|x L]; [exists []; split; [left|]; reflexivity|].
    cbn [flat_map] in H. apply app_eq_nil in H. destruct H as [H _].
    destruct (cartesian ls); [|discriminate]. destruct IH as [L' [Hin HL']]; [reflexivity|].
    exists L'. split; [right; exact Hin | exact HL'].
  Qed.

  (* nothing is yielded iff one of the arguments is empty *)
  Theorem lazy_product_empty_iff : forall ls, lazy_product ls = [] <-> exists L, In L ls /\ L = [].
  Proof.
    intros ls. rewrite <- cartesian_empty_iff. pose proof (lazy_product_exact ls) as P. split; intros H.
    - rewrite H in P. apply Permutation_nil in P. exact P.
    - rewrite H in P. apply Permutation_sym, Permutation_nil in P. exact P.
  Qed.

  Lemma cartesian_NoDup ls : (forall L, In L ls -> NoDup L) -> NoDup (cartesian ls).
  Proof.
    induction ls as [|L ls IH]; intros H; cbn [cartesian].
    - constructor; [intros []|constructor].
    - assert (HL : NoDup L) by (apply H; left; reflexivity).
      assert (Hc : NoDup (cartesian ls)) by (apply IH; intros; apply H; right; assumption).
      clear H IH. induction L as [|x L IHL]; [constructor|].
      cbn [flat_map]. inversion HL as [|? ? Hni HL']; subst.
      apply NoDup_app_intro.
      + apply FinFun.Injective_map_NoDup; [intros u v E; congruence | exact Hc].
      + apply IHL. exact HL'.
      + intros t H1 H2. apply in_map_iff in H1. destruct H1 as [t1 [<- _]].
        apply in_flat_map in H2. destruct H2 as [y [Hy H2]]. apply in_map_iff in H2. destruct H2 as [t2 [E _]].
        injection E as -> _. contradiction.
  Qed.

  (* no tuple twice when no argument holds an element twice *)
  Theorem lazy_product_NoDup : forall ls, (forall L, In L ls -> NoDup L) -> NoDup (lazy_product ls).
  Proof.
    intros ls H. apply (Permutation_NoDup (Permutation_sym (lazy_product_exact ls))). apply cartesian_NoDup. exact H.
  Qed.
End LP.
