(* C13 -- the freshness invariant for the patch step of Standardize (outside a transaction): the order of ONE bond object and the
   charge of one atom change; the two ends are recalculated; every other atom keeps its environment because no other slot holds
   that bond object (inj). *)
From Coq Require Import ZArith List Bool Lia.
From Model Require Import PyBase Cache.
From Proofs Require Import CacheProofs CacheWf CacheCopy CacheCoh CacheWorld CacheUnion CacheTheorems CacheUsable CacheExamples CacheTxn
  CacheFresh CacheFreshOps CacheFreshWorld CacheInj CacheInjOps.
Import ListNotations.
Open Scope Z_scope.

Lemma recalc_fresh ns h o : inv1 h o -> (forall n, In n ns -> In n (keys (o_atoms o))) ->
  exists h' o', (calc_labels ;; calc_implicit_all ns ;; fix_stereo) h o = (h', o', None) /\
    o_changed o' = o_changed o /\ o_backup o' = o_backup o /\ (forall n, lenvn h' o' n = lenvn h o n) /\ bondsOK h' o' /\
    atoms_rel (fun n a a' => labOK h' o' n a' /\ (In n ns -> hydOK h' o' n a') /\ (~ In n ns -> a_hyd a' = a_hyd a)) o o'.
Proof.
  intros I Sub. destruct (calc_labels_fresh h o I) as [h3 [o3 [E3 [I3 [C3 [B3 [Ls3 [Bo3 R3]]]]]]]].
  assert (forall n, In n ns -> In n (keys (o_atoms o3))) as Sub3.
  { intros n Hn. specialize (R3 n). apply Sub in Hn. apply keys_In_zget in Hn. destruct Hn as [a Ha].
    destruct (zget (o_atoms o3) n) eqn:E; [eapply zget_In_keys; eauto | congruence]. }
  destruct (calc_implicit_all_total ns h3 o3 I3 Sub3) as [h4 [o4 [E4 I4]]].
  destruct (calc_implicit_all_fresh ns h3 o3 h4 o4 None E4 eq_refl) as [-> [A4 [Bk4 [Ch4 R4]]]].
  assert (forall x, lenvn h3 o4 x = lenvn h o x) as Ls4.
  { intros x. rewrite (lenvn_soft h3 o3 h3 o4 A4 (fun _ => eq_refl) (atoms_rel_anum _ _ _ R4)). apply Ls3. }
  exists h3, (set_cache o4 (fst (read_key 5 (view_of h3 o4) (o_cache o4) (Kplain 0)))). unfold seq. rewrite E3, E4. unfold fix_stereo, read, ok.
  split; [reflexivity|]. split; [simpo; congruence|]. split; [simpo; congruence|]. split; [exact Ls4|]. split.
  - intros r Hr. simpo. rewrite A4 in Hr. now apply Bo3.
  - intros x. simpo. specialize (R4 x). destruct (zget (o_atoms o4) x) as [a4|].
    + destruct R4 as [a3 [E3' [K4 [L4 [I4' N4]]]]]. specialize (R3 x). rewrite E3' in R3. destruct R3 as [a [E0 [K3 [H3 [l [La Lb]]]]]].
      exists a. split; [exact E0|]. split; [congruence|]. split; [|split].
      * exists l. split; [change (lenvn h3 o4 x = Ok l); rewrite Ls4, <- Ls3; exact La | congruence].
      * intros Hi. destruct (I4' Hi) as [l' [La' Lb']]. exists l'. split; [change (lenvn h3 o4 x = Ok l'); rewrite Ls4, <- Ls3; exact La' | now rewrite Lb', K4].
      * intros Hn. rewrite (N4 Hn). exact H3.
    + specialize (R3 x). rewrite R4 in R3. exact R3.
Qed.
Lemma seq_ci2 n m (X : act) h o : (calc_implicit n ;; calc_implicit m ;; X) h o = (calc_implicit_all [n; m] ;; X) h o.
Proof.
  cbn [calc_implicit_all]. unfold seq. destruct (calc_implicit n h o) as [[h1 o1] [e|]]; [reflexivity|].
  destruct (calc_implicit m h1 o1) as [[h2 o2] [e|]]; reflexivity.
Qed.
Lemma seq_ci1 n (X : act) h o : (calc_implicit n ;; X) h o = (calc_implicit_all [n] ;; X) h o.
Proof. cbn [calc_implicit_all]. unfold seq. destruct (calc_implicit n h o) as [[h1 o1] [e|]]; reflexivity. Qed.
Lemma seq_cl (A B : act) h o : (calc_labels ;; A) h o = (calc_labels ;; B) h o -> True.
Proof. auto. Qed.

(* after the structural part of the patch: everything but the atoms of ns has its stored count current; then the recalculation *)
Lemma patch_finish ns h o : inv1 h o -> o_backup o = None -> o_changed o = None ->
  (forall n, In n ns -> In n (keys (o_atoms o))) ->
  (forall x a, zget (o_atoms o) x = Some a -> In x ns \/ hydOK h o x a) ->
  match (calc_labels ;; calc_implicit_all ns ;; fix_stereo) h o with (h', o', _) => Fr h' o' end.
Proof.
  intros I B C Sub H. destruct (recalc_fresh ns h o I Sub) as [h' [o' [E [C' [B' [Ls [Bo R]]]]]]]. rewrite E.
  apply Fr_of_OK; [congruence | congruence | exact Bo|]. intros x a' Ha'. specialize (R x). rewrite Ha' in R.
  destruct R as [a [Ha [Kc [Lb [Hin Hout]]]]]. split; [|exact Lb]. destruct (in_dec Z.eq_dec x ns) as [Hi|Hi]; [now apply Hin|].
  destruct (H x a Ha) as [Hx|[l [E1 E2]]]; [contradiction|]. exists l. split; [now rewrite Ls|]. rewrite (Hout Hi), Kc. exact E2.
Qed.

Lemma patch_frop n m bo dch h o : inv1 h o -> Fr h o -> inj (o_adj o) -> o_backup o = None ->
  match patch n m bo dch h o with (h', o', _) => Fr h' o' end.
Proof.
  intros I F J B. destruct (Fr_settled h o F B) as [C [Bo OK]]. pose proof I as [Wf Cw]. unfold patch.
  destruct (Z.eqb_spec n m) as [|D]; [exact F|].
  destruct (zget (o_atoms o) n) as [an|] eqn:Ean; [|exact F]. destruct (zget (o_atoms o) m) as [am|] eqn:Eam; [|exact F].
  destruct (zget (o_adj o) n) as [rn|] eqn:Ern; [|exact F]. destruct (zget (o_adj o) m) as [rm|] eqn:Erm; [|exact F]. cbv zeta.
  assert (In n (keys (o_atoms o)) /\ In m (keys (o_atoms o))) as [Kn Km] by (split; eapply zget_In_keys; eauto).
  destruct (_ >? 4).
  { (* bad charge: nothing changed *)
    unfold seq at 1. unfold flush at 1, ok. cbn beta iota. set (o0 := set_cache o _).
    rewrite <- seq_assoc. rewrite seq_assoc. 
    assert ((calc_labels ;; calc_implicit n ;; fix_stereo) h o0 = (calc_labels ;; calc_implicit_all [n] ;; fix_stereo) h o0) as ->.
    { unfold seq at 1 3. destruct (calc_labels h o0) as [[h1 o1] [e|]]; [reflexivity | apply seq_ci1]. }
    apply patch_finish; [eapply inv1_same; eauto | exact B | exact C | intros x [<-|[]]; exact Kn|].
    intros x a Ha. right. destruct (OK x a Ha) as [[l [X1 X2]] _]. exists l. split; [exact X1 | exact X2]. }
  set (o1 := set_atoms o _).
  assert (forall mm, option_map anum (zget (o_atoms o1) mm) = option_map anum (zget (o_atoms o) mm)) as An.
  { intros mm. unfold o1; simpo. eapply anum_zset; eauto. }
  assert (forall x a, zget (o_atoms o1) x = Some a -> x = n \/ zget (o_atoms o) x = Some a) as At.
  { intros x a Ha. unfold o1 in Ha; simpo. rewrite zget_zset in Ha. destruct (Z.eqb_spec x n); [now left | now right]. }
  destruct (zget rn m) as [rf|] eqn:Enm.
  - (* existing bond *)
    assert (aslot (o_adj o) n m = Some rf) as Snm by (unfold aslot; now rewrite Ern).
    destruct (wf_valid _ _ _ Wf rf (aslot_arefs _ _ _ _ Snm)) as [cl Hc]. rewrite Hc.
    set (h1 := hset h rf (mkB bo (b_lab cl))). unfold seq at 1. unfold flush at 1, ok. cbn beta iota. set (o2 := set_cache o1 _).
    assert (inv1 h1 o2) as I2.
    { assert (inv1 h o2) as [W2 C2] by (eapply inv1_same; eauto; unfold o2, o1; simpo; eapply keys_zset_same; eauto).
      split; [|exact C2]. eapply wfa_heap; [exact W2 | eapply heap_le_hset; eauto]. }
    assert ((calc_labels ;; calc_implicit n ;; calc_implicit m ;; fix_stereo) h1 o2 = (calc_labels ;; calc_implicit_all [n; m] ;; fix_stereo) h1 o2) as ->.
    { unfold seq at 1 4. destruct (calc_labels h1 o2) as [[hh oo] [e|]]; [reflexivity | apply seq_ci2]. }
    apply patch_finish; [exact I2 | exact B | exact C | |].
    + unfold o2, o1; simpo. intros x [<-|[<-|[]]]; (erewrite keys_zset_same; eauto).
    + intros x a Ha. destruct (Z.eq_dec x n) as [->|Dn]; [left; now left|]. destruct (Z.eq_dec x m) as [->|Dm]; [left; right; now left|]. right.
      destruct (At x a Ha) as [|Ha0]; [contradiction|]. destruct (OK x a Ha0) as [[l [X1 X2]] _]. exists l. split; [|exact X2].
      rewrite <- X1. unfold lenvn, row. change (o_adj o2) with (o_adj o). change (o_atoms o2) with (o_atoms o1).
      destruct (zget (o_adj o) x) as [rx|] eqn:Erx; [|reflexivity]. apply lenv_ext; [|intros; apply An].
      intros y ry Hy. unfold h1. rewrite hget_hset. destruct (Z.eqb_spec ry rf) as [->|]; [|reflexivity]. exfalso.
      assert (aslot (o_adj o) x y = Some rf) as Sxy by (eapply nd_In_aslot; [apply (wf_nd _ _ _ Wf) | apply zget_In; exact Erx | exact Hy]).
      destruct (J _ _ _ _ _ Snm Sxy) as [[E _]|[E _]]; congruence.
  - (* a new bond *)
    assert (~ In n (keys rm)) as Nn.
    { intros Hi. apply keys_In_zget in Hi. destruct Hi as [r Hr]. assert (aslot (o_adj o) m n = Some r) as S by (unfold aslot; now rewrite Erm).
      apply (wf_sym _ _ _ Wf) in S. unfold aslot in S. rewrite Ern in S. congruence. }
    assert (~ In m (keys rn)) as Nm by (intros Hi; apply keys_In_zget in Hi; destruct Hi as [r Hr]; congruence).
    pose proof (put_bond_lenv n m bo rn rm h o Wf D Ern Erm Nn Nm) as PL. cbv zeta in PL.
    assert (inv1 h o1) as I1 by (eapply inv1_same; eauto; unfold o1; simpo; eapply keys_zset_same; eauto).
    pose proof (put_bond_good n m bo rn rm h o1 (conj I1 (conj D (conj Ern (conj Erm Nn))))) as G.
    unfold put_bond, halloc, ok in G. cbn beta iota in G. destruct G as [[I2 _] _].
    unfold seq at 1. unfold put_bond, halloc, ok. cbn beta iota. unfold seq at 1. unfold flush at 1, ok. cbn beta iota.
    set (h1 := mkH _ _) in *. set (o2 := set_adj o1 _) in *. set (o3 := set_cache o2 _).
    assert ((calc_labels ;; calc_implicit n ;; calc_implicit m ;; fix_stereo) h1 o3 = (calc_labels ;; calc_implicit_all [n; m] ;; fix_stereo) h1 o3) as ->.
    { unfold seq at 1 4. destruct (calc_labels h1 o3) as [[hh oo] [e|]]; [reflexivity | apply seq_ci2]. }
    apply patch_finish; [eapply inv1_same; eauto | exact B | exact C | |].
    + unfold o3, o2, o1; simpo. intros x [<-|[<-|[]]]; (erewrite keys_zset_same; eauto).
    + intros x a Ha. destruct (Z.eq_dec x n) as [->|Dn]; [left; now left|]. destruct (Z.eq_dec x m) as [->|Dm]; [left; right; now left|]. right.
      destruct (At x a Ha) as [|Ha0]; [contradiction|]. destruct (OK x a Ha0) as [[l [X1 X2]] _]. exists l. split; [|exact X2].
      rewrite <- X1. destruct (PL x) as [[_ [Hx|Hx]]|Hx]; try contradiction. rewrite <- Hx.
      unfold lenvn, row. change (o_adj o3) with (zset (zset (o_adj o) n (zset rn m (h_next h))) m (zset rm n (h_next h))).
      change (o_atoms o3) with (o_atoms o1). simpo.
      destruct (zget (zset (zset (o_adj o) n (zset rn m (h_next h))) m (zset rm n (h_next h))) x); [|reflexivity]. apply lenv_ext; [reflexivity | intros; apply An].
Qed.
