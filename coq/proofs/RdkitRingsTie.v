(* C20 round 5: the common-ring test of MoleculeStereo.ring_cumulenes_terminals, translated from the source (Gen.RdkitRegistryBody.g_ring_terminal),
   is the model Model.RdkitRings.ring_terminal, and it holds exactly when both ends are ring atoms and lie in a COMMON ring. *)
From Coq Require Import ZArith List Bool Lia.
From Model Require Import PyBase Graph PeriodicTable RdkitRegistry RdkitRings.
From Gen Require Import RdkitRegistryBody.
Import ListNotations.
Open Scope Z_scope.

Theorem tie_ring_terminal : forall ar n m, g_ring_terminal ar n m = ring_terminal ar n m.
Proof. reflexivity. Qed.

Lemma list_eqb_Z_refl (l : list Z) : list_eqb Z.eqb l l = true.
Proof. induction l as [|x r IH]; [reflexivity|]. cbn. rewrite Z.eqb_refl, IH. reflexivity. Qed.
Lemma list_eqb_Z_true a : forall b, list_eqb Z.eqb a b = true -> a = b.
Proof.
  induction a as [|x a IH]; intros [|y b] H; try discriminate; [reflexivity|].
  cbn in H. apply andb_true_iff in H as [H1 H2]. apply Z.eqb_eq in H1. subst. f_equal. apply IH. exact H2.
Qed.
Lemma zmem_iff x l : zmem x l = true <-> In x l.
Proof.
  unfold zmem. rewrite existsb_exists. split.
  - intros (y & Hy & E). apply Z.eqb_eq in E. subst. exact Hy.
  - intros H. exists x. split; [exact H|apply Z.eqb_refl].
Qed.

Theorem ring_terminal_common_ring : forall ar n m,
  ring_terminal ar n m = true <->
  In n (keys ar) /\ In m (keys ar) /\ exists r, In r (ar_get ar n) /\ In r (ar_get ar m).
Proof.
  intros ar n m. unfold ring_terminal, rings_disjoint. rewrite !andb_true_iff, negb_involutive, !zmem_iff, existsb_exists.
  split.
  - intros [[Hn Hm] (r & Hr & He)]. apply existsb_exists in He as (r' & Hr' & E). apply list_eqb_Z_true in E. subst r'.
    split; [exact Hn|]. split; [exact Hm|]. exists r. split; assumption.
  - intros (Hn & Hm & r & Hr & Hr'). split; [split; assumption|]. exists r. split; [exact Hr|].
    apply existsb_exists. exists r. split; [exact Hr'|apply list_eqb_Z_refl].
Qed.

(* a double bond joining two different rings is NOT selected (so the small-ring rule does not apply to it), an endocyclic one is *)
Example ring_terminal_examples :
  ring_terminal [(2, [[1; 2; 3; 4; 5]]); (6, [[6; 7; 8; 9; 10]])] 2 6 = false /\
  ring_terminal [(2, [[1; 2; 3; 4; 5; 6; 7; 8]]); (3, [[1; 2; 3; 4; 5; 6; 7; 8]])] 2 3 = true /\
  ring_terminal [(2, [[1; 2; 3; 4; 5]])] 2 6 = false.
Proof. vm_compute. repeat split. Qed.
