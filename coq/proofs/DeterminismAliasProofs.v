(* C19 round 4: proofs about cached values taken as working variables (Model.DeterminismAlias). *)
From Coq Require Import ZArith List String Bool Lia.
From Model Require Import Determinism DeterminismAlias.
From Gen Require Import CacheAlias.
From Proofs Require Import DeterminismProofs.
Import ListNotations.
Open Scope list_scope.

Section AliasProofs.
  Context {S K V : Type}.
  Variable keqb : K -> K -> bool.
  Hypothesis keqb_eq : forall a b, keqb a b = true <-> a = b.
  Variable base : K -> S -> V.
  Variable spec : K -> option (@derived S K V).

  Notation steps_value := (@steps_value S V).
  Notation steps_shared := (@steps_shared S V).

  (* a variable that is not bound to the cache entry never touches it, and computes the pure value *)
  Lemma steps_unshared s st : forall w entry, steps_shared s w false entry st = (steps_value s w st, entry).
  Proof.
    induction st as [|[f|keeps f] r IH]; intros w entry; cbn; [reflexivity | apply IH |].
    destruct (keeps s w); apply IH.
  Qed.

  (* in every case the VALUE of the working variable is the pure one: sharing changes only the cache entry *)
  Lemma steps_shared_value s st : forall w sh entry, fst (steps_shared s w sh entry st) = steps_value s w st.
  Proof.
    induction st as [|[f|keeps f] r IH]; intros w sh entry; cbn; [reflexivity | apply IH |].
    destruct (keeps s w); apply IH.
  Qed.

  Lemma clookup_cset (c : list (K * V)) (k : K) (v : V) : forall k' : K, clookup keqb (cset keqb c k v) k' =
    match clookup keqb c k' with Some x => Some (if keqb k k' then v else x) | None => None end.
  Proof.
    induction c as [|[k0 x] r IH]; intros k'; cbn; [reflexivity|].
    destruct (keqb k k0) eqn:E0; cbn.
    - destruct (keqb k' k0) eqn:E1; [|apply IH].
      apply keqb_eq in E1. subst k0. rewrite E0. reflexivity.
    - destruct (keqb k' k0) eqn:E1; [|apply IH].
      apply keqb_eq in E1. subst k0. rewrite E0. reflexivity.
  Qed.

  Lemma acache_ok_nil s : acache_ok keqb base spec s [].
  Proof. intros k v. cbn. discriminate. Qed.

  Lemma acache_ok_cons s c k : acache_ok keqb base spec s c -> acache_ok keqb base spec s ((k, aderive base spec k s) :: c).
  Proof.
    intros H k' v. cbn. destruct (keqb k' k) eqn:E; [|apply H].
    apply keqb_eq in E. subst k'. intros [= <-]. reflexivity.
  Qed.

  (* the discipline of the source: every derived body copies, and starts from a plain attribute *)
  Definition copies_always : Prop := forall k d, spec k = Some d -> d_copied d = true /\ spec (d_src d) = None.

  Lemma acache_ok_cset s c k v : acache_ok keqb base spec s c -> v = aderive base spec k s -> acache_ok keqb base spec s (cset keqb c k v).
  Proof.
    intros H Hv k' v'. rewrite clookup_cset. destruct (clookup keqb c k') as [x|] eqn:Ex; [|discriminate].
    intros [= <-]. destruct (keqb k k') eqn:E; [|apply H, Ex].
    apply keqb_eq in E. subst k'. exact Hv.
  Qed.

  Lemma read_plain s c k : spec k = None -> acache_ok keqb base spec s c ->
    fst (read keqb base s c k) = base k s /\ acache_ok keqb base spec s (snd (read keqb base s c k)).
  Proof.
    intros Hp H. unfold read. destruct (clookup keqb c k) as [v|] eqn:E; cbn.
    - split; [|exact H]. rewrite (H _ _ E). unfold aderive. rewrite Hp. reflexivity.
    - split; [reflexivity|]. replace (base k s) with (aderive base spec k s) by (unfold aderive; rewrite Hp; reflexivity).
      apply acache_ok_cons, H.
  Qed.

  Lemma aread_transparent (Hc : copies_always) s c k : acache_ok keqb base spec s c ->
    fst (aread keqb base spec s c k) = aderive base spec k s /\ acache_ok keqb base spec s (snd (aread keqb base spec s c k)).
  Proof.
    intros H. unfold aread. destruct (clookup keqb c k) as [v|] eqn:E; cbn.
    - split; [apply H, E | exact H].
    - destruct (spec k) as [d|] eqn:Sk.
      + destruct (Hc k d Sk) as [Hcp Hsrc].
        destruct (read_plain s c (d_src d) Hsrc H) as [Hv0 Hc1].
        destruct (read keqb base s c (d_src d)) as [v0 c1]. cbn in Hv0, Hc1. subst v0.
        rewrite Hcp. cbn. rewrite steps_unshared. cbn.
        assert (Hr : steps_value s (base (d_src d) s) (d_steps d) = aderive base spec k s) by (unfold aderive; rewrite Sk; reflexivity).
        split; [exact Hr|]. rewrite Hr. apply acache_ok_cons, acache_ok_cset; [exact Hc1|].
        unfold aderive. rewrite Hsrc. reflexivity.
      + cbn. split; [unfold aderive; rewrite Sk; reflexivity|].
        replace (base k s) with (aderive base spec k s) by (unfold aderive; rewrite Sk; reflexivity).
        apply acache_ok_cons, H.
  Qed.

  (* every history of reads (plain and derived), edits + flush and flushes returns what an uncached evaluation returns *)
  Theorem alias_copy_transparent (Hc : copies_always) : forall ops s c, acache_ok keqb base spec s c ->
    run_alias keqb base spec s c ops = run_alias_uncached base spec s ops.
  Proof.
    induction ops as [|o r IH]; intros s c H; [reflexivity|].
    destruct o as [k|f|]; cbn.
    - destruct (aread_transparent Hc s c k H) as [Hv Hk]. destruct (aread keqb base spec s c k) as [v c'].
      cbn in Hv, Hk. subst v. f_equal. apply IH, Hk.
    - apply IH, acache_ok_nil.
    - apply IH, acache_ok_nil.
  Qed.

  (* a cached object and a cache-free copy of it observe the same values *)
  Corollary alias_cached_equals_copy (Hc : copies_always) : forall ops s c, acache_ok keqb base spec s c ->
    run_alias keqb base spec s c ops = run_alias keqb base spec s [] ops.
  Proof.
    intros ops s c H. rewrite (alias_copy_transparent Hc ops s c H). symmetry. apply alias_copy_transparent; [exact Hc | apply acache_ok_nil].
  Qed.

  (* NECESSITY: a derived body that binds the cache entry itself and changes it in place is observable - read the derived attribute,
     then its source: the source now returns the rewritten object, a cache-free copy returns the clean value *)
  Theorem alias_in_place_observable : forall s k d,
    spec k = Some d -> d_copied d = false -> spec (d_src d) = None -> k <> d_src d ->
    snd (steps_shared s (base (d_src d) s) true (base (d_src d) s) (d_steps d)) <> base (d_src d) s ->
    run_alias keqb base spec s [] [ARead k; ARead (d_src d)] <> run_alias_uncached base spec s [ARead k; ARead (d_src d)].
  Proof.
    intros s k d Sk Hcp Hsrc Hne Hchg. cbn. rewrite Sk. cbn. rewrite Hcp. cbn.
    destruct (steps_shared s (base (d_src d) s) true (base (d_src d) s) (d_steps d)) as [r e] eqn:E. cbn in Hchg.
    unfold aread. cbn.
    assert (Hk1 : keqb (d_src d) k = false).
    { destruct (keqb (d_src d) k) eqn:X; [|reflexivity]. apply keqb_eq in X. congruence. }
    assert (Hrefl : keqb (d_src d) (d_src d) = true) by (apply keqb_eq; reflexivity).
    rewrite Hk1, Hrefl. cbn. rewrite Hrefl. cbn.
    intros Heq. injection Heq as _ Hs. apply Hchg. rewrite Hs. unfold aderive. rewrite Hsrc. reflexivity.
  Qed.
  (* ---- the general discipline: a body may bind the cache entry itself as long as it never updates it in place (the 46 read-only aliases
     of the audited files), or it copies (the working copy of _chiral_morgan) ---- *)
  Fixpoint no_inplace (st : list (@step S V)) : bool :=
    match st with [] => true | InPlace _ :: _ => false | Rebind _ _ :: r => no_inplace r end.

  Lemma steps_read_only s st : no_inplace st = true -> forall w sh entry, snd (steps_shared s w sh entry st) = entry.
  Proof.
    induction st as [|[f|keeps f] r IH]; intros Hn w sh entry; cbn in *; [reflexivity | discriminate |].
    destruct (keeps s w); apply IH, Hn.
  Qed.

  Definition alias_discipline : Prop := forall k d, spec k = Some d ->
    spec (d_src d) = None /\ (d_copied d = true \/ no_inplace (d_steps d) = true).

  Lemma aread_transparent_disc (Hd : alias_discipline) s c k : acache_ok keqb base spec s c ->
    fst (aread keqb base spec s c k) = aderive base spec k s /\ acache_ok keqb base spec s (snd (aread keqb base spec s c k)).
  Proof.
    intros H. unfold aread. destruct (clookup keqb c k) as [v|] eqn:E; cbn.
    - split; [apply H, E | exact H].
    - destruct (spec k) as [d|] eqn:Sk.
      + destruct (Hd k d Sk) as [Hsrc Hmode].
        destruct (read_plain s c (d_src d) Hsrc H) as [Hv0 Hc1].
        destruct (read keqb base s c (d_src d)) as [v0 c1]. cbn in Hv0, Hc1. subst v0.
        pose proof (steps_shared_value s (d_steps d) (base (d_src d) s) (negb (d_copied d)) (base (d_src d) s)) as Hval.
        assert (Hent : snd (steps_shared s (base (d_src d) s) (negb (d_copied d)) (base (d_src d) s) (d_steps d)) = base (d_src d) s).
        { destruct Hmode as [Hcp|Hro]; [rewrite Hcp; cbn; rewrite steps_unshared; reflexivity | apply steps_read_only, Hro]. }
        destruct (steps_shared s (base (d_src d) s) (negb (d_copied d)) (base (d_src d) s) (d_steps d)) as [r e]. cbn in Hval, Hent. subst r e. cbn.
        assert (Hr : steps_value s (base (d_src d) s) (d_steps d) = aderive base spec k s) by (unfold aderive; rewrite Sk; reflexivity).
        split; [exact Hr|]. rewrite Hr. apply acache_ok_cons, acache_ok_cset; [exact Hc1|].
        unfold aderive. rewrite Hsrc. reflexivity.
      + cbn. split; [unfold aderive; rewrite Sk; reflexivity|].
        replace (base k s) with (aderive base spec k s) by (unfold aderive; rewrite Sk; reflexivity).
        apply acache_ok_cons, H.
  Qed.

  Theorem alias_discipline_transparent (Hd : alias_discipline) : forall ops s c, acache_ok keqb base spec s c ->
    run_alias keqb base spec s c ops = run_alias_uncached base spec s ops.
  Proof.
    induction ops as [|o r IH]; intros s c H; [reflexivity|].
    destruct o as [k|f|]; cbn.
    - destruct (aread_transparent_disc Hd s c k H) as [Hv Hk]. destruct (aread keqb base spec s c k) as [v c'].
      cbn in Hv, Hk. subst v. f_equal. apply IH, Hk.
    - apply IH, acache_ok_nil.
    - apply IH, acache_ok_nil.
  Qed.
End AliasProofs.

(* ---- the instance regenerated from the source ---- *)

(* MoleculeStereo._chiral_morgan binds its working variable to a COPY of the cached atoms_order (source fact, regenerated) *)
Lemma chiral_morgan_start_is_copy : chiral_morgan_start = ("atoms_order"%string, true).
Proof. vm_compute. reflexivity. Qed.

Lemma string_eqb_iff : forall a b : string, String.eqb a b = true <-> a = b.
Proof. intros a b. apply String.eqb_eq. Qed.

Lemma chiral_spec_copies {S V : Type} (steps : list (@step S V)) : copies_always (chiral_spec chiral_morgan_start steps).
Proof.
  intros k d. unfold chiral_spec. destruct (String.eqb k chiral_key); [|discriminate].
  intros [= <-]. split; vm_compute; reflexivity.
Qed.

(* whatever the plain attribute bodies and the steps of _chiral_morgan compute: with the start mode of the CURRENT source every history of
   reads of _chiral_morgan, atoms_order and any other attribute, edits and flushes returns what a cache-free copy returns *)
Theorem chiral_morgan_transparent {S V : Type} (base : string -> S -> V) (steps : list (@step S V)) : forall ops s,
  run_alias String.eqb base (chiral_spec chiral_morgan_start steps) s [] ops =
  run_alias_uncached base (chiral_spec chiral_morgan_start steps) s ops.
Proof.
  intros ops s. apply (alias_copy_transparent String.eqb string_eqb_iff base _ (chiral_spec_copies steps)). apply acache_ok_nil.
Qed.

(* no function of the audited files updates a cached value in place through a name bound to it (source fact, regenerated);
   the one working variable that IS updated in place is a copy *)
Lemma no_mutated_aliases : mutated_aliases = [].
Proof. vm_compute. reflexivity. Qed.

Lemma read_only_aliases_exist : read_only_aliases <> [].
Proof. vm_compute. discriminate. Qed.

Lemma chiral_morgan_is_a_working_copy :
  In ("chython/algorithms/stereo.py", "MoleculeStereo._chiral_morgan", "morgan", "atoms_order")%string working_copies.
Proof. vm_compute. left. reflexivity. Qed.

(* ---- the witness: the same body WITHOUT the copy (the faithful model of `morgan = self.atoms_order`) ---- *)
Open Scope Z_scope.
(* cis-1,3-dimethylcyclobutane-like ranks: the two stereo centres 2 and 4 share rank 1; the body negates the first half of the group,
   then re-ranks (here: a new dict with the ranks made positive and distinct - any rebinding function does) *)
Definition ex_ranks : list (Z * Z) := [(2, 1); (4, 1); (1, 2); (5, 2); (3, 3); (6, 3)].
Definition ex_base (k : string) (_ : unit) : list (Z * Z) := if String.eqb k "atoms_order" then ex_ranks else [].
Definition ex_steps : list (@step unit (list (Z * Z))) :=
  [Rebind (fun _ _ => true) (fun _ w => w);                                (* __differentiation found nothing to update: the same object *)
   InPlace (fun _ w => negate_seq (halves [[2; 4]]) w);                        (* morgan[n] = -morgan[n] for half of the group *)
   Rebind (fun _ _ => false) (fun _ w => map (fun kv => (fst kv, Z.abs (snd kv) * 2 + (if snd kv <? 0 then 0 else 1))) w)].

Lemma alias_without_copy_refuted :
  run_alias String.eqb ex_base (chiral_spec ("atoms_order"%string, false) ex_steps) tt [] [ARead chiral_key; ARead "atoms_order"%string]
  <> run_alias_uncached ex_base (chiral_spec ("atoms_order"%string, false) ex_steps) tt [ARead chiral_key; ARead "atoms_order"%string]
  /\ nth 1 (run_alias String.eqb ex_base (chiral_spec ("atoms_order"%string, false) ex_steps) tt [] [ARead chiral_key; ARead "atoms_order"%string]) []
     = [(2, -1); (4, 1); (1, 2); (5, 2); (3, 3); (6, 3)].
Proof. split; [vm_compute; discriminate | vm_compute; reflexivity]. Qed.

(* the same history with the copy: clean *)
Lemma alias_with_copy_example :
  run_alias String.eqb ex_base (chiral_spec chiral_morgan_start ex_steps) tt [] [ARead chiral_key; ARead "atoms_order"%string; ARead chiral_key]
  = [[(2, 2); (4, 3); (1, 5); (5, 5); (3, 7); (6, 7)]; ex_ranks; [(2, 2); (4, 3); (1, 5); (5, 5); (3, 7); (6, 7)]].
Proof. vm_compute. reflexivity. Qed.
Close Scope Z_scope.

(* ---- the in-place part of _chiral_morgan: the statement-by-statement translation of the source (Gen.CacheAlias.chiral_inplace) is the
   hand-written step `negate the ranks of the first half of every group, group list after group list` ---- *)
Open Scope Z_scope.
Lemma fold_half_groups {X : Type} (f : list (Z * Z) -> X -> list (Z * Z)) (gs : list (list X)) : forall w,
  fold_left (fun w g => fold_left f (firstn (Nat.div (List.length g) 2) g) w) gs w = fold_left f (halves gs) w.
Proof.
  induction gs as [|g r IH]; intros w; cbn; [reflexivity|].
  unfold halves in *. cbn. rewrite fold_left_app. apply IH.
Qed.

Lemma fold_fst_pairs {X : Type} (l : list (Z * X)) : forall w,
  fold_left (fun (w : list (Z * Z)) (p : Z * X) => let '(n, _) := p in negate_one w n) l w = fold_left negate_one (map fst l) w.
Proof. induction l as [|[n m] r IH]; intros w; cbn; [reflexivity | apply IH]. Qed.

Lemma grp_plain (gs : list (list Z)) (w : list (Z * Z)) :
  fold_left (fun morgan group => fold_left (fun morgan n => map (fun kv : Z * Z => if Z.eqb (fst kv) n then (fst kv, Z.opp (snd kv)) else kv) morgan)
                 (firstn (Nat.div (List.length group) 2) group) morgan) gs w = fold_left negate_one (halves gs) w.
Proof. exact (fold_half_groups negate_one gs w). Qed.

Lemma grp_pairs {X : Type} (gs : list (list (Z * X))) (w : list (Z * Z)) :
  fold_left (fun morgan group => fold_left (fun morgan '((n, _) : Z * X) => map (fun kv : Z * Z => if Z.eqb (fst kv) n then (fst kv, Z.opp (snd kv)) else kv) morgan)
                 (firstn (Nat.div (List.length group) 2) group) morgan) gs w = fold_left negate_one (map fst (halves gs)) w.
Proof.
  etransitivity; [exact (fold_half_groups (fun (w : list (Z * Z)) (p : Z * X) => let '(n, _) := p in negate_one w n) gs w)|].
  apply fold_fst_pairs.
Qed.

Theorem chiral_inplace_is_model : forall (X : Type) ag (cg : list (list (Z * X))) lg w,
  chiral_inplace ag cg lg w = negate_seq (halves ag ++ map fst (halves cg) ++ halves lg) w.
Proof.
  intros X ag cg lg w. unfold chiral_inplace, negate_seq. cbv zeta.
  rewrite !fold_left_app. rewrite grp_plain, grp_pairs, grp_plain. reflexivity.
Qed.

(* e.g. one group of two tetrahedrons (2, 4) and one group of two double bonds ((7, 8), (9, 10)): atoms 2 and 7 change sign *)
Lemma chiral_inplace_example :
  chiral_inplace [[2; 4]] [[(7, 8); (9, 10)]] [[5]] [(2, 1); (4, 1); (7, 3); (9, 3); (5, 6)] = [(2, -1); (4, 1); (7, -3); (9, 3); (5, 6)].
Proof. vm_compute. reflexivity. Qed.
Close Scope Z_scope.
