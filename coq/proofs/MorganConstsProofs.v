(* C01: the constants, tuple layouts and key expressions that Model.Morgan / Model.ChiralMorgan copy from the source, regenerated from
   /repo on every run (Gen.MorganConsts, tools/gen_morganconsts.py), are the ones the models use.  A source edit that the models do
   not follow changes the generated file and breaks this file. *)
From Coq Require Import ZArith List String Bool.
From Gen Require Import MorganConsts.
From Model Require Import PyBase PyHash Graph Morgan.
Import ListNotations.
Open Scope Z_scope.

(* the loop of _morgan with the GENERATED constants is the model's loop *)
Lemma refine_uses_source_constants (h : list Z -> Z) (adj : iadj) (k : nat) (atoms : labels) (numb stab : Z) :
  refine h adj (S k) atoms numb stab =
  if closed atoms adj then
    let atoms' := round h atoms adj in
    let numb' := ndistinct (map snd atoms') in
    if numb' =? Z.of_nat (List.length atoms') then Ok atoms'
    else if numb' =? numb then (if stab =? msrc_stab_limit then Ok atoms' else refine h adj k atoms' numb' (stab + msrc_stab_step))
    else if negb (stab =? msrc_stab_init) then refine h adj k atoms' numb' msrc_stab_init
    else refine h adj k atoms' numb' stab
  else Err KeyError.
Proof. reflexivity. Qed.
Lemma morgan_labels_uses_source_constants (h : list Z -> Z) (atoms : labels) (adj : iadj) :
  morgan_labels h atoms adj =
  refine h adj (Z.to_nat (Z.of_nat (List.length atoms) - msrc_tries_offset)) atoms (ndistinct (map snd atoms)) msrc_stab_init.
Proof. reflexivity. Qed.
Lemma dense_rank_uses_source_constants (atoms : labels) :
  dense_rank atoms = match isort by_label atoms with [] => [] | nv :: r => (fst nv, msrc_rank_start) :: rank_walk (snd nv) msrc_rank_start r end.
Proof. reflexivity. Qed.

Open Scope string_scope.
(* the shapes the hand models were written against (field order of the hashed tuples, branch order of the loop, the reference choices
   `key=morgan.get` of __differentiation, the flip-half slices of _chiral_morgan): equal to what the source says now *)
Theorem source_constants_match_model :
  (forall h adj k atoms numb stab, refine h adj (S k) atoms numb stab =
     if closed atoms adj then
       let atoms' := round h atoms adj in
       let numb' := ndistinct (map snd atoms') in
       if (numb' =? Z.of_nat (List.length atoms'))%Z then Ok atoms'
       else if (numb' =? numb)%Z then (if (stab =? msrc_stab_limit)%Z then Ok atoms' else refine h adj k atoms' numb' (stab + msrc_stab_step)%Z)
       else if negb (stab =? msrc_stab_init)%Z then refine h adj k atoms' numb' msrc_stab_init
       else refine h adj k atoms' numb' stab
     else Err KeyError) /\
  (forall h atoms adj, morgan_labels h atoms adj =
     refine h adj (Z.to_nat (Z.of_nat (List.length atoms) - msrc_tries_offset)) atoms (ndistinct (map snd atoms)) msrc_stab_init) /\
  (forall atoms, dense_rank atoms =
     match isort by_label atoms with [] => [] | nv :: r => (fst nv, msrc_rank_start) :: rank_walk (snd nv) msrc_rank_start r end) /\
  msrc_branch_tests = ["numb == len(atoms)"; "numb == old_numb"; "stab"] /\
  msrc_round_stmt = "atoms = {n: hash((atoms[n], *(x for x in sorted(((atoms[m], b) for m, b in ms.items())) for x in x))) for n, ms in bonds.items()}" /\
  msrc_counters_stmt = "old_numb, numb = (numb, len(set(atoms.values())))" /\
  msrc_rank_expr = "{n: i for i, (_, g) in enumerate(groupby(sorted(atoms.items(), key=itemgetter(1)), key=itemgetter(1)), start=1) for n, _ in g}" /\
  msrc_atoms_order_returns = ["_morgan({n: hash(a) for n, a in self.atoms()}, self.int_adjacency)"; "{}"; "dict.fromkeys(self, 1)"] /\
  msrc_int_adjacency_returns = ["{n: {m: hash(b) for m, b in mb.items()} for n, mb in self._bonds.items()}"] /\
  msrc_atom_hash_fields = ["self.isotope or 0"; "self.atomic_number"; "self.charge"; "self.is_radical"; "self.implicit_hydrogens or 0"; "self.in_ring"] /\
  msrc_bond_hash_expr = "self.order" /\
  msrc_diff_reference_choices = ["sorted(tetrahedrons[n], key=morgan.get)"; "min(n1, n2, key=morgan.get)"; "min(m1, m2, key=morgan.get)";
                                 "min(n1, n2, key=morgan.get)"; "min(m1, m2, key=morgan.get)"] /\
  msrc_diff_tests = ["atoms_stereo"; "not len(group) % 2"; "len((env := tetrahedrons[group[0]])) == len({morgan[x] for x in env})";
                     "0 < len(s) < len(group)"; "cis_trans_stereo"; "(mn := morgan[n]) <= (mm := morgan[m])"; "not len(group) % 2";
                     "morgan[n1] != morgan.get(n2, 0) and morgan[m1] != morgan.get(m2, 0)"; "n2 is None"; "m2 is None";
                     "translate_cis_trans(n, m, a, b)"; "0 < len(s) < len(group)"; "allenes_stereo"; "not len(group) % 2";
                     "morgan[n1] != morgan.get(n2, 0) and morgan[m1] != morgan.get(m2, 0)"; "n2 is None"; "m2 is None";
                     "translate_allene(c, a, b)"; "0 < len(s) < len(group)"; "not morgan_update"] /\
  msrc_chiral_loops = ["for group in atoms_groups"; "for n in group[:len(group) // 2]"; "for group in cis_trans_groups";
                       "for (n, _) in group[:len(group) // 2]"; "for group in allenes_groups"; "for n in group[:len(group) // 2]"] /\
  msrc_chiral_assigns =
    ["stereo_atoms = {n for n, a in self.atoms() if a.stereo is not None}";
     "stereo_bonds = {n for n, mb in self._bonds.items() if any((b.stereo is not None for m, b in mb.items()))}";
     "morgan = self.atoms_order.copy()"; "atoms_stereo = stereo_atoms.intersection(self.tetrahedrons)";
     "allenes_stereo = stereo_atoms - atoms_stereo"; "cis_trans_terminals = self._stereo_cis_trans_terminals";
     "cis_trans_stereo = {cis_trans_terminals[n] for n in stereo_bonds}";
     "morgan, atoms_stereo, cis_trans_stereo, allenes_stereo, atoms_groups, cis_trans_groups, allenes_groups = self.__differentiation(morgan, atoms_stereo, cis_trans_stereo, allenes_stereo)";
     "morgan[n] = -morgan[n]"; "morgan[n] = -morgan[n]"; "morgan[n] = -morgan[n]"; "morgan = _morgan(morgan, self.int_adjacency)"].
Proof. repeat split; reflexivity. Qed.
