(* C10: the graph part of the molecule level round trip.
   - the well-formedness predicate pack_ok and the facts it gives
   - the pure description of what pack writes (forward bonds in first-encounter order)
   - functional characterisation of pack_nbrs / pack_atoms
   - the counting lemma: the number of written bond orders is half the sum of the neighbour counts
   - the reader invariant for take_nbrs / build_adj. *)
From Coq Require Import ZArith List Bool Lia ZifyBool Permutation.
From Model Require Import PyBase Pack PackSpec.
From Gen Require Import Elements.
From Proofs Require Import PackBits PackRoundtrip.
Import ListNotations.
Open Scope Z_scope.

(* ================================================================================================ *)
(* neighbours, forward bonds *)

(* --- Prop versions --- *)
Lemma nodup_z_NoDup l : nodup_z l = true -> NoDup l.
Proof.
  induction l as [|x l IH]; intros H; [constructor|].
  cbn [nodup_z] in H. apply andb_true_iff in H. destruct H as [H1 H2]. constructor; [|apply IH; exact H2].
  intros Hin. apply zmem_In in Hin. rewrite Hin in H1. discriminate.
Qed.

Lemma zmem_false_not_In x l : zmem x l = false <-> ~ In x l.
Proof.
  split; intros H.
  - intros Hin. apply zmem_In in Hin. congruence.
  - destruct (zmem x l) eqn:E; [|reflexivity]. apply zmem_In in E. contradiction.
Qed.

Lemma zget_In {V} (d : list (Z * V)) k v : zget d k = Some v -> In (k, v) d.
Proof.
  induction d as [|[k' v'] d IH]; cbn [zget]; intros H; [discriminate|].
  destruct (k =? k') eqn:E.
  - apply Z.eqb_eq in E. injection H as H. subst. left. reflexivity.
  - right. apply IH. exact H.
Qed.

Lemma zget_NoDup {V} (d : list (Z * V)) k v : NoDup (map fst d) -> In (k, v) d -> zget d k = Some v.
Proof.
  induction d as [|[k' v'] d IH]; intros Hnd Hin; [contradiction|].
  cbn [map fst] in Hnd. inversion Hnd as [|? ? Hni Hnd']; subst. cbn [zget].
  destruct Hin as [Hin|Hin].
  - injection Hin as ? ?. subst. rewrite Z.eqb_refl. reflexivity.
  - destruct (k =? k') eqn:E.
    + apply Z.eqb_eq in E. subst k'. exfalso. apply Hni. apply (in_map fst) in Hin. exact Hin.
    + apply IH; assumption.
Qed.

Lemma find_atom_spec atoms n b : find_atom atoms n = Some b -> In b atoms /\ pa_n b = n.
Proof.
  unfold find_atom. intros H. apply find_some in H. destruct H as [H1 H2]. apply Z.eqb_eq in H2. split; assumption.
Qed.

Lemma NoDup_map_inj {A B} (f : A -> B) (l : list A) x y :
  NoDup (map f l) -> In x l -> In y l -> f x = f y -> x = y.
Proof.
  induction l as [|z l IH]; intros Hnd Hx Hy E; [contradiction|].
  cbn [map] in Hnd. inversion Hnd as [|? ? Hni Hnd']; subst.
  destruct Hx as [Hx|Hx], Hy as [Hy|Hy]; subst.
  - reflexivity.
  - exfalso. apply Hni. rewrite E. apply in_map. exact Hy.
  - exfalso. apply Hni. rewrite <- E. apply in_map. exact Hx.
  - apply IH; assumption.
Qed.

(* the graph facts used by the proofs *)
Record graph_wf (atoms : list patom) : Prop := mkGraphWf {
  gw_atoms : Forall (fun a => atom_ok a = true /\ 1 <= pa_n a) atoms;
  gw_nodup : NoDup (map pa_n atoms);
  gw_nbr_nodup : forall a, In a atoms -> NoDup (map nb_m (pa_nbrs a));
  gw_noloop : forall a x, In a atoms -> In x (pa_nbrs a) -> nb_m x <> pa_n a;
  gw_order : forall a x, In a atoms -> In x (pa_nbrs a) -> order_ok (nb_ord x) = true;
  gw_sym : forall a x, In a atoms -> In x (pa_nbrs a) ->
             exists b s, In b atoms /\ pa_n b = nb_m x /\ In (pa_n a, (nb_ord x, s)) (pa_nbrs b)
}.

Lemma pack_ok_graph_wf m : pack_ok m = true -> graph_wf (pm_atoms m).
Proof.
  unfold pack_ok. cbv zeta. intros H. split_andb.
  repeat match goal with K : forallb _ _ = true |- _ => rewrite forallb_forall in K end.
  match goal with K : nodup_z _ = true |- _ => apply nodup_z_NoDup in K end.
  assert (Hadj : forall a, In a (pm_atoms m) -> adj_ok (pm_atoms m) a = true) by assumption.
  assert (Hn : forall a x, In a (pm_atoms m) -> In x (pa_nbrs a) -> nbr_ok (pm_atoms m) a x = true).
  { intros a x Ha Hx. specialize (Hadj a Ha). unfold adj_ok in Hadj. apply andb_true_iff in Hadj. destruct Hadj as [_ Hf].
    rewrite forallb_forall in Hf. apply Hf. exact Hx. }
  constructor.
  - apply Forall_forall. intros a Ha. split; [auto|].
    match goal with K : forall x, In x _ -> (1 <=? pa_n x) = true |- _ => specialize (K a Ha); lia end.
  - assumption.
  - intros a Ha. specialize (Hadj a Ha). unfold adj_ok in Hadj. apply andb_true_iff in Hadj. destruct Hadj as [Hd _].
    apply nodup_z_NoDup. exact Hd.
  - intros a x Ha Hx. specialize (Hn a x Ha Hx). unfold nbr_ok in Hn. split_andb. lia.
  - intros a x Ha Hx. specialize (Hn a x Ha Hx). unfold nbr_ok in Hn. split_andb. assumption.
  - intros a x Ha Hx. specialize (Hn a x Ha Hx). unfold nbr_ok in Hn. split_andb.
    destruct (find_atom (pm_atoms m) (nb_m x)) as [b|] eqn:Ef; [|discriminate].
    apply find_atom_spec in Ef. destruct Ef as [Hb Hbn].
    destruct (zget (pa_nbrs b) (pa_n a)) as [[o' s]|] eqn:Eg; [|discriminate].
    apply zget_In in Eg. exists b, s. repeat split; try assumption.
    match goal with K : (o' =? _) = true |- _ => apply Z.eqb_eq in K; subst o' end. exact Eg.
Qed.

Lemma order_ok_code o : order_ok o = true -> 0 <= o - 1 < 8.
Proof. unfold order_ok. intros H. lia. Qed.

Lemma graph_wf_num a atoms : graph_wf atoms -> In a atoms -> 1 <= pa_n a < 4096 /\ atom_ok a = true.
Proof.
  intros W Ha. pose proof (gw_atoms _ W) as F. rewrite Forall_forall in F. destruct (F a Ha) as [Hok H1].
  split; [|exact Hok]. unfold atom_ok in Hok. split_andb. lia.
Qed.

Lemma graph_wf_nbr_num atoms a x : graph_wf atoms -> In a atoms -> In x (pa_nbrs a) -> 1 <= nb_m x < 4096.
Proof.
  intros W Ha Hx. destruct (gw_sym _ W a x Ha Hx) as [b [s [Hb [Hbn _]]]]. rewrite <- Hbn.
  apply (graph_wf_num b atoms W Hb).
Qed.

(* ================================================================================================ *)
(* functional characterisation of the writer *)

Lemma cfold_cons st m r :
  cfold st (m :: r) = (fst (cfold (fst (conn_step st m)) r), snd (conn_step st m) ++ snd (cfold (fst (conn_step st m)) r)).
Proof. cbn [cfold]. destruct (conn_step st m) as [st1 out]. cbn [fst snd]. destruct (cfold st1 r). reflexivity. Qed.

Lemma ofold_cons st o r :
  ofold st (o :: r) = (fst (ofold (fst (order_step st o)) r), snd (order_step st o) ++ snd (ofold (fst (order_step st o)) r)).
Proof. cbn [ofold]. destruct (order_step st o) as [st1 out]. cbn [fst snd]. destruct (ofold st1 r). reflexivity. Qed.

Definition terminals_for (terminals : list (Z * (Z * Z))) (n : Z) : Prop :=
  exists tn tm, zget terminals n = Some (tn, tm) /\ num_ok tn /\ num_ok tm.

Lemma fwd_orders_cons n (x : nbr) l :
  fwd_orders (map (pair n) (x :: l)) = (nb_ord x - 1) :: fwd_orders (map (pair n) l).
Proof. reflexivity. Qed.

Lemma fwd_ct_cons terminals n (x : nbr) l :
  fwd_ct terminals (map (pair n) (x :: l)) =
  match nb_st x, zget terminals n with Some v, Some (tn, tm) => [(tn, tm, v)] | _, _ => [] end
  ++ fwd_ct terminals (map (pair n) l).
Proof. reflexivity. Qed.

Lemma pack_nbrs_spec terminals n : forall nb st,
  Forall (fun x => num_ok (nb_m x) /\ 0 <= nb_ord x - 1 < 8) nb ->
  (existsb is_labelled nb = true -> terminals_for terminals n) ->
  let F := map (pair n) (fwd_nbrs (ps_seen st) nb) in
  pack_nbrs terminals n nb st =
  Ok (mkPState (ps_seen st) (fst (cfold (ps_conn st) (map nb_m nb))) (fst (ofold (ps_ord st) (fwd_orders F)))
               (ps_atoms st) (ps_cbytes st ++ snd (cfold (ps_conn st) (map nb_m nb)))
               (ps_obytes st ++ snd (ofold (ps_ord st) (fwd_orders F)))
               (ps_tbytes st ++ flat_map ct_record (fwd_ct terminals F))).
Proof.
  induction nb as [|[m [ord bst]] nb IH]; intros st HF HT.
  - cbn. rewrite !app_nil_r. destruct st; reflexivity.
  - inversion HF as [|? ? [Hm Ho] HF']; subst. cbn [nb_m nb_ord fst snd] in Hm, Ho.
    assert (HT' : existsb is_labelled nb = true -> terminals_for terminals n).
    { intros E. apply HT. cbn [existsb]. rewrite E. apply orb_true_r. }
    cbn [pack_nbrs]. rewrite (surjective_pairing (conn_step (ps_conn st) m)).
    cbn [ps_seen ps_conn ps_ord ps_atoms ps_cbytes ps_obytes ps_tbytes].
    unfold num_ok in Hm. rewrite (u16_small m) by lia.
    cbn [map nb_m fst]. rewrite cfold_cons. cbn [fst snd].
    unfold fwd_nbrs. cbn [filter nb_m fst].
    destruct (zmem m (ps_seen st)) eqn:Eseen; cbn [negb].
    + rewrite IH by assumption. cbn [ps_seen ps_conn ps_ord ps_atoms ps_cbytes ps_obytes ps_tbytes].
      unfold fwd_nbrs. rewrite <- !app_assoc. reflexivity.
    + rewrite (surjective_pairing (order_step (ps_ord st) (u8 (ord - 1)))).
      cbn [ps_seen ps_conn ps_ord ps_atoms ps_cbytes ps_obytes ps_tbytes].
      rewrite (u8_small (ord - 1)) by lia.
      rewrite fwd_orders_cons, fwd_ct_cons. cbn [nb_ord nb_st fst snd]. rewrite ofold_cons. cbn [fst snd].
      destruct bst as [v|].
      * destruct (HT ltac:(reflexivity)) as [tn [tm [Hz [Htn Htm]]]].
        rewrite (ct_bytes_record terminals n v tn tm Hz Htn Htm).
        rewrite IH by assumption. cbn [ps_seen ps_conn ps_ord ps_atoms ps_cbytes ps_obytes ps_tbytes].
        unfold fwd_nbrs. rewrite Hz. cbn [app flat_map].
        rewrite <- !app_assoc. reflexivity.
      * rewrite IH by assumption. cbn [ps_seen ps_conn ps_ord ps_atoms ps_cbytes ps_obytes ps_tbytes].
        unfold fwd_nbrs. cbn [app].
        rewrite <- !app_assoc. reflexivity.
Qed.

Lemma cfold_app_fst st l1 l2 : fst (cfold st (l1 ++ l2)) = fst (cfold (fst (cfold st l1)) l2).
Proof. rewrite cfold_app. destruct (cfold st l1) as [st1 o1]. cbn [fst]. destruct (cfold st1 l2). reflexivity. Qed.
Lemma cfold_app_snd st l1 l2 : snd (cfold st (l1 ++ l2)) = snd (cfold st l1) ++ snd (cfold (fst (cfold st l1)) l2).
Proof. rewrite cfold_app. destruct (cfold st l1) as [st1 o1]. cbn [fst snd]. destruct (cfold st1 l2). reflexivity. Qed.
Lemma ofold_app_fst st l1 l2 : fst (ofold st (l1 ++ l2)) = fst (ofold (fst (ofold st l1)) l2).
Proof. rewrite ofold_app. destruct (ofold st l1) as [st1 o1]. cbn [fst]. destruct (ofold st1 l2). reflexivity. Qed.
Lemma ofold_app_snd st l1 l2 : snd (ofold st (l1 ++ l2)) = snd (ofold st l1) ++ snd (ofold (fst (ofold st l1)) l2).
Proof. rewrite ofold_app. destruct (ofold st l1) as [st1 o1]. cbn [fst snd]. destruct (ofold st1 l2). reflexivity. Qed.

Lemma fwd_orders_app f1 f2 : fwd_orders (f1 ++ f2) = fwd_orders f1 ++ fwd_orders f2.
Proof. apply map_app. Qed.
Lemma fwd_ct_app terminals f1 f2 : fwd_ct terminals (f1 ++ f2) = fwd_ct terminals f1 ++ fwd_ct terminals f2.
Proof. apply flat_map_app. Qed.

(* what the writer needs of one atom *)
Definition atom_pre (terminals : list (Z * (Z * Z))) (a : patom) : Prop :=
  0 <= pa_n a < 4096 /\
  Forall (fun x => num_ok (nb_m x) /\ 0 <= nb_ord x - 1 < 8) (pa_nbrs a) /\
  (existsb is_labelled (pa_nbrs a) = true -> terminals_for terminals (pa_n a)).

Lemma pack_atoms_spec terminals : forall atoms st,
  Forall (atom_pre terminals) atoms ->
  let F := mol_fwd (ps_seen st) atoms in
  pack_atoms terminals atoms st =
  Ok (mkPState (rev (map pa_n atoms) ++ ps_seen st)
               (fst (cfold (ps_conn st) (mol_conns atoms))) (fst (ofold (ps_ord st) (fwd_orders F)))
               (ps_atoms st ++ atoms_block atoms)
               (ps_cbytes st ++ snd (cfold (ps_conn st) (mol_conns atoms)))
               (ps_obytes st ++ snd (ofold (ps_ord st) (fwd_orders F)))
               (ps_tbytes st ++ flat_map ct_record (fwd_ct terminals F))).
Proof.
  induction atoms as [|a r IH]; intros st HF.
  - cbn. rewrite !app_nil_r. destruct st; reflexivity.
  - inversion HF as [|? ? [Hn [Hnb Ht]] HF']; subst.
    cbn [pack_atoms]. rewrite (u16_small (pa_n a)) by lia.
    rewrite pack_nbrs_spec by assumption.
    cbn [ps_seen ps_conn ps_ord ps_atoms ps_cbytes ps_obytes ps_tbytes].
    rewrite IH by assumption.
    cbn [ps_seen ps_conn ps_ord ps_atoms ps_cbytes ps_obytes ps_tbytes].
    cbn [mol_fwd mol_conns flat_map map rev atoms_block].
    rewrite fwd_orders_app, fwd_ct_app, flat_map_app.
    rewrite cfold_app_fst, cfold_app_snd, ofold_app_fst, ofold_app_snd.
    rewrite <- !app_assoc. reflexivity.
Qed.

(* ================================================================================================ *)
(* counting: every bond is met once forward and once backward, so the number of written orders is half the sum of the
   neighbour counts.  Potential function: half-edges from visited atoms to unvisited ones. *)

Definition open_cnt (seen : list Z) (done : list patom) : nat :=
  length (flat_map (fun b => fwd_nbrs seen (pa_nbrs b)) done).

Lemma zmem_cons x n l : zmem x (n :: l) = (x =? n) || zmem x l.
Proof. reflexivity. Qed.

Lemma fwd_nbrs_cons_seen n seen (l : list nbr) : NoDup (map nb_m l) -> ~ In n seen ->
  (length (fwd_nbrs (n :: seen) l) + (if zmem n (map nb_m l) then 1 else 0) = length (fwd_nbrs seen l))%nat.
Proof.
  intros Hnd Hn. induction l as [|x l IH]; [reflexivity|].
  cbn [map] in Hnd. inversion Hnd as [|? ? Hni Hnd']; subst. specialize (IH Hnd').
  unfold fwd_nbrs in *. cbn [filter map]. rewrite (zmem_cons (nb_m x) n seen), (zmem_cons n (nb_m x) (map nb_m l)).
  rewrite (Z.eqb_sym n (nb_m x)).
  destruct (nb_m x =? n) eqn:E; cbn [orb negb].
  - apply Z.eqb_eq in E. rewrite <- E in *.
    apply zmem_false_not_In in Hn. rewrite Hn. cbn [negb length].
    apply zmem_false_not_In in Hni. rewrite Hni in IH. lia.
  - destruct (zmem (nb_m x) seen); cbn [negb length]; lia.
Qed.

Lemma open_cnt_cons_seen n seen done :
  (forall b, In b done -> NoDup (map nb_m (pa_nbrs b))) -> ~ In n seen ->
  (open_cnt (n :: seen) done + length (filter (fun b => zmem n (map nb_m (pa_nbrs b))) done) = open_cnt seen done)%nat.
Proof.
  intros Hnd Hn. unfold open_cnt. induction done as [|b done IH]; [reflexivity|].
  cbn [flat_map filter]. rewrite !app_length.
  pose proof (fwd_nbrs_cons_seen n seen (pa_nbrs b) (Hnd b (or_introl eq_refl)) Hn) as K.
  specialize (IH (fun b' H => Hnd b' (or_intror H))).
  destruct (zmem n (map nb_m (pa_nbrs b))); cbn [length]; lia.
Qed.

Lemma filter_split_length {A} (f : A -> bool) (l : list A) :
  (length (filter f l) + length (filter (fun x => negb (f x)) l) = length l)%nat.
Proof. induction l as [|x l IH]; [reflexivity|]. cbn [filter]. destruct (f x); cbn [negb length]; lia. Qed.

Lemma filter_map_length {A B} (f : A -> B) (p : B -> bool) (l : list A) :
  length (filter (fun x => p (f x)) l) = length (filter p (map f l)).
Proof. induction l as [|x l IH]; [reflexivity|]. cbn [filter map]. destruct (p (f x)); cbn [length]; rewrite IH; reflexivity. Qed.

Lemma NoDup_map_filter {A B} (f : A -> B) (p : A -> bool) (l : list A) : NoDup (map f l) -> NoDup (map f (filter p l)).
Proof.
  induction l as [|x l IH]; intros H; [constructor|].
  cbn [map] in H. inversion H as [|? ? Hni Hnd]; subst. cbn [filter]. destruct (p x); [|apply IH; exact Hnd].
  cbn [map]. constructor; [|apply IH; exact Hnd].
  intros Hin. apply Hni. apply in_map_iff in Hin. destruct Hin as [y [Hy Hin]]. apply filter_In in Hin.
  apply in_map_iff. exists y. split; [exact Hy | apply Hin].
Qed.

Lemma NoDup_app_l {A} (l l' : list A) : NoDup (l ++ l') -> NoDup l.
Proof.
  induction l as [|x l IH]; intros H; [constructor|].
  cbn [app] in H. inversion H as [|? ? Hni Hnd]; subst. constructor; [|apply IH; exact Hnd].
  intros Hin. apply Hni. apply in_or_app. left. exact Hin.
Qed.

Lemma flat_map_all_nil {A B} (f : A -> list B) (l : list A) : (forall x, In x l -> f x = []) -> flat_map f l = [].
Proof.
  induction l as [|x l IH]; intros H; [reflexivity|]. cbn [flat_map]. rewrite (H x (or_introl eq_refl)).
  apply IH. intros y Hy. apply H. right. exact Hy.
Qed.

Lemma filter_all_false {A} (f : A -> bool) (l : list A) : (forall x, In x l -> f x = false) -> filter f l = [].
Proof.
  induction l as [|x l IH]; intros H; [reflexivity|]. cbn [filter]. rewrite (H x (or_introl eq_refl)).
  apply IH. intros y Hy. apply H. right. exact Hy.
Qed.

Section Counting.
  Variable atoms : list patom.
  Hypothesis W : graph_wf atoms.

  (* back connections of atom a = visited atoms that list a *)
  Lemma back_count done a r seen : atoms = done ++ a :: r ->
    (forall x, In x seen <-> In x (map pa_n done)) ->
    length (filter (fun x => zmem (nb_m x) seen) (pa_nbrs a)) =
    length (filter (fun b => zmem (pa_n a) (map nb_m (pa_nbrs b))) done).
  Proof.
    intros Hat Hseen.
    assert (Ha : In a atoms) by (rewrite Hat; apply in_or_app; right; left; reflexivity).
    assert (Hdone : forall b, In b done -> In b atoms) by (intros b Hb; rewrite Hat; apply in_or_app; left; exact Hb).
    rewrite (filter_map_length nb_m (fun m => zmem m seen)).
    rewrite <- (map_length pa_n (filter _ done)).
    apply Permutation_length. apply NoDup_Permutation.
    - apply NoDup_filter. apply (gw_nbr_nodup _ W a Ha).
    - apply NoDup_map_filter. pose proof (gw_nodup _ W) as Hnd. rewrite Hat, map_app in Hnd.
      apply NoDup_app_l in Hnd. exact Hnd.
    - intros x. split.
      + intros Hx. apply filter_In in Hx. destruct Hx as [Hx Hs]. apply zmem_In in Hs. apply Hseen in Hs. apply in_map_iff in Hs. destruct Hs as [b [Hbn Hb]].
        apply in_map_iff in Hx. destruct Hx as [e [He Hein]].
        destruct (gw_sym _ W a e Ha Hein) as [b' [s [Hb' [Hbn' Hin']]]].
        assert (b' = b).
        { apply (NoDup_map_inj pa_n atoms); [apply (gw_nodup _ W) | exact Hb' | apply Hdone; exact Hb | congruence]. }
        subst b'. apply in_map_iff. exists b. split; [exact Hbn|]. apply filter_In. split; [exact Hb|].
        apply zmem_In. apply in_map_iff. exists (pa_n a, (nb_ord e, s)). split; [reflexivity | exact Hin'].
      + intros Hx. apply in_map_iff in Hx. destruct Hx as [b [Hbn Hb]]. apply filter_In in Hb. destruct Hb as [Hb Hz]. apply zmem_In in Hz.
        apply in_map_iff in Hz. destruct Hz as [e [He Hein]].
        destruct (gw_sym _ W b e (Hdone b Hb) Hein) as [a' [s [Ha' [Han' Hin']]]].
        assert (a' = a).
        { apply (NoDup_map_inj pa_n atoms); [apply (gw_nodup _ W) | exact Ha' | exact Ha | congruence]. }
        subst a'. apply filter_In. split.
        * apply in_map_iff. exists (pa_n b, (nb_ord e, s)). split; [exact Hbn | exact Hin'].
        * apply zmem_In. apply Hseen. apply in_map_iff. exists b. split; [exact Hbn | exact Hb].
  Qed.

  Lemma count_step done a r seen : atoms = done ++ a :: r ->
    (forall x, In x seen <-> In x (map pa_n done)) ->
    (length (pa_nbrs a) + open_cnt (pa_n a :: seen) (done ++ [a]) =
     2 * length (fwd_nbrs (pa_n a :: seen) (pa_nbrs a)) + open_cnt seen done)%nat.
  Proof.
    intros Hat Hseen.
    assert (Ha : In a atoms) by (rewrite Hat; apply in_or_app; right; left; reflexivity).
    assert (Hdone : forall b, In b done -> In b atoms) by (intros b Hb; rewrite Hat; apply in_or_app; left; exact Hb).
    assert (Hn : ~ In (pa_n a) seen).
    { intros Hin. apply Hseen in Hin. pose proof (gw_nodup _ W) as Hnd. rewrite Hat, map_app in Hnd. cbn [map] in Hnd.
      apply NoDup_remove_2 in Hnd. apply Hnd. apply in_or_app. left. exact Hin. }
    pose proof (open_cnt_cons_seen (pa_n a) seen done (fun b Hb => gw_nbr_nodup _ W b (Hdone b Hb)) Hn) as K1.
    pose proof (back_count done a r seen Hat Hseen) as K2.
    pose proof (filter_split_length (fun x => zmem (nb_m x) (pa_n a :: seen)) (pa_nbrs a)) as K3.
    assert (K4 : filter (fun x => zmem (nb_m x) (pa_n a :: seen)) (pa_nbrs a) = filter (fun x => zmem (nb_m x) seen) (pa_nbrs a)).
    { apply filter_ext_in. intros x Hx. rewrite zmem_cons.
      pose proof (gw_noloop _ W a x Ha Hx) as Hl. destruct (nb_m x =? pa_n a) eqn:E; [lia | reflexivity]. }
    rewrite K4 in K3. fold (fwd_nbrs (pa_n a :: seen) (pa_nbrs a)) in K3.
    unfold open_cnt at 1. rewrite flat_map_app, app_length. cbn [flat_map]. rewrite app_nil_r.
    fold (open_cnt (pa_n a :: seen) done).
    unfold nbr in *. lia.
  Qed.

  Lemma count_inv : forall todo done seen, atoms = done ++ todo ->
    (forall x, In x seen <-> In x (map pa_n done)) ->
    (length (mol_conns todo) + open_cnt (rev (map pa_n todo) ++ seen) (done ++ todo) =
     2 * length (mol_fwd seen todo) + open_cnt seen done)%nat.
  Proof.
    induction todo as [|a r IH]; intros done seen Hat Hseen.
    - cbn. rewrite app_nil_r. reflexivity.
    - assert (Hseen' : forall x, In x (pa_n a :: seen) <-> In x (map pa_n (done ++ [a]))).
      { intros x. rewrite map_app, in_app_iff. cbn [map In]. rewrite Hseen. tauto. }
      assert (Hat' : atoms = (done ++ [a]) ++ r) by (rewrite <- app_assoc; exact Hat).
      specialize (IH (done ++ [a]) (pa_n a :: seen) Hat' Hseen').
      pose proof (count_step done a r seen Hat Hseen) as K.
      cbn [mol_conns flat_map mol_fwd map rev]. rewrite !app_length, !map_length.
      fold (mol_conns r). rewrite <- app_assoc in IH. rewrite <- app_assoc. cbn [app] in *. unfold nbr in *. lia.
  Qed.

  Theorem conns_twice_fwd : length (mol_conns atoms) = (2 * length (mol_fwd [] atoms))%nat.
  Proof.
    pose proof (count_inv atoms [] [] eq_refl ltac:(intros x; cbn; tauto)) as K.
    cbn [app] in K. rewrite app_nil_r in K.
    assert (Z : open_cnt (rev (map pa_n atoms)) atoms = 0%nat).
    { unfold open_cnt. apply length_zero_iff_nil. apply flat_map_all_nil. intros b Hb. unfold fwd_nbrs.
      apply filter_all_false. intros x Hx. destruct (gw_sym _ W b x Hb Hx) as [c [s [Hc [Hcn _]]]].
      apply negb_false_iff. apply zmem_In. apply -> in_rev. rewrite <- Hcn. apply in_map. exact Hc. }
    unfold open_cnt at 2 in K. cbn [flat_map length] in K. lia.
  Qed.
End Counting.
