(* C16 (extension 2): the one_shot=False queue of Reactor.__call__ yields nothing twice and only what a chain of single
   stages reaches *)
From Coq Require Import ZArith List Bool Lia.
From Model Require Import PyBase ReactorStage ReactorQueue.
Import ListNotations.

Section QueueProofs.
  Variables (M K : Type).
  Variable key_eqb : K -> K -> bool.
  Variable stage : list M -> list M -> list (list M) * option pyexn.
  Variable finish : list M -> list M -> list M.
  Variable key : list M -> K.
  Variable operms : list M -> list (list M).
  Variables n_patterns n_products limit : nat.
  Hypothesis key_eqb_spec : forall a b, key_eqb a b = true <-> a = b.
  Variable init : list (item M).

  Local Notation reach := (reach M stage finish operms n_patterns limit init).
  Local Notation yielded_from := (yielded_from M stage finish operms n_patterns limit init).
  Local Notation expand := (expand M operms n_patterns).
  Local Notation step_new := (step_new M K key_eqb finish key operms n_patterns n_products limit).
  Local Notation run := (run M K key_eqb stage finish key operms n_patterns n_products limit).

  Lemma existsb_key_In k seen : existsb (key_eqb k) seen = true <-> In k seen.
  Proof.
    rewrite existsb_exists. split.
    - intros (x & Hx & E). apply key_eqb_spec in E. subst. exact Hx.
    - intros H. exists k. split; [exact H|]. apply key_eqb_spec. reflexivity.
  Qed.

  Lemma NoDup_snoc_gen {A} (l : list A) k : NoDup l -> ~ In k l -> NoDup (l ++ [k]).
  Proof.
    induction 1 as [|x l Hx Hnd IH]; intros Hk; cbn; [constructor; [intros []|constructor]|].
    constructor.
    - intros Hin. apply in_app_or in Hin. destruct Hin as [Hin|[<-|[]]]; [contradiction|]. apply Hk. left. reflexivity.
    - apply IH. intros Hin. apply Hk. right. exact Hin.
  Qed.

  Lemma NoDup_app_gen {A} (l l' : list A) : NoDup l -> NoDup l' -> (forall x, In x l -> ~ In x l') -> NoDup (l ++ l').
  Proof.
    induction 1 as [|x l Hx Hnd IH]; intros Hl' Hdis; cbn; [exact Hl'|]. constructor.
    - intros Hin. apply in_app_or in Hin. destruct Hin as [Hin|Hin]; [contradiction|]. apply (Hdis x); [left; reflexivity|exact Hin].
    - apply IH; [exact Hl'|]. intros y Hy. apply Hdis. right. exact Hy.
  Qed.

  (* every item `expand` appends carries the given depth *)
  Lemma expand_depth chosen prod depth it : In it (expand chosen prod depth) -> exists ch ign, it = (ch, ign, depth).
  Proof.
    unfold ReactorQueue.expand. destruct (Nat.eqb n_patterns 1).
    - intros H. apply in_map_iff in H. destruct H as (ip & <- & _). eexists _, _. reflexivity.
    - intros H. apply in_flat_map in H. destruct H as (chp & _ & H). apply in_flat_map in H. destruct H as (ip & _ & H).
      apply in_map_iff in H. destruct H as (ch & <- & _). eexists _, _. reflexivity.
  Qed.

  Section OneItem.
    Variables (chosen ignored : list M) (d0 : nat) (seen0 : list K).
    Hypothesis Hreach : reach (chosen, ignored, d0).

    Definition AInv (a : acc M K) : Prop :=
      NoDup (map key (a_yields M K a)) /\
      (forall k, In k (a_seen M K a) <-> In k seen0 \/ In k (map key (a_yields M K a))) /\
      (forall y, In y (a_yields M K a) -> ~ In (key y) seen0) /\
      Forall yielded_from (a_yields M K a) /\
      (forall it, In it (a_items M K a) -> reach it).

    Lemma step_new_inv a new : AInv a -> In new (fst (stage chosen ignored)) -> AInv (step_new chosen ignored (S d0) a new).
    Proof.
      intros (I1 & I2 & I3 & I4 & I5) Hnew. unfold ReactorQueue.step_new.
      set (prods := finish new ignored). set (k := key prods).
      destruct (existsb (key_eqb k) (a_seen M K a)) eqn:Es; [exact (conj I1 (conj I2 (conj I3 (conj I4 I5))))|].
      assert (Hk : ~ In k (a_seen M K a)) by (intros H; apply existsb_key_In in H; congruence).
      assert (Hk0 : ~ In k seen0) by (intros H; apply Hk; apply I2; left; exact H).
      assert (Hky : ~ In k (map key (a_yields M K a))) by (intros H; apply Hk; apply I2; right; exact H).
      assert (Hyf : yielded_from prods) by (exists chosen, ignored, d0, new; auto).
      assert (J1 : NoDup (map key (a_yields M K a ++ [prods]))) by (rewrite map_app; apply NoDup_snoc_gen; assumption).
      assert (J2 : forall k', In k' (k :: a_seen M K a) <-> In k' seen0 \/ In k' (map key (a_yields M K a ++ [prods]))).
      { intros k'. rewrite map_app, in_app_iff. cbn. rewrite I2. fold k. tauto. }
      assert (J3 : forall y, In y (a_yields M K a ++ [prods]) -> ~ In (key y) seen0).
      { intros y Hy. apply in_app_or in Hy. destruct Hy as [Hy|[<-|[]]]; [apply I3; exact Hy|exact Hk0]. }
      assert (J4 : Forall yielded_from (a_yields M K a ++ [prods])) by (apply Forall_app; split; [exact I4|constructor; [exact Hyf|constructor]]).
      destruct (Nat.ltb 1 (length new) && negb (Nat.eqb (length prods) (length ignored + n_products))).
      - unfold AInv. cbn [a_seen a_items a_yields]. auto.
      - unfold AInv. cbn [a_seen a_items a_yields]. split; [exact J1|]. split; [exact J2|]. split; [exact J3|]. split; [exact J4|].
        destruct (Nat.ltb (S d0) limit) eqn:El; [|exact I5].
        intros it Hit. apply in_app_or in Hit. destruct Hit as [Hit|Hit]; [apply I5; exact Hit|].
        destruct (expand_depth _ _ _ _ Hit) as (ch' & ign' & ->).
        apply (reach_step M stage finish operms n_patterns limit init chosen ignored d0 new ch' ign' Hreach Hnew); [|exact Hit].
        apply Nat.ltb_lt. exact El.
    Qed.

    Lemma fold_step_inv : forall news a, AInv a -> (forall new, In new news -> In new (fst (stage chosen ignored))) ->
      AInv (fold_left (step_new chosen ignored (S d0)) news a).
    Proof.
      induction news as [|new news IH]; intros a HI Hn; cbn [fold_left]; [exact HI|].
      apply IH; [apply step_new_inv; [exact HI|apply Hn; left; reflexivity]|]. intros n Hin. apply Hn. right. exact Hin.
    Qed.
  End OneItem.

  Theorem run_sound : forall fuel queue seen ys e ok,
    run fuel queue seen = (ys, e, ok) -> (forall it, In it queue -> reach it) ->
    NoDup (map key ys) /\ (forall y, In y ys -> ~ In (key y) seen) /\ Forall yielded_from ys.
  Proof.
    induction fuel as [|f IH]; intros queue seen ys e ok H Hq; cbn [ReactorQueue.run] in H.
    - inversion H; subst. split; [constructor|]. split; [intros y []|constructor].
    - destruct queue as [|[[chosen ignored] d] rest].
      + inversion H; subst. split; [constructor|]. split; [intros y []|constructor].
      + destruct (stage chosen ignored) as [news ex] eqn:Est.
        set (a := fold_left (step_new chosen ignored (S d)) news (mkAcc M K seen [] [])) in *.
        assert (HA : AInv seen a).
        { apply (fold_step_inv chosen ignored d seen); [apply Hq; left; reflexivity| |rewrite Est; auto].
          unfold AInv. cbn. split; [constructor|]. split; [intros k; tauto|]. split; [intros y []|]. split; [constructor|intros it []]. }
        destruct HA as (A1 & A2 & A3 & A4 & A5).
        destruct ex as [exn|].
        * inversion H; subst. auto.
        * destruct (run f (rest ++ a_items M K a) (a_seen M K a)) as [[ys' e'] ok'] eqn:Er. inversion H; subst ys e ok. clear H.
          destruct (IH _ _ _ _ _ Er) as (R1 & R2 & R3).
          { intros it Hit. apply in_app_or in Hit. destruct Hit as [Hit|Hit]; [apply Hq; right; exact Hit|apply A5; exact Hit]. }
          split; [|split].
          -- rewrite map_app. apply NoDup_app_gen; [exact A1|exact R1|].
             intros k Hk Hk'. apply in_map_iff in Hk'. destruct Hk' as (y' & Ek & Hy'). apply (R2 y' Hy').
             apply A2. right. rewrite Ek. exact Hk.
          -- intros y Hy. apply in_app_or in Hy. destruct Hy as [Hy|Hy]; [apply A3; exact Hy|].
             intros Hs. apply (R2 y Hy). apply A2. left. exact Hs.
          -- apply Forall_app. split; assumption.
  Qed.
End QueueProofs.

(* Reactor.__call__(one_shot=False): nothing is yielded twice, and everything yielded is the result of one single stage
   applied to an item reached from the initial choices by a chain of single stages (whatever the fuel) *)
Theorem exhaustive_sound : forall (M K : Type) (key_eqb : K -> K -> bool) stage finish (key : list M -> K) operms
    n_patterns n_products limit,
  (forall a b, key_eqb a b = true <-> a = b) ->
  forall structures fuel ys e ok,
    exhaustive M K key_eqb stage finish key operms n_patterns n_products limit structures fuel = (ys, e, ok) ->
    NoDup (map key ys) /\
    Forall (yielded_from M stage finish operms n_patterns limit (init_queue M n_patterns structures)) ys.
Proof.
  intros M K key_eqb stage finish key operms n_patterns n_products limit Hk structures fuel ys e ok H.
  unfold exhaustive in H.
  destruct (run_sound M K key_eqb stage finish key operms n_patterns n_products limit Hk (init_queue M n_patterns structures)
              fuel _ _ _ _ _ H) as (R1 & _ & R3).
  - intros it Hit. apply reach_init. exact Hit.
  - split; assumption.
Qed.

(* non-vacuity: tokens; 1 -> 3 -> 4 by single stages, 2 a spectator; polymerise_limit 3 *)
Definition q_stage (chosen ignored : list Z) : list (list Z) * option pyexn :=
  match chosen with [1%Z] => ([[3%Z]], None) | [3%Z] => ([[4%Z]], None) | _ => ([], None) end.

Example exhaustive_example :
  exhaustive Z (list Z) zl_eqb q_stage (fun new ign => new ++ ign) (fun p => p) (fun ms => [ms]) 1 1 3 [1%Z; 2%Z] 50
    = ([[3; 2]; [4; 2]]%Z, None, true) /\
  (forall a b, zl_eqb a b = true <-> a = b).
Proof.
  split; [vm_compute; reflexivity|]. intros a b. unfold zl_eqb. split.
  - revert b. induction a as [|x a IH]; intros [|y b]; cbn; try discriminate; [reflexivity|].
    intros H. apply andb_prop in H. destruct H as [H1 H2]. apply Z.eqb_eq in H1. subst. f_equal. apply IH. exact H2.
  - intros ->. induction b as [|y b IH]; cbn; [reflexivity|]. rewrite Z.eqb_refl. exact IH.
Qed.
