(* C07 round 4: the body of the inner loop of lazy_product (chython/_functions.py) is TRANSLATED from the source on every run
   (tools/gen_isolazy.py -> Gen.IsoLazy.g_lp_step; the skeleton around it is compared with the expected source text); the hand-written
   pass Model.Iso.lp_for over the factors is proved equal to the fold of the generated step, so lazy_product_exact / _In / _NoDup /
   _empty_iff speak about the translated body. *)
From Coq Require Import List Bool Arith Lia.
From Model Require Import PyBase Iso.
From Gen Require Import IsoLazy.
Import ListNotations.

Section Tie.
  Context {X : Type}.

  Fixpoint lp_for_gen (nargs : nat) (fs : list (@fac X)) (reached : nat) : @for_res X :=
    match fs with
    | [] => RDone [] [] [] reached
    | f :: r =>
        match g_lp_step nargs (f_pool f) (f_gen f) (f_empty f) reached with
        | LpReturn => RReturn
        | LpIndexError => RIndexError
        | LpBreak => RBreak (map f_pool (f :: r))
        | LpNext out ind p g e reached' =>
            match lp_for_gen nargs r reached' with
            | RDone outs inds fs' rr => RDone (out :: outs) (ind :: inds) (mkFac p g e :: fs') rr
            | RBreak ps => RBreak (p :: ps)
            | RReturn => RReturn
            | RIndexError => RIndexError
            end
        end
    end.

  Lemma last_opt_cons (x : X) l : exists y, last_opt (x :: l) = Some y.
  Proof. revert x. induction l as [|z l IH]; intros x; [exists x; reflexivity|]. destruct (IH z) as (y & E). exists y. exact E. Qed.

  Theorem lp_for_generated : forall nargs fs reached, lp_for nargs fs reached = lp_for_gen nargs fs reached.
  Proof.
    intros nargs fs. induction fs as [|[p g e] r IH]; intros reached; [reflexivity|].
    cbn [lp_for lp_for_gen f_pool f_gen f_empty]. unfold g_lp_step.
    destruct e.
    - destruct (last_opt p) as [o|]; [|reflexivity]. rewrite IH. reflexivity.
    - destruct g as [|x g].
      + destruct p as [|y p]; [reflexivity|]. destruct (last_opt_cons y p) as (o & E). rewrite E. cbn [is_nil].
        destruct (S reached =? nargs)%nat; [reflexivity|]. rewrite IH. reflexivity.
      + rewrite IH. reflexivity.
  Qed.
End Tie.
