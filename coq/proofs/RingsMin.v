(* C06 -- extension round: minimality of mcb_ref reduced to Horton's property.
   If every simple cycle of g is a GF(2) sum of candidates that are not longer than itself, then mcb_ref g has minimum total
   size among ALL cycle bases of g.  (The algebraic half of Horton's theorem; the metric half - that breadth-first candidates
   have this property - is not proved.) *)
From Coq Require Import ZArith List Bool Lia Permutation Sorted.
From Model Require Import PyBase Graph Rings.
From Proofs Require Import RingsProofs RingsMcb RingsRank RingsExt RingsDim RingsFund.
Import ListNotations.
Open Scope Z_scope.

Local Notation rv := ring_vec.

(* combinations of vectors that lie in a span lie in it *)
Lemma comb_in_span ys xs : (forall x, In x xs -> span ys x) -> forall sel,
  exists c, length c = length ys /\ forall i, comb_bit sel xs i = comb_bit c ys i.
Proof.
  induction xs as [|x xs IH]; intros H sel.
  - exists (repeat false (length ys)). split; [apply repeat_length|]. intros i. rewrite comb_bit_falses. destruct sel; reflexivity.
  - destruct sel as [|s sel]; [exists (repeat false (length ys)); split; [apply repeat_length | intros i; rewrite comb_bit_falses; reflexivity]|].
    destruct (IH (fun y Hy => H y (or_intror Hy)) sel) as [c [Lc Hc]]. destruct (H x (or_introl eq_refl)) as [cx [Lx Hx]].
    destruct s.
    + exists (xsel cx c). split; [rewrite xsel_length; lia|]. intros i. cbn [comb_bit]. rewrite andb_true_l, comb_bit_xsel by lia. rewrite Hx, Hc. reflexivity.
    + exists c. split; [exact Lc|]. intros i. cbn [comb_bit]. rewrite andb_false_l, xorb_false_l. apply Hc.
Qed.

Lemma span_trans ys xs w : (forall x, In x xs -> span ys x) -> span xs w -> span ys w.
Proof.
  intros H [sel [L Hw]]. destruct (comb_in_span ys xs H sel) as [c [Lc Hc]]. exists c. split; [exact Lc|]. intros i. rewrite Hw. apply Hc.
Qed.

(* Horton's property of a graph: every simple cycle is a sum of candidates none of which is longer *)
Definition small_span (g : graph) (c : ring) : Prop :=
  span (map (rv g) (filter (le_len (length c)) (sort_by_len (mcb_candidates g)))) (rv g c).
Definition horton_property (g : graph) : Prop := forall c, is_cycle g c -> small_span g c.

(* counting below a threshold, for families that are only SPANNED by not-longer candidates *)
Lemma threshold_count_spanned g cands T L :
  StronglySorted (fun a b : ring => (length a <= length b)%nat) cands ->
  (forall t, In t T -> span (map (rv g) (filter (le_len (length t)) cands)) (rv g t)) ->
  ~ dependent (map (rv g) T) ->
  (length (filter (le_len L) T) <= length (filter (le_len L) (greedy g [] cands (length cands))))%nat.
Proof.
  intros Hs Hsp Hd.
  rewrite <- (map_length (rv g) (filter (le_len L) T)), <- (map_length (rv g) (filter (le_len L) (greedy g [] cands (length cands)))).
  apply steinitz.
  - intros t Ht. apply in_map_iff in Ht. destruct Ht as [r [Er Hr]]. subst t. apply filter_In in Hr. destruct Hr as [Hr Lr].
    apply (span_trans _ (map (rv g) (filter (le_len (length r)) cands))); [|apply Hsp; exact Hr].
    intros x Hx. apply in_map_iff in Hx. destruct Hx as [c [Ec Hc]]. subst x. apply filter_In in Hc. destruct Hc as [Hc Lc].
    apply (span_filter_mono (rv g) (le_len (length c)) (le_len L)).
    + intros y Hy. unfold le_len in *. apply Nat.leb_le in Hy, Lr, Lc. apply Nat.leb_le. lia.
    + apply (greedy_span_sorted g cands [] [] (length cands) (le_n _)); [intros p b [] | intros d c0 [] | exact Hs | exact Hc].
  - intros D. apply Hd. apply (dependent_filter (rv g) (le_len L) T D).
Qed.

Theorem greedy_min_weight_spanned g cands need T :
  StronglySorted (fun a b : ring => (length a <= length b)%nat) cands ->
  (forall t, In t T -> span (map (rv g) (filter (le_len (length t)) cands)) (rv g t)) ->
  ~ dependent (map (rv g) T) ->
  length T = length (greedy g [] cands need) ->
  total_size (greedy g [] cands need) <= total_size T.
Proof.
  intros Hs Hsp Hd HL. set (Ginf := greedy g [] cands (length cands)).
  assert (EG : greedy g [] cands need = firstn (length T) Ginf).
  { rewrite HL. rewrite (greedy_firstn g cands [] need (length cands) (le_n _)). fold Ginf.
    rewrite firstn_length. destruct (Nat.le_gt_cases need (length Ginf)) as [Le|Gt].
    - rewrite Nat.min_l by exact Le. reflexivity.
    - rewrite Nat.min_r by lia. rewrite !firstn_all2 by lia. reflexivity. }
  rewrite EG, !total_size_nsum. apply inj_le. rewrite <- firstn_map.
  replace (length T) with (length (map (@length Z) T)) by apply map_length.
  apply dominate_sum.
  - apply sorted_map_length. apply greedy_sorted. exact Hs.
  - intros L. rewrite !cnt_map_length. apply (threshold_count_spanned g cands T L Hs Hsp Hd).
Qed.

(* minimality of mcb_ref among ALL cycle bases, PARTIAL: under Horton's property of the graph *)
Theorem mcb_ref_minimum_partial g : gwf g -> horton_property g ->
  forall rs, is_cycle_basis g rs = true -> total_size (mcb_ref g) <= total_size rs.
Proof.
  intros W HP rs H. pose proof (basis_checker_sound g rs H) as [_ [C _]]. rewrite Forall_forall in C.
  unfold mcb_ref. apply greedy_min_weight_spanned.
  - apply sort_by_len_sorted.
  - intros t Ht. apply (HP t (C t Ht)).
  - apply (accepted_independent g rs H).
  - fold (mcb_ref g). apply (accepted_same_length g rs H).
Qed.

(* a candidate has the property trivially *)
Lemma candidate_small_span g c : In c (mcb_candidates g) -> small_span g c.
Proof.
  intros H. unfold small_span. assert (Hf : In c (filter (le_len (length c)) (sort_by_len (mcb_candidates g)))).
  { apply filter_In. split; [apply sort_by_len_In; exact H | unfold le_len; apply Nat.leb_refl]. }
  destruct (in_split c _ Hf) as [l1 [l2 E]]. rewrite E, map_app. cbn [map]. apply span_app_r. apply span_head.
Qed.
