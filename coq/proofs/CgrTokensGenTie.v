(* C15 -- tie by translation: CGRSmiles._format_atom / _format_bond as regenerated from the SOURCE by tools/gen_cgrtokens.py
   (Gen.CgrTokensGen) are the hand-written token functions Model.Compose.cgr_atom_str / cgr_bond_str, for ALL dynamic atoms and
   bonds and ALL symbols. *)
From Coq Require Import ZArith List String Ascii Bool Lia.
From Model Require Import PyBase Graph Compose RxnSmiles.
From Gen Require CgrTables.
From Gen Require Import CgrTokensGen.
From Proofs Require Import RxnSmilesProofs.
Import ListNotations.
Open Scope string_scope.
Open Scope list_scope.
Open Scope Z_scope.

Lemma cat0_app (l1 l2 : list string) : concat "" (l1 ++ l2) = (concat "" l1 ++ concat "" l2)%string.
Proof.
  induction l1 as [|x l1 IH]; cbn [app]; [reflexivity|].
  destruct l1 as [|y l1].
  - cbn [app]. destruct l2 as [|z l2]; cbn [concat]; [rewrite sapp_nil_r; reflexivity|reflexivity].
  - change (concat "" (x :: (y :: l1) ++ l2)) with (x ++ "" ++ concat "" ((y :: l1) ++ l2))%string.
    rewrite IH. change (concat "" (x :: y :: l1)) with (x ++ "" ++ concat "" (y :: l1))%string.
    cbn [append]. rewrite sapp_assoc. reflexivity.
Qed.
Lemma cat0_bracket (l : list string) : concat "" ("[" :: l ++ ["]"]) = ("[" ++ concat "" l ++ "]")%string.
Proof. change ("[" :: l ++ ["]"]) with (["["] ++ l ++ ["]"]). rewrite !cat0_app. reflexivity. Qed.

(* the isotope field of the hand-written token function: str(isotope) when the isotope is truthy *)
Definition iso_text (a : datom) : option string := if optz_truthy (d_iso a) then Some (dec (optz_val (d_iso a))) else None.

Theorem g_format_atom_eq symbol a :
  g_format_atom symbol a = cgr_atom_str symbol (smem symbol CgrTables.src_organic_set) (iso_text a) a.
Proof.
  unfold g_format_atom, cgr_atom_str, iso_text, z_truthy.
  destruct (optz_truthy (d_iso a));
    destruct (negb (d_chg a =? 0) || negb (d_pchg a =? 0));
    try destruct (dyn_charge_str (d_chg a) (d_pchg a)) as [c|]; cbn [option_map];
    destruct (d_rad a || d_prad a);
    try destruct (dyn_radical_str (d_rad a) (d_prad a)) as [r|]; cbn [option_map];
    try reflexivity;
    cbn [app List.length Nat.eqb Z.of_nat Pos.of_succ_nat Pos.succ Z.eqb Pos.eqb negb orb];
    try (destruct (smem symbol CgrTables.src_organic_set); cbn [negb]);
    try reflexivity;
    (f_equal; first [apply (cat0_bracket [_]) | apply (cat0_bracket [_; _]) | apply (cat0_bracket [_; _; _]) | apply (cat0_bracket [_; _; _; _])]).
Qed.
Theorem g_format_bond_eq b : g_format_bond b = cgr_bond_str b.
Proof. reflexivity. Qed.
Example g_format_atom_example :
  g_format_atom "C" (mkDAtom 6 (Some 13) 0 false (-1) true) = Some "[13C0>-^>*]" /\
  g_format_atom "C" (mkDAtom 6 None 0 false 0 false) = Some "C" /\ g_format_atom "Fe" (mkDAtom 26 None 5 false 0 false) = None /\
  g_format_bond (mkDBond (Some 2) None) = Some "[=>.]".
Proof. repeat split; vm_compute; reflexivity. Qed.
