(* C13 -- Graph.union (collision test, `if not remap: raise`, both copies, the renumbering {n: i for i, n in enumerate(other,
   start=max(self) + 1)}, `self.copy() if copy else self`, the two updates, the flush of the in-place variant), translated from /repo's
   source, equals the hand-written union of Model.Cache in EVERY state. *)
From Coq Require Import ZArith List Bool Lia.
From Model Require Import PyBase Cache.
From Gen Require Import CacheOps.
Import ListNotations.
Open Scope Z_scope.

Theorem gen_union_eq : forall rmp cp s, gen_union rmp cp s = union rmp cp s.
Proof.
  intros rmp cp [h self [|other rest]]; [reflexivity|]. unfold gen_union, union. cbn [s_others s_heap s_cur]. cbv zeta.
  destruct (existsb (fun n => zmem n (keys (o_atoms other))) (keys (o_atoms self))) eqn:Ec; destruct rmp; cbn [negb andb]; try reflexivity;
    unfold u_copy, u_remap, u_fail, enum_map, u_update; cbn [s_cur s_others];
    destruct (copy_mol false false h other) as [[h1 oc]|e]; try reflexivity.
Qed.
Theorem union_is_translated : forall s rmp cp, step s (OUnion rmp cp) = gen_union rmp cp s.
Proof. intros. symmetry. apply gen_union_eq. Qed.
