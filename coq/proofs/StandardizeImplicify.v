(* C14 round 3: implicify_hydrogens conserves the total hydrogen count (general theorem), under the hypothesis the proof
   forces on the valence lookup: the accepted rule gives exactly `hydrogens the atom had + hydrogens removed`. *)
From Coq Require Import ZArith List String Bool Lia Permutation.
From Model Require Import PyBase Graph PeriodicTable Standardize.
From Gen Require Import Elements StdRules.
From Proofs Require Import StandardizeProofs StandardizeExt StandardizeNeutralProofs.
Import ListNotations.
Open Scope Z_scope.

(* ---- total hydrogen count as one weighted sum ---- *)
Definition hcount (a : atom) : Z := if a_num a =? 1 then 1 else 0.
Definition tw (a : atom) : Z := hval a + hcount a.

Lemma wsum_cons w k a l : wsum w ((k, a) :: l) = w a + wsum w l.
Proof. reflexivity. Qed.
Lemma wsum_add w1 w2 l : wsum (fun a => w1 a + w2 a) l = wsum w1 l + wsum w2 l.
Proof. induction l as [|[k a] l IH]; [reflexivity|]. rewrite !wsum_cons, IH. lia. Qed.
Lemma h_atoms_wsum l : h_atoms l = wsum hcount l.
Proof.
  unfold h_atoms. induction l as [|[k a] l IH]; [reflexivity|]. rewrite wsum_cons, <- IH.
  change (filter is_h ((k, a) :: l)) with (if is_h (k, a) then (k, a) :: filter is_h l else filter is_h l).
  unfold is_h, hcount. cbn [snd]. destruct (a_num a =? 1); cbn [List.length]; lia.
Qed.
Lemma total_h_wsum g : total_h g = wsum tw (m_atoms g).
Proof. unfold total_h, tw. rewrite wsum_add, h_atoms_wsum. reflexivity. Qed.

(* ---- removing atoms ---- *)
Definition drop (rm : list Z) (l : list (Z * atom)) : list (Z * atom) := filter (fun na => negb (zmem (fst na) rm)) l.

Lemma wsum_drop w rm : forall l, NoDup (keys l) -> NoDup rm ->
  (forall x, In x rm -> exists a, zget l x = Some a /\ w a = 1) ->
  wsum w (drop rm l) = wsum w l - Z.of_nat (List.length rm).
Proof.
  intros l. revert rm. induction l as [|[k a] l IH]; intros rm Hnd Hrm Hall.
  - destruct rm as [|x rm]; [reflexivity|]. destruct (Hall x (or_introl eq_refl)) as [a [Ha _]]. discriminate.
  - cbn [keys map fst] in Hnd. inversion Hnd as [|? ? Hk Hnd']; subst. unfold drop. cbn [filter fst].
    destruct (zmem k rm) eqn:Ek; cbn [negb].
    + (* k is removed: take it out of rm *)
      apply zmem_In in Ek. destruct (in_split _ _ Ek) as [r1 [r2 ->]].
      assert (Hrm' : NoDup (r1 ++ r2)) by (exact (NoDup_remove_1 _ _ _ Hrm)).
      assert (Hk' : ~ In k (r1 ++ r2)) by (exact (NoDup_remove_2 _ _ _ Hrm)).
      destruct (Hall k Ek) as [a' [Ha' Hw]]. cbn [zget] in Ha'. rewrite Z.eqb_refl in Ha'. inversion Ha'; subst a'.
      assert (Hsame : filter (fun na => negb (zmem (fst na) (r1 ++ k :: r2))) l = drop (r1 ++ r2) l).
      { unfold drop. apply filter_ext_in. intros [k' a'] Hin. cbn [fst]. f_equal.
        rewrite !zmem_app. cbn [zmem existsb]. fold (zmem k' r2).
        destruct (k' =? k) eqn:E; [|reflexivity]. apply Z.eqb_eq in E. subst. exfalso. apply Hk.
        unfold keys. apply (in_map fst) in Hin. exact Hin. }
      rewrite Hsame, (IH (r1 ++ r2) Hnd' Hrm').
      * rewrite wsum_cons, Hw, !app_length. cbn [List.length]. lia.
      * intros x Hx. assert (Hx' : In x (r1 ++ k :: r2)) by (apply in_app_or in Hx; apply in_or_app; destruct Hx; [left|right; right]; assumption).
        destruct (Hall x Hx') as [ax [Hax Hwx]]. exists ax. split; [|exact Hwx]. cbn [zget] in Hax.
        destruct (x =? k) eqn:E; [|exact Hax]. apply Z.eqb_eq in E. subst. contradiction.
    + rewrite !wsum_cons. fold (drop rm l). rewrite (IH rm Hnd' Hrm); [lia|].
      intros x Hx. destruct (Hall x Hx) as [ax [Hax Hwx]]. exists ax. split; [|exact Hwx]. cbn [zget] in Hax.
      destruct (x =? k) eqn:E; [|exact Hax]. apply Z.eqb_eq in E. subst. apply zmem_In in Hx. rewrite Hx in Ek. discriminate.
Qed.

Lemma keys_drop_NoDup rm l : NoDup (keys l) -> NoDup (keys (drop rm l)).
Proof.
  unfold drop. induction l as [|[k a] l IH]; intros Hnd; [constructor|]. cbn [keys map fst] in Hnd. inversion Hnd as [|? ? Hk Hnd']; subst.
  cbn [filter fst]. destruct (negb (zmem k rm)); [|exact (IH Hnd')]. cbn [keys map fst]. constructor; [|exact (IH Hnd')].
  intros Hin. apply Hk. unfold keys in *. apply in_map_iff in Hin. destruct Hin as [x [Hx Hin]]. apply filter_In in Hin.
  apply in_map_iff. exists x. tauto.
Qed.

Lemma zget_drop rm l x : zmem x rm = false -> zget (drop rm l) x = zget l x.
Proof.
  intros Hx. unfold drop. induction l as [|[k a] l IH]; [reflexivity|]. cbn [filter fst zget].
  destruct (zmem k rm) eqn:Ek; cbn [negb].
  - destruct (x =? k) eqn:E; [|exact IH]. apply Z.eqb_eq in E. subst. congruence.
  - cbn [zget]. destruct (x =? k); [reflexivity|exact IH].
Qed.

(* ---- setting hydrogen counts ---- *)
Definition hv (g : mol) (n : Z) : Z := match atom_of g n with Some a => hval a | None => 0 end.
Definition fsum (g : mol) (fx : list (Z * Z)) : Z := zsum (map (fun nh => snd nh - hv g (fst nh)) fx).

Lemma wsum_set_hs : forall fx g, NoDup (ids g) -> NoDup (keys fx) ->
  (forall n h, In (n, h) fx -> exists a, atom_of g n = Some a) ->
  wsum tw (m_atoms (set_hs g fx)) = wsum tw (m_atoms g) + fsum g fx.
Proof.
  unfold set_hs. induction fx as [|[n h] fx IH]; intros g Hnd Hk Hall; cbn [fold_left].
  - unfold fsum. cbn. lia.
  - cbn [keys map fst] in Hk. inversion Hk as [|? ? Hn Hk']; subst. cbn [fst snd].
    destruct (Hall n h (or_introl eq_refl)) as [a Ha].
    set (g1 := upd_atom g n (set_h (Some h))).
    assert (Hnd1 : NoDup (ids g1)) by (unfold g1; rewrite ids_upd_atom; exact Hnd).
    assert (Hsame : forall k, k <> n -> atom_of g1 k = atom_of g k).
    { intros k Hkn. unfold g1. rewrite atom_of_upd_atom. destruct (k =? n) eqn:E; [apply Z.eqb_eq in E; contradiction|reflexivity]. }
    assert (Hnotin : forall k h', In (k, h') fx -> k <> n).
    { intros k h' Hin ->. apply Hn. unfold keys. apply (in_map fst) in Hin. exact Hin. }
    rewrite (IH g1 Hnd1 Hk').
    + unfold g1 at 1. unfold upd_atom. cbn [m_atoms]. rewrite (wsum_upd tw n _ (m_atoms g) a Hnd Ha).
      assert (Hfs : fsum g1 fx = fsum g fx).
      { unfold fsum. f_equal. apply map_ext_in. intros [k h'] Hin. cbn [fst snd]. unfold hv. rewrite (Hsame k (Hnotin k h' Hin)). reflexivity. }
      rewrite Hfs. unfold fsum at 2. cbn [map zsum fold_right fst snd]. fold (zsum (map (fun nh => snd nh - hv g (fst nh)) fx)). fold (fsum g fx).
      unfold hv. rewrite Ha. unfold tw, hval, hcount. cbn [a_h a_num set_h]. lia.
    + intros k h' Hin. destruct (Hall k h' (or_intror Hin)) as [a' Ha']. exists a'. rewrite (Hsame k (Hnotin k h' Hin)). exact Ha'.
Qed.

(* the last phase of implicify_hydrogens: delete the hydrogens rm, set the counts fx *)
Lemma removal_total_h g rm fx :
  NoDup (ids g) -> NoDup rm ->
  (forall x, In x rm -> exists a, atom_of g x = Some a /\ a_num a = 1 /\ hval a = 0) ->
  NoDup (keys fx) ->
  (forall n h, In (n, h) fx -> zmem n rm = false /\ exists a, atom_of g n = Some a) ->
  total_h (set_hs (remove_atoms g rm) fx) = total_h g - Z.of_nat (List.length rm) + fsum g fx.
Proof.
  intros Hnd Hrm Hh Hk Hfx. rewrite !total_h_wsum.
  set (g1 := remove_atoms g rm).
  assert (Hat : m_atoms g1 = drop rm (m_atoms g)) by reflexivity.
  assert (Hnd1 : NoDup (ids g1)) by (unfold ids; rewrite Hat; apply keys_drop_NoDup; exact Hnd).
  assert (Hsame : forall n h, In (n, h) fx -> atom_of g1 n = atom_of g n).
  { intros n h Hin. unfold atom_of. rewrite Hat. apply zget_drop. exact (proj1 (Hfx n h Hin)). }
  rewrite (wsum_set_hs fx g1 Hnd1 Hk).
  - rewrite Hat, (wsum_drop tw rm (m_atoms g) Hnd Hrm).
    + assert (Hfs : fsum g1 fx = fsum g fx).
      { unfold fsum. f_equal. apply map_ext_in. intros [n h] Hin. cbn [fst snd]. unfold hv. rewrite (Hsame n h Hin). reflexivity. }
      rewrite Hfs. reflexivity.
    + intros x Hx. destruct (Hh x Hx) as [a [Ha [Hn Hv]]]. exists a. split; [exact Ha|]. unfold tw, hcount. rewrite Hn, Hv. reflexivity.
  - intros n h Hin. destruct (Hfx n h Hin) as [_ [a Ha]]. exists a. rewrite (Hsame n h Hin). exact Ha.
Qed.

(* ---- the `explicit` dictionary: every hydrogen is recorded at most once ---- *)
Definition vals (d : list (Z * list Z)) : list Z := flat_map snd d.

Lemma dl_append_perm d k v : Permutation (vals (dl_append d k v)) (v :: vals d).
Proof.
  unfold vals. induction d as [|[k' l] d IH]; cbn [dl_append flat_map snd]; [reflexivity|].
  destruct (k' =? k); cbn [flat_map snd].
  - rewrite <- app_assoc. cbn [app]. symmetry. apply Permutation_middle.
  - rewrite IH. symmetry. apply Permutation_middle.
Qed.
Lemma dl_append_keys d k v : forall x, In x (keys (dl_append d k v)) <-> In x (keys d) \/ x = k.
Proof.
  induction d as [|[k' l] d IH]; intros x; cbn [dl_append keys map fst].
  - cbn. intuition.
  - destruct (k' =? k) eqn:E; cbn [keys map fst In].
    + apply Z.eqb_eq in E. subst. intuition.
    + fold (keys (dl_append d k v)). fold (keys d). rewrite IH. intuition.
Qed.
Lemma dl_append_keys_nodup d k v : NoDup (keys d) -> NoDup (keys (dl_append d k v)).
Proof.
  induction d as [|[k' l] d IH]; intros H; cbn [dl_append keys map fst]; [constructor; [intros []|constructor]|].
  cbn [keys map fst] in H. inversion H as [|? ? Hk Hd]; subst.
  destruct (k' =? k) eqn:E; cbn [keys map fst].
  - constructor; assumption.
  - constructor; [|exact (IH Hd)]. fold (keys (dl_append d k v)). rewrite dl_append_keys. intros [Hin | ->]; [exact (Hk Hin)|].
    rewrite Z.eqb_refl in E. discriminate.
Qed.

Definition non8 (nb : list (Z * bond)) : list (Z * bond) := filter (fun mb => negb (b_ord (snd mb) =? 8)) nb.

Section Scan.
  Variable g : mol.

  Lemma scan_all8 n : forall nb d, non8 nb = [] -> scan_h_bonds g n nb d = Ok d.
  Proof.
    induction nb as [|[m b] nb IH]; intros d H; [reflexivity|]. unfold non8 in H. cbn [filter snd] in H.
    destruct (b_ord b =? 8) eqn:E8; cbn [negb] in H; [|discriminate]. cbn [scan_h_bonds].
    apply Z.eqb_eq in E8. rewrite E8. cbn. apply IH. exact H.
  Qed.

  Lemma scan_h_bonds_shape n : forall nb d d', (List.length (non8 nb) <= 1)%nat -> scan_h_bonds g n nb d = Ok d' ->
    d' = d \/ exists m am, atom_of g m = Some am /\ a_num am <> 1 /\ d' = dl_append d m n.
  Proof.
    induction nb as [|[m b] nb IH]; intros d d' Hc H; [inversion H; left; reflexivity|].
    cbn [scan_h_bonds] in H. unfold non8 in Hc. cbn [filter snd] in Hc.
    destruct (b_ord b =? 1) eqn:E1.
    - apply Z.eqb_eq in E1. rewrite E1 in Hc. cbn [Z.eqb negb Pos.eqb] in Hc. cbn [List.length] in Hc.
      assert (Hrest : non8 nb = []) by (destruct (non8 nb) eqn:E; [reflexivity|unfold non8 in E; rewrite E in Hc; cbn in Hc; lia]).
      destruct (atom_of g m) as [am|] eqn:Ea; [|discriminate].
      rewrite (scan_all8 n nb _ Hrest) in H. inversion H; subst d'.
      destruct (a_num am =? 1) eqn:En; [left; reflexivity|]. right. exists m, am. apply Z.eqb_neq in En. auto.
    - destruct (b_ord b =? 8) eqn:E8; [|discriminate]. cbn [negb] in Hc. exact (IH d d' Hc H).
  Qed.

  Record sinv (d : list (Z * list Z)) (done : list Z) : Prop := mkSinv {
    si_vals : NoDup (vals d);
    si_sub : forall x, In x (vals d) -> In x done;
    si_keys : NoDup (keys d);
    si_keyok : forall k, In k (keys d) -> exists a, atom_of g k = Some a /\ a_num a <> 1 }.

  Lemma sinv_weaken d done extra : sinv d done -> sinv d (done ++ extra).
  Proof. intros [A B C D]. constructor; try assumption. intros x Hx. apply in_or_app. left. exact (B x Hx). Qed.

  Lemma scan_explicit_inv : forall l done d d', NoDup (done ++ keys l) -> sinv d done -> scan_explicit g l d = Ok d' -> sinv d' (done ++ keys l).
  Proof.
    induction l as [|[n a] l IH]; intros done d d' Hnd Hs H.
    - inversion H; subst. cbn [keys map]. rewrite app_nil_r. exact Hs.
    - cbn [keys map fst] in *. fold (keys l) in *.
      assert (Hnd' : NoDup ((done ++ [n]) ++ keys l)) by (rewrite <- app_assoc; exact Hnd).
      assert (Hn : ~ In n done).
      { intros Hin. apply NoDup_remove_2 in Hnd. apply Hnd. apply in_or_app. left. exact Hin. }
      replace (done ++ n :: keys l) with ((done ++ [n]) ++ keys l) by (rewrite <- app_assoc; reflexivity).
      cbn [scan_explicit] in H. destruct (is_protium a).
      + destruct (1 <? _) eqn:Eg; [discriminate|]. apply Z.ltb_ge in Eg.
        destruct (scan_h_bonds g n (nbrs g n) d) as [d1|] eqn:E1; [|discriminate].
        apply (IH (done ++ [n]) d1 d' Hnd'); [|exact H].
        fold (non8 (nbrs g n)) in Eg.
        destruct (scan_h_bonds_shape n (nbrs g n) d d1 ltac:(lia) E1) as [-> | [m [am [Ham [Hnum ->]]]]].
        * apply sinv_weaken. exact Hs.
        * destruct Hs as [A B C D]. constructor.
          -- apply (Permutation_NoDup (l := n :: vals d)); [symmetry; apply dl_append_perm|].
             constructor; [|exact A]. intros Hin. exact (Hn (B n Hin)).
          -- intros x Hx. apply (Permutation_in _ (dl_append_perm d m n)) in Hx. apply in_or_app. destruct Hx as [<- | Hx]; [right; left; reflexivity|left; exact (B x Hx)].
          -- apply dl_append_keys_nodup. exact C.
          -- intros k Hk. apply dl_append_keys in Hk. destruct Hk as [Hk | ->]; [exact (D k Hk)|]. exists am. auto.
      + apply (IH (done ++ [n]) d d' Hnd'); [|exact H]. apply sinv_weaken. exact Hs.
  Qed.
End Scan.

Lemma union_set_fresh b : forall a, NoDup b -> (forall x, In x b -> ~ In x a) -> union_set a b = a ++ b.
Proof.
  unfold union_set. induction b as [|y b IH]; intros a Hnd Hdis; cbn [fold_left]; [rewrite app_nil_r; reflexivity|].
  inversion Hnd as [|? ? Hy Hnd']; subst.
  assert (Hm : zmem y a = false).
  { destruct (zmem y a) eqn:E; [|reflexivity]. apply zmem_In in E. exfalso. exact (Hdis y (or_introl eq_refl) E). }
  unfold add_set at 2. rewrite Hm. rewrite (IH (a ++ [y]) Hnd').
  - rewrite <- app_assoc. reflexivity.
  - intros x Hx Hin. apply in_app_or in Hin. destruct Hin as [Hin | [<- | []]]; [exact (Hdis x (or_intror Hx) Hin)|exact (Hy Hx)].
Qed.

Lemma NoDup_app_l {A} (a b : list A) : NoDup (a ++ b) -> NoDup a.
Proof.
  induction a as [|x a IH]; intros H; [constructor|]. cbn [app] in H. inversion H as [|? ? Hx H']; subst.
  constructor; [|exact (IH H')]. intros Hin. apply Hx. apply in_or_app. left. exact Hin.
Qed.
Lemma NoDup_app_r {A} (a b : list A) : NoDup (a ++ b) -> NoDup b.
Proof. induction a as [|x a IH]; intros H; [exact H|]. cbn [app] in H. inversion H; subst. apply IH. assumption. Qed.

Lemma NoDup_firstn {A} j (l : list A) : NoDup l -> NoDup (firstn j l).
Proof. intros H. rewrite <- (firstn_skipn j l) in H. exact (NoDup_app_l _ _ H). Qed.
Lemma In_firstn {A} j (l : list A) x : In x (firstn j l) -> In x l.
Proof. intros H. rewrite <- (firstn_skipn j l). apply in_or_app. left. exact H. Qed.

Lemma NoDup_app_snoc_z (l : list Z) x : NoDup l -> ~ In x l -> NoDup (l ++ [x]).
Proof.
  induction l as [|y l IH]; intros Hnd Hx; cbn [app]; [constructor; [intros []|constructor]|].
  inversion Hnd as [|? ? Hy Hnd']; subst. constructor.
  - intros Hin. apply in_app_or in Hin. destruct Hin as [Hin | [-> | []]]; [exact (Hy Hin)|]. apply Hx. left. reflexivity.
  - apply IH; [exact Hnd'|]. intros Hin. apply Hx. right. exact Hin.
Qed.

Lemma fsum_snoc g fx n h : fsum g (fx ++ [(n, h)]) = fsum g fx + (h - hv g n).
Proof. unfold fsum. rewrite map_app, zsum_app. cbn [map zsum fold_right fst snd]. lia. Qed.

Section Decide.
  Variable vlookup : atom -> list (Z * Z) -> Z -> vres.
  Variable g : mol.
  (* the hypothesis the proof forces, for the hydrogens hs recorded for the atom n: the rule accepted after taking j of them away
     gives exactly the hydrogens the atom had plus j (true for the common valences: the count is valence - explicit bonds) *)
  Definition balanced_lookup (ex : list (Z * list Z)) : Prop :=
    forall n hs, In (n, hs) ex -> forall a j h, atom_of g n = Some a -> (j <= List.length hs)%nat ->
      vlookup a (env_without g n (firstn j hs)) (Z.of_nat j) = VSome h -> h = hval a + Z.of_nat j.

  Lemma decide_spec n a hs : forall i hi h, decide vlookup g n a hs i = Some (hi, h) ->
    exists j, (1 <= j <= i)%nat /\ hi = firstn j hs /\ vlookup a (env_without g n hi) (Z.of_nat j) = VSome h.
  Proof.
    induction i as [|i IH]; intros hi h; cbn [decide]; [discriminate|].
    destruct (vlookup a (env_without g n (firstn (S i) hs)) (Z.of_nat (S i))) eqn:E.
    - discriminate.
    - intros H. destruct (IH hi h H) as [j [Hj [H1 H2]]]. exists j. split; [lia|]. auto.
    - intros H. inversion H; subst. exists (S i). split; [lia|]. split; [reflexivity|exact E].
  Qed.

  Lemma decide_all_account : forall ex rm fx rm' fx', decide_all vlookup g ex rm fx = Ok (rm', fx') -> balanced_lookup ex ->
    NoDup rm -> NoDup (vals ex) -> (forall x, In x rm -> ~ In x (vals ex)) ->
    NoDup (keys fx) -> NoDup (keys ex) -> (forall k, In k (keys fx) -> ~ In k (keys ex)) ->
    NoDup rm' /\ NoDup (keys fx') /\
    (forall k, In k (keys fx') -> In k (keys fx) \/ In k (keys ex)) /\
    Z.of_nat (List.length rm') - fsum g fx' = Z.of_nat (List.length rm) - fsum g fx.
  Proof.
    induction ex as [|[n hs] ex IH]; intros rm fx rm' fx' H Hbl Hrm Hv Hdis Hkf Hke Hkdis; cbn [decide_all] in H.
    - inversion H; subst. repeat split; auto.
    - unfold vals in Hv, Hdis. cbn [flat_map snd] in Hv, Hdis. fold (vals ex) in Hv, Hdis.
      cbn [keys map fst] in Hke, Hkdis. fold (keys ex) in Hke, Hkdis. inversion Hke as [|? ? Hn Hke']; subst.
      assert (Hbl' : balanced_lookup ex) by (intros n' hs' Hin'; apply Hbl; right; exact Hin').
      assert (Hv' : NoDup (vals ex)) by (exact (NoDup_app_r _ _ Hv)).
      assert (Hhs : NoDup hs) by (exact (NoDup_app_l _ _ Hv)).
      destruct (atom_of g n) as [a|] eqn:Ea; [|discriminate].
      destruct (decide vlookup g n a hs (List.length hs)) as [[hi h]|] eqn:Ed.
      + destruct (decide_spec n a hs _ _ _ Ed) as [j [Hj [Hhi Hlk]]].
        assert (Hbal : h = hval a + Z.of_nat j) by (subst hi; exact (Hbl n hs (or_introl eq_refl) a j h Ea ltac:(lia) Hlk)).
        assert (Hhi_nd : NoDup hi) by (subst hi; apply NoDup_firstn; exact Hhs).
        assert (Hhi_in : forall x, In x hi -> In x hs) by (intros x Hx; subst hi; exact (In_firstn _ _ _ Hx)).
        assert (Hfresh : forall x, In x hi -> ~ In x rm).
        { intros x Hx Hin. apply (Hdis x Hin). apply in_or_app. left. exact (Hhi_in x Hx). }
        rewrite (union_set_fresh hi rm Hhi_nd Hfresh) in H.
        destruct (IH (rm ++ hi) (fx ++ [(n, h)]) rm' fx' H Hbl') as [R1 [R2 [R3 R4]]].
        * clear - Hrm Hhi_nd Hfresh. induction rm as [|y rm IHr]; cbn [app]; [exact Hhi_nd|].
          inversion Hrm as [|? ? Hy Hrm']; subst. constructor.
          -- intros Hin. apply in_app_or in Hin. destruct Hin as [Hin | Hin]; [exact (Hy Hin)|]. exact (Hfresh y Hin (or_introl eq_refl)).
          -- apply IHr; [exact Hrm'|]. intros x Hx Hin. exact (Hfresh x Hx (or_intror Hin)).
        * exact Hv'.
        * intros x Hx Hin. apply in_app_or in Hx. destruct Hx as [Hx | Hx].
          -- apply (Hdis x Hx). apply in_or_app. right. exact Hin.
          -- (* x in hs and in vals ex: contradicts NoDup (hs ++ vals ex) *)
             clear - Hv Hhi_in Hx Hin. specialize (Hhi_in x Hx). induction hs as [|y hs IHh]; [destruct Hhi_in|].
             cbn [app] in Hv. inversion Hv as [|? ? Hy Hv']; subst. destruct Hhi_in as [-> | Hh].
             ++ apply Hy. apply in_or_app. right. exact Hin.
             ++ exact (IHh Hv' Hh).
        * unfold keys. rewrite map_app. cbn [map fst]. fold (keys fx). apply NoDup_app_snoc_z; [exact Hkf|].
          intros Hin. exact (Hkdis n Hin (or_introl eq_refl)).
        * exact Hke'.
        * intros k Hk Hin. unfold keys in Hk. rewrite map_app in Hk. cbn [map fst] in Hk. apply in_app_or in Hk. destruct Hk as [Hk | [<- | []]].
          -- exact (Hkdis k Hk (or_intror Hin)).
          -- exact (Hn Hin).
        * split; [exact R1|]. split; [exact R2|]. split.
          -- intros k Hk. destruct (R3 k Hk) as [Hk' | Hk']; [|right; right; exact Hk'].
             unfold keys in Hk'. rewrite map_app in Hk'. cbn [map fst] in Hk'. apply in_app_or in Hk'.
             destruct Hk' as [Hk' | [<- | []]]; [left; exact Hk'|right; left; reflexivity].
          -- rewrite R4, app_length, fsum_snoc. unfold hv. rewrite Ea.
             assert (Hlen : List.length hi = j) by (subst hi; apply firstn_length_le; lia). rewrite Hlen. lia.
      + destruct (IH rm fx rm' fx' H Hbl' Hrm Hv') as [R1 [R2 [R3 R4]]].
        * intros x Hx Hin. apply (Hdis x Hx). apply in_or_app. right. exact Hin.
        * exact Hkf.
        * exact Hke'.
        * intros k Hk Hin. exact (Hkdis k Hk (or_intror Hin)).
        * split; [exact R1|]. split; [exact R2|]. split; [|exact R4].
          intros k Hk. destruct (R3 k Hk) as [Hk' | Hk']; [left; exact Hk'|right; right; exact Hk'].
  Qed.

  (* implicify_hydrogens conserves the total hydrogen count *)
  Theorem implicify_total_h g' :
    NoDup (ids g) -> (forall n a, atom_of g n = Some a -> a_num a = 1 -> hval a = 0) ->
    (forall ex, scan_explicit g (m_atoms g) [] = Ok ex -> balanced_lookup ex) ->
    implicify vlookup g = Ok g' -> total_h g' = total_h g.
  Proof.
    intros Hnd Hh0 Hbal. unfold implicify.
    destruct (scan_explicit g (m_atoms g) []) as [ex|] eqn:Es; [|discriminate].
    specialize (Hbal ex eq_refl).
    destruct (decide_all vlookup g ex [] []) as [[rm fx]|] eqn:Ed; [|discriminate].
    intros H. inversion H; subst g'.
    assert (Hsi : sinv g ex (ids g)).
    { apply (scan_explicit_inv g (m_atoms g) [] [] ex Hnd); [|exact Es]. constructor; try constructor; intros x []. }
    destruct Hsi as [Sv Ssub Sk Skok].
    assert (Hex : hs_hydrogens g ex).
    { apply (scan_explicit_hydrogens g Hnd (m_atoms g) (fun na H0 => H0) [] ex Es). intros k0 l0 x0 []. }
    destruct (decide_all_account ex [] [] rm fx Ed Hbal) as [R1 [R2 [R3 R4]]]; try constructor; try exact Sv; try exact Sk; try (intros x []).
    assert (Hrm_h : forall x, In x rm -> exists a, atom_of g x = Some a /\ a_num a = 1 /\ hval a = 0).
    { intros x Hx. apply zmem_In in Hx. destruct (decide_all_removed vlookup g ex [] [] rm fx Ed x Hx) as [Hf | [n [hs [Hnh Hxh]]]]; [discriminate|].
      destruct (Hex n hs x Hnh Hxh) as [a [Ha Hn]]. exists a. split; [exact Ha|]. split; [exact Hn|exact (Hh0 x a Ha Hn)]. }
    rewrite (removal_total_h g rm fx Hnd R1 Hrm_h R2).
    - cbn [List.length] in R4. unfold fsum at 2 in R4. cbn in R4. lia.
    - intros n h Hin. assert (Hk : In n (keys fx)) by (unfold keys; apply (in_map fst) in Hin; exact Hin).
      destruct (R3 n Hk) as [[] | Hke]. destruct (Skok n Hke) as [a [Ha Hnum]]. split; [|exists a; exact Ha].
      destruct (zmem n rm) eqn:E; [|reflexivity]. apply zmem_In in E. destruct (Hrm_h n E) as [a' [Ha' [Hn' _]]].
      rewrite Ha in Ha'. inversion Ha'; subst. contradiction.
  Qed.
End Decide.
