(* C06 -- third proof file: rank bounds for GF(2) vector lists (a Steinitz exchange theorem obtained from the verified
   elimination) and what they give for the greedy selection of mcb_ref. *)
From Coq Require Import ZArith List Bool Lia Permutation Sorted.
From Model Require Import PyBase Graph Rings.
From Proofs Require Import RingsProofs RingsMcb.
Import ListNotations.
Open Scope Z_scope.

Definition dependent (vs : list vec) : Prop :=
  exists sel, length sel = length vs /\ existsb (fun s => s) sel = true /\ forall i, comb_bit sel vs i = false.

Lemma independent_b_indep vs : independent_b vs = true -> ~ dependent vs.
Proof.
  intros H [sel [L [Ex Z]]].
  assert (A : all_false [] /\ all_false sel).
  { apply (elim_sound vs [] I H [] sel eq_refl L). intros i. cbn [map comb_bit]. rewrite xorb_false_l. apply Z. }
  destruct A as [_ A]. rewrite existsb_exists in Ex. destruct Ex as [s [Hs Ts]]. rewrite (A s Hs) in Ts. discriminate.
Qed.

Lemma independent_b_iff vs : independent_b vs = true <-> ~ dependent vs.
Proof.
  split; [apply independent_b_indep|]. intros H. destruct (independent_b vs) eqn:E; [reflexivity|].
  exfalso. apply H. apply independent_b_complete. exact E.
Qed.

(* ---------- an accepted list of vectors with coordinates below n has at most n members ---------- *)
Definition bounded (n : nat) (v : vec) : Prop := forall i, (n <= i)%nat -> bit v i = false.

Lemma bounded_vxor n a b : bounded n a -> bounded n b -> bounded n (vxor a b).
Proof. intros Ha Hb i Hi. rewrite bit_vxor, (Ha i Hi), (Hb i Hi). reflexivity. Qed.

Lemma bounded_reduce n B : (forall p b, In (p, b) B -> bounded n b) -> forall v, bounded n v -> bounded n (reduce B v).
Proof.
  induction B as [|[p b] B IH]; intros HB v Hv; [exact Hv|]. unfold reduce. cbn [fold_left fst snd].
  apply IH; [intros q c H; apply (HB q c); right; exact H|].
  destruct (bit v p); [apply bounded_vxor; [exact Hv | apply (HB p b); left; reflexivity] | exact Hv].
Qed.

Lemma echelon_pivots_NoDup B : echelon B -> NoDup (map fst B).
Proof.
  induction B as [|[p b] B IH]; intros E; [constructor|]. destruct E as [E1 [E2 E3]]. cbn [map fst]. constructor; [|apply IH; exact E3].
  intros I. apply in_map_iff in I. destruct I as [[q c] [Eq Hc]]. cbn in Eq. subst q.
  (* the later row (p, c) has its own pivot bit p set, but every later row has bit p clear *)
  assert (S : bit c p = true).
  { clear - E3 Hc. induction B as [|[q d] B IH]; [destruct Hc|]. destruct E3 as [F1 [F2 F3]]. destruct Hc as [Hc|Hc].
    - inversion Hc; subst. exact F1.
    - apply IH; assumption. }
  rewrite (E2 p c Hc) in S. discriminate.
Qed.

Lemma pivots_length B n : echelon B -> (forall p b, In (p, b) B -> (p < n)%nat) -> (length B <= n)%nat.
Proof.
  intros E H. rewrite <- (map_length fst B), <- (seq_length n 0). apply NoDup_incl_length; [apply echelon_pivots_NoDup; exact E|].
  intros p Hp. apply in_map_iff in Hp. destruct Hp as [[q c] [Eq Hc]]. cbn in Eq. subst q. apply in_seq. specialize (H p c Hc). lia.
Qed.

Lemma elim_count n vs : forall B, echelon B -> (forall p b, In (p, b) B -> (p < n)%nat /\ bounded n b) ->
  (forall v, In v vs -> bounded n v) -> elim B vs = true -> (length B + length vs <= n)%nat.
Proof.
  induction vs as [|v vs IH]; intros B E HB Hv H.
  - cbn. rewrite Nat.add_0_r. apply (pivots_length B n E). intros p b Hp. apply (HB p b Hp).
  - cbn [elim] in H. destruct (first_set (reduce B v)) as [p|] eqn:F; [|discriminate].
    assert (Bv : bounded n (reduce B v)).
    { apply bounded_reduce; [intros q c Hq; apply (HB q c Hq) | apply Hv; left; reflexivity]. }
    assert (Pp : (p < n)%nat).
    { destruct (Nat.lt_ge_cases p n) as [L|G]; [exact L|]. pose proof (first_set_Some _ _ F) as S. rewrite (Bv p G) in S. discriminate. }
    specialize (IH (B ++ [(p, reduce B v)])). rewrite app_length in IH. cbn [length] in IH |- *.
    assert (X : (length B + 1 + length vs <= n)%nat); [|lia]. apply IH.
    + apply echelon_app; [exact E | apply first_set_Some; exact F |]. intros q c Hq. apply (reduce_clears B v E q c Hq).
    + intros q c Hq. apply in_app_or in Hq. destruct Hq as [Hq|[Hq|[]]]; [apply (HB q c Hq)|]. inversion Hq; subst. split; assumption.
    + intros w Hw. apply Hv. right. exact Hw.
    + exact H.
Qed.

Theorem independent_count_bound n vs : (forall v, In v vs -> bounded n v) -> independent_b vs = true -> (length vs <= n)%nat.
Proof.
  intros Hv H. pose proof (elim_count n vs [] I (fun p b (F : In (p, b) []) => match F with end) Hv H) as X. cbn in X. exact X.
Qed.

(* ---------- combinations of combinations ---------- *)
Lemma bit_xsel a : forall b k, length a = length b -> bit (xsel a b) k = xorb (bit a k) (bit b k).
Proof.
  induction a as [|x a IH]; intros b k L.
  - destruct b; [|discriminate]. unfold xsel. cbn [combine map]. rewrite bit_nil. reflexivity.
  - destruct b as [|y b]; [discriminate|]. change (xsel (x :: a) (y :: b)) with (xorb x y :: xsel a b).
    destruct k as [|k]; [reflexivity|]. unfold bit in *. cbn [nth]. apply IH. cbn in L. lia.
Qed.

Lemma xsel_length a b : length a = length b -> length (xsel a b) = length a.
Proof. intros L. unfold xsel. rewrite map_length, combine_length. lia. Qed.

(* acc + the selected coefficient rows *)
Fixpoint vsum (acc sel : list bool) (cs : list (list bool)) : list bool :=
  match sel, cs with
  | s :: sel', c :: cs' => vsum (if s then xsel acc c else acc) sel' cs'
  | _, _ => acc
  end.

Definition expressed (gs : list vec) (t : vec) (c : list bool) : Prop :=
  length c = length gs /\ forall i, bit t i = comb_bit c gs i.

Lemma vsum_length cs : forall acc sel n, length acc = n -> Forall (fun c => length c = n) cs -> length (vsum acc sel cs) = n.
Proof.
  induction cs as [|c cs IH]; intros acc sel n La Hc; [destruct sel; exact La|]. destruct sel as [|s sel]; [exact La|].
  inversion Hc as [|? ? Lc Hc']; subst. cbn [vsum]. apply IH; [|exact Hc']. destruct s; [rewrite xsel_length; lia | reflexivity].
Qed.

Lemma vsum_bit cs : forall acc sel n k, length acc = n -> Forall (fun c => length c = n) cs ->
  bit (vsum acc sel cs) k = xorb (bit acc k) (comb_bit sel cs k).
Proof.
  induction cs as [|c cs IH]; intros acc sel n k La Hc.
  - destruct sel; cbn; rewrite xorb_false_r; reflexivity.
  - destruct sel as [|s sel]; [cbn; rewrite xorb_false_r; reflexivity|]. inversion Hc as [|? ? Lc Hc']; subst.
    cbn [vsum comb_bit]. rewrite (IH _ sel (length acc) k); [| destruct s; [rewrite xsel_length; lia | reflexivity] | exact Hc'].
    destruct s; [rewrite bit_xsel by lia | ]; cbn [andb]; destruct (bit acc k), (bit c k), (comb_bit sel cs k); reflexivity.
Qed.

Lemma vsum_comb gs ts cs : Forall2 (expressed gs) ts cs -> forall acc sel i, length acc = length gs ->
  xorb (comb_bit acc gs i) (comb_bit sel ts i) = comb_bit (vsum acc sel cs) gs i.
Proof.
  induction 1 as [|t c ts cs [Lc Hc] _ IH]; intros acc sel i La.
  - destruct sel; cbn; rewrite xorb_false_r; reflexivity.
  - destruct sel as [|s sel]; [cbn; rewrite xorb_false_r; reflexivity|]. cbn [comb_bit vsum].
    rewrite <- IH by (destruct s; [rewrite xsel_length; lia | exact La]).
    destruct s; cbn [andb].
    + rewrite comb_bit_xsel by lia. rewrite Hc. destruct (comb_bit acc gs i), (comb_bit c gs i), (comb_bit sel ts i); reflexivity.
    + rewrite xorb_false_l. reflexivity.
Qed.

Lemma all_bits_false (l : list bool) : (forall k, bit l k = false) -> all_false l.
Proof.
  intros H s Hs. destruct (In_nth l s false Hs) as [k [_ E]]. rewrite <- E. apply H.
Qed.

Lemma Forall2_len {A B} (R : A -> B -> Prop) l1 l2 : Forall2 R l1 l2 -> length l1 = length l2.
Proof. induction 1; cbn; congruence. Qed.

(* Steinitz: independent vectors that all lie in the span of n vectors are at most n *)
Theorem steinitz gs ts : (forall t, In t ts -> span gs t) -> ~ dependent ts -> (length ts <= length gs)%nat.
Proof.
  intros Hs Hi.
  assert (Ex : exists cs, Forall2 (expressed gs) ts cs).
  { clear Hi. induction ts as [|t ts IH]; [exists []; constructor|].
    destruct IH as [cs Hcs]; [intros u Hu; apply Hs; right; exact Hu|].
    destruct (Hs t (or_introl eq_refl)) as [c [Lc Hc]]. exists (c :: cs). constructor; [split; assumption | exact Hcs]. }
  destruct Ex as [cs F].
  assert (Lcs : Forall (fun c => length c = length gs) cs).
  { clear - F. induction F as [|t c ts cs [Lc _] _ IH]; constructor; assumption. }
  rewrite (Forall2_len _ _ _ F).
  apply independent_count_bound.
  - intros c Hc i Hi'. apply bit_beyond. rewrite Forall_forall in Lcs. rewrite (Lcs c Hc). exact Hi'.
  - apply independent_b_iff. intros [sel [L [Exs Z]]]. apply Hi. exists sel. split; [rewrite (Forall2_len _ _ _ F); exact L|]. split; [exact Exs|].
    intros i. set (acc := repeat false (length gs)).
    pose proof (vsum_comb gs ts cs F acc sel i (repeat_length _ _)) as V.
    assert (A0 : comb_bit acc gs i = false) by (apply comb_bit_falses). rewrite A0, xorb_false_l in V. rewrite V.
    apply comb_bit_all_false. apply all_bits_false. intros k.
    rewrite (vsum_bit cs acc sel (length gs) k (repeat_length _ _) Lcs). rewrite Z, xorb_false_r.
    unfold acc, bit. destruct (Nat.lt_ge_cases k (length gs)) as [Lt|Ge]; [rewrite nth_repeat; reflexivity | apply nth_overflow; rewrite repeat_length; exact Ge].
Qed.

(* ---------- the greedy selection spans every candidate by selected rings that are not longer ---------- *)
Local Notation rv := ring_vec.
Definition le_len (L : nat) (r : ring) : bool := Nat.leb (length r) L.

Lemma span_app_l done ext w : span done w -> span (done ++ ext) w.
Proof.
  intros [s [L H]]. exists (s ++ repeat false (length ext)). split; [rewrite !app_length, repeat_length; lia|].
  intros i. rewrite comb_bit_app2 by exact L. rewrite comb_bit_falses, xorb_false_r. apply H.
Qed.

Lemma span_app_r done ext w : span ext w -> span (done ++ ext) w.
Proof.
  intros [s [L H]]. exists (repeat false (length done) ++ s). split; [rewrite !app_length, repeat_length; lia|].
  intros i. rewrite comb_bit_app2 by apply repeat_length. rewrite comb_bit_falses, xorb_false_l. apply H.
Qed.

Lemma span_head v rest : span (v :: rest) v.
Proof.
  exists (true :: repeat false (length rest)). split; [cbn; rewrite repeat_length; reflexivity|].
  intros i. cbn [comb_bit]. rewrite comb_bit_falses, andb_true_l, xorb_false_r. reflexivity.
Qed.

Lemma filter_all {A} (f : A -> bool) l : (forall x, In x l -> f x = true) -> filter f l = l.
Proof.
  induction l as [|a l IH]; intros H; [reflexivity|]. cbn. rewrite (H a (or_introl eq_refl)). f_equal. apply IH. intros x Hx. apply H. right. exact Hx.
Qed.

(* a rejected candidate is a combination of the rows, hence of the rings selected so far *)
Lemma rejected_in_span done B v : (forall p b, In (p, b) B -> span done b) -> first_set (reduce B v) = None -> span done v.
Proof.
  intros HB F. destruct (reduce_span done B HB v) as [s [L Hs]]. exists s. split; [exact L|]. intros i.
  pose proof (first_set_None _ F i) as Z. rewrite Hs in Z. destruct (bit v i), (comb_bit s done i); cbn in Z; congruence.
Qed.

Lemma selected_row_in_span done B v : (forall p b, In (p, b) B -> span done b) -> span (done ++ [v]) (reduce B v).
Proof.
  intros HB. destruct (reduce_span done B HB v) as [s [L Hs]]. exists (s ++ [true]). split; [rewrite !app_length; cbn; lia|].
  intros i. rewrite comb_bit_app by exact L. rewrite andb_true_l, Hs. destruct (bit v i), (comb_bit s done i); reflexivity.
Qed.

Lemma app_cons_assoc {A} (l : list A) x r : l ++ x :: r = (l ++ [x]) ++ r.
Proof. rewrite <- app_assoc. reflexivity. Qed.

Lemma greedy_span_sorted g cands : forall B D need, (length cands <= need)%nat ->
  (forall p b, In (p, b) B -> span (map (rv g) D) b) ->
  (forall d c, In d D -> In c cands -> (length d <= length c)%nat) ->
  StronglySorted (fun a b : ring => (length a <= length b)%nat) cands ->
  forall c, In c cands -> span (map (rv g) (filter (le_len (length c)) (D ++ greedy g B cands need))) (rv g c).
Proof.
  induction cands as [|c0 cands IH]; intros B D need Ln HB HD Hs c Hc; [destruct Hc|].
  destruct need as [|k]; [cbn in Ln; lia|]. cbn [greedy].
  inversion Hs as [|? ? Hs' Hall]; subst. rewrite Forall_forall in Hall.
  assert (Dall : forall c', In c' (c0 :: cands) -> filter (le_len (length c')) D = D).
  { intros c' Hc'. apply filter_all. intros d Hd. unfold le_len. apply Nat.leb_le. apply (HD d c' Hd Hc'). }
  destruct (first_set (reduce B (rv g c0))) as [p|] eqn:F.
  - (* selected *)
    destruct Hc as [Hc|Hc].
    + subst c. rewrite filter_app, (Dall c0 (or_introl eq_refl)). cbn [filter]. unfold le_len at 1. rewrite Nat.leb_refl.
      rewrite map_app. apply span_app_r. cbn [map]. apply span_head.
    + rewrite (app_cons_assoc D c0). apply IH; try assumption.
      * cbn in Ln. lia.
      * intros q b Hq. rewrite map_app. cbn [map]. apply in_app_or in Hq. destruct Hq as [Hq|[Hq|[]]].
        -- apply span_snoc. apply (HB q b Hq).
        -- inversion Hq; subst. apply selected_row_in_span. exact HB.
      * intros d c' Hd Hc'. apply in_app_or in Hd. destruct Hd as [Hd|[Hd|[]]]; [apply HD; [exact Hd | right; exact Hc'] | subst d; apply Hall; exact Hc'].
  - (* rejected *)
    destruct Hc as [Hc|Hc].
    + subst c. rewrite filter_app, (Dall c0 (or_introl eq_refl)), map_app. apply span_app_l.
      apply (rejected_in_span _ B _ HB F).
    + apply IH; try assumption.
      * cbn in Ln. lia.
      * intros d c' Hd Hc'. apply HD; [exact Hd | right; exact Hc'].
Qed.

(* ---------- sub-families ---------- *)
Fixpoint ext {A} (f : A -> bool) (l : list A) (sel : list bool) : list bool :=
  match l with
  | [] => []
  | a :: l' => if f a then hd false sel :: ext f l' (tl sel) else false :: ext f l' sel
  end.

Lemma ext_spec {A} (h : A -> vec) f l : forall sel, length sel = length (filter f l) ->
  length (ext f l sel) = length l /\
  existsb (fun s => s) (ext f l sel) = existsb (fun s => s) sel /\
  forall i, comb_bit (ext f l sel) (map h l) i = comb_bit sel (map h (filter f l)) i.
Proof.
  induction l as [|a l IH]; intros sel L.
  - cbn in L. destruct sel; [|discriminate]. repeat split.
  - cbn [ext filter] in *. destruct (f a).
    + destruct sel as [|s sel]; [discriminate|]. cbn [hd tl]. destruct (IH sel) as [A1 [A2 A3]]; [cbn in L; lia|].
      repeat split; cbn [length existsb map comb_bit]; [rewrite A1 | rewrite A2 | intros i; rewrite A3]; reflexivity.
    + destruct (IH sel L) as [A1 [A2 A3]].
      repeat split; cbn [length existsb map comb_bit]; [rewrite A1; reflexivity | rewrite A2; reflexivity |].
      intros i. rewrite andb_false_l, xorb_false_l. apply A3.
Qed.

Lemma dependent_filter {A} (h : A -> vec) f l : dependent (map h (filter f l)) -> dependent (map h l).
Proof.
  intros [sel [L [Ex Z]]]. rewrite map_length in L. destruct (ext_spec h f l sel L) as [A1 [A2 A3]].
  exists (ext f l sel). rewrite map_length. split; [exact A1|]. split; [rewrite A2; exact Ex|]. intros i. rewrite A3. apply Z.
Qed.

Lemma span_filter {A} (h : A -> vec) f l w : span (map h (filter f l)) w -> span (map h l) w.
Proof.
  intros [sel [L H]]. rewrite map_length in L. destruct (ext_spec h f l sel L) as [A1 [_ A3]].
  exists (ext f l sel). rewrite map_length. split; [exact A1|]. intros i. rewrite A3. apply H.
Qed.

Lemma filter_filter_imp {A} (f f' : A -> bool) l : (forall x, f x = true -> f' x = true) -> filter f (filter f' l) = filter f l.
Proof.
  intros H. induction l as [|a l IH]; [reflexivity|]. cbn. destruct (f' a) eqn:E'; cbn.
  - destruct (f a); rewrite IH; reflexivity.
  - destruct (f a) eqn:E; [rewrite (H a E) in E'; discriminate | exact IH].
Qed.

Lemma span_filter_mono {A} (h : A -> vec) (f f' : A -> bool) l w : (forall x, f x = true -> f' x = true) ->
  span (map h (filter f l)) w -> span (map h (filter f' l)) w.
Proof. intros H S. rewrite <- (filter_filter_imp f f' l H) in S. apply (span_filter h f _ w S). Qed.

(* ---------- counting below a threshold ---------- *)
Theorem greedy_threshold_count g cands T L :
  StronglySorted (fun a b : ring => (length a <= length b)%nat) cands -> incl T cands -> ~ dependent (map (rv g) T) ->
  (length (filter (le_len L) T) <= length (filter (le_len L) (greedy g [] cands (length cands))))%nat.
Proof.
  intros Hs Hi Hd.
  rewrite <- (map_length (rv g) (filter (le_len L) T)), <- (map_length (rv g) (filter (le_len L) (greedy g [] cands (length cands)))).
  apply steinitz.
  - intros t Ht. apply in_map_iff in Ht. destruct Ht as [r [Er Hr]]. subst t. apply filter_In in Hr. destruct Hr as [Hr Lr].
    apply (span_filter_mono (rv g) (le_len (length r)) (le_len L)).
    + intros x Hx. unfold le_len in *. apply Nat.leb_le in Hx, Lr. apply Nat.leb_le. lia.
    + apply (greedy_span_sorted g cands [] [] (length cands) (le_n _)); [intros p b [] | intros d c [] | exact Hs | apply Hi; exact Hr].
  - intros D. apply Hd. apply (dependent_filter (rv g) (le_len L) T D).
Qed.

(* ---------- cumulative domination of sorted weights gives domination of sums ---------- *)
Definition cnt (L : nat) (l : list nat) : nat := length (filter (fun w => Nat.leb w L) l).
Definition nsum (l : list nat) : nat := fold_right Nat.add O l.

Fixpoint ins (a : nat) (l : list nat) : list nat :=
  match l with [] => [a] | b :: r => if Nat.leb a b then a :: l else b :: ins a r end.
Definition isort (l : list nat) : list nat := fold_right ins [] l.

Lemma ins_perm a l : Permutation (ins a l) (a :: l).
Proof.
  induction l as [|b r IH]; cbn; [apply Permutation_refl|]. destruct (Nat.leb a b); [apply Permutation_refl|].
  apply Permutation_trans with (b :: a :: r); [apply perm_skip; exact IH | apply perm_swap].
Qed.

Lemma isort_perm l : Permutation (isort l) l.
Proof. induction l as [|a l IH]; cbn; [constructor|]. apply Permutation_trans with (a :: isort l); [apply ins_perm | apply perm_skip; exact IH]. Qed.

Lemma ins_sorted a l : StronglySorted le l -> StronglySorted le (ins a l).
Proof.
  induction l as [|b r IH]; intros S; cbn; [constructor; constructor|]. inversion S as [|? ? Sr Hb]; subst.
  destruct (Nat.leb_spec a b) as [Le|Gt].
  - constructor; [exact S|]. constructor; [exact Le|]. eapply Forall_impl; [|exact Hb]. intros x Hx. cbn in Hx. lia.
  - constructor; [apply IH; exact Sr|]. apply (Permutation_Forall (Permutation_sym (ins_perm a r))). constructor; [lia | exact Hb].
Qed.

Lemma isort_sorted l : StronglySorted le (isort l).
Proof. induction l as [|a l IH]; cbn; [constructor | apply ins_sorted; exact IH]. Qed.

Lemma cnt_perm L l l' : Permutation l l' -> cnt L l = cnt L l'.
Proof.
  unfold cnt. induction 1 as [|x l l' _ IH|x y l|l l' l'' _ IH1 _ IH2]; cbn; try reflexivity.
  - destruct (Nat.leb x L); cbn; rewrite IH; reflexivity.
  - destruct (Nat.leb x L), (Nat.leb y L); reflexivity.
  - congruence.
Qed.

Lemma nsum_perm l l' : Permutation l l' -> nsum l = nsum l'.
Proof. unfold nsum. induction 1; cbn; lia. Qed.

Lemma cnt_zero_sorted L x X : (L < x)%nat -> Forall (le x) X -> cnt L (x :: X) = 0%nat.
Proof.
  intros Lx H. unfold cnt. cbn. replace (Nat.leb x L) with false by (symmetry; apply Nat.leb_gt; exact Lx).
  induction X as [|y X IH]; [reflexivity|]. inversion H as [|? ? Hy HX]; subst. cbn.
  replace (Nat.leb y L) with false by (symmetry; apply Nat.leb_gt; cbn in Hy; lia). apply IH. exact HX.
Qed.

Lemma cnt_cons L x X : cnt L (x :: X) = ((if Nat.leb x L then 1 else 0) + cnt L X)%nat.
Proof. unfold cnt. cbn. destruct (Nat.leb x L); reflexivity. Qed.

Lemma dominate_sorted X : StronglySorted le X -> forall T, StronglySorted le T -> (forall L, cnt L T <= cnt L X)%nat ->
  (nsum (firstn (length T) X) <= nsum T)%nat.
Proof.
  induction 1 as [|x X SX IH HX]; intros T ST H.
  - rewrite firstn_nil. cbn. lia.
  - destruct T as [|t T]; [cbn; lia|]. inversion ST as [|? ? ST' HT]; subst. cbn [length firstn nsum fold_right].
    assert (Xt : (x <= t)%nat).
    { destruct (Nat.le_gt_cases x t) as [Le|Gt]; [exact Le|]. exfalso. specialize (H t).
      rewrite (cnt_zero_sorted t x X Gt HX), cnt_cons, Nat.leb_refl in H. lia. }
    assert (Tail : forall L, (cnt L T <= cnt L X)%nat).
    { intros L. specialize (H L). rewrite !cnt_cons in H. destruct (Nat.leb_spec x L) as [Lx|Lx].
      - destruct (Nat.leb_spec t L) as [Lt|Lt]; [lia|].
        destruct T as [|t' T']; [unfold cnt; cbn; lia|]. inversion HT as [|? ? Ht' _]; subst.
        assert (Z : cnt L (t' :: T') = 0%nat); [|lia].
        inversion ST' as [|? ? _ HT']; subst. apply cnt_zero_sorted; [cbn in Ht'; lia | exact HT'].
      - assert (Z : cnt L X = 0%nat).
        { pose proof (cnt_zero_sorted L x X Lx HX) as Q. rewrite cnt_cons in Q. lia. }
        lia. }
    specialize (IH T ST' Tail). fold (nsum (firstn (length T) X)). fold (nsum T). lia.
Qed.

Lemma dominate_sum X T : StronglySorted le X -> (forall L, cnt L T <= cnt L X)%nat -> (nsum (firstn (length T) X) <= nsum T)%nat.
Proof.
  intros SX H. pose proof (isort_perm T) as P.
  rewrite <- (nsum_perm _ _ P), <- (Permutation_length P). apply dominate_sorted; [exact SX | apply isort_sorted|].
  intros L. rewrite (cnt_perm L _ _ P). apply H.
Qed.

(* ---------- the selection with a cut-off is a prefix of the selection without one; it is sorted ---------- *)
Lemma greedy_firstn g cands : forall B need N, (length cands <= N)%nat ->
  greedy g B cands need = firstn need (greedy g B cands N).
Proof.
  induction cands as [|c0 cands IH]; intros B need N LN.
  - destruct need, N; cbn; reflexivity.
  - destruct need as [|k]; [destruct N; reflexivity|]. destruct N as [|n']; [cbn in LN; lia|]. cbn [greedy].
    destruct (first_set (reduce B (ring_vec g c0))) as [p|].
    + cbn [firstn]. f_equal. apply IH. cbn in LN. lia.
    + apply (IH B (S k) (S n')). cbn in LN. lia.
Qed.

Lemma greedy_sorted g cands : forall B need, StronglySorted (fun a b : ring => (length a <= length b)%nat) cands ->
  StronglySorted (fun a b : ring => (length a <= length b)%nat) (greedy g B cands need).
Proof.
  induction cands as [|c0 cands IH]; intros B need S.
  - destruct need; constructor.
  - destruct need as [|k]; [constructor|]. inversion S as [|? ? S' H0]; subst. cbn [greedy].
    destruct (first_set (reduce B (ring_vec g c0))) as [p|].
    + constructor; [apply IH; exact S'|]. apply Forall_forall. intros x Hx. apply greedy_incl in Hx. rewrite Forall_forall in H0. apply H0. exact Hx.
    + apply IH. exact S'.
Qed.

Lemma sorted_map_length l : StronglySorted (fun a b : ring => (length a <= length b)%nat) l -> StronglySorted le (map (@length Z) l).
Proof.
  induction 1 as [|a l _ IH H]; cbn; constructor; [exact IH|]. apply Forall_forall. intros x Hx. apply in_map_iff in Hx.
  destruct Hx as [r [E Hr]]. subst x. rewrite Forall_forall in H. apply H. exact Hr.
Qed.

Lemma cnt_map_length L (l : list ring) : cnt L (map (@length Z) l) = length (filter (le_len L) l).
Proof. unfold cnt, le_len. induction l as [|a l IH]; [reflexivity|]. cbn. destruct (Nat.leb (length a) L); cbn; rewrite IH; reflexivity. Qed.

Lemma total_size_nsum rs : total_size rs = Z.of_nat (nsum (map (@length Z) rs)).
Proof. unfold total_size, nsum, zlen. induction rs as [|r rs IH]; [reflexivity|]. cbn [fold_right map]. rewrite IH. lia. Qed.

Lemma insert_by_len_sorted r l : StronglySorted (fun a b : ring => (length a <= length b)%nat) l ->
  StronglySorted (fun a b : ring => (length a <= length b)%nat) (insert_by_len r l).
Proof.
  induction l as [|x l IH]; intros S; cbn; [constructor; constructor|]. inversion S as [|? ? Sl Hx]; subst.
  destruct (Nat.leb_spec (length r) (length x)) as [Le|Gt].
  - constructor; [exact S|]. constructor; [exact Le|]. eapply Forall_impl; [|exact Hx]. intros y Hy. cbn in Hy. lia.
  - constructor; [apply IH; exact Sl|]. apply Forall_forall. intros y Hy. apply insert_by_len_In in Hy.
    destruct Hy as [Hy|Hy]; [subst; lia | rewrite Forall_forall in Hx; apply Hx; exact Hy].
Qed.

Lemma sort_by_len_sorted l : StronglySorted (fun a b : ring => (length a <= length b)%nat) (sort_by_len l).
Proof. induction l as [|a l IH]; cbn; [constructor | apply insert_by_len_sorted; exact IH]. Qed.

(* the greedy selection has minimum total size among all linearly independent families of the same cardinality drawn from
   the (sorted) candidate list *)
Theorem greedy_min_weight g cands need T :
  StronglySorted (fun a b : ring => (length a <= length b)%nat) cands ->
  incl T cands -> ~ dependent (map (ring_vec g) T) ->
  length T = length (greedy g [] cands need) ->
  total_size (greedy g [] cands need) <= total_size T.
Proof.
  intros Hs Hi Hd HL. set (Ginf := greedy g [] cands (length cands)).
  assert (EG : greedy g [] cands need = firstn (length T) Ginf).
  { rewrite HL. rewrite (greedy_firstn g cands [] need (length cands) (le_n _)). fold Ginf.
    rewrite firstn_length. destruct (Nat.le_gt_cases need (length Ginf)) as [Le|Gt].
    - rewrite Nat.min_l by exact Le. reflexivity.
    - rewrite Nat.min_r by lia. rewrite !firstn_all2 by lia. reflexivity. }
  rewrite EG, !total_size_nsum. apply inj_le. rewrite <- firstn_map.
  replace (length T) with (length (map (@length Z) T)) by apply map_length.
  apply dominate_sum.
  - apply sorted_map_length. apply greedy_sorted. exact Hs.
  - intros L. rewrite !cnt_map_length. apply (greedy_threshold_count g cands T L Hs Hi Hd).
Qed.

(* for mcb_ref: minimum total size among all independent families of its candidates (Horton candidates and one family of
   fundamental cycles) with as many rings.
   PARTIAL with respect to "mcb_ref is a minimum cycle basis": Horton's theorem (some minimum cycle basis consists of
   candidates only) is not proved. *)
Theorem mcb_ref_min_among_candidates g T :
  incl T (mcb_candidates g) -> ~ dependent (map (ring_vec g) T) -> length T = length (mcb_ref g) ->
  total_size (mcb_ref g) <= total_size T.
Proof.
  intros Hi Hd HL. unfold mcb_ref in *. apply greedy_min_weight; [apply sort_by_len_sorted | | exact Hd | exact HL].
  intros x Hx. apply sort_by_len_In. apply Hi. exact Hx.
Qed.

(* an accepted ring list is independent in this sense *)
Lemma accepted_independent g rs : is_cycle_basis g rs = true -> ~ dependent (map (ring_vec g) rs).
Proof.
  unfold is_cycle_basis. rewrite !andb_true_iff. intros [_ H]. apply independent_b_indep. exact H.
Qed.

(* hence: an sssr output accepted by the checker whose rings are all Horton candidates cannot be smaller than mcb_ref *)
Corollary accepted_candidates_not_smaller g rs : is_cycle_basis g rs = true -> incl rs (mcb_candidates g) ->
  length rs = length (mcb_ref g) -> total_size (mcb_ref g) <= total_size rs.
Proof. intros H Hi HL. apply mcb_ref_min_among_candidates; [exact Hi | apply (accepted_independent g rs H) | exact HL]. Qed.

(* the same up to the spelling of the rings: it is enough that every ring of T has the bonds (and size) of some candidate *)
Definition same_cycle (g : graph) (t c : ring) : Prop := ring_vec g c = ring_vec g t /\ length c = length t.

Theorem mcb_ref_min_among_candidate_cycles g T :
  (forall t, In t T -> exists c, In c (mcb_candidates g) /\ same_cycle g t c) ->
  ~ dependent (map (ring_vec g) T) -> length T = length (mcb_ref g) ->
  total_size (mcb_ref g) <= total_size T.
Proof.
  intros Hc Hd HL.
  assert (Ex : exists T', incl T' (mcb_candidates g) /\ map (ring_vec g) T' = map (ring_vec g) T /\ map (@length Z) T' = map (@length Z) T).
  { clear Hd HL. induction T as [|t T IH]; [exists []; repeat split; intros x []|].
    destruct IH as [T' [I1 [I2 I3]]]; [intros u Hu; apply Hc; right; exact Hu|].
    destruct (Hc t (or_introl eq_refl)) as [c [Ic [E1 E2]]]. exists (c :: T'). repeat split.
    - intros x [Hx|Hx]; [subst; exact Ic | apply I1; exact Hx].
    - cbn. rewrite E1, I2. reflexivity.
    - cbn. rewrite E2, I3. reflexivity. }
  destruct Ex as [T' [I1 [I2 I3]]].
  rewrite (total_size_nsum T), <- I3, <- total_size_nsum. apply mcb_ref_min_among_candidates.
  - exact I1.
  - rewrite I2. exact Hd.
  - rewrite <- HL. apply (f_equal (@length nat)) in I3. rewrite !map_length in I3. exact I3.
Qed.

(* ---------- non-vacuity ---------- *)
Lemma incl_b_sound (T l : list ring) : forallb (fun t => existsb (list_eqb Z.eqb t) l) T = true -> incl T l.
Proof.
  intros H x Hx. rewrite forallb_forall in H. specialize (H x Hx). apply existsb_exists in H. destruct H as [y [Hy E]].
  apply list_eqb_Z_true in E. subst y. exact Hy.
Qed.

(* on the dense 7-atom / 12-bond cage: six independent Horton candidates of total size 28, mcb_ref has total size 21 *)
Example ex_min_weight :
  let T := [[7;3;1;4;5]; [3;1;4;6;2]; [1;2;6;7;3]; [1;2;5;7;3]; [7;5;4;6]; [5;2;1;3]] in
  incl T (mcb_candidates cage_7_12) /\ ~ dependent (map (ring_vec cage_7_12) T) /\ length T = length (mcb_ref cage_7_12) /\
  total_size (mcb_ref cage_7_12) = 21 /\ total_size T = 28.
Proof.
  cbv zeta. split; [apply incl_b_sound; vm_compute; reflexivity|]. split; [apply independent_b_indep; vm_compute; reflexivity|].
  split; [vm_compute; reflexivity|]. split; vm_compute; reflexivity.
Qed.

(* ---------- the number of connected components does not depend on the pop order of the atom set ---------- *)
Lemma pigeon_rel {A B} (R : A -> B -> Prop) (l : list A) : forall (l' : list B), NoDup l ->
  (forall a, In a l -> exists b, In b l' /\ R a b) ->
  (forall a a' b, In a l -> In a' l -> R a b -> R a' b -> a = a') -> (length l <= length l')%nat.
Proof.
  induction l as [|a l IH]; intros l' N T Inj; [cbn; lia|]. inversion N as [|? ? Na Nl]; subst.
  destruct (T a (or_introl eq_refl)) as [b [Hb Rab]]. destruct (in_split b l' Hb) as [l1 [l2 E]]. subst l'.
  rewrite app_length. cbn [length]. rewrite Nat.add_succ_r, <- app_length. apply le_n_S. apply IH; [exact Nl | |].
  - intros a0 H0. destruct (T a0 (or_intror H0)) as [b0 [Hb0 R0]]. exists b0. split; [|exact R0].
    apply in_app_or in Hb0. apply in_or_app. destruct Hb0 as [H|[H|H]]; [left; exact H | | right; exact H].
    subst b0. exfalso. apply Na. rewrite (Inj a a0 b (or_introl eq_refl) (or_intror H0) Rab R0). exact H0.
  - intros x x' y Hx Hx'. apply Inj; right; assumption.
Qed.

Lemma NoDup_app_inv {A} (a b : list A) : NoDup (a ++ b) -> NoDup a /\ NoDup b /\ forall x, In x a -> ~ In x b.
Proof.
  induction a as [|x a IH]; intros N; [split; [constructor | split; [exact N | intros x []]]|].
  cbn in N. inversion N as [|? ? Nx Na]; subst. destruct (IH Na) as [A1 [A2 A3]]. split; [|split; [exact A2|]].
  - constructor; [|exact A1]. intros I. apply Nx. apply in_or_app. left. exact I.
  - intros y [Hy|Hy] Hb; [subst; apply Nx; apply in_or_app; right; exact Hb | apply (A3 y Hy Hb)].
Qed.

Lemma partition_members (cs : list (list Z)) : NoDup (concat cs) -> (forall c, In c cs -> c <> []) ->
  NoDup cs /\ forall c c' u, In c cs -> In c' cs -> In u c -> In u c' -> c = c'.
Proof.
  induction cs as [|c0 cs IH]; intros N NE; [split; [constructor | intros c c' u []]|].
  cbn [concat] in N. destruct (NoDup_app_inv _ _ N) as [N0 [N1 D]].
  destruct (IH N1 (fun c H => NE c (or_intror H))) as [A1 A2].
  assert (X : forall c u, In c cs -> In u c0 -> In u c -> False).
  { intros c u Hc H0 Hu. apply (D u H0). apply in_concat. exists c. tauto. }
  split.
  - constructor; [|exact A1]. intros I. pose proof (NE c0 (or_introl eq_refl)) as Ne. destruct c0 as [|u c0']; [congruence|].
    apply (X (u :: c0') u I); left; reflexivity.
  - intros c c' u [Hc|Hc] [Hc'|Hc'] Hu Hu'.
    + congruence.
    + subst c. exfalso. apply (X c' u Hc' Hu Hu').
    + subst c'. exfalso. apply (X c u Hc Hu' Hu).
    + apply (A2 c c' u Hc Hc' Hu Hu').
Qed.

Definition is_partition (g : graph) (cs : list (list Z)) : Prop :=
  (forall v, In v (keys g) -> exists c, In c cs /\ In v c) /\
  NoDup (concat cs) /\
  (forall c, In c cs -> c <> [] /\ forall u, In u c -> In u (keys g) /\ forall v, In v c <-> reach g u v).

Lemma partition_count_le g cs1 cs2 : is_partition g cs1 -> is_partition g cs2 -> (length cs1 <= length cs2)%nat.
Proof.
  intros [_ [N1 C1]] [T2 [_ C2]].
  destruct (partition_members cs1 N1 (fun c H => proj1 (C1 c H))) as [Nd Same].
  apply (pigeon_rel (fun c1 c2 : list Z => In c2 cs2 /\ exists u, In u c1 /\ In u c2) cs1 cs2 Nd).
  - intros c Hc. destruct (C1 c Hc) as [Ne Hu]. destruct c as [|u c']; [congruence|].
    destruct (Hu u (or_introl eq_refl)) as [Ku _]. destruct (T2 u Ku) as [c2 [Hc2 Iu]]. exists c2. split; [exact Hc2|].
    split; [exact Hc2|]. exists u. split; [left; reflexivity | exact Iu].
  - intros c c' b Hc Hc' [Ib [u [U1 U2]]] [_ [u' [U1' U2']]].
    (* u and u' lie in one component b of the second partition: they reach each other, so u' lies in c as well *)
    destruct (C2 b Ib) as [_ Hbu]. destruct (Hbu u U2) as [_ Ru]. assert (R : reach g u u') by (apply Ru; exact U2').
    destruct (C1 c Hc) as [_ Hcu]. destruct (Hcu u U1) as [_ Rc]. assert (U3 : In u' c) by (apply Rc; exact R).
    apply (Same c c' u' Hc Hc' U3 U1').
Qed.

Theorem components_count_order_independent g o1 o2 : gwf g ->
  (forall x, In x o1 <-> In x (keys g)) -> (forall x, In x o2 <-> In x (keys g)) ->
  length (components_order g o1) = length (components_order g o2).
Proof.
  intros W H1 H2.
  destruct (components_partition g o1 W H1) as [cs1 [E1 P1]]. destruct (components_partition g o2 W H2) as [cs2 [E2 P2]].
  unfold connected_components_order in E1, E2. rewrite (gwf_closed_b g W) in E1, E2. inversion E1; inversion E2; subst cs1 cs2.
  apply Nat.le_antisymm; apply (partition_count_le g); assumption.
Qed.

(* hence rings_count does not depend on the order in which set.pop() hands out the atoms *)
Theorem rings_count_order_independent g order : gwf g -> (forall x, In x order <-> In x (keys g)) ->
  rings_count_order g order = cyclomatic g.
Proof.
  intros W H. rewrite (rings_count_cyclomatic g order W). unfold cyclomatic.
  rewrite (components_count_order_independent g order (keys g) W H (fun x => iff_refl _)). reflexivity.
Qed.
