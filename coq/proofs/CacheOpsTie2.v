(* C13 -- the loops of Graph.copy and MoleculeContainer.substructure that build the adjacency of the new molecule (one new Bond
   object per bond, stored in both rows through the back-connection test `m in cb`), translated from /repo's source by
   tools/gen_cacheops.py, are EQUAL to the hand-written gcopy_rows of Model.Cache that copy(), __enter__ (the backup), union,
   substructure, __and__, __sub__, augmented_substructure and split go through -- on every adjacency whose rows are dicts (no key
   twice in a row). *)
From Coq Require Import ZArith List Bool Lia.
From Model Require Import PyBase Cache.
From Gen Require Import CacheOps.
From Proofs Require Import CacheProofs CacheWf CacheOpsTie.
Import ListNotations.
Open Scope Z_scope.

Definition rows_are_dicts (rows : adjacency) : Prop := Forall (fun nr => NoDup (keys (snd nr))) rows.

(* the generic inner step: what both translated steps are instances of *)
Definition gstep (keep : Z -> bool) (f : bcell -> pyres bcell) (cb : adjacency) (n m : Z) (bond : ref) (h : hp) (cbn : list (Z * ref))
  : pyres rowst :=
  if zmem m (keys cb) then store_lookup cb m n h cbn m
  else if keep m then store_copy f bond h cbn m else Ok (h, cbn).

Lemma row_loop_eq keep f cb n : forall r h acc,
  NoDup (keys r) -> (forall x, In x (keys acc) -> ~ In x (keys r)) ->
  row_loop (gstep keep f cb n) r h acc =
  match gcopy_row keep f h cb n r with Ok (h', l) => Ok (h', acc ++ l) | Err e => Err e end.
Proof.
  induction r as [|[m rf] t IH]; intros h acc Hnd Hdis; simpl.
  - rewrite app_nil_r. reflexivity.
  - inversion Hnd as [|? ? Hm Ht]; subst.
    assert (Hacc : ~ In m (keys acc)) by (intros Hin; apply (Hdis m Hin); left; reflexivity).
    assert (Hdis' : forall (v : ref) y, In y (keys (acc ++ [(m, v)])) -> ~ In y (keys t)).
    { intros v y Hy. rewrite keys_app in Hy. apply in_app_or in Hy. destruct Hy as [Hy|[Hy|[]]].
      - intros Hyt. apply (Hdis y Hy). right. exact Hyt.
      - simpl in Hy. subst y. exact Hm. }
    unfold gstep at 1. rewrite zmem_keys_zget. unfold store_lookup, store_copy.
    destruct (zget cb m) as [rowm|].
    + destruct (zget rowm n) as [x|]; [|reflexivity].
      rewrite zset_notin_app by exact Hacc. rewrite IH; [|exact Ht|apply (Hdis' x)].
      destruct (gcopy_row keep f h cb n t) as [[h' l]|e]; [|reflexivity]. rewrite <- app_assoc. reflexivity.
    + destruct (keep m).
      * destruct (hget h rf) as [cl|]; [|reflexivity]. destruct (f cl) as [cl'|e]; [|reflexivity].
        unfold halloc. simpl. rewrite zset_notin_app by exact Hacc.
        rewrite IH; [|exact Ht|apply (Hdis' (h_next h))].
        destruct (gcopy_row keep f _ cb n t) as [[h' l]|e]; [|reflexivity]. rewrite <- app_assoc. reflexivity.
      * apply IH; [exact Ht|]. intros x Hx Hxt. apply (Hdis x Hx). right. exact Hxt.
Qed.

Lemma rows_loop_eq keep f : forall rows h cb, rows_are_dicts rows ->
  rows_loop (gstep keep f) rows h cb = gcopy_rows keep f h cb rows.
Proof.
  induction rows as [|[n r] t IH]; intros h cb Hd; simpl; [reflexivity|].
  inversion Hd as [|? ? Hr Ht]; subst. simpl in Hr.
  rewrite row_loop_eq; [|exact Hr|intros x []].
  destruct (gcopy_row keep f h (zset cb n []) n r) as [[h1 l]|e]; [|reflexivity]. simpl. apply IH. exact Ht.
Qed.

Lemma copy_step_is : forall cb n m bond h cbn, gen_copy_bonds_step cb n m bond h cbn = gstep (fun _ => true) fcopy cb n m bond h cbn.
Proof. reflexivity. Qed.
Lemma sub_step_is : forall atoms cb n m bond h cbn,
  gen_sub_bonds_step atoms cb n m bond h cbn = gstep (fun m => zmem m atoms) fsub cb n m bond h cbn.
Proof. reflexivity. Qed.
Lemma rows_loop_ext s1 s2 : (forall cb n m b h c, s1 cb n m b h c = s2 cb n m b h c) ->
  forall rows h cb, rows_loop s1 rows h cb = rows_loop s2 rows h cb.
Proof.
  intros H. induction rows as [|[n r] t IH]; intros h cb; simpl; [reflexivity|].
  assert (E : forall r h c, row_loop (s1 (zset cb n []) n) r h c = row_loop (s2 (zset cb n []) n) r h c).
  { induction r0 as [|[m b] t0 IH0]; intros h0 c; simpl; [reflexivity|]. rewrite H.
    destruct (s2 (zset cb n []) n m b h0 c) as [[h1 c1]|e]; [apply IH0|reflexivity]. }
  rewrite E. destruct (row_loop (s2 (zset cb n []) n) r h []) as [[h1 c1]|e]; [apply IH|reflexivity].
Qed.

(* Graph.copy *)
Theorem gen_copy_bonds_eq : forall h o, rows_are_dicts (o_adj o) -> gen_copy_bonds h o = copy_rows h [] (o_adj o).
Proof.
  intros h o Hd. unfold gen_copy_bonds, copy_rows. rewrite (rows_loop_ext _ _ copy_step_is). apply rows_loop_eq. exact Hd.
Qed.
(* MoleculeContainer.substructure *)
Lemma rows_of_dicts adj : rows_are_dicts adj -> forall sel rows, rows_of adj sel = Ok rows -> rows_are_dicts rows.
Proof.
  intros Hd. induction sel as [|n t IH]; intros rows H; simpl in H.
  - inversion H. constructor.
  - destruct (zget adj n) as [r|] eqn:E; [|discriminate]. destruct (rows_of adj t) as [l|e]; [|discriminate].
    inversion H; subst. constructor; [|apply IH; reflexivity].
    simpl. apply zget_In in E. unfold rows_are_dicts in Hd. rewrite Forall_forall in Hd. exact (Hd _ E).
Qed.
Theorem gen_sub_bonds_eq : forall sel h o, rows_are_dicts (o_adj o) -> gen_sub_bonds sel h o = sub_rows h o sel.
Proof.
  intros sel h o Hd. unfold gen_sub_bonds, sub_rows. destruct (rows_of (o_adj o) sel) as [rows|e] eqn:E; [|reflexivity].
  rewrite (rows_loop_ext _ _ (sub_step_is sel)). apply rows_loop_eq. exact (rows_of_dicts _ Hd _ _ E).
Qed.

(* every well-formed molecule (in particular every live molecule and every backup of a state satisfying W) has dict rows *)
Lemma nd_rows_are_dicts adj : nd adj -> rows_are_dicts adj.
Proof.
  intros [N H]. unfold rows_are_dicts. rewrite Forall_forall. intros [n r] Hin. simpl. apply (H n r). apply In_zget_nodup; assumption.
Qed.

(* in every state satisfying W the copy loops the model runs on the current molecule are the translated ones *)
From Proofs Require Import CacheCopy CacheCoh CacheWorld.
Theorem copy_loops_translated_W : forall s, W s ->
  gen_copy_bonds (s_heap s) (s_cur s) = copy_rows (s_heap s) [] (o_adj (s_cur s)) /\
  forall sel, gen_sub_bonds sel (s_heap s) (s_cur s) = sub_rows (s_heap s) (s_cur s) sel.
Proof.
  intros s HW. pose proof (W_cur s HW) as [[Hwf _] _]. pose proof (nd_rows_are_dicts _ (wf_nd _ _ _ Hwf)) as Hd.
  split; [apply gen_copy_bonds_eq; exact Hd | intros sel; apply gen_sub_bonds_eq; exact Hd].
Qed.
(* non-vacuity: the translated Graph.copy loop on a loaded C-C-O makes ONE new object per bond, stored in both rows (object identities
   renamed by first occurrence: rows 1:[a] 2:[a b] 3:[b]); the translated substructure loop on {2, 3} keeps only the bond 2-3 *)
Example gen_copy_loops_example :
  let s := init [(1, mkCore 6 None 0 false); (2, mkCore 6 None 0 false); (3, mkCore 8 None 0 false)]
                [(1, [(2, 1)]); (2, [(1, 1); (3, 1)]); (3, [(2, 1)])] [] [] in
  rows_are_dicts (o_adj (s_cur s)) /\
  match gen_copy_bonds (s_heap s) (s_cur s) with
  | Ok (h', cb) => canon (refs_of_adj cb) = [0; 0; 1; 1] /\ keys cb = [1; 2; 3] /\
                   forallb (fun r => negb (zmem r (refs_of_adj (o_adj (s_cur s))))) (refs_of_adj cb) = true
  | Err _ => False
  end /\
  match gen_sub_bonds [2; 3] (s_heap s) (s_cur s) with
  | Ok (h', sb) => canon (refs_of_adj sb) = [0; 0] /\ map (fun nr => (fst nr, keys (snd nr))) sb = [(2, [3]); (3, [2])]
  | Err _ => False
  end.
Proof.
  split.
  - vm_compute. repeat constructor; simpl; intuition discriminate.
  - vm_compute. repeat split; reflexivity.
Qed.
