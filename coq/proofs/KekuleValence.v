(* C05 extension -- the carbon hydrogen theorem: the hydrogen count calc_implicit gives a neutral non-radical aromatic ring
   carbon by its aromatic special case equals the count the generated valence rules of carbon give it in EVERY Kekule
   rewriting of its bonds (one aromatic bond becomes double, the others single). *)
From Coq Require Import ZArith List String Bool Lia.
From Model Require Import PyBase Graph PeriodicTable Valence Kekule.
From Gen Require Import Elements.
From Proofs Require Import KekuleProofs.
Import ListNotations.
Open Scope Z_scope.

(* atom.valence_rules of a neutral non-radical carbon, from the generated tables *)
Definition carbon_rules : Z -> pyres (list rule) :=
  lookup_rules (match from_number 6 with Some e => compiled_rules e | None => Err OtherError end) 0 false.

Definition vorder (x : Z * option Z) : Z := fst x.
Definition esum (nv : nview) : Z := fold_right (fun x s => (if (vorder x =? 4) || (vorder x =? 8) then 0 else vorder x) + s) 0 nv.
Definition c4 (nv : nview) : Z := countb (fun x => vorder x =? 4) nv.
Definition known (nv : nview) : bool := forallb (fun x => match snd x with Some _ => true | None => false end) nv.
(* nv' is a Kekule rewriting of nv: same neighbours, an aromatic bond becomes 1 or 2, the rest is unchanged ... *)
Definition kek_step (nv nv' : nview) : bool :=
  forallb2 (fun x y => option_eqb Z.eqb (snd x) (snd y) &&
                       (if vorder x =? 4 then (vorder y =? 1) || (vorder y =? 2) else vorder y =? vorder x)) nv nv'.
(* ... and exactly one of them becomes double *)
Fixpoint new2 (nv nv' : nview) : Z :=
  match nv, nv' with
  | x :: r, y :: s => (if (vorder x =? 4) && (vorder y =? 2) then 1 else 0) + new2 r s
  | _, _ => 0
  end.

Lemma scan_calc_known : forall nv s d a, known nv = true ->
  exists d', scan_calc true nv s d a = SDone (s + esum nv) d' (a + c4 nv).
Proof.
  induction nv as [|[o z] r IH]; intros s d a K.
  - exists d. unfold esum, c4. simpl. rewrite !Z.add_0_r. reflexivity.
  - cbn [known forallb] in K. apply andb_true_iff in K. destruct K as [Kz K]. cbn [snd] in Kz.
    destruct z as [zn|]; [|discriminate]. cbn [scan_calc esum c4 countb fold_right vorder fst].
    destruct (o =? 4) eqn:E4.
    + destruct (IH s d (a + 1) K) as [d' H]. exists d'. rewrite H. cbn [orb]. f_equal; unfold c4, esum; lia.
    + cbn [orb]. destruct (o =? 8) eqn:E8; cbn [negb].
      * destruct (IH s d a K) as [d' H]. exists d'. rewrite H. f_equal; unfold c4, esum; lia.
      * destruct (IH (s + o) (eincr d (o, zn)) a K) as [d' H]. exists d'. rewrite H. f_equal; unfold c4, esum; lia.
Qed.

Lemma c4_cons o z r : c4 ((o, z) :: r) = (if o =? 4 then 1 else 0) + c4 r.
Proof. reflexivity. Qed.
Lemma esum_cons o z r : esum ((o, z) :: r) = (if (o =? 4) || (o =? 8) then 0 else o) + esum r.
Proof. reflexivity. Qed.
Lemma new2_cons o z r o' z' s : new2 ((o, z) :: r) ((o', z') :: s) = (if (o =? 4) && (o' =? 2) then 1 else 0) + new2 r s.
Proof. reflexivity. Qed.
Lemma known_cons o z r : known ((o, z) :: r) = match z with Some _ => true | None => false end && known r.
Proof. reflexivity. Qed.

Lemma kek_step_facts : forall nv nv', kek_step nv nv' = true -> known nv = true ->
  known nv' = true /\ c4 nv' = 0 /\ esum nv' = esum nv + c4 nv + new2 nv nv'.
Proof.
  unfold kek_step. induction nv as [|[o z] r IH]; intros [|[o' z'] s] E K; simpl in E; try discriminate.
  - repeat split; reflexivity.
  - apply andb_true_iff in E. destruct E as [E1 E2]. apply andb_true_iff in E1. destruct E1 as [Ez Eo].
    rewrite known_cons in K. apply andb_true_iff in K. destruct K as [Kz K].
    destruct (IH s E2 K) as [K' [C' S']]. unfold vorder in Eo. cbn [fst snd] in Ez, Eo.
    assert (Z' : match z' with Some _ => true | None => false end = true).
    { destruct z, z'; simpl in Ez; try discriminate; auto. }
    rewrite known_cons, !c4_cons, !esum_cons, new2_cons, K', Z', C', S'.
    destruct (o =? 4) eqn:E4.
    + apply orb_true_iff in Eo. destruct Eo as [Eo|Eo]; apply Z.eqb_eq in Eo; subst o'; cbn [Z.eqb andb orb Pos.eqb]; repeat split; auto; lia.
    + apply Z.eqb_eq in Eo. subst o'. rewrite E4. cbn [andb orb].
      destruct (o =? 8); repeat split; auto; lia.
Qed.

Lemma any_rule_first h d : first_rule [mkRule [] [] h] d = Some h.
Proof. reflexivity. Qed.

Lemma carbon_rules_3 : carbon_rules 3 = Ok [mkRule [] [] 1].
Proof. vm_compute. reflexivity. Qed.
Lemma carbon_rules_4 : carbon_rules 4 = Ok [mkRule [] [] 0].
Proof. vm_compute. reflexivity. Qed.

(* the theorem: whenever the aromatic special case gives a neutral non-radical carbon a hydrogen count, every Kekule
   rewriting of its bonds with exactly one new double bond gets the same count from the generated rules of carbon *)
Theorem carbon_h_kekule : forall nv nv' h,
  known nv = true -> 0 < c4 nv ->
  calc_atom carbon_rules 6 0 false nv = Ok (Some h) ->
  kek_step nv nv' = true -> new2 nv nv' = 1 ->
  calc_atom carbon_rules 6 0 false nv' = Ok (Some h).
Proof.
  intros nv nv' h K A C S N.
  destruct (kek_step_facts _ _ S K) as [K' [C4' ES']].
  unfold calc_atom in *.
  change ((0 =? 0) && negb false && (6 =? 6)) with true in *. change (6 =? 1) with false in *. cbv iota in *.
  destruct (scan_calc_known nv 0 [] 0 K) as [d H]. destruct (scan_calc_known nv' 0 [] 0 K') as [d' H'].
  rewrite H in C. rewrite H'. rewrite C4', ES', N. cbn [Z.add]. 
  replace (0 + c4 nv) with (c4 nv) in C by lia. replace (0 + esum nv) with (esum nv) in C by lia.
  replace (0 + (esum nv + c4 nv + 1)) with (esum nv + c4 nv + 1) by lia. change (0 + 0) with 0. cbn [Z.eqb negb].
  destruct (c4 nv =? 2) eqn:A2.
  - apply Z.eqb_eq in A2. rewrite A2.
    destruct (esum nv =? 0) eqn:S0.
    + apply Z.eqb_eq in S0. rewrite S0. injection C as C. subst h. change (0 + 2 + 1) with 3. rewrite carbon_rules_3. reflexivity.
    + destruct (esum nv =? 1) eqn:S1; [|discriminate]. apply Z.eqb_eq in S1. rewrite S1. injection C as C. subst h.
      change (1 + 2 + 1) with 4. rewrite carbon_rules_4. reflexivity.
  - destruct (c4 nv =? 3) eqn:A3.
    + apply Z.eqb_eq in A3. rewrite A3. destruct (esum nv =? 0) eqn:S0; simpl in C; [|discriminate].
      apply Z.eqb_eq in S0. rewrite S0. injection C as C. subst h. change (0 + 3 + 1) with 4. rewrite carbon_rules_4. reflexivity.
    + destruct (c4 nv =? 0) eqn:A0; [apply Z.eqb_eq in A0; lia|]. simpl in C. discriminate.
Qed.

(* instances: benzene CH, substituted ring carbon, ring-fusion carbon, with any neighbour elements *)
Theorem carbon_h_examples : forall z1 z2 z3,
  calc_atom carbon_rules 6 0 false [(4, Some z1); (4, Some z2)] = Ok (Some 1) /\
  calc_atom carbon_rules 6 0 false [(2, Some z1); (1, Some z2)] = Ok (Some 1) /\
  calc_atom carbon_rules 6 0 false [(4, Some z1); (4, Some z2); (1, Some z3)] = Ok (Some 0) /\
  calc_atom carbon_rules 6 0 false [(1, Some z1); (2, Some z2); (1, Some z3)] = Ok (Some 0) /\
  calc_atom carbon_rules 6 0 false [(4, Some z1); (4, Some z2); (4, Some z3)] = Ok (Some 0) /\
  calc_atom carbon_rules 6 0 false [(1, Some z1); (1, Some z2); (2, Some z3)] = Ok (Some 0) /\
  (* and the rewriting with two new double bonds is a different atom: the hypothesis new2 = 1 is needed *)
  calc_atom carbon_rules 6 0 false [(2, Some z1); (2, Some z2)] = Ok (Some 0).
Proof.
  intros. assert (A : forall nv h, known nv = true -> calc_atom carbon_rules 6 0 false nv = Ok (Some h) -> True) by auto.
  repeat split; try reflexivity.
  all: unfold calc_atom; cbn [Z.eqb andb negb scan_calc Z.add]; try rewrite carbon_rules_3; try rewrite carbon_rules_4; reflexivity.
Qed.

(* ------------------------------------------------------------------------------------------------
   molecule level: in every Kekule form accepted by kekule_rel, calc_implicit gives each neutral non-radical ring carbon
   (without exocyclic double bond) exactly the hydrogen count its aromatic special case gave before
   ------------------------------------------------------------------------------------------------ *)
Lemma forallb2_In_combine {A B : Type} (f : A -> B -> bool) : forall l l' x y,
  forallb2 f l l' = true -> In (x, y) (combine l l') -> f x y = true.
Proof.
  induction l as [|a r IH]; intros [|b s] x y E I; simpl in *; try contradiction.
  apply andb_true_iff in E. destruct E as [E1 E2]. destruct I as [I|I]; [injection I as I1 I2; subst; exact E1 | eauto].
Qed.

Lemma core_num g g' : core_of g = core_of g' -> forall m, option_map a_num (atom_of g m) = option_map a_num (atom_of g' m).
Proof.
  unfold core_of, atom_of. generalize (m_atoms g') as l'. generalize (m_atoms g) as l.
  induction l as [|[k a] r IH]; intros [|[k' a'] s] E m; simpl in *; try discriminate; auto.
  injection E as E1 E2 E3 E4 E5 E6. subst k'. destruct (m =? k); [simpl; f_equal; exact E2 | apply IH; exact E6].
Qed.

Lemma c4_nview g l : c4 (nview_of g l) = arom_deg l.
Proof. unfold c4, nview_of, arom_deg. induction l as [|[m b] r IH]; simpl; auto. unfold ord_is, vorder in *. simpl. rewrite IH. reflexivity. Qed.

Lemma new2_nview g g' : forall l l', new2 (nview_of g l) (nview_of g' l') = new_doubles l l'.
Proof.
  unfold new_doubles, nview_of. induction l as [|[m b] r IH]; intros [|[m' b'] s]; simpl; auto.
  unfold ord_is, vorder. simpl. rewrite IH. reflexivity.
Qed.

Lemma kek_step_nview g g' : core_of g = core_of g' -> forall l l', nbl_step l l' = true -> kek_step (nview_of g l) (nview_of g' l') = true.
Proof.
  intros C. unfold nbl_step, kek_step, nview_of. induction l as [|[m b] r IH]; intros [|[m' b'] s] E; simpl in *; try discriminate; auto.
  apply andb_true_iff in E. destruct E as [E1 E2]. apply andb_true_iff in E1. destruct E1 as [Em Eb].
  apply Z.eqb_eq in Em. subst m'. rewrite (IH _ E2), andb_true_r. unfold vorder. cbn [fst snd].
  rewrite (core_num _ _ C m). apply andb_true_iff. split.
  - destruct (option_map a_num (atom_of g' m)); simpl; auto. apply Z.eqb_refl.
  - unfold bond_step in Eb. apply andb_true_iff in Eb. destruct Eb as [_ Eb]. exact Eb.
Qed.

Theorem kekule_rel_carbon_h : forall g g' n l l' a h,
  kekule_rel_core g g' = true ->
  In ((n, l), (n, l')) (combine (m_adj g) (m_adj g')) ->
  atom_of g n = Some a -> a_num a = 6 -> a_chg a = 0 -> a_rad a = false ->
  arom_deg l <> 0 -> has_ord 2 l = false -> known (nview_of g l) = true ->
  calc_atom carbon_rules 6 0 false (nview_of g l) = Ok (Some h) ->
  calc_atom carbon_rules 6 0 false (nview_of g' l') = Ok (Some h).
Proof.
  intros g g' n l l' a h E I A N6 C0 R0 AD H2 K CA.
  pose proof (kekule_rel_preserves _ _ E) as [_ [CO _]].
  apply core_split in E. destruct E as [_ [Eb Ec]].
  pose proof (forallb2_In_combine _ _ _ _ _ Eb I) as SB. cbn [fst snd] in SB. apply andb_true_iff in SB. destruct SB as [_ SB].
  pose proof (forallb2_In_combine _ _ _ _ _ Ec I) as SC. cbn [fst snd] in SC.
  destruct (arom_deg l =? 0) eqn:AD0; [apply Z.eqb_eq in AD0; contradiction|].
  assert (ND : new_doubles l l' = 1).
  { unfold atom_class in SC. rewrite A, H2, N6, C0, R0 in SC. cbn [andb] in SC.
    destruct (has_ord 3 l); [discriminate|].
    unfold classify_atom in SC. cbn [Z.eqb] in SC. change (6 =? 6) with true in SC. change (0 =? 0) with true in SC. cbv iota in SC.
    destruct ((neighbors l =? 2) || (neighbors l =? 3)); [|discriminate].
    unfold dbl_ok, dclass_of in SC. apply Z.eqb_eq in SC. exact SC. }
  apply carbon_h_kekule with (nv := nview_of g l); auto.
  - rewrite c4_nview. pose proof (countb_nonneg (ord_is 4) l). unfold arom_deg in *. lia.
  - apply kek_step_nview; assumption.
  - rewrite new2_nview. exact ND.
Qed.
