From Coq Require Import ZArith List String Bool.
From Model Require Import PyBase Graph PeriodicTable Standardize StandardizeMatch StandardizeHyd.
From Gen Require Import Elements StdRules.
Import ListNotations.
Open Scope Z_scope.

(* finite: on every valence-valid, hydrogen-atom-free instantiation of a rule of the regenerated tables (variants 0 1 2), and on
   what the pass sequence makes of it, implicify (explicify g) = g and explicify (implicify (explicify g)) = explicify g, with the
   REAL valence tables as the lookup; at least 40 of the 3 x 109 instantiations have hydrogens to move *)
Lemma inverse_sweep_b :
  forallb (fun v => forallb (fun r => let x := inverse_report v r in snd (fst x) && snd x) table_rules) [0; 1; 2]%nat = true /\
  (40 <=? List.length (filter (fun vr => fst (fst (inverse_report (fst vr) (snd vr))))
                              (flat_map (fun v => map (fun r => (v, r)) table_rules) [0; 1; 2]%nat)))%nat = true.
Proof. Time vm_compute. split; reflexivity. Qed.

Theorem inverse_on_instantiations v r : In v [0; 1; 2]%nat -> In r table_rules ->
  let g := vinstantiate v r in
  all_valid g = true -> no_h_atoms g = true -> inverse_b g = true.
Proof.
  intros Hv Hr g Hval Hnoh. destruct inverse_sweep_b as [H _]. rewrite forallb_forall in H. specialize (H v Hv). cbn beta in H.
  rewrite forallb_forall in H. specialize (H r Hr). cbn beta zeta in H. apply andb_true_iff in H. destruct H as [H _].
  unfold inverse_report in H. fold g in H. cbn [fst snd] in H. rewrite Hval, Hnoh in H. exact H.
Qed.
