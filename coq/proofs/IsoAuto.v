(* C07 extension: _get_automorphism_mapping(atoms = {n: class}, bonds) yields exactly the non-identity maps that send every
   component onto itself, keep the classes and, for every two atoms, the bonds -- each once. *)
From Coq Require Import ZArith List Bool Lia Permutation.
From Model Require Import PyBase Iso.
From Proofs Require Import IsoLazyProofs IsoMatchProofs IsoCompileProofs IsoProofs IsoExt.
Import ListNotations.
Local Open Scope Z_scope.

Lemma Forall2_impl_In {S T} (R R' : S -> T -> Prop) : forall l1 l2, Forall2 R l1 l2 ->
  (forall a b, In a l1 -> In b l2 -> R a b -> R' a b) -> Forall2 R' l1 l2.
Proof.
  induction 1 as [|a b l1 l2 H _ IH]; intros Hi; constructor.
  - apply Hi; [left; reflexivity | left; reflexivity | exact H].
  - apply IH. intros a' b' Ha Hb. apply Hi; right; assumption.
Qed.

Lemma NoDup_concat_nonempty {T} : forall (ls : list (list T)), NoDup (concat ls) -> (forall l, In l ls -> l <> []) -> NoDup ls.
Proof.
  induction ls as [|l ls IH]; intros Hn Hne; [constructor|]. cbn in Hn. constructor.
  - intros Hin. destruct l as [|x l']; [apply (Hne [] (or_introl eq_refl)); reflexivity|].
    apply (NoDup_app_disj _ _ x Hn); [left; reflexivity|]. apply in_concat. exists (x :: l'). split; [exact Hin | left; reflexivity].
  - apply IH; [apply (NoDup_app_r _ _ Hn) | intros l0 H0; apply Hne; right; exact H0].
Qed.

Lemma zdedup_length l : (length (zdedup l) <= length l)%nat.
Proof. induction l as [|x r IH]; cbn; [lia|]. destruct (zmem x r); cbn; lia. Qed.

Lemma zdedup_full l : length l = length (zdedup l) -> NoDup l.
Proof.
  induction l as [|x r IH]; cbn; intros H; [constructor|]. destruct (zmem x r) eqn:E.
  - pose proof (zdedup_length r). lia.
  - cbn in H. injection H as H. constructor; [intros Hin; apply zmem_In in Hin; congruence | apply IH; exact H].
Qed.

Section Auto.
  Variable B : Type.
  Variable beq : B -> B -> bool.
  Variable atoms : list (Z * Z).                         (* atom -> class (morgan number) *)
  Variable bonds : list (Z * list (Z * B)).
  Hypothesis wf : wf_adj atoms bonds.
  Variable comps : list (list (lentry Z B)).
  Variable clo : closures_t B.
  Hypothesis Hc : compile_query atoms bonds = Ok (comps, clo).

  Notation aof := (map (@fst4 Z B)).
  Notation emb := (induced_embedding Z.eqb beq atoms bonds atoms bonds).
  Notation tc := (map aof comps).
  Notation L := (concat (map aof comps)).

  Lemma c_ok : compiled_ok atoms bonds comps clo.
  Proof. apply (compile_query_spec _ _ _ _ wf _ _ Hc). Qed.

  (* the components of the graph itself, as the target components *)
  Lemma tc_ok : tcomps_ok Z B atoms bonds tc.
  Proof.
    pose proof c_ok as (P & Hl & Hcl). unfold tcomps_ok. split; [|split; [|split]].
    - intros y Hy. apply (Permutation_in _ (Permutation_sym P)) in Hy. apply in_concat in Hy. destruct Hy as (l & Hl' & Hy). eauto.
    - intros cand y m Hcand Hy Hm. apply in_map_iff in Hcand. destruct Hcand as (c & <- & Hcin). apply (Hcl c y m Hcin Hy Hm).
    - apply NoDup_concat_nonempty; [apply (comps_concat_NoDup Z B atoms bonds comps clo wf c_ok)|].
      intros l Hin. apply in_map_iff in Hin. destruct Hin as (c & <- & Hcin). destruct (Hl c Hcin) as [Hne _].
      destruct c; [congruence | discriminate].
    - intros c1 c2 y H1 H2 Hy1 Hy2. apply in_map_iff in H1. destruct H1 as (c1' & <- & G1). apply in_map_iff in H2. destruct H2 as (c2' & <- & G2).
      rewrite (same_comp Z B atoms bonds comps clo wf c_ok c1' c2' y G1 G2 Hy1 Hy2). reflexivity.
  Qed.

  (* what the code enumerates: one automorphism per component, glued *)
  Definition per_comp (f : mapping) : Prop :=
    exists fs, Forall2 (fun c fi => emb (aof c) (aof c) fi) comps fs /\ f = concat fs.

  (* f permutes the atoms of every component among themselves, keeps the classes and all bonds / non-bonds *)
  Definition class_automorphism (f : mapping) : Prop :=
    map fst f = L /\ NoDup (image f) /\
    (forall x y, In (x, y) f -> same_qcomp Z B comps x y /\ exists cl, zget atoms x = Some cl /\ zget atoms y = Some cl) /\
    (forall x1 y1 x2 y2, In (x1, y1) f -> In (x2, y2) f ->
       match bond_get bonds x1 x2, bond_get bonds y1 y2 with
       | Some qb, Some ob => beq qb ob = true
       | None, None => True
       | _, _ => False
       end).

  Lemma emb_keys_concat' : forall cs fs, Forall2 (fun c fi => emb (aof c) (aof c) fi) cs fs ->
    concat (map (@keys Z Z) fs) = concat (map aof cs) /\ Forall2 (fun k (fi : mapping) => map fst fi = k) (map aof cs) fs.
  Proof.
    induction 1 as [|c fi cs fs H _ IH]; [split; [reflexivity | constructor]|]. destruct IH as [I1 I2]. destruct H as (Hk & _).
    cbn. split; [rewrite I1; unfold keys; rewrite Hk; reflexivity | constructor; assumption].
  Qed.

  Lemma per_comp_class f : per_comp f -> class_automorphism f.
  Proof.
    intros (fs & F & ->).
    assert (F2 : forall cs fs', incl cs comps -> Forall2 (fun c fi => emb (aof c) (aof c) fi) cs fs' ->
                   Forall2 (fun cand (fi : mapping) => In cand tc /\ forall y, In y (image fi) -> In y cand) (map aof cs) fs').
    { intros cs fs' Hi F'. induction F' as [|c fi cs fs' H _ IH]; cbn; constructor.
      - split; [apply in_map; apply Hi; left; reflexivity|]. intros y Hy. unfold image in Hy. apply in_map_iff in Hy.
        destruct Hy as ([x y'] & E & Hxy). cbn in E. subst y'. destruct H as (_ & _ & Hat & _). apply (Hat x y Hxy).
      - apply IH. intros z Hz. apply Hi. right. exact Hz. }
    assert (M : multi_embedding Z Z B B Z.eqb beq atoms bonds atoms bonds tc comps None (concat fs)).
    { exists fs, tc. split; [reflexivity|]. split; [|split; [apply (F2 comps fs (incl_refl _) F) | apply tc_ok]].
      apply (Forall2_impl_In _ _ _ _ F). intros c fi _ _ E.
      apply (emb_scope_mono Z Z B B Z.eqb beq atoms bonds atoms bonds (aof c) (aof c) _ fi E).
      intros y Hy. cbn. unfold image in Hy. apply in_map_iff in Hy. destruct Hy as ([x y'] & E' & Hxy). cbn in E'. subst y'.
      destruct E as (_ & _ & Hat & _). destruct (Hat x y Hxy) as (_ & _ & oa & _ & Ho & _). apply zget_Some_key in Ho. exact Ho. }
    apply (membed_is_global Z Z B B Z.eqb beq atoms bonds atoms bonds tc comps clo wf wf tc_ok c_ok) in M.
    destruct M as ((Hk & Hni & Hat & Hbd) & _). split; [exact Hk|]. split; [exact Hni|]. split; [|exact Hbd].
    intros x y Hxy. split.
    - apply in_concat in Hxy. destruct Hxy as (fi & Hfi & Hxy). destruct (Forall2_In_r _ _ _ fi F Hfi) as (c & Hcin & (Hk' & _ & Hat' & _)).
      exists c. split; [exact Hcin|]. split; [rewrite <- Hk'; apply (in_map fst) in Hxy; exact Hxy | apply (Hat' x y Hxy)].
    - destruct (Hat x y Hxy) as (_ & qa & oa & H1 & H2 & H3). apply Z.eqb_eq in H3. subst oa. eauto.
  Qed.

  Lemma class_per_comp f : class_automorphism f -> per_comp f.
  Proof.
    intros (Hk & Hni & Hown & Hbd).
    assert (G : global_embedding Z Z B B Z.eqb beq atoms bonds atoms bonds tc comps None f).
    { split.
      - unfold induced_embedding. split; [exact Hk|]. split; [exact Hni|]. split; [|exact Hbd].
        intros x y Hxy. destruct (Hown x y Hxy) as (_ & cl & H1 & H2). split; [cbn; apply zget_Some_key in H2; exact H2|].
        exists cl, cl. split; [exact H1|]. split; [exact H2 | apply Z.eqb_refl].
      - intros x1 y1 x2 y2 H1 H2. destruct (Hown x1 y1 H1) as ((c1 & C1 & A1 & B1) & _). destruct (Hown x2 y2 H2) as ((c2 & C2 & A2 & B2) & _). split.
        + intros (c & Cc & G1 & G2).
          rewrite <- (same_comp Z B atoms bonds comps clo wf c_ok c c1 x1 Cc C1 G1 A1) in B1.
          rewrite <- (same_comp Z B atoms bonds comps clo wf c_ok c c2 x2 Cc C2 G2 A2) in B2.
          exists (aof c). split; [apply in_map; exact Cc | split; assumption].
        + intros (cand & Hcand & G1 & G2). apply in_map_iff in Hcand. destruct Hcand as (c & <- & Cc).
          rewrite <- (same_comp Z B atoms bonds comps clo wf c_ok c c1 y1 Cc C1 G1 B1) in A1.
          rewrite <- (same_comp Z B atoms bonds comps clo wf c_ok c c2 y2 Cc C2 G2 B2) in A2.
          exists c. split; [exact Cc | split; assumption]. }
    apply (global_is_membed Z Z B B Z.eqb beq atoms bonds atoms bonds tc comps clo wf tc_ok c_ok) in G.
    destruct G as (fs & cands & -> & F1 & _ & _). exists fs. split; [|reflexivity].
    apply (Forall2_impl_In _ _ _ _ F1). intros c fi Hcin Hfi E.
    apply (emb_scope_mono Z Z B B Z.eqb beq atoms bonds atoms bonds (aof c) _ (aof c) fi E).
    intros y Hy. unfold image in Hy. apply in_map_iff in Hy. destruct Hy as ([x y'] & E' & Hxy). cbn in E'. subst y'.
    assert (Hin : In (x, y) (concat fs)) by (apply in_concat; exists fi; split; assumption).
    destruct (Hown x y Hin) as ((c' & C' & A' & B') & _). destruct E as (Hk' & _).
    assert (Hx : In x (aof c)) by (rewrite <- Hk'; apply (in_map fst) in Hxy; exact Hxy).
    rewrite (same_comp Z B atoms bonds comps clo wf c_ok c c' x Hcin C' Hx A'). exact B'.
  Qed.

  (* ---- the model ---- *)
  Definition mappers : list (list mapping) := map (fun order => get_mapping Z.eqb beq order clo atoms bonds (aof order)) comps.
  Definition nonid (l : list mapping) : list mapping := filter (fun mp : mapping => existsb (fun kv => negb (fst kv =? snd kv)) mp) l.

  Lemma product_spec : forall cs fs, incl cs comps ->
    (Forall2 (fun (x : mapping) M => In x M) fs (map (fun order => get_mapping Z.eqb beq order clo atoms bonds (aof order)) cs) <->
     Forall2 (fun c fi => emb (aof c) (aof c) fi) cs fs).
  Proof.
    induction cs as [|c cs IH]; intros fs Hi; cbn [map].
    - split; intros H; inversion H; constructor.
    - assert (Hcin : In c comps) by (apply Hi; left; reflexivity).
      pose proof (proj2 (matcher_exact Z Z B B Z.eqb beq atoms bonds atoms bonds comps clo (aof c) wf wf Hc c Hcin)) as Hm.
      assert (Hi' : incl cs comps) by (intros z Hz; apply Hi; right; exact Hz).
      split; intros H; inversion H; subst; constructor; try (apply Hm; assumption); apply (IH _ Hi'); assumption.
  Qed.

  Lemma pre_spec f : In f (map merge_copy (lazy_product mappers)) <-> per_comp f.
  Proof.
    rewrite in_map_iff. split.
    - intros (fs & <- & Hfs). apply lazy_product_In in Hfs. apply (product_spec comps fs (incl_refl _)) in Hfs.
      exists fs. split; [exact Hfs|]. apply merge_copy_concat. rewrite (proj1 (emb_keys_concat' comps fs Hfs)).
      apply (comps_concat_NoDup Z B atoms bonds comps clo wf c_ok).
    - intros (fs & F & ->). exists fs. split.
      + apply merge_copy_concat. rewrite (proj1 (emb_keys_concat' comps fs F)). apply (comps_concat_NoDup Z B atoms bonds comps clo wf c_ok).
      + apply lazy_product_In. apply (product_spec comps fs (incl_refl _)). exact F.
  Qed.

  Lemma pre_NoDup : NoDup (map merge_copy (lazy_product mappers)).
  Proof.
    apply NoDup_map_inj_in.
    - intros fs fs' H1 H2 E. apply lazy_product_In in H1. apply lazy_product_In in H2.
      apply (product_spec comps fs (incl_refl _)) in H1. apply (product_spec comps fs' (incl_refl _)) in H2.
      pose proof (comps_concat_NoDup Z B atoms bonds comps clo wf c_ok) as Hn.
      rewrite (merge_copy_concat fs) in E by (rewrite (proj1 (emb_keys_concat' comps fs H1)); exact Hn).
      rewrite (merge_copy_concat fs') in E by (rewrite (proj1 (emb_keys_concat' comps fs' H2)); exact Hn).
      apply (concat_split_eq (map aof comps) fs fs' (proj2 (emb_keys_concat' comps fs H1)) (proj2 (emb_keys_concat' comps fs' H2)) E).
    - apply lazy_product_NoDup. intros M HM. unfold mappers in HM. apply in_map_iff in HM. destruct HM as (c & <- & _).
      apply get_mapping_NoDup. exact wf.
  Qed.

  Lemma single_product (m : list mapping) : map merge_copy (lazy_product [m]) = m.
  Proof. cbn [lazy_product]. rewrite map_map. cbn [merge_copy fold_left]. apply map_id. Qed.

  Lemma nonid_spec l f : In f (nonid l) <-> In f l /\ exists x y, In (x, y) f /\ x <> y.
  Proof.
    unfold nonid. rewrite filter_In, existsb_exists. split; intros [H1 H2]; (split; [exact H1|]).
    - destruct H2 as ([x y] & Hin & Hne). cbn in Hne. apply negb_true_iff, Z.eqb_neq in Hne. eauto.
    - destruct H2 as (x & y & Hin & Hne). exists (x, y). split; [exact Hin|]. cbn. apply negb_true_iff, Z.eqb_neq. exact Hne.
  Qed.

  Lemma unique_classes_identity f : NoDup (map snd atoms) -> class_automorphism f -> forall x y, In (x, y) f -> x = y.
  Proof.
    intros Hn (_ & _ & Hown & _) x y Hxy. destruct (Hown x y Hxy) as (_ & cl & H1 & H2).
    apply zget_In in H1. apply zget_In in H2. pose proof (NoDup_map_snd_inj atoms _ _ Hn H1 H2 eq_refl) as E. congruence.
  Qed.

  Theorem automorphism_mapping_exact_at :
    exists res, get_automorphism_mapping beq atoms bonds = Ok res /\ NoDup res /\
      forall f, In f res <-> class_automorphism f /\ exists x y, In (x, y) f /\ x <> y.
  Proof.
    unfold get_automorphism_mapping. destruct (Nat.eqb_spec (length atoms) (length (zdedup (map snd atoms)))) as [El|El].
    - exists []. split; [reflexivity|]. split; [constructor|]. intros f. split; [intros []|]. intros (Hca & x & y & Hxy & Hne).
      apply Hne. apply (unique_classes_identity f); [|exact Hca | exact Hxy]. apply zdedup_full. rewrite map_length. exact El.
    - rewrite Hc. fold mappers.
      assert (E : (match mappers with
                   | [m] => Ok (filter (fun mp : mapping => existsb (fun kv => negb (fst kv =? snd kv)) mp) m)
                   | _ => Ok (filter (fun mp : mapping => existsb (fun kv => negb (fst kv =? snd kv)) mp) (map merge_copy (lazy_product mappers)))
                   end) = Ok (nonid (map merge_copy (lazy_product mappers)))).
      { destruct mappers as [|m [|m2 r]]; try reflexivity. rewrite single_product. reflexivity. }
      rewrite E. eexists. split; [reflexivity|]. split; [apply NoDup_filter; apply pre_NoDup|].
      intros f. rewrite nonid_spec, pre_spec. split; intros [H1 H2]; (split; [|exact H2]); [apply per_comp_class | apply class_per_comp]; exact H1.
  Qed.
End Auto.

(* for every well-formed graph with classes *)
Theorem automorphism_mapping_exact : forall (B : Type) (beq : B -> B -> bool) (atoms : list (Z * Z)) (bonds : list (Z * list (Z * B))),
  wf_adj atoms bonds ->
  exists comps clo res, compile_query atoms bonds = Ok (comps, clo) /\
    get_automorphism_mapping beq atoms bonds = Ok res /\ NoDup res /\
    forall f, In f res <-> class_automorphism B beq atoms bonds comps f /\ exists x y, In (x, y) f /\ x <> y.
Proof.
  intros B beq atoms bonds wf. destruct (compile_query_total Z B atoms bonds wf) as (comps & clo & Hc).
  destruct (automorphism_mapping_exact_at B beq atoms bonds wf comps clo Hc) as (res & E & Hn & Hs).
  exists comps, clo, res. auto.
Qed.

(* ---------- connected graphs: ALL non-identity automorphisms ---------- *)
Theorem automorphism_mapping_connected_exact : forall (B : Type) (beq : B -> B -> bool) (atoms : list (Z * Z)) (bonds : list (Z * list (Z * B)))
    (c : list (lentry Z B)) clo,
  wf_adj atoms bonds -> compile_query atoms bonds = Ok ([c], clo) ->
  exists res, get_automorphism_mapping beq atoms bonds = Ok res /\ NoDup res /\
    forall f, In f res <-> map fst f = map fst4 c /\ isomorphism Z Z B B Z.eqb beq atoms bonds atoms bonds f /\ exists x y, In (x, y) f /\ x <> y.
Proof.
  intros B beq atoms bonds c clo wf Hc.
  destruct (automorphism_mapping_exact_at B beq atoms bonds wf [c] clo Hc) as (res & E & Hn & Hs).
  exists res. split; [exact E|]. split; [exact Hn|]. intros f. rewrite (Hs f).
  pose proof (compile_query_spec _ _ _ _ wf _ _ Hc) as (P & _). cbn [map concat] in P. rewrite app_nil_r in P.
  split.
  - intros ((Hk & Hni & Hown & Hbd) & Hne). cbn [map concat] in Hk. rewrite app_nil_r in Hk. split; [exact Hk|]. split; [|exact Hne].
    unfold isomorphism. split; [rewrite Hk; exact P|]. split; [|split; [|exact Hbd]].
    + apply NoDup_Permutation_bis; [exact Hni | |].
      * unfold image, keys. rewrite !map_length. rewrite <- (map_length fst f), Hk, (Permutation_length P). unfold keys. rewrite map_length. apply le_n.
      * intros y Hy. unfold image in Hy. apply in_map_iff in Hy. destruct Hy as ([x y'] & E' & Hxy). cbn in E'. subst y'.
        destruct (Hown x y Hxy) as (_ & cl & _ & H2). apply zget_Some_key in H2. exact H2.
    + intros x y Hxy. destruct (Hown x y Hxy) as (_ & cl & H1 & H2). exists cl, cl. split; [exact H1|]. split; [exact H2 | apply Z.eqb_refl].
  - intros (Hk & (P1 & P2 & Hat & Hbd) & Hne). split; [|exact Hne]. unfold class_automorphism. cbn [map concat]. rewrite app_nil_r.
    split; [exact Hk|]. split; [apply (Permutation_NoDup (Permutation_sym P2)); apply wf|]. split; [|exact Hbd].
    intros x y Hxy. destruct (Hat x y Hxy) as (qa & oa & H1 & H2 & H3). apply Z.eqb_eq in H3. subst oa. split; [|eauto].
    exists c. split; [left; reflexivity|]. split.
    + rewrite <- Hk. apply (in_map fst) in Hxy. exact Hxy.
    + apply (Permutation_in _ (Permutation_sym P)). apply zget_Some_key in H2. exact H2.
Qed.

(* ---------- the full statement is FALSE for graphs with several components: an automorphism that exchanges two identical
   components is never produced.  Two isolated atoms of one class (the molecule C.C): nothing is yielded (is_automorphic()
   answers False), although exchanging the two atoms is a class- and bond-preserving bijection that is not the identity. ---------- *)
Theorem automorphism_mapping_all_refuted :
  exists (atoms : list (Z * Z)) (bonds : list (Z * list (Z * Z))) (f : mapping),
    wf_adj atoms bonds /\
    isomorphism Z Z Z Z Z.eqb Z.eqb atoms bonds atoms bonds f /\ (exists x y, In (x, y) f /\ x <> y) /\
    get_automorphism_mapping Z.eqb atoms bonds = Ok [].
Proof.
  exists [(1, 1); (2, 1)], [(1, []); (2, [])], [(1, 2); (2, 1)].
  split; [apply (wf_adjb_sound Z.eqb Zeqb_eq); vm_compute; reflexivity|]. split; [|split; [|vm_compute; reflexivity]].
  - unfold isomorphism. split; [cbn; apply Permutation_refl|]. split; [cbn; apply perm_swap|]. split.
    + intros x y [E|[E|[]]]; injection E as <- <-; exists 1, 1; (split; [vm_compute; reflexivity|]); (split; [vm_compute; reflexivity|]); reflexivity.
    + intros x1 y1 x2 y2 [E1|[E1|[]]] [E2|[E2|[]]]; injection E1 as <- <-; injection E2 as <- <-; vm_compute; exact I.
  - exists 1, 2. split; [left; reflexivity | discriminate].
Qed.

(* non-vacuity of the positive statements: ethane-like graph 1-2, one class: exactly the exchange *)
Theorem example_automorphism :
  wf_adj [(1, 7); (2, 7)] [(1, [(2, 1)]); (2, [(1, 1)])] /\
  compile_query [(1, 7); (2, 7)] [(1, [(2, 1)]); (2, [(1, 1)])] = Ok ([[(1, None, 7, None); (2, Some 1, 7, Some 1)]], []) /\
  get_automorphism_mapping Z.eqb [(1, 7); (2, 7)] [(1, [(2, 1)]); (2, [(1, 1)])] = Ok [[(1, 2); (2, 1)]].
Proof.
  split; [apply (wf_adjb_sound Z.eqb Zeqb_eq); vm_compute; reflexivity|]. split; vm_compute; reflexivity.
Qed.
