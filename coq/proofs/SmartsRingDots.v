(* C08 -- multi-component patterns whose components may carry ring closures (a closure may also join two components: "C1.C1"):
   token level.  tree ( "." tree )*  with the trees of Proofs.SmartsRing. *)
From Coq Require Import ZArith List String Ascii Bool Lia.
From Gen Require Import Elements TokenTables SmartsTables.
From Model Require Import PyBase Graph PeriodicTable Tokenize Smarts Query SmartsFull.
From Model Require Parser.
From Proofs Require Import TokenizeProofs SmartsDenote SmartsTree SmartsParser SmartsRing.
Import ListNotations.
Open Scope Z_scope.
Import Parser.

Lemma TC_dot_atom k bs st last cy s a : TC k bs st last cy s ->
  exists s1 s', step false s (4, PNone) = Ok s1 /\ step false s1 (0, PAtom a) = Ok s' /\ TC (k + 1) bs st k cy s'.
Proof.
  intros HC. destruct HC as [H1 [H2 [H3 [H4 [H5 [H6 [H7 [H8 [H9 [H10 H11]]]]]]]]]].
  destruct s as [atoms types bonds order n lst stack cycles satoms sbonds prev lg].
  cbn [ps_n ps_last ps_atoms ps_types ps_bonds ps_stack ps_cycles ps_sbonds ps_prev] in *. subst.
  destruct atoms as [|a0 ar]; [cbn in H1; lia|].
  eexists. eexists. split; [reflexivity|]. split; [reflexivity|].
  unfold TC. cbn [set_prev ps_n ps_last ps_atoms ps_types ps_bonds ps_stack ps_cycles ps_sbonds ps_prev].
  repeat split; try lia; try reflexivity.
  - rewrite app_length. cbn [List.length]. lia.
  - rewrite app_length. cbn [List.length]. change [0] with (repeat 0 1). rewrite <- repeat_app. reflexivity.
Qed.

Fixpoint tok_rcomps (ts : list rtree) : list token :=
  match ts with [] => [] | t :: r => ((4, PNone) :: tok_rtree t ++ tok_rcomps r)%list end.
Fixpoint atoms_rcomps (ts : list rtree) : list Query.parsed :=
  match ts with [] => [] | t :: r => (atoms_rtree t ++ atoms_rcomps r)%list end.
(* the meaning of the components after the first: the root of a component is bonded to nothing *)
Definition den_croot (t : rtree) (start : Z) (st : dstate) : option dstate :=
  match t with
  | RNode _ cls f => match ring_items_spec start cls st with Some st1 => den_forest f start (start + 1) st1 | None => None end
  end.
Fixpoint den_comps (ts : list rtree) (start : Z) (st : dstate) : option dstate :=
  match ts with
  | [] => Some st
  | t :: r => match den_croot t start st with Some st1 => den_comps r (start + size_rtree t) st1 | None => None end
  end.
Definition size_rcomps (ts : list rtree) : Z := Z.of_nat (List.length (atoms_rcomps ts)).

Lemma rcomps_loop ts : forall s k bs last cy rest opn' bs', TC k bs [] last cy s -> PI s -> cyc_wf k cy -> Forall rok_tree ts ->
  den_comps ts k (cyc_view cy, bs) = Some (opn', bs') ->
  exists s' cy' last', loop false s (tok_rcomps ts ++ rest) = loop false s' rest /\
                       TC (k + size_rcomps ts) bs' [] last' cy' s' /\ PI s' /\ cyc_view cy' = opn' /\ cyc_wf (k + size_rcomps ts) cy'.
Proof.
  induction ts as [|t r IH]; intros s k bs last cy rest opn' bs' HT HP Hc Hok Hd.
  - cbn in Hd. inversion Hd; subst. exists s, cy, last. unfold size_rcomps. cbn. rewrite Z.add_0_r.
    split; [reflexivity|]. split; [exact HT|]. split; [exact HP|]. split; [reflexivity | exact Hc].
  - inversion Hok as [|? ? Ht Hr]; subst. destruct t as [p cls f]. destruct Ht as [Hcl Hf].
    cbn [tok_rcomps tok_rtree app loop].
    destruct (TC_dot_atom k bs [] last cy s (mkAt ""%string None None 0 None (p_stereo p)) HT) as [s1 [s2 [E1 [E2 T2]]]].
    assert (P1 : PI s1) by (eapply (PI_step s (4, PNone)); [exact HP | reflexivity | exact E1]).
    assert (P2 : PI s2) by (eapply (PI_step s1 (0, PAtom _)); [exact P1 | reflexivity | exact E2]).
    rewrite E1. cbn [loop]. unfold atom_token. rewrite E2. rewrite <- !app_assoc.
    cbn [den_comps den_croot] in Hd.
    destruct (ring_items_spec k cls (cyc_view cy, bs)) as [[opn1 bs1]|] eqn:Ei; [|discriminate].
    assert (W1 : cyc_wf (k + 1) cy) by (eapply cyc_wf_mono; [|exact Hc]; lia).
    destruct (items_loop cls s2 (k + 1) bs [] k cy (tok_rforest f ++ tok_rcomps r ++ rest) opn1 bs1 T2 P2 W1 Hcl Ei)
      as [s3 [cy3 [E3 [T3 [P3 [V3 W3]]]]]]. rewrite E3.
    destruct (den_forest f k (k + 1) (opn1, bs1)) as [[opn2 bs2]|] eqn:Ef; [|discriminate]. rewrite <- V3 in Ef.
    destruct (proj2 ring_loop_all f s3 (k + 1) bs1 [] k cy3 (tok_rcomps r ++ rest) opn2 bs2 T3 P3 W3 Hf Ef)
      as [s4 [cy4 [E4 [T4 [P4 [V4 W4]]]]]]. rewrite E4. rewrite <- V4 in Hd.
    assert (Sz : k + size_rtree (RNode p cls f) = k + 1 + size_rforest f) by (rewrite size_rtree_node; lia).
    rewrite Sz in Hd.
    destruct (IH s4 _ bs2 _ cy4 rest opn' bs' T4 P4 W4 Hr Hd) as [s' [cy' [last' [E' [T' [P' [V' W']]]]]]].
    exists s', cy', last'.
    assert (Sc : k + size_rcomps (RNode p cls f :: r) = k + 1 + size_rforest f + size_rcomps r).
    { unfold size_rcomps, size_rforest. cbn [atoms_rcomps atoms_rtree]. rewrite app_length. cbn [List.length]. lia. }
    rewrite Sc. split; [exact E'|]. split; [exact T'|]. split; [exact P'|]. split; [exact V' | exact W'].
Qed.

Definition tok_rpattern (t : rtree) (ts : list rtree) : list token := (tok_rtree t ++ tok_rcomps ts)%list.
Definition atoms_rpattern (t : rtree) (ts : list rtree) : list Query.parsed := (atoms_rtree t ++ atoms_rcomps ts)%list.
Definition den_pattern (t : rtree) (ts : list rtree) : option dstate :=
  match den_root t with Some st1 => den_comps ts (size_rtree t) st1 | None => None end.

Theorem rpattern_parse t ts bonds : rok_tree t -> Forall rok_tree ts -> den_pattern t ts = Some ([], bonds) ->
  exists pr, parse (tok_rpattern t ts) false = Ok pr /\ p_bonds pr = bonds /\ p_stereo_bonds pr = [].
Proof.
  destruct t as [p cls f]. intros [Hcl Hf] Hts Hd. unfold parse, tok_rpattern. cbn [tok_rtree app]. unfold atom_token at 1.
  cbn [guard Z.eqb Pos.eqb zmem existsb orb loop].
  assert (F : exists s1, step false p_init (0, PAtom (mkAt ""%string None None 0 None (p_stereo p))) = Ok s1 /\ TC 1 [] [] 0 [] s1).
  { eexists. split; [reflexivity|]. unfold TC. cbn. repeat split; lia. }
  destruct F as [s1 [E1 T1]]. unfold atom_token. rewrite E1.
  assert (P1 : PI s1).
  { pose proof (first_atom false 0 (mkAt ""%string None None 0 None (p_stereo p)) [] ltac:(cbn; tauto) (or_introl eq_refl)) as G.
    change (set_last_stack p_init 0 []) with p_init in G. rewrite E1 in G. exact G. }
  unfold den_pattern in Hd. cbn [den_root] in Hd.
  destruct (ring_items_spec 0 cls ([], [])) as [[opn1 bs1]|] eqn:Ei; [|discriminate].
  rewrite <- !app_assoc.
  destruct (items_loop cls s1 1 [] [] 0 [] (tok_rforest f ++ tok_rcomps ts) opn1 bs1 T1 P1 ltac:(constructor) Hcl Ei) as [s2 [cy2 [E2 [T2 [P2 [V2 W2]]]]]].
  rewrite E2.
  destruct (den_forest f 0 1 (opn1, bs1)) as [[opn2 bs2]|] eqn:Ef; [|discriminate]. rewrite <- V2 in Ef.
  destruct (proj2 ring_loop_all f s2 1 bs1 [] 0 cy2 (tok_rcomps ts) opn2 bs2 T2 P2 W2 Hf Ef) as [s3 [cy3 [E3 [T3 [P3 [V3 W3]]]]]].
  rewrite E3. rewrite <- V3 in Hd. rewrite size_rtree_node in Hd.
  rewrite <- (app_nil_r (tok_rcomps ts)).
  destruct (rcomps_loop ts s3 _ bs2 _ cy3 [] [] bonds T3 P3 W3 Hts Hd) as [s' [cy' [last' [E' [T' [P' [V' W']]]]]]].
  rewrite E'. cbn [loop].
  assert (Cn : cy' = []) by (destruct cy'; [reflexivity | discriminate V']).
  destruct T' as [H1 [H2 [H3 [H4 [H5 [H6 [H7 [H8 [H9 [H10 H11]]]]]]]]]]. unfold finish. rewrite H8, H9, Cn, H11.
  eexists. split; [reflexivity|]. cbn [p_bonds p_stereo_bonds]. split; [exact H7 | exact H10].
Qed.

Theorem rpattern_denotation t ts qs bonds :
  rok_tree t -> Forall rok_tree ts -> den_pattern t ts = Some ([], bonds) ->
  Forall2 (fun p q => build_atom p = Ok q) (atoms_rpattern t ts) qs ->
  NoDup (explicit_maps (atoms_rpattern t ts)) ->
  distinct_pairs [] bonds -> Forall payload_valid bonds ->
  full_of_tokens (tok_rpattern t ts) (atoms_rpattern t ts) =
  Ok (map (fun pq => atom_result (fst pq) (snd pq)) (combine (atoms_rpattern t ts) qs), map to_sbond bonds).
Proof.
  intros Hok Hts Hd Hat Hnd Hdp Hv. unfold full_of_tokens.
  destruct (rpattern_parse t ts bonds Hok Hts Hd) as [pr [E [B1 B2]]]. rewrite E.
  rewrite (atoms_loop_ok _ _ [] Hat Hnd) by (intros k _ []).
  rewrite B1, B2, (bonds_loop_distinct bonds [] Hdp Hv). reflexivity.
Qed.

(* a closure that joins two components: C1.C1 ; and one closed inside the second component *)
Theorem rpattern_example :
  let C := Query.mkParsed None None None None [ESym (s2l "C")] None None None None None false in
  den_pattern (RNode C [(None, 1)] RNil) [RNode C [(Some (1, PInt 2), 1)] RNil] = Some ([], [(1, 0, PInt 2)]) /\
  full_of_tokens (tok_rpattern (RNode C [(None, 1)] RNil) [RNode C [(Some (1, PInt 2), 1)] RNil])
                 (atoms_rpattern (RNode C [(None, 1)] RNil) [RNode C [(Some (1, PInt 2), 1)] RNil]) =
  Ok ([(QElem 6 None (mkQX 0 false [] [] [] [] [] false), None); (QElem 6 None (mkQX 0 false [] [] [] [] [] false), None)],
      [mkSB 1 0 (mkQB [2] None) None]).
Proof. cbv zeta. split; vm_compute; reflexivity. Qed.
