(* C06 -- what the selection-phase model returns: exactly n_sssr rings, every one taken from the candidate stream. *)
From Coq Require Import ZArith List Bool Lia.
From Model Require Import PyBase Graph Rings RingsFilter.
From Proofs Require Import RingsProofs RingsMcb.
Import ListNotations.
Open Scope Z_scope.

Lemma rf_phase1_spec n rings : forall seen atoms sssr hold fin sssr' hold' seen',
  rf_phase1 n rings seen atoms sssr hold = (fin, sssr', hold', seen') ->
  (forall r, In r sssr' -> In r sssr \/ In r rings) /\ (forall r, In r hold' -> In r hold \/ In r rings) /\
  (fin = true -> length sssr' = n).
Proof.
  induction rings as [|c rest IH]; intros seen atoms sssr hold fin sssr' hold' seen' H; cbn [rf_phase1] in H.
  - inversion H; subst. split; [|split]; [tauto | tauto | discriminate].
  - destruct (ring_mem c seen).
    + destruct (IH _ _ _ _ _ _ _ _ H) as [A [B C]]. split; [|split]; [intros r Hr; destruct (A r Hr); [tauto | right; right; assumption] | intros r Hr; destruct (B r Hr); [tauto | right; right; assumption] | exact C].
    + destruct (subset_z c atoms).
      * destruct (IH _ _ _ _ _ _ _ _ H) as [A [B C]]. split; [|split]; [intros r Hr; destruct (A r Hr); [tauto | right; right; assumption] | | exact C].
        intros r Hr. destruct (B r Hr) as [X|X]; [|right; right; exact X]. apply in_app_or in X. destruct X as [X|[X|[]]]; [tauto | subst; right; left; reflexivity].
      * destruct (Nat.eqb_spec (length (sssr ++ [c])) n) as [E|E].
        -- inversion H; subst. split; [|split]; [|tauto | intros _; reflexivity]. intros r Hr. apply in_app_or in Hr. destruct Hr as [X|[X|[]]]; [tauto | subst; right; left; reflexivity].
        -- destruct (IH _ _ _ _ _ _ _ _ H) as [A [B C]]. split; [|split]; [| intros r Hr; destruct (B r Hr); [tauto | right; right; assumption] | exact C].
           intros r Hr. destruct (A r Hr) as [X|X]; [|right; right; exact X]. apply in_app_or in X. destruct X as [X|[X|[]]]; [tauto | subst; right; left; reflexivity].
Qed.

Lemma rf_phase2_spec n hold : forall condensed sssr rs, rf_phase2 n hold condensed sssr = Ok rs ->
  length rs = n /\ forall r, In r rs -> In r sssr \/ In r hold.
Proof.
  induction hold as [|c rest IH]; intros condensed sssr rs H; cbn [rf_phase2] in H; [discriminate|].
  destruct (ring_mem c condensed).
  - destruct (IH _ _ _ H) as [A B]. split; [exact A|]. intros r Hr. destruct (B r Hr); [tauto | right; right; assumption].
  - destruct (is_condensed_ring c sssr) as [cond|e]; [|discriminate]. cbn [bindr] in H. destruct cond.
    + destruct (IH _ _ _ H) as [A B]. split; [exact A|]. intros r Hr. destruct (B r Hr); [tauto | right; right; assumption].
    + destruct (connected_rings (c :: condensed)) as [condensed'|e]; [|discriminate]. cbn [bindr] in H.
      destruct (Nat.eqb_spec (length (sssr ++ [c])) n) as [E|E].
      * inversion H; subst rs. split.
        -- rewrite <- E. clear. generalize (sssr ++ [c]). intros l. induction l as [|a l IHl]; [reflexivity|]. cbn [sort_by_len fold_right]. fold (sort_by_len l).
           assert (X : forall r l0, length (insert_by_len r l0) = S (length l0)).
           { clear. intros r l0. induction l0 as [|x l0 IH0]; [reflexivity|]. cbn. destruct (Nat.leb (length r) (length x)); cbn; [reflexivity | rewrite IH0; reflexivity]. }
           rewrite X, IHl. reflexivity.
        -- intros r Hr. apply (proj1 (sort_by_len_In _ _)) in Hr. apply in_app_or in Hr. destruct Hr as [X|[X|[]]]; [tauto | subst; right; left; reflexivity].
      * destruct (IH _ _ _ H) as [A B]. split; [exact A|]. intros r Hr. destruct (B r Hr) as [X|X]; [|right; right; exact X].
        apply in_app_or in X. destruct X as [X|[X|[]]]; [tauto | subst; right; left; reflexivity].
Qed.

(* _rings_filter returns exactly n_sssr rings, each one of the candidate stream (whenever it returns) *)
Theorem rings_filter_result cands n rs : rings_filter cands n = Ok rs -> length rs = n /\ forall r, In r rs -> In r cands.
Proof.
  unfold rings_filter. destruct cands as [|c rest]; [discriminate|]. destruct (Nat.eqb_spec n 1) as [E|E].
  - intros H. inversion H; subst. split; [reflexivity|]. intros r [Hr|[]]. left. exact Hr.
  - destruct (rf_phase1 n rest [c] c [c] []) as [[[fin sssr] hold] seen] eqn:P. destruct (rf_phase1_spec _ _ _ _ _ _ _ _ _ _ P) as [A [B C]].
    assert (A' : forall r, In r sssr -> In r (c :: rest)) by (intros r Hr; destruct (A r Hr) as [[X|[]]|X]; [left; exact X | right; exact X]).
    assert (B' : forall r, In r hold -> In r (c :: rest)) by (intros r Hr; destruct (B r Hr) as [[]|X]; right; exact X).
    destruct fin.
    + intros H. inversion H; subst. split; [apply C; reflexivity | exact A'].
    + intros H. destruct (all_adjacency seen); [|discriminate]. cbn [bindr] in H. destruct (connected_rings sssr) as [cd|e]; [|discriminate]. cbn [bindr] in H.
      destruct (rf_phase2_spec _ _ _ _ _ H) as [L S]. split; [exact L|]. intros r Hr. destruct (S r Hr); [apply A' | apply B']; assumption.
Qed.

Example ex_rings_filter :
  rings_filter [[1;2;3]; [1;2;4]; [1;3;4]; [2;3;4]] 3 = Ok [[1;2;3]; [1;2;4]; [1;3;4]] /\
  is_condensed_ring [2;3;4] [[1;2;3]; [1;2;4]; [1;3;4]] = Ok true /\
  connected_rings [[1;2;3]; [1;2;4]] = Ok [[1;3;2;4]].
Proof. vm_compute. repeat split. Qed.
