(* C13 -- the freshness invariant of one molecule and its preservation by the operations. *)
From Coq Require Import ZArith List Bool Lia.
From Model Require Import PyBase Cache.
From Proofs Require Import CacheProofs CacheWf CacheCopy CacheCoh CacheWorld CacheUnion CacheTheorems CacheUsable CacheFresh.
Import ListNotations.
Open Scope Z_scope.

Definition pend (o : mobj) : list Z := match o_changed o with Some l => l | None => [] end.
(* the stored count was computed for this element / isotope with the charge and radical state the atom has now (outside a
   transaction) or had when the transaction was entered *)
Definition base (o : mobj) (n : Z) (a : acell) (c0 : acore) : Prop :=
  c_num c0 = c_num (a_core a) /\ c_iso c0 = c_iso (a_core a) /\
  match o_backup o with
  | None => c_chg c0 = c_chg (a_core a) /\ c_rad c0 = c_rad (a_core a)
  | Some b => match zget (bk_atoms b) n with
              | Some a0 => c_chg c0 = c_chg (a_core a0) /\ c_rad c0 = c_rad (a_core a0)
              | None => True            (* not in the backup under this number: recalculated at commit *)
              end
  end.
Definition hydC (h : hp) (o : mobj) (n : Z) (a : acell) : Prop :=
  exists c0 l, a_hyd a = Some (c0, l) /\ lenvn h o n = Ok l /\ base o n a c0.
Definition FrH (h : hp) (o : mobj) : Prop := forall n a, zget (o_atoms o) n = Some a -> In n (pend o) \/ hydC h o n a.
Definition FrL (h : hp) (o : mobj) : Prop :=
  o_backup o = None -> o_changed o = None /\ (forall n a, zget (o_atoms o) n = Some a -> labOK h o n a) /\ bondsOK h o.
Definition Fr (h : hp) (o : mobj) : Prop := FrH h o /\ FrL h o.

Lemma acore_eta c0 c : c_num c0 = c_num c -> c_iso c0 = c_iso c -> c_chg c0 = c_chg c -> c_rad c0 = c_rad c -> c0 = c.
Proof. destruct c0, c; cbn; intros; subst; reflexivity. Qed.
(* settled: the statement of the property *)
Lemma Fr_settled h o : Fr h o -> o_backup o = None ->
  o_changed o = None /\ bondsOK h o /\ forall n a, zget (o_atoms o) n = Some a -> hydOK h o n a /\ labOK h o n a.
Proof.
  intros [H L] B. destruct (L B) as [C [La Bo]]. split; [exact C|]. split; [exact Bo|]. intros n a Ha. split; [|now apply La].
  destruct (H n a Ha) as [Hp|[c0 [l [E1 [E2 [N [Is Bs]]]]]]]; [unfold pend in Hp; rewrite C in Hp; destruct Hp|].
  rewrite B in Bs. destruct Bs. exists l. split; [exact E2|]. rewrite E1. f_equal. f_equal. now apply acore_eta.
Qed.

(* ---- everything is a function of the view *)
Fixpoint lenv_of_cells (atoms : list (Z * acell)) (r : list (Z * option bcell)) : pyres lenv :=
  match r with
  | [] => Ok []
  | (m, oc) :: t =>
      match oc with
      | None => Err OtherError
      | Some c =>
          if b_ord c =? 8 then lenv_of_cells atoms t
          else match zget atoms m with
               | None => Err KeyError
               | Some a => match lenv_of_cells atoms t with Ok l => Ok ((b_ord c, c_num (a_core a)) :: l) | Err e => Err e end
               end
      end
  end.
Lemma lenv_cells h atoms r : lenv_of_row h atoms r = lenv_of_cells atoms (map (fun mr => (fst mr, hget h (snd mr))) r).
Proof. induction r as [|[m rf] t IH]; cbn; [reflexivity|]. rewrite IH. reflexivity. Qed.
Lemma zget_map_val {A B} (f : A -> B) (d : list (Z * A)) k : zget (map (fun kv => (fst kv, f (snd kv))) d) k = option_map f (zget d k).
Proof. induction d as [|[k0 v0] t IH]; cbn; [reflexivity|]. destruct (k =? k0); [reflexivity | exact IH]. Qed.
Lemma lenvn_view h o h' o' : view_of h' o' = view_of h o -> forall n, lenvn h' o' n = lenvn h o n.
Proof.
  unfold view_of. intros E n. injection E as Ea Er. unfold lenvn, row. rewrite !lenv_cells, Ea.
  assert (option_map (map (fun mr : Z * ref => (fst mr, hget h' (snd mr)))) (zget (o_adj o') n) =
          option_map (map (fun mr : Z * ref => (fst mr, hget h (snd mr)))) (zget (o_adj o) n)) as Ez.
  { rewrite <- !(zget_map_val (fun r => map (fun mr : Z * ref => (fst mr, hget _ (snd mr))) r)). now rewrite Er. }
  destruct (zget (o_adj o') n), (zget (o_adj o) n); cbn in Ez; try discriminate; [injection Ez as Ez; now rewrite Ez | reflexivity].
Qed.
Lemma bondsOK_view h o h' o' : view_of h' o' = view_of h o -> bondsOK h o -> bondsOK h' o'.
Proof.
  unfold view_of. intros E B r Hr. injection E as _ Er. apply In_arefs in Hr. destruct Hr as [n [rw [m [H1 H2]]]].
  assert (In (n, map (fun mr : Z * ref => (fst mr, hget h' (snd mr))) rw)
             (map (fun nr => (fst nr, map (fun mr : Z * ref => (fst mr, hget h (snd mr))) (snd nr))) (o_adj o))) as Hi.
  { rewrite <- Er. apply in_map_iff. exists (n, rw). split; [reflexivity | exact H1]. }
  apply in_map_iff in Hi. destruct Hi as [[n0 rw0] [E0 Hi]]. cbn [fst snd] in E0. injection E0 as En Erw. subst n0.
  assert (In (m, hget h' r) (map (fun mr : Z * ref => (fst mr, hget h (snd mr))) rw0)) as Hm.
  { rewrite Erw. apply in_map_iff. exists (m, r). split; [reflexivity | exact H2]. }
  apply in_map_iff in Hm. destruct Hm as [[m0 r0] [E1 Hm]]. cbn [fst snd] in E1. injection E1 as Em Ec. rewrite <- Ec.
  apply B. apply In_arefs. eauto.
Qed.
Lemma Fr_view h o h' o' : view_of h' o' = view_of h o -> o_changed o' = o_changed o -> o_backup o' = o_backup o -> Fr h o -> Fr h' o'.
Proof.
  intros V C B [H L]. pose proof (lenvn_view _ _ _ _ V) as Lv. assert (o_atoms o' = o_atoms o) as Ea by (unfold view_of in V; now injection V).
  split.
  - intros n a Ha. rewrite Ea in Ha. destruct (H n a Ha) as [Hp|[c0 [l [E1 [E2 Bs]]]]]; [left; unfold pend in *; now rewrite C|].
    right. exists c0, l. split; [exact E1|]. split; [now rewrite Lv|]. unfold base in *. now rewrite B.
  - intros Bn. rewrite B in Bn. destruct (L Bn) as [Cn [La Bo]]. split; [now rewrite C|]. split; [|eapply bondsOK_view; eauto].
    intros n a Ha. rewrite Ea in Ha. destruct (La n a Ha) as [l [E1 E2]]. exists l. split; [now rewrite Lv | exact E2].
Qed.
Lemma Fr_ext h h' u : Fr h u -> (forall r, In r (arefs (o_adj u)) -> hget h' r = hget h r) -> Fr h' u.
Proof. intros F E. apply (Fr_view h u h' u); auto. now apply view_of_ext. Qed.

(* ---- fix_structure settles everything that is pending *)
Lemma todo_pend o n : In n (pend o) -> In n (todo o).
Proof. unfold pend, todo. destruct (o_changed o) as [[|x l]|]; [intros [] | auto | intros []]. Qed.

Lemma fix_hyd h o : inv1 h o -> (forall n a, zget (o_atoms o) n = Some a -> In n (todo o) \/ hydOK h o n a) ->
  exists h' o', fix_structure h o = (h', o', None) /\ inv1 h' o' /\ fine h o h' o' /\ o_changed o' = None /\ o_backup o' = o_backup o /\
    bondsOK h' o' /\ forall n a', zget (o_atoms o') n = Some a' -> hydOK h' o' n a' /\ labOK h' o' n a'.
Proof.
  intros I H. destruct (fix_structure_fresh h o I) as [h' [o' [E [C [B [A [Ls [Bo R]]]]]]]]. exists h', o'.
  pose proof (fix_structure_good h o I) as G. rewrite E in G. destruct G as [I' F'].
  split; [exact E|]. split; [exact I'|]. split; [exact F'|]. split; [exact C|]. split; [exact B|]. split; [exact Bo|].
  intros n a' Ha'. specialize (R n). rewrite Ha' in R. destruct R as [a [Ha [Kc [Lb [Hin Hout]]]]]. split; [|exact Lb].
  destruct (in_dec Z.eq_dec n (todo o)) as [Hi|Hi]; [now apply Hin|].
  destruct (H n a Ha) as [Hx|[l [E1 E2]]]; [contradiction|]. exists l. split; [now rewrite Ls|]. rewrite (Hout Hi), Kc. exact E2.
Qed.

Lemma hydC_hydOK h o n a : o_backup o = None -> hydC h o n a -> hydOK h o n a.
Proof.
  intros B [c0 [l [E1 [E2 [N [Is Bs]]]]]]. rewrite B in Bs. destruct Bs. exists l. split; [exact E2|]. rewrite E1. f_equal. f_equal.
  now apply acore_eta.
Qed.
Lemma hydOK_hydC h o n a : o_backup o = None -> hydOK h o n a -> hydC h o n a.
Proof. intros B [l [E1 E2]]. exists (a_core a), l. split; [exact E2|]. split; [exact E1|]. unfold base. rewrite B. auto. Qed.
Lemma Fr_of_OK h o : o_backup o = None -> o_changed o = None -> bondsOK h o ->
  (forall n a, zget (o_atoms o) n = Some a -> hydOK h o n a /\ labOK h o n a) -> Fr h o.
Proof.
  intros B C Bo H. split.
  - intros n a Ha. right. apply hydOK_hydC; [exact B | now apply H].
  - intros _. split; [exact C|]. split; [|exact Bo]. intros n a Ha. now apply H.
Qed.

(* outside a transaction: FrH, then fix_structure (and fix_stereo) gives Fr *)
Lemma settle (withstereo : bool) h o : inv1 h o -> FrH h o -> o_backup o = None ->
  exists h' o', (if withstereo then (fix_structure ;; fix_stereo) else fix_structure) h o = (h', o', None) /\ Fr h' o' /\ inv1 h' o'.
Proof.
  intros I H B. destruct (fix_hyd h o I) as [h' [o' [E [I' [_ [C [B' [Bo R]]]]]]]].
  { intros n a Ha. destruct (H n a Ha) as [Hp|Hc]; [left; now apply todo_pend | right; now apply hydC_hydOK]. }
  assert (Fr h' o') as F by (apply Fr_of_OK; auto; congruence).
  destruct withstereo.
  - unfold seq. rewrite E. unfold fix_stereo, read, ok. eexists h', _. split; [reflexivity|]. split.
    + eapply (Fr_view h' o'); [reflexivity | reflexivity | reflexivity | exact F].
    + eapply inv1_same; eauto.
  - exists h', o'. auto.
Qed.

(* inside a transaction nothing is recalculated: FrH is all there is *)
Lemma Fr_txn h o : o_backup o <> None -> FrH h o -> Fr h o.
Proof. intros B H. split; [exact H|]. intros E. contradiction. Qed.

(* ---- actions that change neither atoms, adjacency, heap, _changed nor _backup *)
Lemma Fr_same h o o' : o_atoms o' = o_atoms o -> o_adj o' = o_adj o -> o_changed o' = o_changed o -> o_backup o' = o_backup o -> Fr h o -> Fr h o'.
Proof. intros A B C D F. apply (Fr_view h o h o'); auto. unfold view_of. now rewrite A, B. Qed.

Definition frop (a : act) : Prop := forall h o, inv1 h o -> Fr h o -> match a h o with (h', o', _) => Fr h' o' end.

Lemma finish (ws : bool) h o : inv1 h o -> FrH h o ->
  match unless_transaction (if ws then (fix_structure ;; fix_stereo) else fix_structure) h o with (h', o', _) => Fr h' o' end.
Proof.
  intros I H. unfold unless_transaction. destruct (o_backup o) as [b|] eqn:B.
  - apply Fr_txn; [congruence | exact H].
  - destruct (settle ws h o I H B) as [h' [o' [E [F _]]]]. rewrite E. exact F.
Qed.
Lemma frop_raise e : frop (raise e).
Proof. intros h o _ F. exact F. Qed.

(* hydC of an atom survives when its stored count, its environment and the backup are what they were *)
Lemma hydC_keep h o h' o' n a : o_backup o' = o_backup o -> lenvn h' o' n = lenvn h o n -> hydC h o n a -> hydC h' o' n a.
Proof. intros B L [c0 [l [E1 [E2 Bs]]]]. exists c0, l. split; [exact E1|]. split; [now rewrite L|]. unfold base in *. now rewrite B. Qed.
Lemma pend_mark ns h o o' : mark_changed ns h o = (h, o', None) -> forall x, In x (pend o') <-> In x ns \/ In x (pend o).
Proof.
  unfold mark_changed, pend. destruct (o_changed o) as [l|]; intros E; inversion E; subst; cbn; intros x; rewrite In_fold_sadd; tauto.
Qed.
Lemma mark_same ns h o o' : mark_changed ns h o = (h, o', None) ->
  o_atoms o' = o_atoms o /\ o_adj o' = o_adj o /\ o_backup o' = o_backup o /\ o_cache o' = o_cache o.
Proof. unfold mark_changed. destruct (o_changed o); intros E; inversion E; subst; auto. Qed.

(* ---- add_atom *)
Lemma add_atom_frop c n : frop (add_atom c n).
Proof.
  intros h o I [H L]. unfold add_atom. cbv zeta.
  set (n' := match n with None => zmax (keys (o_atoms o)) 0 + 1 | Some x => x end).
  destruct (match n with Some x => zmem x (keys (o_atoms o)) | None => false end) eqn:E; [split; assumption|].
  assert (~ In n' (keys (o_atoms o))) as N.
  { unfold n'. destruct n as [x|]; [now apply zmem_false_notin|]. intros Hi. apply (zmax_ge _ 0) in Hi. lia. }
  pose proof (put_atom_good c n' h o (conj I N)) as G. unfold put_atom, ok in G. cbn beta iota in G. destruct G as [[I1 Hn] _].
  unfold seq, put_atom, flush, ok. cbn beta iota. set (o1 := set_cache _ _). assert (inv1 h o1) as I1' by (eapply inv1_same; eauto).
  destruct (mark_changed_ok [n'] h o1) as [o2 E2]. rewrite E2.
  pose proof (mark_changed_good [n'] h o1) as G2. rewrite E2 in G2. destruct G2 as [I2 _]; [split; [exact I1'|]; intros x [<-|[]]; exact Hn|].
  destruct (mark_same _ _ _ _ E2) as [A2 [D2 [B2 _]]]. pose proof (pend_mark _ _ _ _ E2) as P2.
  apply (finish false); [exact I2|]. intros x a Ha. rewrite A2 in Ha. unfold o1 in Ha; simpo. rewrite zget_app in Ha.
  destruct (zget (o_atoms o) x) as [a0|] eqn:Ex.
  - inversion Ha; subst a0. destruct (H x a Ex) as [Hp|Hc]; [left; apply P2; right; exact Hp|]. right.
    apply (hydC_keep h o); [exact B2| |exact Hc].
    assert (x <> n') as Dx by (intros ->; apply N; eapply zget_In_keys; eauto).
    unfold lenvn, row. rewrite D2, A2. unfold o1; simpo. rewrite zget_app.
    assert (zget [(n', @nil (Z * ref))] x = None) as Zn by (cbn; destruct (Z.eqb_spec x n'); [contradiction | reflexivity]).
    destruct (zget (o_adj o) x) as [rw|] eqn:Er; [|rewrite Zn; reflexivity].
    apply lenv_ext; [reflexivity|]. intros m rf Hm. rewrite zget_app.
    assert (In m (keys (o_atoms o))) as Hk.
    { destruct I as [Wf _]. eapply (wfa_nbr_atom _ _ _ x m rf Wf). eapply nd_In_aslot; [apply (wf_nd _ _ _ Wf) | apply zget_In; exact Er | exact Hm]. }
    apply keys_In_zget in Hk. destruct Hk as [am Hk]. now rewrite Hk.
  - cbn in Ha. destruct (Z.eqb_spec x n'); [|discriminate]. left. apply P2. left. now left.
Qed.

(* ---- calc_labels alone (add_bond of a special bond outside a transaction) *)
Lemma calc_labels_fresh h o : inv1 h o -> exists h' o', calc_labels h o = (h', o', None) /\ inv1 h' o' /\
  o_changed o' = o_changed o /\ o_backup o' = o_backup o /\ (forall n, lenvn h' o' n = lenvn h o n) /\ bondsOK h' o' /\
  atoms_rel (fun n a a' => a_hyd a' = a_hyd a /\ labOK h' o' n a') o o'.
Proof.
  intros I. unfold calc_labels.
  set (o1 := set_cache o (fst (read_key 5 (view_of h o) (o_cache o) Kars))).
  set (o2 := set_cache o1 (fst (read_key 5 (view_of h o1) (o_cache o1) Kar))).
  assert (inv1 h o2) as I2 by (eapply inv1_same; eauto). destruct I2 as [Wf2 Cw2].
  destruct (label_rows_total (o_adj o2) h o2 (wf_ready _ _ Wf2) (fun _ _ H => H)) as [h3 [o3 E3]].
  pose proof (label_rows_relabels (o_adj o2) h o2 (incl_refl _)) as Rl. rewrite E3 in Rl.
  destruct (relabel_inv1 _ _ _ _ Rl (conj Wf2 Cw2)) as [I3 _].
  destruct (label_rows_fresh (o_adj o2) h o2 h3 o3 None (proj1 (wf_nd _ _ _ Wf2)) (incl_refl _) (proj1 (wf_nd _ _ _ Wf2)) E3 eq_refl) as [R3 [B3 _]].
  destruct Rl as [[A3 [K3 [Bk3 [Ch3 _]]]] [_ [_ [_ Or3]]]].
  assert (forall x, lenvn h3 o3 x = lenvn h o x) as Ls3.
  { intros x. rewrite (lenvn_soft h o2 h3 o3 A3 Or3 (atoms_rel_anum _ _ _ R3)). reflexivity. }
  exists h3, o3. unfold seq, read, ok. fold o1. fold o2. split; [exact E3|]. split; [exact I3|]. split; [exact Ch3|]. split; [exact Bk3|].
  split; [exact Ls3|]. split.
  - intros r Hr. rewrite A3 in Hr. apply B3; [exact Hr|]. apply (wf_valid _ _ _ Wf2). exact Hr.
  - intros x. specialize (R3 x). destruct (zget (o_atoms o3) x) as [a3|]; [|exact R3]. destruct R3 as [a [E0 [K [H3 [L3 _]]]]].
    exists a. split; [exact E0|]. split; [exact K|]. split; [exact H3|].
    assert (In x (keys (o_adj o2))) as Hk. { rewrite (wf_keys _ _ _ Wf2). eapply zget_In_keys; eauto. }
    destruct (L3 Hk) as [l [La Lb]]. exists l. split; [rewrite Ls3; exact La | exact Lb].
Qed.
Lemma finish_labels h o : inv1 h o -> FrH h o -> (o_backup o = None -> o_changed o = None) ->
  match unless_transaction calc_labels h o with (h', o', _) => Fr h' o' end.
Proof.
  intros I H L. unfold unless_transaction. destruct (o_backup o) as [b|] eqn:B; [apply Fr_txn; [congruence | exact H]|].
  pose proof (L eq_refl) as C. destruct (calc_labels_fresh h o I) as [h' [o' [E [I' [C' [B' [Ls [Bo R]]]]]]]]. rewrite E.
  apply Fr_of_OK; [congruence | congruence | exact Bo|]. intros n a' Ha'. specialize (R n). rewrite Ha' in R.
  destruct R as [a [Ha [Kc [Hh Lb]]]]. split; [|exact Lb].
  destruct (H n a Ha) as [Hp|Hc]; [unfold pend in Hp; rewrite C in Hp; destruct Hp|].
  apply (hydC_hydOK h o n a B) in Hc. destruct Hc as [l [E1 E2]]. exists l. split; [now rewrite Ls|]. now rewrite Hh, Kc.
Qed.

(* ---- add_bond *)
Lemma old_cells_halloc h c (rw : list (Z * ref)) : (forall m rf, In (m, rf) rw -> rf < h_next h) ->
  forall m rf, In (m, rf) rw -> option_map b_ord (hget (fst (halloc h c)) rf) = option_map b_ord (hget h rf).
Proof. intros Lt m rf Hi. rewrite hget_halloc. destruct (Z.eqb_spec rf (h_next h)); [apply Lt in Hi; lia | reflexivity]. Qed.
Lemma row_lt h o x rw : wf h o -> zget (o_adj o) x = Some rw -> forall m rf, In (m, rf) rw -> rf < h_next h.
Proof. intros Wf Hz m rf Hi. apply (wf_lt _ _ _ Wf). apply In_arefs. exists x, rw, m. split; [now apply zget_In | exact Hi]. Qed.

Lemma put_bond_lenv n m ord rn rm h o :
  wf h o -> n <> m -> zget (o_adj o) n = Some rn -> zget (o_adj o) m = Some rm -> ~ In n (keys rm) -> ~ In m (keys rn) ->
  let h1 := fst (halloc h (mkB ord false)) in
  let o1 := set_adj o (zset (zset (o_adj o) n (zset rn m (h_next h))) m (zset rm n (h_next h))) in
  forall x, (ord <> 8 /\ (x = n \/ x = m)) \/ lenvn h1 o1 x = lenvn h o x.
Proof.
  intros Wf D Hn Hm Nn Nm h1 o1 x.
  assert (hget h1 (h_next h) = Some (mkB ord false)) as Hc by (unfold h1; rewrite hget_halloc, Z.eqb_refl; reflexivity).
  unfold lenvn, row, o1. simpo. rewrite !zget_zset.
  destruct (Z.eqb_spec x m) as [->|Dm]; [|destruct (Z.eqb_spec x n) as [->|Dn]].
  - destruct (Z.eq_dec ord 8) as [->|D8]; [right | left; auto]. rewrite Hm.
    rewrite (lenv_zset8 h1 (o_atoms o) rm n (h_next h) _ Nn Hc eq_refl). apply lenv_ext; [|reflexivity].
    apply old_cells_halloc. eapply row_lt; eauto.
  - destruct (Z.eq_dec ord 8) as [->|D8]; [right | left; auto]. rewrite Hn.
    rewrite (lenv_zset8 h1 (o_atoms o) rn m (h_next h) _ Nm Hc eq_refl). apply lenv_ext; [|reflexivity].
    apply old_cells_halloc. eapply row_lt; eauto.
  - right. destruct (zget (o_adj o) x) as [rw|] eqn:Er; [|reflexivity]. apply lenv_ext; [|reflexivity].
    apply old_cells_halloc. eapply row_lt; eauto.
Qed.

Lemma add_bond_frop n m ord : frop (add_bond n m ord).
Proof.
  intros h o I [H L]. unfold add_bond.
  destruct (negb (valid_order ord)); [split; assumption|]. destruct (Z.eqb_spec n m) as [|D]; [split; assumption|].
  destruct (zget (o_adj o) n) as [rn|] eqn:Hn; [|split; assumption]. destruct (zget (o_adj o) m) as [rm|] eqn:Hm; [|split; assumption].
  destruct (zmem n (keys rm)) eqn:Z; [split; assumption|]. apply zmem_false_notin in Z.
  assert (~ In m (keys rn)) as Nm.
  { intros Hi. apply keys_In_zget in Hi. destruct Hi as [r Hr]. destruct I as [Wf _].
    assert (aslot (o_adj o) n m = Some r) as S by (unfold aslot; now rewrite Hn).
    apply (wf_sym _ _ _ Wf) in S. unfold aslot in S. rewrite Hm in S. apply Z. eapply zget_In_keys; eauto. }
  pose proof (put_bond_good n m ord rn rm h o (conj I (conj D (conj Hn (conj Hm Z))))) as G.
  pose proof (put_bond_lenv n m ord rn rm h o (proj1 I) D Hn Hm Z Nm) as PL. cbv zeta in PL.
  unfold put_bond, halloc, ok in G. cbn beta iota in G. destruct G as [[I1 Hk] [_ [_ [_ B1]]]].
  unfold seq at 1. unfold put_bond, halloc, ok. cbn beta iota. unfold seq at 1. unfold flush at 1, ok. cbn beta iota.
  set (h1 := mkH ((h_next h, mkB ord false) :: h_cells h) (h_next h + 1)) in *.
  set (o1 := set_adj o _) in *. set (o1f := set_cache o1 _).
  assert (inv1 h1 o1f) as I1f by (eapply inv1_same; eauto).
  assert (forall x a, zget (o_atoms o1f) x = Some a -> (ord <> 8 /\ (x = n \/ x = m)) \/ In x (pend o) \/ hydC h1 o1f x a) as Base.
  { intros x a Ha. destruct (PL x) as [Hx|Hx]; [now left|]. right. destruct (H x a Ha) as [Hp|Hc]; [now left|]. right.
    apply (hydC_keep h o); [reflexivity | exact Hx | exact Hc]. }
  destruct (Z.eqb_spec ord 8) as [E8|D8].
  - apply finish_labels; [exact I1f | |].
    + intros x a Ha. destruct (Base x a Ha) as [[D8 _]|Hx]; [contradiction | exact Hx].
    + intros Bn. destruct (L Bn) as [Cn _]. exact Cn.
  - destruct (mark_changed_ok [m; n] h1 o1f) as [o2 E2]. unfold seq. rewrite E2.
    pose proof (mark_changed_good [m; n] h1 o1f) as G2. rewrite E2 in G2. destruct G2 as [I2 _]; [split; [exact I1f | exact Hk]|].
    destruct (mark_same _ _ _ _ E2) as [A2 [D2 [B2 _]]]. pose proof (pend_mark _ _ _ _ E2) as P2.
    apply (finish true h1 o2 I2). intros x a Ha. rewrite A2 in Ha. destruct (Base x a Ha) as [[_ Hx]|[Hp|Hc]].
    + left. apply P2. left. cbn. destruct Hx as [->| ->]; auto.
    + left. apply P2. right. exact Hp.
    + right. apply (hydC_keep h1 o1f); [exact B2 | unfold lenvn, row; now rewrite A2, D2 | exact Hc].
Qed.

(* ---- delete_bond *)
Lemma delete_bond_frop n m : frop (delete_bond n m).
Proof.
  intros h o I [H L]. unfold delete_bond.
  destruct (zget (o_adj o) n) as [rn|] eqn:Hn; [|split; assumption].
  destruct (zget rn m) as [rf0|] eqn:Hnm; [|split; assumption].
  destruct (delete_bond_struct n m h o rn rf0 I Hn Hnm) as [rm [cl [Hm [Hmn [D [Hc K]]]]]].
  simpo. rewrite zget_zset. replace (m =? n) with false by (symmetry; apply Z.eqb_neq; congruence).
  rewrite Hm, Hmn, Hc. cbn zeta in K. destruct K as [I2 [_ N2]].
  set (o2 := set_adj o (zset (zset (o_adj o) n (zdel rn m)) m (zdel rm n))) in *.
  change (set_adj (set_adj o (zset (o_adj o) n (zdel rn m))) (zset (zset (o_adj o) n (zdel rn m)) m (zdel rm n))) with o2.
  destruct I as [Wf Cw]. pose proof (wf_nd _ _ _ Wf) as [_ Rw].
  assert (forall x, (b_ord cl <> 8 /\ (x = n \/ x = m)) \/ lenvn h o2 x = lenvn h o x) as PL.
  { intros x. unfold lenvn, row, o2. simpo. rewrite !zget_zset.
    destruct (Z.eqb_spec x m) as [->|Dm]; [|destruct (Z.eqb_spec x n) as [->|Dn]].
    - destruct (Z.eq_dec (b_ord cl) 8) as [E8|D8]; [right | left; auto]. rewrite Hm. eapply lenv_zdel8; eauto.
    - destruct (Z.eq_dec (b_ord cl) 8) as [E8|D8]; [right | left; auto]. rewrite Hn. eapply lenv_zdel8; eauto.
    - now right. }
  assert (forall x a, zget (o_atoms o2) x = Some a -> (b_ord cl <> 8 /\ (x = n \/ x = m)) \/ In x (pend o) \/ hydC h o2 x a) as Base.
  { intros x a Ha. destruct (PL x) as [Hx|Hx]; [now left|]. right. destruct (H x a Ha) as [Hp|Hc']; [now left|]. right.
    apply (hydC_keep h o); [reflexivity | exact Hx | exact Hc']. }
  destruct (Z.eqb_spec (b_ord cl) 8) as [E8|D8].
  - unfold seq at 1. unfold ok at 1. unfold seq at 1. unfold flush at 1, ok. cbn beta iota.
    apply (finish true); [eapply inv1_same; eauto|]. intros x a Ha. destruct (Base x a Ha) as [[D8 _]|Hx]; [contradiction|].
    destruct Hx as [Hp|Hc']; [now left | right]. apply (hydC_keep h o2); auto.
  - destruct (mark_changed_ok [m; n] h o2) as [o3 E3]. unfold seq at 1. rewrite E3. unfold seq at 1. unfold flush at 1, ok. cbn beta iota.
    pose proof (mark_changed_good [m; n] h o2) as G3. rewrite E3 in G3. destruct G3 as [I3 _]; [split; [exact I2 | exact N2]|].
    destruct (mark_same _ _ _ _ E3) as [A3 [D3 [B3 _]]]. pose proof (pend_mark _ _ _ _ E3) as P3.
    apply (finish true); [eapply inv1_same; eauto|]. intros x a Ha. simpo. rewrite A3 in Ha. destruct (Base x a Ha) as [[_ Hx]|[Hp|Hc']].
    + left. unfold pend. simpo. apply P3. left. cbn. destruct Hx as [->| ->]; auto.
    + left. unfold pend. simpo. apply P3. right. exact Hp.
    + right. apply (hydC_keep h o2); [simpo; exact B3 | unfold lenvn, row; simpo; now rewrite A3, D3 | exact Hc'].
Qed.

(* ---- delete_atom *)
Lemma unlink_rows n : forall t h o h' o', NoDup (keys t) -> unlink n t h o = (h', o', None) ->
  h' = h /\ o_atoms o' = o_atoms o /\ o_backup o' = o_backup o /\
  (forall x, zget (o_adj o') x = if zmem x (keys t) then option_map (fun rw => zdel rw n) (zget (o_adj o) x) else zget (o_adj o) x) /\
  (forall x, In x (pend o) -> In x (pend o')) /\
  (forall m rf c, In (m, rf) t -> hget h rf = Some c -> b_ord c <> 8 -> In m (pend o')).
Proof.
  induction t as [|[m rf] t IH]; intros h o h' o' ND H; cbn [unlink] in H.
  - inversion H; subst. repeat split; auto. intros m rf c [].
  - destruct (zget (o_adj o) m) as [rm|] eqn:Em; [|inversion H]. destruct (negb (zmem n (keys rm))); [inversion H|].
    set (o1 := set_adj o (zset (o_adj o) m (zdel rm n))) in *. destruct (hget h rf) as [cl|] eqn:Ec; [|inversion H].
    cbn [keys map fst] in ND. inversion ND as [|? ? Hm NDt]; subst.
    assert (forall oX, o_adj oX = o_adj o1 -> o_atoms oX = o_atoms o -> o_backup oX = o_backup o ->
              unlink n t h oX = (h', o', None) ->
              h' = h /\ o_atoms o' = o_atoms o /\ o_backup o' = o_backup o /\
              (forall x, zget (o_adj o') x = if zmem x (keys ((m, rf) :: t)) then option_map (fun rw => zdel rw n) (zget (o_adj o) x) else zget (o_adj o) x) /\
              (forall x, In x (pend oX) -> In x (pend o'))) as K.
    { intros oX EA EAt EB HX. destruct (IH h oX h' o' NDt HX) as [-> [A1 [B1 [R1 [P1 _]]]]]. split; [reflexivity|]. split; [congruence|].
      split; [congruence|]. split; [|exact P1]. intros x. rewrite R1, EA. unfold o1. simpo. rewrite zget_zset.
      replace (zmem x (keys ((m, rf) :: t))) with ((x =? m) || zmem x (keys t)) by reflexivity.
      destruct (Z.eqb_spec x m) as [->|Dx]; cbn [orb]; [|reflexivity]. rewrite Em. cbn.
      destruct (zmem m (keys t)) eqn:Zm; [apply zmem_In in Zm; contradiction | reflexivity]. }
    destruct (Z.eqb_spec (b_ord cl) 8) as [E8|D8].
    + destruct (K o1) as [-> [A [B [R P]]]]; auto. split; [reflexivity|]. split; [exact A|]. split; [exact B|]. split; [exact R|]. split; [exact P|].
      intros m0 rf0 c [E0|Hi] Hc Ho; [inversion E0; subst; congruence|]. destruct (IH h o1 h o' NDt H) as [_ [_ [_ [_ [_ Q]]]]]. eapply Q; eauto.
    + unfold seq in H. destruct (mark_changed_ok [m] h o1) as [o2 E2]. rewrite E2 in H.
      destruct (mark_same _ _ _ _ E2) as [A2 [D2 [B2 _]]]. pose proof (pend_mark _ _ _ _ E2) as P2.
      destruct (K o2) as [-> [A [B [R P]]]]; auto. split; [reflexivity|]. split; [exact A|]. split; [exact B|]. split; [exact R|]. split.
      * intros x Hx. apply P. apply P2. right. exact Hx.
      * intros m0 rf0 c [E0|Hi] Hc Ho.
        -- inversion E0; subst. apply P. apply P2. left. now left.
        -- destruct (IH h o2 h o' NDt H) as [_ [_ [_ [_ [_ Q]]]]]. eapply Q; eauto.
Qed.

Lemma delete_atom_frop n : frop (delete_atom n).
Proof.
  intros h o I [H L]. unfold delete_atom.
  destruct (zget (o_atoms o) n) as [a0|] eqn:Ha0; [|split; assumption].
  destruct (zget (o_adj o) n) as [r|] eqn:Hr; [|split; assumption].
  destruct (delete_struct n h o a0 r I Ha0 Hr) as [o1 [R [W1 [C1 [_ _]]]]].
  pose proof I as [Wf Cw]. pose proof (wf_nd _ _ _ Wf) as [NDk Rw].
  assert (unlink n r h (set_adj (set_atoms o (zdel (o_atoms o) n)) (zdel (o_adj o) n)) = (h, o1, None)) as RU by exact R.
  destruct (unlink_rows n r h _ h o1 (Rw _ _ Hr) RU) as [_ [A1 [B1 [Rows [P1 Mk]]]]]. simpo.
  (* the rest of the operation *)
  rewrite <- seq_assoc. unfold seq at 1. rewrite R.
  unfold seq at 1. unfold discard_changed at 1, ok at 1. cbn beta iota. unfold seq at 1. unfold flush at 1, ok. cbn beta iota.
  set (o2 := set_cache _ _).
  assert (inv1 h o2) as I2.
  { pose proof (discard_changed_mod n h o1 (conj W1 C1)) as G. unfold discard_changed, ok in G. cbn beta iota in G. destruct G as [G _].
    eapply inv1_same; eauto. }
  apply (finish true h o2 I2). intros x a Ha. unfold o2 in Ha. simpo. rewrite A1 in Ha. rewrite zget_zdel in Ha.
  destruct (Z.eqb_spec x n) as [|Dx]; [discriminate|].
  assert (forall y, In y (pend o1) -> y <> n -> In y (pend o2)) as Pd.
  { intros y Hy Dy. unfold pend, o2 in *. simpo. destruct (o_changed o1) as [l|]; [|destruct Hy]. apply filter_In. split; [exact Hy|].
    destruct (Z.eqb_spec y n); [contradiction | reflexivity]. }
  assert (forall m rf, In (m, rf) r -> aslot (o_adj o) n m = Some rf) as Sl.
  { intros m rf Hi. unfold aslot. rewrite Hr. apply In_zget_nodup; [eapply Rw; eauto | assumption]. }
  (* the row of x after the loop *)
  specialize (Rows x). rewrite zget_zdel in Rows. replace (x =? n) with false in Rows by (symmetry; now apply Z.eqb_neq).
  assert (lenvn h o2 x = lenv_of_row h (zdel (o_atoms o) n) (match zget (o_adj o1) x with Some l => l | None => [] end)) as E2.
  { unfold lenvn, row, o2. simpo. now rewrite A1. }
  destruct (zmem x (keys r)) eqn:Zx.
  - (* a neighbour of the deleted atom *)
    apply zmem_In in Zx. apply keys_In_zget in Zx. destruct Zx as [rf Hrf]. pose proof (Sl _ _ (zget_In _ _ _ Hrf)) as S1.
    pose proof (wf_sym _ _ _ Wf _ _ _ S1) as S2. apply aslot_row in S2. destruct S2 as [rx [Hx Hxn]].
    destruct (wf_valid _ _ _ Wf rf (aslot_arefs _ _ _ _ S1)) as [c Hc].
    destruct (Z.eq_dec (b_ord c) 8) as [E8|D8]; [|left; apply Pd; [eapply Mk; eauto using zget_In | exact Dx]].
    destruct (H x a Ha) as [Hp|Hcx]; [left; apply Pd; [apply P1; exact Hp | exact Dx]|]. right.
    apply (hydC_keep h o); [unfold o2; simpo; exact B1 | | exact Hcx].
    rewrite E2, Rows, Hx. cbn [option_map]. unfold lenvn, row. rewrite Hx.
    rewrite <- (lenv_zdel8 h (o_atoms o) rx n rf c (Rw _ _ Hx) Hxn Hc E8). apply lenv_ext; [reflexivity|].
    intros y ry Hy. rewrite zget_zdel. destruct (Z.eqb_spec y n) as [->|]; [|reflexivity]. exfalso.
    unfold zdel in Hy. apply filter_In in Hy. destruct Hy as [_ Hy]. cbn in Hy. rewrite Z.eqb_refl in Hy. discriminate.
  - (* not a neighbour: the row is what it was and does not mention n *)
    destruct (H x a Ha) as [Hp|Hcx]; [left; apply Pd; [apply P1; exact Hp | exact Dx]|]. right.
    apply (hydC_keep h o); [unfold o2; simpo; exact B1 | | exact Hcx].
    rewrite E2, Rows. unfold lenvn, row. destruct (zget (o_adj o) x) as [rx|] eqn:Hx; [|reflexivity]. apply lenv_ext; [reflexivity|].
    intros y ry Hy. rewrite zget_zdel. destruct (Z.eqb_spec y n) as [->|]; [|reflexivity]. exfalso.
    assert (aslot (o_adj o) x n = Some ry) as S by (eapply nd_In_aslot; [split; eauto | apply zget_In; exact Hx | exact Hy]).
    apply (wf_sym _ _ _ Wf) in S. unfold aslot in S. rewrite Hr in S. apply zmem_false_notin in Zx. apply Zx. eapply zget_In_keys; eauto.
Qed.

(* ---- charge / radical setters inside a transaction *)
Lemma setter_frop h o n a a' : inv1 h o -> Fr h o -> o_backup o <> None -> zget (o_atoms o) n = Some a ->
  c_num (a_core a') = c_num (a_core a) -> c_iso (a_core a') = c_iso (a_core a) -> a_hyd a' = a_hyd a ->
  Fr h (set_atoms o (zset (o_atoms o) n a')).
Proof.
  intros I [H L] B Ha En Ei Eh. apply Fr_txn; [exact B|]. intros x ax Hx. simpo. rewrite zget_zset in Hx.
  assert (forall y, lenvn h (set_atoms o (zset (o_atoms o) n a')) y = lenvn h o y) as Ls.
  { apply lenvn_soft; [reflexivity | reflexivity|]. intros m. simpo. eapply anum_zset; eauto. }
  destruct (Z.eqb_spec x n) as [->|Dx].
  - inversion Hx; subst ax. destruct (H n a Ha) as [Hp|[c0 [l [E1 [E2 [N1 [N2 Bs]]]]]]]; [now left|]. right. exists c0, l.
    split; [congruence|]. split; [now rewrite Ls|]. split; [congruence|]. split; [congruence|]. simpo. destruct (o_backup o); [exact Bs | contradiction].
  - destruct (H x ax Hx) as [Hp|Hc]; [now left|]. right. apply (hydC_keep h o); auto.
Qed.
Lemma set_charge_frop n v h o : inv1 h o -> Fr h o -> o_backup o <> None -> match set_charge n v h o with (h', o', _) => Fr h' o' end.
Proof.
  intros I F B. unfold set_charge. destruct (zget (o_atoms o) n) as [a|] eqn:E; [|exact F]. destruct ((v >? 4) || (v <? -4)); [exact F|].
  cbv beta iota delta [ok]. eapply setter_frop; eauto.
Qed.
Lemma set_radical_frop n v h o : inv1 h o -> Fr h o -> o_backup o <> None -> match set_radical n v h o with (h', o', _) => Fr h' o' end.
Proof.
  intros I F B. unfold set_radical. destruct (zget (o_atoms o) n) as [a|] eqn:E; [|exact F].
  cbv beta iota delta [ok]. eapply setter_frop; eauto.
Qed.

(* ---- __exit__ without exception *)
Lemma In_txn_diffs_intro x o b a a0 : zget (o_atoms o) x = Some a -> zget (bk_atoms b) x = Some a0 ->
  ((c_chg (a_core a) =? c_chg (a_core a0)) && Bool.eqb (c_rad (a_core a)) (c_rad (a_core a0))) = false -> In x (txn_diffs o b).
Proof.
  intros H1 H2 H3. unfold txn_diffs. apply in_flat_map. exists (x, a). split; [now apply zget_In|]. cbn [fst snd]. rewrite H2, H3. now left.
Qed.

Lemma In_txn_diffs_new x o b a : zget (o_atoms o) x = Some a -> zget (bk_atoms b) x = None -> In x (txn_diffs o b).
Proof.
  intros H1 H2. unfold txn_diffs. apply in_flat_map. exists (x, a). split; [now apply zget_In|]. cbn [fst snd]. rewrite H2. now left.
Qed.
Lemma exit_ok_frop : frop exit_ok.
Proof.
  intros h o I [H L]. rewrite exit_ok_split. unfold seq at 1. unfold exit_body. unfold seq at 1.
  (* note_setters *)
  assert (exists o1, note_setters h o = (h, o1, None) /\ o_atoms o1 = o_atoms o /\ o_adj o1 = o_adj o /\ o_backup o1 = o_backup o /\
            (forall x, In x (pend o) -> In x (pend o1)) /\
            (forall b, o_backup o = Some b -> o_changed o <> None -> forall x, In x (txn_diffs o b) -> In x (pend o1)) /\
            (o_changed o = None -> o_changed o1 = None)) as [o1 [E1 [A1 [D1 [B1 [P1 [Q1 N1]]]]]]].
  { unfold note_setters. destruct (o_changed o) as [l|] eqn:Ec.
    - destruct (o_backup o) as [b|] eqn:Eb; [|exfalso; destruct (L Eb) as [C _]; congruence].
      eexists. split; [reflexivity|]. simpo. repeat split; auto.
      + intros x Hx. unfold pend in *. simpo. rewrite Ec in Hx. apply In_fold_sadd. now right.
      + intros b0 Eb0 _ x Hx. inversion Eb0; subst b0. unfold pend. simpo. apply In_fold_sadd. now left.
      + discriminate.
    - exists o. unfold ok. repeat split; auto. intros b _ C. contradiction. }
  rewrite E1. unfold seq at 1. unfold flush at 1, ok. cbn beta iota. set (o2 := set_cache o1 _).
  assert (inv1 h o2) as I2.
  { pose proof (note_setters_good h o I) as G. rewrite E1 in G. destruct G as [G _]. eapply inv1_same; eauto. }
  (* fix_structure on o2: every atom is pending or its stored count is current *)
  destruct (fix_hyd h o2 I2) as [h3 [o3 [E3 [I3 [_ [C3 [B3 [Bo3 R3]]]]]]]].
  { intros x a Ha. unfold o2 in Ha; simpo. rewrite A1 in Ha.
    destruct (o_changed o) as [l|] eqn:Ec; [|left; unfold todo, o2; simpo; rewrite (N1 eq_refl); rewrite A1; eapply zget_In_keys; eauto].
    destruct (H x a Ha) as [Hp|[c0 [l0 [X1 [X2 [Nn [Ni Bs]]]]]]]; [left; apply todo_pend; unfold pend, o2 in *; simpo; now apply P1|].
    destruct (o_backup o) as [b|] eqn:Eb.
    - destruct (zget (bk_atoms b) x) as [a0|] eqn:Ha0;
        [|left; apply todo_pend; unfold pend, o2; simpo; apply (Q1 b eq_refl); [discriminate|]; eapply In_txn_diffs_new; eauto].
      destruct Bs as [Ec0 Er0].
      destruct ((c_chg (a_core a) =? c_chg (a_core a0)) && Bool.eqb (c_rad (a_core a)) (c_rad (a_core a0))) eqn:Ed.
      + right. apply andb_true_iff in Ed. destruct Ed as [Ed1 Ed2]. apply Z.eqb_eq in Ed1. apply Bool.eqb_prop in Ed2.
        exists l0. split; [unfold lenvn, row, o2; simpo; rewrite A1, D1; exact X2|]. rewrite X1. f_equal. f_equal.
        apply acore_eta; congruence.
      + left. apply todo_pend. unfold pend, o2; simpo. apply (Q1 b eq_refl); [discriminate|]. eapply In_txn_diffs_intro; eauto.
    - right. destruct Bs. exists l0. split; [unfold lenvn, row, o2; simpo; rewrite A1, D1; exact X2|]. rewrite X1. f_equal. f_equal.
      now apply acore_eta. }
  unfold seq at 1. rewrite E3. unfold fix_stereo, read, ok. cbn beta iota. unfold drop_backup, ok.
  apply Fr_of_OK; [reflexivity | simpo; exact C3 | |].
  - eapply bondsOK_view; [|exact Bo3]. reflexivity.
  - intros x a Ha. simpo. destruct (R3 x a Ha) as [[l [X1 X2]] [l' [Y1 Y2]]]. split; [exists l | exists l']; split; auto.
Qed.
