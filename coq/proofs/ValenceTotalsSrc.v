(* C04 round 4 -- the totals of MoleculeContainer (molecular_charge, is_radical, molecular_mass, brutto; int(mol) / float(mol) return the
   first and the third) against their bodies translated from chython/containers/molecule.py on every run (Gen.ValenceBodies): the
   hand-written definitions of Model.Valence equal the translated source for EVERY molecule. *)
From Coq Require Import ZArith List String Bool Lia.
From Model Require Import PyBase Graph PeriodicTable Valence ValenceSrcLib.
From Gen Require Import Elements ValenceBodies.
Import ListNotations.
Open Scope Z_scope.

Lemma pbind_ret {A : Type} (x : pyres A) : pbind x (fun v => Ok v) = x.
Proof. destruct x; reflexivity. Qed.

Lemma pfold_charge l : forall acc,
  pfold (fun acc '(_, a) => Ok (acc + a_chg a)) l acc = Ok (fold_left Z.add (map (fun na : Z * atom => a_chg (snd na)) l) acc).
Proof. induction l as [|[k a] r IH]; intros acc; cbn [pfold pbind map fold_left snd]; [reflexivity | apply IH]. Qed.

Theorem molecular_charge_follows_source g : src_molecular_charge g = Ok (molecular_charge g).
Proof. unfold src_molecular_charge, molecular_charge. rewrite pbind_ret. apply pfold_charge. Qed.

Lemma pfold_radical l : forall acc,
  pfold (fun acc '(_, a) => Ok (acc || a_rad a)) l acc = Ok (acc || existsb (fun na : Z * atom => a_rad (snd na)) l).
Proof.
  induction l as [|[k a] r IH]; intros acc; cbn [pfold pbind existsb snd]; [rewrite orb_false_r; reflexivity|].
  rewrite IH, orb_assoc. reflexivity.
Qed.

Theorem is_radical_follows_source g : src_is_radical g = Ok (is_radical g).
Proof. unfold src_is_radical, is_radical. rewrite pbind_ret, pfold_radical. reflexivity. Qed.

Lemma pfold_mass hm l : forall acc,
  pfold (fun acc '(_, a) => pbind (atomic_mass_e24 (a_num a) (a_iso a)) (fun x2 => pbind (py_some (a_h a)) (fun x3 => Ok (acc + (x2 + x3 * hm))))) l acc
  = mass_loop hm l acc.
Proof.
  induction l as [|[k a] r IH]; intros acc; cbn [pfold mass_loop]; [reflexivity|].
  destruct (atomic_mass_e24 (a_num a) (a_iso a)) as [m|x]; cbn [pbind]; [|reflexivity].
  unfold py_some. destruct (a_h a) as [h|]; cbn [pbind]; [apply IH | reflexivity].
Qed.

Theorem molecular_mass_follows_source g : src_molecular_mass g = molecular_mass_e24 g.
Proof.
  unfold src_molecular_mass, molecular_mass_e24. destruct (atomic_mass_e24 1 None) as [hm|x]; cbn [pbind]; [|reflexivity].
  rewrite pbind_ret. apply pfold_mass.
Qed.

Lemma pfold_symbols l : forall c,
  pfold (fun acc '(_, a) => pbind (py_symbol a) (fun x1 => Ok (sincr acc x1 1))) l c = symbols_counter l c.
Proof.
  induction l as [|[k a] r IH]; intros c; cbn [pfold symbols_counter]; [reflexivity|].
  unfold py_symbol. destruct (symbol_of (a_num a)) as [s|]; cbn [pbind]; [apply IH | reflexivity].
Qed.
Lemma pfold_sum_h l : forall acc,
  pfold (fun acc '(_, a) => pbind (py_some (a_h a)) (fun x3 => Ok (acc + x3))) l acc = sum_h l acc.
Proof.
  induction l as [|[k a] r IH]; intros acc; cbn [pfold sum_h]; [reflexivity|].
  unfold py_some. destruct (a_h a) as [h|]; cbn [pbind]; [apply IH | reflexivity].
Qed.

Theorem brutto_follows_source g : src_brutto g = brutto g.
Proof.
  unfold src_brutto, brutto. rewrite pfold_symbols. destruct (symbols_counter (m_atoms g) []) as [c|x]; cbn [pbind]; [|reflexivity].
  rewrite pfold_sum_h. destruct (sum_h (m_atoms g) 0); reflexivity.
Qed.

(* non-vacuity: [13CH3]O with a charge on nothing: formula, charge, radical flag, mass through the translated bodies *)
Definition methanol13 : mol :=
  mkMol [(1, mkAtom 6 (Some 13) 0 false (Some 3) None); (2, mkAtom 8 None 0 false (Some 1) None)]
        [(1, [(2, mkBond 1 None)]); (2, [(1, mkBond 1 None)])].
Example totals_source_example :
  src_brutto methanol13 = Ok [("C"%string, 1); ("O"%string, 1); ("H"%string, 4)] /\ src_molecular_charge methanol13 = Ok 0 /\
  src_is_radical methanol13 = Ok false /\ src_molecular_mass methanol13 = molecular_mass_e24 methanol13 /\
  exists m, src_molecular_mass methanol13 = Ok m /\ 33 * 10 ^ 24 < m < 34 * 10 ^ 24.
Proof.
  split; [vm_compute; reflexivity|]. split; [vm_compute; reflexivity|]. split; [vm_compute; reflexivity|].
  split; [apply molecular_mass_follows_source|]. eexists. split; [vm_compute; reflexivity|]. split; vm_compute; reflexivity.
Qed.
