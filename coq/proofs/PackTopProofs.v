(* C10: the public decode entry points (Model.PackTop).
   (1) the bodies translated from the sources (Gen.PackTopGen) are the hand-written models, for ALL inputs;
   (2) chython.unpack / unpach (generic dispatcher) and ReactionContainer.unpack with molecule headers checked, on
       version 2 AND version 0 molecule packs, alone or inside a reaction pack, followed by anything. *)
From Coq Require Import ZArith List Bool Lia ZifyBool.
From Model Require Import PyBase Pack PackSpec PackSpecV0 PackApi PackRxnApi PackStereo PackTop.
From Gen Require Import PackTopGen.
From Proofs Require Import PackBits PackRoundtrip PackRoundtripGraph PackRoundtripMol PackLayout PackProofs PackRxn PackV0 PackV0Unpack PackApiExt.
Import ListNotations.
Open Scope Z_scope.

(* ================================================================================================ *)
(* (1) generated = hand-written *)

Theorem gen_unpach_is_model (M R : Type) dec (mu : list Z -> pyres M) (ru : list Z -> pyres R) c d :
  gen_unpach dec mu ru c d = top_unpack dec mu ru c d.
Proof.
  unfold gen_unpach, top_unpack, bind. destruct c.
  - destruct (dec d) as [d'|e]; [|reflexivity]. destruct (mu d') as [m|[]]; reflexivity.
  - destruct (mu d) as [m|[]]; reflexivity.
Qed.

(* MoleculeContainer.unpack: the instance of the primitives on the hand model's data (atoms + labelled adjacency) *)
Definition amol : Type := (list uatom * ladj)%type.
Definition unpack3 (d : list Z) : pyres (amol * list (Z * Z * bool) * Z) :=
  match unpack d with Ok u => Ok ((up_atoms u, ladj_of_unpacked u), up_ct u, up_size u) | Err e => Err e end.
(* mol.bond(c1, c2)._stereo = s : BondNotFound (a KeyError) when the bond does not exist *)
Definition set_bond (g : amol) (c1 c2 : Z) (s : bool) : pyres amol :=
  if has_bond (snd g) c1 c2 then Ok (fst g, set_lab (snd g) c1 c2 s) else Err KeyError.

Lemma for_each_reattach C : forall ct a adj,
  for_each ct (fun '(n, m, s) mol =>
     if dict_has C n then bind (dict_get C n) (fun '(x, y) => bind (set_bond mol x y s) (fun mol => Ok mol)) else Ok mol) (a, adj)
  = match reattach C ct adj with Ok adj' => Ok (a, adj') | Err e => Err e end.
Proof.
  induction ct as [|[[n m] s] r IH]; intros a adj; [reflexivity|].
  cbn [for_each reattach]. unfold dict_has, dict_get. destruct (zget C n) as [[c1 c2]|]; cbn [bind].
  - unfold set_bond. cbn [fst snd]. destruct (has_bond adj c1 c2); cbn [bind]; [apply IH | reflexivity].
  - apply IH.
Qed.

(* the cached property mol._stereo_cis_trans_centers is computed once from the label-free decoded molecule: constant
   during the loop *)
Theorem gen_mol_unpack_is_model paths (calc : amol -> amol) (skip ret : bool) dec data :
  gen_mol_unpack dec unpack3 (fun _ => centers_of paths) set_bond calc false skip ret data =
  match api_unpack paths data with
  | Ok (a, adj, sz) => let g := if skip then (a, adj) else calc (a, adj) in Ok (if ret then inl (g, sz) else inr g)
  | Err e => Err e
  end.
Proof.
  unfold gen_mol_unpack, api_unpack, py_index. cbn [bind].
  destruct (getb data 0) as [v|]; [|reflexivity]. cbn [bind]. unfold zmem. cbn [existsb].
  replace (negb ((v =? 0) || (v =? 2))) with (negb ((v =? 0) || ((v =? 2) || false))) by (rewrite orb_false_r; reflexivity).
  destruct ((v =? 0) || ((v =? 2) || false)); cbn [negb]; [|reflexivity].
  unfold unpack3. destruct (unpack data) as [u|e]; [|reflexivity]. cbn [bind].
  rewrite for_each_reattach. destruct (reattach (centers_of paths) (up_ct u) (ladj_of_unpacked u)) as [adj|e]; [|reflexivity].
  cbn [bind]. destruct skip, ret; reflexivity.
Qed.

(* ReactionContainer.unpack *)
Lemma for_range_walk {M A : Type} (f : list Z -> pyres (M * Z)) data (K : list M -> pyres A) : forall n acc sh,
  bind (for_range n (fun '(molecules, shift) => bind (f (py_from data shift))
          (fun '(m, pl) => let molecules := molecules ++ [m] in let shift := shift + pl in Ok (molecules, shift))) (acc, sh))
       (fun '(molecules, _) => K molecules)
  = bind (rxn_walk f n data sh) (fun l => K (acc ++ l)).
Proof.
  induction n as [|k IH]; intros acc sh.
  - cbn. rewrite app_nil_r. reflexivity.
  - cbn [for_range rxn_walk]. destruct (f (py_from data sh)) as [[m pl]|e]; cbn [bind]; [|reflexivity].
    rewrite IH. destruct (rxn_walk f k data (sh + pl)) as [l|e]; cbn [bind]; [|reflexivity].
    rewrite <- app_assoc. reflexivity.
Qed.

Theorem gen_rxn_unpack_is_model (M : Type) dec (f : list Z -> pyres (M * Z)) data :
  gen_rxn_unpack dec f false data = rxn_unpack_with f data.
Proof.
  unfold gen_rxn_unpack, rxn_unpack_with, py_index.
  destruct (getb data 0) as [h|]; [|reflexivity]. cbn [bind].
  destruct (negb (h =? 1)); [reflexivity|].
  destruct (getb data 1) as [r|]; [|reflexivity]. cbn [bind].
  destruct (getb data 2) as [a|]; [|reflexivity]. cbn [bind].
  destruct (getb data 3) as [p|]; [|reflexivity]. cbn [bind].
  cbv zeta.
  pose proof (for_range_walk f data (fun ms => Ok (py_slice ms 0 r, py_slice ms r (r + a), py_from ms (r + a)))
                (Z.to_nat (r + a + p)) [] 4) as W.
  cbv zeta in W. etransitivity; [|etransitivity; [exact W|]].
  - f_equal.
  - destruct (rxn_walk f (Z.to_nat (r + a + p)) data 4); reflexivity.
Qed.

(* ================================================================================================ *)
(* (2) the dispatcher and the reaction decoder on molecule packs of BOTH versions *)

Lemma top_mol_ok {M R : Type} dec (mu : list Z -> pyres M) (ru : list Z -> pyres R) data x :
  mu data = Ok x -> top_unpack dec mu ru false data = Ok (inl x).
Proof. intros H. unfold top_unpack. rewrite H. reflexivity. Qed.

Lemma top_mol_ok_compressed {M R : Type} dec (mu : list Z -> pyres M) (ru : list Z -> pyres R) z data x :
  dec z = Ok data -> mu data = Ok x -> top_unpack dec mu ru true z = Ok (inl x).
Proof. intros Hd H. unfold top_unpack. rewrite Hd, H. reflexivity. Qed.

Lemma top_rxn {M R : Type} dec (mu : list Z -> pyres M) (ru : list Z -> pyres R) data :
  mu data = Err ValueError -> top_unpack dec mu ru false data = match ru data with Ok r => Ok (inr r) | Err e => Err e end.
Proof. intros H. unfold top_unpack. rewrite H. reflexivity. Qed.

Lemma top_other_error {M R : Type} dec (mu : list Z -> pyres M) (ru : list Z -> pyres R) data e :
  mu data = Err e -> e <> ValueError -> top_unpack dec mu ru false data = Err e.
Proof. intros H Hne. unfold top_unpack. rewrite H. destruct e; try reflexivity. contradiction. Qed.

(* a molecule pack in either version: the block form and the declarative bit stream *)
Definition vlayout (vm : bool * pmol) : list Z := if fst vm then pack_layout (snd vm) else pack_layout_v0 (snd vm).
Definition vbytes (vm : bool * pmol) : list Z :=
  if fst vm then bytes_of_bits (layout_v2 (snd vm)) else bytes_of_bits (layout_v0 (snd vm)).
Definition vresult (vm : bool * pmol) : unpacked := unpacked_of (snd vm) (Z.of_nat (length (vbytes vm))).
Definition vok (vm : bool * pmol) : Prop := pack_ok (snd vm) = true.

Lemma vbytes_vlayout vm : vok vm -> vbytes vm = vlayout vm.
Proof.
  destruct vm as [[|] m]; unfold vok, vbytes, vlayout; cbn [fst snd]; intros H.
  - pose proof (pack_is_layout m H) as E1. rewrite (pack_blocks m H) in E1.
    exact (f_equal (fun r : pyres (list Z) => match r with Ok x => x | Err _ => [] end) (eq_sym E1)).
  - apply layout_v0_blocks. exact H.
Qed.

Lemma hdr_unpack_vlayout vm suf : vok vm -> hdr_unpack (vlayout vm ++ suf) = Ok (unpacked_of (snd vm) (Z.of_nat (length (vlayout vm)))).
Proof.
  destruct vm as [[|] m]; unfold vok, vlayout, hdr_unpack; cbn [fst snd]; intros H.
  - replace (getb (pack_layout m ++ suf) 0) with (Some 2) by reflexivity. cbn [Z.eqb Pos.eqb orb negb].
    rewrite (unpack_layout m suf H). reflexivity.
  - replace (getb (pack_layout_v0 m ++ suf) 0) with (Some 0) by reflexivity. cbn [Z.eqb orb negb].
    apply (unpack_layout_v0_blocks m suf H).
Qed.

Lemma py_from_prefix {A} (pre l : list A) : py_from (pre ++ l) (Z.of_nat (length pre)) = l.
Proof.
  unfold py_from, py_slice. rewrite app_length.
  replace (Z.of_nat (length pre) <? 0) with false by lia.
  replace (Z.of_nat (length pre + length l) <? 0) with false by lia.
  rewrite Z.min_id. rewrite Z.min_l by lia.
  destruct (Z.of_nat (length pre + length l) <=? Z.of_nat (length pre)) eqn:E.
  - destruct l; [reflexivity|]. cbn [length] in E. lia.
  - rewrite Nat2Z.id, skipn_app, skipn_all, Nat.sub_diag. cbn [skipn app].
    replace (Z.to_nat (Z.of_nat (length pre + length l) - Z.of_nat (length pre))) with (length l) by lia.
    apply firstn_all.
Qed.

Lemma rxn_walk_spec : forall ms pre suf, Forall vok ms ->
  rxn_walk hdr_unpack_len (length ms) (pre ++ concat (map vlayout ms) ++ suf) (Z.of_nat (length pre))
  = Ok (map (fun vm => unpacked_of (snd vm) (Z.of_nat (length (vlayout vm)))) ms).
Proof.
  induction ms as [|vm r IH]; intros pre suf H; [reflexivity|].
  inversion H as [|? ? Hm Hr]; subst.
  cbn [length rxn_walk map concat]. rewrite py_from_prefix. rewrite <- app_assoc.
  unfold hdr_unpack_len at 1. rewrite (hdr_unpack_vlayout vm _ Hm). cbn [up_size unpacked_of].
  replace (Z.of_nat (length pre) + Z.of_nat (length (vlayout vm))) with (Z.of_nat (length (pre ++ vlayout vm)))
    by (rewrite app_length; lia).
  rewrite (app_assoc pre). rewrite IH by exact Hr. reflexivity.
Qed.

Lemma map_vlayout_vbytes ms : Forall vok ms -> map vbytes ms = map vlayout ms.
Proof. induction 1 as [|vm r Hm Hr IH]; [reflexivity|]. cbn [map]. rewrite IH, (vbytes_vlayout vm Hm). reflexivity. Qed.

Lemma map_vresult ms : Forall vok ms ->
  map (fun vm => unpacked_of (snd vm) (Z.of_nat (length (vlayout vm)))) ms = map vresult ms.
Proof.
  induction 1 as [|vm r Hm Hr IH]; [reflexivity|]. cbn [map]. rewrite IH. unfold vresult. rewrite (vbytes_vlayout vm Hm). reflexivity.
Qed.

Definition rxn_bytes (rs ags ps : list (bool * pmol)) : list Z :=
  [1; Z.of_nat (length rs); Z.of_nat (length ags); Z.of_nat (length ps)] ++ concat (map vbytes (rs ++ ags ++ ps)).

(* REACTION packs whose molecule packs are version 2 or version 0 in any mixture, all role sizes 0..255, followed by
   anything: ReactionContainer.unpack (molecule headers checked) returns every molecule in its role *)
Theorem rxn_h_roundtrip rs ags ps suf :
  Forall vok rs -> Forall vok ags -> Forall vok ps ->
  (length rs <= 255)%nat -> (length ags <= 255)%nat -> (length ps <= 255)%nat ->
  rxn_unpack_h (rxn_bytes rs ags ps ++ suf) = Ok (map vresult rs, map vresult ags, map vresult ps).
Proof.
  intros Hr Ha Hp Lr La Lp.
  assert (Hall : Forall vok (rs ++ ags ++ ps)) by (rewrite !Forall_app; auto).
  unfold rxn_bytes. rewrite (map_vlayout_vbytes _ Hall).
  set (hdr := [1; Z.of_nat (length rs); Z.of_nat (length ags); Z.of_nat (length ps)]).
  unfold rxn_unpack_h, rxn_unpack_with. rewrite <- app_assoc.
  change (getb (hdr ++ _) 0) with (Some 1). change (getb (hdr ++ _) 1) with (Some (Z.of_nat (length rs))).
  change (getb (hdr ++ _) 2) with (Some (Z.of_nat (length ags))). change (getb (hdr ++ _) 3) with (Some (Z.of_nat (length ps))).
  cbn [Z.eqb Pos.eqb negb].
  pose proof (rxn_walk_spec (rs ++ ags ++ ps) hdr suf Hall) as W.
  rewrite !app_length in W.
  replace (Z.to_nat (Z.of_nat (length rs) + Z.of_nat (length ags) + Z.of_nat (length ps)))
    with (length rs + (length ags + length ps))%nat by lia.
  change (Z.of_nat (length hdr)) with 4 in W. rewrite W.
  rewrite (map_vresult _ Hall). rewrite !map_app.
  rewrite <- (map_length vresult rs) at 1. rewrite <- (map_length vresult ags) at 1.
  rewrite <- (map_length vresult ps) at 1. rewrite rxn_split_correct. reflexivity.
Qed.

(* chython.unpack on a MOLECULE pack of either version followed by anything: the molecule *)
Theorem top_unpack_molecule vm suf : vok vm -> top_unpack_raw (vbytes vm ++ suf) = Ok (inl (vresult vm)).
Proof.
  intros H. unfold top_unpack_raw. apply top_mol_ok. unfold vresult. rewrite (vbytes_vlayout vm H).
  apply hdr_unpack_vlayout. exact H.
Qed.

(* chython.unpack on a REACTION pack: the molecule decoder refuses header byte 1 with ValueError, the reaction decoder runs *)
Theorem top_unpack_reaction rs ags ps suf :
  Forall vok rs -> Forall vok ags -> Forall vok ps ->
  (length rs <= 255)%nat -> (length ags <= 255)%nat -> (length ps <= 255)%nat ->
  top_unpack_raw (rxn_bytes rs ags ps ++ suf) = Ok (inr (map vresult rs, map vresult ags, map vresult ps)).
Proof.
  intros Hr Ha Hp Lr La Lp. unfold top_unpack_raw. rewrite top_rxn by reflexivity.
  rewrite (rxn_h_roundtrip rs ags ps suf Hr Ha Hp Lr La Lp). reflexivity.
Qed.

Definition tag (m : pmol) : bool * pmol := (true, m).

(* what ReactionContainer.pack(check=True) writes is such a pack (all molecules version 2) *)
Theorem top_unpack_rxn_api (rs ags ps : list pmol) :
  Forall api_ok rs -> Forall api_ok ags -> Forall api_ok ps ->
  (length rs <= 255)%nat -> (length ags <= 255)%nat -> (length ps <= 255)%nat ->
  exists bytes, rxn_api_pack true rs ags ps = Ok bytes /\
    top_unpack_raw bytes = Ok (inr (map (fun m => unpacked_of m (pack_size m)) rs, map (fun m => unpacked_of m (pack_size m)) ags,
                                    map (fun m => unpacked_of m (pack_size m)) ps)).
Proof.
  intros Hr Ha Hp Lr La Lp. rewrite (rxn_api_pack_header rs ags ps Hr Ha Hp Lr La Lp). eexists. split; [reflexivity|].
  assert (Hv : forall l, Forall api_ok l -> Forall vok (map tag l)).
  { intros l H. induction H as [|m r [Hm _] _ IH]; cbn [map]; constructor; [exact Hm | exact IH]. }
  assert (Hb : forall l, Forall api_ok l -> map pack_layout l = map vbytes (map tag l)).
  { intros l H. induction H as [|m r [Hm _] _ IH]; cbn [map]; [reflexivity|]. rewrite IH. f_equal.
    unfold tag. symmetry. apply (vbytes_vlayout (true, m)). exact Hm. }
  assert (Hres : forall l, Forall api_ok l -> map vresult (map tag l) = map (fun m => unpacked_of m (pack_size m)) l).
  { intros l H. induction H as [|m r [Hm _] _ IH]; cbn [map]; [reflexivity|]. rewrite IH. f_equal.
    unfold vresult, tag. rewrite (vbytes_vlayout (true, m) Hm). unfold vlayout. cbn [fst snd].
    rewrite (pack_size_layout m Hm). reflexivity. }
  pose proof (top_unpack_reaction (map tag rs) (map tag ags) (map tag ps) [] (Hv _ Hr) (Hv _ Ha) (Hv _ Hp)) as T.
  rewrite !map_length in T. specialize (T Lr La Lp). rewrite app_nil_r in T.
  unfold rxn_bytes in T. rewrite !map_length in T. rewrite <- !map_app in T.
  rewrite <- Hb in T by (rewrite !Forall_app; auto).
  rewrite T, (Hres _ Hr), (Hres _ Ha), (Hres _ Hp). reflexivity.
Qed.

(* ERRORS of the dispatcher: an empty byte string is IndexError; a first byte other than 0, 1, 2 is ValueError (from the
   reaction decoder); any error of the molecule decoder other than ValueError -- a truncated molecule pack -- is NOT
   retried as a reaction *)
Theorem top_unpack_errors :
  top_unpack_raw [] = Err IndexError /\
  (forall h rest, h <> 0 -> h <> 1 -> h <> 2 -> top_unpack_raw (h :: rest) = Err ValueError) /\
  (forall data e, hdr_unpack data = Err e -> e <> ValueError -> top_unpack_raw data = Err e).
Proof.
  split; [reflexivity|]. split.
  - intros h rest H0 H1 H2.
    assert (E1 : hdr_unpack (h :: rest) = Err ValueError).
    { unfold hdr_unpack. change (getb (h :: rest) 0) with (Some h). cbv beta iota.
      replace ((h =? 0) || (h =? 2)) with false by lia. reflexivity. }
    assert (E2 : rxn_unpack_h (h :: rest) = Err ValueError).
    { unfold rxn_unpack_h, rxn_unpack_with. change (getb (h :: rest) 0) with (Some h). cbv beta iota.
      replace (h =? 1) with false by lia. reflexivity. }
    unfold top_unpack_raw. rewrite top_rxn by exact E1. rewrite E2. reflexivity.
  - intros data e H Hne. unfold top_unpack_raw. apply top_other_error; assumption.
Qed.

(* non-vacuity, evaluated: the molecule at the format limits in both versions, alone and inside a reaction pack with an empty
   reagent side whose two product packs are of DIFFERENT versions *)
Lemma top_unpack_example :
  vok (true, pack_example) /\ hd 9 (vbytes (true, pack_example)) = 2 /\ hd 9 (vbytes (false, pack_example)) = 0 /\
  match top_unpack_raw (vbytes (false, pack_example)) with Ok (inl u) => up_size u =? Z.of_nat (length (vbytes (false, pack_example))) | _ => false end = true /\
  match top_unpack_raw (rxn_bytes [(false, pack_example)] [] [(true, pack_example); (false, pack_example)]) with
  | Ok (inr (r, a, p)) => (Z.of_nat (length r) =? 1) && (Z.of_nat (length a) =? 0) && (Z.of_nat (length p) =? 2)
  | _ => false
  end = true.
Proof. split; [exact (proj1 pack_example_ok)|]. vm_compute. repeat split; reflexivity. Qed.
