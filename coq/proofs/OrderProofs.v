(* The neighbour-order table of the parser's record is the one Model.SmilesOrder reads off the tree without the machine. *)
From Coq Require Import ZArith List String Ascii Bool Lia.
From Model Require Import PyBase Tokenize Parser SmilesAst SmilesGraph SmilesOrder.
From Proofs Require Import TokenizeProofs ParserProofs DenoteProofs GraphProofs.
Import ListNotations.
Open Scope Z_scope.

(* ------------------------------------------------------------------------------------------------ list facts *)
Lemma closer_app r f k : closer (r ++ f) k = match closer r k with Some z => Some z | None => closer f k end.
Proof.
  induction r as [|e r IH]; [reflexivity|]. cbn [app closer]. destruct e as [|y b k']; [exact IH|]. destruct (k' =? k); [reflexivity | exact IH].
Qed.

Lemma slots_len h e r r' n : List.length (slots h e r n) = List.length (slots h e r' n).
Proof. destruct e; cbn [slots]; [reflexivity|]. destruct (n =? at_); reflexivity. Qed.

Lemma nf_len a : forall h f f' n, List.length (nf h a f n) = List.length (nf h a f' n).
Proof.
  induction a as [|e r IH]; intros h f f' n; [reflexivity|]. cbn [nf]. rewrite !app_length.
  rewrite (slots_len h e (r ++ f) (r ++ f') n), (IH (h ++ [e]) f f' n). reflexivity.
Qed.

Lemma nf_app a : forall h b f n, nf h (a ++ b) f n = nf h a (b ++ f) n ++ nf (h ++ a) b f n.
Proof.
  induction a as [|e r IH]; intros h b f n; cbn [app nf]; [rewrite app_nil_r; reflexivity|].
  rewrite IH, <- !app_assoc. cbn [app]. reflexivity.
Qed.

(* the future matters only through `closer` *)
Lemma nf_ext a : forall h f1 f2 n, (forall k, closer f1 k = closer f2 k) -> nf h a f1 n = nf h a f2 n.
Proof.
  induction a as [|e r IH]; intros h f1 f2 n H; [reflexivity|]. cbn [nf]. rewrite (IH (h ++ [e]) f1 f2 n H). f_equal.
  destruct e as [|y b k]; cbn [slots]; [reflexivity|]. destruct (n =? y); [|reflexivity]. destruct (opener h k) as [[x ob]|]; [reflexivity|].
  rewrite !closer_app, H. reflexivity.
Qed.

Lemma nf_future_atom a h p b t x n : nf h a [EA p b t x] n = nf h a [] n.
Proof. apply nf_ext. intros k. reflexivity. Qed.

(* no occurrence of digit k *)
Lemma closer_none_ext a k : closer a k = None -> forall y cb k', closer (a ++ [ER y cb k]) k' = closer (a ++ []) k' \/ k' = k.
Proof.
  intros H y cb k'. destruct (Z.eq_dec k' k) as [->|N]; [right; reflexivity|]. left.
  rewrite !closer_app. cbn [closer]. assert (E : (k =? k') = false) by (apply Z.eqb_neq; congruence). rewrite E. reflexivity.
Qed.

Lemma nf_future_other a : forall h y cb k n, closer a k = None -> nf h a [ER y cb k] n = nf h a [] n.
Proof.
  induction a as [|e r IH]; intros h y cb k n H; [reflexivity|]. cbn [nf closer] in *.
  destruct e as [p b t x | y' b' k'].
  - rewrite (IH _ y cb k n H). reflexivity.
  - destruct (k' =? k) eqn:Ek; [discriminate|]. rewrite (IH _ y cb k n H). f_equal.
    cbn [slots]. destruct (n =? y'); [|reflexivity]. destruct (opener h k') as [[x0 ob0]|]; [reflexivity|].
    rewrite !closer_app. cbn [closer]. assert (E : (k =? k') = false) by (rewrite Z.eqb_sym; exact Ek). rewrite E. reflexivity.
Qed.

Lemma list_set_mid {A} (p : list A) x y q : list_set (p ++ x :: q) (List.length p) y = Some (p ++ y :: q).
Proof. induction p as [|a p IH]; cbn; [reflexivity | rewrite IH; reflexivity]. Qed.

(* appending an event to the history: what it does to a neighbour list *)
Lemma nbrs_snoc_atom hist p b t x n : ev_nbrs (hist ++ [EA p b t x]) n = ev_nbrs hist n ++ slots hist (EA p b t x) [] n.
Proof.
  unfold ev_nbrs. rewrite nf_app. cbn [nf app]. rewrite app_nil_r. rewrite nf_future_atom. reflexivity.
Qed.

Lemma nbrs_snoc_open hist y cb k n : opener hist k = None ->
  ev_nbrs (hist ++ [ER y cb k]) n = ev_nbrs hist n ++ (if n =? y then [None] else []).
Proof.
  intros Ho. unfold ev_nbrs. rewrite nf_app. cbn [nf app slots]. rewrite app_nil_r, Ho. cbn [closer].
  f_equal.
  (* every earlier open event of digit k has its closer in hist: parity *)
  assert (G : forall a h, opener_from (opener h k) a k = None -> nf h a [ER y cb k] n = nf h a [] n).
  { clear. induction a as [|e r IH]; intros h H; [reflexivity|]. cbn [nf].
    destruct e as [p b t x | y' b' k'].
    - cbn [opener_from] in H. assert (E : opener (h ++ [EA p b t x]) k = opener h k) by apply opener_snoc_atom.
      rewrite (IH (h ++ [EA p b t x])) by (rewrite E; exact H). reflexivity.
    - cbn [opener_from] in H.
      assert (E : opener (h ++ [ER y' b' k']) k = if k' =? k then match opener h k with None => Some (y', b') | Some _ => None end else opener h k)
        by apply opener_snoc_ring.
      rewrite (IH (h ++ [ER y' b' k'])) by (rewrite E; destruct (k' =? k); exact H). f_equal.
      cbn [slots]. destruct (n =? y'); [|reflexivity]. destruct (opener h k') as [[x0 ob0]|] eqn:Eo; [reflexivity|].
      rewrite !closer_app. destruct (closer r k') eqn:Ec; [reflexivity|]. cbn [closer].
      destruct (k =? k') eqn:Ek; [|reflexivity].
      (* this event opens k and nothing in r closes it: then k is open at the end, contradiction *)
      exfalso. apply Z.eqb_eq in Ek. subst k'. rewrite Z.eqb_refl, Eo in H.
      assert (N : forall a cur, closer a k = None -> opener_from cur a k = cur).
      { clear. induction a as [|e a IH]; intros cur Hc; [reflexivity|]. cbn [closer opener_from] in *. destruct e as [|y1 b1 k1]; [apply IH; exact Hc|].
        destruct (k1 =? k); [discriminate | apply IH; exact Hc]. }
      rewrite (N r _ Ec) in H. discriminate. }
  apply (G hist []). exact Ho.
Qed.

Lemma opener_from_none a k : closer a k = None -> forall cur, opener_from cur a k = cur.
Proof.
  induction a as [|e a IH]; intros Hc cur; [reflexivity|]. cbn [closer opener_from] in *. destruct e as [|y1 b1 k1]; [apply IH; exact Hc|].
  destruct (k1 =? k); [discriminate | apply IH; exact Hc].
Qed.

Lemma opener_decomp H1 x ob k H2 : opener H1 k = None -> closer H2 k = None -> opener (H1 ++ ER x ob k :: H2) k = Some (x, ob).
Proof.
  intros Ho Hc. unfold opener in *. rewrite opener_from_app, Ho. cbn [opener_from]. rewrite Z.eqb_refl. apply opener_from_none. exact Hc.
Qed.

Lemma nbrs_snoc_close H1 x ob k H2 y cb n : opener H1 k = None -> closer H2 k = None ->
  let hist := H1 ++ ER x ob k :: H2 in
  let P1 := nf [] H1 (ER x ob k :: H2) n in
  let P3 := nf (H1 ++ [ER x ob k]) H2 [] n in
  ev_nbrs hist n = P1 ++ (if n =? x then [None] else []) ++ P3 /\
  ev_nbrs (hist ++ [ER y cb k]) n = (P1 ++ (if n =? x then [Some y] else []) ++ P3) ++ (if n =? y then [Some x] else []) /\
  List.length P1 = List.length (ev_nbrs H1 n).
Proof.
  intros Ho Hc. cbv zeta. split; [|split].
  - unfold ev_nbrs. rewrite nf_app. cbn [nf]. rewrite app_nil_r. cbn [app]. f_equal. f_equal.
    cbn [slots]. rewrite Ho, app_nil_r, Hc. reflexivity.
  - unfold ev_nbrs. rewrite nf_app. cbn [nf app]. rewrite app_nil_r.
    assert (Eo : opener (H1 ++ ER x ob k :: H2) k = Some (x, ob)) by (apply opener_decomp; assumption).
    cbn [slots]. rewrite Eo. f_equal.
    rewrite nf_app. cbn [nf]. rewrite <- !app_assoc. cbn [app].
    f_equal; [|f_equal].
    + apply nf_ext. intros k'. cbn [closer]. destruct (k =? k') eqn:E2; [reflexivity|].
      rewrite closer_app. cbn [closer]. rewrite E2. destruct (closer H2 k'); reflexivity.
    + cbn [slots]. rewrite Ho. destruct (n =? x); [|reflexivity]. rewrite closer_app, Hc. cbn [closer]. rewrite Z.eqb_refl. reflexivity.
    + apply nf_future_other. exact Hc.
  - unfold ev_nbrs. apply nf_len.
Qed.

(* ------------------------------------------------------------------------------------------------ keys *)
Lemma touch_from_app a : forall h b, touch_from h (a ++ b) = touch_from h a ++ touch_from (h ++ a) b.
Proof.
  induction a as [|e r IH]; intros h b; cbn [app touch_from]; [rewrite app_nil_r; reflexivity|].
  rewrite IH, <- !app_assoc. cbn [app]. reflexivity.
Qed.
Lemma ev_keys_snoc hist e : ev_keys (hist ++ [e]) = fold_left add_key (touches hist e) (ev_keys hist).
Proof. unfold ev_keys. rewrite touch_from_app, fold_left_app. cbn [touch_from app]. rewrite app_nil_r. reflexivity. Qed.

Lemma add_key_nodup ks k : NoDup ks -> NoDup (add_key ks k).
Proof.
  intros H. unfold add_key. destruct (zmem k ks) eqn:E; [exact H|]. apply NoDup_snoc; [exact H|].
  intros Hin. apply zmem_In in Hin. congruence.
Qed.
Lemma fold_add_nodup l : forall acc, NoDup acc -> NoDup (fold_left add_key l acc).
Proof. induction l as [|x r IH]; intros acc H; cbn; [exact H | apply IH, add_key_nodup, H]. Qed.
Lemma ev_keys_nodup E : NoDup (ev_keys E).
Proof. unfold ev_keys. apply fold_add_nodup. constructor. Qed.

Lemma add_key_in ks k x : In x (add_key ks k) <-> In x ks \/ x = k.
Proof.
  unfold add_key. destruct (zmem k ks) eqn:E.
  - apply zmem_In in E. split; [tauto | intros [H | ->]; assumption].
  - rewrite in_app_iff. cbn. intuition.
Qed.
Lemma fold_add_in l : forall acc x, In x (fold_left add_key l acc) <-> In x acc \/ In x l.
Proof.
  induction l as [|y r IH]; intros acc x; cbn [fold_left]; [cbn; tauto|]. rewrite IH, add_key_in. cbn. intuition.
Qed.

Lemma slots_touch h e r n : slots h e r n = [] \/ In n (touches h e).
Proof.
  destruct e as [par b ty a | y b k]; cbn [slots touches].
  - destruct (bonded h b); [|left; reflexivity]. destruct (n =? par) eqn:E1; [right; left; apply Z.eqb_eq in E1; auto|].
    destruct (n =? n_atoms h) eqn:E2; [right; right; left; apply Z.eqb_eq in E2; auto | left; reflexivity].
  - destruct (n =? y) eqn:E; [right; left; apply Z.eqb_eq in E; auto | left; reflexivity].
Qed.
Lemma nf_touch a : forall h f n, nf h a f n = [] \/ In n (touch_from h a).
Proof.
  induction a as [|e r IH]; intros h f n; [left; reflexivity|]. cbn [nf touch_from].
  destruct (slots_touch h e (r ++ f) n) as [E | E]; [|right; apply in_or_app; left; exact E].
  rewrite E. destruct (IH (h ++ [e]) f n) as [E2 | E2]; [left; exact E2 | right; apply in_or_app; right; exact E2].
Qed.
Lemma untouched E n : zmem n (ev_keys E) = false -> ev_nbrs E n = [].
Proof.
  intros H. unfold ev_nbrs. destruct (nf_touch E [] [] n) as [E0 | E0]; [exact E0|].
  exfalso. assert (In n (ev_keys E)) by (unfold ev_keys; apply fold_add_in; right; exact E0). apply zmem_In in H0. congruence.
Qed.

(* ------------------------------------------------------------------------------------------------ the table as a function over its keys *)
Definition mk (F : Z -> list (option Z)) (ks : list Z) : odict := map (fun n => (n, F n)) ks.

Lemma zget_mk F ks k : zget (mk F ks) k = if zmem k ks then Some (F k) else None.
Proof.
  induction ks as [|n r IH]; [reflexivity|]. cbn [mk map zget zmem existsb]. fold (zmem k r). fold (mk F r).
  destruct (k =? n) eqn:E; [apply Z.eqb_eq in E; subst; reflexivity | exact IH].
Qed.

Lemma mk_ext F G ks : (forall n, In n ks -> F n = G n) -> mk F ks = mk G ks.
Proof. intros H. unfold mk. apply map_ext_in. intros n Hn. rewrite (H n Hn). reflexivity. Qed.

Lemma od_upd_mk F ks k f : NoDup ks -> od_upd (mk F ks) k f = mk (fun n => if n =? k then f (F n) else F n) ks.
Proof.
  induction ks as [|n r IH]; intros ND; [reflexivity|]. inversion ND; subst. cbn [mk map od_upd]. fold (mk F r).
  destruct (k =? n) eqn:E.
  - apply Z.eqb_eq in E. subst n. rewrite Z.eqb_refl. f_equal. apply mk_ext. intros m Hm.
    destruct (m =? k) eqn:E2; [apply Z.eqb_eq in E2; subst; contradiction | reflexivity].
  - rewrite Z.eqb_sym, E. f_equal. apply IH. assumption.
Qed.

Lemma od_upd_notin o k f : zget o k = None -> od_upd o k f = o.
Proof.
  induction o as [|[k0 v] r IH]; [reflexivity|]. cbn [zget od_upd]. destruct (k =? k0); [discriminate|]. intros H. rewrite (IH H). reflexivity.
Qed.
Lemma od_upd_app o1 o2 k f : zget o1 k = None -> od_upd (o1 ++ o2) k f = o1 ++ od_upd o2 k f.
Proof.
  induction o1 as [|[k0 v] r IH]; [reflexivity|]. cbn [zget od_upd app]. destruct (k =? k0); [discriminate|]. intros H. rewrite (IH H). reflexivity.
Qed.

Lemma od_append_mk F ks k v : NoDup ks -> (zmem k ks = false -> F k = []) ->
  od_append (mk F ks) k v = mk (fun n => if n =? k then F k ++ [v] else F n) (add_key ks k).
Proof.
  intros ND HF. unfold od_append, od_touch, add_key. rewrite zget_mk. destruct (zmem k ks) eqn:E.
  - rewrite od_upd_mk by exact ND. apply mk_ext. intros n Hn. destruct (n =? k) eqn:E2; [apply Z.eqb_eq in E2; subst; reflexivity | reflexivity].
  - rewrite od_upd_app by (rewrite zget_mk, E; reflexivity). cbn [od_upd]. rewrite Z.eqb_refl.
    unfold mk. rewrite map_app. cbn [map]. rewrite Z.eqb_refl, (HF eq_refl). cbn [app]. f_equal.
    apply map_ext_in. intros n Hn. destruct (n =? k) eqn:E2; [|reflexivity].
    apply Z.eqb_eq in E2. subst. apply zmem_In in Hn. congruence.
Qed.

Lemma od_set_mk F ks x ind v l' : NoDup ks -> zmem x ks = true -> 0 <= ind -> list_set (F x) (Z.to_nat ind) v = Some l' ->
  od_set (mk F ks) x ind v = Ok (mk (fun n => if n =? x then l' else F n) ks).
Proof.
  intros ND Hx Hi Hl. unfold od_set, od_touch, od_get. rewrite zget_mk, Hx. rewrite zget_mk, Hx.
  destruct (ind <? 0) eqn:E; [apply Z.ltb_lt in E; lia|]. rewrite Hl. rewrite od_upd_mk by exact ND. reflexivity.
Qed.

(* ------------------------------------------------------------------------------------------------ the machine's table after a local step *)
Lemma attach_order strong s par b ty a tp : bok b = true -> zmem ty [0; 8] = true -> ps_atoms s <> [] ->
  type_at (at_node s par) par = Ok tp ->
  exists s', op_at strong s par (opt_bond b ++ [(ty, PAtom a)]) = Ok s' /\
    ps_order s' = if is_dot b then ps_order s else od_append (od_append (ps_order s) par (Some (ps_n s))) (ps_n s) (Some par).
Proof.
  intros Hb Hty Hne Htp. unfold op_at.
  assert (T : ty = 0 \/ ty = 8) by (clear - Hty; zcontra; tauto).
  destruct s as [atoms types bonds order n last stack cycles satoms sbonds prev lg]. cbn [ps_atoms] in Hne.
  destruct atoms as [|a0 ar]; [contradiction|].
  unfold type_at in Htp. cbn [at_node ps_types ps_atoms ps_bonds ps_order ps_n ps_last ps_stack ps_cycles ps_satoms ps_sbonds ps_prev ps_log] in Htp.
  destruct b as [[bt bv]|].
  - cbn in Hb. destruct bt as [|p|p]; try discriminate. repeat (destruct p; try discriminate); destruct bv; try discriminate;
      destruct T; subst ty; cbn [opt_bond app loop]; unfold step, type_at; cbn -[sb_set arom_or_single od_append]; rewrite ?Htp;
      cbn -[sb_set arom_or_single od_append]; (eexists; split; [reflexivity|]); reflexivity.
  - destruct T; subst ty; cbn [opt_bond app loop]; unfold step, type_at; cbn -[sb_set arom_or_single od_append]; rewrite ?Htp;
      cbn -[sb_set arom_or_single od_append]; (eexists; split; [reflexivity|]); reflexivity.
Qed.

(* where an open ring digit holds its place *)
Definition cyc_ok (hist : list ev) (k : Z) (c : cyc) : Prop :=
  let '(x, ob, ind) := c in
  exists H1 H2, hist = H1 ++ ER x ob k :: H2 /\ opener H1 k = None /\ closer H2 k = None /\ ind = Z.of_nat (List.length (ev_nbrs H1 x)).

Record ORD (hist : list ev) (s : pstate) : Prop := mkORD {
  or_order : ps_order s = mk (ev_nbrs hist) (ev_keys hist);
  or_cyc : forall k c, zget (ps_cycles s) k = Some c -> cyc_ok hist k c }.

Lemma od_get_mk hist n : od_get (mk (ev_nbrs hist) (ev_keys hist)) n = ev_nbrs hist n.
Proof.
  unfold od_get. rewrite zget_mk. destruct (zmem n (ev_keys hist)) eqn:E; [reflexivity | symmetry; apply untouched; exact E].
Qed.

Lemma cyc_ok_snoc hist k c e : cyc_ok hist k c -> (forall y b, e <> ER y b k) -> cyc_ok (hist ++ [e]) k c.
Proof.
  destruct c as [[x ob] ind]. intros [H1 [H2 [E [A [B C]]]]] Hne. exists H1, (H2 ++ [e]). subst hist.
  split; [rewrite <- app_assoc; reflexivity|]. split; [exact A|]. split; [|exact C].
  rewrite closer_app, B. destruct e as [|y b k']; [reflexivity|]. cbn [closer]. destruct (k' =? k) eqn:Ek; [|reflexivity].
  apply Z.eqb_eq in Ek. subst k'. exfalso. exact (Hne y b eq_refl).
Qed.

Lemma od_touch_idem o k : od_touch (od_touch o k) k = od_touch o k.
Proof. unfold od_touch at 1. rewrite zget_touch_same. reflexivity. Qed.

Lemma ring_step_form strong s y cb k s' : bok cb = true -> ps_atoms s <> [] -> run_ev strong (ER y cb k) s = Ok s' ->
  match zget (ps_cycles s) k with
  | None => ps_order s' = od_append (ps_order s) y None /\
            ps_cycles s' = ps_cycles s ++ [(k, (y, cb, Z.of_nat (List.length (od_get (ps_order s) y))))]
  | Some (x, ob, ind) => exists o1, od_set (ps_order s) x ind (Some y) = Ok o1 /\ ps_order s' = od_append o1 y (Some x) /\
                                    ps_cycles s' = zdel (ps_cycles s) k
  end.
Proof.
  intros Hb Hne H. unfold run_ev, op_at in H. rewrite (bond_then strong s y cb _ Hb Hne) in H.
  destruct s as [atoms types bonds order n last stack cycles satoms sbonds prev lg].
  unfold step, set_prev, at_node in H.
  cbn [Z.eqb Pos.eqb zmem existsb orb ps_atoms ps_types ps_bonds ps_order ps_n ps_last ps_stack ps_cycles ps_satoms ps_sbonds ps_prev ps_log] in H |- *.
  destruct (match cb with Some (pt, _) => pt =? 4 | None => false end); [discriminate|].
  destruct (zget cycles k) as [[[x ob] ind]|].
  - destruct (close_bond strong _ x ob) as [[[[b sb] lg'] x0]|]; [|discriminate].
    destruct (od_set order x ind (Some y)) as [o1|]; [|discriminate]. inversion H; subst. exists o1. repeat split.
  - inversion H; subst. cbn. split.
    + unfold od_append. rewrite od_touch_idem. reflexivity.
    + rewrite od_get_touch. reflexivity.
Qed.

Lemma bonded_pos hist b : 0 < n_atoms hist -> bonded hist b = negb (is_dot b).
Proof. intros H. unfold bonded. assert (E : (n_atoms hist =? 0) = false) by (apply Z.eqb_neq; lia). rewrite E. reflexivity. Qed.

Lemma add_key_mem ks k n : zmem n (add_key ks k) = false -> zmem n ks = false.
Proof.
  intros H. destruct (zmem n ks) eqn:E; [|reflexivity]. apply zmem_In in E.
  assert (In n (add_key ks k)) by (apply add_key_in; left; exact E). apply zmem_In in H0. congruence.
Qed.

Lemma ord_step strong hist s e s' : INV strong hist s -> ORD hist s -> ev_ok hist e -> run_ev strong e s = Ok s' -> ORD (hist ++ [e]) s'.
Proof.
  intros I O Hok H. pose proof (INV_atoms_ne _ _ _ I) as Hne.
  assert (Hpos : 0 < n_atoms hist) by (rewrite <- (iv_n _ _ _ I); exact (iv_pos _ _ _ I)).
  destruct e as [par b ty a | y cb k]; cbn [ev_ok] in Hok.
  - (* an atom *)
    destruct Hok as [Hb [Hty Hpar]]. rewrite <- (iv_n _ _ _ I) in Hpar.
    pose proof (type_at_of strong hist s par I Hpar par) as Htp.
    destruct (attach_form strong s par b ty a _ Hb Hty Hne Htp) as [s1 [E1 [_ [_ [_ [A4 _]]]]]].
    destruct (attach_order strong s par b ty a _ Hb Hty Hne Htp) as [s2 [E2 A6]].
    cbn [run_ev] in H. rewrite H in E1, E2. inversion E1; subst s1. inversion E2; subst s2. clear E1 E2.
    constructor.
    + rewrite A6, (or_order _ _ O), ev_keys_snoc. cbn [touches]. rewrite (bonded_pos hist b Hpos).
      destruct (is_dot b) eqn:Ed; cbn [negb fold_left].
      * apply mk_ext. intros m _. rewrite nbrs_snoc_atom. cbn [slots]. rewrite (bonded_pos hist b Hpos), Ed. cbn [negb]. rewrite app_nil_r. reflexivity.
      * rewrite (iv_n _ _ _ I).
        rewrite (od_append_mk (ev_nbrs hist) (ev_keys hist) par (Some (n_atoms hist)) (ev_keys_nodup hist) (untouched hist par)).
        rewrite od_append_mk.
        -- apply mk_ext. intros m _. rewrite nbrs_snoc_atom. cbn [slots]. rewrite (bonded_pos hist b Hpos), Ed. cbn [negb].
           assert (Np : (n_atoms hist =? par) = false) by (apply Z.eqb_neq; rewrite <- (iv_n _ _ _ I); lia).
           destruct (m =? n_atoms hist) eqn:E1.
           ++ apply Z.eqb_eq in E1. subst m. rewrite Np. cbn [app]. reflexivity.
           ++ destruct (m =? par) eqn:E3; [apply Z.eqb_eq in E3; subst m|]; cbn [app]; rewrite ?app_nil_r; reflexivity.
        -- apply add_key_nodup, ev_keys_nodup.
        -- intros Hz. assert (Np : (n_atoms hist =? par) = false) by (apply Z.eqb_neq; rewrite <- (iv_n _ _ _ I); lia).
           rewrite Np. apply untouched. eapply add_key_mem. exact Hz.
    + intros k c Hz. rewrite A4 in Hz. apply cyc_ok_snoc; [exact (or_cyc _ _ O k c Hz) | intros y0 b0; discriminate].
  - (* a ring digit *)
    destruct Hok as [Hb Hy].
    pose proof (ring_step_form strong s y cb k s' Hb Hne H) as RF.
    pose proof (iv_cyc _ _ _ I k) as Ck.
    destruct (zget (ps_cycles s) k) as [[[x ob] ind]|] eqn:Ez; unfold cyc_view in Ck; cbn [option_map fst snd] in Ck.
    + (* closing *)
      destruct RF as [o1 [Eo [Eord Ecyc]]].
      destruct (or_cyc _ _ O k _ Ez) as [H1 [H2 [Eh [A [B C]]]]].
      destruct (nbrs_snoc_close H1 x ob k H2 y cb x A B) as [N1 [_ N3]]. rewrite <- Eh in N1. rewrite Z.eqb_refl in N1.
      assert (Hx : zmem x (ev_keys hist) = true).
      { destruct (zmem x (ev_keys hist)) eqn:E; [reflexivity|]. apply untouched in E. rewrite E in N1.
        destruct (nf [] H1 (ER x ob k :: H2) x); discriminate. }
      rewrite (or_order _ _ O) in Eo.
      assert (LS : list_set (ev_nbrs hist x) (Z.to_nat ind) (Some y) =
                   Some (nf [] H1 (ER x ob k :: H2) x ++ [Some y] ++ nf (H1 ++ [ER x ob k]) H2 [] x)).
      { rewrite N1, C, Nat2Z.id, <- N3. apply list_set_mid. }
      rewrite (od_set_mk _ _ x ind (Some y) _ (ev_keys_nodup hist) Hx ltac:(lia) LS) in Eo. inversion Eo; subst o1. clear Eo.
      constructor.
      * rewrite Eord, ev_keys_snoc. cbn [touches fold_left]. rewrite od_append_mk.
        -- apply mk_ext. intros m _.
           destruct (nbrs_snoc_close H1 x ob k H2 y cb m A B) as [M1 [M2 _]]. rewrite <- Eh in M1, M2. rewrite M2.
           destruct (m =? y) eqn:E1.
           ++ apply Z.eqb_eq in E1. subst m. destruct (y =? x) eqn:E2.
              ** apply Z.eqb_eq in E2. subst y. reflexivity.
              ** rewrite M1. reflexivity.
           ++ rewrite app_nil_r. destruct (m =? x) eqn:E2; [apply Z.eqb_eq in E2; subst m; reflexivity | rewrite M1; reflexivity].
        -- apply ev_keys_nodup.
        -- intros Hz. destruct (y =? x) eqn:E2; [apply Z.eqb_eq in E2; subst y; congruence | apply untouched; exact Hz].
      * intros k' c Hz. rewrite Ecyc in Hz. destruct (Z.eq_dec k' k) as [->|Nk].
        -- destruct (zdel_keys (ps_cycles s) k (iv_nodup _ _ _ I)) as [_ [D2 _]]. rewrite D2 in Hz. discriminate.
        -- rewrite zget_zdel_other in Hz by exact Nk. apply cyc_ok_snoc; [exact (or_cyc _ _ O k' c Hz) | intros y0 b0 E; inversion E; congruence].
    + (* opening *)
      destruct RF as [Eord Ecyc].
      constructor.
      * rewrite Eord, (or_order _ _ O), ev_keys_snoc. cbn [touches fold_left].
        rewrite (od_append_mk (ev_nbrs hist) (ev_keys hist) y None (ev_keys_nodup hist) (untouched hist y)).
        apply mk_ext. intros m _. rewrite (nbrs_snoc_open hist y cb k m (eq_sym Ck)).
        destruct (m =? y) eqn:E1; [apply Z.eqb_eq in E1; subst m; reflexivity | rewrite app_nil_r; reflexivity].
      * intros k' c Hz. rewrite Ecyc, zget_app in Hz. destruct (zget (ps_cycles s) k') as [c0|] eqn:Ez'.
        -- inversion Hz; subst c0. apply cyc_ok_snoc; [exact (or_cyc _ _ O k' c Ez') | intros y0 b0 E; inversion E; subst; congruence].
        -- cbn [zget] in Hz. destruct (k' =? k) eqn:Ek; [|discriminate]. apply Z.eqb_eq in Ek. subst k'. inversion Hz; subst c.
           exists hist, []. split; [reflexivity|]. split; [symmetry; exact Ck|]. split; [reflexivity|].
           rewrite (or_order _ _ O), od_get_mk. reflexivity.
Qed.

(* ------------------------------------------------------------------------------------------------ all events, and the theorem *)
Lemma run_events_ord strong E : forall hist s s', INV strong hist s -> ORD hist s -> oks hist E -> run strong E s = Ok s' ->
  INV strong (hist ++ E) s' /\ ORD (hist ++ E) s'.
Proof.
  induction E as [|e r IH]; intros hist s s' I O Hok H; cbn [run] in H.
  - inversion H; subst. rewrite app_nil_r. split; assumption.
  - destruct Hok as [H1 H2]. destruct (run_ev strong e s) as [s1|] eqn:E1; [|discriminate].
    pose proof (ev_step strong hist s e I H1) as St. destruct (ev_bond strong hist e).
    + destruct St as [s1' [E1' I1]]. rewrite E1 in E1'. inversion E1'; subst s1'.
      pose proof (ord_step strong hist s e s1 I O H1 E1) as O1.
      destruct (IH (hist ++ [e]) s1 s' I1 O1 H2 H) as [I2 O2]. rewrite <- app_assoc in I2, O2. split; assumption.
    + destruct St as [x Ex]. rewrite E1 in Ex. discriminate.
Qed.

(* the neighbour-order table of the record `denote` returns (= the parser's, read_spell_denote) is the one read off the tree *)
Theorem denote_order_correct strong t p : wf2 t = true -> denote strong t = Ok p -> p_order p = denote_order t.
Proof.
  intros Hw Hd. pose proof (wf2_wf t Hw) as Hw1.
  pose proof (den_run strong t 0 None p_init Hw1 eq_refl) as DR. change (ps_n p_init) with 0 in DR.
  unfold denote in Hd. unfold denote_order. destruct t as [ty a rings kids].
  rewrite wf2_node in Hw. apply andb_prop in Hw. destruct Hw as [Hw Hwk]. apply andb_prop in Hw. destruct Hw as [Hty Hwr].
  rewrite flat_node in *. set (e0 := EA 0 None ty a) in *.
  set (rest := map (fun r : option token * Z => ER 0 (fst r) (snd r)) rings ++ flat_kids kids 0 (0 + 1)) in *.
  assert (F : exists s1, run_ev strong e0 p_init = Ok s1 /\ INV strong [e0] s1 /\ ORD [e0] s1).
  { assert (T : ty = 0 \/ ty = 8) by (clear - Hty; zcontra; tauto).
    pose proof (first_atom strong ty a [] ltac:(destruct T; subst; cbn; tauto) (or_introl eq_refl)) as G.
    change (set_last_stack p_init 0 []) with p_init in G.
    unfold e0, run_ev, op_at. cbn [opt_bond app loop]. change (at_node p_init 0) with p_init.
    destruct T; subst ty; unfold step in G |- *; cbn in G |- *; (eexists; split; [reflexivity|]); (split;
      [constructor; [reflexivity | reflexivity | reflexivity | cbn; lia | reflexivity | apply NoDup_nil | intros k; reflexivity | apply PI_PIall; exact G]
      | constructor; [reflexivity | intros k c Hz; discriminate Hz]]). }
  destruct F as [s1 [E1 [I1 O1]]].
  assert (Hoks : oks [e0] rest).
  { unfold rest. apply oks_app. split.
    - apply rings_oks; [reflexivity | lia | exact Hwr].
    - apply kids_oks; [lia | exact Hwk | | lia]. rewrite n_atoms_app, n_atoms_rings. reflexivity. }
  cbn [run] in DR. rewrite E1 in DR.
  destruct (den strong (Node ty a rings kids) 0 None p_init) as [d|]; [|discriminate].
  destruct (run strong rest s1) as [s'|] eqn:E2; [|contradiction]. cbn in DR.
  destruct (run_events_ord strong rest [e0] s1 s' I1 O1 Hoks E2) as [I2 O2]. cbn [app] in I2, O2.
  change (at_node d 0) with (core d) in Hd. rewrite DR in Hd.
  unfold finish, core in Hd. cbn [at_node ps_stack ps_cycles ps_prev ps_atoms ps_bonds ps_order ps_satoms ps_sbonds ps_log] in Hd.
  destruct (ps_cycles s'); [|discriminate]. inversion Hd; subst p. cbn [p_order]. exact (or_order _ _ O2).
Qed.

Corollary read_spell_order strong t p : wf2 t = true -> parse (spell t) strong = Ok p -> p_order p = denote_order t.
Proof. intros Hw H. rewrite (read_spell_denote strong t (wf2_wf t Hw)) in H. exact (denote_order_correct strong t p Hw H). Qed.

Example denote_order_example :
  let C := simple_atom "C" in
  let t := Node 0 C [(None, 1)] [(Some (1, PInt 2), Node 0 (simple_atom "O") [] []);
                                 (None, Node 8 C [(None, 1); (None, 2)] [(Some (4, PNone), Node 0 C [(None, 2)] [])])] in
  wf2 t = true /\ denote_order t = [(0, [Some 2; Some 1; Some 2]); (1, [Some 0]); (2, [Some 0; Some 0; Some 3]); (3, [Some 2])] /\
  exists p, parse (spell t) true = Ok p /\ p_order p = denote_order t.
Proof. cbn zeta. split; [reflexivity|]. split; [vm_compute; reflexivity|]. eexists. split; vm_compute; reflexivity. Qed.
