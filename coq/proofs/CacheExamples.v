(* C13 -- non-vacuity: concrete histories that satisfy the hypotheses of the theorems of Proofs.CacheTheorems. *)
From Coq Require Import ZArith List Bool Lia.
From Model Require Import PyBase Cache.
From Proofs Require Import CacheProofs CacheWf CacheCopy CacheCoh CacheWorld CacheUnion CacheTheorems.
Import ListNotations.
Open Scope Z_scope.

Definition carbon := mkCore 6 None 0 false.
Definition nitrogen := mkCore 7 None 0 false.
Definition oxygen := mkCore 8 None 0 false.
(* methylcyclopropane built atom by atom, ring data and an untracked entry read, the ring opened, ring data read again *)
Definition build_ring : list op :=
  [OAddAtom carbon None; OAddAtom carbon None; OAddAtom carbon None; OAddAtom carbon None;
   OAddBond 1 2 1; OAddBond 2 3 1; OAddBond 1 3 1; OAddBond 3 4 1; ORead Ksssr; ORead (Kplain 1)].
Definition read_delete_read : list op := build_ring ++ [ODelBond 1 2; ORead Ksssr].

Theorem read_delete_read_example :
  ops_ok empty_state read_delete_read /\
  trace read_delete_read empty_state = repeat None 12 /\
  (let s0 := run build_ring empty_state in
   let s := run read_delete_read empty_state in
   match cget (o_cache (s_cur s0)) Ksssr, cget (o_cache (s_cur s)) Ksssr with
   | Some old, Some new =>
       equivb Ksssr new (view_of (s_heap s) (s_cur s)) = true /\       (* the entry read after the deletion is current *)
       equivb Ksssr old (view_of (s_heap s) (s_cur s)) = false          (* the one read before it would be stale *)
   | _, _ => False
   end).
Proof. split; [vm_compute; tauto|]. split; [vm_compute; reflexivity|]. vm_compute. split; reflexivity. Qed.

(* a transaction on ethanol that adds an atom, deletes the oxygen, sets a charge, copies the intermediate state - and raises *)
Definition build_cco : list op :=
  [OAddAtom carbon None; OAddAtom carbon None; OAddAtom oxygen None; OAddBond 1 2 1; OAddBond 2 3 1; ORead Ksssr; ORead Kcc; ORead (Kplain 1)].
Definition txn_body : list op := [OAddAtom nitrogen None; ODelAtom 3; OSetCharge 1 1; ORead (Kplain 2); OFlush true true; OSetName 7].

Theorem transaction_example :
  let s := run build_cco empty_state in
  W s /\ snd (step s OEnter) = None /\ ops_ok (fst (step s OEnter)) txn_body /\ body_ops txn_body = true /\
  (* the block really changed the molecule *)
  view_eqb (view_of (s_heap (run txn_body (fst (step s OEnter)))) (s_cur (run txn_body (fst (step s OEnter)))))
           (view_of (s_heap s) (s_cur s)) = false /\
  (* and after the rollback the next edits work *)
  trace [OExitExn; OAddAtom nitrogen None; OAddBond 3 4 1; ODelAtom 1] (run txn_body (fst (step s OEnter))) = [None; None; None; None].
Proof.
  cbv zeta. split; [apply run_W; [apply W_empty | vm_compute; tauto]|]. split; [vm_compute; reflexivity|].
  split; [vm_compute; repeat split; discriminate|]. split; [reflexivity|]. split; vm_compute; reflexivity.
Qed.

(* ethanol, a copy of it, the copy merged in place (renumbered 4..6), the two parts bonded, a second, copying union *)
Definition union_history : list op := build_cco ++ [OCopy; OUnion true false; OAddBond 3 4 1; ORead Kcc; OUnion true true].
Theorem union_example :
  ops_ok empty_state union_history /\ trace union_history empty_state = repeat None 13 /\
  (let s := run union_history empty_state in
   keys (o_atoms (s_cur s)) = [1; 2; 3; 4; 5; 6] /\ List.length (s_others s) = 2%nat /\
   match s_others s with u :: _ => keys (o_atoms u) = [1; 2; 3; 4; 5; 6; 7; 8; 9] | [] => False end).
Proof. split; [vm_compute; tauto|]. split; vm_compute; repeat split; reflexivity. Qed.

(* ethanol and an isolated nitrogen: split into the two components, complement, augmented substructure, intersection *)
Definition parts_history : list op := build_cco ++ [OAddAtom nitrogen None; OSplit; OMinus [1]; OAug [1] 1; OAnd [2; 3]].
Theorem parts_example :
  ops_ok empty_state parts_history /\ trace parts_history empty_state = repeat None 13 /\
  map (fun o => keys (o_atoms o)) (s_others (run parts_history empty_state)) = [[2; 3]; [1; 2]; [2; 3; 4]; [4]; [1; 2; 3]].
Proof. split; [vm_compute; tauto|]. split; vm_compute; reflexivity. Qed.
