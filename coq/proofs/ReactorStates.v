(* C16 (extension 3): the intermediate-state function the runner compares is the same computation as Reactor.patcher *)
From Coq Require Import ZArith List Bool.
From Model Require Import PyBase Graph Reactor ReactorStage.
Import ListNotations.
Open Scope Z_scope.

Theorem patcher_states_final : forall g mapping tpl del,
  patcher g mapping tpl del =
  match patcher_states g mapping tpl del with Ok (_, _, _, r) => Ok r | Err e => Err e end.
Proof.
  intros g mapping tpl del. unfold patcher, patcher_states.
  destruct (zmax_list (ids g)) as [mx|]; [|reflexivity].
  destruct (fold_res (patch_atom g) (t_atoms tpl) (mkP [] [] mapping mx)) as [s|]; [|reflexivity].
  destruct (fold_res (patch_bonds_of (p_map s)) (t_bonds tpl) (p_adj s)) as [adj2|]; [|reflexivity].
  destruct (fold_left (keep_atom (keys (p_atoms s)) del) (m_atoms g) (p_atoms s, adj2)) as [atoms3 adj3]. cbn [fst snd].
  destruct (fold_res (keep_bonds_of (keys (p_atoms s)) del) (m_adj g) adj3); reflexivity.
Qed.

Theorem patcher_states_with_final : forall g mapping to_del tpl,
  patcher_with get_deleted g mapping to_del tpl =
  match patcher_states_with g mapping to_del tpl with Ok (_, _, _, r) => Ok r | Err e => Err e end.
Proof.
  intros. unfold patcher_with, patcher_states_with. destruct (get_deleted (graph_of g) mapping to_del); [apply patcher_states_final|reflexivity].
Qed.
