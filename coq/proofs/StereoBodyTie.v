(* C12, round 4: TIE BY TRANSLATION.  Gen.StereoBody is regenerated on every run by tools/gen_stereobody.py from the BODIES of
   _pyramid_sign, _cis_trans_sign, _allene_sign, the sign chains of _translate_cis_trans_sign / _translate_allene_sign, the body of
   _translate_tetrahedron_sign (chython/algorithms/stereo.py) and the first-atom rule of postprocess_molecule
   (chython/files/daylight/smiles.py).  The hand-written models are proved equal to the generated definitions for ALL inputs, so
   every C12 theorem about the models is a theorem about the translated source; a behaviour-changing edit of those source lines
   breaks a lemma of this file (or makes the translator fail closed). *)
From Coq Require Import ZArith List Bool Lia.
From Model Require Import PyBase Stereo StereoSmiles.
From Gen Require Import StereoBody.
Import ListNotations.
Open Scope Z_scope.

Lemma sgn_chain : forall x : Z, (if x >? 0 then 1 else if x <? 0 then -1 else 0) = sgn x.
Proof. intro x. unfold sgn. rewrite Z.gtb_ltb. reflexivity. Qed.

Theorem g_pyramid_sign_eq : forall n u v w, g_pyramid_sign n u v w = pyramid_sign n u v w.
Proof.
  intros [[nx ny] nz] [[ux uy] uz] [[vx vy] vz] [[wx wy] wz].
  unfold g_pyramid_sign, pyramid_sign, pyramid_vol. cbv zeta beta. apply sgn_chain.
Qed.

Theorem g_cis_trans_sign_eq : forall n u v w, g_cis_trans_sign n u v w = cis_trans_sign n u v w.
Proof.
  intros [nx ny] [ux uy] [vx vy] [wx wy].
  unfold g_cis_trans_sign, cis_trans_sign, cis_trans_dot. cbv zeta beta. apply sgn_chain.
Qed.

Theorem g_allene_sign_eq : forall mark u v w, g_allene_sign mark u v w = allene_sign mark u v w.
Proof.
  intros mark [ux uy] [vx vy] [wx wy].
  unfold g_allene_sign, allene_sign, allene_dot. cbv zeta beta. apply sgn_chain.
Qed.

Lemma oz_opt_is : forall (isH : Z -> bool) o x, (oz_eqb x o || (oz_none o && isH x)) = opt_is o x isH.
Proof. intros isH [y|] x; simpl; [apply orb_false_r | reflexivity]. Qed.

Theorem g_ct_chain_eq : forall (isH : Z -> bool) n0 n1 n2 n3 nn nm s,
  g_ct_chain isH n0 n1 n2 n3 nn nm s = translate_env isH (n0, n1, n2, n3) nn nm s.
Proof.
  intros. unfold g_ct_chain, translate_env. cbv zeta beta. rewrite !oz_opt_is.
  destruct (nn =? n0); [destruct (nm =? n1); [reflexivity | destruct (opt_is n3 nm isH); reflexivity] |].
  destruct (nn =? n1); [destruct (nm =? n0); [reflexivity | destruct (opt_is n2 nm isH); reflexivity] |].
  destruct (opt_is n2 nn isH); [destruct (nm =? n1); [reflexivity | destruct (opt_is n3 nm isH); reflexivity] |].
  destruct (opt_is n3 nn isH); [destruct (nm =? n0); [reflexivity | destruct (opt_is n2 nm isH); reflexivity] |].
  reflexivity.
Qed.

Theorem g_al_chain_eq : forall (isH : Z -> bool) n0 n1 n2 n3 nn nm s,
  g_al_chain isH n0 n1 n2 n3 nn nm s = translate_al isH (n0, n1, n2, n3) nn nm s.
Proof.
  intros. unfold g_al_chain, translate_al, translate_env. cbv zeta beta. rewrite !oz_opt_is.
  destruct (nn =? n0); [destruct (nm =? n1); [reflexivity | destruct (opt_is n3 nm isH); reflexivity] |].
  destruct (nn =? n1); [destruct (nm =? n0); [reflexivity | destruct (opt_is n2 nm isH); reflexivity] |].
  destruct (opt_is n2 nn isH); [destruct (nm =? n1); [reflexivity | destruct (opt_is n3 nm isH); reflexivity] |].
  destruct (opt_is n3 nn isH); [destruct (nm =? n0); [reflexivity | destruct (opt_is n2 nm isH); reflexivity] |].
  reflexivity.
Qed.

(* the whole _translate_cis_trans_sign for a given sign: registry lookup under either orientation of the key, exchange of the ends *)
Theorem g_ct_sign_eq : forall (isH : Z -> bool) e1 e2 nn nm s, g_ct_sign isH e1 e2 nn nm s = translate_ct isH e1 e2 nn nm s.
Proof.
  intros isH e1 e2 nn nm s. unfold g_ct_sign, translate_ct.
  destruct e1 as [[[[n0 n1] n2] n3]|]; [apply g_ct_chain_eq|].
  destruct e2 as [[[[n0 n1] n2] n3]|]; [apply g_ct_chain_eq | reflexivity].
Qed.

(* ---- _translate_tetrahedron_sign ---- *)
Lemma th_tail_eq : forall o a b c (s : bool),
  match g_indexes o [a; b; c] with
  | Ok translate => match g_th_table translate with Some true => Ok (negb s) | Some false => Ok s | None => Err KeyError end
  | Err e => Err e
  end =
  match map (index_of o) [a; b; c] with
  | [Some x; Some y; Some z] => match th_lookup x y z with Some true => Ok (negb s) | Some false => Ok s | None => Err KeyError end
  | _ => Err ValueError
  end.
Proof.
  intros. simpl. destruct (index_of o a); [|reflexivity]. destruct (index_of o b); [|reflexivity].
  destruct (index_of o c); reflexivity.
Qed.

Lemma len5 : forall k : nat, (Z.of_nat (5 + k) =? 3) = false /\ (Z.of_nat (5 + k) =? 4) = false.
Proof. intro k. split; apply Z.eqb_neq; lia. Qed.

Theorem g_th_body_eq : forall (isH : Z -> bool) order env s, g_th_body isH order env s = translate_th isH order env s.
Proof.
  intros isH order env s. unfold g_th_body, translate_th. cbv zeta beta.
  destruct env as [|a [|b [|c [|d [|e r]]]]].
  - destruct (Z.of_nat (length order) =? 3); reflexivity.
  - destruct (Z.of_nat (length order) =? 3); reflexivity.
  - destruct (Z.of_nat (length order) =? 3); reflexivity.
  - destruct (Z.of_nat (length order) =? 3); simpl; apply th_tail_eq.
  - destruct (Z.of_nat (length order) =? 3).
    + change (Z.of_nat (length [a; b; c; d]) =? 4) with true. cbv iota.
      destruct (find isH [a; b; c; d]); [|reflexivity]. change (firstn 3 [a; b; c; d]) with [a; b; c]. apply th_tail_eq.
    + change (firstn 3 [a; b; c; d]) with [a; b; c].
      change (Z.of_nat (length [a; b; c; d]) =? 3) with false. change (Z.of_nat (length [a; b; c; d]) =? 4) with true.
      cbv iota. simpl orb. cbv iota. apply th_tail_eq.
  - change (length (a :: b :: c :: d :: e :: r)) with (5 + length r)%nat.
    destruct (len5 (length r)) as [H3 H4]. rewrite H3, H4. destruct (Z.of_nat (length order) =? 3); reflexivity.
Qed.

(* ---- first-atom rule of postprocess_molecule: the reader of Model.StereoSmiles with nopred taken over positions ---- *)
Lemma nopred_positions : forall i l, forallb (fun m => m >? i) l = nopred (fun x => x) i l.
Proof.
  intros i l. unfold nopred. induction l as [|m r IH]; [reflexivity|]. simpl. rewrite IH, Z.gtb_ltb. reflexivity.
Qed.

Theorem g_read_mark_eq : forall (isH : Z -> bool) order adj hasH i ord_i mark,
  translate_th isH order adj (g_read_mark hasH i ord_i mark) = read_th isH order adj mark hasH (nopred (fun x => x) i ord_i).
Proof.
  intros. unfold g_read_mark, read_th. cbv zeta beta. rewrite nopred_positions.
  destruct (hasH && nopred (fun x => x) i ord_i); reflexivity.
Qed.

(* the rule depends on POSITIONS only: whatever atom numbers the mapping assigns (atom-map numbers of a mapped SMILES), the mark
   that is used is the same *)
Theorem g_read_mark_spec : forall hasH i ord_i mark,
  g_read_mark hasH i ord_i mark = xorb mark (hasH && forallb (fun m => i <? m) ord_i).
Proof.
  intros. unfold g_read_mark. cbv zeta beta.
  assert (E : forallb (fun m => m >? i) ord_i = forallb (fun m => i <? m) ord_i).
  { induction ord_i as [|m r IH]; [reflexivity|]. simpl. rewrite IH, Z.gtb_ltb. reflexivity. }
  rewrite E. destruct (hasH && forallb (fun m => i <? m) ord_i), mark; reflexivity.
Qed.

(* ====================================================================================================================== *)
(* the C12 sign laws stated directly for the TRANSLATED source *)
From Proofs Require Import StereoProofs.

(* tetrahedral: for any four distinct neighbour numbers and any arrangement p (all four listed, or the first three) the translated
   body of _translate_tetrahedron_sign returns the stored sign xor the parity of p; explicit H anywhere; implicit H last *)
Theorem source_th_parity : forall (isH : Z -> bool) s,
  (forall a b c d p, NoDup [a; b; c; d] -> In p perms4 ->
     g_th_body isH [a; b; c; d] (sel [a; b; c; d] p) s = Ok (xorb s (odd_perm p)) /\
     g_th_body isH [a; b; c; d] (firstn 3 (sel [a; b; c; d] p)) s = Ok (xorb s (odd_perm p))) /\
  (forall a b c h p, NoDup [a; b; c; h] -> isH a = false -> isH b = false -> isH c = false -> isH h = true -> In p perms4 ->
     g_th_body isH [a; b; c] (sel [a; b; c; h] p) s = Ok (xorb s (odd_perm p))) /\
  (forall a b c q, NoDup [a; b; c] -> In q perms3 ->
     g_th_body isH [a; b; c] (sel [a; b; c] q) s = Ok (xorb s (odd_perm (q ++ [3])))).
Proof.
  intros isH s. split; [|split]; intros; rewrite ?g_th_body_eq.
  - apply translate_th_parity4; assumption.
  - apply translate_th_parity3H; assumption.
  - apply translate_th_parity3; assumption.
Qed.

(* double bonds and allenes: exchange of the substituent at one end flips, exchange of the ends keeps -- for the translated chains of
   _translate_cis_trans_sign and _translate_allene_sign *)
Theorem source_exchange_laws : forall (isH : Z -> bool) n0 n1 n2 n3 s, NoDup [n0; n1; n2; n3] ->
  (forall b, In b [1; 3] ->
     exists r, g_ct_chain isH n0 n1 (Some n2) (Some n3) (pick (n0, n1, n2, n3) 0) (pick (n0, n1, n2, n3) b) s = Ok r /\
               g_ct_chain isH n0 n1 (Some n2) (Some n3) (pick (n0, n1, n2, n3) 2) (pick (n0, n1, n2, n3) b) s = Ok (negb r) /\
               g_al_chain isH n0 n1 (Some n2) (Some n3) (pick (n0, n1, n2, n3) 0) (pick (n0, n1, n2, n3) b) s = Ok r /\
               g_al_chain isH n0 n1 (Some n2) (Some n3) (pick (n0, n1, n2, n3) 2) (pick (n0, n1, n2, n3) b) s = Ok (negb r)) /\
  (forall a b, In a [0; 2] -> In b [1; 3] ->
     g_ct_chain isH n0 n1 (Some n2) (Some n3) (pick (n0, n1, n2, n3) a) (pick (n0, n1, n2, n3) b) s =
     g_ct_chain isH n0 n1 (Some n2) (Some n3) (pick (n0, n1, n2, n3) b) (pick (n0, n1, n2, n3) a) s).
Proof.
  intros isH n0 n1 n2 n3 s ND. split.
  - intros b Hb. destruct (exchange_at_one_end_flips isH n0 n1 n2 n3 b s ND Hb) as [r [H1 H2]].
    exists r. rewrite ?g_ct_chain_eq, ?g_al_chain_eq. unfold translate_al. auto.
  - intros a b Ha Hb. rewrite !g_ct_chain_eq. apply exchange_of_ends_keeps; assumption.
Qed.

(* geometry: the translated sign functions are antisymmetric / mirror-consistent *)
Theorem source_geometry_laws :
  (forall n u v w, g_pyramid_sign n v u w = - g_pyramid_sign n u v w /\ g_pyramid_sign n v w u = g_pyramid_sign n u v w) /\
  (forall n u v w, g_cis_trans_sign w v u n = g_cis_trans_sign n u v w) /\
  (forall mark a b c, g_allene_sign (- mark) a b c = - g_allene_sign mark a b c).
Proof.
  repeat split; intros; rewrite ?g_pyramid_sign_eq, ?g_cis_trans_sign_eq, ?g_allene_sign_eq.
  - apply pyramid_sign_swap_uv.
  - apply pyramid_sign_rotate.
  - apply cis_trans_sign_reverse.
  - apply allene_sign_mark.
Qed.
