(* C06 -- extension round 3: every ring the modelled perception returns is in canonical spelling (smallest atom first, the smaller
   of its two ring neighbours second), for every oracle. *)
From Coq Require Import ZArith List Bool Lia Permutation Sorted.
From Model Require Import PyBase Graph Rings RingsFilter RingsGen RingsGenSpec.
From Proofs Require Import RingsProofs RingsMcb RingsRank RingsExt RingsDim RingsFund RingsMin RingsHorton RingsFilterProofs RingsGenProofs RingsGenWalks.
Import ListNotations.
Open Scope Z_scope.

Definition canonical (r : ring) : Prop :=
  exists m f, r = m :: f /\ list_min r = Some m /\ hd 0 f < last f 0.

Lemma c_set_canonical pids cs : c_set pids = Ok cs -> forall c, In c cs -> (3 <= length c)%nat -> canonical c.
Proof.
  intros H c Hc L3. destruct pids as [[p1 p2] d]. unfold c_set in H.
  destruct (concat_res_In _ cs H c Hc) as [rs [Hrs Hin]]. apply in_map_iff in Hrs. destruct Hrs as [e [Ee _]].
  unfold rings_of_entry in Ee. destruct e as [[c_num p1ij] p2o].
  destruct (map_res_In canonic_ring _ rs Ee c Hin) as [raw [Hraw Ecan]]. apply filter_In in Hraw. destruct Hraw as [_ Nd]. apply nodup_z_NoDup in Nd.
  assert (Lraw : (3 <= length raw)%nat) by (rewrite <- (canonic_ring_length raw c Ecan); exact L3).
  destruct (canonic_ring_canonical raw Nd Lraw) as [m [f [E [LM [Lt [_ [P Idem]]]]]]]. rewrite E in Ecan. inversion Ecan; subst c.
  exists m, f. split; [reflexivity|]. split; [|exact Lt].
  (* the minimum of a rearrangement is the minimum *)
  apply list_min_spec. apply (proj1 (list_min_spec raw m)) in LM. destruct LM as [Im Min]. split; [left; reflexivity|].
  intros y Hy. apply Min. apply (Permutation_in _ (Permutation_sym P) Hy).
Qed.

Theorem sssr_model_canonical g o rs : sssr_model g o = Ok rs -> forall r, In r rs -> (3 <= length r)%nat -> canonical r.
Proof.
  intros H r Hr L3. unfold sssr_model in H. destruct (rings_count g) as [n|x]; [|discriminate]. destruct (n =? 0); [inversion H; subst; destruct Hr|].
  destruct (candidates g o) as [cs|x] eqn:Hc; [|discriminate]. destruct (rings_filter_result cs (Z.to_nat n) rs H) as [_ Sub].
  unfold candidates in Hc. destruct (skin_graph g) as [sk|x]; [|discriminate]. destruct (bfs_paths sk o) as [paths|x]; [|discriminate].
  apply (c_set_canonical (make_pid paths) cs Hc r (Sub r Hr) L3).
Qed.

(* the canonical spelling is unique in its class: two canonical spellings of rings that are rotations / reflections of each other are equal *)
Theorem canonical_unique r r' : NoDup r -> (3 <= length r)%nat -> canonical r -> canonical r' -> dihedral r r' -> r = r'.
Proof.
  intros N L [m [f [E [LM Lt]]]] [m' [f' [E' [LM' Lt']]]] D.
  destruct (canonic_ring_canonical r N L) as [m0 [f0 [C [_ [_ [_ [_ Idem]]]]]]].
  assert (N' : NoDup r') by (apply (Permutation_NoDup (dihedral_Permutation r r' D) N)).
  assert (L' : (3 <= length r')%nat) by (rewrite <- (Permutation_length (dihedral_Permutation r r' D)); exact L).
  (* a canonical spelling is a fixed point of canonic_ring *)
  assert (Fix : forall s, NoDup s -> (3 <= length s)%nat -> canonical s -> canonic_ring s = Ok s).
  { intros s Ns Ls [ms [fs [Es [LMs Lts]]]]. subst s. assert (Na : ~ In ms []) by (intros []).
    change (ms :: fs) with ([] ++ ms :: fs). rewrite (canonic_split [] ms fs Na); [| | ].
    - rewrite app_nil_r. unfold canon_of. replace (last fs 0 <? hd 0 fs) with false by (symmetry; apply Z.ltb_ge; lia). reflexivity.
    - intros y Hy. cbn [app] in Hy. apply (proj1 (list_min_spec (ms :: fs) ms)) in LMs. destruct LMs as [_ Min]. apply Min. right. exact Hy.
    - rewrite app_nil_r. destruct fs; [cbn in Ls; lia | discriminate]. }
  pose proof (Fix r N L (ex_intro _ m (ex_intro _ f (conj E (conj LM Lt))))) as F1.
  pose proof (Fix r' N' L' (ex_intro _ m' (ex_intro _ f' (conj E' (conj LM' Lt'))))) as F2.
  assert (X : canonic_ring r' = Ok (m0 :: f0)) by (apply Idem; exact D).
  assert (Y : canonic_ring r = Ok (m0 :: f0)) by (apply Idem; left; exists [], r; split; [reflexivity | rewrite app_nil_r; reflexivity]).
  congruence.
Qed.
