(* C08 -- denotation of SMARTS texts with branches AND ring closures (closure numbers 1-9 and %10 .. %99, optionally preceded by a
   bond spelling):
     tree := atom ( bond digit )* ( "(" bond tree ")" )* ( bond tree )?
   The tokenizer produces the tokens of Proofs.SmartsRing; smarts_full builds the atoms in the order written, the bonds of the
   tree, and for every pair of equal digits a bond between the two atoms that carry them. *)
From Coq Require Import ZArith List String Ascii Bool Lia.
From Gen Require Import Elements TokenTables SmartsTables.
From Model Require Import PyBase Graph PeriodicTable Tokenize Smarts Query SmartsFull.
From Model Require Parser.
From Proofs Require Import QueryProofs SmartsProofs SmartsDenote SmartsDenoteText SmartsTree SmartsTreeText SmartsRing.
Import ListNotations.
Open Scope Z_scope.

(* where a closure digit may stand: after an atom / closure, or after the bond spelling written before it *)
Definition dpre (st : tstate) : Prop := aft st \/ (t_pend st = PdNone /\ In (t_type st) [None; Some 1]).

Inductive digit := D1 | D2 | D3 | D4 | D5 | D6 | D7 | D8 | D9.
Definition digit_char (d : digit) : ascii :=
  match d with D1 => "1" | D2 => "2" | D3 => "3" | D4 => "4" | D5 => "5" | D6 => "6" | D7 => "7" | D8 => "8" | D9 => "9" end%char.
Definition digit_val (d : digit) : Z := match d with D1 => 1 | D2 => 2 | D3 => 3 | D4 => 4 | D5 => 5 | D6 => 6 | D7 => 7 | D8 => 8 | D9 => 9 end.

(* a closure number: one digit 1-9, or %nn with nn = 10 .. 99 *)
Inductive digit0 := Z0' | Zd (d : digit).
Inductive cnum := CD (d : digit) | CP (d1 : digit) (d2 : digit0).
Definition digit0_char (d : digit0) : ascii := match d with Z0' => "0"%char | Zd d => digit_char d end.
Definition digit0_val (d : digit0) : Z := match d with Z0' => 0 | Zd d => digit_val d end.
Definition cnum_text (c : cnum) : list ascii :=
  match c with CD d => [digit_char d] | CP d1 d2 => ["%"%char; digit_char d1; digit0_char d2] end.
Definition cnum_val (c : cnum) : Z := match c with CD d => digit_val d | CP d1 d2 => 10 * digit_val d1 + digit0_val d2 end.

Ltac cases_d Hs :=
  unfold dpre, bef, bondpre, aft, pendCB in Hs; cbn [t_type t_pend In] in Hs;
  repeat match goal with H : _ \/ _ |- _ => destruct H | H : _ /\ _ |- _ => destruct H | H : False |- _ => destruct H end; subst.

Lemma digit_loop d st rest : dpre st ->
  tok_loop tok_step st (digit_char d :: rest) = tok_loop tok_step (mkT (Some 6) PdNone ((6, PInt (digit_val d)) :: flushed st)) rest.
Proof. intros Hs. destruct st as [ty pd toks]. cases_d Hs; destruct d; reflexivity. Qed.

Lemma cnum_loop c st rest : dpre st ->
  tok_loop tok_step st (cnum_text c ++ rest) = tok_loop tok_step (mkT (Some 6) PdNone ((6, PInt (cnum_val c)) :: flushed st)) rest.
Proof.
  intros Hs. destruct c as [d|d1 d2]; [apply (digit_loop d st rest Hs)|].
  destruct st as [ty pd toks]. cases_d Hs; destruct d1; destruct d2 as [|d2]; try destruct d2; reflexivity.
Qed.

Lemma bond_loop_d b st rest : aft st -> bond_ok b ->
  exists st', dpre st' /\ flushed st' = (optb (bond_token b) ++ flushed st)%list /\
              tok_loop tok_step st (spell_bond b ++ rest) = tok_loop tok_step st' rest.
Proof.
  intros Hs H. destruct b as [|c [r|]]; cbn [spell_bond bond_token optb].
  - exists st. split; [left; exact Hs|]. split; reflexivity.
  - eexists. split; [|split; [|rewrite <- app_assoc, (core_loop' c st _ ltac:(left; exact Hs) H), (ring_loop c r _ rest); reflexivity]].
    + right. split; [reflexivity | left; reflexivity].
    + reflexivity.
  - eexists. split; [|split; [|rewrite app_nil_r; apply (core_loop' c st rest ltac:(left; exact Hs) H)]].
    + right. split; [reflexivity | destruct c; [right; left; reflexivity | left; reflexivity | left; reflexivity]].
    + reflexivity.
Qed.

(* ---------------------------------------------------------------- texts *)
Definition xitem := (bspell * cnum)%type.
Inductive xtree := XNode (a : tatom) (p : Query.parsed) (cls : list xitem) (kids : xforest)
with xforest :=
| XNil
| XBranch (b : bspell) (t : xtree) (rest : xforest)
| XNext (b : bspell) (t : xtree).
Scheme xtree_mind := Induction for xtree Sort Prop
with xforest_mind := Induction for xforest Sort Prop.
Combined Scheme xtree_xforest_mind from xtree_mind, xforest_mind.

Definition item_text (x : xitem) : list ascii := (spell_bond (fst x) ++ cnum_text (snd x))%list.
Definition item_raw (x : xitem) : list token := (optb (bond_token (fst x)) ++ [(6, PInt (cnum_val (snd x)))])%list.
Fixpoint text_xtree (t : xtree) : list ascii :=
  match t with XNode a _ cls f => (atom_text a ++ flat_map item_text cls ++ text_xforest f)%list end
with text_xforest (f : xforest) : list ascii :=
  match f with
  | XNil => []
  | XBranch b t r => ("("%char :: spell_bond b ++ text_xtree t ++ ")"%char :: text_xforest r)%list
  | XNext b t => (spell_bond b ++ text_xtree t)%list
  end.
Fixpoint raw_xtree (t : xtree) : list token :=
  match t with XNode a _ cls f => (atom_raw a :: flat_map item_raw cls ++ raw_xforest f)%list end
with raw_xforest (f : xforest) : list token :=
  match f with
  | XNil => []
  | XBranch b t r => ((2, PNone) :: optb (bond_token b) ++ raw_xtree t ++ (3, PNone) :: raw_xforest r)%list
  | XNext b t => (optb (bond_token b) ++ raw_xtree t)%list
  end.
Fixpoint xok_tree (t : xtree) : Prop :=
  match t with XNode a p cls f => atom_ok a p /\ Forall (fun x => bond_ok (fst x)) cls /\ xok_forest f end
with xok_forest (f : xforest) : Prop :=
  match f with
  | XNil => True
  | XBranch b t r => bond_ok b /\ xok_tree t /\ xok_forest r
  | XNext b t => bond_ok b /\ xok_tree t
  end.
Fixpoint to_rtree (t : xtree) : rtree :=
  match t with XNode _ p cls f => RNode p (map (fun x => (bond_token (fst x), cnum_val (snd x))) cls) (to_rforest f) end
with to_rforest (f : xforest) : rforest :=
  match f with
  | XNil => RNil
  | XBranch b t r => RBranch (bond_token b) (to_rtree t) (to_rforest r)
  | XNext b t => RNext (bond_token b) (to_rtree t)
  end.

Lemma items_text_loop cls : forall st rest, aft st -> Forall (fun x => bond_ok (fst x)) cls ->
  exists st', aft st' /\ flushed st' = (rev (flat_map item_raw cls) ++ flushed st)%list /\
              tok_loop tok_step st (flat_map item_text cls ++ rest) = tok_loop tok_step st' rest.
Proof.
  induction cls as [|[b d] r IH]; intros st rest Hs Hok.
  - exists st. split; [exact Hs|]. split; reflexivity.
  - inversion Hok as [|? ? Hb Hr]; subst. cbn [fst] in Hb. cbn [flat_map]. unfold item_text at 1, item_raw at 1. cbn [fst snd].
    rewrite <- !app_assoc.
    destruct (bond_loop_d b st (cnum_text d ++ flat_map item_text r ++ rest) Hs Hb) as [s1 [D1' [F1 E1]]]. rewrite E1.
    rewrite (cnum_loop d s1 _ D1').
    destruct (IH (mkT (Some 6) PdNone ((6, PInt (cnum_val d)) :: flushed s1)) rest ltac:(left; split; [reflexivity | cbn; tauto]) Hr)
      as [s2 [A2 [F2 E2]]].
    exists s2. split; [exact A2|]. split; [|exact E2].
    rewrite F2. cbn [flushed truthy t_pend t_toks]. rewrite F1. rewrite !rev_app_distr. cbn [rev app]. rewrite <- !app_assoc. cbn [app].
    destruct (bond_token b); cbn [optb rev app]; rewrite <- ?app_assoc; reflexivity.
Qed.

Definition X_tree (t : xtree) : Prop := forall st rest, bef st -> xok_tree t ->
  exists st', aft st' /\ flushed st' = (rev (raw_xtree t) ++ flushed st)%list /\
              tok_loop tok_step st (text_xtree t ++ rest) = tok_loop tok_step st' rest.
Definition X_forest (f : xforest) : Prop := forall st rest, aft st -> xok_forest f ->
  exists st', aft st' /\ flushed st' = (rev (raw_xforest f) ++ flushed st)%list /\
              tok_loop tok_step st (text_xforest f ++ rest) = tok_loop tok_step st' rest.

Lemma xtext_loop : (forall t, X_tree t) /\ (forall f, X_forest f).
Proof.
  apply xtree_xforest_mind; unfold X_tree, X_forest.
  - intros a p cls f IHf st rest Hs [Ha [Hcl Hf]]. cbn [text_xtree raw_xtree]. rewrite <- !app_assoc.
    destruct (atom_loop a p st (flat_map item_text cls ++ text_xforest f ++ rest) Hs Ha) as [s1 [A1 [F1 E1]]]. rewrite E1.
    destruct (items_text_loop cls s1 (text_xforest f ++ rest) A1 Hcl) as [s2 [A2 [F2 E2]]]. rewrite E2.
    destruct (IHf s2 rest A2 Hf) as [s3 [A3 [F3 E3]]]. exists s3. split; [exact A3|]. split; [|exact E3].
    rewrite F3, F2, F1. cbn [rev]. rewrite !rev_app_distr. rewrite <- !app_assoc. reflexivity.
  - intros st rest Hs _. exists st. split; [exact Hs|]. split; reflexivity.
  - intros b t IHt r IHr st rest Hs [Hb [Ht Hr]]. cbn [text_xforest raw_xforest app].
    rewrite (open_loop st _ Hs). rewrite <- !app_assoc.
    destruct (bond_loop' b (mkT (Some 2) PdNone ((2, PNone) :: flushed st)) (text_xtree t ++ (")"%char :: text_xforest r) ++ rest)
                ltac:(right; split; reflexivity) Hb) as [s1 [B1 [F1 E1]]]. rewrite E1.
    destruct (IHt s1 ((")"%char :: text_xforest r) ++ rest)%list B1 Ht) as [s2 [A2 [F2 E2]]]. rewrite E2.
    cbn [app]. rewrite (close_loop s2 _ A2).
    destruct (IHr (mkT (Some 3) PdNone ((3, PNone) :: flushed s2)) rest ltac:(left; split; [reflexivity | cbn; tauto]) Hr) as [s3 [A3 [F3 E3]]].
    exists s3. split; [exact A3|]. split; [|exact E3].
    rewrite F3. cbn [flushed truthy t_pend t_toks]. rewrite F2, F1. cbn [flushed truthy t_pend t_toks].
    cbn [rev]. rewrite !rev_app_distr. cbn [rev]. rewrite <- !app_assoc. cbn [app].
    destruct (bond_token b); cbn [optb rev app]; reflexivity.
  - intros b t IHt st rest Hs [Hb Ht]. cbn [text_xforest raw_xforest]. rewrite <- app_assoc.
    destruct (bond_loop' b st (text_xtree t ++ rest) ltac:(left; exact Hs) Hb) as [s1 [B1 [F1 E1]]]. rewrite E1.
    destruct (IHt s1 rest B1 Ht) as [s2 [A2 [F2 E2]]]. exists s2. split; [exact A2|]. split; [|exact E2].
    rewrite F2, F1. rewrite rev_app_distr. rewrite <- app_assoc. destruct (bond_token b); reflexivity.
Qed.

Lemma tokenize_xtree t : xok_tree t -> tokenize_raw (string_of_list_ascii (text_xtree t)) = Ok (raw_xtree t).
Proof.
  intros Hok. unfold tokenize_raw, tokenize_raw_with. rewrite list_ascii_of_string_of_list_ascii.
  destruct (proj1 xtext_loop t t_init [] ltac:(right; split; [reflexivity | cbn; tauto]) Hok) as [st [A [F E]]].
  rewrite app_nil_r in E. rewrite E. cbn [tok_loop]. cbn [flushed truthy t_init t_pend t_toks] in F. rewrite app_nil_r in F.
  unfold tok_finish.
  assert (T : tt_is st 5 = false /\ tt_is st 7 = false /\ tt_is st 11 = false /\ tt_is st 12 = false).
  { destruct st as [ty pd toks]. unfold aft, pendCB in A. cbn [t_type t_pend In] in A.
    repeat match goal with H : _ \/ _ |- _ => destruct H | H : _ /\ _ |- _ => destruct H | H : False |- _ => destruct H end; subst;
      repeat split; reflexivity. }
  destruct T as [-> [-> [-> ->]]]. rewrite F, rev_involutive. reflexivity.
Qed.

Definition SX_tree (t : xtree) : Prop := forall rest toks ps, xok_tree t -> split_tokens rest = Ok (toks, ps) ->
  split_tokens (raw_xtree t ++ rest) = Ok ((tok_rtree (to_rtree t) ++ toks)%list, (atoms_rtree (to_rtree t) ++ ps)%list).
Definition SX_forest (f : xforest) : Prop := forall rest toks ps, xok_forest f -> split_tokens rest = Ok (toks, ps) ->
  split_tokens (raw_xforest f ++ rest) = Ok ((tok_rforest (to_rforest f) ++ toks)%list, (atoms_rforest (to_rforest f) ++ ps)%list).

Lemma split_items cls : forall rest toks ps, Forall (fun x => bond_ok (fst x)) cls -> split_tokens rest = Ok (toks, ps) ->
  split_tokens (flat_map item_raw cls ++ rest) =
  Ok ((flat_map item_tokens (map (fun x => (bond_token (fst x), cnum_val (snd x))) cls) ++ toks)%list, ps).
Proof.
  induction cls as [|[b d] r IH]; intros rest toks ps Hok H; [exact H|].
  inversion Hok as [|? ? Hb Hr]; subst. cbn [fst] in Hb. cbn [flat_map map]. unfold item_raw at 1, item_tokens at 1. cbn [fst snd].
  rewrite <- !app_assoc. cbn [app].
  assert (R := IH rest toks ps Hr H).
  assert (C : split_tokens ((6, PInt (cnum_val d)) :: flat_map item_raw r ++ rest) =
              Ok ((6, PInt (cnum_val d)) :: flat_map item_tokens (map (fun x => (bond_token (fst x), cnum_val (snd x))) r) ++ toks, ps)%list).
  { apply (split_step (6, PInt (cnum_val d)) _ _ _ (STok (6, PInt (cnum_val d))) eq_refl R). }
  etransitivity; [exact (split_optb b _ _ _ Hb C)|]. reflexivity.
Qed.

Lemma split_xtree : (forall t, SX_tree t) /\ (forall f, SX_forest f).
Proof.
  apply xtree_xforest_mind; unfold SX_tree, SX_forest.
  - intros a p cls f IHf rest toks ps [Ha [Hcl Hf]] H. cbn [raw_xtree to_rtree tok_rtree atoms_rtree app].
    rewrite <- !app_assoc.
    assert (R := split_items cls _ _ _ Hcl (IHf rest toks ps Hf H)).
    etransitivity; [exact (split_step _ _ _ _ _ (atom_raw_token a p Ha) R)|]. reflexivity.
  - intros rest toks ps _ H. exact H.
  - intros b t IHt r IHr rest toks ps [Hb [Ht Hr]] H. cbn [raw_xforest to_rforest tok_rforest atoms_rforest app].
    rewrite <- !app_assoc. cbn [app].
    assert (R := IHr rest toks ps Hr H).
    assert (C : split_tokens (((3, PNone) :: raw_xforest r) ++ rest) = Ok ((3, PNone) :: tok_rforest (to_rforest r) ++ toks, atoms_rforest (to_rforest r) ++ ps)%list).
    { cbn [app]. apply (split_step (3, PNone) _ _ _ (STok (3, PNone)) eq_refl R). }
    assert (T := IHt _ _ _ Ht C).
    assert (B := split_optb b _ _ _ Hb T).
    etransitivity; [exact (split_step (2, PNone) _ _ _ (STok (2, PNone)) eq_refl B)|].
    cbn [app]. rewrite <- ?app_assoc. cbn [app]. rewrite <- ?app_assoc. reflexivity.
  - intros b t IHt rest toks ps [Hb Ht] H. cbn [raw_xforest to_rforest tok_rforest atoms_rforest]. rewrite <- !app_assoc.
    apply (split_optb b _ _ _ Hb). apply IHt; assumption.
Qed.

Lemma to_rtree_ok : (forall t, xok_tree t -> rok_tree (to_rtree t)) /\ (forall f, xok_forest f -> rok_forest (to_rforest f)).
Proof.
  apply xtree_xforest_mind.
  - intros a p cls f IH [_ [Hcl H]]. cbn [to_rtree rok_tree]. split; [|exact (IH H)].
    apply Forall_map. eapply Forall_impl; [|exact Hcl]. intros x Hx. cbn [fst]. exact (proj1 (bond_token_meaning _ Hx)).
  - intros _. exact I.
  - intros b t IHt r IHr [Hb [Ht Hr]]. cbn [to_rforest rok_forest]. split; [exact (proj1 (bond_token_meaning b Hb))|]. split; [apply IHt | apply IHr]; assumption.
  - intros b t IHt [Hb Ht]. cbn [to_rforest rok_forest]. split; [exact (proj1 (bond_token_meaning b Hb)) | apply IHt; exact Ht].
Qed.

(* ---------------------------------------------------------------- the theorem *)
Theorem ring_text_denotation t qs bonds :
  xok_tree t -> den_root (to_rtree t) = Some ([], bonds) ->
  Forall2 (fun p q => build_atom p = Ok q) (atoms_rtree (to_rtree t)) qs ->
  NoDup (explicit_maps (atoms_rtree (to_rtree t))) ->
  distinct_pairs [] bonds -> Forall payload_valid bonds ->
  smarts_full (string_of_list_ascii (text_xtree t)) =
  Ok (map (fun pq => atom_result (fst pq) (snd pq)) (combine (atoms_rtree (to_rtree t)) qs), map to_sbond bonds).
Proof.
  intros Hok Hd Hat Hnd Hdp Hv. unfold smarts_full.
  assert (Es : String.eqb (string_of_list_ascii (text_xtree t)) "" = false).
  { destruct t as [[body|u] p cls f]; [reflexivity | destruct u; reflexivity]. }
  rewrite Es, (tokenize_xtree t Hok).
  pose proof (proj1 split_xtree t [] [] [] Hok eq_refl) as S. rewrite !app_nil_r in S. rewrite S.
  apply ring_denotation; [apply (proj1 to_rtree_ok); exact Hok | exact Hd | exact Hat | exact Hnd | exact Hdp | exact Hv].
Qed.

(* non-vacuity: a ring with a branch, bracket and unbracketed atoms, a closure bond written at one end *)
Definition ex_xtree : xtree :=
  XNode (TBr (s2l "C;D3")) (qp "C;D3") [(BNone, CP D1 (Zd D2))]
    (XBranch (BCore (CSym Bdouble) None) (XNode (TSym UO) (simple_query "O") [] XNil)
    (XNext BNone (XNode (TSym Uc) (simple_query "C") []
       (XNext (BCore (COr Bsingle Bdouble) None) (XNode (TSym UN) (simple_query "N") [(BCore (CSym Bsingle) (Some true), CP D1 (Zd D2))] XNil))))).
Theorem ring_text_example :
  xok_tree ex_xtree /\
  string_of_list_ascii (text_xtree ex_xtree) = "[C;D3]%12(=O)c-,=N-;@%12"%string /\
  den_root (to_rtree ex_xtree) = Some ([], [(1, 0, PInt 2); (2, 0, PInt 1); (3, 2, PZs [1; 2]); (3, 0, PQB [1] true)]) /\
  distinct_pairs [] [(1, 0, PInt 2); (2, 0, PInt 1); (3, 2, PZs [1; 2]); (3, 0, PQB [1] true)] /\
  smarts_full "[C;D3]%12(=O)c-,=N-;@%12" =
  Ok ([(QElem 6 None (mkQX 0 false [3] [] [] [] [] false), None); (QElem 8 None (mkQX 0 false [] [] [] [] [] false), None);
       (QElem 6 None (mkQX 0 false [] [] [] [] [] false), None); (QElem 7 None (mkQX 0 false [] [] [] [] [] false), None)],
      [mkSB 1 0 (mkQB [2] None) None; mkSB 2 0 (mkQB [1] None) None; mkSB 3 2 (mkQB [1; 2] None) None; mkSB 3 0 (mkQB [1] (Some true)) None]).
Proof.
  split; [|split; [vm_compute; reflexivity|split; [vm_compute; reflexivity|split; [|vm_compute; reflexivity]]]].
  - assert (B : forall body, forallb (fun c => negb (Ascii.eqb c "[" || Ascii.eqb c "]")) (s2l body) = true -> s2l body <> [] ->
                             query_parse (s2l body) = Ok (qp body) -> body_ok (s2l body) (qp body)) by (intros; repeat split; assumption).
    cbn [ex_xtree xok_tree xok_forest atom_ok bond_ok core_ok].
    repeat split; try exact I; try reflexivity; repeat (first [apply Forall_nil | apply Forall_cons]); try exact I;
      apply B; (reflexivity || discriminate || (vm_compute; reflexivity)).
  - cbn. repeat split; try lia; intros p H; repeat (destruct H as [H|H]; [subst p; cbn; lia|]); destruct H.
Qed.
