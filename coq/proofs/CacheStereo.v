(* C13 -- fix_stereo as an abstract operation: labels are flushed and restored round by round while the atom is a stereocentre
   given the labels restored so far (MoleculeStereo.fix_stereo).  Whether an atom is a stereocentre is a Section variable with ONE
   hypothesis: it depends only on the atom's connected component (atoms, rows, labels).  Theorem: a component that an edit did not
   touch keeps exactly its labels - the theorem counterpart of the stereo-locality oracle of harness/checks/C13.py. *)
From Coq Require Import ZArith List Bool Lia.
From Model Require Import PyBase Cache.
Import ListNotations.
Open Scope Z_scope.

Definition labelling := Z -> option bool.
Definition vrow (v : view) (n : Z) : list (Z * option bcell) := match zget (snd v) n with Some r => r | None => [] end.
(* C is closed under adjacency in v *)
Definition closedv (v : view) (C : list Z) : Prop := forall n, In n C -> forall m oc, In (m, oc) (vrow v n) -> In m C.
(* two molecules look the same on C *)
Definition agree (C : list Z) (v v' : view) (l l' : labelling) : Prop :=
  forall n, In n C -> zget (fst v) n = zget (fst v') n /\ vrow v n = vrow v' n /\ l n = l' n.

Section Stereo.
Variable chiral : view -> labelling -> Z -> bool.
Hypothesis chiral_local : forall C v v' l l', closedv v C -> closedv v' C -> agree C v v' l l' ->
  forall n, In n C -> chiral v l n = chiral v' l' n.

(* one round: an atom whose stored label is not restored yet gets it back if it is a stereocentre now *)
Definition restore (v : view) (stored cur : labelling) : labelling :=
  fun n => match cur n with Some b => Some b | None => if chiral v cur n then stored n else None end.
Fixpoint rounds (v : view) (stored : labelling) (k : nat) : labelling :=
  match k with O => (fun _ => None) | S k => restore v stored (rounds v stored k) end.
Definition stable (v : view) (stored : labelling) (k : nat) : Prop := forall n, rounds v stored (S k) n = rounds v stored k n.

Lemma rounds_local C v v' st st' : closedv v C -> closedv v' C -> agree C v v' st st' ->
  forall k n, In n C -> rounds v st k n = rounds v' st' k n.
Proof.
  intros Cv Cv' A. induction k as [|k IH]; intros n Hn; [reflexivity|]. cbn [rounds]. unfold restore. rewrite (IH n Hn).
  destruct (rounds v' st' k n); [reflexivity|].
  rewrite (chiral_local C v v' (rounds v st k) (rounds v' st' k) Cv Cv'); [|intros x Hx; destruct (A x Hx) as [A1 [A2 _]]; auto | exact Hn].
  destruct (A n Hn) as [_ [_ ->]]. reflexivity.
Qed.
(* chiral does not distinguish labellings that agree everywhere (a consequence of locality: take everything as C) *)
Lemma chiral_ext v l l' n : (forall x, l x = l' x) -> chiral v l n = chiral v l' n.
Proof.
  intros E. set (C := n :: map fst (snd v) ++ flat_map (fun nr => map fst (snd nr)) (snd v)).
  assert (closedv v C) as Cl.
  { intros x Hx m oc Hm. right. apply in_or_app. right. unfold vrow in Hm. destruct (zget (snd v) x) as [r|] eqn:Er; [|destruct Hm].
    apply in_flat_map. exists (x, r). split.
    - clear -Er. induction (snd v) as [|[k0 v0] t IH]; cbn in *; [discriminate|]. destruct (Z.eqb_spec x k0); [left; congruence | right; auto].
    - cbn. change m with (fst (m, oc)). now apply in_map. }
  apply (chiral_local C v v l l' Cl Cl); [|now left]. intros x Hx. repeat split. apply E.
Qed.
Lemma stable_ext v st k : stable v st k -> forall j n, rounds v st (k + j) n = rounds v st k n.
Proof.
  intros S. induction j as [|j IH]; intros n; [now rewrite Nat.add_0_r|]. rewrite Nat.add_succ_r. rewrite <- (S n). cbn [rounds]. unfold restore.
  rewrite (IH n). destruct (rounds v st k n); [reflexivity|]. now rewrite (chiral_ext v _ _ n IH).
Qed.

(* fix_stereo = the labels when the rounds have stabilised.  Locality: two molecules that look the same on a closed set C (e.g. a
   molecule before and after an edit elsewhere) end up with the same labels on C, however many rounds each needed *)
Theorem fix_stereo_local C v v' st st' k k' :
  closedv v C -> closedv v' C -> agree C v v' st st' -> stable v st k -> stable v' st' k' ->
  forall n, In n C -> rounds v st k n = rounds v' st' k' n.
Proof.
  intros Cv Cv' A S S' n Hn.
  rewrite <- (stable_ext v st k S k' n), <- (stable_ext v' st' k' S' k n). rewrite (Nat.add_comm k' k).
  now apply (rounds_local C v v' st st').
Qed.
(* in particular a label that was valid before the edit (restored by fix_stereo on the old molecule) is still there *)
Corollary untouched_component_keeps_labels C v v' st k k' :
  closedv v C -> closedv v' C -> agree C v v' st st -> stable v st k -> stable v' st k' ->
  forall n, In n C -> rounds v' st k' n = rounds v st k n.
Proof. intros. symmetry. eapply fix_stereo_local; eauto. Qed.
End Stereo.

(* non-vacuity: 'a stereocentre is an atom with four rows entries' is local; two molecules sharing component {1,2,3,4,5} *)
Definition four_nbrs (v : view) (_ : labelling) (n : Z) : bool := (List.length (vrow v n) =? 4)%nat.
Lemma four_nbrs_local : forall C v v' l l', closedv v C -> closedv v' C -> agree C v v' l l' ->
  forall n, In n C -> four_nbrs v l n = four_nbrs v' l' n.
Proof. intros C v v' l l' _ _ A n Hn. unfold four_nbrs. destruct (A n Hn) as [_ [-> _]]. reflexivity. Qed.
