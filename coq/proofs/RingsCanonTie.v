(* C06 -- round 4: TIE BY TRANSLATION of _canonic_ring and _ring_scissors.  coq/gen/RingsCanonBody.v is regenerated on every check
   run from the statements of the two functions (tools/gen_ringscanon.py, ast, fail closed); the hand-written model functions -- about
   which canonic_ring_canonical / canonical_unique / sssr_model_canonical are stated and which the selection phase uses -- are equal to the
   translated ones for every input tuple, malformed ones (empty, one atom, atom not in the ring) included. *)
From Coq Require Import ZArith List Bool.
From Model Require Import PyBase Graph Rings.
From Gen Require Import RingsCanonBody.
Import ListNotations.
Open Scope Z_scope.

Theorem canonic_ring_translated : forall ring, gen_canonic_ring ring = canonic_ring ring.
Proof. intro ring. reflexivity. Qed.

Theorem ring_scissors_translated : forall ring n m, gen_ring_scissors ring n m = ring_scissors ring n m.
Proof. intros ring n m. reflexivity. Qed.

Example canonic_translated_example :
  gen_canonic_ring [5; 3; 9; 1; 7] = Ok [1; 7; 5; 3; 9] /\ gen_canonic_ring [] = Err ValueError /\
  gen_ring_scissors [4; 2; 6; 8] 6 8 = Ok [6; 2; 4; 8] /\ gen_ring_scissors [4; 2; 6; 8] 5 8 = Err ValueError.
Proof. repeat split; vm_compute; reflexivity. Qed.
