(* C06 -- round 4: the fuel of the _connected_rings model is sufficient.  cr_outer is structurally recursive on a fuel argument started
   with len(rings); the loop index grows by one per round and a replaced ring list keeps its length, so the loop ends by running past the
   end of the list (nth_error = None) no later than the fuel runs out, and more fuel never changes the result. *)
From Coq Require Import ZArith List Bool Lia.
From Model Require Import PyBase Graph Rings RingsFilter.
Import ListNotations.
Open Scope Z_scope.

Lemma replace_nth_length {A} (k : nat) (l : list A) (x : A) : length (replace_nth k l x) = length l.
Proof. revert k. induction l as [|h t IH]; intros [|k]; cbn [replace_nth length]; try reflexivity. rewrite IH. reflexivity. Qed.

Lemma done_length (X : pyres ring) (j : nat) (rings r' : list ring) :
  bindr X (fun c'' => bindr (ring_adjacency c'') (fun _ => Ok (Some (replace_nth j rings c'')))) = Ok (Some r') -> length r' = length rings.
Proof.
  destruct X as [c''|e]; cbn [bindr]; [|discriminate]. destruct (ring_adjacency c'') as [a|e]; cbn [bindr]; [|discriminate].
  intro H. inversion H. apply replace_nth_length.
Qed.

Lemma cr_inner_length c rings : forall todo j rings', cr_inner c rings j todo = Ok (Some rings') -> length rings' = length rings.
Proof.
  induction todo as [|r rest IH]; intros j rings' H; cbn [cr_inner] in H; [discriminate|].
  cbv zeta in H.
  destruct (common_atoms r c) as [|n [|m [|x xs]]] eqn:C; try (apply (IH _ _ H)).
  - (* exactly two common atoms *)
    destruct (ring_adjacency c) as [ck|e]; cbn [bindr] in H; [|discriminate].
    destruct (ring_adjacency r) as [rk|e]; cbn [bindr] in H; [|discriminate].
    destruct (adj_has ck n m) as [[|]|e]; cbn [bindr] in H; try discriminate; [|apply (IH _ _ H)].
    destruct (adj_has rk n m) as [[|]|e]; cbn [bindr] in H; try discriminate; [|apply (IH _ _ H)].
    apply (done_length _ _ _ _ H).
  - (* three or more *)
    destruct (get_unique_chord c (n :: m :: x :: xs)) as [cc|]; [|apply (IH _ _ H)].
    destruct (get_unique_chord r (n :: m :: x :: xs)) as [rr|]; [|apply (IH _ _ H)].
    destruct cc as [|c0 ct]; destruct rr as [|r0 rt]; try (apply (done_length _ _ _ _ H)). apply (IH _ _ H).
Qed.

Theorem cr_outer_more_fuel : forall fuel i rings out k, (length rings <= fuel + i)%nat ->
  cr_outer (fuel + k) i rings out = cr_outer fuel i rings out.
Proof.
  induction fuel as [|f IH]; intros i rings out k L.
  - cbn [Nat.add]. destruct k as [|k]; [reflexivity|]. cbn [cr_outer].
    assert (E : nth_error rings i = None) by (apply nth_error_None; lia). rewrite E. reflexivity.
  - cbn [Nat.add cr_outer]. destruct (nth_error rings i) as [c|]; [|reflexivity].
    destruct (cr_inner c rings (S i) (skipn (S i) rings)) as [[rings'|]|e] eqn:E; cbn [bindr]; [| |reflexivity].
    + apply IH. rewrite (cr_inner_length _ _ _ _ _ E). lia.
    + apply IH. lia.
Qed.

(* the fuel connected_rings starts with is enough: any larger fuel computes the same *)
Theorem connected_rings_fuel_independent : forall rings k, cr_outer (length rings + k) O rings [] = connected_rings rings.
Proof. intros rings k. unfold connected_rings. apply cr_outer_more_fuel. lia. Qed.

(* non-vacuity: two triangles sharing a bond are merged into their four-membered contour, with the default fuel and with more *)
Example connected_rings_fuel_example :
  connected_rings [[1; 2; 3]; [2; 3; 4]] = Ok [[1; 2; 4; 3]] /\ cr_outer 7 O [[1; 2; 3]; [2; 3; 4]] [] = Ok [[1; 2; 4; 3]].
Proof. split; vm_compute; reflexivity. Qed.
