(* The hydrogen recheck of create_molecule never replaces a VALID written hydrogen count of a non-aromatic atom:
     recheck_valid_kept        if the valence rules accept the written count in the atom's own state (check_implicit = true) the count is
                               kept as written, the radical flag untouched, nothing radicalized, nothing reported as mismatch;
     recheck_mismatch_invalid  a count is reported in chython_implicit_mismatch only if the atom has no valence state at all or the
                               written count is invalid in its own state, AND (for an atom without radical mark) invalid in the radical
                               state too - the order of the two tests: own state first, radical guess second. *)
From Coq Require Import ZArith List String Ascii Bool Lia.
From Model Require Import PyBase Graph Valence Tokenize Parser Reader Recheck.
Import ListNotations.
Open Scope Z_scope.

Theorem recheck_valid_kept : forall fl g n a h o lab c,
  atom_of g n = Some a -> f_keep_implicit fl = false ->
  calc_implicit g n = Ok (Some c) -> calc_labels_atom g n = Ok lab -> l_hybridization lab <> 4 ->
  check_implicit g n h = Ok true ->
  recheck_atom fl g n (Some h) = Ok o ->
  o_h o = Some h /\ o_rad o = a_rad a /\ o_radicalized o = false /\ o_mismatch o = None.
Proof.
  intros fl g n a h o lab c Ha Hk Hc Hl Hy Hv H. unfold recheck_atom, bindr in H. rewrite Ha, Hk, Hc, Hl in H.
  assert (l_hybridization lab =? 4 = false) as Ey by (apply Z.eqb_neq; exact Hy). rewrite Ey in H.
  destruct (h =? c) eqn:Eh.
  - apply Z.eqb_eq in Eh. subst. inversion H; subst. cbn. repeat split; reflexivity.
  - rewrite Hv in H. inversion H; subst. cbn. repeat split; reflexivity.
Qed.

Theorem recheck_mismatch_invalid : forall fl g n a h h' o lab,
  atom_of g n = Some a -> calc_labels_atom g n = Ok lab -> l_hybridization lab <> 4 ->
  recheck_atom fl g n (Some h) = Ok o -> o_mismatch o = Some h' ->
  h' = h /\
  (calc_implicit g n = Ok None \/ check_implicit g n h = Ok false) /\
  (a_rad a = false -> check_implicit (with_rad g n true) n h = Ok false).
Proof.
  intros fl g n a h h' o lab Ha Hl Hy H Hm. unfold recheck_atom, bindr in H. rewrite Ha in H.
  destruct (f_keep_implicit fl); [inversion H; subst; discriminate|].
  destruct (calc_implicit g n) as [calc|]; [|discriminate]. rewrite Hl in H.
  assert (l_hybridization lab =? 4 = false) as Ey by (apply Z.eqb_neq; exact Hy). rewrite Ey in H.
  destruct calc as [c|].
  - destruct (h =? c); [inversion H; subst; discriminate|].
    destruct (check_implicit g n h) as [[|]|]; try discriminate; [inversion H; subst; discriminate|].
    destruct (a_rad a) eqn:Er; cbn [negb] in H.
    + destruct (f_ignore fl); [|discriminate]. inversion H; subst. cbn in Hm. inversion Hm. split; [reflexivity|]. split; [right; reflexivity | intros X; discriminate X].
    + destruct (check_implicit (with_rad g n true) n h) as [[|]|]; try discriminate; [inversion H; subst; discriminate|].
      destruct (f_ignore fl); [|discriminate]. inversion H; subst. cbn in Hm. inversion Hm. split; [reflexivity|]. split; [right; reflexivity | intros _; reflexivity].
  - destruct (a_rad a) eqn:Er; cbn [negb] in H; [inversion H; subst; discriminate|].
    destruct (check_implicit (with_rad g n true) n h) as [[|]|]; try discriminate; [inversion H; subst; discriminate|].
    destruct (f_ignore fl); [|discriminate]. inversion H; subst. cbn in Hm. inversion Hm. split; [reflexivity|]. split; [left; reflexivity | intros _; reflexivity].
Qed.

(* whole calls: a bare elemental atom / alane keep the written count (another valid valence state), nothing is reported *)
Example recheck_valid_examples :
  let fl := mkFlags true false true false in
  show_res (show_fresult true) (read_full fl false "[S]") = "M 1={S|-|-|0|0|-}[] # 1:0"%string /\
  show_res (show_fresult true) (read_full fl false "[Pd].[C]") = "M 1={Pd|-|-|0|0|-}[],2={C|-|-|0|0|-}[] # 1:0,2:0"%string /\
  show_res (show_fresult true) (read_full fl false "[AlH3]") = "M 1={Al|-|-|0|3|-}[] # 1:3"%string /\
  show_res (show_fresult true) (read_full fl false "[SH3]") = "M 1={S|-|-|0|3|-}[] # 1:3*r"%string.
Proof. repeat split; vm_compute; reflexivity. Qed.
