(* C20 round 4: data.bonds() as a FUNCTION of the adjacency (Graph.bonds: `seen` set, one row after the other, a bond is yielded from
   the row of its first atom), and the hypothesis `adjacency_of` of the end-to-end theorem DERIVED for every well-formed molecule:
   every atom's neighbours (with orders) are, up to order, the bonds of data.bonds() incident to it. *)
From Coq Require Import ZArith List Bool Lia Permutation.
From Model Require Import PyBase Graph RdkitRegistry RdkitBonds.
From Proofs Require Import RdkitExt6.
Import ListNotations.
Open Scope Z_scope.

(* well-formed adjacency, as propositions *)
Record WF (adj : list (Z * list (Z * bond))) : Prop := {
  wf_keys : NoDup (keys adj);
  wf_rows : forall n l, In (n, l) adj -> NoDup (keys l);
  wf_loop : forall n l m b, In (n, l) adj -> In (m, b) l -> m <> n;
  wf_sym : forall n l m b, In (n, l) adj -> In (m, b) l -> exists l' b', In (m, l') adj /\ In (n, b') l' /\ b_ord b' = b_ord b
}.

Lemma zmem_In x l : zmem x l = true <-> In x l.
Proof.
  unfold zmem. rewrite existsb_exists. split.
  - intros (y & Hy & E). apply Z.eqb_eq in E. subst. exact Hy.
  - intros H. exists x. split; [exact H|apply Z.eqb_refl].
Qed.
Lemma zmem_false x l : zmem x l = false <-> ~ In x l.
Proof. rewrite <- zmem_In. destruct (zmem x l); split; congruence. Qed.

Lemma incident_app k a b : incident k (a ++ b) = incident k a ++ incident k b.
Proof. unfold incident. apply flat_map_app. Qed.

Lemma In_keys {V} (d : list (Z * V)) k v : In (k, v) d -> In k (keys d).
Proof. intros H. unfold keys. apply in_map_iff. exists (k, v). split; [reflexivity|exact H]. Qed.

Lemma NoDup_keys_fun {V} (d : list (Z * V)) k v w : NoDup (keys d) -> In (k, v) d -> In (k, w) d -> v = w.
Proof.
  induction d as [|[k' v'] r IH]; intros Hn Hv Hw; [contradiction|].
  cbn [keys map fst] in Hn. inversion Hn as [|? ? Hk Hr]; subst.
  destruct Hv as [Hv|Hv]; destruct Hw as [Hw|Hw].
  - congruence.
  - injection Hv as -> ->. exfalso. apply Hk. apply (In_keys r k w Hw).
  - injection Hw as -> ->. exfalso. apply Hk. apply (In_keys r k v Hv).
  - apply IH; assumption.
Qed.

Lemma zget_In {V} (d : list (Z * V)) k v : zget d k = Some v -> In (k, v) d.
Proof.
  induction d as [|[k' v'] r IH]; cbn [zget]; [discriminate|].
  destruct (k =? k') eqn:E; [apply Z.eqb_eq in E; subst; intros H; injection H as ->; left; reflexivity|intros H; right; apply IH; exact H].
Qed.
Lemma zget_of_In {V} (d : list (Z * V)) k v : NoDup (keys d) -> In (k, v) d -> zget d k = Some v.
Proof.
  intros Hn Hin. destruct (zget d k) as [w|] eqn:E.
  - f_equal. apply (NoDup_keys_fun d k w v Hn (zget_In d k w E) Hin).
  - exfalso. induction d as [|[k' v'] r IH]; [contradiction|]. cbn [zget] in E.
    destruct (k =? k') eqn:Ek; [discriminate|]. destruct Hin as [Hin|Hin]; [injection Hin as -> ->; rewrite Z.eqb_refl in Ek; discriminate|].
    cbn [keys map fst] in Hn. inversion Hn; subst. apply IH; assumption.
Qed.

(* ---- the three parts of data.bonds() seen from atom k ---- *)
(* rows after k's row (k already seen, k not among them): nothing incident to k *)
Lemma incident_later k : forall adj seen, In k seen -> ~ In k (keys adj) -> incident k (bonds_go adj seen) = [].
Proof.
  induction adj as [|[n l] r IH]; intros seen Hs Hk; [reflexivity|].
  cbn [bonds_go]. rewrite incident_app. cbn [keys map fst] in Hk.
  rewrite (IH (n :: seen)); [|right; exact Hs|intros H; apply Hk; right; exact H]. rewrite app_nil_r.
  assert (Hnk : n <> k) by (intros ->; apply Hk; left; reflexivity).
  unfold row_bonds. induction l as [|[m b] l' IHl]; [reflexivity|].
  cbn [flat_map fst snd]. rewrite incident_app, IHl, app_nil_r.
  destruct (zmem m (n :: seen)) eqn:E; [reflexivity|].
  cbn [incident flat_map app]. destruct (n =? k) eqn:E1; [apply Z.eqb_eq in E1; contradiction|].
  destruct (m =? k) eqn:E2; [|reflexivity]. apply Z.eqb_eq in E2. subst m.
  apply zmem_false in E. exfalso. apply E. right. exact Hs.
Qed.

(* k's own row: the neighbours not yet seen *)
Lemma incident_own k l seen : (forall m b, In (m, b) l -> m <> k) ->
  incident k (row_bonds seen k l) = plain (filter (fun mb => negb (zmem (fst mb) seen)) l).
Proof.
  intros Hl. unfold row_bonds. induction l as [|[m b] l' IH]; [reflexivity|].
  cbn [flat_map filter fst snd]. rewrite incident_app, IH by (intros m' b' H; apply (Hl m' b'); right; exact H).
  destruct (zmem m seen); cbn [negb]; [reflexivity|].
  cbn [incident flat_map app plain map fst snd]. rewrite Z.eqb_refl. reflexivity.
Qed.

(* rows before k's row (k not seen, k not among them): one entry for every row that lists k *)
Definition earlier_of (k : Z) (pre : list (Z * list (Z * bond))) : list (Z * Z) :=
  flat_map (fun nl => match zget (snd nl) k with Some b => [(fst nl, b_ord b)] | None => [] end) pre.

Lemma row_other k n l seen : n <> k -> ~ In k seen -> NoDup (keys l) ->
  incident k (row_bonds seen n l) = match zget l k with Some b => [(n, b_ord b)] | None => [] end.
Proof.
  intros Hnk Hs. unfold row_bonds. induction l as [|[m b] l' IH]; intros Hn; [reflexivity|].
  cbn [keys map fst] in Hn. inversion Hn as [|? ? Hm Hr]; subst.
  cbn [flat_map fst snd zget]. rewrite incident_app, (IH Hr).
  destruct (k =? m) eqn:E.
  - apply Z.eqb_eq in E. subst m.
    assert (zmem k seen = false) as -> by (apply zmem_false; exact Hs).
    cbn [incident flat_map app]. destruct (n =? k) eqn:E1; [apply Z.eqb_eq in E1; contradiction|]. rewrite Z.eqb_refl.
    destruct (zget l' k) as [b'|] eqn:E2; [|reflexivity].
    exfalso. apply Hm. apply (In_keys l' k b'). apply zget_In. exact E2.
  - destruct (zmem m seen); [reflexivity|].
    cbn [incident flat_map app]. destruct (n =? k) eqn:E1; [apply Z.eqb_eq in E1; contradiction|].
    rewrite Z.eqb_sym, E. reflexivity.
Qed.

Lemma incident_earlier k : forall pre seen, ~ In k seen -> ~ In k (keys pre) -> (forall n l, In (n, l) pre -> NoDup (keys l)) ->
  incident k (bonds_go pre seen) = earlier_of k pre.
Proof.
  induction pre as [|[n l] r IH]; intros seen Hs Hk Hrows; [reflexivity|].
  cbn [keys map fst] in Hk. assert (Hnk : n <> k) by (intros ->; apply Hk; left; reflexivity).
  cbn [bonds_go earlier_of flat_map fst snd]. rewrite incident_app.
  rewrite (row_other k n l (n :: seen) Hnk); [|intros [H|H]; [contradiction|apply Hs; exact H]|apply (Hrows n l); left; reflexivity].
  f_equal. apply IH; [intros [H|H]; [contradiction|apply Hs; exact H]|intros H; apply Hk; right; exact H|intros n' l' H; apply (Hrows n' l'); right; exact H].
Qed.

Lemma bonds_go_app : forall a b seen, bonds_go (a ++ b) seen = bonds_go a seen ++ bonds_go b (rev (keys a) ++ seen).
Proof.
  induction a as [|[n l] r IH]; intros b seen; [reflexivity|].
  cbn [app bonds_go keys map fst rev]. rewrite IH, <- !app_assoc. cbn [app]. reflexivity.
Qed.

Lemma filter_split {A} (f : A -> bool) (l : list A) : Permutation l (filter f l ++ filter (fun x => negb (f x)) l).
Proof.
  induction l as [|x r IH]; [constructor|]. cbn [filter]. destruct (f x); cbn [negb app].
  - constructor. exact IH.
  - apply Permutation_cons_app. exact IH.
Qed.

Lemma NoDup_plain l : NoDup (keys l) -> NoDup (plain l).
Proof.
  intros H. unfold plain. apply (NoDup_map_inv fst). rewrite map_map. cbn [fst]. exact H.
Qed.

Lemma NoDup_filter_keys {V} (f : Z * V -> bool) (l : list (Z * V)) : NoDup (keys l) -> NoDup (keys (filter f l)).
Proof.
  induction l as [|x r IH]; intros H; [constructor|]. cbn [keys map] in H. inversion H as [|? ? Hx Hr]; subst.
  cbn [filter]. destruct (f x); [|apply IH; exact Hr].
  cbn [keys map]. constructor; [|apply IH; exact Hr].
  intros Hin. apply Hx. unfold keys in *. apply in_map_iff in Hin as (y & Hy & Hin). apply filter_In in Hin as [Hin _].
  apply in_map_iff. exists y. split; assumption.
Qed.

Lemma NoDup_earlier k : forall pre, NoDup (keys pre) -> NoDup (map fst (earlier_of k pre)).
Proof.
  induction pre as [|[n l] r IH]; intros H; [constructor|]. cbn [keys map fst] in H. inversion H as [|? ? Hn Hr]; subst.
  cbn [earlier_of flat_map fst snd]. fold (earlier_of k r).
  destruct (zget l k); cbn [app map fst]; [|apply IH; exact Hr].
  constructor; [|apply IH; exact Hr].
  intros Hin. apply Hn. apply in_map_iff in Hin as ([m o] & Hm & Hin). cbn in Hm. subst m.
  unfold earlier_of in Hin. apply in_flat_map in Hin as ([n' l'] & Hin' & Hx). cbn [fst snd] in Hx.
  destruct (zget l' k); [|contradiction]. destruct Hx as [Hx|[]]. injection Hx as -> _. apply (In_keys r n l' Hin').
Qed.

Lemma NoDup_app_l {A} (a b : list A) : NoDup (a ++ b) -> NoDup a.
Proof.
  induction a as [|x r IH]; intros H; [constructor|]. cbn [app] in H. inversion H as [|? ? Hx Hr]; subst.
  constructor; [intros Hin; apply Hx; apply in_or_app; left; exact Hin|apply IH; exact Hr].
Qed.

(* ---- the theorem ---- *)
Theorem bonds_adjacency : forall g, WF (m_adj g) -> forall k, In k (keys (m_adj g)) ->
  Permutation (plain (nbrs g k)) (incident k (bonds_of g)).
Proof.
  intros g W k Hk. destruct W as [Wk Wr Wl Ws].
  unfold keys in Hk. apply in_map_iff in Hk as ([k' lk] & E & Hin). cbn in E. subst k'.
  assert (Hn : nbrs g k = lk) by (unfold nbrs; rewrite (zget_of_In (m_adj g) k lk Wk Hin); reflexivity).
  rewrite Hn. unfold bonds_of.
  destruct (in_split _ _ Hin) as (pre & post & Eadj). rewrite Eadj in *.
  assert (Hkeys : keys (pre ++ (k, lk) :: post) = keys pre ++ k :: keys post) by (unfold keys; rewrite map_app; reflexivity).
  rewrite Hkeys in Wk. pose proof (NoDup_remove_2 _ _ _ Wk) as Hnot.
  assert (Hpre : ~ In k (keys pre)) by (intros H; apply Hnot; apply in_or_app; left; exact H).
  assert (Hpost : ~ In k (keys post)) by (intros H; apply Hnot; apply in_or_app; right; exact H).
  rewrite bonds_go_app. cbn [bonds_go]. rewrite !incident_app, app_nil_r.
  rewrite (incident_earlier k pre []); [|intros []|exact Hpre|intros n l H; apply (Wr n l); apply in_or_app; left; exact H].
  rewrite (incident_later k post); [|left; reflexivity|exact Hpost]. rewrite app_nil_r.
  rewrite (incident_own k lk); [|intros m b H; apply (Wl k lk m b Hin H)].
  (* the neighbours of k split into those whose row comes before k's and the others *)
  set (early := fun mb : Z * bond => zmem (fst mb) (keys pre)).
  assert (Hfilter : filter (fun mb => negb (zmem (fst mb) (k :: rev (keys pre)))) lk = filter (fun mb => negb (early mb)) lk).
  { apply filter_ext_in. intros [m b] Hm. unfold early. cbn [fst]. f_equal.
    destruct (zmem m (keys pre)) eqn:E1.
    - apply zmem_In. right. apply in_rev. rewrite rev_involutive. apply zmem_In. exact E1.
    - apply zmem_false. intros [H|H]; [apply (Wl k lk m b Hin Hm); symmetry; exact H|].
      apply zmem_false in E1. apply E1. apply in_rev in H. exact H. }
  rewrite Hfilter.
  transitivity (plain (filter early lk) ++ plain (filter (fun mb => negb (early mb)) lk)).
  { unfold plain. rewrite <- map_app. apply Permutation_map. apply filter_split. }
  apply Permutation_app_tail.
  apply NoDup_Permutation.
  - apply NoDup_plain. apply NoDup_filter_keys. apply (Wr k lk Hin).
  - apply (NoDup_map_inv fst). apply NoDup_earlier. apply (NoDup_app_l _ _ Wk).
  - intros [m o]. split.
    + (* a neighbour m of k with an earlier row: that row lists k with the same order *)
      intros H. unfold plain in H. apply in_map_iff in H as ([m' b] & E & H). cbn in E. injection E as -> <-.
      apply filter_In in H as [Hb He]. unfold early in He. cbn [fst] in He. apply zmem_In in He.
      unfold keys in He. apply in_map_iff in He as ([m' l] & E & Hl). cbn in E. subst m'.
      destruct (Ws k lk m b Hin Hb) as (l' & b' & Hl' & Hb' & Ho).
      assert (l' = l) as -> by (apply (NoDup_keys_fun (pre ++ (k, lk) :: post) m l' l); [rewrite Hkeys; exact Wk|exact Hl'|apply in_or_app; left; exact Hl]).
      unfold earlier_of. apply in_flat_map. exists (m, l). split; [exact Hl|]. cbn [fst snd].
      rewrite (zget_of_In l k b'); [left; rewrite Ho; reflexivity|apply (Wr m l Hl')|exact Hb'].
    + intros H. unfold earlier_of in H. apply in_flat_map in H as ([n l] & Hl & H). cbn [fst snd] in H.
      destruct (zget l k) as [b|] eqn:E; [|contradiction]. destruct H as [H|[]]. injection H as -> <-.
      assert (Hl' : In (m, l) (pre ++ (k, lk) :: post)) by (apply in_or_app; left; exact Hl).
      destruct (Ws m l k b Hl' (zget_In l k b E)) as (l' & b' & Hk' & Hb' & Ho).
      assert (l' = lk) as -> by (apply (NoDup_keys_fun (pre ++ (k, lk) :: post) k l' lk); [rewrite Hkeys; exact Wk|exact Hk'|exact Hin]).
      unfold plain. apply in_map_iff. exists (m, b'). split; [cbn; rewrite Ho; reflexivity|].
      apply filter_In. split; [exact Hb'|]. unfold early. cbn [fst]. apply zmem_In. apply (In_keys pre m l Hl).
Qed.

(* ---------------------------------------------------------------------------------------------------------------- *)
(* the boolean well-formedness test of Model.Graph (keys of atoms = keys of adjacency, distinct numbers, distinct neighbours, no
   self-loop, every neighbour is an atom and lists the atom back with an equal bond) gives the propositions used above *)
Lemma nodup_z_NoDup' l : nodup_z l = true -> NoDup l.
Proof.
  induction l as [|x r IH]; intros H; [constructor|]. cbn [nodup_z] in H. apply andb_true_iff in H as [H1 H2].
  constructor; [|apply IH; exact H2]. apply negb_true_iff in H1. apply zmem_false. exact H1.
Qed.

Lemma list_eqb_Z_eq' a : forall b, list_eqb Z.eqb a b = true -> a = b.
Proof.
  induction a as [|x a IH]; intros [|y b] H; try discriminate; [reflexivity|].
  cbn in H. apply andb_true_iff in H as [H1 H2]. apply Z.eqb_eq in H1. subst. f_equal. apply IH. exact H2.
Qed.

Theorem wf_mol_WF : forall g, wf_mol g = true ->
  WF (m_adj g) /\ keys (m_adj g) = ids g /\ NoDup (ids g) /\
  (forall n l m b, In (n, l) (m_adj g) -> In (m, b) l -> In m (ids g)).
Proof.
  intros g H. unfold wf_mol in H. apply andb_true_iff in H as [H Hrows]. apply andb_true_iff in H as [Hk Hn].
  apply list_eqb_Z_eq' in Hk. apply nodup_z_NoDup' in Hn. rewrite forallb_forall in Hrows.
  assert (Hkeys : keys (m_adj g) = ids g) by (unfold ids; symmetry; exact Hk).
  assert (Wk : NoDup (keys (m_adj g))) by (rewrite Hkeys; exact Hn).
  assert (Hrow : forall n l m b, In (n, l) (m_adj g) -> In (m, b) l ->
            m <> n /\ In m (ids g) /\ exists l' b', In (m, l') (m_adj g) /\ In (n, b') l' /\ b_ord b' = b_ord b).
  { intros n l m b Hl Hb. specialize (Hrows (n, l) Hl). cbn [fst snd] in Hrows. apply andb_true_iff in Hrows as [_ Hr].
    rewrite forallb_forall in Hr. specialize (Hr (m, b) Hb). cbn [fst snd] in Hr.
    apply andb_true_iff in Hr as [Hr Hsym]. apply andb_true_iff in Hr as [Hne Hin].
    split; [apply negb_true_iff in Hne; apply Z.eqb_neq; exact Hne|]. split; [apply zmem_In; exact Hin|].
    unfold bond_of, nbrs in Hsym. destruct (zget (m_adj g) m) as [l'|] eqn:El'; [|discriminate].
    destruct (zget l' n) as [b'|] eqn:Eb'; [|discriminate].
    exists l', b'. split; [apply zget_In; exact El'|]. split; [apply zget_In; exact Eb'|].
    unfold bond_eqb in Hsym. apply andb_true_iff in Hsym as [Ho _]. apply Z.eqb_eq in Ho. symmetry. exact Ho. }
  split; [|split; [exact Hkeys|split; [exact Hn|intros n l m b Hl Hb; apply (Hrow n l m b Hl Hb)]]].
  constructor.
  - exact Wk.
  - intros n l Hl. specialize (Hrows (n, l) Hl). cbn [fst snd] in Hrows. apply andb_true_iff in Hrows as [Hr _]. apply nodup_z_NoDup'. exact Hr.
  - intros n l m b Hl Hb. apply (Hrow n l m b Hl Hb).
  - intros n l m b Hl Hb. apply (Hrow n l m b Hl Hb).
Qed.

(* every bond data.bonds() yields is an entry of the adjacency *)
Lemma bonds_go_In : forall adj seen n m o, In (n, m, o) (bonds_go adj seen) ->
  exists l b, In (n, l) adj /\ In (m, b) l /\ o = b_ord b.
Proof.
  induction adj as [|[n0 l0] r IH]; intros seen n m o H; [contradiction|].
  cbn [bonds_go] in H. apply in_app_or in H as [H|H].
  - unfold row_bonds in H. apply in_flat_map in H as ([m' b] & Hb & H). cbn [fst snd] in H.
    destruct (zmem m' (n0 :: seen)); [contradiction|]. destruct H as [H|[]]. injection H as -> -> <-.
    exists l0, b. split; [left; reflexivity|]. split; [exact Hb|reflexivity].
  - destruct (IH _ n m o H) as (l & b & Hl & Hb & Ho). exists l, b. split; [right; exact Hl|]. split; assumption.
Qed.

Theorem bonds_of_wf : forall g, wf_mol g = true ->
  (forall k, In k (ids g) -> Permutation (plain (nbrs g k)) (incident k (bonds_of g))) /\
  (forall n m o, In (n, m, o) (bonds_of g) -> In n (ids g) /\ In m (ids g) /\ n <> m /\
                                              exists b, bond_of g n m = Some b /\ b_ord b = o).
Proof.
  intros g H. destruct (wf_mol_WF g H) as (W & Hkeys & Hn & Hin). split.
  - intros k Hk. apply (bonds_adjacency g W). rewrite Hkeys. exact Hk.
  - intros n m o Hb. destruct (bonds_go_In _ _ n m o Hb) as (l & b & Hl & Hmb & ->).
    split; [rewrite <- Hkeys; apply (In_keys (m_adj g) n l Hl)|]. split; [apply (Hin n l m b Hl Hmb)|].
    split; [intros E; apply (wf_loop _ W n l m b Hl Hmb); symmetry; exact E|].
    exists b. split; [|reflexivity]. unfold bond_of, nbrs. rewrite (zget_of_In (m_adj g) n l (wf_keys _ W) Hl).
    apply zget_of_In; [apply (wf_rows _ W n l Hl)|exact Hmb].
Qed.

(* non-vacuity: isopropylamine with an explicit hydrogen, atoms in the order 3, 7, 9, 4, 5 *)
Example bonds_of_example :
  let sb := mkBond 1 None in
  let g := mkMol [(3, mkAtom 7 None 0 false (Some 2) None); (7, mkAtom 6 None 0 false (Some 0) None);
                  (9, mkAtom 6 None 0 false (Some 3) None); (4, mkAtom 6 None 0 false (Some 3) None);
                  (5, mkAtom 1 None 0 false (Some 0) None)]
                 [(3, [(7, sb)]); (7, [(3, sb); (9, sb); (4, sb); (5, sb)]); (9, [(7, sb)]); (4, [(7, sb)]); (5, [(7, sb)])] in
  wf_mol g = true /\ bonds_of g = [(3, 7, 1); (7, 9, 1); (7, 4, 1); (7, 5, 1)].
Proof. vm_compute. split; reflexivity. Qed.

(* ---------------------------------------------------------------------------------------------------------------- *)
(* the end-to-end theorem with data.bonds() COMPUTED from the adjacency: the hypotheses "bonds join existing, different atoms" and
   "the adjacency lists every bond of data.bonds() at both ends" are no longer assumed but derived from the well-formedness test *)
From Coq Require Import String.
From Model Require Import PeriodicTable Stereo Rdkit.
From Gen Require Import Elements RdkitTables StereoTables.
From Proofs Require Import StereoProofs RdkitProofs RdkitExt RdkitExt4.

Theorem tetrahedra_end_to_end_wf : forall (symbol : Z -> string),
  (forall z e, from_symbol (symbol z) = Some e -> e_num e = z) ->
  forall keep atoms adj lab lab' nb impls xy,
  let nums := map fst atoms in
  let rho := rho_of nums in
  let g := mkMol (graph_atoms atoms lab) adj in
  let B := bonds_of g in
  let atoms' := expect_atoms keep 0 atoms impls xy in
  wf_mol g = true -> atoms_ok symbol atoms ->
  (forall n m b, bond_of g n m = Some b -> In (b_ord b) [1; 2; 3; 4; 8]) ->
  (forall i n, nth_error nums i = Some n -> lab n <> None -> stereogenic_entry g n <> None ->
     NoDup (nbr_ids g n) /\ Permutation (nbr_ids g n) (env_old nums nb (Z.of_nat i)) /\
     (forall j, In j (nb (Z.of_nat i)) -> 0 <= j < Z.of_nat (List.length nums))) ->
  exists ras rbs bonds', to_mol keep (atoms, B) = Ok (ras, rbs) /\
    from_mol symbol impls xy (ras, rbs) = Ok (atoms', bonds') /\
    let g' := mkMol (graph_atoms atoms' lab') (build_adj (map rho nums) bonds') in
    exists tags, to_tags (is_hydrogen g) (stereogenic_tetrahedrons_of g) nums nb 0 (map (fun n => (n, lab n)) nums) = Ok tags /\
      exists labels', from_tags (is_hydrogen g') (stereogenic_tetrahedrons_of g') nb 0 (map tag_name tags) = Ok labels' /\
        Forall2 (label_image (is_hydrogen g') (stereogenic_tetrahedrons_of g) (stereogenic_tetrahedrons_of g') rho)
                (map (fun n => (n, lab n)) nums) labels'.
Proof.
  intros symbol Hsym keep atoms adj lab lab' nb impls xy nums rho g B atoms' Hwf Hatoms Hord Hrd.
  destruct (bonds_of_wf g Hwf) as [Hadj Hbonds].
  destruct (wf_mol_WF g Hwf) as (_ & _ & Hnd & _).
  assert (Hids : ids g = nums) by (unfold ids, g; cbn [m_atoms]; apply keys_graph_atoms).
  rewrite Hids in *.
  apply (tetrahedra_end_to_end symbol Hsym keep atoms adj B lab lab' nb impls xy Hnd Hatoms).
  - intros n m o Hin. destruct (Hbonds n m o Hin) as (H1 & H2 & H3 & b & Hb & <-).
    split; [exact H1|]. split; [exact H2|]. split; [apply (Hord n m b Hb)|exact H3].
  - intros k Hk. apply Hadj. exact Hk.
  - exact Hrd.
Qed.
