(* C02, writer_wellformed, part 8: parentheses are balanced in the token list of ANY traversal (invariant of fl_step: a side
   chain entry holds "(" followed by a balanced list, every other entry a balanced list, the bottom entry is a main chain). *)
From Coq Require Import ZArith List Bool Lia.
From Model Require Import PyBase Graph Writer.
From Proofs Require Import WriterWfFlatten.
Import ListNotations.
Open Scope Z_scope.

Fixpoint depth_run (d : nat) (l : list tok) : option nat :=
  match l with
  | [] => Some d
  | TOpen :: r => depth_run (S d) r
  | TClose :: r => match d with O => None | S d' => depth_run d' r end
  | _ :: r => depth_run d r
  end.
Definition balanced (l : list tok) : Prop := depth_run 0 l = Some O.

Lemma depth_run_app a : forall d b, depth_run d (a ++ b) = match depth_run d a with Some e => depth_run e b | None => None end.
Proof.
  induction a as [|t a IH]; intros d b; cbn [app depth_run]; [reflexivity|].
  destruct t; try apply IH. destruct d; [reflexivity | apply IH].
Qed.

Lemma depth_run_shift l : forall d e k, depth_run d l = Some e -> depth_run (d + k) l = Some (e + k)%nat.
Proof.
  induction l as [|t l IH]; intros d e k H; cbn [depth_run] in *.
  - inversion H. reflexivity.
  - destruct t; try (apply IH; exact H).
    + apply (IH (S d) e k H).
    + destruct d; [discriminate|]. cbn [Nat.add]. apply (IH d e k H).
Qed.

Lemma balanced_app a b : balanced a -> balanced b -> balanced (a ++ b).
Proof. unfold balanced. intros Ha Hb. rewrite depth_run_app, Ha. exact Hb. Qed.

Lemma balanced_wrap s : balanced s -> balanced (TOpen :: s ++ [TClose]).
Proof.
  unfold balanced. intros H. cbn [depth_run]. rewrite depth_run_app.
  pose proof (depth_run_shift s 0 0 1 H) as H1. cbn [Nat.add] in H1. rewrite H1. reflexivity.
Qed.

(* an entry: main chain (closure 0) balanced; side chain: "(" then balanced *)
Definition entry_ok (e : fl_entry) : Prop :=
  if snd (fst e) =? 0 then balanced (snd e) else exists s, snd e = TOpen :: s /\ balanced s.

Lemma entry_ok_app e add : entry_ok e -> balanced add -> entry_ok (fst e, snd e ++ add).
Proof.
  unfold entry_ok. cbn [fst snd]. destruct (snd (fst e) =? 0).
  - intros H Ha. apply balanced_app; assumption.
  - intros [s [E H]] Ha. exists (s ++ add). split; [rewrite E; reflexivity | apply balanced_app; assumption].
Qed.

Definition clos (st : list fl_entry) : list Z := map (fun e : fl_entry => snd (fst e)) st.
Definition bottom_main (st : list fl_entry) : Prop := last (clos st) 0 = 0.

Record PI (st : list fl_entry) : Prop := mkPI {
  pi_entries : Forall entry_ok st;
  pi_shaped : entries_shaped st;
  pi_bottom : bottom_main st
}.

Lemma upd_at_entry_ok i add : forall st, Forall entry_ok st -> balanced add ->
  Forall entry_ok (upd_at i (fun e : fl_entry => (fst e, snd e ++ add)) st).
Proof.
  induction i as [|i IH]; intros [|e st] Hst Ha; cbn [upd_at]; try exact Hst; inversion Hst; subst; constructor; auto.
  - apply entry_ok_app; assumption.
Qed.

Lemma clos_fst : forall st st' : list fl_entry, map fst st = map fst st' -> clos st = clos st'.
Proof.
  induction st as [|x st IH]; intros [|x' st'] H; cbn [map clos] in *; try discriminate; [reflexivity|].
  injection H as H1 H2. rewrite H1. f_equal. apply IH. exact H2.
Qed.

Lemma bottom_main_fst st st' : map fst st = map fst st' -> bottom_main st -> bottom_main st'.
Proof. intros E. unfold bottom_main. rewrite (clos_fst st st' E). tauto. Qed.

Lemma upd_at_fst i add : forall st : list fl_entry, map fst (upd_at i (fun e : fl_entry => (fst e, snd e ++ add)) st) = map fst st.
Proof. induction i as [|i IH]; intros [|e st]; cbn [upd_at map]; try reflexivity. rewrite IH. reflexivity. Qed.

Lemma last_cons (x : Z) l d : l <> [] -> last (x :: l) d = last l d.
Proof. destruct l; [contradiction | reflexivity]. Qed.

Lemma bottom_main_cons x st : st <> [] -> bottom_main (x :: st) <-> bottom_main st.
Proof. intros Hne. unfold bottom_main, clos. cbn [map]. rewrite last_cons; [tauto | destruct st; [contradiction | discriminate]]. Qed.

Lemma bottom_main_app pre st : st <> [] -> bottom_main st -> bottom_main (pre ++ st).
Proof.
  induction pre as [|x pre IH]; intros Hne H; [exact H|]. cbn [app]. apply bottom_main_cons; [|apply IH; assumption].
  destruct pre; [exact Hne | discriminate].
Qed.

Lemma fl_step_PI edges st : PI st ->
  match fl_step edges st with
  | FlCont st' => PI st'
  | FlDone r => balanced r
  | FlErr _ => True
  end.
Proof.
  intros [He Hs Hb]. pose proof (fl_step_shaped edges st Hs) as Hsh.
  unfold fl_step in *. destruct st as [|[[tail closure] smi] rest]; [exact I|].
  inversion He as [|? ? Hsmi Hrest]. subst. inversion Hs as [|? ? Hshape _]. subst. cbn [snd] in Hshape.
  destruct (zget edges tail) as [children|].
  - destruct (rev children) as [|last revfront]; [exact I|].
    destruct (1 <? Z.of_nat (List.length children)).
    + constructor; [|exact Hsh|].
      * apply Forall_app. split.
        -- apply Forall_forall. intros e Hin. apply in_map_iff in Hin. destruct Hin as [c [<- _]].
           unfold entry_ok. cbn [fst snd].
           destruct (Z.of_nat (List.length ((tail, closure, smi) :: rest)) =? 0) eqn:E; [apply Z.eqb_eq in E; cbn [List.length] in E; lia|].
           eexists. split; reflexivity.
        -- constructor; [reflexivity | exact He].
      * change (map (fun c : Z => (c, Z.of_nat (List.length ((tail, closure, smi) :: rest)), [TOpen; TBond tail c; TAtom c])) (rev revfront) ++
                (last, 0, [TBond tail last; TAtom last]) :: (tail, closure, smi) :: rest)
          with (map (fun c : Z => (c, Z.of_nat (List.length ((tail, closure, smi) :: rest)), [TOpen; TBond tail c; TAtom c])) (rev revfront) ++
                [(last, 0, [TBond tail last; TAtom last])] ++ (tail, closure, smi) :: rest).
        rewrite app_assoc. apply bottom_main_app; [discriminate | exact Hb].
    + constructor; [|exact Hsh|].
      * constructor; [|exact Hrest]. apply (entry_ok_app (tail, closure, smi)); [exact Hsmi | reflexivity].
      * destruct rest as [|y r]; [exact Hb|]. apply bottom_main_cons; [discriminate|]. apply (bottom_main_cons (tail, closure, smi)) in Hb; [exact Hb | discriminate].
  - destruct (negb (closure =? 0)) eqn:Ecl.
    + destruct (second_last_is_open smi) as [[|]|] eqn:E; [exfalso; exact (shaped_second_last smi Hshape E) | | exact I].
      destruct (closure - 1 <? Z.of_nat (List.length rest)); [|exact I].
      apply negb_true_iff in Ecl. unfold entry_ok in Hsmi. cbn [fst snd] in Hsmi. rewrite Ecl in Hsmi. destruct Hsmi as [s [Es Hbs]].
      constructor; [|exact Hsh|].
      * apply upd_at_entry_ok; [exact Hrest|]. rewrite Es. apply (balanced_wrap s Hbs).
      * destruct rest as [|y r].
        { cbn [List.length]. destruct (0 - 1 - Z.to_nat (closure - 1))%nat; reflexivity. }
        apply (bottom_main_fst (y :: r)); [symmetry; apply upd_at_fst|]. apply (bottom_main_cons (tail, closure, smi)) in Hb; [exact Hb | discriminate].
    + apply negb_false_iff in Ecl. unfold entry_ok in Hsmi. cbn [fst snd] in Hsmi. rewrite Ecl in Hsmi.
      destruct rest as [|[[t1 c1] s1] [|e2 rest']].
      * exact Hsmi.
      * inversion Hrest as [|? ? H1 _]. subst. unfold bottom_main in Hb. cbn in Hb. unfold entry_ok in H1. cbn [fst snd] in H1.
        rewrite Hb in H1. cbn in H1. apply balanced_app; assumption.
      * inversion Hrest as [|? ? H1 Hr']. subst. constructor; [|exact Hsh|].
        -- constructor; [|exact Hr']. apply (entry_ok_app (t1, c1, s1) smi H1 Hsmi).
        -- apply (bottom_main_cons (tail, closure, smi)) in Hb; [|discriminate].
           apply (bottom_main_cons (t1, c1, s1)) in Hb; [|discriminate]. apply bottom_main_cons; [discriminate | exact Hb].
Qed.

Lemma fl_run_PI edges : forall fuel st r, PI st -> fl_run fuel edges st = Ok r -> balanced r.
Proof.
  induction fuel as [|fuel IH]; intros st r Hst H; cbn [fl_run] in H; [discriminate|].
  pose proof (fl_step_PI edges st Hst) as Hs. destruct (fl_step edges st) as [st'|r'|e].
  - apply (IH st' r Hs H).
  - inversion H. subst. exact Hs.
  - discriminate.
Qed.

Theorem flatten_balanced : forall g t smi, flatten g t = Ok smi -> balanced smi.
Proof.
  intros g t smi H. unfold flatten in H. eapply fl_run_PI; [|exact H].
  constructor.
  - constructor; [reflexivity | constructor].
  - constructor; [reflexivity | constructor].
  - reflexivity.
Qed.
