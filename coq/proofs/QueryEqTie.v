(* C08 -- TIE BY TRANSLATION of the four comparison methods: the functions generated statement by statement from
   QueryElement / AnyElement / ListElement / AnyMetal.__eq__ (Gen.QueryEqBody, tools/gen_queryeq.py) equal the hand-written
   models match_q / match_any / match_list / match_metal for EVERY query and EVERY atom. *)
From Coq Require Import ZArith List Bool.
From Gen Require Import Elements QueryEqBody.
From Model Require Import PyBase PeriodicTable Query.
Import ListNotations.
Open Scope Z_scope.

Lemma tail_eq x a :
  (if nonempty (x_nb x) && negb (zmem (la_nb a) (x_nb x)) then Ok false
   else (if nonempty (x_hyb x) && negb (zmem (la_hyb a) (x_hyb x)) then Ok false
   else (if nonempty (x_rings x) then match g_rings0_truthy x with Err e_ => Err e_ | Ok c_ => if c_ then (if disjoint_z (la_rings a) (x_rings x) then Ok false
   else (if nonempty (x_h x) && negb (opt_mem (la_h a) (x_h x)) then Ok false
   else (if nonempty (x_het x) && negb (zmem (la_het a) (x_het x)) then Ok false
   else Ok true))) else (if nonempty (la_rings a) then Ok false
   else (if nonempty (x_h x) && negb (opt_mem (la_h a) (x_h x)) then Ok false
   else (if nonempty (x_het x) && negb (zmem (la_het a) (x_het x)) then Ok false
   else Ok true))) end
   else (if nonempty (x_h x) && negb (opt_mem (la_h a) (x_h x)) then Ok false
   else (if nonempty (x_het x) && negb (zmem (la_het a) (x_het x)) then Ok false
   else Ok true))))) = match_tail x a.
Proof.
  unfold match_tail, ring_step, g_rings0_truthy.
  destruct (nonempty (x_nb x) && negb (zmem (la_nb a) (x_nb x))); [reflexivity|].
  destruct (nonempty (x_hyb x) && negb (zmem (la_hyb a) (x_hyb x))); [reflexivity|].
  destruct (x_rings x) as [|r0 rs]; cbn [nonempty]; [reflexivity|].
  destruct (x_rings_set x); [reflexivity|].
  destruct (negb (r0 =? 0)); cbv iota beta.
  - destruct (disjoint_z (la_rings a) (r0 :: rs)); reflexivity.
  - destruct (nonempty (la_rings a)); reflexivity.
Qed.

Theorem g_eq_QueryElement_eq num iso x a : g_eq_QueryElement num iso x a = match_q num iso x a.
Proof.
  unfold g_eq_QueryElement, match_q, isinstance_Element. cbn [negb].
  destruct (negb (num =? la_num a)); [reflexivity|].
  destruct (negb (x_chg x =? la_chg a)); [reflexivity|].
  destruct (negb (Bool.eqb (x_rad x) (la_rad a))); [reflexivity|].
  destruct (iso_truthy iso && negb (option_eqb Z.eqb iso (la_iso a))); [reflexivity|].
  apply tail_eq.
Qed.
Theorem g_eq_AnyElement_eq x a : g_eq_AnyElement x a = match_any x a.
Proof.
  unfold g_eq_AnyElement, match_any, isinstance_Element. cbn [negb].
  destruct (negb (x_chg x =? la_chg a)); [reflexivity|].
  destruct (negb (Bool.eqb (x_rad x) (la_rad a))); [reflexivity|].
  apply tail_eq.
Qed.
Theorem g_eq_ListElement_eq nums x a : g_eq_ListElement nums x a = match_list nums x a.
Proof.
  unfold g_eq_ListElement, match_list, isinstance_Element. cbn [negb].
  destruct (negb (zmem (la_num a) nums)); [reflexivity|].
  destruct (negb (x_chg x =? la_chg a)); [reflexivity|].
  destruct (negb (Bool.eqb (x_rad x) (la_rad a))); [reflexivity|].
  apply tail_eq.
Qed.
Theorem g_eq_AnyMetal_eq nb hyb a : g_eq_AnyMetal nb hyb a = match_metal nb hyb a.
Proof.
  unfold g_eq_AnyMetal, match_metal, non_metal, isinstance_Element, g_is_forming_single_bonds, g_isinstance_GroupXVIII. cbn [negb].
  destruct (from_number (la_num a)) as [e|]; reflexivity.
Qed.

(* the translated methods as one function of the query atom *)
Definition g_match_atom (q : qatom) (a : latom) : pyres bool :=
  match q with
  | QElem num iso x => g_eq_QueryElement num iso x a
  | QAny x => g_eq_AnyElement x a
  | QList nums x => g_eq_ListElement nums x a
  | QMetal nb hyb => g_eq_AnyMetal nb hyb a
  end.
Theorem g_match_atom_eq q a : g_match_atom q a = match_atom q a.
Proof.
  destruct q; cbn [g_match_atom match_atom];
    [apply g_eq_QueryElement_eq | apply g_eq_AnyElement_eq | apply g_eq_ListElement_eq | apply g_eq_AnyMetal_eq].
Qed.
Lemma g_match_atom_example :
  g_match_atom (QElem 7 None (mkQX 1 false [3] [] [1] [] [] false)) (mkLA 7 None 1 false 3 1 (Some 1) 0 []) = Ok true /\
  g_match_atom (QElem 7 None (mkQX 1 false [3] [] [1] [] [] false)) (mkLA 7 None 1 false 4 1 (Some 0) 0 []) = Ok false /\
  g_match_atom (QList [17; 35] (mkQX 0 false [] [] [] [] [5; 6] false)) (mkLA 6 None 0 false 2 1 (Some 2) 0 [6]) = Ok false /\
  g_match_atom (QAny (mkQX 0 false [] [] [] [] [0] false)) (mkLA 6 None 0 false 2 1 (Some 2) 0 [6]) = Ok false /\
  g_match_atom (QMetal [] []) (mkLA 26 None 2 false 0 1 (Some 0) 0 []) = Ok true /\
  g_match_atom (QAny (mkQX 0 false [] [] [] [] [5] true)) (mkLA 6 None 0 false 2 1 (Some 2) 0 [5]) = Err TypeError.
Proof. vm_compute. repeat split; reflexivity. Qed.
