(* C07 round 3: other.connected_components moves INTO the model.  _connected_components is modelled and proved by C06
   (Model.Rings.components_order, Proofs.RingsProofs.components_partition: for ANY pop order of the atom set the result is the
   partition into connectivity classes).  Here: the hypotheses of the C07 wrapper theorems (tcomps_ok, tcomps_connected) are
   CONSEQUENCES for the model's components, they survive a rearrangement inside every component (Python hands over SETS), and the
   whole-call theorems are restated without any hypothesis on the components. *)
From Coq Require Import ZArith List Bool Lia Permutation.
From Model Require Import PyBase Graph Rings Iso.
From Proofs Require RingsProofs.
From Proofs Require Import IsoLazyProofs IsoMatchProofs IsoCompileProofs IsoProofs IsoExt IsoAuto.
Import ListNotations.
Local Open Scope Z_scope.

(* the plain graph under a dict-of-dicts adjacency *)
Definition adj_graph {W : Type} (bonds : list (Z * list (Z * W))) : graph := map (fun nl => (fst nl, keys (snd nl))) bonds.
(* other.connected_components, the pop order of the atom set being [order] *)
Definition cc_of {W : Type} (bonds : list (Z * list (Z * W))) (order : list Z) : list (list Z) := components_order (adj_graph bonds) order.

Section Bridge.
  Context {V W : Type}.
  Variable atoms : list (Z * V).
  Variable bonds : list (Z * list (Z * W)).
  Hypothesis wf : wf_adj atoms bonds.

  Lemma keys_adj_graph : keys (adj_graph bonds) = keys bonds.
  Proof. unfold adj_graph, keys. rewrite map_map. reflexivity. Qed.

  Lemma zget_adj_graph n : zget (adj_graph bonds) n = option_map (@keys Z W) (zget bonds n).
  Proof. clear wf. unfold adj_graph. induction bonds as [|[k row] r IH]; [reflexivity|]. cbn. destruct (n =? k); [reflexivity | exact IH]. Qed.

  Lemma gnbrs_adj_graph n : gnbrs (adj_graph bonds) n = keys (adj_get bonds n).
  Proof. unfold gnbrs, adj_get. rewrite zget_adj_graph. destruct (zget bonds n); reflexivity. Qed.

  Lemma wf_gwf : RingsProofs.gwf (adj_graph bonds).
  Proof.
    pose proof wf as (_ & Hnb & Hk & Hrow & Hnbr & _). split; [rewrite keys_adj_graph; exact Hnb|].
    intros n ms Hin. unfold adj_graph in Hin. apply in_map_iff in Hin. destruct Hin as ([k row] & E & Hin). cbn in E. injection E as -> <-.
    assert (Eadj : adj_get bonds n = row) by (unfold adj_get; rewrite (In_zget bonds n row Hnb Hin); reflexivity).
    split; [rewrite <- Eadj; apply Hrow|]. intros m Hm. rewrite <- Eadj in Hm. destruct (Hnbr n m Hm) as [Hne Hat].
    split; [exact Hne|]. split; [rewrite keys_adj_graph; apply Hk; exact Hat|].
    rewrite gnbrs_adj_graph. apply (wf_adj_sym atoms bonds wf n m Hm).
  Qed.

  Lemma reach_iff a b : RingsProofs.reach (adj_graph bonds) a b <-> reach bonds a b.
  Proof.
    split; intros H.
    - induction H as [|a b c _ IH Hc]; [apply reach_refl|]. rewrite gnbrs_adj_graph in Hc. apply (reach_snoc bonds a b c IH Hc).
    - induction H as [|x y z Hxy _ IH]; [constructor|].
      apply (RingsProofs.reach_trans _ x y z); [|exact IH]. apply (RingsProofs.reach_step _ x x y); [constructor | rewrite gnbrs_adj_graph; exact Hxy].
  Qed.

  (* C06's theorem in C07's vocabulary *)
  Theorem cc_hyps : forall order, (forall x, In x order <-> In x (keys bonds)) ->
    tcomps_ok V W atoms bonds (cc_of bonds order) /\ tcomps_connected W bonds (cc_of bonds order) /\
    (forall c, In c (cc_of bonds order) -> c <> []).
  Proof.
    intros order Ho. pose proof wf as (_ & _ & Hk & _).
    assert (Ho' : forall x, In x order <-> In x (keys (adj_graph bonds))) by (intros x; rewrite keys_adj_graph; apply Ho).
    destruct (RingsProofs.components_partition (adj_graph bonds) order wf_gwf Ho') as (cs & E & P1 & P2 & P3).
    unfold connected_components_order in E. destruct (closed_b (adj_graph bonds)); [|discriminate]. injection E as <-. fold (cc_of bonds order) in *.
    assert (Hne : forall c, In c (cc_of bonds order) -> c <> []) by (intros c Hc; apply (P3 c Hc)).
    split; [|split; [|exact Hne]].
    - unfold tcomps_ok. split; [|split; [|split]].
      + intros y Hy. apply P1. rewrite keys_adj_graph. apply Hk. exact Hy.
      + intros cand y m Hc Hy Hm. destruct (P3 cand Hc) as [_ Hcl]. destruct (Hcl y Hy) as [_ Hr]. apply Hr.
        apply (RingsProofs.reach_step _ y y m); [constructor | rewrite gnbrs_adj_graph; exact Hm].
      + apply NoDup_concat_nonempty; assumption.
      + intros c1 c2 y H1 H2 Hy1 Hy2. apply (concat_NoDup_unique (fun l : list Z => l) (cc_of bonds order) c1 c2 y); try assumption.
        rewrite map_id. exact P2.
    - intros cand y1 y2 Hc H1 H2. apply reach_iff. destruct (P3 cand Hc) as [_ Hcl]. apply (Hcl y1 H1). exact H2.
  Qed.
End Bridge.

(* ---------- Python hands over a list of SETS: any rearrangement inside the components keeps the hypotheses ---------- *)
Definition seteq (a b : list Z) : Prop := forall x, In x a <-> In x b.
Definition apart (a b : list Z) : Prop := a <> b /\ forall y, In y a -> In y b -> False.

Lemma apart_of_ok {V W} (atoms : list (Z * V)) (bonds : list (Z * list (Z * W))) tc : tcomps_ok V W atoms bonds tc -> ForallOrdPairs apart tc.
Proof.
  intros (_ & _ & Tn & Td). assert (H : forall a b, In a tc -> In b tc -> a <> b -> forall y, In y a -> In y b -> False).
  { intros a b Ha Hb Hne y H1 H2. apply Hne. apply (Td a b y Ha Hb H1 H2). }
  clear Td. induction tc as [|a r IH]; [constructor|]. inversion Tn as [|? ? Ha Hr]; subst. constructor.
  - apply Forall_forall. intros b Hb. assert (Hne : a <> b) by (intros ->; contradiction).
    split; [exact Hne | apply (H a b (or_introl eq_refl) (or_intror Hb) Hne)].
  - apply (IH Hr). intros x y Hx Hy. apply H; right; assumption.
Qed.

Lemma apart_transfer : forall tc1 tc2, Forall2 seteq tc1 tc2 -> ForallOrdPairs apart tc1 -> ForallOrdPairs apart tc2.
Proof.
  induction 1 as [|a a' r r' Ha F IH]; intros H; [constructor|]. inversion H as [|? ? Hh Ht]; subst. constructor; [|apply IH; exact Ht].
  apply Forall_forall. intros b' Hb'. destruct (Forall2_In_r _ _ _ b' F Hb') as (b & Hb & Rb). rewrite Forall_forall in Hh.
  destruct (Hh b Hb) as [Hne Hd]. split.
  - intros ->. apply Hne.
    assert (Hab : forall y, In y a -> False) by (intros y Hy; apply (Hd y Hy); apply Rb; apply Ha; exact Hy).
    assert (Hba : forall y, In y b -> False) by (intros y Hy; apply (Hd y); [apply Ha; apply Rb; exact Hy | exact Hy]).
    destruct a as [|x a0]; [|exfalso; apply (Hab x); left; reflexivity]. destruct b as [|x b0]; [reflexivity | exfalso; apply (Hba x); left; reflexivity].
  - intros y H1 H2. apply (Hd y); [apply Ha; exact H1 | apply Rb; exact H2].
Qed.

Lemma apart_unique : forall tc, ForallOrdPairs apart tc -> NoDup tc /\ forall a b y, In a tc -> In b tc -> In y a -> In y b -> a = b.
Proof.
  induction 1 as [|a r Ha _ IH]; [split; [constructor | intros ? ? ? []]|]. destruct IH as [I1 I2]. rewrite Forall_forall in Ha. split.
  - constructor; [|exact I1]. intros Hin. destruct (Ha a Hin) as [Hne _]. apply Hne. reflexivity.
  - intros x y z [<-|Hx] [<-|Hy] H1 H2; [reflexivity | | | apply (I2 x y z); assumption].
    + exfalso. apply (proj2 (Ha y Hy) z H1 H2).
    + exfalso. apply (proj2 (Ha x Hx) z H2 H1).
Qed.

Theorem hyps_transfer {V W} (atoms : list (Z * V)) (bonds : list (Z * list (Z * W))) tc1 tc2 :
  Forall2 seteq tc1 tc2 -> tcomps_ok V W atoms bonds tc1 -> tcomps_connected W bonds tc1 ->
  tcomps_ok V W atoms bonds tc2 /\ tcomps_connected W bonds tc2.
Proof.
  intros F Hok Hconn. pose proof Hok as (T1 & T2 & _ & _).
  destruct (apart_unique tc2 (apart_transfer tc1 tc2 F (apart_of_ok atoms bonds tc1 Hok))) as [Tn' Td']. split.
  - unfold tcomps_ok. split; [|split; [|split; [exact Tn' | exact Td']]].
    + intros y Hy. destruct (T1 y Hy) as (c & Hc & Hin). destruct (Forall2_In_l _ _ _ c F Hc) as (c' & Hc' & R). exists c'. split; [exact Hc' | apply R; exact Hin].
    + intros c' y m Hc' Hy Hm. destruct (Forall2_In_r _ _ _ c' F Hc') as (c & Hc & R). apply R. apply (T2 c y m Hc); [apply R; exact Hy | exact Hm].
  - intros c' y1 y2 Hc' H1 H2. destruct (Forall2_In_r _ _ _ c' F Hc') as (c & Hc & R). apply (Hconn c y1 y2 Hc); apply R; assumption.
Qed.

(* boolean form of the tie, evaluated by the correspondence on what the real code returns *)
Definition cc_tieb {W : Type} (bonds : list (Z * list (Z * W))) (order : list Z) (tc : list (list Z)) : bool :=
  same_keys_z order (keys bonds) && list_eqb same_keys_z (cc_of bonds order) tc.

Lemma list_eqb_Forall2 {T} (eqb : T -> T -> bool) (R : T -> T -> Prop) : (forall a b, eqb a b = true -> R a b) ->
  forall l1 l2, list_eqb eqb l1 l2 = true -> Forall2 R l1 l2.
Proof.
  intros He. induction l1 as [|a l1 IH]; intros [|b l2] H; cbn in H; try discriminate; constructor.
  - apply andb_prop in H. apply He. apply H.
  - apply andb_prop in H. apply IH. apply H.
Qed.

Lemma cc_tieb_sound {W : Type} (bonds : list (Z * list (Z * W))) order tc : cc_tieb bonds order tc = true ->
  (forall x, In x order <-> In x (keys bonds)) /\ Forall2 seteq (cc_of bonds order) tc.
Proof.
  unfold cc_tieb. intros H. apply andb_prop in H. destruct H as [H1 H2]. split; [apply same_keys_z_iff; exact H1|].
  apply (list_eqb_Forall2 same_keys_z seteq); [|exact H2]. intros a b E. unfold seteq. apply (proj1 (same_keys_z_iff a b) E).
Qed.

(* ---------- the whole-call theorems with the components computed by the model: no hypothesis on them is left ---------- *)
Section NoComponentHypotheses.
  Variables QA A QB B : Type.
  Variable amatch : QA -> A -> bool.
  Variable bmatch : QB -> B -> bool.
  Variable q_atoms : list (Z * QA).
  Variable q_bonds : list (Z * list (Z * QB)).
  Variable o_atoms : list (Z * A).
  Variable o_bonds : list (Z * list (Z * B)).
  Hypothesis wf_q : wf_adj q_atoms q_bonds.
  Hypothesis wf_o : wf_adj o_atoms o_bonds.
  (* tc: the components as the matcher receives them -- the model's components for some pop order, each possibly rearranged *)
  Variable order : list Z.
  Variable tc : list (list Z).
  Hypothesis tie : (forall x, In x order <-> In x (keys o_bonds)) /\ Forall2 seteq (cc_of o_bonds order) tc.

  Lemma tc_hyps : tcomps_ok A B o_atoms o_bonds tc /\ tcomps_connected B o_bonds tc.
  Proof.
    destruct tie as [Ho F]. destruct (cc_hyps o_atoms o_bonds wf_o order Ho) as (H1 & H2 & _).
    apply (hyps_transfer o_atoms o_bonds _ tc F H1 H2).
  Qed.

  Theorem get_mapping_global_exact_cc :
    exists comps clo, compile_query q_atoms q_bonds = Ok (comps, clo) /\
      Permutation (concat (map (map fst4) comps)) (keys q_atoms) /\
      forall scope, exists res,
        mol_get_mapping amatch bmatch q_atoms q_bonds o_atoms o_bonds tc false scope = Ok res /\
        NoDup res /\
        forall f, In f res <-> global_embedding QA A QB B amatch bmatch q_atoms q_bonds o_atoms o_bonds tc comps scope f.
  Proof. apply (get_mapping_global_exact QA A QB B amatch bmatch q_atoms q_bonds o_atoms o_bonds tc wf_q wf_o (proj1 tc_hyps)). Qed.

  Theorem is_equal_iff_isomorphic_cc :
    exists b, is_equal amatch bmatch q_atoms q_bonds o_atoms o_bonds tc = Ok b /\
      (b = true <-> exists f, isomorphism QA A QB B amatch bmatch q_atoms q_bonds o_atoms o_bonds f).
  Proof. apply (is_equal_iff_isomorphic QA A QB B amatch bmatch q_atoms q_bonds o_atoms o_bonds tc wf_q wf_o (proj1 tc_hyps) (proj2 tc_hyps)). Qed.

  Theorem is_substructure_iff_cc : forall comps clo, compile_query q_atoms q_bonds = Ok (comps, clo) ->
    exists b, is_substructure amatch bmatch q_atoms q_bonds o_atoms o_bonds tc = Ok b /\
      (b = true <-> exists f, global_embedding QA A QB B amatch bmatch q_atoms q_bonds o_atoms o_bonds tc comps None f).
  Proof.
    intros comps clo Hc. destruct (is_substructure_iff QA A QB B amatch bmatch q_atoms q_bonds o_atoms o_bonds tc wf_q wf_o (proj1 tc_hyps) comps clo Hc) as (b & E & Hb).
    exists b. split; [exact E|]. rewrite Hb. pose proof (compile_query_spec _ _ _ _ wf_q _ _ Hc) as Hok.
    split; intros (f & Hf); exists f;
      apply (multi_embedding_iff_global QA A QB B amatch bmatch q_atoms q_bonds o_atoms o_bonds tc comps clo wf_q wf_o (proj1 tc_hyps) Hok); exact Hf.
  Qed.
End NoComponentHypotheses.

(* non-vacuity: the target of IsoProofs.example_instance, pop order 3 4 1 2: the model's components are [3;2;1] and [4]; the matcher
   receives them sorted *)
Theorem example_cc :
  cc_of ex_o_bonds [3; 4; 1; 2] = [[3; 2; 1]; [4]] /\ cc_tieb ex_o_bonds [3; 4; 1; 2] [[1; 2; 3]; [4]] = true.
Proof. split; vm_compute; reflexivity. Qed.
