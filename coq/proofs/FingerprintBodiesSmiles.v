(* C17 round 4 (continued): the translated bodies of the SMILES dictionaries linear_hash_smiles, linear_smiles_hash, morgan_hash_smiles and
   morgan_smiles_hash (Gen.FingerprintBodies) are the hand-written models of Model.LinearSmiles / Model.MorganSmiles.  With these every
   method of LinearFingerprint and MorganFingerprint (and both _atom_identifiers) is translated from the source. *)
From Coq Require Import ZArith List Bool Lia String.
From Model Require Import PyBase Graph PyHash Fingerprint FingerprintCGR LinearSmiles MorganSmiles.
From Gen Require Import FingerprintBodies.
From Proofs Require Import FingerprintProofs FingerprintBodiesProofs.
Import ListNotations.
Open Scope Z_scope.

Lemma fold_left_map_in {A B C} (f : A -> B -> A) (k : C -> B) l : forall a,
  fold_left f (map k l) a = fold_left (fun a x => f a (k x)) l a.
Proof. induction l as [|x l IH]; intros a; cbn [map fold_left]; [reflexivity|]. apply IH. Qed.

Lemma fold_left_flat_map_in {A B C} (f : A -> B -> A) (k : C -> list B) l : forall a,
  fold_left f (flat_map k l) a = fold_left (fun a x => fold_left f (k x) a) l a.
Proof. induction l as [|x l IH]; intros a; cbn [flat_map fold_left]; [reflexivity|]. rewrite fold_left_app. apply IH. Qed.

Lemma map_pair_id {A B} (l : list (A * B)) : map (fun '(k, v) => (k, v)) l = l.
Proof. induction l as [|[a b] l IH]; cbn [map]; [reflexivity|]. now rewrite IH. Qed.

(* ---------------------------------------------------------------------------------------------------- *)
(* the transposed dictionaries *)
Lemma transpose_fold d : forall out,
  fold_left (fun out '(k, sl) => fold_left (fun out s => strdict_append out s k) sl out) d out =
  fold_left (fun out ksl => fold_left (fun out s => strdict_append out s (fst ksl)) (snd ksl) out) d out.
Proof. intros out. apply fold_left_ext_in. intros a [k sl] _. reflexivity. Qed.

Theorem g_linear_smiles_hash_eq : forall d lo hi nbp, g_linear_smiles_hash d lo hi nbp = smiles_hash_of d.
Proof. intros d lo hi nbp. unfold g_linear_smiles_hash, smiles_hash_of. cbv zeta. apply transpose_fold. Qed.

Theorem g_morgan_smiles_hash_eq : forall r lo hi,
  g_morgan_smiles_hash r lo hi = match r with Ok d => Ok (smiles_hash_of d) | Err e => Err e end.
Proof.
  intros [d|e] lo hi; [|reflexivity]. unfold g_morgan_smiles_hash, smiles_hash_of. cbv zeta. f_equal. apply transpose_fold.
Qed.

(* ---------------------------------------------------------------------------------------------------- *)
(* morgan_hash_smiles *)
Lemma enumerate_fold {A} (F : nat -> list (Z * Z) -> A -> A) : forall n s ds a, 0 <= s ->
  fold_left (fun sd '(radius, hash_dict) => F (Z.to_nat radius) hash_dict sd) (combine (zrange_from s n) ds) a =
  fold_left (fun sd rd => F (fst rd) (snd rd) sd) (combine (seq (Z.to_nat s) n) ds) a.
Proof.
  induction n as [|n IH]; intros s ds a Hs; [reflexivity|].
  destruct ds as [|d ds]; [reflexivity|].
  cbn [zrange_from seq combine fold_left fst snd].
  rewrite IH by lia. replace (Z.to_nat (s + 1)) with (S (Z.to_nat s)) by lia. reflexivity.
Qed.

Theorem g_morgan_hash_smiles_ok : forall cs g ds lo hi, 1 <= lo ->
  g_morgan_hash_smiles cs g (Ok ds) lo hi = Ok (sdict_of (mhs_pairs cs g lo ds)).
Proof.
  intros cs g ds lo hi Hlo. unfold g_morgan_hash_smiles. cbv zeta. f_equal. rewrite map_pair_id.
  unfold sdict_of, mhs_pairs. rewrite fold_left_flat_map_in.
  rewrite (fold_left_ext_in
             (fun smiles_dict '(radius, hash_dict) =>
                fold_left (fun smiles_dict '(atom_v, morgan_hash) => sdict_add smiles_dict morgan_hash (cs g (ball g atom_v (Z.to_nat radius))))
                          hash_dict smiles_dict)
             (fun sd '(radius, hash_dict) =>
                (fun (r : nat) (hd : list (Z * Z)) (sd : list (Z * list string)) =>
                   fold_left (fun d kv => sdict_add d (fst kv) (snd kv)) (mhs_level cs g r hd) sd) (Z.to_nat radius) hash_dict sd)).
  2:{ intros a [radius hd] _. unfold mhs_level. rewrite fold_left_map_in. apply fold_left_ext_in. intros a' [at_ mh] _. reflexivity. }
  rewrite (enumerate_fold (fun r hd sd => fold_left (fun d kv => sdict_add d (fst kv) (snd kv)) (mhs_level cs g r hd) sd)) by lia.
  reflexivity.
Qed.

Theorem g_morgan_hash_smiles_eq : forall h cs g lo hi,
  g_morgan_hash_smiles cs g (morgan_hash_dict h g lo hi) lo hi = morgan_hash_smiles h cs g lo hi.
Proof.
  intros h cs g lo hi. unfold morgan_hash_smiles.
  destruct (morgan_hash_dict h g lo hi) as [ds|e] eqn:E; [|reflexivity].
  apply g_morgan_hash_smiles_ok.
  unfold morgan_hash_dict, morgan_hash_dict_with in E. destruct (lo <? 1) eqn:L; [discriminate E|]. apply Z.ltb_ge in L. exact L.
Qed.

(* ---------------------------------------------------------------------------------------------------- *)
(* linear_hash_smiles *)
Lemma concat_cons a l : String.concat EmptyString (a :: l) = append a (String.concat EmptyString l).
Proof.
  destruct l as [|b l]; cbn [String.concat].
  - induction a as [|c a IH]; cbn [append]; [reflexivity|]. now rewrite <- IH.
  - reflexivity.
Qed.

Section Spell.
  Variable fa : Z -> string.
  Variable fb : Z -> Z -> string.
  Fixpoint spell_items (x : Z) (r : list Z) : list string :=
    match r with [] => [] | y :: r' => fb x y :: fa y :: spell_items y r' end.
  Lemma spell_items_fold : forall r x acc,
    fold_left (fun smiles '(x, y) => (smiles ++ [fb x y]) ++ [fa y]) (combine (x :: r) r) acc = acc ++ spell_items x r.
  Proof.
    induction r as [|y r IH]; intros x acc; [cbn; now rewrite app_nil_r|].
    change (combine (x :: y :: r) (y :: r)) with ((x, y) :: combine (y :: r) r).
    cbn [fold_left spell_items]. rewrite IH, <- !app_assoc. reflexivity.
  Qed.
  Lemma spell_items_concat : forall r x, String.concat EmptyString (spell_items x r) = spell_tail fa fb x r.
  Proof. induction r as [|y r IH]; intros x; [reflexivity|]. cbn [spell_items spell_tail]. now rewrite !concat_cons, IH. Qed.
End Spell.

(* chains[0] of a fragment is never empty (chain[0] of an empty tuple is an IndexError in Python; the model's spell [] is "") *)
Theorem g_linear_hash_smiles_eq : forall fa fb h frs lo hi nbp, Forall (fun e : list Z * list path => hd [] (snd e) <> []) frs ->
  g_linear_hash_smiles fa fb h frs lo hi nbp = lhs_of fa fb h nbp frs.
Proof.
  intros fa fb h frs lo hi nbp Hne.
  assert (E : forall c, fold_left (fun out '(frg, chains) =>
                 fold_left (fun out cnt => sdict_add out (h (frg ++ [cnt]))
                    (String.concat EmptyString
                       (fold_left (fun smiles '(x, y) => (smiles ++ [fb x y]) ++ [fa y]) (combine (hd [] chains) (tl (hd [] chains)))
                                  [fa (hd 0 (hd [] chains))])))
                   (zrange 0 (Z.min (len_z chains) c)) out) frs [] =
               fold_left (fun d (e : list Z * list path) =>
                 fold_left (fun d k => sdict_add d k (spell fa fb (hd [] (snd e))))
                   (map (fun cnt => h (fst e ++ [cnt])) (zrange 0 (Z.min (len_z (snd e)) c))) d) frs []).
  { intros c. apply fold_left_ext_in. intros a [frg chains] Hin. cbn [fst snd].
    rewrite Forall_forall in Hne. specialize (Hne _ Hin). cbn [snd] in Hne.
    destruct (hd [] chains) as [|x r]; [contradiction|]. cbn [hd tl].
    rewrite (spell_items_fold fa fb r x [fa x]). cbn [app]. rewrite concat_cons, spell_items_concat.
    rewrite fold_left_map_in. reflexivity. }
  unfold g_linear_hash_smiles, lhs_of, lhs_entry, entry_hashes, cap. cbv zeta.
  destruct (nbp =? 0); rewrite map_pair_id; apply E.
Qed.

(* every chain stored by _fragments is non-empty when the enumerated chains are, so chains[0][0] exists *)
Lemma dict_append_all (P : path -> Prop) : forall d k v, P v -> (forall k0 v0, In (k0, v0) d -> Forall P v0) ->
  forall k0 v0, In (k0, v0) (dict_append d k v) -> Forall P v0.
Proof.
  induction d as [|[k' vs] d IH]; intros k v Pv Hd k0 v0 Hin; cbn [dict_append] in Hin.
  - destruct Hin as [E|[]]. inversion E; subst. constructor; [exact Pv|constructor].
  - destruct (list_eqb Z.eqb k k').
    + destruct Hin as [E|Hin].
      * inversion E; subst. apply Forall_app. split; [apply (Hd k0 vs); now left|constructor; [exact Pv|constructor]].
      * apply (Hd k0 v0). now right.
    + destruct Hin as [E|Hin].
      * inversion E; subst. apply (Hd k0 v0). now left.
      * apply (IH k v Pv (fun k1 v1 H1 => Hd k1 v1 (or_intror H1)) k0 v0 Hin).
Qed.

Lemma rev_nonempty (p : path) : p <> [] -> rev p <> [].
Proof. intros H E. apply H. rewrite <- (rev_involutive p), E. reflexivity. Qed.

Lemma fragments_chains_nonempty idf ord : forall chs, Forall (fun p => p <> []) chs ->
  forall k vs, In (k, vs) (fragments_of idf ord chs) -> Forall (fun c : path => c <> []) vs.
Proof.
  intros chs Hne. unfold fragments_of.
  assert (G : forall d, (forall k0 v0, In (k0, v0) d -> Forall (fun c : path => c <> []) v0) ->
              forall k vs, In (k, vs) (fold_left (fun d frag => dict_append d (fst (frag_entry idf ord frag)) (snd (frag_entry idf ord frag))) chs d) ->
              Forall (fun c : path => c <> []) vs).
  { induction Hne as [|frag chs Hf _ IH]; intros d Hd k vs Hin; [exact (Hd k vs Hin)|].
    cbn [fold_left] in Hin.
    assert (Pv : snd (frag_entry idf ord frag) <> []).
    { unfold frag_entry. destruct (tuple_gtb _ _); cbn [snd]; [exact Hf|apply rev_nonempty; exact Hf]. }
    exact (IH _ (dict_append_all (fun c : path => c <> []) d (fst (frag_entry idf ord frag)) (snd (frag_entry idf ord frag)) Pv Hd) k vs Hin). }
  apply G. intros k0 v0 [].
Qed.

Lemma fragments_first_chain idf ord chs : Forall (fun p => p <> []) chs ->
  Forall (fun e : list Z * list path => hd [] (snd e) <> []) (fragments_of idf ord chs).
Proof.
  intros Hne. apply Forall_forall. intros [k vs] Hin. cbn [snd].
  pose proof (fragments_chains_nonempty idf ord chs Hne k vs Hin) as Hall.
  pose proof (fragments_of_nonempty idf ord chs k vs Hin) as Hvs.
  destruct vs as [|c vs]; [contradiction|]. cbn [hd]. now inversion Hall.
Qed.

(* the call chains of the SMILES dictionaries *)
Theorem translated_linear_smiles_pipeline : forall fa fb h idd g chs lo hi nbp, Forall (fun p => p <> []) chs ->
  let d := g_linear_hash_smiles fa fb h (g_fragments g idd chs lo hi) lo hi nbp in
  d = linear_hash_smiles_with fa fb h idd g chs nbp /\
  g_linear_smiles_hash d lo hi nbp = smiles_hash_of (linear_hash_smiles_with fa fb h idd g chs nbp).
Proof.
  intros fa fb h idd g chs lo hi nbp Hne. cbv zeta. rewrite (g_fragments_eq g idd chs lo hi Hne).
  rewrite (g_linear_hash_smiles_eq fa fb h _ lo hi nbp (fragments_first_chain _ _ chs Hne)).
  rewrite g_linear_smiles_hash_eq. split; reflexivity.
Qed.

Theorem translated_morgan_smiles_pipeline : forall h cs g lo hi,
  let d := g_morgan_hash_smiles cs g (g_morgan_hash_dict h g (g_atom_identifiers g) lo hi) lo hi in
  d = morgan_hash_smiles h cs g lo hi /\ g_morgan_smiles_hash d lo hi = morgan_smiles_hash h cs g lo hi.
Proof.
  intros h cs g lo hi. cbv zeta.
  replace (g_atom_identifiers g) with (atom_identifiers g)
    by (unfold g_atom_identifiers, atom_identifiers; apply map_ext; intros [n a]; cbn [fst snd]; unfold atom_identifier; reflexivity).
  rewrite g_morgan_hash_dict_eq. fold (morgan_hash_dict h g lo hi). rewrite g_morgan_hash_smiles_eq, g_morgan_smiles_hash_eq.
  split; reflexivity.
Qed.

Lemma translated_smiles_example :
  g_linear_smiles_hash [(5, ["C"; "O"]); (7, ["C"])]%string 1 4 4 = [("C", [5; 7]); ("O", [5])]%string /\
  g_morgan_smiles_hash (Err OtherError) 0 4 = Err OtherError /\
  g_linear_hash_smiles (fun n => if (n =? 4)%Z then "O" else "C")%string (fun _ _ => "-")%string hash_ztuple
     (fragments ex_mol 2 2) 2 2 1 =
  lhs_of (fun n => if (n =? 4)%Z then "O" else "C")%string (fun _ _ => "-")%string hash_ztuple 1 (fragments ex_mol 2 2) /\
  map snd (g_linear_hash_smiles (fun n => if (n =? 4)%Z then "O" else "C")%string (fun _ _ => "-")%string hash_ztuple
     (fragments ex_mol 2 2) 2 2 1) = [["C-C"]; ["O-C"]]%string.
Proof. repeat split; vm_compute; reflexivity. Qed.
