(* The body of _tokenize as TRANSLATED from /repo's source on every run (tools/gen_c03tok.py -> Gen.TokenizeBody, statement by
   statement) is the hand-written model Model.Tokenize:
     gen_step_eq    on every state the loop can reach (invariant TI of TokenizeProofs) and every character, the translated loop
                    body returns what tok_step returns (the same state or the same exception);
     gen_finish_eq  the same for the statements after the loop;
     tokenize_translated   for EVERY string, the translated function = tokenize_raw.
   So every theorem proved about tokenize_raw / tokenize (totality, exception classes, token shapes, spelling round trip ...)
   is a theorem about the translation of the current source, and an edit of _tokenize that changes what it computes on some
   reachable state breaks this file. *)
From Coq Require Import ZArith List String Ascii Bool Lia.
From Model Require Import PyBase Tokenize TokenizePrims.
From Gen Require Import TokenTables TokenizeBody.
From Proofs Require Import TokenizeProofs.
Import ListNotations.
Open Scope Z_scope.

Ltac simp :=
  cbn -[chr_in Ascii.eqb py_int sget zmem query_bond code Z.leb string_of_list_ascii].

Ltac zm :=
  repeat match goal with
         | |- context [zmem ?a ?l] =>
             tryif is_var a then fail else (let v := eval vm_compute in (zmem a l) in change (zmem a l) with v)
         end.

Ltac split1 :=
  match goal with
  | |- ?x = ?x => reflexivity
  | |- context [if ?b then _ else _] =>
      lazymatch b with
      | context [if _ then _ else _] => fail
      | context [match _ with _ => _ end] => fail
      | _ => idtac
      end;
      let E := fresh "E" in destruct b eqn:E
  | |- context [match ?e with Ok _ => _ | Err _ => _ end] =>
      lazymatch e with
      | context [if _ then _ else _] => fail
      | context [match _ with _ => _ end] => fail
      | _ => idtac
      end;
      let E := fresh "E" in destruct e eqn:E
  | |- context [match ?e with Some _ => _ | None => _ end] =>
      lazymatch e with
      | context [if _ then _ else _] => fail
      | context [match _ with _ => _ end] => fail
      | _ => idtac
      end;
      let E := fresh "E" in destruct e eqn:E
  | |- context [match ?l with [] => _ | _ :: _ => _ end] =>
      is_var l; destruct l as [|[? ?] ?]
  end.

Ltac crush := repeat (simp; zm; try reflexivity; split1).

Ltac start :=
  unfold gen_step, tok_step, gen_finish, tok_finish, ISm, ISa, is_digit, bind_res, dict_get, dict_has, pend_after, flushed,
         no_last_or_type_not_in, pop_payload, bond_chars, updown_chars, organic_chars, aromatic_chars, cb_chars.

Lemma gen_step_eq st c : TI st -> gen_step st c = tok_step st c.
Proof.
  intros HTI.
  destruct HTI as [toks HW | o toks HW | k toks Hk HW | s toks Hsx HW | l toks HW | toks HW | d toks HW | l toks Hl HW
                  | toks HW | toks HW | toks HW].
  - start; crush.
  - start; crush.
  - cbn in Hk. repeat (destruct Hk as [<- | Hk]); try contradiction; start; crush.
  - destruct Hsx; subst s; start; crush.
  - start; crush.
  - start; crush.
  - start; crush.
  - start; crush.
  - start; crush.
  - start; crush.
  - start; crush.
Qed.

Lemma gen_finish_eq st : TI st -> gen_finish st = tok_finish st.
Proof.
  intros HTI.
  destruct HTI as [toks HW | o toks HW | k toks Hk HW | s toks Hsx HW | l toks HW | toks HW | d toks HW | l toks Hl HW
                  | toks HW | toks HW | toks HW].
  - start; crush.
  - start; crush.
  - cbn in Hk. repeat (destruct Hk as [<- | Hk]); try contradiction; start; crush.
  - destruct Hsx; subst s; start; crush.
  - start; crush.
  - start; crush.
  - start; crush.
  - start; crush.
  - start; crush.
  - start; crush.
  - start; crush.
Qed.

Lemma loop_TI l : forall st, TI st -> match tok_loop tok_step st l with Ok st' => TI st' | Err _ => True end.
Proof.
  induction l as [|c r IH]; intros st HT; cbn [tok_loop]; [exact HT|].
  pose proof (tok_step_good st c HT) as G. destruct (tok_step st c) as [st'|e]; [|exact I].
  apply IH. exact (proj1 G).
Qed.

Lemma gen_loop_eq l : forall st, TI st -> tok_loop gen_step st l = tok_loop tok_step st l.
Proof.
  induction l as [|c r IH]; intros st HT; cbn [tok_loop]; [reflexivity|].
  rewrite (gen_step_eq st c HT).
  pose proof (tok_step_good st c HT) as G. destruct (tok_step st c) as [st'|e]; [|reflexivity].
  apply IH. exact (proj1 G).
Qed.

Theorem tokenize_translated : forall s : string, gen_tokenize_raw s = tokenize_raw s.
Proof.
  intros s. unfold gen_tokenize_raw, tokenize_raw, tokenize_raw_with.
  change gen_init with t_init.
  rewrite (gen_loop_eq (list_ascii_of_string s) t_init TI_init).
  pose proof (loop_TI (list_ascii_of_string s) t_init TI_init) as H.
  destruct (tok_loop tok_step t_init (list_ascii_of_string s)) as [st|e]; [|reflexivity].
  apply gen_finish_eq. exact H.
Qed.

(* hence what is proved about the hand-written model is proved about the translation of the source: the translated _tokenize is
   total with ValueError-class exceptions only, returns tokens of the documented shapes, and at least one for a non-empty text *)
Theorem gen_tokenize_raw_good : forall s : string,
  match gen_tokenize_raw s with
  | Ok l => forallb rawwfb l = true /\ (s <> ""%string -> l <> [])
  | Err e => vee e = true
  end.
Proof. intros s. rewrite tokenize_translated. apply tokenize_raw_good. Qed.

(* non-vacuity: the translated function on texts with every kind of token, an unfinished %-closure before a bracket atom (rejected),
   a two-digit closure, the SMARTS ring-bond mark *)
Example tokenize_translated_examples :
  gen_tokenize_raw "C(=O)[O-]%12Cl" = tokenize_raw "C(=O)[O-]%12Cl" /\
  (exists ts, gen_tokenize_raw "C(=O)[O-]%12Cl" = Ok ts /\ List.length ts = 8%nat) /\
  gen_tokenize_raw "C%1[CH3]" = Err IncorrectSmiles /\
  gen_tokenize_raw "C%1" = Ok [(0, PStr "C"); (6, PInt 1)] /\
  gen_tokenize_raw "C-;!@C" = tokenize_raw "C-;!@C" /\
  gen_tokenize_raw "C-,=C" = Ok [(0, PStr "C"); (10, PZs [1; 2]); (0, PStr "C")].
Proof. repeat split; try (vm_compute; reflexivity). eexists; split; vm_compute; reflexivity. Qed.

(* ================================================================================================ _atom_parse, smiles_tokenize *)
(* every optional group the matcher returns is None or a non-empty text (Python: an optional group that took part in the match of
   this pattern is never the empty string) *)
Definition ne (o : option (list ascii)) : Prop := match o with Some [] => False | _ => True end.

Lemma shape_iso (l : list ascii) x :
  match l with
  | c :: r => if in_range c "1" "9" then let '(d, r') := take_upto 2 is_digit r in (Some (c :: d), r') else (None, l)
  | [] => (None, l)
  end = x -> ne (fst x).
Proof.
  intros <-. destruct l as [|c r]; [exact I|]. destruct (in_range c "1" "9"); [|exact I].
  destruct (take_upto 2 is_digit r). exact I.
Qed.

Lemma shape_st (l2 : list ascii) x :
  match l2 with
  | "@"%char :: "@"%char :: r => (Some ["@"%char; "@"%char], r)
  | "@"%char :: r => (Some ["@"%char], r)
  | _ => (None, l2)
  end = x -> ne (fst x).
Proof.
  intros <-. destruct l2 as [|[[|] [|] [|] [|] [|] [|] [|] [|]] r]; try exact I.
  destruct r as [|[[|] [|] [|] [|] [|] [|] [|] [|]] r']; exact I.
Qed.

Lemma shape_h (l3 : list ascii) x :
  match l3 with
  | "H"%char :: r => let '(d, r') := take_upto 1 (fun c => in_range c "1" "4") r in (Some ("H"%char :: d), r')
  | _ => (None, l3)
  end = x -> ne (fst x).
Proof.
  intros <-. destruct l3 as [|[[|] [|] [|] [|] [|] [|] [|] [|]] r]; try exact I.
  destruct (take_upto 1 (fun c => in_range c "1" "4") r). exact I.
Qed.

Lemma shape_chg (l4 : list ascii) x :
  match l4 with
  | c :: r => if Ascii.eqb c "+" || Ascii.eqb c "-"
              then let '(d, r') := take_upto 1 chg_second r in (Some (c :: d), r')
              else (None, l4)
  | [] => (None, l4)
  end = x -> ne (fst x).
Proof.
  intros <-. destruct l4 as [|c r]; [exact I|]. destruct (Ascii.eqb c "+" || Ascii.eqb c "-"); [|exact I].
  destruct (take_upto 1 chg_second r). exact I.
Qed.

Lemma shape_map (l5 : list ascii) x :
  match l5 with
  | ":"%char :: (d1 :: r) => if is_digit d1 then let '(d, r') := take_while is_digit r in (Some (":"%char :: d1 :: d), r')
                             else (None, l5)
  | _ => (None, l5)
  end = x -> ne (fst x).
Proof.
  intros <-. destruct l5 as [|[[|] [|] [|] [|] [|] [|] [|] [|]] r]; try exact I.
  destruct r as [|d1 r]; [exact I|]. destruct (is_digit d1); [|exact I]. destruct (take_while is_digit r). exact I.
Qed.

Definition gshape (g : atom_groups) : Prop := ne (g_iso g) /\ ne (g_stereo g) /\ ne (g_h g) /\ ne (g_chg g) /\ ne (g_map g).

Ltac top_let H a b Q :=
  lazymatch type of H with (match ?E with _ => _ end) = _ => destruct E as [a b] eqn:Q end.

Lemma atom_re_match_shape l g : atom_re_match l = Some g -> gshape g.
Proof.
  unfold atom_re_match. intros H.
  top_let H iso l1 Q1. apply shape_iso in Q1.
  destruct l1 as [|e1 r1]; [discriminate|].
  destruct (negb (el_first e1)); [discriminate|].
  top_let H e2 l2 Q0.
  top_let H st l3 Q2. apply shape_st in Q2.
  top_let H h l4 Q3. apply shape_h in Q3.
  top_let H ch l5 Q4. apply shape_chg in Q4.
  top_let H mp l6 Q5. apply shape_map in Q5.
  destruct l6; [|discriminate]. inversion H; subst. cbn in *. repeat split; assumption.
Qed.

Ltac pyint :=
  repeat match goal with
         | |- context [py_int ?l] =>
             let E := fresh "E" in destruct (py_int l) as [?|?] eqn:E; [|apply py_int_err in E; subst]
         end.

Lemma len2_lt {A} (a b : A) r : (1 <? Z.of_nat (List.length (a :: b :: r))) = true.
Proof. apply Z.ltb_lt. cbn [List.length]. lia. Qed.

Ltac apsimp := cbn -[py_int sget smem capitalize string_of_list_ascii list_ascii_of_string charge_dict list_eqb].

Theorem gen_atom_parse_eq : forall tok : string, gen_atom_parse tok = atom_parse tok.
Proof.
  intros tok. unfold gen_atom_parse, atom_parse.
  destruct (atom_re_match (list_ascii_of_string tok)) as [g|] eqn:E; [|reflexivity].
  apply atom_re_match_shape in E. destruct g as [iso el st h chg mp]. destruct E as (S1 & S2 & S3 & S4 & S5). cbn in S1, S2, S3, S4, S5.
  unfold gen_atom_build, opt_bind_res, bind_res, catch_as_ism, dv_group, aromatic_elements. cbn [g_iso g_el g_stereo g_h g_chg g_map].
  destruct iso as [[|i0 ir]|]; [contradiction| |];
  destruct st as [[|s0 sr]|]; try contradiction;
  destruct h as [[|h0 [|h1 hr]]|]; try contradiction;
  destruct chg as [[|c0 cr]|]; try contradiction;
  destruct mp as [[|m0 mr]|]; try contradiction;
  cbn -[py_int sget smem capitalize string_of_list_ascii list_ascii_of_string charge_dict list_eqb Z.ltb Z.of_nat List.length];
  rewrite ?len2_lt; apsimp;
  pyint; apsimp;
  repeat match goal with
         | |- context [sget charge_dict ?k] => destruct (sget charge_dict k) eqn:?
         end;
  apsimp; try reflexivity;
  try match goal with
      | |- context [smem ?x ?ll] => destruct (smem x ll) eqn:?
      end;
  apsimp; rewrite ?string_of_list_ascii_of_string; reflexivity.
Qed.

Lemma gen_post_eq : forall l, gen_post l = post_tokens l.
Proof.
  induction l as [|[ty p] r IH]; [reflexivity|]. cbn [gen_post post_tokens]. rewrite IH.
  assert (H : gen_post_one ty p =
              (if zmem ty [0; 8] then match p with PStr s => Ok (ty, PAtom (simple_atom s)) | _ => Err OtherError end
               else if ty =? 5 then match p with PStr s => atom_parse s | _ => Err OtherError end
               else if zmem ty [10; 12] then ISm else Ok (ty, p))).
  { unfold gen_post_one, simple_atom_token, atom_parse_payload.
    destruct (zmem ty [0; 8]); [reflexivity|]. destruct (ty =? 5); [|reflexivity].
    destruct p; try reflexivity. apply gen_atom_parse_eq. }
  rewrite H. reflexivity.
Qed.

(* smiles_tokenize as translated (the translated _tokenize, the translated loop with the translated _atom_parse) is the model *)
Theorem gen_tokenize_eq : forall s : string, gen_tokenize s = tokenize s.
Proof.
  intros s. unfold gen_tokenize, tokenize, tokenize_with. fold tokenize_raw. rewrite tokenize_translated.
  destruct (tokenize_raw s); [apply gen_post_eq | reflexivity].
Qed.

Theorem gen_tokenize_good : forall s : string,
  match gen_tokenize s with
  | Ok l => forallb swfb l = true /\ (s <> ""%string -> l <> [])
  | Err e => vee e = true
  end.
Proof. intros s. rewrite gen_tokenize_eq. apply tokenize_good. Qed.

Example gen_tokenize_examples :
  gen_tokenize "[13CH3:7]C(=O)/C=C\c1ccc%10.Cl%10" = tokenize "[13CH3:7]C(=O)/C=C\c1ccc%10.Cl%10" /\
  (exists l, gen_tokenize "[13CH3:7]C(=O)/C=C\c1ccc%10.Cl%10" = Ok l /\ List.length l = 20%nat) /\
  gen_atom_parse "13C@@H2+:12" = Ok (0, PAtom (mkAt "C" (Some 13) (Some 12) 1 (Some 2) (Some false))) /\
  gen_atom_parse "se" = Ok (8, PAtom (mkAt "Se" None None 0 (Some 0) None)) /\
  gen_atom_parse "C+-" = Err IncorrectSmiles /\
  gen_tokenize "C-,=C" = Err IncorrectSmiles.
Proof. repeat split; try (vm_compute; reflexivity). eexists; split; vm_compute; reflexivity. Qed.
