(* C13 -- the freshness invariant FW for split(): the parts are whole connected components (closed under adjacency), so the copied
   hydrogen counts are still the snapshots of the atoms' environments. *)
From Coq Require Import ZArith List Bool Lia.
From Model Require Import PyBase Cache.
From Proofs Require Import CacheProofs CacheWf CacheCopy CacheCoh CacheWorld CacheUnion CacheTheorems CacheUsable CacheExamples CacheTxn
  CacheFresh CacheFreshOps CacheFreshWorld CacheFreshUnion.
Import ListNotations.
Open Scope Z_scope.

Definition nbrs (adj : adjacency) (x : Z) : list Z := match zget adj x with Some r => keys r | None => [] end.
Definition closed (adj : adjacency) (c : list Z) : Prop := forall x, In x c -> forall y, In y (nbrs adj x) -> In y c.
Definition uncovered (adj : adjacency) (cur : list Z) : nat := length (filter (fun k => negb (zmem k cur)) (keys adj)).

Lemma filter_length_le {A} (p q : A -> bool) l : (forall x, q x = true -> p x = true) -> (length (filter q l) <= length (filter p l))%nat.
Proof.
  intros I. induction l as [|a t IH]; cbn; [lia|]. destruct (q a) eqn:Eq.
  - rewrite (I a Eq). cbn. lia.
  - destruct (p a); cbn; lia.
Qed.
Lemma filter_length_lt {A} (p q : A -> bool) l y : (forall x, q x = true -> p x = true) -> In y l -> p y = true -> q y = false ->
  (length (filter q l) < length (filter p l))%nat.
Proof.
  intros I. induction l as [|a t IH]; cbn; [tauto|]. intros [->|Hy] Py Qy.
  - rewrite Py, Qy. cbn. pose proof (filter_length_le p q t I). lia.
  - specialize (IH Hy Py Qy). destruct (q a) eqn:Eq; [rewrite (I a Eq); cbn; lia | destruct (p a); cbn; lia].
Qed.

Lemma closure_closed adj : (forall x y, In y (nbrs adj x) -> In y (keys adj)) ->
  forall fuel cur, (uncovered adj cur <= fuel)%nat -> closed adj (closure adj cur fuel) /\ incl cur (closure adj cur fuel).
Proof.
  intros NK. induction fuel as [|f IH]; intros cur Hc; cbn [closure].
  - split; [|apply incl_refl]. intros x Hx y Hy. apply NK in Hy.
    destruct (zmem y cur) eqn:Z; [now apply zmem_In|]. exfalso. unfold uncovered in Hc.
    assert (In y (filter (fun k => negb (zmem k cur)) (keys adj))) as Hi by (apply filter_In; split; [exact Hy | now rewrite Z]).
    destruct (filter _ (keys adj)); [destruct Hi | cbn in Hc; lia].
  - fold (nbrs adj). set (new := filter (fun y => negb (zmem y cur)) (flat_map (fun x => nbrs adj x) cur)).
    change (flat_map (fun x => match zget adj x with Some r => keys r | None => [] end) cur) with (flat_map (fun x => nbrs adj x) cur).
    fold new. destruct new as [|y0 t] eqn:En.
    + split; [|apply incl_refl]. intros x Hx y Hy. destruct (zmem y cur) eqn:Z; [now apply zmem_In|]. exfalso.
      assert (In y new) as Hi. { unfold new. apply filter_In. split; [apply in_flat_map; eauto | now rewrite Z]. }
      rewrite En in Hi. destruct Hi.
    + set (cur' := cur ++ fold_right sadd [] (y0 :: t)).
      assert (forall z, In z cur' <-> In z cur \/ In z (y0 :: t)) as M.
      { intros z. unfold cur'. rewrite in_app_iff, In_fold_sadd. cbn [In]. tauto. }
      assert (In y0 (keys adj) /\ zmem y0 cur = false) as [Hk Hz].
      { assert (In y0 new) as Hi by (rewrite En; now left). unfold new in Hi. apply filter_In in Hi. destruct Hi as [Hi Hn].
        apply in_flat_map in Hi. destruct Hi as [x [_ Hy]]. split; [eapply NK; eauto | now destruct (zmem y0 cur)]. }
      destruct (IH cur') as [C I].
      { unfold uncovered in *. assert (length (filter (fun k => negb (zmem k cur')) (keys adj)) < length (filter (fun k => negb (zmem k cur)) (keys adj)))%nat; [|lia].
        apply (filter_length_lt _ _ _ y0); auto.
        - intros x Hx. destruct (zmem x cur) eqn:Zx; [|reflexivity]. apply zmem_In in Zx. assert (zmem x cur' = true) as E by (apply zmem_In, M; now left).
          now rewrite E in Hx.
        - now rewrite Hz.
        - assert (zmem y0 cur' = true) as E by (apply zmem_In, M; right; now left). now rewrite E. }
      split; [exact C|]. intros z Hz'. apply I. apply M. now left.
Qed.

Lemma filter_len {A} (p : A -> bool) l : (length (filter p l) <= length l)%nat.
Proof. induction l as [|a t IH]; cbn; [lia|]. destruct (p a); cbn; lia. Qed.
Lemma comps_closed adj : (forall x y, In y (nbrs adj x) -> In y (keys adj)) ->
  forall ks seen c, In c (comps_from adj ks seen) -> closed adj c.
Proof.
  intros NK. induction ks as [|k t IH]; intros seen c Hc; cbn [comps_from] in Hc; [destruct Hc|].
  destruct (zmem k seen); [eapply IH; eauto|]. destruct Hc as [<-|Hc]; [|eapply IH; eauto].
  apply closure_closed; [exact NK|]. unfold uncovered. pose proof (filter_len (fun k0 => negb (zmem k0 [k])) (keys adj)) as L.
  unfold keys in *. rewrite map_length in L. exact L.
Qed.
Lemma wf_nbrs h o x y : wf h o -> In y (nbrs (o_adj o) x) -> In y (keys (o_adj o)).
Proof.
  intros Wf Hy. unfold nbrs in Hy. destruct (zget (o_adj o) x) as [r|] eqn:Er; [|destruct Hy]. apply keys_In_zget in Hy. destruct Hy as [rf Hy].
  rewrite (wf_keys _ _ _ Wf). eapply (wfa_nbr_atom _ _ _ x y rf Wf). unfold aslot. now rewrite Er.
Qed.

(* ---- one part *)
Lemma filter_all_in {A} (p : A -> bool) l : (forall x, In x l -> p x = true) -> filter p l = l.
Proof. induction l as [|a t IH]; cbn; intros H; [reflexivity|]. rewrite (H a (or_introl eq_refl)), IH; auto. Qed.
Lemma zget_map_sel {V} (F : Z -> V) (sel : list Z) m : In m sel -> zget (map (fun n => (n, F n)) sel) m = Some (F m).
Proof.
  induction sel as [|k t IH]; cbn; [tauto|]. intros [->|H]; [now rewrite Z.eqb_refl|]. destruct (Z.eqb_spec m k); [now subst | auto].
Qed.
Lemma lenv_erel h h1 atoms sa (r rw' : list (Z * ref)) :
  Forall2 (erel fsub h h1) r rw' ->
  (forall m rf, In (m, rf) r -> option_map anum (zget sa m) = option_map anum (zget atoms m)) ->
  lenv_of_row h1 sa rw' = lenv_of_row h atoms r.
Proof.
  induction 1 as [|[m rf] [m' rf'] t t' [E [_ [c [c' [H1 [H2 H3]]]]]] _ IH]; intros Ha; [reflexivity|]. cbn [fst snd] in *. subst m'.
  cbn [lenv_of_row]. rewrite H1, H3. unfold fsub in H2. inversion H2; subst c'. cbn [b_ord].
  rewrite IH by (intros; eapply Ha; right; eauto). destruct (b_ord c =? 8); [reflexivity|].
  pose proof (Ha m rf (or_introl eq_refl)) as E2. destruct (zget atoms m) as [a|], (zget sa m) as [a'|]; cbn in E2; try discriminate; [|reflexivity].
  injection E2 as E2. unfold anum in E2. now rewrite E2.
Qed.

Lemma part_fresh ats h o h2 o2 :
  wf h o -> Fr h o -> o_backup o = None -> closed (o_adj o) ats ->
  substructure_g false ats h o = Ok (h2, o2, None) -> Fr h2 o2 /\ o_backup o2 = None.
Proof.
  intros Wf F B Cl H. destruct (Fr_settled h o F B) as [_ [_ OK]].
  unfold substructure_g in H. destruct ats as [|a0 ats']; [discriminate|].
  destruct (negb (subset_z (a0 :: ats') (keys (o_atoms o)))); [discriminate|].
  set (ats := a0 :: ats') in *. set (sel := filter (fun n => zmem n ats) (keys (o_atoms o))) in *.
  unfold sub_rows in H. destruct (rows_of (o_adj o) sel) as [rows|] eqn:Er; [|discriminate].
  destruct (gcopy_rows (fun m => zmem m sel) fsub h [] rows) as [[h1 sb]|] eqn:R; [|discriminate].
  destruct (rows_of_spec _ _ _ Er) as [Kr Src]. pose proof Wf as Wf0. destruct Wf as [Wk Wnd Wsym Wloop Wval Wlt].
  assert (NoDup sel) as NDs. { unfold sel. apply NoDup_filter. rewrite <- Wk. apply Wnd. }
  assert (NoDup (keys rows)) as ND by (now rewrite Kr).
  assert (forall n, In n (keys rows) -> zmem n sel = true) as Kp by (intros n Hn; apply zmem_In; now rewrite <- Kr).
  assert (forall n r m rf, In (n, r) rows -> In (m, rf) r -> zmem m sel = true -> In m (keys rows)) as Clr
    by (intros n r m rf _ _ Hm; rewrite Kr; now apply zmem_In).
  set (sa := map (fun n => (n, match zget (o_atoms o) n with Some a => mkA (a_core a) (a_hyd a) None
                                                        | None => mkA (mkCore 0 None 0 false) None None end)) sel) in *.
  set (sub0 := mkM sa sb [] None None None None) in *.
  assert (keys sa = keys rows) as Ks. { rewrite Kr. unfold sa, keys. rewrite map_map. cbn. apply map_id. }
  assert (wf h1 sub0) as W0.
  { unfold wf. cbn [o_atoms o_adj sub0]. eapply (gcopy_wfa (fun m => zmem m sel) fsub h (o_adj o) Wnd Wsym Wlt rows); eauto. }
  destruct (gcopy_cinv (fun m => zmem m sel) fsub h (o_adj o) Wnd Wsym Wlt rows Src ND Kp h1 sb R) as [_ [F2 _]].
  (* every selected atom keeps its stored count and its environment *)
  assert (forall n a', zget sa n = Some a' -> exists a, zget (o_atoms o) n = Some a /\ a' = mkA (a_core a) (a_hyd a) None /\
                                                       lenvn h1 sub0 n = lenvn h o n) as Keep.
  { intros n a' Ha'. assert (In n sel) as Hs by (rewrite <- Kr, <- Ks; eapply zget_In_keys; eauto).
    unfold sa in Ha'. rewrite (zget_map_sel _ sel n Hs) in Ha'.
    assert (In n (keys (o_atoms o)) /\ In n ats) as [Hk Ha].
    { unfold sel in Hs. apply filter_In in Hs. destruct Hs as [A1 A2]. split; [exact A1 | now apply zmem_In]. }
    apply keys_In_zget in Hk. destruct Hk as [a Hk]. rewrite Hk in Ha'. exists a. split; [exact Hk|]. split; [congruence|].
    assert (In n (keys rows)) as Hr by (now rewrite Kr). apply keys_In_zget in Hr. destruct Hr as [r Hr].
    pose proof (Src _ _ (zget_In _ _ _ Hr)) as Hadj.
    destruct (F2_zget_l _ (rrel_k (fun m => zmem m sel) fsub h h1) _ _ F2 n r Hr) as [rw' [Hsb [_ Fe]]]. cbn [snd] in Fe.
    assert (forall m rf, In (m, rf) r -> In m sel) as InSel.
    { intros m rf Hm. unfold sel. apply filter_In. split.
      - eapply (wfa_nbr_atom _ _ _ n m rf Wf0). eapply nd_In_aslot; [exact Wnd | apply zget_In; exact Hadj | exact Hm].
      - apply zmem_In. apply (Cl n Ha). unfold nbrs. rewrite Hadj. change m with (fst (m, rf)). now apply in_map. }
    rewrite filter_all_in in Fe by (intros [m rf] Hm; cbn; apply zmem_In; eapply InSel; eauto).
    unfold lenvn, row. cbn [o_atoms o_adj sub0]. rewrite Hsb, Hadj. apply (lenv_erel h h1 (o_atoms o) sa r rw' Fe).
    intros m rf Hm. unfold sa. rewrite (zget_map_sel _ sel m (InSel _ _ Hm)).
    assert (In m (keys (o_atoms o))) as Hmk by (pose proof (InSel _ _ Hm) as Hx; unfold sel in Hx; apply filter_In in Hx; tauto).
    apply keys_In_zget in Hmk. destruct Hmk as [am Hmk]. rewrite Hmk. reflexivity. }
  (* calc_labels, _changed = None, fix_stereo *)
  assert (inv1 h1 sub0) as I0 by (split; [exact W0 | intros l Hl; discriminate]).
  destruct (calc_labels_fresh h1 sub0 I0) as [h3 [o3 [E3 [I3 [C3 [B3 [Ls3 [Bo3 R3]]]]]]]].
  unfold sub_finish, seq in H. rewrite E3 in H. unfold ok, fix_stereo, read in H. inversion H; subst h2 o2.
  split; [|simpo; exact B3].
  apply Fr_of_OK; [simpo; exact B3 | reflexivity | eapply bondsOK_view; [|exact Bo3]; reflexivity|].
  intros n a3 Ha3. simpo. specialize (R3 n). rewrite Ha3 in R3. destruct R3 as [a' [Ha' [Kc [Hh [l' [Y1 Y2]]]]]].
  destruct (Keep n a' Ha') as [a [Ha [Ea' Ls]]]. destruct (OK n a Ha) as [[l [X1 X2]] _].
  split; [exists l | exists l'].
  - split; [change (lenvn h3 o3 n = Ok l); rewrite Ls3, Ls; exact X1|]. rewrite Hh, Kc, Ea'. cbn. exact X2.
  - split; [exact Y1 | exact Y2].
Qed.

(* ---- the loop and the operation *)
Lemma FW_heap_ext h h2 o others : FW (mkS h o others) -> hext h h2 -> FW (mkS h2 o others).
Proof. intros Fs X. split; [apply (W_heap_ext h h2); [apply Fs | exact X] | exact (Fr_heap_ext _ h2 Fs X)]. Qed.
Lemma FW_add h h2 o others b : FW (mkS h o others) -> hext h h2 -> W (mkS h2 o (b :: others)) -> Fr h2 b -> o_backup b = None ->
  FW (mkS h2 o (b :: others)).
Proof.
  intros Fs X W2 Fb Bb. split; [exact W2|]. pose proof (Fr_heap_ext _ h2 Fs X) as Ff. cbn [s_heap] in *. rewrite units_others. rewrite units_split in Ff.
  apply Forall_app in Ff. destruct Ff as [F1 F2]. apply Forall_app. split; [exact F1|]. apply Forall_app. split; [|exact F2].
  unfold shadow. rewrite Bb. constructor; [exact Fb | constructor].
Qed.

Lemma FW_split_loop cs : forall s old, FW s -> FW (mkS (s_heap s) (s_cur s) old) -> o_backup (s_cur s) = None ->
  (forall c, In c cs -> closed (o_adj (s_cur s)) c) -> FW (fst (split_loop cs s old)).
Proof.
  induction cs as [|c t IH]; intros [h o others] old Fs Fo B Cl; cbn [split_loop fst s_heap s_cur s_others] in *; [exact Fs|].
  destruct (substructure_g false c h o) as [[[h2 o2] e]|err] eqn:E; [|exact Fo].
  destruct (W_sub_g false c h o others h2 o2 e (proj1 Fs) E) as [X K].
  destruct e as [e|]; [cbn [fst]; now apply (FW_heap_ext h h2)|].
  pose proof (W_cur _ (proj1 Fs)) as Uc. pose proof (FW_cur _ Fs) as Fc. cbn [s_heap s_cur] in Uc, Fc.
  destruct (part_fresh c h o h2 o2 (proj1 (proj1 Uc)) Fc B (Cl c (or_introl eq_refl)) E) as [F2 B2].
  apply IH; cbn [s_heap s_cur]; auto.
  - apply (FW_add h h2); auto.
  - now apply (FW_heap_ext h h2).
  - intros c' Hc'. apply Cl. now right.
Qed.

Theorem FW_split s : FW s -> o_backup (s_cur s) = None -> FW (fst (step s OSplit)).
Proof.
  intros Fs B. cbn [step]. assert (FW (fst (lift (read Kcc) s))) as F1 by (apply (step_FW s (ORead Kcc)); [exact Fs | exact I | exact I]).
  set (s1 := fst (lift (read Kcc) s)) in *.
  assert (s_heap s1 = s_heap s /\ o_adj (s_cur s1) = o_adj (s_cur s) /\ o_backup (s_cur s1) = o_backup (s_cur s)) as [Eh [Ea Eb]]
    by (unfold s1; destruct s; repeat split; reflexivity).
  apply FW_split_loop; [exact F1 | destruct s1; exact F1 | congruence|].
  intros c Hc. unfold comps in Hc. pose proof (W_cur _ (proj1 F1)) as [[Wf _] _]. eapply comps_closed; [|exact Hc].
  intros x y Hy. eapply wf_nbrs; eauto.
Qed.
