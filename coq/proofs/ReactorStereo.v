(* C16 (extension): neighbour order and tetrahedral configuration of the atoms the template does not touch *)
From Coq Require Import ZArith List Bool Lia.
From Model Require Import PyBase Graph Reactor ReactorStage Stereo.
From Proofs Require Import ReactorProofs StereoProofs.
Import ListNotations.
Open Scope Z_scope.

(* ---------- rows of the adjacency through step 4 of _patcher ---------- *)
Lemma link_shape adj n m fresh adj' : link adj n m fresh = Ok adj' ->
  exists ln b, zget adj n = Some ln /\ adj' = zset adj n (zset ln m b).
Proof.
  unfold link. destruct (zget adj m) as [lm|]; [|discriminate]. destruct (zget adj n) as [ln|]; [|discriminate].
  intros H. inversion H. eexists _, _. split; reflexivity.
Qed.

Lemma keep_bonds_of_other P del adj nbs adj' x : keep_bonds_of P del adj nbs = Ok adj' -> x <> fst nbs -> zget adj' x = zget adj x.
Proof.
  unfold keep_bonds_of. destruct (zmem (fst nbs) del); [intros H; inversion H; reflexivity|].
  revert adj. generalize (snd nbs). intros bs. induction bs as [|[m b] bs IH]; intros adj H Hx; cbn [fold_res] in H.
  - inversion H. reflexivity.
  - cbn [fst snd] in H. destruct (zmem m del || zmem (fst nbs) P && zmem m P).
    + apply IH; assumption.
    + destruct (link adj (fst nbs) m (plain b)) as [adj1|] eqn:E1; [|discriminate].
      rewrite (IH adj1 H Hx). destruct (link_shape _ _ _ _ _ E1) as (ln & b' & _ & ->). apply zget_zset_other. exact Hx.
Qed.

Lemma keep_bonds_fold_other P del : forall l adj adj' x,
  fold_res (keep_bonds_of P del) l adj = Ok adj' -> ~ In x (keys l) -> zget adj' x = zget adj x.
Proof.
  induction l as [|nbs l IH]; intros adj adj' x H Hx; cbn [fold_res] in H.
  - inversion H. reflexivity.
  - destruct (keep_bonds_of P del adj nbs) as [adj1|] eqn:E1; [|discriminate].
    rewrite (IH adj1 adj' x H); [|intros Hi; apply Hx; right; exact Hi].
    apply (keep_bonds_of_other P del adj nbs adj1 x E1). intros ->. apply Hx. left. reflexivity.
Qed.

(* the row of an atom the template does not name is filled, in the order of its old row, with the surviving neighbours *)
Lemma keep_bonds_of_self P del n : forall bs adj adj' l0,
  keep_bonds_of P del adj (n, bs) = Ok adj' -> ~ In n del -> ~ In n P -> NoDup (keys bs) ->
  zget adj n = Some l0 -> (forall m, In m (keys bs) -> ~ In m (keys l0)) ->
  exists l, zget adj' n = Some l /\ keys l = keys l0 ++ filter (fun m => negb (zmem m del)) (keys bs).
Proof.
  intros bs adj adj' l0 H Hd HP. unfold keep_bonds_of in H. cbn [fst snd] in H.
  assert (Ed : zmem n del = false) by (apply zmem_false; exact Hd).
  assert (EP : zmem n P = false) by (apply zmem_false; exact HP).
  rewrite Ed, EP in H. revert adj l0 H.
  induction bs as [|[m b] bs IH]; intros adj l0 H Hnd Hg Hfresh; cbn [fold_res] in H.
  - inversion H; subst. exists l0. split; [exact Hg|]. cbn. rewrite app_nil_r. reflexivity.
  - cbn [fst snd] in H. cbn [keys map fst] in Hnd. inversion Hnd as [|? ? Hm Hnd']; subst.
    cbn [andb] in H. rewrite orb_false_r in H.
    cbn [keys map fst filter]. fold (keys bs).
    destruct (zmem m del) eqn:Em; cbn [negb].
    + apply (IH adj l0 H Hnd' Hg). intros m' Hm'. apply Hfresh. right. exact Hm'.
    + destruct (link adj n m (plain b)) as [adj1|] eqn:E1; [|discriminate].
      destruct (link_shape _ _ _ _ _ E1) as (ln & b' & Eln & ->). rewrite Hg in Eln. inversion Eln; subst ln.
      assert (Hml0 : ~ In m (keys l0)) by (apply Hfresh; left; reflexivity).
      destruct (IH _ (zset l0 m b') H Hnd') as (l & El & Kl).
      * apply zget_zset_same.
      * intros m' Hm' Hin. rewrite (keys_zset_absent l0 m b' Hml0) in Hin. apply in_app_or in Hin.
        destruct Hin as [Hin|[<-|[]]]; [apply (Hfresh m' (or_intror Hm') Hin)|contradiction].
      * exists l. split; [exact El|]. rewrite Kl, (keys_zset_absent l0 m b' Hml0), <- app_assoc. reflexivity.
Qed.

Lemma keep_atoms_row P del : forall l st x a, NoDup (keys l) -> In (x, a) l -> ~ In x P -> ~ In x del ->
  zget (snd (fold_left (keep_atom P del) l st)) x = Some [].
Proof.
  induction l as [|[n a0] l IH]; intros st x a Hnd Hin HP Hd; [destruct Hin|].
  cbn [keys map fst] in Hnd. inversion Hnd as [|? ? Hn Hnd']; subst. cbn [fold_left].
  destruct Hin as [E|Hin].
  - inversion E; subst n a0.
    destruct (keep_atoms_spec P del l (keep_atom P del st (x, a))) as (_ & _ & _ & I4 & _).
    rewrite (proj2 (I4 x (or_intror (or_intror Hn)))).
    unfold keep_atom. cbn [fst snd].
    assert (E1 : zmem x P || zmem x del = false) by (apply orb_false_iff; split; apply zmem_false; assumption).
    rewrite E1. cbn [snd]. apply zget_zset_same.
  - apply IH with (a := a); assumption.
Qed.

Lemma keys_split {V} (d : list (Z * V)) x v : NoDup (keys d) -> In (x, v) d ->
  exists l1 l2, d = l1 ++ (x, v) :: l2 /\ ~ In x (keys l1) /\ ~ In x (keys l2).
Proof.
  intros Hnd Hin. destruct (in_split _ _ Hin) as (l1 & l2 & ->). exists l1, l2. split; [reflexivity|].
  unfold keys in Hnd. rewrite map_app in Hnd. cbn [map fst] in Hnd.
  apply NoDup_remove_2 in Hnd. split; intros Hi; apply Hnd; apply in_or_app; [left|right]; exact Hi.
Qed.

(* an atom the template does not name keeps its neighbour dict in the SAME ORDER, minus the deleted neighbours *)
Theorem patcher_untouched_neighbours : forall g mapping tpl del new mp' x,
  patcher g mapping tpl del = Ok (new, mp') -> wf_mol g = true -> (forall y, In y (ids g) -> 0 < y) ->
  In x (ids g) -> ~ named tpl mp' x -> ~ In x del ->
  nbr_ids new x = filter (fun m => negb (zmem m del)) (nbr_ids g x).
Proof.
  intros g mapping tpl del new mp' x Hrun Hwf Hpos Hx Hnn Hd.
  destruct (patcher_anatomy _ _ _ _ _ _ Hrun Hpos)
    as (mx & s1 & adj2 & W2 & atoms3 & adj3 & adj4 & _ & _ & _ & _ & _ & _ & E3 & HW4 & Enew & HP & _).
  destruct (wf_mol_facts g Hwf) as (Hnd & Hkeys & Hadj).
  set (P := keys (p_atoms s1)) in *.
  assert (HxP : ~ In x P) by (rewrite HP; exact Hnn).
  assert (E4 : fold_res (keep_bonds_of P del) (m_adj g) adj3 = Ok adj4).
  { rewrite <- HW4. apply fold_res_flat. intros. apply keep_bonds_of_flat. }
  destruct (zget_key_Some (m_atoms g) x Hx) as [a Ea].
  assert (Erow : zget adj3 x = Some []).
  { pose proof (keep_atoms_row P del (m_atoms g) (p_atoms s1, adj2) x a Hnd (zget_Some_In _ _ _ Ea) HxP Hd) as H.
    rewrite E3 in H. exact H. }
  assert (Hxk : In x (keys (m_adj g))) by (rewrite Hkeys; exact Hx).
  destruct (zget_key_Some (m_adj g) x Hxk) as [bs Ebs].
  destruct (keys_split (m_adj g) x bs) as (l1 & l2 & Esplit & Hl1 & Hl2); [rewrite Hkeys; exact Hnd|apply zget_Some_In; exact Ebs|].
  rewrite Esplit, fold_res_app in E4.
  destruct (fold_res (keep_bonds_of P del) l1 adj3) as [adjA|] eqn:EA; [|discriminate].
  cbn [fold_res] in E4. destruct (keep_bonds_of P del adjA (x, bs)) as [adjB|] eqn:EB; [|discriminate].
  assert (ErowA : zget adjA x = Some []) by (rewrite (keep_bonds_fold_other P del l1 adj3 adjA x EA Hl1); exact Erow).
  assert (Hbs : In (x, bs) (m_adj g)) by (apply zget_Some_In; exact Ebs).
  destruct (keep_bonds_of_self P del x bs adjA adjB [] EB Hd HxP (proj1 (Hadj x bs Hbs)) ErowA) as (l & El & Kl); [intros m _ []|].
  assert (Erow4 : zget adj4 x = Some l) by (rewrite (keep_bonds_fold_other P del l2 adjB adj4 x E4 Hl2); exact El).
  subst new. unfold nbr_ids, nbrs. cbn [m_adj]. rewrite Erow4, Ebs. exact Kl.
Qed.

Lemma filter_all {A} (f : A -> bool) (l : list A) : (forall x, In x l -> f x = true) -> filter f l = l.
Proof.
  induction l as [|y l IH]; intros H; cbn; [reflexivity|]. rewrite (H y (or_introl eq_refl)). f_equal. apply IH.
  intros x Hx. apply H. right. exact Hx.
Qed.

(* ---------- tetrahedral configuration ---------- *)
Lemma perm_id4 : In [0; 1; 2; 3] perms4.
Proof. apply in_perms_In. vm_compute. reflexivity. Qed.
Lemma perm_id3 : In [0; 1; 2] perms3.
Proof. apply in_perms_In. vm_compute. reflexivity. Qed.

(* reading a centre through its own neighbour order gives the stored sign *)
Lemma translate_th_same (isH : Z -> bool) env s : NoDup env -> (length env = 3%nat \/ length env = 4%nat) ->
  translate_th isH env env s = Ok s.
Proof.
  intros Hnd [Hl|Hl].
  - destruct env as [|a [|b [|c [|d r]]]]; try discriminate.
    pose proof (translate_th_parity3 isH a b c [0; 1; 2] s Hnd perm_id3) as H.
    change (sel [a; b; c] [0; 1; 2]) with [a; b; c] in H. rewrite H. destruct s; reflexivity.
  - destruct env as [|a [|b [|c [|d [|e r]]]]]; try discriminate.
    pose proof (proj1 (translate_th_parity4 isH a b c d [0; 1; 2; 3] s Hnd perm_id4)) as H.
    change (sel [a; b; c; d] [0; 1; 2; 3]) with [a; b; c; d] in H. rewrite H. destruct s; reflexivity.
Qed.

(* an untouched stereogenic centre none of whose neighbours is deleted: the product lists the same non-hydrogen
   neighbours in the same order, so the label that _patcher stores "as is" denotes the same configuration
   (read through the environment of the input structure it is the input sign) *)
Theorem untouched_centre_same_configuration : forall g mapping tpl del new mp' x (isH isH' : Z -> bool),
  patcher g mapping tpl del = Ok (new, mp') -> wf_mol g = true -> (forall y, In y (ids g) -> 0 < y) ->
  In x (ids g) -> ~ named tpl mp' x -> ~ In x del ->
  (forall m, In m (nbr_ids g x) -> ~ In m del) ->
  (* the neighbours are hydrogens in the product exactly when they were in the structure *)
  (forall m, In m (nbr_ids g x) -> isH' m = isH m) ->
  (length (th_env isH g x) = 3%nat \/ length (th_env isH g x) = 4%nat) ->
  th_env isH' new x = th_env isH g x /\
  forall s, translate_th isH' (th_env isH' new x) (th_env isH g x) s = Ok s.
Proof.
  intros g mapping tpl del new mp' x isH isH' Hrun Hwf Hpos Hx Hnn Hd Hnb HH Hlen.
  pose proof (patcher_untouched_neighbours g mapping tpl del new mp' x Hrun Hwf Hpos Hx Hnn Hd) as Hn.
  assert (Hsame : nbr_ids new x = nbr_ids g x).
  { rewrite Hn. apply filter_all. intros m Hm. apply negb_true_iff. apply zmem_false. apply Hnb. exact Hm. }
  assert (Henv : th_env isH' new x = th_env isH g x).
  { unfold th_env. rewrite Hsame. apply filter_ext_in. intros m Hm. rewrite (HH m Hm). reflexivity. }
  split; [exact Henv|]. intros s. rewrite Henv. apply translate_th_same; [|exact Hlen].
  unfold th_env. apply NoDup_filter.
  destruct (wf_mol_facts g Hwf) as (_ & Hkeys & Hadj).
  unfold nbr_ids, nbrs. destruct (zget (m_adj g) x) as [bs|] eqn:Ebs; [|constructor].
  apply (Hadj x bs (zget_Some_In _ _ _ Ebs)).
Qed.

(* non-vacuity: (S)-alanine ethyl-like fragment: the centre 2 of CC(N)(O)F... keeps its order when a far atom is edited *)
Definition st_mol : mol :=
  mkMol [(1, mkAtom 6 None 0 false (Some 3) None); (2, mkAtom 6 None 0 false (Some 1) (Some true)); (3, mkAtom 7 None 0 false (Some 2) None);
         (4, mkAtom 6 None 0 false (Some 2) None); (5, mkAtom 8 None 0 false (Some 1) None)]
        [(1, [(2, mkBond 1 None)]); (2, [(1, mkBond 1 None); (3, mkBond 1 None); (4, mkBond 1 None)]); (3, [(2, mkBond 1 None)]);
         (4, [(2, mkBond 1 None); (5, mkBond 1 None)]); (5, [(4, mkBond 1 None)])].
(* [C:1][O:2] >> [A:1][S:2] on atoms 4, 5 *)
Definition st_tpl : template := mkTpl [(1, RAny 0 false); (2, RElem 16 None 0 false None)] [(1, [(2, mkBond 1 None)]); (2, [(1, mkBond 1 None)])].

Example untouched_centre_example :
  wf_mol st_mol = true /\
  exists new mp', patcher st_mol [(1, 4); (2, 5)] st_tpl [] = Ok (new, mp') /\
    ~ named st_tpl mp' 2 /\ th_env (fun _ => false) st_mol 2 = [1; 3; 4] /\ nbr_ids new 2 = [1; 3; 4] /\
    untouched_label [2] st_mol 2 = Some true.
Proof.
  split; [vm_compute; reflexivity|]. eexists _, _. split; [vm_compute; reflexivity|]. split.
  - intros (n & Hn & Hg). vm_compute in Hn. destruct Hn as [<-|[<-|[]]]; vm_compute in Hg; discriminate.
  - repeat split; vm_compute; reflexivity.
Qed.
