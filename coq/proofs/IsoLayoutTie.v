(* C18 / C09 tie: the encoders REGENERATED from chython/algorithms/isomorphism.py (Gen.IsoLayout, tools/gen_isolayout.py)
   are equal, for every atom / query atom / query bond, to the hand-written encoders of Model.IsoBits on which the C09
   theorems (mask test <-> reference __eq__) are proved.  A source edit of a mask literal, a shift offset, a threshold or
   the branch structure changes Gen.IsoLayout and breaks these equalities. *)
From Coq Require Import ZArith List Bool Lia.
From Model Require Import PyBase PeriodicTable IsoBits.
From Gen Require Import Elements IsoLayout.
Import ListNotations.
Open Scope Z_scope.

Definition T5 := (Z * Z * Z * Z * Z)%type.

Lemma fold5_spec (f : T5 -> Z -> T5) (g1 g2 g3 g4 g5 : Z -> Z -> Z) :
  (forall v1 v2 v3 v4 n x, f (v1, v2, v3, v4, n) x = (g1 v1 x, g2 v2 x, g3 v3 x, g4 v4 x, g5 n x)) ->
  forall l v1 v2 v3 v4 n,
    fold_left f l (v1, v2, v3, v4, n) =
    (fold_left g1 l v1, fold_left g2 l v2, fold_left g3 l v3, fold_left g4 l v4, fold_left g5 l n).
Proof.
  intros H l; induction l as [|x l IH]; intros v1 v2 v3 v4 n; cbn [fold_left]; [reflexivity|].
  rewrite H. apply IH.
Qed.

Lemma fold2_spec (f : Z * Z -> Z -> Z * Z) (g1 g2 : Z -> Z -> Z) :
  (forall v1 v2 x, f (v1, v2) x = (g1 v1 x, g2 v2 x)) ->
  forall l v1 v2, fold_left f l (v1, v2) = (fold_left g1 l v1, fold_left g2 l v2).
Proof.
  intros H l; induction l as [|x l IH]; intros v1 v2; cbn [fold_left]; [reflexivity|].
  rewrite H. apply IH.
Qed.

Lemma fold_keep (l : list Z) (v : Z) : fold_left (fun a _ => a) l v = v.
Proof. revert v; induction l as [|x l IH]; intros v; cbn [fold_left]; auto. Qed.

Lemma fold_ext {A B} (f g : A -> B -> A) : (forall a x, f a x = g a x) -> forall l a, fold_left f l a = fold_left g l a.
Proof. intros H l; induction l as [|x l IH]; intros a; cbn [fold_left]; [reflexivity|]. rewrite H; apply IH. Qed.

(* ---------------------------------------------------------------------------------------------------------------- *)
(* molecule side *)

Theorem g_enc_atom_eq (a : latom) : g_enc_atom a = enc_atom a.
Proof.
  destruct a as [num iso chg rad nb hyb h het rings].
  unfold g_enc_atom, g_enc_atom_t, g_s1, g_s2, g_s3, g_s4, g_s5, g_s6, g_s7, g_s8, enc_atom, clamp116, ring_bits, bit, nonempty;
    cbn [la_num la_iso la_chg la_rad la_nb la_hyb la_h la_het la_rings].
  cbv zeta.
  destruct (56 <? num); [destruct (116 <? num)|];
  (destruct (iso_truthy iso); destruct rad;
   (destruct rings as [|r0 rs]; [reflexivity|]);
   (erewrite (fold5_spec _ (fun v _ => v) (fun v _ => v) (fun v _ => v)
                (fun v4 r => if 65 <? r then v4 else Z.lor v4 (Z.shiftl 1 (65 - r))) (fun v _ => v))
     by (intros; destruct (65 <? x); reflexivity));
   rewrite !fold_keep;
   match goal with |- context [fold_left ?f ?l ?v =? 0] => destruct (fold_left f l v =? 0) end; reflexivity).
Qed.

(* ---------------------------------------------------------------------------------------------------------------- *)
(* query side: each hoisted statement is characterised up to the scratch variable n *)

Definition agrees (t : T5) (v1 v2 v3 v4 : Z) : Prop := exists n, t = (v1, v2, v3, v4, n).

Definition q_pre (q : qatom) : Z * Z * Z * Z :=
  match q with
  | QMetal nb hyb => (0x0060707ffc1fff87, 0xfffffff3fffffff0, 0xffffffffc0007fff, 0xffffffffffffffff)
  | QAny x => (0x01ffffffffffffff, 0xfffffffffffffff0, enc_x3 None 0 x, enc_x4 x)
  | QList nums x =>
      let '(v1, v2) := fold_left (fun acc n => let '(m1, m2) := elem_masks n in (Z.lor (fst acc) m1, Z.lor (snd acc) m2)) nums (0, 0) in
      (v1, v2, enc_x3 None 0 x, enc_x4 x)
  | QElem num iso x => let '(v1, v2) := elem_masks num in (v1, v2, enc_x3 iso num x, enc_x4 x)
  end.

Definition q_masks (q : qatom) : Z * Z := let '(v1, v2, _, _) := q_pre q in (v1, v2).

Lemma L_q2 a ob v1 v2 v3 v4 n : is_AnyMetal a = false ->
  agrees (g_q2 a ob (v1, v2, v3, v4, n)) (fst (q_masks a)) (snd (q_masks a)) v3 v4.
Proof.
  intros Hm. unfold g_q2, q_masks, q_pre, elem_masks, clamp116, bit.
  destruct a as [num iso x | x | nums x | nb hyb]; cbn [is_AnyMetal is_AnyElement is_ListElement qa_num qa_nums] in *; try discriminate.
  - cbv zeta. destruct (56 <? num); [destruct (116 <? num)|]; eexists; reflexivity.
  - eexists; reflexivity.
  - cbv zeta.
    erewrite (fold5_spec _ (fun v1 x => if 56 <? x then Z.lor v1 1 else Z.lor v1 (Z.shiftl 1 (57 - x)))
                (fun v2 x => if 56 <? x then Z.lor v2 (Z.shiftl 1 (120 - (if 116 <? x then 116 else x))) else v2)
                (fun v _ => v) (fun v _ => v) (fun _ x => if 56 <? x then if 116 <? x then 116 else x else x))
      by (intros; destruct (56 <? x0); [destruct (116 <? x0)|]; reflexivity).
    erewrite (fold2_spec _ (fun v1 x => if 56 <? x then Z.lor v1 1 else Z.lor v1 (Z.shiftl 1 (57 - x)))
                (fun v2 x => if 56 <? x then Z.lor v2 (Z.shiftl 1 (120 - (if 116 <? x then 116 else x))) else v2))
      by (intros; destruct (56 <? x0); cbn [fst snd]; try reflexivity; rewrite Z.lor_0_r; reflexivity).
    rewrite !fold_keep. eexists; reflexivity.
Qed.

Definition iso3 (a : qatom) : Z :=
  if iso_truthy (qa_iso a) then
    let d := py_or0 (qa_iso a) - mdl_of (qa_num a) in
    Z.lor (if (-8 <=? d) && (d <=? 8) then bit (d + 54) else 0) (if x_rad (qa_x a) then 0x200000000000 else 0x100000000000)
  else if x_rad (qa_x a) then 0xffffe00000000000 else 0xffffd00000000000.

Lemma L_q3 a ob v1 v2 v3 v4 n : agrees (g_q3 a ob (v1, v2, v3, v4, n)) v1 v2 (iso3 a) v4.
Proof.
  unfold g_q3, iso3, bit. cbv zeta.
  assert (E : (is_QueryElement a && iso_truthy (qa_iso a))%bool = iso_truthy (qa_iso a)) by (destruct a; reflexivity).
  rewrite E. destruct (iso_truthy (qa_iso a)).
  - destruct ((-8 <=? py_or0 (qa_iso a) - mdl_of (qa_num a)) && (py_or0 (qa_iso a) - mdl_of (qa_num a) <=? 8))%bool;
      destruct (x_rad (qa_x a)); eexists; reflexivity.
  - destruct (x_rad (qa_x a)); eexists; reflexivity.
Qed.

Lemma L_q4 a ob v1 v2 v3 v4 n : agrees (g_q4 a ob (v1, v2, v3, v4, n)) v1 v2 (or_field_h (x_h (qa_x a)) v3) v4.
Proof.
  unfold g_q4, or_field_h, or_bits_h, bit, nonempty. cbv zeta.
  destruct (x_h (qa_x a)) as [|h0 hs]; cbn [negb]; [eexists; reflexivity|].
  erewrite (fold5_spec _ (fun v _ => v) (fun v _ => v) (fun v3 h => if 4 <? h then v3 else Z.lor v3 (Z.shiftl 1 (h + 30)))
              (fun v _ => v) (fun v _ => v))
    by (intros; destruct (4 <? x); reflexivity).
  rewrite !fold_keep. eexists; reflexivity.
Qed.

Lemma L_q5 a ob v1 v2 v3 v4 n : agrees (g_q5 a ob (v1, v2, v3, v4, n)) v1 v2 (or_field (fun n => n) 0x7fff (x_het (qa_x a)) v3) v4.
Proof.
  unfold g_q5, or_field, or_bits, bit, nonempty. cbv zeta.
  destruct (x_het (qa_x a)) as [|h0 hs]; cbn [negb]; [eexists; reflexivity|].
  erewrite (fold5_spec _ (fun v _ => v) (fun v _ => v) (fun v3 x => Z.lor v3 (Z.shiftl 1 x)) (fun v _ => v) (fun _ x => x))
    by (intros; reflexivity).
  rewrite !fold_keep. eexists; reflexivity.
Qed.

Lemma L_q6 a ob v1 v2 v3 v4 n : agrees (g_q6 a ob (v1, v2, v3, v4, n)) v1 v2 v3 (enc_x4 (qa_x a)).
Proof.
  unfold g_q6, enc_x4, ring_bits, bit, nonempty. cbv zeta.
  destruct (x_rings (qa_x a)) as [|r0 rs]; [eexists; reflexivity|]. cbn [hd].
  destruct (negb (r0 =? 0)); [|eexists; reflexivity].
  erewrite (fold5_spec _ (fun v _ => v) (fun v _ => v) (fun v _ => v)
              (fun v4 r => if 65 <? r then v4 else Z.lor v4 (Z.shiftl 1 (65 - r))) (fun v _ => v))
    by (intros; destruct (65 <? x); reflexivity).
  rewrite !fold_keep.
  match goal with |- context [fold_left ?f ?l ?v =? 0] => destruct (fold_left f l v =? 0) end; eexists; reflexivity.
Qed.

Lemma L_q7 a ob v1 v2 v3 v4 n : agrees (g_q7 a ob (v1, v2, v3, v4, n)) v1 v2 (or_field (fun n => n + 15) 0x3fff8000 (qa_nb a) v3) v4.
Proof.
  unfold g_q7, g_q8, or_field, or_bits, bit, nonempty. cbv zeta.
  destruct (qa_nb a) as [|h0 hs]; cbn [negb]; [eexists; reflexivity|].
  erewrite (fold5_spec _ (fun v _ => v) (fun v _ => v) (fun v3 x => Z.lor v3 (Z.shiftl 1 (x + 15))) (fun v _ => v) (fun _ x => x))
    by (intros; reflexivity).
  rewrite !fold_keep. eexists; reflexivity.
Qed.

Lemma L_q9 a ob v1 v2 v3 v4 n : agrees (g_q9 a ob (v1, v2, v3, v4, n)) v1 (or_field (fun n => n - 1) 0xf (qa_hyb a) v2) v3 v4.
Proof.
  unfold g_q9, g_q10, or_field, or_bits, bit, nonempty. cbv zeta.
  destruct (qa_hyb a) as [|h0 hs]; cbn [negb]; [eexists; reflexivity|].
  erewrite (fold5_spec _ (fun v _ => v) (fun v2 x => Z.lor v2 (Z.shiftl 1 (x - 1))) (fun v _ => v) (fun v _ => v) (fun _ x => x))
    by (intros; reflexivity).
  rewrite !fold_keep. eexists; reflexivity.
Qed.

Lemma L_q11 a ob v1 v2 v3 v4 n :
  agrees (g_q11 a ob (v1, v2, v3, v4, n))
         (match ob with None => v1 | Some qb => Z.lor (qorder_bits (qb_ord qb) v1) (qring_bits (qb_ring qb)) end) v2 v3 v4.
Proof.
  unfold g_q11, qorder_bits, qring_bits. cbv zeta.
  destruct ob as [b|]; [|eexists; reflexivity].
  erewrite (fold5_spec _ (fun v1 o => Z.lor v1 (order_bit o)) (fun v _ => v) (fun v _ => v) (fun v _ => v) (fun v _ => v))
    by (intros; unfold order_bit; destruct (Z.eqb_spec x 1), (Z.eqb_spec x 4), (Z.eqb_spec x 2), (Z.eqb_spec x 3); try lia; reflexivity).
  rewrite !fold_keep.
  destruct (qb_ring b) as [[|]|]; eexists; reflexivity.
Qed.

Lemma L_q1 a ob n : let '(p1, p2, p3, p4) := q_pre a in agrees (g_q1 a ob (0, 0, 0, 0, n)) p1 p2 p3 p4.
Proof.
  destruct (is_AnyMetal a) eqn:Hm.
  - destruct a; try discriminate. unfold g_q1, q_pre; cbn [is_AnyMetal]. eexists; reflexivity.
  - assert (Hx : q_pre a = (fst (q_masks a), snd (q_masks a),
                            or_field (fun n => n) 0x7fff (x_het (qa_x a)) (or_field_h (x_h (qa_x a)) (Z.lor (iso3 a) (bit (x_chg (qa_x a) + 39)))),
                            enc_x4 (qa_x a))).
    { unfold q_masks, q_pre, enc_x3, iso3. destruct a as [num iso x | x | nums x | nb hyb]; try discriminate;
        cbn [qa_x qa_iso qa_num iso_truthy py_or0]; try reflexivity.
      - destruct (elem_masks num); reflexivity.
      - destruct (fold_left _ nums (0, 0)); reflexivity. }
    rewrite Hx. unfold g_q1. rewrite Hm.
    destruct (L_q2 a ob 0 0 0 0 n Hm) as [n2 E2]; rewrite E2.
    destruct (L_q3 a ob (fst (q_masks a)) (snd (q_masks a)) 0 0 n2) as [n3 E3]; rewrite E3. cbv zeta.
    match goal with |- context [g_q4 a ob (?a1, ?a2, ?a3, ?a4, ?a5)] => destruct (L_q4 a ob a1 a2 a3 a4 a5) as [n4 E4]; rewrite E4 end.
    match goal with |- context [g_q5 a ob (?a1, ?a2, ?a3, ?a4, ?a5)] => destruct (L_q5 a ob a1 a2 a3 a4 a5) as [n5 E5]; rewrite E5 end.
    match goal with |- context [g_q6 a ob (?a1, ?a2, ?a3, ?a4, ?a5)] => destruct (L_q6 a ob a1 a2 a3 a4 a5) as [n6 E6]; rewrite E6 end.
    unfold bit. eexists; reflexivity.
Qed.

Theorem g_enc_qatom_eq (q : qatom) (b : option qbond) : g_enc_qatom q b = enc_qatom q b.
Proof.
  unfold g_enc_qatom, g_enc_qatom_t. cbv zeta.
  pose proof (L_q1 q b 0) as H1.
  assert (Hm : enc_qatom q b =
               let '(p1, p2, p3, p4) := q_pre q in
               mkB4 (match b with None => p1 | Some qb => Z.lor (qorder_bits (qb_ord qb) p1) (qring_bits (qb_ring qb)) end)
                    (or_field (fun n => n - 1) 0xf (qa_hyb q) p2) (or_field (fun n => n + 15) 0x3fff8000 (qa_nb q) p3) p4).
  { unfold enc_qatom, q_pre. destruct q as [num iso x | x | nums x | nb hyb]; cbn [qa_hyb qa_nb qa_x]; try reflexivity.
    - destruct (elem_masks num); reflexivity.
    - destruct (fold_left _ nums (0, 0)); reflexivity. }
  rewrite Hm. destruct (q_pre q) as [[[p1 p2] p3] p4].
  destruct H1 as [n1 E1]; rewrite E1.
  destruct (L_q7 q b p1 p2 p3 p4 n1) as [n7 E7]; rewrite E7.
  match goal with |- context [g_q9 q b (?a1, ?a2, ?a3, ?a4, ?a5)] => destruct (L_q9 q b a1 a2 a3 a4 a5) as [n9 E9]; rewrite E9 end.
  match goal with |- context [g_q11 q b (?a1, ?a2, ?a3, ?a4, ?a5)] => destruct (L_q11 q b a1 a2 a3 a4 a5) as [n11 E11]; rewrite E11 end.
  reflexivity.
Qed.
