(* C04 round 4 -- tie by translation: Gen.ValenceBodies is regenerated on every run by tools/gen_valence_bodies.py, which
   translates the BODIES of Element._compiled_valence_rules, Element.valence_rules and Element.atomic_mass statement by
   statement (Python ast, fail closed).  The hand-written Valence.compiled_rules / valence_rules / atomic_mass_e24 are equal
   to the translated bodies on every element of the generated table, so every theorem of C04 about the compiled tables is a
   theorem about what the translated source computes, and an edit of these bodies that changes a table, a lookup or a mass
   breaks one of these lemmas. *)
From Coq Require Import ZArith List String Bool Lia.
From Model Require Import PyBase Graph PeriodicTable Valence ValenceSrcLib.
From Gen Require Import Elements ValenceBodies.
Import ListNotations.
Open Scope Z_scope.

Lemma map_eq_In {A B : Type} (f g : A -> B) (l : list A) : map f l = map g l -> forall x, In x l -> f x = g x.
Proof.
  induction l as [|a r IH]; cbn [map]; intros H x []; inversion H; subst; auto.
Qed.

Lemma compiled_sweep : map src_compiled_valence_rules elements = map compiled_rules elements.
Proof. vm_compute. reflexivity. Qed.

Theorem compiled_rules_follow_source e : In e elements -> src_compiled_valence_rules e = compiled_rules e.
Proof. apply (map_eq_In _ _ _ compiled_sweep). Qed.

Theorem valence_rules_follow_source e c r v : In e elements -> src_valence_rules e c r v = valence_rules e c r v.
Proof.
  intros H. unfold src_valence_rules, valence_rules, lookup_rules. rewrite (compiled_rules_follow_source e H).
  destruct (compiled_rules e) as [t|x]; cbn [pbind]; [|reflexivity].
  unfold src_valence_rules_in, py_rtable_get. destruct (rt_get t (c, r, v)); reflexivity.
Qed.

(* non-vacuity / what the lookup means: carbon, neutral, sum of bond orders 3 -> one rule, 1 hydrogen; no entry -> ValenceError *)
Example valence_rules_source_example :
  src_valence_rules el_C 0 false 3 = Ok [mkRule [] [] 1] /\ src_valence_rules el_C 0 false 5 = Err ValenceError /\ In el_C elements.
Proof. split; [vm_compute; reflexivity|]. split; [vm_compute; reflexivity|]. vm_compute. tauto. Qed.

Lemma from_number_sweep : forallb (fun e => match from_number (e_num e) with Some e' => true | None => false end) elements = true.
Proof. vm_compute. reflexivity. Qed.

Lemma avg_sweep : map (fun e => src_atomic_mass e None) elements = map (fun e => atomic_mass_e24 (e_num e) None) elements.
Proof. vm_compute. reflexivity. Qed.
Lemma mass_table_sweep : map (fun e => option_map e_mass (from_number (e_num e))) elements = map (fun e => Some (e_mass e)) elements.
Proof. vm_compute. reflexivity. Qed.

(* Element.atomic_mass: for EVERY isotope label (tabulated or not) the hand model is the translated body *)
Theorem atomic_mass_follows_source e iso : In e elements -> src_atomic_mass e iso = atomic_mass_e24 (e_num e) iso.
Proof.
  intros H. destruct iso as [i|]; [|exact (map_eq_In _ _ _ avg_sweep e H)].
  pose proof (map_eq_In _ _ _ mass_table_sweep e H) as M. cbn beta in M.
  unfold src_atomic_mass, atomic_mass_e24, is_none, py_some, py_decdict_get, iso_mass_e24. cbn [pbind].
  destruct (from_number (e_num e)) as [e'|]; [|discriminate]. cbn [option_map] in M. inversion M as [M']. rewrite M'.
  destruct (zget (e_mass e) i); reflexivity.
Qed.

(* a labelled atom weighs its isotope - also when the label is the most common isotope (mdl_isotope), where the natural
   average is a different number: [12C] is 12 u exactly, C is 12.0107 u *)
Theorem labelled_mass_is_isotope_mass e i m : In e elements -> zget (e_mass e) i = Some m ->
  src_atomic_mass e (Some i) = Ok (dec_scale m 12 * 10 ^ 12) /\ atomic_mass_e24 (e_num e) (Some i) = Ok (dec_scale m 12 * 10 ^ 12).
Proof.
  intros H Hm. rewrite <- (atomic_mass_follows_source e (Some i) H). 
  assert (E : src_atomic_mass e (Some i) = Ok (dec_scale m 12 * 10 ^ 12)).
  { unfold src_atomic_mass, is_none, py_some, py_decdict_get. cbn [pbind]. rewrite Hm. reflexivity. }
  split; exact E.
Qed.
Example common_isotope_label_matters :
  e_mdl el_C = 12 /\ atomic_mass_e24 6 (Some 12) = Ok (12 * 10 ^ 24) /\ atomic_mass_e24 6 None = Ok 12010735898500000000000000 /\
  src_atomic_mass el_C (Some 12) = Ok (12 * 10 ^ 24) /\ src_atomic_mass el_C (Some 1) = Err KeyError.
Proof. repeat split; vm_compute; reflexivity. Qed.
