(* The CXSMILES fragment-contraction block of smiles() as TRANSLATED from /repo's source on every run (tools/gen_c03cx.py ->
   Gen.ContractBody) is the hand-written model Model.Reader.contract_roles:
     contract_loop_translated   the translated body of `for c in contract:` folded over the groups = cr_go (groups are non-empty: a group
                                of the CX block has at least two members);
     contract_translated        the whole translated block (index sets with their bounds, the loop, the three filling loops with their
                                index shifts, the three slices with Python's slice semantics) = contract_roles, for every reaction and
                                every list of non-empty groups.
   C03_contract_spec_correct / C03_cx_block_contract_spec are theorems about contract_roles, hence about the translation. *)
From Coq Require Import ZArith List Bool Ascii String Lia.
From Model Require Import PyBase Tokenize Parser Reader ContractPrims.
From Gen Require Import ContractBody.
Import ListNotations.
Open Scope Z_scope.

Lemma contract_loop_translated R P G lr lp mc : forall cs st, Forall (fun c => c <> []) cs ->
  cfold (gen_cr_step R P G lr lp mc) st cs = cr_go R P G lr mc cs st.
Proof.
  induction cs as [|c r IH]; intros st H; cbn [cfold cr_go]; [reflexivity|].
  inversion H as [|? ? Hc Hr]; subst. destruct st as [[[sr sg] sp] nm]. destruct c as [|x c']; [contradiction|].
  unfold gen_cr_step, cbind. cbn [py_head].
  destruct (subset_z (x :: c') sr).
  { destruct (cr_joined R 0 (x :: c')); [|reflexivity]. destruct (cr_set_new nm x a); [apply IH; exact Hr | reflexivity]. }
  destruct (subset_z (x :: c') sp).
  { destruct (cr_joined P mc (x :: c')); [|reflexivity]. destruct (cr_set_new nm x a); [apply IH; exact Hr | reflexivity]. }
  destruct (subset_z (x :: c') sg).
  { destruct (cr_joined G lr (x :: c')); [|reflexivity]. destruct (cr_set_new nm x a); [apply IH; exact Hr | reflexivity]. }
  apply IH. exact Hr.
Qed.

(* ---- new_molecules keeps its length *)
Lemma list_set_len {A} (l : list A) : forall i v l', list_set l i v = Some l' -> List.length l' = List.length l.
Proof.
  induction l as [|x r IH]; intros i v l' H; cbn in H; [discriminate|]. destruct i as [|i].
  - inversion H; subst. reflexivity.
  - destruct (list_set r i v) eqn:E; [|discriminate]. inversion H; subst. cbn. f_equal. eapply IH. exact E.
Qed.

Lemma cr_set_new_len nm i v nm' : cr_set_new nm i v = Ok nm' -> List.length nm' = List.length nm.
Proof.
  unfold cr_set_new. destruct (i <? 0); [discriminate|]. destruct (list_set nm (Z.to_nat i) (Some v)) eqn:E; [|discriminate].
  intros H. inversion H; subst. eapply list_set_len. exact E.
Qed.

Lemma cr_fill_len src shift : forall xs nm nm', cr_fill src shift xs nm = Ok nm' -> List.length nm' = List.length nm.
Proof.
  induction xs as [|x r IH]; intros nm nm' H; cbn [cr_fill] in H; [inversion H; reflexivity|].
  destruct (py_nth src (x - shift)); [|discriminate]. destruct (cr_set_new nm x a) eqn:E; [|discriminate].
  rewrite (IH _ _ H). eapply cr_set_new_len. exact E.
Qed.

Lemma cr_go_len R P G lr mc : forall cs st st', cr_go R P G lr mc cs st = Ok st' -> List.length (snd st') = List.length (snd st).
Proof.
  induction cs as [|c r IH]; intros st st' H; cbn [cr_go] in H; [inversion H; reflexivity|].
  destruct st as [[[sr sg] sp] nm]. cbv zeta in H.
  destruct (subset_z c sr).
  { destruct (cr_joined R 0 c); [|discriminate]. destruct (cr_set_new nm _ a) eqn:E; [|discriminate].
    rewrite (IH _ _ H). cbn [snd]. eapply cr_set_new_len. exact E. }
  destruct (subset_z c sp).
  { destruct (cr_joined P mc c); [|discriminate]. destruct (cr_set_new nm _ a) eqn:E; [|discriminate].
    rewrite (IH _ _ H). cbn [snd]. eapply cr_set_new_len. exact E. }
  destruct (subset_z c sg).
  { destruct (cr_joined G lr c); [|discriminate]. destruct (cr_set_new nm _ a) eqn:E; [|discriminate].
    rewrite (IH _ _ H). cbn [snd]. eapply cr_set_new_len. exact E. }
  apply (IH _ _ H).
Qed.

(* ---- Python slices with bounds inside the list *)
Lemma norm_in (n k : Z) : 0 <= k <= n -> Z.max 0 (Z.min (if k <? 0 then k + n else k) n) = k.
Proof. intros H. assert (k <? 0 = false) as -> by (apply Z.ltb_ge; lia). lia. Qed.

Lemma slice_head {A} (l : list A) k : 0 <= k <= Z.of_nat (List.length l) -> py_slice l None (Some k) = firstn (Z.to_nat k) l.
Proof. intros H. unfold py_slice. cbv zeta. rewrite (norm_in _ k H). rewrite Z.sub_0_r. reflexivity. Qed.

Lemma slice_tail {A} (l : list A) k : 0 <= k <= Z.of_nat (List.length l) -> py_slice l (Some k) None = skipn (Z.to_nat k) l.
Proof.
  intros H. unfold py_slice. cbv zeta. rewrite (norm_in _ k H). apply firstn_all2. rewrite skipn_length. lia.
Qed.

Lemma slice_mid {A} (l : list A) a b : 0 <= a <= b -> b <= Z.of_nat (List.length l) ->
  py_slice l (Some a) (Some b) = skipn (Z.to_nat a) (firstn (Z.to_nat b) l).
Proof.
  intros H1 H2. unfold py_slice. cbv zeta. rewrite (norm_in _ a) by lia. rewrite (norm_in _ b) by lia.
  rewrite skipn_firstn_comm. f_equal. lia.
Qed.

Theorem contract_translated : forall contract R P G, Forall (fun c => c <> []) contract ->
  gen_contract_roles contract R P G (Z.of_nat (List.length R) + Z.of_nat (List.length P) + Z.of_nat (List.length G)) =
  contract_roles contract R P G.
Proof.
  intros contract R P G H. unfold gen_contract_roles, contract_roles. cbv zeta.
  set (lr := Z.of_nat (List.length R)). set (lp := Z.of_nat (List.length P)). set (mc := lr + lp + Z.of_nat (List.length G)).
  rewrite (contract_loop_translated R P G lr lp mc contract _ H). unfold cbind.
  destruct (cr_go R P G lr mc contract _) as [[[[sr sg] sp] nm]|] eqn:E; [|reflexivity].
  apply cr_go_len in E. cbn [snd] in E. rewrite repeat_length in E.
  destruct (cr_fill R 0 sr nm) as [nm1|] eqn:F1; [|reflexivity]. apply cr_fill_len in F1.
  destruct (cr_fill P mc sp nm1) as [nm2|] eqn:F2; [|reflexivity]. apply cr_fill_len in F2.
  destruct (cr_fill G lr sg nm2) as [nm3|] eqn:F3; [|reflexivity]. apply cr_fill_len in F3.
  assert (L : List.length nm3 = Z.to_nat mc) by congruence.
  assert (Hlr : 0 <= lr) by (unfold lr; lia). assert (Hlp : 0 <= lp) by (unfold lp; lia).
  assert (Hmc : lr + lp <= mc) by (unfold mc; lia).
  rewrite slice_head by (rewrite L; lia). rewrite slice_tail by (rewrite L; lia). rewrite slice_mid by (try rewrite L; lia).
  rewrite L. replace (Z.to_nat mc - Z.to_nat lp)%nat with (Z.to_nat (mc - lp)) by lia. reflexivity.
Qed.

Example contract_translated_example :
  gen_contract_roles [[2; 3]; [10; 11]]
    (map list_ascii_of_string ["C"; "O"; "N"; "S"; "C"; "O"; "N"; "S"; "C"; "O"; "[Na+]"; "[Cl-]"]%string) (map list_ascii_of_string ["CC"]%string) [] 13 =
  Ok (map list_ascii_of_string ["C"; "O"; "N.S"; "C"; "O"; "N"; "S"; "C"; "O"; "[Na+].[Cl-]"]%string, map list_ascii_of_string ["CC"]%string, []) /\
  gen_contract_roles [[1; 2]] (map list_ascii_of_string ["C"]%string) (map list_ascii_of_string ["S"]%string) (map list_ascii_of_string ["O"; "N"]%string) 4 =
  Ok (map list_ascii_of_string ["C"]%string, map list_ascii_of_string ["S"]%string, map list_ascii_of_string ["O.N"]%string).
Proof. split; vm_compute; reflexivity. Qed.
