(* C11: the strict mode of postprocess_parsed_reaction (ignore=False, what mdl_rxn(..., ignore=False) and the readers' ignore=False use)
   either raises MappingError or returns EXACTLY what the tolerant mode returns -- for every record and both settings of remap. *)
From Coq Require Import ZArith List String Ascii Bool Lia.
From Model Require Import PyBase Mdl MdlMap MdlMapRxn.
Import ListNotations.
Open Scope Z_scope.
Local Notation length := List.length.

Lemma foldM_mono {A S} (f g : S -> A -> pyres S) : (forall s x s', f s x = Ok s' -> g s x = Ok s') ->
  forall l s s', foldM f l s = Ok s' -> foldM g l s = Ok s'.
Proof.
  intros H. induction l as [|a l IH]; intros s s' H0; cbn [foldM] in *; [exact H0|].
  destruct (f s a) as [s1|] eqn:E; cbn [bind] in H0; [| discriminate]. rewrite (H _ _ _ E). cbn [bind]. apply IH. exact H0.
Qed.
Lemma m1_step_mono st m s : m1_step false st m = Ok s -> m1_step true st m = Ok s.
Proof. unfold m1_step. destruct (map_val m =? 0); [auto|]. destruct (zmem (map_val m) (m1_used st)); [discriminate | auto]. Qed.
Lemma pp_step_mono st m s : pp_step false st m = Ok s -> pp_step true st m = Ok s.
Proof. unfold pp_step. destruct (map_val m =? 0); [auto|]. destruct (zmem (map_val m) (pp_used st)); [discriminate | auto]. Qed.
Lemma m1_molecule_mono ms r : m1_molecule false ms = Ok r -> m1_molecule true ms = Ok r.
Proof.
  unfold m1_molecule. destruct (foldM (m1_step false) ms (mk_m1 [] [] 0%nat)) as [st|] eqn:E; cbn [bind]; [| discriminate].
  rewrite (foldM_mono _ _ m1_step_mono _ _ _ E). auto.
Qed.
Lemma m1_role_mono mols r : m1_role false mols = Ok r -> m1_role true mols = Ok r.
Proof.
  unfold m1_role. apply foldM_mono. intros acc ms s'. destruct (m1_molecule false ms) as [x|] eqn:E; cbn [bind]; [| discriminate].
  rewrite (m1_molecule_mono _ _ E). auto.
Qed.
Lemma ppr_role_mono c l tmp r : ppr_role false c l tmp = Ok r -> ppr_role true c l tmp = Ok r.
Proof.
  unfold ppr_role. destruct (foldM (pp_step false) (map Some tmp) (mk_pp c [] [] l)) as [st|] eqn:E; cbn [bind]; [| discriminate].
  rewrite (foldM_mono _ _ pp_step_mono _ _ _ E). auto.
Qed.
Lemma ppr_reagents_mono rc pr rg c l r : ppr_reagents false rc pr rg c l = Ok r -> ppr_reagents true rc pr rg c l = Ok r.
Proof. unfold ppr_reagents. destruct (existsb (fun x => zmem x rc || zmem x pr) rg); [discriminate | auto]. Qed.

Theorem pp_reaction_strict_refines : forall remap R P G r, pp_reaction remap false R P G = Ok r -> pp_reaction remap true R P G = Ok r.
Proof.
  intros remap R P G r H. unfold pp_reaction in *.
  destruct (m1_role false R) as [a|] eqn:Ea; [| discriminate]. rewrite (m1_role_mono _ _ Ea). cbn [bind] in *.
  destruct (m1_role false P) as [p|] eqn:Ep; [| discriminate]. rewrite (m1_role_mono _ _ Ep). cbn [bind] in *.
  destruct (m1_role false G) as [g|] eqn:Eg; [| discriminate]. rewrite (m1_role_mono _ _ Eg). cbn [bind] in *.
  destruct (ppr_role false (ppr_start (fst a) (fst p) (fst g)) 0%nat (fst a)) as [[[rc n1] l1]|] eqn:E1; [| discriminate].
  rewrite (ppr_role_mono _ _ _ _ E1). cbn [bind] in *.
  destruct (ppr_role false n1 l1 (fst p)) as [[[pr n2] l2]|] eqn:E2; [| discriminate]. rewrite (ppr_role_mono _ _ _ _ E2). cbn [bind] in *.
  destruct (ppr_role false n2 l2 (fst g)) as [[[rg n3] l3]|] eqn:E3; [| discriminate]. rewrite (ppr_role_mono _ _ _ _ E3). cbn [bind] in *.
  destruct (ppr_reagents false rc pr rg n3 l3) as [[[rg' n4] l4]|] eqn:E4; [| discriminate]. rewrite (ppr_reagents_mono _ _ _ _ _ _ E4). cbn [bind] in *.
  exact H.
Qed.
(* and the strict mode raises nothing but MappingError (a ValueError) *)
Theorem pp_reaction_strict_error : forall remap R P G e, pp_reaction remap false R P G = Err e -> e = ValueError.
Proof.
  intros remap R P G e H. destruct (pp_reaction remap false R P G) as [r|e'] eqn:E; [discriminate|]. inversion H; subst e'. clear H.
  unfold pp_reaction in E.
  assert (M1 : forall ms U O l e0, foldM (m1_step false) ms (mk_m1 U O l) = Err e0 -> e0 = ValueError).
  { induction ms as [|m ms IH]; intros U O l e0 H0; cbn [foldM] in H0; [discriminate|].
    unfold m1_step at 1 in H0. cbn [m1_used m1_out m1_log] in H0.
    destruct (map_val m =? 0); cbn [bind] in H0; [exact (IH _ _ _ _ H0)|].
    destruct (zmem (map_val m) U); cbn [bind] in H0; [inversion H0; reflexivity | exact (IH _ _ _ _ H0)]. }
  assert (M2 : forall mols acc e0, foldM (fun acc ms => do r <- m1_molecule false ms; Ok (fst acc ++ fst r, snd acc ++ [snd r])) mols acc = Err e0 -> e0 = ValueError).
  { induction mols as [|ms mols IH]; intros acc e0 H0; cbn [foldM] in H0; [discriminate|].
    unfold m1_molecule at 1 in H0. destruct (foldM (m1_step false) ms (mk_m1 [] [] 0%nat)) as [st|e1] eqn:E1; cbn [bind] in H0.
    - exact (IH _ _ H0).
    - inversion H0; subst. exact (M1 _ _ _ _ _ E1). }
  assert (M3 : forall tmp st e0, foldM (pp_step false) tmp st = Err e0 -> e0 = ValueError).
  { induction tmp as [|m tmp IH]; intros st e0 H0; cbn [foldM] in H0; [discriminate|].
    unfold pp_step at 1 in H0. destruct (map_val m =? 0); cbn [bind] in H0; [exact (IH _ _ H0)|].
    destruct (zmem (map_val m) (pp_used st)); cbn [bind] in H0; [inversion H0; reflexivity | exact (IH _ _ H0)]. }
  assert (M4 : forall c l tmp e0, ppr_role false c l tmp = Err e0 -> e0 = ValueError).
  { intros c l tmp e0 H0. unfold ppr_role in H0. destruct (foldM (pp_step false) (map Some tmp) (mk_pp c [] [] l)) as [st|e1] eqn:E1; cbn [bind] in H0; [discriminate|].
    inversion H0; subst. exact (M3 _ _ _ E1). }
  unfold m1_role in E.
  destruct (foldM _ R ([], [])) as [a|e1] eqn:Ea; cbn [bind] in E; [| inversion E; subst; exact (M2 _ _ _ Ea)].
  destruct (foldM _ P ([], [])) as [p|e1] eqn:Ep; cbn [bind] in E; [| inversion E; subst; exact (M2 _ _ _ Ep)].
  destruct (foldM _ G ([], [])) as [g|e1] eqn:Eg; cbn [bind] in E; [| inversion E; subst; exact (M2 _ _ _ Eg)].
  destruct (ppr_role false _ 0%nat (fst a)) as [[[rc n1] l1]|e1] eqn:E1; cbn [bind] in E; [| inversion E; subst; exact (M4 _ _ _ _ E1)].
  destruct (ppr_role false n1 l1 (fst p)) as [[[pr n2] l2]|e1] eqn:E2; cbn [bind] in E; [| inversion E; subst; exact (M4 _ _ _ _ E2)].
  destruct (ppr_role false n2 l2 (fst g)) as [[[rg n3] l3]|e1] eqn:E3; cbn [bind] in E; [| inversion E; subst; exact (M4 _ _ _ _ E3)].
  unfold ppr_reagents in E. destruct (existsb (fun x => zmem x rc || zmem x pr) rg); cbn [bind] in E; [inversion E; reflexivity | discriminate].
Qed.
